(* C08: a regular QR run over the rationals (non-vacuity of C08_qr): the 2 x 1 input (1, 0) with an
   oracle that knows sqrt 1 = 1 and sqrt 4 = 2 (u = (2, 0), the reflection is diag(-1, 1)).
   (mathcomp / ssreflect style; small numbers on purpose: rational arithmetic on unary numerals
   is slow under `rewrite`) *)
From Coq Require Import PeanoNat List.
From mathcomp Require Import all_ssreflect all_algebra.
From EasyML Require Import Base.Sx Model.Num Model.LinAlg Model.Decomp Proofs.C07P1 Proofs.C08P3 Proofs.C08P4.
Import GRing.Theory Num.Theory.
Local Open Scope ring_scope.

Definition sq_example (x : rat) : rat := if x == 1 then 1 else 2%:R.
Definition m_example : list (list rat) := [:: [:: 1]; [:: 0]].

Lemma qr_example :
  wf2 2 1 m_example /\ (exists q r, qr (rops sq_example) m_example = Some (q, r)) /\
  qr_regular sq_example 2 (List.seq 0 (Nat.min (2 - 1) 1)) m_example.
Proof.
  split; first by split; [|repeat constructor].
  split.
  { case E: (qr (rops sq_example) m_example) => [[q r]|]; first by exists q, r.
    move/qr_absent_iff: E. rewrite /mrows /mcols /= => H. by inversion H as [|? H']; inversion H'. }
  rewrite /m_example /= /householder_u /euclidean_length /sumsq /= /sq_example.
  rewrite !add0r !mulr0 !addr0 !mulr1 eqxx.
  have E2 : (1 + 1) * (1 + 1) = 4%:R :> rat by rewrite -[1]/(1%:R) -natrD -natrM.
  rewrite E2.
  split; first by apply/eqP; rewrite pnatr_eq0.
  by [].
Qed.

From EasyML Require Import Proofs.C08P8.
(* the same run also meets the extra hypothesis of the triangularity theorem *)
Lemma qr_example_lengths : qr_lengths_ok sq_example 2 (List.seq 0 (Nat.min (2 - 1) 1)) m_example.
Proof.
  rewrite /m_example /= /sumsq /= /sq_example.
  by rewrite !add0r !mulr0 !addr0 !mulr1 ?eqxx ?mulr1.
Qed.
