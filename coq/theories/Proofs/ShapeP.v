(* Lemmas about the shared index algebra of Model/Shape.v: row-major flattening is a bijection
   between in-range index tuples and [0, elements); get_index_direct computes it exactly when
   every coordinate is in range; validation accepts exactly the valid shapes whose element count
   matches; DimensionMappings::new accepts exactly the permutations and produces the two position
   tables. All for arbitrary dimensionality. *)
From Coq Require Import List ZArith NArith Bool Arith Lia Permutation.
From EasyML Require Import Base.Sx Model.Shape.
Import ListNotations.
Open Scope N_scope.

(* ---------- specification-level notions ---------- *)

(* row-major position, most significant dimension first *)
Fixpoint flat (idx lens : list N) : N :=
  match idx, lens with
  | i :: idx', l :: lens' => i * prod lens' + flat idx' lens'
  | _, _ => 0
  end.

Fixpoint in_range (idx lens : list N) : Prop :=
  match idx, lens with
  | [], [] => True
  | i :: idx', l :: lens' => i < l /\ in_range idx' lens'
  | _, _ => False
  end.

Fixpoint in_range_b (idx lens : list N) : bool :=
  match idx, lens with
  | [], [] => true
  | i :: idx', l :: lens' => (i <? l) && in_range_b idx' lens'
  | _, _ => false
  end.

Definition valid_shape (sh : shape) : Prop :=
  NoDup (names_of sh) /\ Forall (fun l => 0 < l) (lens_of sh).

Lemma in_range_b_spec idx lens : in_range_b idx lens = true <-> in_range idx lens.
Proof.
  revert lens; induction idx as [|i idx IH]; intros [|l lens]; cbn [in_range_b in_range];
    try (split; [discriminate|tauto]); try tauto.
  rewrite andb_true_iff, N.ltb_lt, IH. tauto.
Qed.

Lemma in_range_length idx lens : in_range idx lens -> length idx = length lens.
Proof.
  revert lens; induction idx as [|i idx IH]; intros [|l lens]; cbn [in_range length]; try tauto.
  intros [_ H]. f_equal. auto.
Qed.

(* ---------- products and strides ---------- *)

Lemma prod_cons l ls : prod (l :: ls) = l * prod ls. Proof. reflexivity. Qed.
Lemma prod_nil : prod [] = 1. Proof. reflexivity. Qed.

Lemma prod_pos ls : Forall (fun l => 0 < l) ls -> 0 < prod ls.
Proof.
  induction 1 as [|l ls Hl _ IH]; [rewrite prod_nil; lia|]. rewrite prod_cons. nia.
Qed.

Lemma prod_app l1 l2 : prod (l1 ++ l2) = prod l1 * prod l2.
Proof. induction l1 as [|x l1 IH]; cbn [app]; rewrite ?prod_cons, ?prod_nil; [lia|]. rewrite IH. lia. Qed.

Lemma strides_cons n l sh :
  compute_strides ((n, l) :: sh) = prod (lens_of sh) :: compute_strides sh.
Proof.
  unfold compute_strides. cbn [length seq map skipn lens_of snd]. f_equal.
  rewrite <- seq_shift, map_map. apply map_ext. intros d. reflexivity.
Qed.

Lemma strides_length sh : length (compute_strides sh) = length sh.
Proof. unfold compute_strides. rewrite map_length, seq_length. reflexivity. Qed.

(* ---------- get_index_direct ---------- *)

Lemma gid_spec idx : forall sh acc, length idx = length sh ->
  gid idx (compute_strides sh) (lens_of sh) acc =
  if in_range_b idx (lens_of sh) then Some (acc + flat idx (lens_of sh)) else None.
Proof.
  induction idx as [|i idx IH]; intros [|[n l] sh] acc Hlen; cbn [length] in Hlen; try lia.
  - cbn. f_equal. lia.
  - rewrite strides_cons. cbn [lens_of map snd gid flat in_range_b].
    destruct (N.leb_spec l i) as [Hle|Hlt].
    + destruct (N.ltb_spec i l); [lia|]. reflexivity.
    + destruct (N.ltb_spec i l); [|lia]. cbn [andb].
      change (map snd sh) with (lens_of sh).
      rewrite IH by lia. destruct (in_range_b idx (lens_of sh)); [f_equal; lia|reflexivity].
Qed.

Lemma gid_bad_length idx : forall st lens acc, length idx <> length lens -> gid idx st lens acc = None.
Proof.
  induction idx as [|i idx IH]; intros [|s st] [|l lens] acc H; cbn [gid length] in *;
    try reflexivity; try lia.
  destruct (l <=? i); [reflexivity|]. apply IH. lia.
Qed.

Theorem get_index_direct_spec idx sh : length idx = length sh ->
  get_index_direct idx (compute_strides sh) sh =
  if in_range_b idx (lens_of sh) then Some (flat idx (lens_of sh)) else None.
Proof. intros H. unfold get_index_direct. rewrite gid_spec by exact H. reflexivity. Qed.

(* ---------- flattening is a bijection ---------- *)

Lemma flat_lt idx lens : in_range idx lens -> flat idx lens < prod lens.
Proof.
  revert lens; induction idx as [|i idx IH]; intros [|l lens]; cbn [in_range]; try tauto.
  - intros _. cbv. reflexivity.
  - intros [Hi Hr]. specialize (IH lens Hr). cbn [flat]. rewrite prod_cons. nia.
Qed.

Lemma flat_inj idx1 idx2 lens : in_range idx1 lens -> in_range idx2 lens ->
  flat idx1 lens = flat idx2 lens -> idx1 = idx2.
Proof.
  revert idx2 lens; induction idx1 as [|i1 idx1 IH]; intros [|i2 idx2] [|l lens];
    cbn [in_range]; try tauto.
  intros [H1 R1] [H2 R2] Heq. cbn [flat] in Heq.
  pose proof (flat_lt idx1 lens R1) as B1. pose proof (flat_lt idx2 lens R2) as B2.
  set (p := prod lens) in *. set (f1 := flat idx1 lens) in *. set (f2 := flat idx2 lens) in *.
  assert (Hi : i1 = i2).
  { destruct (N.lt_trichotomy i1 i2) as [H|[H|H]]; auto; exfalso.
    - assert (i1 * p + p <= i2 * p)
        by (replace (i1 * p + p) with ((i1 + 1) * p) by ring; apply N.mul_le_mono_r; lia). lia.
    - assert (i2 * p + p <= i1 * p)
        by (replace (i2 * p + p) with ((i2 + 1) * p) by ring; apply N.mul_le_mono_r; lia). lia. }
  subst i2.
  assert (Hf : f1 = f2) by lia.
  f_equal. eapply IH; eauto.
Qed.

Lemma flat_onto lens : Forall (fun l => 0 < l) lens -> forall k, k < prod lens ->
  exists idx, in_range idx lens /\ flat idx lens = k.
Proof.
  induction lens as [|l lens IH]; intros Hpos k Hk.
  - exists []. split; [exact I|]. rewrite prod_nil in Hk. cbn [flat]. lia.
  - inversion Hpos as [|? ? Hl Hrest]; subst. rewrite prod_cons in Hk.
    pose proof (prod_pos lens Hrest) as Hp.
    destruct (IH Hrest (k mod prod lens)) as [idx [Hr Hf]]; [apply N.mod_lt; lia|].
    exists (k / prod lens :: idx). split.
    + split; [|exact Hr]. apply N.div_lt_upper_bound; lia.
    + cbn [flat]. rewrite Hf. rewrite N.mul_comm. symmetry. apply N.div_mod. lia.
Qed.

(* ---------- validation ---------- *)

Lemma has_duplicates_false l : has_duplicates l = false <-> NoDup l.
Proof.
  induction l as [|x l IH]; cbn [has_duplicates].
  - split; [constructor|reflexivity].
  - rewrite orb_false_iff, IH. split.
    + intros [Hx Hnd]. constructor; [|exact Hnd]. intros Hin.
      assert (existsb (Nat.eqb x) l = true) as E
        by (apply existsb_exists; exists x; split; [exact Hin|apply Nat.eqb_refl]).
      congruence.
    + intros Hnd. inversion Hnd as [|? ? Hx Hnd']; subst. split; [|exact Hnd'].
      destruct (existsb (Nat.eqb x) l) eqn:E; [|reflexivity].
      apply existsb_exists in E. destruct E as [y [Hy Hxy]]. apply Nat.eqb_eq in Hxy. subst y.
      contradiction.
Qed.

Lemma has_zero_false sh : has_zero sh = false <-> Forall (fun l => 0 < l) (lens_of sh).
Proof.
  induction sh as [|[n l] sh IH]; cbn [has_zero existsb lens_of map snd].
  - split; [constructor|reflexivity].
  - rewrite orb_false_iff. change (existsb (fun d => snd d =? 0) sh) with (has_zero sh).
    rewrite IH. rewrite N.eqb_neq. split.
    + intros [H1 H2]. constructor; [lia|exact H2].
    + intros H. inversion H; subst. split; [lia|assumption].
Qed.

Lemma valid_shape_b_spec sh : valid_shape_b sh = true <-> valid_shape sh.
Proof.
  unfold valid_shape_b, valid_shape.
  rewrite andb_true_iff, !negb_true_iff, has_duplicates_false, has_zero_false. tauto.
Qed.

(* loop invariant form: starting from an accumulator within range *)
Lemma checked_prod_from_Some acc l e : acc <= usize_max ->
  checked_prod_from acc l = Some e -> e = acc * prod l /\ e <= usize_max.
Proof.
  revert acc; induction l as [|x l IH]; intros acc Hacc; cbn [checked_prod_from].
  - intros [= <-]. rewrite prod_nil. split; lia.
  - destruct (N.leb_spec (acc * x) usize_max) as [Hle|Hgt]; [|discriminate].
    intros H. destruct (IH _ Hle H) as [-> Hb]. rewrite prod_cons. split; [lia|exact Hb].
Qed.

Lemma checked_prod_from_complete acc l : Forall (fun x => 0 < x) l ->
  acc * prod l <= usize_max -> checked_prod_from acc l = Some (acc * prod l).
Proof.
  revert acc; induction l as [|x l IH]; intros acc Hpos Hb; cbn [checked_prod_from].
  - rewrite prod_nil. f_equal. lia.
  - inversion Hpos as [|? ? Hx Hrest]; subst. rewrite prod_cons in *.
    pose proof (prod_pos l Hrest) as Hp.
    destruct (N.leb_spec (acc * x) usize_max) as [Hle|Hgt].
    + rewrite IH by (auto; lia). f_equal. lia.
    + exfalso. assert (acc * x <= acc * x * prod l) by nia. lia.
Qed.

Theorem validate_dimensions_spec sh len :
  validate_dimensions sh len = true <->
  valid_shape sh /\ elements sh = len /\ elements sh <= usize_max.
Proof.
  unfold validate_dimensions, checked_elements, elements. split.
  - destruct (checked_prod_from 1 (lens_of sh)) as [e|] eqn:E; [|discriminate].
    rewrite !andb_true_iff, !negb_true_iff, N.eqb_eq, has_duplicates_false, has_zero_false.
    intros [[-> Hd] Hz].
    destruct (checked_prod_from_Some 1 _ _ ltac:(cbv; discriminate) E) as [He Hb].
    split; [split; assumption|]. split; lia.
  - intros [[Hd Hz] [He Hb]].
    rewrite (checked_prod_from_complete 1 _ Hz) by lia.
    rewrite !andb_true_iff, !negb_true_iff, N.eqb_eq, has_duplicates_false, has_zero_false.
    repeat split; try assumption. lia.
Qed.

(* ---------- index_of ---------- *)

Lemma index_of_Some n l i : index_of n l = Some i -> (i < length l)%nat /\ nth i l 0%nat = n.
Proof.
  revert i; induction l as [|x l IH]; intros i; cbn [index_of]; [discriminate|].
  destruct (Nat.eqb_spec x n).
  - intros [= <-]. split; [cbn; lia|auto].
  - destruct (index_of n l) as [j|]; cbn [option_map]; [|discriminate].
    intros [= <-]. destruct (IH j eq_refl). split; [cbn [length]; lia|auto].
Qed.

Lemma index_of_None n l : index_of n l = None <-> ~ In n l.
Proof.
  induction l as [|x l IH]; cbn [index_of In]; [tauto|].
  destruct (Nat.eqb_spec x n).
  - split; [discriminate|]. intros H; exfalso; apply H; auto.
  - destruct (index_of n l) as [j|]; cbn [option_map].
    + split; [discriminate|]. intros H. exfalso.
      assert (Hin : ~ In n l) by tauto. apply IH in Hin. discriminate.
    + split; auto. intros _ [H|H]; [contradiction|]. apply IH in H; auto.
Qed.

Lemma index_of_In n l : In n l -> exists i, index_of n l = Some i.
Proof.
  intros H. destruct (index_of n l) eqn:E; [eauto|]. apply index_of_None in E. contradiction.
Qed.

Lemma index_of_nth_NoDup l d : NoDup l -> (d < length l)%nat -> index_of (nth d l 0%nat) l = Some d.
Proof.
  revert d; induction l as [|x l IH]; intros d Hnd Hd; cbn [length] in *; [lia|].
  inversion Hnd as [|? ? Hx Hnd']; subst.
  destruct d; cbn [nth index_of].
  - rewrite Nat.eqb_refl. reflexivity.
  - destruct (Nat.eqb_spec x (nth d l 0%nat)) as [->|_].
    + exfalso. apply Hx. apply nth_In. lia.
    + rewrite IH by (auto; lia). reflexivity.
Qed.

(* ---------- sequence ---------- *)

Lemma sequence_Some {A} (l : list (option A)) r : sequence l = Some r <-> l = map Some r.
Proof.
  revert r; induction l as [|[x|] l IH]; intros r; cbn [sequence].
  - split; [intros [= <-]; reflexivity|]. destruct r; [reflexivity|discriminate].
  - destruct (sequence l) as [r'|] eqn:E.
    + split.
      * intros [= <-]. cbn [map]. f_equal. apply IH. reflexivity.
      * destruct r as [|y r]; [discriminate|]. cbn [map]. intros [= -> H]. f_equal. f_equal.
        apply IH in H. congruence.
    + split; [discriminate|]. destruct r as [|y r]; [discriminate|]. cbn [map]. intros [= -> H].
      apply IH in H. discriminate.
  - split; [discriminate|]. destruct r; discriminate.
Qed.

Lemma sequence_None_iff {A} (l : list (option A)) : sequence l = None <-> In None l.
Proof.
  induction l as [|[x|] l IH]; cbn [sequence In].
  - split; [discriminate|tauto].
  - destruct (sequence l).
    + split; [discriminate|]. intros [H|H]; [discriminate|]. apply IH in H. discriminate.
    + split; auto. intros _. right. apply IH. reflexivity.
  - split; auto.
Qed.

(* ---------- DimensionMappings::new ---------- *)

Theorem dm_new_iff_perm src req : NoDup src -> length req = length src ->
  (dm_new src req <> None <-> Permutation src req).
Proof.
  intros Hnd Hlen. unfold dm_new. split.
  - intros Hsome.
    apply NoDup_Permutation_bis; auto; [lia|].
    intros n Hn. destruct (In_nth _ _ 0%nat Hn) as [d [Hd Hdn]].
    destruct (in_dec Nat.eq_dec n req) as [|Hnot]; auto.
    exfalso. apply Hsome. apply sequence_None_iff. apply in_map_iff.
    exists d. split; [|apply in_seq; cbn; split; [apply Nat.le_0_l|exact Hd]].
    subst n. unfold dm_step. cbv zeta.
    destruct (Nat.eqb_spec (nth d req 0%nat) (nth d src 0%nat)) as [E|_].
    + exfalso. apply Hnot. rewrite <- E. apply nth_In. rewrite Hlen. exact Hd.
    + apply index_of_None in Hnot. rewrite Hnot. reflexivity.
  - intros Hperm Hnone. apply sequence_None_iff in Hnone. apply in_map_iff in Hnone.
    destruct Hnone as [d [Hstep Hd]]. apply in_seq in Hd. unfold dm_step in Hstep. cbv zeta in Hstep.
    destruct (Nat.eqb (nth d req 0%nat) (nth d src 0%nat)); [discriminate|].
    assert (In (nth d src 0%nat) req) as H1 by (eapply Permutation_in; eauto; apply nth_In; lia).
    assert (In (nth d req 0%nat) src) as H2
      by (eapply Permutation_in; [apply Permutation_sym; eauto|]; apply nth_In; lia).
    destruct (index_of_In _ _ H1) as [a Ha]. destruct (index_of_In _ _ H2) as [b Hb].
    rewrite Ha, Hb in Hstep. discriminate.
Qed.

Lemma dm_new_length src req tbl : dm_new src req = Some tbl -> length tbl = length src.
Proof.
  unfold dm_new. intros H. apply sequence_Some in H. apply (f_equal (@length _)) in H.
  rewrite !map_length, seq_length in H. lia.
Qed.

(* source_to_requested[d] is the position of src[d] in req,
   requested_to_source[d] is the position of req[d] in src *)
Theorem dm_new_tables src req tbl : NoDup src -> length req = length src ->
  dm_new src req = Some tbl ->
  forall d, (d < length src)%nat ->
    index_of (nth d src 0%nat) req = Some (fst (nth d tbl (0,0)%nat)) /\
    index_of (nth d req 0%nat) src = Some (snd (nth d tbl (0,0)%nat)).
Proof.
  intros Hnd Hlen Hnew d Hd.
  assert (Hperm : Permutation src req)
    by (apply dm_new_iff_perm; auto; rewrite Hnew; discriminate).
  assert (Hnd' : NoDup req) by (eapply Permutation_NoDup; eauto).
  pose proof (dm_new_length _ _ _ Hnew) as Hl.
  unfold dm_new in Hnew. apply sequence_Some in Hnew.
  assert (Hd' : nth d (map (dm_step src req) (seq 0 (length src))) None
                = Some (nth d tbl (0,0)%nat)).
  { rewrite Hnew. rewrite nth_indep with (d' := Some (0,0)%nat).
    - apply (map_nth Some).
    - rewrite map_length. lia. }
  rewrite nth_indep with (d' := dm_step src req 0) in Hd'
    by (rewrite map_length, seq_length; lia).
  rewrite map_nth, seq_nth in Hd' by lia. cbn [plus] in Hd'.
  unfold dm_step in Hd'. cbv zeta in Hd'.
  destruct (Nat.eqb_spec (nth d req 0%nat) (nth d src 0%nat)) as [E|NE].
  - injection Hd' as <-. cbn [fst snd]. split.
    + rewrite <- E. apply index_of_nth_NoDup; auto; lia.
    + rewrite E. apply index_of_nth_NoDup; auto.
  - destruct (index_of (nth d src 0%nat) req) as [a|]; [|discriminate].
    destruct (index_of (nth d req 0%nat) src) as [b|]; [|discriminate].
    injection Hd' as <-. cbn [fst snd]. auto.
Qed.
