(* The tactic every "generated definition = hand-written model" lemma is closed with
   (Proofs/GenArithP.v, GenArithViewsP.v, GenNumericP.v, GenMatrixP.v, GenIterP.v, GenHeapP.v,
   GenGaussianP.v):

     gen_equiv <lemma name> by (<the script written against the term the translator emits today>)

   Wave 5: when that script fails, a shape-independent finisher is tried before the lemma is
   declared broken, so that a behaviour-preserving rewrite of the Rust source that stays inside
   the translator's subset (`if` -> `match` on a bool, `a + b` -> `b + a`, `a > b` -> `b < a`,
   `!(a < b)` -> `b <= a`, a reordered `&&`, an extra `let`) does not raise a false alarm.
   The finisher is SEMANTIC, not syntactic: it unfolds both sides down to comparisons and + - *
   min max on N, splits on every scrutinee of both sides, turns the boolean comparisons into
   propositions and asks lia / congruence for each leaf.  It can only succeed when the two sides
   are equal, so a definition that changed meaning still fails (GENERATED-EQUIVALENCE-BROKEN). *)
From Coq Require Import List ZArith NArith Bool Arith Lia.
From EasyML Require Import Base.Sx Model.U64.
Open Scope N_scope.

Create HintDb gen_unfold.
#[export] Hint Unfold obind omap of_option sat_add sat_sub checked_add checked_mul is_usize
  andb orb negb xorb implb : gen_unfold.

Ltac gen_head t := match t with ?f _ => gen_head f | _ => t end.

(* one step: the innermost scrutinee of some match/if of the goal is either a call that returns
   an `outcome` (a machine operation u_add/u_sub/u_mul, a model function, a generated callee):
   unfold it; or anything else (a comparison, the build profile, an option/pair variable):
   case split, remembering the equation *)
Ltac gen_step :=
  match goal with
  | |- context [match ?x with _ => _ end] =>
      match x with
      | context [match _ with _ => _ end] => fail 1
      | _ => let h := gen_head x in
             is_const h;
             match type of x with outcome _ => progress unfold h end
      | _ => destruct x eqn:?
      end
  end.

(* no match left at the head: the two sides are calls; unfold the one at the head *)
Ltac gen_unfold_head :=
  match goal with
  | |- @eq (outcome _) ?l ?r =>
      first [ let h := gen_head l in is_const h; progress unfold h
            | let h := gen_head r in is_const h; progress unfold h ]
  end.

Ltac gen_norm_loop :=
  repeat (first [ gen_step | gen_unfold_head ];
          cbv beta iota zeta; autounfold with gen_unfold; cbn [fst snd]).

Ltac gen_bool_props :=
  repeat match goal with
         | |- context [N.ltb ?a ?b] => destruct (N.ltb a b) eqn:?
         | |- context [N.leb ?a ?b] => destruct (N.leb a b) eqn:?
         | |- context [N.eqb ?a ?b] => destruct (N.eqb a b) eqn:?
         end;
  repeat match goal with
         | H : N.ltb _ _ = true |- _ => apply N.ltb_lt in H
         | H : N.ltb _ _ = false |- _ => apply N.ltb_ge in H
         | H : N.leb _ _ = true |- _ => apply N.leb_le in H
         | H : N.leb _ _ = false |- _ => apply N.leb_gt in H
         | H : N.eqb _ _ = true |- _ => apply N.eqb_eq in H
         | H : N.eqb _ _ = false |- _ => apply N.eqb_neq in H
         end.

(* `i * s` and `s * i` under a `mod` are different atoms for lia: bring every commuted pair of
   + * min max that occurs in the leaf (equations included) to one spelling *)
Ltac gen_comm_op op lem :=
  repeat match goal with
         | |- context [op ?a ?b] =>
             match goal with
             | |- context [op b a] => tryif constr_eq a b then fail else rewrite (lem b a)
             end
         end.
Ltac gen_comm :=
  repeat match goal with
         | H : ?P |- _ => match type of P with Prop => revert H end
         end;
  gen_comm_op N.mul N.mul_comm; gen_comm_op N.add N.add_comm;
  gen_comm_op N.min N.min_comm; gen_comm_op N.max N.max_comm;
  intros.

Ltac gen_feq := solve [ reflexivity | discriminate | lia | congruence | progress f_equal; gen_feq ].

Ltac gen_norm_finish :=
  intros;
  repeat match goal with |- _ /\ _ => split end;
  autounfold with gen_unfold; cbn [fst snd];
  gen_norm_loop; gen_bool_props; subst; gen_comm; gen_feq.

(* solve an equivalence or fail with a message that names it *)
Tactic Notation "gen_equiv" ident(name) "by" tactic(t) :=
  first [ solve [ t ]
        | solve [ timeout 20 gen_norm_finish ]
        | fail 1 "GENERATED-EQUIVALENCE-BROKEN" name
                 ": the definition translated from the Rust source no longer equals the hand-written model" ].
