(* C07, mathcomp half without the size bound: with Heap's algorithm proved correct for every n
   (Proofs/C07HeapN.v) the statements of C07P2.v hold for every size n >= 1.  Same proofs as in
   C07P2.v with `heap_enumerates_all` in place of the kernel check. *)
From Coq Require Import PeanoNat List.
From mathcomp Require Import all_ssreflect all_algebra zify.
From EasyML Require Import Base.Sx Model.Num Model.Perms Model.LinAlg Proofs.C07P1 Proofs.C07HeapN
     Proofs.C07P2.
Set Implicit Arguments. Unset Strict Implicit. Unset Printing Implicit Defensive.
Import GRing.Theory.
Local Open Scope ring_scope.

Section Det.
Variable R : comRingType.
Variable dv : R -> R -> R.
Notation ops := (ops_of dv).

Lemma heap_ok_all n : (1 <= n)%N -> heap_enumerates n.
Proof. move=> Hn. apply: heap_enumerates_all. lia. Qed.

Theorem det_tensor_correct_all n (m : list (list R)) : mrows m = n -> mcols m = n -> (1 <= n)%N ->
  det_tensor ops m = Some (\det (mx_of dv n m)).
Proof.
  move=> Hr Hc Hn.
  rewrite (@det_tensor_detc _ ops (ops_of_ring dv) m n Hr Hc _ (heap_ok_all Hn)); last by lia.
  congr Some. rewrite detc_det; last by rewrite List.seq_length.
  congr (\det _). apply/matrixP => i j. rewrite !mxE add0n List.seq_nth //. by apply/ltP.
Qed.

Theorem det_matrix_correct_all n (m : list (list R)) : mrows m = n -> mcols m = n -> (1 <= n)%N ->
  det_matrix ops m = Some (\det (mx_of dv n m)).
Proof. move=> Hr Hc Hn. by rewrite det_matrix_tensor (det_tensor_correct_all Hr Hc Hn). Qed.
End Det.

Section Inverse.
Variable F : fieldType.
Notation ops := (ops_of (fun x y : F => x / y)).

Lemma minor_tensor_correct_all n (m : list (list F)) (i j : 'I_n.+2) : wf n.+2 m ->
  minor_tensor ops m i j = Some (\det (row' i (col' j (mx_of (fun x y : F => x / y) n.+2 m)))).
Proof.
  move=> Hwf. have [Hl Hall] := Hwf.
  have Hc : mcols m = n.+2.
  { rewrite /mcols. case: m Hl Hall {Hwf} => [|r rs] //= _ Hall. by inversion Hall. }
  rewrite /minor_tensor /is_square /mrows Hl Hc /=.
  have [Hmr Hmc] := @wf_mask F n.+1 m i j Hwf (ltP (ltn_ord i)) (ltP (ltn_ord j)).
  rewrite (det_tensor_correct_all _ Hmr Hmc); last by [].
  by rewrite Nat.eqb_refl /= mx_of_mask.
Qed.

(* the routine's result: absent when the determinant is zero, otherwise the inverse matrix *)
Theorem inverse_tensor_spec_all n (m : list (list F)) : wf n m -> (1 <= n)%N ->
  let A := mx_of (fun x y : F => x / y) n m in
  exists X0, wf n X0 /\
    inverse_tensor ops m = (if \det A == 0 then None else Some X0) /\
    (\det A != 0 ->
     A *m mx_of (fun x y : F => x / y) n X0 = 1%:M /\
     mx_of (fun x y : F => x / y) n X0 *m A = 1%:M).
Proof.
  move=> Hwf Hn. have [Hl Hall] := Hwf.
  have Hc : mcols m = n.
  { rewrite /mcols. case: m Hl Hall {Hwf} => [|r rs] /=; first by lia.
    move=> _ Hall. by inversion Hall. }
  case: n Hwf Hn Hl Hall Hc => [|[|n]] Hwf Hn Hl Hall Hc A; first by [].
  - (* 1 x 1 *)
    exists [:: [:: 1 / mget ops m 0 0]]. split; first by split; [|repeat constructor].
    have HdA : \det A = mget ops m 0 0 by rewrite det_mx11 /A /mx_of mxE.
    split.
    + rewrite /inverse_tensor /is_square /mrows Hl Hc /= HdA. by case: (_ == 0).
    + rewrite HdA => Hnz.
      have HA : A = (mget ops m 0 0)%:M.
      { apply/matrixP => i j. by rewrite /A /mx_of !ord1 !mxE eqxx mulr1n. }
      have HX : mx_of (fun x y : F => x / y) 1 [:: [:: 1 / mget ops m 0 0]] = (1 / mget ops m 0 0)%:M.
      { apply/matrixP => i j. by rewrite /mx_of !ord1 !mxE eqxx mulr1n. }
      rewrite HA HX -!scalar_mxM mul1r divff // mulVf //.
  - (* general case *)
    set Xf := fun i j : nat =>
      nmul ops (nmul ops (cofactor_sign ops j i)
                 (\det (row' (inord j : 'I_n.+2) (col' (inord i : 'I_n.+2) A))))
               (ndiv ops (none_ ops) (\det A)).
    exists (tab n.+2 Xf). split; first exact: wf_tab.
    have Hdet : det_tensor ops m = Some (\det A) by apply: det_tensor_correct_all.
    split.
    + rewrite /inverse_tensor /is_square /mrows Hl Hc Nat.eqb_refl /=.
      case: ifP => [/eqP Hz|Hnz].
      * by rewrite /inverse_general Hdet /= Hz eqxx.
      * rewrite (@inverse_general_tab F ops _ _ m n.+2 (\det A)
                   (fun i j => \det (row' (inord i : 'I_n.+2) (col' (inord j : 'I_n.+2) A)))) //.
        move=> i j /ltP Hi /ltP Hj.
        have := @minor_tensor_correct_all n m (inord i) (inord j) Hwf.
        by rewrite !inordK.
    + move=> HdA.
      have HA : A \in unitmx by rewrite unitmxE unitfE.
      have -> : mx_of (fun x y : F => x / y) n.+2 (tab n.+2 Xf) = invmx A.
      { rewrite /invmx HA. apply/matrixP => i j.
        rewrite /mx_of !mxE mget_tab; [|exact/ltP|exact/ltP]. rewrite /Xf /=.
        by rewrite cofactor_sign_sign /cofactor mul1r mulrC !inord_val. }
      by rewrite mulmxV // mulVmx.
Qed.

Theorem inverse_tensor_iff_all n (m : list (list F)) : wf n m -> (1 <= n)%N ->
  ((exists X, inverse_tensor ops m = Some X) <-> \det (mx_of (fun x y : F => x / y) n m) != 0).
Proof.
  move=> Hwf Hn. have [X0 [_ [Hinv _]]] := inverse_tensor_spec_all Hwf Hn.
  rewrite Hinv. case: (_ == 0); split => //.
  - by case.
  - by exists X0.
Qed.

Theorem inverse_tensor_products_all n (m X : list (list F)) : wf n m -> (1 <= n)%N ->
  inverse_tensor ops m = Some X ->
  wf n X /\
  mx_of (fun x y : F => x / y) n m *m mx_of (fun x y : F => x / y) n X = 1%:M /\
  mx_of (fun x y : F => x / y) n X *m mx_of (fun x y : F => x / y) n m = 1%:M.
Proof.
  move=> Hwf Hn. have [X0 [Hwf0 [Hinv Hprod]]] := inverse_tensor_spec_all Hwf Hn.
  rewrite Hinv. case: ifP => // /negbT Hnz [<-]. split=> //. exact: Hprod.
Qed.
End Inverse.
