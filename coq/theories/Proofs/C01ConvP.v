(* Proofs about the Tensor<T, 2> <-> Matrix<T> conversions (Model/Transform.v
   tensor_into_matrix / matrix_into_tensor, Model/C01Conv.v): element-exact in both directions,
   success condition and error payload, round trips. *)
From Coq Require Import List ZArith NArith Bool Arith Lia.
From EasyML Require Import Base.Sx Model.Shape Model.Tensor Model.Transform Model.C01Conv
     Proofs.ShapeP Proofs.C01P.
Import ListNotations.
Open Scope N_scope.

Section Conv.
Context {A : Type}.

Lemma strides2 (a b : name) r c : compute_strides [(a, r); (b, c)] = [c * 1; 1].
Proof. reflexivity. Qed.

(* the position computation of a 2-D tensor with the validated strides *)
Lemma t_get_2d (t : tensor A) a r b c i j :
  t_shape t = [(a, r); (b, c)] -> t_strides t = compute_strides (t_shape t) ->
  t_get t [i; j] =
  if (i <? r) && (j <? c) then nth_error (t_data t) (N.to_nat (i * c + j)) else None.
Proof.
  intros Hs Hst. unfold t_get, get_index_direct. rewrite Hst, Hs, strides2.
  cbn [lens_of map snd gid].
  destruct (N.leb_spec r i) as [Hi|Hi], (N.ltb_spec i r) as [Hi'|Hi']; try lia; cbn [andb]; auto.
  destruct (N.leb_spec c j) as [Hj|Hj], (N.ltb_spec j c) as [Hj'|Hj']; try lia; auto.
  f_equal. f_equal. lia.
Qed.

Lemma mat_get_spec r c (d : list A) i j :
  mat_get (r, c, d) i j =
  if (i <? r) && (j <? c) then nth_error d (N.to_nat (i * c + j)) else None.
Proof.
  unfold mat_get, mat_rows, mat_cols, mat_data. cbn [fst snd].
  destruct ((i <? r) && (j <? c)); auto. f_equal. f_equal. lia.
Qed.

(* ---- tensor -> matrix ---- *)
Lemma into_matrix_spec (t : tensor A) a r b c :
  tensor_inv t -> t_shape t = [(a, r); (b, c)] ->
  (r * c <= usize_max -> tensor_into_matrix t = Ok (r, c, t_data t)) /\
  (forall m, tensor_into_matrix t = Ok m -> m = (r, c, t_data t)) /\
  (forall i j, mat_get (r, c, t_data t) i j = t_get t [i; j]) /\
  (forall i j, i < r -> j < c ->
     t_get t [i; j] = nth_error (t_data t) (N.to_nat (i * c + j))) /\
  (forall i j, ~ (i < r /\ j < c) -> t_get t [i; j] = None).
Proof.
  intros [[Hnd Hpos] [Hst Hlen]] Hs.
  assert (He : N.of_nat (length (t_data t)) = r * c).
  { rewrite Hlen, Hs. cbv [elements lens_of map snd prod fold_right]. lia. }
  assert (Hr : 0 < r /\ 0 < c).
  { rewrite Hs in Hpos. cbn [lens_of map snd] in Hpos.
    inversion Hpos as [|x l H1 H2]; subst. inversion H2; subst. auto. }
  assert (Hne : (length (t_data t) =? 0)%nat = false).
  { apply Nat.eqb_neq. intros H0. rewrite H0 in He. cbn in He. nia. }
  repeat split.
  - intros Hb. unfold tensor_into_matrix. rewrite Hs.
    replace (r * c <=? usize_max) with true by (symmetry; apply N.leb_le; exact Hb).
    replace (r * c =? N.of_nat (length (t_data t))) with true
      by (symmetry; apply N.eqb_eq; lia).
    cbn [andb negb]. rewrite Hne. reflexivity.
  - intros m. unfold tensor_into_matrix. rewrite Hs.
    destruct (negb _); [discriminate|]. rewrite Hne. intros [= <-]. reflexivity.
  - intros i j. rewrite mat_get_spec, (t_get_2d t a r b c i j Hs Hst). reflexivity.
  - intros i j Hi Hj. rewrite (t_get_2d t a r b c i j Hs Hst).
    replace (i <? r) with true by (symmetry; apply N.ltb_lt; exact Hi).
    replace (j <? c) with true by (symmetry; apply N.ltb_lt; exact Hj). reflexivity.
  - intros i j Hout. rewrite (t_get_2d t a r b c i j Hs Hst).
    destruct (N.ltb_spec i r), (N.ltb_spec j c); cbn [andb]; auto. exfalso; apply Hout; auto.
Qed.

(* ---- matrix -> tensor ---- *)
Lemma valid_shape_b_2d (rn cn : name) r c : 0 < r -> 0 < c ->
  valid_shape_b [(rn, r); (cn, c)] = negb (Nat.eqb rn cn).
Proof.
  intros Hr Hc. unfold valid_shape_b. cbn [names_of map fst has_duplicates existsb has_zero snd].
  replace (r =? 0) with false by (symmetry; apply N.eqb_neq; lia).
  replace (c =? 0) with false by (symmetry; apply N.eqb_neq; lia).
  cbn [orb negb]. rewrite !orb_false_r, andb_true_r. reflexivity.
Qed.

Lemma into_tensor_spec r c (d : list A) rn cn :
  r * c = N.of_nat (length d) -> 0 < r * c -> r * c <= usize_max ->
  (rn <> cn ->
     exists t, matrix_into_tensor r c d rn cn = Ok t /\ tensor_inv t /\
               t_shape t = [(rn, r); (cn, c)] /\ t_data t = d /\
               (forall i j, t_get t [i; j] = mat_get (r, c, d) i j) /\
               (forall i j, i < r -> j < c ->
                  t_get t [i; j] = nth_error d (N.to_nat (i * c + j)))) /\
  (rn = cn -> matrix_into_tensor r c d rn cn = Err (sshape [(rn, r); (cn, c)])) /\
  ((exists t, matrix_into_tensor r c d rn cn = Ok t) <-> rn <> cn).
Proof.
  intros Hlen Hpos Hb.
  assert (Hr : 0 < r) by nia. assert (Hc : 0 < c) by nia.
  assert (Hok : rn <> cn -> exists t, matrix_into_tensor r c d rn cn = Ok t /\ tensor_inv t /\
               t_shape t = [(rn, r); (cn, c)] /\ t_data t = d /\
               (forall i j, t_get t [i; j] = mat_get (r, c, d) i j) /\
               (forall i j, i < r -> j < c ->
                  t_get t [i; j] = nth_error d (N.to_nat (i * c + j)))).
  { intros Hn. unfold matrix_into_tensor. rewrite (valid_shape_b_2d rn cn r c Hr Hc).
    replace (Nat.eqb rn cn) with false by (symmetry; apply Nat.eqb_neq; exact Hn).
    cbn [negb].
    assert (Hv : validate_dimensions [(rn, r); (cn, c)] (N.of_nat (length d)) = true).
    { apply validate_dimensions_spec. split; [|split].
      - apply valid_shape_b_spec. rewrite (valid_shape_b_2d rn cn r c Hr Hc).
        apply negb_true_iff, Nat.eqb_neq. exact Hn.
      - cbv [elements lens_of map snd prod fold_right]. lia.
      - cbv [elements lens_of map snd prod fold_right]. lia. }
    destruct (tensor_from [(rn, r); (cn, c)] d) as [t| |] eqn:Ef;
      try (unfold tensor_from in Ef; rewrite Hv in Ef; discriminate).
    exists t. split; [reflexivity|].
    apply from_agrees in Ef. destruct (try_from_inv _ _ _ Ef) as [Hinv [Hs Hd]].
    split; [exact Hinv|]. split; [exact Hs|]. split; [exact Hd|].
    destruct (into_matrix_spec t rn r cn c Hinv Hs) as [_ [_ [Hg [Hin _]]]].
    split.
    - intros i j. rewrite <- Hg, Hd. reflexivity.
    - intros i j Hi Hj. rewrite (Hin i j Hi Hj), Hd. reflexivity. }
  assert (Herr : rn = cn -> matrix_into_tensor r c d rn cn = Err (sshape [(rn, r); (cn, c)])).
  { intros ->. unfold matrix_into_tensor. rewrite (valid_shape_b_2d cn cn r c Hr Hc).
    rewrite Nat.eqb_refl. reflexivity. }
  split; [exact Hok|]. split; [exact Herr|]. split.
  - intros [t Ht] He. rewrite (Herr He) in Ht. discriminate.
  - intros Hn. destruct (Hok Hn) as [t [Ht _]]. exists t; exact Ht.
Qed.

(* ---- round trips ---- *)
Lemma matrix_tensor_matrix r c (d : list A) rn cn t :
  r * c = N.of_nat (length d) -> 0 < r * c -> r * c <= usize_max ->
  matrix_into_tensor r c d rn cn = Ok t -> tensor_into_matrix t = Ok (r, c, d).
Proof.
  intros Hlen Hpos Hb Ht.
  destruct (into_tensor_spec r c d rn cn Hlen Hpos Hb) as [Hok [Herr _]].
  destruct (Nat.eq_dec rn cn) as [He|Hn]; [rewrite (Herr He) in Ht; discriminate|].
  destruct (Hok Hn) as [t' [Ht' [Hinv [Hs [Hd _]]]]]. rewrite Ht in Ht'. injection Ht' as <-.
  destruct (into_matrix_spec t rn r cn c Hinv Hs) as [H1 _]. rewrite (H1 Hb), Hd. reflexivity.
Qed.

Lemma tensor_matrix_tensor (t : tensor A) a r b c m :
  tensor_inv t -> t_shape t = [(a, r); (b, c)] -> tensor_into_matrix t = Ok m ->
  m = (r, c, t_data t) /\ matrix_into_tensor r c (t_data t) a b = Ok t.
Proof.
  intros Hinv Hs Hm.
  destruct (into_matrix_spec t a r b c Hinv Hs) as [_ [Huniq _]].
  split; [exact (Huniq m Hm)|].
  pose proof Hinv as [[Hnd Hpos] [Hst Hlen]].
  assert (Hab : a <> b).
  { rewrite Hs in Hnd. cbn [names_of map fst] in Hnd. inversion Hnd as [|x l Hnin _]; subst.
    intros ->. apply Hnin. left; reflexivity. }
  assert (Hrc : 0 < r /\ 0 < c).
  { rewrite Hs in Hpos. cbn [lens_of map snd] in Hpos.
    inversion Hpos as [|x l H1 H2]; subst. inversion H2; subst. auto. }
  assert (He : N.of_nat (length (t_data t)) = r * c).
  { rewrite Hlen, Hs. cbv [elements lens_of map snd prod fold_right]. lia. }
  assert (Hb : r * c <= usize_max).
  { unfold tensor_into_matrix in Hm. rewrite Hs in Hm.
    destruct (r * c <=? usize_max) eqn:E; [apply N.leb_le; exact E|discriminate]. }
  destruct (into_tensor_spec r c (t_data t) a b (eq_sym He) ltac:(nia) Hb) as [Hok _].
  destruct (Hok Hab) as [t' [Ht' [[_ [Hst' _]] [Hs' [Hd' _]]]]]. rewrite Ht'. f_equal.
  destruct t as [td ts tst], t' as [td' ts' tst'].
  cbn [t_data t_shape t_strides] in Hst, Hs, Hst', Hs', Hd'.
  rewrite Hd', Hs', Hst', Hst, Hs', Hs. reflexivity.
Qed.

(* ---- the interop wrappers ---- *)
(* TensorRefMatrix::with_names over an (at least 1 x 1) matrix: Ok exactly for distinct names,
   the error value is the would-be shape; the wrapper reads the matrix element at [r; c];
   MatrixRefTensor over a validated 2-D tensor reads the row-major element *)
Lemma trm_spec r c (d : list A) rn cn : 0 < r -> 0 < c ->
  (rn <> cn -> exists w, trm_with_names (r, c, d) rn cn = Ok w /\
      trm_shape w = [(rn, r); (cn, c)] /\
      forall i j, trm_get w [i; j] = mat_get (r, c, d) i j) /\
  (rn = cn -> trm_with_names (r, c, d) rn cn = Err (sshape [(rn, r); (cn, c)])).
Proof.
  intros Hr Hc. unfold trm_with_names, mat_rows, mat_cols. cbn [fst snd].
  rewrite (valid_shape_b_2d rn cn r c Hr Hc). split.
  - intros Hn. replace (Nat.eqb rn cn) with false by (symmetry; apply Nat.eqb_neq; exact Hn).
    cbn [negb]. eexists. split; [reflexivity|]. split; reflexivity.
  - intros ->. rewrite Nat.eqb_refl. reflexivity.
Qed.

(* a write through either mutable face changes exactly the addressed element *)
Lemma list_set_nth (l : list A) n v l' : list_set l n v = Some l' ->
  length l' = length l /\
  forall k, nth_error l' k = if Nat.eqb k n then Some v else nth_error l k.
Proof.
  revert n l'. induction l as [|x l IH]; intros n l' H; [discriminate|].
  destruct n as [|n]; cbn in H.
  - injection H as <-. split; [reflexivity|]. intros [|k]; reflexivity.
  - destruct (list_set l n v) as [l2|] eqn:E; [|discriminate]. cbn in H. injection H as <-.
    destruct (IH n l2 E) as [Hl Hn]. split; [cbn; congruence|].
    intros [|k]; [reflexivity|]. cbn. apply Hn.
Qed.

Lemma mat_set_exact r c (d : list A) i j v :
  r * c = N.of_nat (length d) ->
  (i < r /\ j < c ->
     exists d', mat_set (r, c, d) i j v = Some (r, c, d') /\
       forall i' j', mat_get (r, c, d') i' j' =
         if (i' =? i) && (j' =? j) then Some v else mat_get (r, c, d) i' j') /\
  (~ (i < r /\ j < c) -> mat_set (r, c, d) i j v = None).
Proof.
  intros Hlen. split.
  - intros [Hi Hj]. unfold mat_set, mat_rows, mat_cols, mat_data. cbn [fst snd].
    replace (i <? r) with true by (symmetry; apply N.ltb_lt; exact Hi).
    replace (j <? c) with true by (symmetry; apply N.ltb_lt; exact Hj). cbn [andb].
    destruct (list_set d (N.to_nat (j + i * c)) v) as [d'|] eqn:E.
    + exists d'. split; [reflexivity|]. intros i' j'.
      destruct (list_set_nth _ _ _ _ E) as [_ Hn]. rewrite !mat_get_spec.
      destruct (N.ltb_spec i' r) as [Hi'|Hi'], (N.ltb_spec j' c) as [Hj'|Hj']; cbn [andb].
      * rewrite Hn.
        destruct (N.eqb_spec i' i) as [->|Hni]; [destruct (N.eqb_spec j' j) as [->|Hnj]|];
          cbn [andb].
        -- replace (N.to_nat (i * c + j) =? N.to_nat (j + i * c))%nat with true
             by (symmetry; apply Nat.eqb_eq; lia). reflexivity.
        -- replace (N.to_nat (i * c + j') =? N.to_nat (j + i * c))%nat with false
             by (symmetry; apply Nat.eqb_neq; lia). reflexivity.
        -- replace (N.to_nat (i' * c + j') =? N.to_nat (j + i * c))%nat with false; [reflexivity|].
           symmetry; apply Nat.eqb_neq. intros Heq.
           assert (i' * c + j' = j + i * c) by lia. nia.
      * destruct (N.eqb_spec j' j); [lia|]. rewrite andb_false_r. reflexivity.
      * destruct (N.eqb_spec i' i); [lia|]. reflexivity.
      * destruct (N.eqb_spec i' i); [lia|]. reflexivity.
    + exfalso. assert (Hlt : (N.to_nat (j + i * c) < length d)%nat) by nia.
      destruct (list_set_Some d _ v Hlt) as [l' Hl']. congruence.
  - intros Hout. unfold mat_set, mat_rows, mat_cols. cbn [fst snd].
    destruct (N.ltb_spec i r), (N.ltb_spec j c); cbn [andb]; auto. exfalso; apply Hout; auto.
Qed.

End Conv.
