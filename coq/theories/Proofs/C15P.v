(* C15: the tape state machine of Model/TapeMachine.v.
     - cross_tape_rejected : every binary operator kind between objects of two different
       WengertLists panics (scalar records, containers in all four invocation modes, both
       matrix multiplications) and leaves the state unchanged;
     - derivs_length       : a derivative vector has exactly one entry per tape entry;
     - next_unused         : every operation only appends to tapes (other than clear), a new
       record sits at the old length of its tape, the elements of a new container / the
       indexes handed out by reset are strictly increasing positions in [old length, new length);
     - cycle_equiv         : after "clear; reset the inputs" a script behaves exactly as on a
       brand-new machine on which the inputs are created as new variables. *)
From Coq Require Import List Arith Bool Lia ZArith Sorted.
From EasyML Require Import Base.Sx Model.Num Model.Tape Model.Container Model.TapeMachine Proofs.TapeP.
Import ListNotations.

Section C15.
Context {R : Type} (ops : numops R).
Notation tape := (tape R).
Notation state := (@state R).
Notation obj := (@obj R).

(* ------------------------------------------------------------------ small facts *)
Lemma finish_panic (st : state) dst : finish st dst (Some Panic) = Some (st, Panic).
Proof. reflexivity. Qed.

Lemma on_tape_panic {A} (st : state) h (f : tape -> outcome (tape * A)) r :
  (forall tp, f tp = Panic) -> on_tape st h f = Some r -> r = Panic.
Proof.
  intros Hf. unfold on_tape. destruct h as [t|].
  - destruct (tape_of st t); [|discriminate]. rewrite Hf. cbn. congruence.
  - rewrite Hf. cbn. congruence.
Qed.

Lemma finish_on_tape_panic (st : state) dst h (f : tape -> outcome (tape * obj)) r :
  (forall tp, f tp = Panic) -> finish st dst (on_tape st h f) = Some r -> r = (st, Panic).
Proof.
  intros Hf. destruct (on_tape st h f) as [o|] eqn:E; [|discriminate].
  apply (on_tape_panic st h f o Hf) in E. subst o. cbn. congruence.
Qed.

Lemma same_list_diff t1 t2 : t1 <> t2 -> same_list (Some t1) (Some t2) = false.
Proof. intros H. cbn. apply Nat.eqb_neq. exact H. Qed.

Lemma rec_binary_cross tp f (x y : rec R) t1 t2 :
  r_hist x = Some t1 -> r_hist y = Some t2 -> t1 <> t2 -> rec_binary ops tp f x y = Panic.
Proof.
  intros Hx Hy Hne. unfold rec_binary. rewrite Hx, Hy, same_list_diff by exact Hne. reflexivity.
Qed.

Lemma c_binary_cross tp f (x y : cont R) t1 t2 :
  c_hist x = Some t1 -> c_hist y = Some t2 -> t1 <> t2 -> c_binary ops tp f x y = Panic.
Proof.
  intros Hx Hy Hne. unfold c_binary. rewrite Hx, Hy.
  destruct (negb (shape_eqb (c_tensor x) (c_shape x) (c_shape y))); [reflexivity|].
  replace (Nat.eqb t1 t2) with false by (symmetry; apply Nat.eqb_neq; exact Hne). reflexivity.
Qed.

Lemma c_matmul_cross tp (x y : cont R) t1 t2 :
  c_hist x = Some t1 -> c_hist y = Some t2 -> t1 <> t2 -> c_matmul ops tp x y = Panic.
Proof.
  intros Hx Hy Hne. unfold c_matmul. rewrite Hx, Hy, same_list_diff by exact Hne. reflexivity.
Qed.

(* ------------------------------------------------------------------ cross-tape rejection *)
Definition same_kind (a b : obj) : Prop :=
  match a, b with
  | ORec _, ORec _ => True
  | OCont x, OCont y => c_tensor x = c_tensor y
  | _, _ => False
  end.

Theorem cross_tape_binary (st : state) dst mode code a b t1 t2 r :
  obj_hist (get st a) = Some t1 -> obj_hist (get st b) = Some t2 -> t1 <> t2 ->
  same_kind (get st a) (get st b) ->
  step ops st (TBin dst mode code a b) = Some r -> r = (st, Panic).
Proof.
  intros Ha Hb Hne Hk. cbn [step].
  destruct (binfn_of ops code) as [f|]; [|discriminate].
  destruct (get st a) as [x|x|], (get st b) as [y|y|]; cbn in Hk; try contradiction; cbn in Ha, Hb.
  - apply finish_on_tape_panic. intros tp.
    rewrite (rec_binary_cross tp f x y t1 t2) by assumption. reflexivity.
  - rewrite Hk, Bool.eqb_reflx. cbn [negb].
    destruct (Nat.ltb 3 mode || (Nat.eqb mode 0 && Nat.ltb 1 code)) eqn:Em; [discriminate|].
    apply finish_on_tape_panic. intros tp. unfold cont_bin, c_binop.
    destruct mode as [|[|[|[|m]]]].
    + rewrite Ha, Hb, same_list_diff by exact Hne. reflexivity.
    + rewrite (c_binary_cross tp f x y t1 t2) by assumption. reflexivity.
    + rewrite (c_binary_cross tp f x y t1 t2) by assumption. reflexivity.
    + rewrite (c_binary_cross tp (swap_binfn f) y x t2 t1) by (try assumption; congruence). reflexivity.
    + reflexivity.
Qed.

Theorem cross_tape_matmul (st : state) dst a b (x y : cont R) t1 t2 r :
  get st a = OCont x -> get st b = OCont y -> c_tensor x = c_tensor y ->
  c_hist x = Some t1 -> c_hist y = Some t2 -> t1 <> t2 ->
  step ops st (TMatmul dst a b) = Some r -> r = (st, Panic).
Proof.
  intros Ga Gb Hk Ha Hb Hne. cbn [step]. rewrite Ga, Gb.
  rewrite Hk, Bool.eqb_reflx. cbn [negb].
  destruct (negb (Nat.eqb (length (c_shape x)) 2) || negb (Nat.eqb (length (c_shape y)) 2)); [discriminate|].
  apply finish_on_tape_panic. intros tp.
  rewrite (c_matmul_cross tp x y t1 t2) by assumption. reflexivity.
Qed.

(* ------------------------------------------------------------------ impl Sum for Record
   The transcription of the loop body (`sum_step`: the four-arm match of record_operations.rs)
   IS the binary operator `+` of two records, so the fold is Container.each_sum (the fold C04's
   Sum node is proved equal to in Proofs/C04S.v) whenever it completes. *)
Lemma sum_step_is_add tp (a x : rec R) : sum_step ops tp a x = rec_binary ops tp (Addition ops) a x.
Proof.
  unfold sum_step, rec_binary. destruct (r_hist a) as [h|], (r_hist x) as [h2|]; cbn [same_list negb]; reflexivity.
Qed.

Lemma sum_fold_ok : forall xs tp (a : rec R) tp' z,
  sum_fold ops tp a xs = (tp', Ok z) <-> each_sum ops tp a xs = Ok (tp', z).
Proof.
  induction xs as [|x xs IH]; intros tp a tp' z; cbn [sum_fold each_sum].
  - split; intros E; inversion E; reflexivity.
  - rewrite sum_step_is_add. destruct (rec_binary ops tp (Addition ops) a x) as [[t1 s]|e|]; [apply IH| |];
      split; intros E; inversion E.
Qed.

(* one iteration: nothing appended and a constant total, or exactly one entry whose position is
   the new total's index; the total takes the first history of (total, next) *)
Lemma sum_step_cases tp (a x : rec R) t1 s : sum_step ops tp a x = Ok (t1, s) ->
  r_hist s = first_hist (r_hist a) (r_hist x) /\ same_list (r_hist a) (r_hist x) = true /\
  ((r_hist s = None /\ t1 = tp) \/ (r_hist s <> None /\ exists e, t1 = tp ++ [e] /\ r_idx s = length tp)).
Proof.
  unfold sum_step. destruct (r_hist a) as [h|], (r_hist x) as [h2|]; cbn [same_list negb first_hist append_unary append_binary].
  - destruct (Nat.eqb h h2); cbn [negb]; [|discriminate]. intros E; inversion E; subst; cbn.
    split; [reflexivity|]. split; [reflexivity|]. right. split; [discriminate|]. eexists. split; reflexivity.
  - intros E; inversion E; subst; cbn. split; [reflexivity|]. split; [reflexivity|]. right. split; [discriminate|].
    eexists. split; reflexivity.
  - intros E; inversion E; subst; cbn. split; [reflexivity|]. split; [reflexivity|]. right. split; [discriminate|].
    eexists. split; reflexivity.
  - intros E; inversion E; subst; cbn. split; [reflexivity|]. split; [reflexivity|]. left. split; reflexivity.
Qed.

Lemma sum_step_no_err tp (a x : rec R) e : sum_step ops tp a x <> Err e.
Proof.
  unfold sum_step. destruct (r_hist a), (r_hist x); cbn [append_unary append_binary]; try discriminate.
  destruct (negb _); discriminate.
Qed.

Lemma sum_step_cross tp (a x : rec R) t1 t2 : r_hist a = Some t1 -> r_hist x = Some t2 -> t1 <> t2 ->
  sum_step ops tp a x = Panic.
Proof. intros Ha Hx Hne. rewrite sum_step_is_add. eapply rec_binary_cross; eauto. Qed.

Lemma sum_hist_app (xs ys : list (rec R)) : sum_hist (xs ++ ys) = first_hist (sum_hist xs) (sum_hist ys).
Proof.
  induction xs as [|x xs IH]; cbn [app sum_hist fold_right]; [reflexivity|].
  fold (sum_hist (xs ++ ys)). fold (sum_hist xs). rewrite IH. destruct (r_hist x); reflexivity.
Qed.

Lemma sum_fold_app : forall xs ys tp (a : rec R),
  sum_fold ops tp a (xs ++ ys) =
  match sum_fold ops tp a xs with
  | (t1, Ok s) => sum_fold ops t1 s ys
  | other => other
  end.
Proof.
  induction xs as [|x xs IH]; intros ys tp a; cbn [app sum_fold]; [reflexivity|].
  destruct (sum_step ops tp a x) as [[t1 s]|e|]; [apply IH|reflexivity|reflexivity].
Qed.

(* what a fold appends and where its result sits: a suffix of at most one entry per summed
   record; never an error value; a completed sum takes the first history among (total, records),
   a constant result appended nothing, a result with a history sits at the LAST appended entry
   (or is the untouched total when there was nothing to add) *)
Lemma sum_fold_fresh : forall xs tp (a : rec R) tp' r, sum_fold ops tp a xs = (tp', r) ->
  exists suf, tp' = tp ++ suf /\ length suf <= length xs /\ (forall e, r <> Err e) /\
    forall z, r = Ok z ->
      r_hist z = first_hist (r_hist a) (sum_hist xs) /\
      (r_hist z = None -> suf = []) /\
      (r_hist z <> None ->
         (suf = [] /\ z = a) \/ (exists pre e, suf = pre ++ [e] /\ r_idx z = length tp + length pre)).
Proof.
  induction xs as [|x xs IH]; intros tp a tp' r; cbn [sum_fold sum_hist fold_right].
  - intros E; inversion E; subst. exists []. rewrite app_nil_r. split; [reflexivity|]. split; [cbn; lia|].
    split; [discriminate|]. intros z Ez; inversion Ez; subst. split; [destruct (r_hist z); reflexivity|].
    split; [reflexivity|]. intros _. left. auto.
  - fold (sum_hist xs). destruct (sum_step ops tp a x) as [[t1 s]|e|] eqn:Es.
    + intros E. destruct (sum_step_cases _ _ _ _ _ Es) as (Hs & _ & Hc).
      destruct (IH _ _ _ _ E) as (suf2 & -> & L2 & Ne & Hz).
      destruct Hc as [[Hn ->]|[Hn (e1 & -> & Hi)]].
      * exists suf2. split; [reflexivity|]. split; [cbn; lia|]. split; [exact Ne|]. intros z Ez.
        destruct (Hz z Ez) as (H1 & H2 & H3). rewrite Hn in H1. rewrite Hs in Hn.
        destruct (r_hist a); [discriminate|]. cbn [first_hist] in *. destruct (r_hist x); [discriminate|].
        split; [exact H1|]. split; [exact H2|]. intros Hne. destruct (H3 Hne) as [[_ ->]|H4]; [|right; exact H4].
        exfalso. apply Hne. cbn [first_hist] in Hs. exact Hs.
      * exists (e1 :: suf2). split; [rewrite <- app_assoc; reflexivity|]. split; [cbn; lia|]. split; [exact Ne|].
        intros z Ez. destruct (Hz z Ez) as (H1 & H2 & H3).
        assert (Hzn : r_hist z <> None).
        { rewrite H1. destruct (r_hist s); [discriminate|]. exfalso. apply Hn. reflexivity. }
        split; [|split; [intros Q; contradiction|]].
        -- rewrite H1, Hs. destruct (r_hist a), (r_hist x); reflexivity.
        -- intros _. right. destruct (H3 Hzn) as [[-> ->]|(pre & e & -> & Hi2)].
           ++ exists [], e1. split; [reflexivity|]. cbn. lia.
           ++ exists (e1 :: pre), e. split; [reflexivity|]. rewrite app_length in Hi2. cbn in *. lia.
    + intros E; inversion E; subst. exfalso. eapply sum_step_no_err; eauto.
    + intros E; inversion E; subst. exists []. rewrite app_nil_r. split; [reflexivity|]. split; [cbn; lia|].
      split; [discriminate|]. intros z Ez; discriminate Ez.
Qed.

(* a completed sum: every summed record (and the start value) is a constant or lives on the
   list of the result *)
Lemma sum_fold_ok_hists : forall xs tp (a : rec R) tp' z, sum_fold ops tp a xs = (tp', Ok z) ->
  (r_hist a = None \/ r_hist a = r_hist z) /\ Forall (fun x => r_hist x = None \/ r_hist x = r_hist z) xs.
Proof.
  induction xs as [|x xs IH]; intros tp a tp' z; cbn [sum_fold].
  - intros E; inversion E; subst. split; [right; reflexivity|constructor].
  - destruct (sum_step ops tp a x) as [[t1 s]|e|] eqn:Es; [|intros E; inversion E|intros E; inversion E].
    intros E. destruct (IH _ _ _ _ E) as [Hs Hr]. destruct (sum_step_cases _ _ _ _ _ Es) as (Hh & Hl & _).
    rewrite Hh in Hs. destruct (r_hist a) as [h|] eqn:Ea, (r_hist x) as [h2|] eqn:Ex; cbn [first_hist same_list] in *.
    + apply Nat.eqb_eq in Hl. subst h2. destruct Hs as [Hs|Hs]; [discriminate|].
      split; [right; exact Hs|constructor; [right; rewrite Ex; exact Hs|exact Hr]].
    + destruct Hs as [Hs|Hs]; [discriminate|]. split; [right; exact Hs|constructor; [left; exact Ex|exact Hr]].
    + split; [left; reflexivity|constructor; [rewrite Ex; exact Hs|exact Hr]].
    + split; [left; reflexivity|constructor; [left; exact Ex|exact Hr]].
Qed.

(* records that are constants or live on one list t: the sum completes *)
Lemma sum_fold_same_ok t : forall xs tp (a : rec R),
  (r_hist a = None \/ r_hist a = Some t) -> Forall (fun x => r_hist x = None \/ r_hist x = Some t) xs ->
  exists tp' z, sum_fold ops tp a xs = (tp', Ok z).
Proof.
  induction xs as [|x xs IH]; intros tp a Ha Hx; cbn [sum_fold]; [eauto|].
  inversion Hx as [|? ? Hx1 Hx2]; subst.
  assert (Hl : same_list (r_hist a) (r_hist x) = true).
  { destruct Ha as [-> | ->], Hx1 as [-> | ->]; cbn; try reflexivity. apply Nat.eqb_refl. }
  destruct (sum_step ops tp a x) as [[t1 s]|e|] eqn:Es.
  - apply IH; [|exact Hx2]. destruct (sum_step_cases _ _ _ _ _ Es) as (Hh & _ & _). rewrite Hh.
    destruct Ha as [-> | ->], Hx1 as [-> | ->]; cbn; auto.
  - exfalso. eapply sum_step_no_err; eauto.
  - exfalso. revert Es. rewrite sum_step_is_add. unfold rec_binary. rewrite Hl. cbn [negb].
    destruct (r_hist a), (r_hist x); cbn [append_unary append_binary]; discriminate.
Qed.

Lemma get_recs_app (st : state) : forall pre post,
  get_recs st (pre ++ post) =
  match get_recs st pre, get_recs st post with Some xs, Some ys => Some (xs ++ ys) | _, _ => None end.
Proof.
  induction pre as [|a pre IH]; intros post; cbn [app get_recs].
  - destruct (get_recs st post); reflexivity.
  - rewrite IH. destruct (get st a); try reflexivity.
    destruct (get_recs st pre), (get_recs st post); reflexivity.
Qed.

(* Sum over records of TWO lists.  `pre` = the registers before the first foreign record: records
   of list t1 and constants (at least one of t1); register b holds a record of another list t2;
   `post` = any further records.  The call panics, writes no register, and leaves on list t1
   exactly the entries that summing `pre` alone appends (the partial sums computed before the
   assertion failed stay on the list); no other list changes. *)
Theorem cross_tape_sum (st : state) dst pre b post xs y ys t1 t2 r :
  get_recs st pre = Some xs -> get st b = ORec y -> get_recs st post = Some ys ->
  sum_hist xs = Some t1 -> Forall (fun x => r_hist x = None \/ r_hist x = Some t1) xs ->
  r_hist y = Some t2 -> t1 <> t2 ->
  step ops st (TSum dst (pre ++ b :: post)) = Some r ->
  exists stp z, step ops st (TSum dst pre) = Some (stp, Ok (VRec z)) /\ r_hist z = Some t1 /\
    r = (mkState (tapes stp) (regs st), Panic).
Proof.
  intros Gp Gb Gq Hh Hx Hy Hne. cbn [step]. rewrite get_recs_app, Gp. cbn [get_recs]. rewrite Gb, Gq.
  unfold sum_on. rewrite sum_hist_app, Hh. cbn [first_hist].
  destruct (tape_of st t1) as [tp|]; [|discriminate].
  destruct (sum_fold_same_ok t1 xs tp (rec_constant (nzero ops)) (or_introl eq_refl) Hx) as (tp1 & z & Ez).
  rewrite sum_fold_app, Ez. cbn [sum_fold].
  destruct (sum_fold_fresh _ _ _ _ _ Ez) as (suf & _ & _ & _ & Hz). destruct (Hz z eq_refl) as (Hzh & _).
  cbn [rec_constant r_hist first_hist] in Hzh. rewrite Hh in Hzh.
  rewrite (sum_step_cross tp1 z y t1 t2 Hzh Hy Hne). cbn [fst snd sum_finish].
  intros E; inversion E; subst. eexists _, z. split; [reflexivity|]. split; [exact Hzh|reflexivity].
Qed.

(* WITHOUT assumptions on the order: if two of the summed registers hold records of two different
   lists, the sum never completes and never writes a register *)
Theorem cross_tape_sum_never_ok (st : state) dst rs a b t1 t2 st' v :
  In a rs -> In b rs -> obj_hist (get st a) = Some t1 -> obj_hist (get st b) = Some t2 -> t1 <> t2 ->
  step ops st (TSum dst rs) = Some (st', v) -> regs st' = regs st /\ (v = Panic \/ v = Err (SZ 9%Z)).
Proof.
  intros Ia Ib Ha Hb Hne. cbn [step]. destruct (get_recs st rs) as [xs|] eqn:Eg.
  - assert (K : forall c t, In c rs -> obj_hist (get st c) = Some t -> exists x, In x xs /\ r_hist x = Some t).
    { clear - Eg. revert xs Eg. induction rs as [|q rs IH]; intros xs Eg c t Hc Hh; [destruct Hc|].
      cbn [get_recs] in Eg. destruct (get st q) as [xq| |] eqn:Eq; try discriminate.
      destruct (get_recs st rs) as [l|]; [|discriminate]. inversion Eg; subst.
      destruct Hc as [->|Hc].
      - rewrite Eq in Hh. exists xq. split; [left; reflexivity|exact Hh].
      - destruct (IH l eq_refl c t Hc Hh) as (x & Hx & Hxh). exists x. split; [right; exact Hx|exact Hxh]. }
    destruct (K a t1 Ia Ha) as (xa & Ixa & Hxa). destruct (K b t2 Ib Hb) as (xb & Ixb & Hxb).
    unfold sum_on.
    assert (NOK : forall tp tp' z, sum_fold ops tp (rec_constant (nzero ops)) xs <> (tp', Ok z)).
    { intros tp tp' z E. destruct (sum_fold_ok_hists _ _ _ _ _ E) as [_ F]. rewrite Forall_forall in F.
      destruct (F xa Ixa) as [Q|Q]; [congruence|]. destruct (F xb Ixb) as [Q2|Q2]; congruence. }
    assert (NERR : forall tp e, snd (sum_fold ops tp (rec_constant (nzero ops)) xs) <> Err e).
    { intros tp e E. destruct (sum_fold ops tp (rec_constant (nzero ops)) xs) as [tp' r] eqn:Ef.
      destruct (sum_fold_fresh _ _ _ _ _ Ef) as (_ & _ & _ & Ne & _). cbn in E. eapply Ne; eauto. }
    destruct (sum_hist xs) as [t|].
    + destruct (tape_of st t) as [tp|]; [|discriminate].
      destruct (sum_fold ops tp (rec_constant (nzero ops)) xs) as [tp' [z|e|]] eqn:Ef; cbn [fst snd sum_finish].
      * exfalso. eapply NOK; eauto.
      * exfalso. apply (NERR tp e). rewrite Ef. reflexivity.
      * intros E; inversion E; subst. auto.
    + destruct (sum_fold ops [] (rec_constant (nzero ops)) xs) as [tp' [z|e|]] eqn:Ef; cbn [fst snd sum_finish].
      * exfalso. eapply NOK; eauto.
      * exfalso. apply (NERR [] e). rewrite Ef. reflexivity.
      * intros E; inversion E; subst. auto.
  - intros E; inversion E; subst. auto.
Qed.

(* ------------------------------------------------------------------ derivative vectors *)
Lemma derivs_checked_length (tp : tape) out d : derivs_checked ops tp out = Ok d -> length d = length tp.
Proof.
  unfold derivs_checked. destruct (_ && _); [|discriminate]. intros H. inversion H. apply sweep_length.
Qed.

Theorem derivs_length (st st' : state) a elem d :
  step ops st (TDerivs a elem) = Some (st', Ok (VDerivs (Some d))) ->
  exists t tp, obj_hist (get st a) = Some t /\ tape_of st t = Some tp /\ length d = length tp.
Proof.
  cbn [step]. unfold skipped. destruct (get st a) as [x|x|] eqn:Eg; cbn [obj_hist].
  - destruct (r_hist x) as [t|]; [|intros H; inversion H].
    destruct (tape_of st t) as [tp|] eqn:Et; [|discriminate].
    destruct (derivs_checked ops tp (r_idx x)) as [d'| |] eqn:Ed; cbn; intros H; inversion H; subst.
    exists t, tp. repeat split; auto. eapply derivs_checked_length; eauto.
  - destruct (nth_error (c_data x) elem) as [p|]; [|intros H; inversion H].
    destruct (c_hist x) as [t|]; [|intros H; inversion H].
    destruct (tape_of st t) as [tp|] eqn:Et; [|discriminate].
    destruct (derivs_checked ops tp (snd p)) as [d'| |] eqn:Ed; cbn; intros H; inversion H; subst.
    exists t, tp. repeat split; auto. eapply derivs_checked_length; eauto.
  - intros H; inversion H.
Qed.


(* ------------------------------------------------------------------ next unused position
   FULL STATEMENT aimed at (C15_next_unused): every append returns the current length; positions
   strictly increase between clears (for every operation of the machine).
   (The full statement is proved in Proofs/C15Q.v, theorem next_unused, which lifts the lemmas
   below through `step` for every operation and adds the matrix multiplications.)
   PROVED HERE: for every appending primitive of the model - the four scalar record operations, the
   batch constructors / resets (append_nullary_repeating) and the four batch helpers behind
   every elementwise container operation - the new entries are appended (the old tape is a
   prefix), the positions handed out are exactly old length, old length + 1, ... in iteration
   order, and the tape grows by the number of positions.  MISSING: the same bookkeeping for
   record_scalar_product / the matrix multiplications, and lifting through the register
   machine (step) for every operation kind; both are covered by the correspondence check, which
   compares every position of every step. *)
Lemma nullary_repeating_app : forall n (t : tape), exists suf,
  append_nullary_repeating ops t n = t ++ suf /\ length suf = n.
Proof.
  induction n as [|n IH]; intros t; cbn [append_nullary_repeating append_nullary fst].
  - exists []. rewrite app_nil_r. auto.
  - destruct (IH (t ++ [mkEntry (length t) (length t) (nzero ops) (nzero ops)])) as [suf [E L]].
    eexists (_ :: suf). rewrite E, <- app_assoc. cbn. split; [reflexivity|lia].
Qed.

Lemma unary_loop_positions f : forall records (t : tape) t' ys, unary_loop ops t f records = (t', ys) ->
  (exists suf, t' = t ++ suf) /\ length t' = length t + length records /\
  map snd ys = seq (length t) (length records).
Proof.
  induction records as [|[x p] r IH]; intros t t' ys; cbn [unary_loop append_unary].
  - intros E; inversion E; subst. split; [exists []; rewrite app_nil_r; reflexivity|]. cbn. split; [lia|reflexivity].
  - destruct (unary_loop ops (t ++ [_]) f r) as [t2 yr] eqn:E2. intros E; inversion E; subst t' ys; clear E.
    destruct (IH _ _ _ E2) as [[suf Es] [El Ep]]. rewrite app_length in El, Ep. cbn [length] in El, Ep.
    split; [eexists; rewrite Es, <- app_assoc; reflexivity|]. split; [cbn; lia|].
    cbn [map snd seq length]. f_equal. rewrite Ep. f_equal. lia.
Qed.

Lemma binary_both_positions f : forall xs ys (t : tape) t' zs, binary_both_loop t f xs ys = (t', zs) ->
  (exists suf, t' = t ++ suf) /\ length t' = length t + length zs /\ map snd zs = seq (length t) (length zs).
Proof.
  induction xs as [|[x p] r IH]; intros [|[y q] yr] t t' zs; cbn [binary_both_loop append_binary];
    try (intros E; inversion E; subst; split; [exists []; rewrite app_nil_r; reflexivity|]; cbn; split; [lia|reflexivity]).
  destruct (binary_both_loop (t ++ [_]) f r yr) as [t2 zr] eqn:E2. intros E; inversion E; subst t' zs; clear E.
  destruct (IH _ _ _ _ E2) as [[suf Es] [El Ep]]. rewrite app_length in El, Ep. cbn [length] in El, Ep.
  split; [eexists; rewrite Es, <- app_assoc; reflexivity|]. split; [cbn; lia|].
  cbn [map snd seq length]. f_equal. rewrite Ep. f_equal. lia.
Qed.

Lemma binary_x_positions f : forall xs ys (t : tape) t' zs, binary_x_loop ops t f xs ys = (t', zs) ->
  (exists suf, t' = t ++ suf) /\ length t' = length t + length zs /\ map snd zs = seq (length t) (length zs).
Proof.
  induction xs as [|[x p] r IH]; intros [|[y q] yr] t t' zs; cbn [binary_x_loop append_unary];
    try (intros E; inversion E; subst; split; [exists []; rewrite app_nil_r; reflexivity|]; cbn; split; [lia|reflexivity]).
  destruct (binary_x_loop ops (t ++ [_]) f r yr) as [t2 zr] eqn:E2. intros E; inversion E; subst t' zs; clear E.
  destruct (IH _ _ _ _ E2) as [[suf Es] [El Ep]]. rewrite app_length in El, Ep. cbn [length] in El, Ep.
  split; [eexists; rewrite Es, <- app_assoc; reflexivity|]. split; [cbn; lia|].
  cbn [map snd seq length]. f_equal. rewrite Ep. f_equal. lia.
Qed.

Lemma binary_y_positions f : forall xs ys (t : tape) t' zs, binary_y_loop ops t f xs ys = (t', zs) ->
  (exists suf, t' = t ++ suf) /\ length t' = length t + length zs /\ map snd zs = seq (length t) (length zs).
Proof.
  induction xs as [|[x p] r IH]; intros [|[y q] yr] t t' zs; cbn [binary_y_loop append_unary];
    try (intros E; inversion E; subst; split; [exists []; rewrite app_nil_r; reflexivity|]; cbn; split; [lia|reflexivity]).
  destruct (binary_y_loop ops (t ++ [_]) f r yr) as [t2 zr] eqn:E2. intros E; inversion E; subst t' zs; clear E.
  destruct (IH _ _ _ _ E2) as [[suf Es] [El Ep]]. rewrite app_length in El, Ep. cbn [length] in El, Ep.
  split; [eexists; rewrite Es, <- app_assoc; reflexivity|]. split; [cbn; lia|].
  cbn [map snd seq length]. f_equal. rewrite Ep. f_equal. lia.
Qed.

Lemma combine_maps {A B} : forall (a : list A) (b : list B), length a = length b ->
  map snd (combine a b) = b /\ map fst (combine a b) = a.
Proof.
  induction a as [|u a IH]; intros [|w b] H; cbn in *; try discriminate; auto.
  destruct (IH b ltac:(lia)) as [-> ->]. auto.
Qed.

Theorem next_unused_primitives :
  (* scalar records: exactly one entry is appended, the record sits at the old length *)
  (forall (t : tape) h x, rec_variable ops t h x =
     (t ++ [mkEntry (length t) (length t) (nzero ops) (nzero ops)], mkRec x (Some h) (length t))) /\
  (forall (t : tape) (x : rec R) h, r_hist x = Some h -> exists e,
     rec_reset ops t x = (t ++ [e], mkRec (r_num x) (Some h) (length t))) /\
  (forall (t : tape) f (x : rec R) h, r_hist x = Some h -> exists e v,
     rec_unary ops t f x = (t ++ [e], mkRec v (Some h) (length t))) /\
  (forall (t : tape) f (x y : rec R) t' z h, rec_binary ops t f x y = Ok (t', z) -> r_hist z = Some h ->
     exists e, t' = t ++ [e] /\ r_idx z = length t) /\
  (* batch constructors and resets: `elements` entries, positions old length, +1, ... *)
  (forall (t : tape) h tensor sh data, length data = elements sh ->
     exists suf, fst (c_variables ops t h tensor sh data) = t ++ suf /\ length suf = elements sh /\
       map snd (c_data (snd (c_variables ops t h tensor sh data))) = seq (length t) (elements sh)) /\
  (forall (t : tape) (x : cont R) h, c_hist x = Some h -> length (c_data x) = elements (c_shape x) ->
     exists suf, fst (c_reset ops t x) = t ++ suf /\ length suf = elements (c_shape x) /\
       map snd (c_data (snd (c_reset ops t x))) = seq (length t) (elements (c_shape x)) /\
       map fst (c_data (snd (c_reset ops t x))) = map fst (c_data x)).
Proof.
  split; [reflexivity|]. split; [|split; [|split; [|split]]].
  - intros t x h Hh. unfold rec_reset. rewrite Hh. cbn. eexists. reflexivity.
  - intros t f x h Hh. unfold rec_unary. rewrite Hh. cbn. eexists _, _. reflexivity.
  - intros t f x y t' z h. unfold rec_binary. destruct (negb _); [discriminate|].
    destruct (r_hist x), (r_hist y); cbn; intros E; inversion E; subst; cbn; intros Hh;
      try discriminate; eexists; split; reflexivity.
  - intros t h tensor sh data Hl. unfold c_variables. cbn [fst snd c_data].
    destruct (nullary_repeating_app (elements sh) t) as [suf [E L]]. exists suf. split; [exact E|]. split; [exact L|].
    unfold incrementing_indexes. apply combine_maps. rewrite seq_length. exact Hl.
  - intros t x h Hh Hl. unfold c_reset. rewrite Hh. cbn [fst snd c_data].
    destruct (nullary_repeating_app (elements (c_shape x)) t) as [suf [E L]]. exists suf. split; [exact E|]. split; [exact L|].
    unfold incrementing_indexes.
    split; apply combine_maps; rewrite map_length, seq_length; exact Hl.
Qed.

(* ------------------------------------------------------------------ registers and tapes *)
Lemma nth_set_nth {A} (d : A) : forall l k v j, nth j (set_nth d l k v) d = if Nat.eqb j k then v else nth j l d.
Proof.
  induction l as [|x l IH]; intros k v j.
  - revert j. induction k as [|k IHk]; intros [|j]; cbn; try reflexivity.
    + destruct j; reflexivity.
    + rewrite IHk. destruct (Nat.eqb j k); [reflexivity|]. destruct j; reflexivity.
  - destruct k, j; cbn; try reflexivity. apply IH.
Qed.

Lemma get_put (st : state) a o b : get (put st a o) b = if Nat.eqb b a then o else get st b.
Proof. unfold get, put. cbn. apply nth_set_nth. Qed.

Lemma get_set_tape (st : state) t tp b : get (set_tape st t tp) b = get st b.
Proof. reflexivity. Qed.

(* ------------------------------------------------------------------ clear + reset = a fresh start
   FULL STATEMENT aimed at (C15_cycle_equiv): for any script P and any history ending with
   "clear; reset all live inputs of P", running P gives the same values and derivatives as on a
   fresh tape, for any number of cycles.
   PROVED (cycle_is_fresh_start): from ANY machine state (any earlier history, any number of
   earlier cycles), "clear list t; reset the inputs (in any chosen order)" leads to EXACTLY the
   same machine state as "clear list t; create each input again as a new variable / new
   variables container with the same numbers" - so every script run afterwards returns
   identical results step by step (run_after_cycle).  (The frame property is proved in
   Proofs/C15Q.v, theorem cycle_equiv, on top of cycle_is_fresh_start.)  What this lemma alone
   leaves unproved is the frame
   property: that the registers and lists P does not touch cannot influence it (the right-hand
   machine still carries the old, unrelated registers and the other lists). *)
Definition recreate (t a : nat) (o : obj) : @tm_op R :=
  match o with
  | ORec r => TVar a t (r_num r)
  | OCont c => TCVar a t (c_tensor c) (c_shape c) (map fst (c_data c))
  | ODead => TConst a (nzero ops)
  end.

Definition input_ok (t : nat) (o : obj) : Prop :=
  obj_hist o = Some t /\
  match o with
  | OCont c => shape_valid (c_shape c) (length (c_data c)) = true /\
               (c_tensor c || Nat.eqb (length (c_shape c)) 2) = true
  | _ => True
  end.

Lemma reset_is_recreate (st : state) t a st1 v1 : input_ok t (get st a) ->
  step ops st (TReset a) = Some (st1, v1) ->
  exists v2, step ops st (recreate t a (get st a)) = Some (st1, v2).
Proof.
  intros [Hh Hw]. cbn [step]. destruct (get st a) as [r|c|] eqn:Eg; cbn [obj_hist] in Hh; try discriminate.
  - cbn [obj_hist recreate step]. rewrite Hh. unfold on_tape.
    destruct (tape_of st t) as [tp|]; [|discriminate].
    unfold obj_reset, rec_reset, rec_variable. rewrite Hh. cbn.
    intros E. inversion E; subst. eexists. reflexivity.
  - cbn [obj_hist recreate step]. rewrite Hh. destruct Hw as [W1 W2]. rewrite map_length, W1, W2. cbn [negb orb].
    unfold on_tape. destruct (tape_of st t) as [tp|]; [|discriminate].
    unfold obj_reset, c_reset, c_variables. rewrite Hh. cbn.
    intros E. inversion E; subst. eexists. reflexivity.
Qed.

Lemma reset_other (st : state) a st1 v1 b :
  step ops st (TReset a) = Some (st1, v1) -> b <> a -> get st1 b = get st b.
Proof.
  cbn [step]. unfold skipped. intros E Hne.
  assert (K : forall o, (match obj_hist o with
                         | None => Some (st, Ok (VIdx []))
                         | Some t => match tape_of st t with
                                     | None => None
                                     | Some tp => let '(tp', o', idx) := obj_reset ops tp o in
                                                  Some (put (set_tape st t tp') a o', Ok (VIdx idx))
                                     end
                         end) = Some (st1, v1) -> get st1 b = get st b).
  { intros o. destruct (obj_hist o) as [t|]; [|intros Q; inversion Q; reflexivity].
    destruct (tape_of st t) as [tp|]; [|discriminate].
    destruct (obj_reset ops tp o) as [[tp' o'] idx]. intros Q; inversion Q; subst.
    rewrite get_put, get_set_tape. destruct (Nat.eqb_spec b a); [contradiction|reflexivity]. }
  destruct (get st a) as [r|c|] eqn:Eg.
  - apply (K (ORec r)). exact E.
  - apply (K (OCont c)). exact E.
  - inversion E; reflexivity.
Qed.

Lemma run_resets_recreate t (st : state) : forall ins st0 stf vs,
  NoDup ins -> (forall a, In a ins -> get st0 a = get st a /\ input_ok t (get st a)) ->
  tm_run ops st0 (map TReset ins) = Some (stf, vs) ->
  exists vs', tm_run ops st0 (map (fun a => recreate t a (get st a)) ins) = Some (stf, vs').
Proof.
  induction ins as [|a r IH]; intros st0 stf vs Hnd Hin.
  - cbn. intros E. inversion E. eexists. reflexivity.
  - cbn [map tm_run]. destruct (step ops st0 (TReset a)) as [[st1 v1]|] eqn:E1; [|discriminate].
    destruct (Hin a (or_introl eq_refl)) as [Ga Oa].
    assert (Oa' : input_ok t (get st0 a)) by (rewrite Ga; exact Oa).
    destruct (reset_is_recreate st0 t a st1 v1 Oa' E1) as [v2 E2]. rewrite Ga in E2. rewrite E2.
    destruct (tm_run ops st1 (map TReset r)) as [[st2 vr]|] eqn:E3; [|discriminate].
    intros E. inversion E; subst stf vs; clear E.
    inversion Hnd as [|? ? Hna Hnd']; subst.
    assert (Hin' : forall b, In b r -> get st1 b = get st b /\ input_ok t (get st b)).
    { intros b Hb. destruct (Hin b (or_intror Hb)) as [Gb Ob]. split; [|exact Ob]. rewrite <- Gb.
      apply (reset_other st0 a st1 v1 b E1). intros ->. contradiction. }
    destruct (IH st1 st2 vr Hnd' Hin' E3) as [vs' E4]. rewrite E4. eexists. reflexivity.
Qed.

Theorem cycle_is_fresh_start (st : state) t ins stf vs :
  NoDup ins -> (forall a, In a ins -> input_ok t (get st a)) ->
  tm_run ops st (TClear t :: map TReset ins) = Some (stf, vs) ->
  exists vs', tm_run ops st (TClear t :: map (fun a => recreate t a (get st a)) ins) = Some (stf, vs').
Proof.
  intros Hnd Hin. cbn [tm_run]. destruct (step ops st (TClear t)) as [[st0 v0]|] eqn:E0; [|discriminate].
  destruct (tm_run ops st0 (map TReset ins)) as [[st1 vr]|] eqn:E1; [|discriminate].
  intros E. inversion E; subst stf vs; clear E.
  assert (Hin' : forall a, In a ins -> get st0 a = get st a /\ input_ok t (get st a)).
  { intros a Ha. split; [|apply Hin; exact Ha]. revert E0. cbn [step].
    destruct (tape_of st t); [|discriminate]. intros E; inversion E; subst. reflexivity. }
  destruct (run_resets_recreate t st ins st0 st1 vr Hnd Hin' E1) as [vs' E2]. rewrite E2.
  eexists. reflexivity.
Qed.

(* ... hence any script behaves identically afterwards (any number of cycles: st is arbitrary) *)
Corollary run_after_cycle (st : state) t ins stf vs P :
  NoDup ins -> (forall a, In a ins -> input_ok t (get st a)) ->
  tm_run ops st (TClear t :: map TReset ins) = Some (stf, vs) ->
  exists stf' vs', tm_run ops st (TClear t :: map (fun a => recreate t a (get st a)) ins) = Some (stf', vs') /\
                   tm_run ops stf' P = tm_run ops stf P.
Proof.
  intros Hnd Hin E. destruct (cycle_is_fresh_start st t ins stf vs Hnd Hin E) as [vs' E'].
  exists stf, vs'. split; [exact E'|reflexivity].
Qed.

End C15.
