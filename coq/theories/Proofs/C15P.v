(* C15: the tape state machine of Model/TapeMachine.v.
     - cross_tape_rejected : every binary operator kind between objects of two different
       WengertLists panics (scalar records, containers in all four invocation modes, both
       matrix multiplications) and leaves the state unchanged;
     - derivs_length       : a derivative vector has exactly one entry per tape entry;
     - next_unused         : every operation only appends to tapes (other than clear), a new
       record sits at the old length of its tape, the elements of a new container / the
       indexes handed out by reset are strictly increasing positions in [old length, new length);
     - cycle_equiv         : after "clear; reset the inputs" a script behaves exactly as on a
       brand-new machine on which the inputs are created as new variables. *)
From Coq Require Import List Arith Bool Lia ZArith Sorted.
From EasyML Require Import Base.Sx Model.Num Model.Tape Model.Container Model.TapeMachine Proofs.TapeP.
Import ListNotations.

Section C15.
Context {R : Type} (ops : numops R).
Notation tape := (tape R).
Notation state := (@state R).
Notation obj := (@obj R).

(* ------------------------------------------------------------------ small facts *)
Lemma finish_panic (st : state) dst : finish st dst (Some Panic) = Some (st, Panic).
Proof. reflexivity. Qed.

Lemma on_tape_panic {A} (st : state) h (f : tape -> outcome (tape * A)) r :
  (forall tp, f tp = Panic) -> on_tape st h f = Some r -> r = Panic.
Proof.
  intros Hf. unfold on_tape. destruct h as [t|].
  - destruct (tape_of st t); [|discriminate]. rewrite Hf. cbn. congruence.
  - rewrite Hf. cbn. congruence.
Qed.

Lemma finish_on_tape_panic (st : state) dst h (f : tape -> outcome (tape * obj)) r :
  (forall tp, f tp = Panic) -> finish st dst (on_tape st h f) = Some r -> r = (st, Panic).
Proof.
  intros Hf. destruct (on_tape st h f) as [o|] eqn:E; [|discriminate].
  apply (on_tape_panic st h f o Hf) in E. subst o. cbn. congruence.
Qed.

Lemma same_list_diff t1 t2 : t1 <> t2 -> same_list (Some t1) (Some t2) = false.
Proof. intros H. cbn. apply Nat.eqb_neq. exact H. Qed.

Lemma rec_binary_cross tp f (x y : rec R) t1 t2 :
  r_hist x = Some t1 -> r_hist y = Some t2 -> t1 <> t2 -> rec_binary ops tp f x y = Panic.
Proof.
  intros Hx Hy Hne. unfold rec_binary. rewrite Hx, Hy, same_list_diff by exact Hne. reflexivity.
Qed.

Lemma c_binary_cross tp f (x y : cont R) t1 t2 :
  c_hist x = Some t1 -> c_hist y = Some t2 -> t1 <> t2 -> c_binary ops tp f x y = Panic.
Proof.
  intros Hx Hy Hne. unfold c_binary. rewrite Hx, Hy.
  destruct (negb (shape_eqb (c_tensor x) (c_shape x) (c_shape y))); [reflexivity|].
  replace (Nat.eqb t1 t2) with false by (symmetry; apply Nat.eqb_neq; exact Hne). reflexivity.
Qed.

Lemma c_matmul_cross tp (x y : cont R) t1 t2 :
  c_hist x = Some t1 -> c_hist y = Some t2 -> t1 <> t2 -> c_matmul ops tp x y = Panic.
Proof.
  intros Hx Hy Hne. unfold c_matmul. rewrite Hx, Hy, same_list_diff by exact Hne. reflexivity.
Qed.

(* ------------------------------------------------------------------ cross-tape rejection *)
Definition same_kind (a b : obj) : Prop :=
  match a, b with
  | ORec _, ORec _ => True
  | OCont x, OCont y => c_tensor x = c_tensor y
  | _, _ => False
  end.

Theorem cross_tape_binary (st : state) dst mode code a b t1 t2 r :
  obj_hist (get st a) = Some t1 -> obj_hist (get st b) = Some t2 -> t1 <> t2 ->
  same_kind (get st a) (get st b) ->
  step ops st (TBin dst mode code a b) = Some r -> r = (st, Panic).
Proof.
  intros Ha Hb Hne Hk. cbn [step].
  destruct (binfn_of ops code) as [f|]; [|discriminate].
  destruct (get st a) as [x|x|], (get st b) as [y|y|]; cbn in Hk; try contradiction; cbn in Ha, Hb.
  - apply finish_on_tape_panic. intros tp.
    rewrite (rec_binary_cross tp f x y t1 t2) by assumption. reflexivity.
  - rewrite Hk, Bool.eqb_reflx. cbn [negb].
    destruct (Nat.ltb 3 mode || (Nat.eqb mode 0 && Nat.ltb 1 code)) eqn:Em; [discriminate|].
    apply finish_on_tape_panic. intros tp. unfold cont_bin, c_binop.
    destruct mode as [|[|[|[|m]]]].
    + rewrite Ha, Hb, same_list_diff by exact Hne. reflexivity.
    + rewrite (c_binary_cross tp f x y t1 t2) by assumption. reflexivity.
    + rewrite (c_binary_cross tp f x y t1 t2) by assumption. reflexivity.
    + rewrite (c_binary_cross tp (swap_binfn f) y x t2 t1) by (try assumption; congruence). reflexivity.
    + reflexivity.
Qed.

Theorem cross_tape_matmul (st : state) dst a b (x y : cont R) t1 t2 r :
  get st a = OCont x -> get st b = OCont y -> c_tensor x = c_tensor y ->
  c_hist x = Some t1 -> c_hist y = Some t2 -> t1 <> t2 ->
  step ops st (TMatmul dst a b) = Some r -> r = (st, Panic).
Proof.
  intros Ga Gb Hk Ha Hb Hne. cbn [step]. rewrite Ga, Gb.
  rewrite Hk, Bool.eqb_reflx. cbn [negb].
  destruct (negb (Nat.eqb (length (c_shape x)) 2) || negb (Nat.eqb (length (c_shape y)) 2)); [discriminate|].
  apply finish_on_tape_panic. intros tp.
  rewrite (c_matmul_cross tp x y t1 t2) by assumption. reflexivity.
Qed.

(* ------------------------------------------------------------------ derivative vectors *)
Lemma derivs_checked_length (tp : tape) out d : derivs_checked ops tp out = Ok d -> length d = length tp.
Proof.
  unfold derivs_checked. destruct (_ && _); [|discriminate]. intros H. inversion H. apply sweep_length.
Qed.

Theorem derivs_length (st st' : state) a elem d :
  step ops st (TDerivs a elem) = Some (st', Ok (VDerivs (Some d))) ->
  exists t tp, obj_hist (get st a) = Some t /\ tape_of st t = Some tp /\ length d = length tp.
Proof.
  cbn [step]. unfold skipped. destruct (get st a) as [x|x|] eqn:Eg; cbn [obj_hist].
  - destruct (r_hist x) as [t|]; [|intros H; inversion H].
    destruct (tape_of st t) as [tp|] eqn:Et; [|discriminate].
    destruct (derivs_checked ops tp (r_idx x)) as [d'| |] eqn:Ed; cbn; intros H; inversion H; subst.
    exists t, tp. repeat split; auto. eapply derivs_checked_length; eauto.
  - destruct (nth_error (c_data x) elem) as [p|]; [|intros H; inversion H].
    destruct (c_hist x) as [t|]; [|intros H; inversion H].
    destruct (tape_of st t) as [tp|] eqn:Et; [|discriminate].
    destruct (derivs_checked ops tp (snd p)) as [d'| |] eqn:Ed; cbn; intros H; inversion H; subst.
    exists t, tp. repeat split; auto. eapply derivs_checked_length; eauto.
  - intros H; inversion H.
Qed.


(* ------------------------------------------------------------------ next unused position
   FULL STATEMENT aimed at (C15_next_unused): every append returns the current length; positions
   strictly increase between clears (for every operation of the machine).
   (The full statement is proved in Proofs/C15Q.v, theorem next_unused, which lifts the lemmas
   below through `step` for every operation and adds the matrix multiplications.)
   PROVED HERE: for every appending primitive of the model - the four scalar record operations, the
   batch constructors / resets (append_nullary_repeating) and the four batch helpers behind
   every elementwise container operation - the new entries are appended (the old tape is a
   prefix), the positions handed out are exactly old length, old length + 1, ... in iteration
   order, and the tape grows by the number of positions.  MISSING: the same bookkeeping for
   record_scalar_product / the matrix multiplications, and lifting through the register
   machine (step) for every operation kind; both are covered by the correspondence check, which
   compares every position of every step. *)
Lemma nullary_repeating_app : forall n (t : tape), exists suf,
  append_nullary_repeating ops t n = t ++ suf /\ length suf = n.
Proof.
  induction n as [|n IH]; intros t; cbn [append_nullary_repeating append_nullary fst].
  - exists []. rewrite app_nil_r. auto.
  - destruct (IH (t ++ [mkEntry (length t) (length t) (nzero ops) (nzero ops)])) as [suf [E L]].
    eexists (_ :: suf). rewrite E, <- app_assoc. cbn. split; [reflexivity|lia].
Qed.

Lemma unary_loop_positions f : forall records (t : tape) t' ys, unary_loop ops t f records = (t', ys) ->
  (exists suf, t' = t ++ suf) /\ length t' = length t + length records /\
  map snd ys = seq (length t) (length records).
Proof.
  induction records as [|[x p] r IH]; intros t t' ys; cbn [unary_loop append_unary].
  - intros E; inversion E; subst. split; [exists []; rewrite app_nil_r; reflexivity|]. cbn. split; [lia|reflexivity].
  - destruct (unary_loop ops (t ++ [_]) f r) as [t2 yr] eqn:E2. intros E; inversion E; subst t' ys; clear E.
    destruct (IH _ _ _ E2) as [[suf Es] [El Ep]]. rewrite app_length in El, Ep. cbn [length] in El, Ep.
    split; [eexists; rewrite Es, <- app_assoc; reflexivity|]. split; [cbn; lia|].
    cbn [map snd seq length]. f_equal. rewrite Ep. f_equal. lia.
Qed.

Lemma binary_both_positions f : forall xs ys (t : tape) t' zs, binary_both_loop t f xs ys = (t', zs) ->
  (exists suf, t' = t ++ suf) /\ length t' = length t + length zs /\ map snd zs = seq (length t) (length zs).
Proof.
  induction xs as [|[x p] r IH]; intros [|[y q] yr] t t' zs; cbn [binary_both_loop append_binary];
    try (intros E; inversion E; subst; split; [exists []; rewrite app_nil_r; reflexivity|]; cbn; split; [lia|reflexivity]).
  destruct (binary_both_loop (t ++ [_]) f r yr) as [t2 zr] eqn:E2. intros E; inversion E; subst t' zs; clear E.
  destruct (IH _ _ _ _ E2) as [[suf Es] [El Ep]]. rewrite app_length in El, Ep. cbn [length] in El, Ep.
  split; [eexists; rewrite Es, <- app_assoc; reflexivity|]. split; [cbn; lia|].
  cbn [map snd seq length]. f_equal. rewrite Ep. f_equal. lia.
Qed.

Lemma binary_x_positions f : forall xs ys (t : tape) t' zs, binary_x_loop ops t f xs ys = (t', zs) ->
  (exists suf, t' = t ++ suf) /\ length t' = length t + length zs /\ map snd zs = seq (length t) (length zs).
Proof.
  induction xs as [|[x p] r IH]; intros [|[y q] yr] t t' zs; cbn [binary_x_loop append_unary];
    try (intros E; inversion E; subst; split; [exists []; rewrite app_nil_r; reflexivity|]; cbn; split; [lia|reflexivity]).
  destruct (binary_x_loop ops (t ++ [_]) f r yr) as [t2 zr] eqn:E2. intros E; inversion E; subst t' zs; clear E.
  destruct (IH _ _ _ _ E2) as [[suf Es] [El Ep]]. rewrite app_length in El, Ep. cbn [length] in El, Ep.
  split; [eexists; rewrite Es, <- app_assoc; reflexivity|]. split; [cbn; lia|].
  cbn [map snd seq length]. f_equal. rewrite Ep. f_equal. lia.
Qed.

Lemma binary_y_positions f : forall xs ys (t : tape) t' zs, binary_y_loop ops t f xs ys = (t', zs) ->
  (exists suf, t' = t ++ suf) /\ length t' = length t + length zs /\ map snd zs = seq (length t) (length zs).
Proof.
  induction xs as [|[x p] r IH]; intros [|[y q] yr] t t' zs; cbn [binary_y_loop append_unary];
    try (intros E; inversion E; subst; split; [exists []; rewrite app_nil_r; reflexivity|]; cbn; split; [lia|reflexivity]).
  destruct (binary_y_loop ops (t ++ [_]) f r yr) as [t2 zr] eqn:E2. intros E; inversion E; subst t' zs; clear E.
  destruct (IH _ _ _ _ E2) as [[suf Es] [El Ep]]. rewrite app_length in El, Ep. cbn [length] in El, Ep.
  split; [eexists; rewrite Es, <- app_assoc; reflexivity|]. split; [cbn; lia|].
  cbn [map snd seq length]. f_equal. rewrite Ep. f_equal. lia.
Qed.

Lemma combine_maps {A B} : forall (a : list A) (b : list B), length a = length b ->
  map snd (combine a b) = b /\ map fst (combine a b) = a.
Proof.
  induction a as [|u a IH]; intros [|w b] H; cbn in *; try discriminate; auto.
  destruct (IH b ltac:(lia)) as [-> ->]. auto.
Qed.

Theorem next_unused_primitives :
  (* scalar records: exactly one entry is appended, the record sits at the old length *)
  (forall (t : tape) h x, rec_variable ops t h x =
     (t ++ [mkEntry (length t) (length t) (nzero ops) (nzero ops)], mkRec x (Some h) (length t))) /\
  (forall (t : tape) (x : rec R) h, r_hist x = Some h -> exists e,
     rec_reset ops t x = (t ++ [e], mkRec (r_num x) (Some h) (length t))) /\
  (forall (t : tape) f (x : rec R) h, r_hist x = Some h -> exists e v,
     rec_unary ops t f x = (t ++ [e], mkRec v (Some h) (length t))) /\
  (forall (t : tape) f (x y : rec R) t' z h, rec_binary ops t f x y = Ok (t', z) -> r_hist z = Some h ->
     exists e, t' = t ++ [e] /\ r_idx z = length t) /\
  (* batch constructors and resets: `elements` entries, positions old length, +1, ... *)
  (forall (t : tape) h tensor sh data, length data = elements sh ->
     exists suf, fst (c_variables ops t h tensor sh data) = t ++ suf /\ length suf = elements sh /\
       map snd (c_data (snd (c_variables ops t h tensor sh data))) = seq (length t) (elements sh)) /\
  (forall (t : tape) (x : cont R) h, c_hist x = Some h -> length (c_data x) = elements (c_shape x) ->
     exists suf, fst (c_reset ops t x) = t ++ suf /\ length suf = elements (c_shape x) /\
       map snd (c_data (snd (c_reset ops t x))) = seq (length t) (elements (c_shape x)) /\
       map fst (c_data (snd (c_reset ops t x))) = map fst (c_data x)).
Proof.
  split; [reflexivity|]. split; [|split; [|split; [|split]]].
  - intros t x h Hh. unfold rec_reset. rewrite Hh. cbn. eexists. reflexivity.
  - intros t f x h Hh. unfold rec_unary. rewrite Hh. cbn. eexists _, _. reflexivity.
  - intros t f x y t' z h. unfold rec_binary. destruct (negb _); [discriminate|].
    destruct (r_hist x), (r_hist y); cbn; intros E; inversion E; subst; cbn; intros Hh;
      try discriminate; eexists; split; reflexivity.
  - intros t h tensor sh data Hl. unfold c_variables. cbn [fst snd c_data].
    destruct (nullary_repeating_app (elements sh) t) as [suf [E L]]. exists suf. split; [exact E|]. split; [exact L|].
    unfold incrementing_indexes. apply combine_maps. rewrite seq_length. exact Hl.
  - intros t x h Hh Hl. unfold c_reset. rewrite Hh. cbn [fst snd c_data].
    destruct (nullary_repeating_app (elements (c_shape x)) t) as [suf [E L]]. exists suf. split; [exact E|]. split; [exact L|].
    unfold incrementing_indexes.
    split; apply combine_maps; rewrite map_length, seq_length; exact Hl.
Qed.

(* ------------------------------------------------------------------ registers and tapes *)
Lemma nth_set_nth {A} (d : A) : forall l k v j, nth j (set_nth d l k v) d = if Nat.eqb j k then v else nth j l d.
Proof.
  induction l as [|x l IH]; intros k v j.
  - revert j. induction k as [|k IHk]; intros [|j]; cbn; try reflexivity.
    + destruct j; reflexivity.
    + rewrite IHk. destruct (Nat.eqb j k); [reflexivity|]. destruct j; reflexivity.
  - destruct k, j; cbn; try reflexivity. apply IH.
Qed.

Lemma get_put (st : state) a o b : get (put st a o) b = if Nat.eqb b a then o else get st b.
Proof. unfold get, put. cbn. apply nth_set_nth. Qed.

Lemma get_set_tape (st : state) t tp b : get (set_tape st t tp) b = get st b.
Proof. reflexivity. Qed.

(* ------------------------------------------------------------------ clear + reset = a fresh start
   FULL STATEMENT aimed at (C15_cycle_equiv): for any script P and any history ending with
   "clear; reset all live inputs of P", running P gives the same values and derivatives as on a
   fresh tape, for any number of cycles.
   PROVED (cycle_is_fresh_start): from ANY machine state (any earlier history, any number of
   earlier cycles), "clear list t; reset the inputs (in any chosen order)" leads to EXACTLY the
   same machine state as "clear list t; create each input again as a new variable / new
   variables container with the same numbers" - so every script run afterwards returns
   identical results step by step (run_after_cycle).  (The frame property is proved in
   Proofs/C15Q.v, theorem cycle_equiv, on top of cycle_is_fresh_start.)  What this lemma alone
   leaves unproved is the frame
   property: that the registers and lists P does not touch cannot influence it (the right-hand
   machine still carries the old, unrelated registers and the other lists). *)
Definition recreate (t a : nat) (o : obj) : @tm_op R :=
  match o with
  | ORec r => TVar a t (r_num r)
  | OCont c => TCVar a t (c_tensor c) (c_shape c) (map fst (c_data c))
  | ODead => TConst a (nzero ops)
  end.

Definition input_ok (t : nat) (o : obj) : Prop :=
  obj_hist o = Some t /\
  match o with
  | OCont c => shape_valid (c_shape c) (length (c_data c)) = true /\
               (c_tensor c || Nat.eqb (length (c_shape c)) 2) = true
  | _ => True
  end.

Lemma reset_is_recreate (st : state) t a st1 v1 : input_ok t (get st a) ->
  step ops st (TReset a) = Some (st1, v1) ->
  exists v2, step ops st (recreate t a (get st a)) = Some (st1, v2).
Proof.
  intros [Hh Hw]. cbn [step]. destruct (get st a) as [r|c|] eqn:Eg; cbn [obj_hist] in Hh; try discriminate.
  - cbn [obj_hist recreate step]. rewrite Hh. unfold on_tape.
    destruct (tape_of st t) as [tp|]; [|discriminate].
    unfold obj_reset, rec_reset, rec_variable. rewrite Hh. cbn.
    intros E. inversion E; subst. eexists. reflexivity.
  - cbn [obj_hist recreate step]. rewrite Hh. destruct Hw as [W1 W2]. rewrite map_length, W1, W2. cbn [negb orb].
    unfold on_tape. destruct (tape_of st t) as [tp|]; [|discriminate].
    unfold obj_reset, c_reset, c_variables. rewrite Hh. cbn.
    intros E. inversion E; subst. eexists. reflexivity.
Qed.

Lemma reset_other (st : state) a st1 v1 b :
  step ops st (TReset a) = Some (st1, v1) -> b <> a -> get st1 b = get st b.
Proof.
  cbn [step]. unfold skipped. intros E Hne.
  assert (K : forall o, (match obj_hist o with
                         | None => Some (st, Ok (VIdx []))
                         | Some t => match tape_of st t with
                                     | None => None
                                     | Some tp => let '(tp', o', idx) := obj_reset ops tp o in
                                                  Some (put (set_tape st t tp') a o', Ok (VIdx idx))
                                     end
                         end) = Some (st1, v1) -> get st1 b = get st b).
  { intros o. destruct (obj_hist o) as [t|]; [|intros Q; inversion Q; reflexivity].
    destruct (tape_of st t) as [tp|]; [|discriminate].
    destruct (obj_reset ops tp o) as [[tp' o'] idx]. intros Q; inversion Q; subst.
    rewrite get_put, get_set_tape. destruct (Nat.eqb_spec b a); [contradiction|reflexivity]. }
  destruct (get st a) as [r|c|] eqn:Eg.
  - apply (K (ORec r)). exact E.
  - apply (K (OCont c)). exact E.
  - inversion E; reflexivity.
Qed.

Lemma run_resets_recreate t (st : state) : forall ins st0 stf vs,
  NoDup ins -> (forall a, In a ins -> get st0 a = get st a /\ input_ok t (get st a)) ->
  tm_run ops st0 (map TReset ins) = Some (stf, vs) ->
  exists vs', tm_run ops st0 (map (fun a => recreate t a (get st a)) ins) = Some (stf, vs').
Proof.
  induction ins as [|a r IH]; intros st0 stf vs Hnd Hin.
  - cbn. intros E. inversion E. eexists. reflexivity.
  - cbn [map tm_run]. destruct (step ops st0 (TReset a)) as [[st1 v1]|] eqn:E1; [|discriminate].
    destruct (Hin a (or_introl eq_refl)) as [Ga Oa].
    assert (Oa' : input_ok t (get st0 a)) by (rewrite Ga; exact Oa).
    destruct (reset_is_recreate st0 t a st1 v1 Oa' E1) as [v2 E2]. rewrite Ga in E2. rewrite E2.
    destruct (tm_run ops st1 (map TReset r)) as [[st2 vr]|] eqn:E3; [|discriminate].
    intros E. inversion E; subst stf vs; clear E.
    inversion Hnd as [|? ? Hna Hnd']; subst.
    assert (Hin' : forall b, In b r -> get st1 b = get st b /\ input_ok t (get st b)).
    { intros b Hb. destruct (Hin b (or_intror Hb)) as [Gb Ob]. split; [|exact Ob]. rewrite <- Gb.
      apply (reset_other st0 a st1 v1 b E1). intros ->. contradiction. }
    destruct (IH st1 st2 vr Hnd' Hin' E3) as [vs' E4]. rewrite E4. eexists. reflexivity.
Qed.

Theorem cycle_is_fresh_start (st : state) t ins stf vs :
  NoDup ins -> (forall a, In a ins -> input_ok t (get st a)) ->
  tm_run ops st (TClear t :: map TReset ins) = Some (stf, vs) ->
  exists vs', tm_run ops st (TClear t :: map (fun a => recreate t a (get st a)) ins) = Some (stf, vs').
Proof.
  intros Hnd Hin. cbn [tm_run]. destruct (step ops st (TClear t)) as [[st0 v0]|] eqn:E0; [|discriminate].
  destruct (tm_run ops st0 (map TReset ins)) as [[st1 vr]|] eqn:E1; [|discriminate].
  intros E. inversion E; subst stf vs; clear E.
  assert (Hin' : forall a, In a ins -> get st0 a = get st a /\ input_ok t (get st a)).
  { intros a Ha. split; [|apply Hin; exact Ha]. revert E0. cbn [step].
    destruct (tape_of st t); [|discriminate]. intros E; inversion E; subst. reflexivity. }
  destruct (run_resets_recreate t st ins st0 st1 vr Hnd Hin' E1) as [vs' E2]. rewrite E2.
  eexists. reflexivity.
Qed.

(* ... hence any script behaves identically afterwards (any number of cycles: st is arbitrary) *)
Corollary run_after_cycle (st : state) t ins stf vs P :
  NoDup ins -> (forall a, In a ins -> input_ok t (get st a)) ->
  tm_run ops st (TClear t :: map TReset ins) = Some (stf, vs) ->
  exists stf' vs', tm_run ops st (TClear t :: map (fun a => recreate t a (get st a)) ins) = Some (stf', vs') /\
                   tm_run ops stf' P = tm_run ops stf P.
Proof.
  intros Hnd Hin E. destruct (cycle_is_fresh_start st t ins stf vs Hnd Hin E) as [vs' E'].
  exists stf, vs'. split; [exact E'|reflexivity].
Qed.

End C15.
