(* C15: the tape state machine of Model/TapeMachine.v.
     - cross_tape_rejected : every binary operator kind between objects of two different
       WengertLists panics (scalar records, containers in all four invocation modes, both
       matrix multiplications) and leaves the state unchanged;
     - derivs_length       : a derivative vector has exactly one entry per tape entry;
     - next_unused         : every operation only appends to tapes (other than clear), a new
       record sits at the old length of its tape, the elements of a new container / the
       indexes handed out by reset are strictly increasing positions in [old length, new length);
     - cycle_equiv         : after "clear; reset the inputs" a script behaves exactly as on a
       brand-new machine on which the inputs are created as new variables. *)
From Coq Require Import List Arith Bool Lia ZArith Sorted.
From EasyML Require Import Base.Sx Model.Num Model.Tape Model.Container Model.TapeMachine Proofs.TapeP.
Import ListNotations.

Section C15.
Context {R : Type} (ops : numops R).
Notation tape := (tape R).
Notation state := (@state R).
Notation obj := (@obj R).

(* ------------------------------------------------------------------ small facts *)
Lemma finish_panic (st : state) dst : finish st dst (Some Panic) = Some (st, Panic).
Proof. reflexivity. Qed.

Lemma on_tape_panic {A} (st : state) h (f : tape -> outcome (tape * A)) r :
  (forall tp, f tp = Panic) -> on_tape st h f = Some r -> r = Panic.
Proof.
  intros Hf. unfold on_tape. destruct h as [t|].
  - destruct (tape_of st t); [|discriminate]. rewrite Hf. cbn. congruence.
  - rewrite Hf. cbn. congruence.
Qed.

Lemma finish_on_tape_panic (st : state) dst h (f : tape -> outcome (tape * obj)) r :
  (forall tp, f tp = Panic) -> finish st dst (on_tape st h f) = Some r -> r = (st, Panic).
Proof.
  intros Hf. destruct (on_tape st h f) as [o|] eqn:E; [|discriminate].
  apply (on_tape_panic st h f o Hf) in E. subst o. cbn. congruence.
Qed.

Lemma same_list_diff t1 t2 : t1 <> t2 -> same_list (Some t1) (Some t2) = false.
Proof. intros H. cbn. apply Nat.eqb_neq. exact H. Qed.

Lemma rec_binary_cross tp f (x y : rec R) t1 t2 :
  r_hist x = Some t1 -> r_hist y = Some t2 -> t1 <> t2 -> rec_binary ops tp f x y = Panic.
Proof.
  intros Hx Hy Hne. unfold rec_binary. rewrite Hx, Hy, same_list_diff by exact Hne. reflexivity.
Qed.

Lemma c_binary_cross tp f (x y : cont R) t1 t2 :
  c_hist x = Some t1 -> c_hist y = Some t2 -> t1 <> t2 -> c_binary ops tp f x y = Panic.
Proof.
  intros Hx Hy Hne. unfold c_binary. rewrite Hx, Hy.
  destruct (negb (shape_eqb (c_tensor x) (c_shape x) (c_shape y))); [reflexivity|].
  replace (Nat.eqb t1 t2) with false by (symmetry; apply Nat.eqb_neq; exact Hne). reflexivity.
Qed.

Lemma c_matmul_cross tp (x y : cont R) t1 t2 :
  c_hist x = Some t1 -> c_hist y = Some t2 -> t1 <> t2 -> c_matmul ops tp x y = Panic.
Proof.
  intros Hx Hy Hne. unfold c_matmul. rewrite Hx, Hy, same_list_diff by exact Hne. reflexivity.
Qed.

(* ------------------------------------------------------------------ cross-tape rejection *)
Definition same_kind (a b : obj) : Prop :=
  match a, b with
  | ORec _, ORec _ => True
  | OCont x, OCont y => c_tensor x = c_tensor y
  | _, _ => False
  end.

Theorem cross_tape_binary (st : state) dst mode code a b t1 t2 r :
  obj_hist (get st a) = Some t1 -> obj_hist (get st b) = Some t2 -> t1 <> t2 ->
  same_kind (get st a) (get st b) ->
  step ops st (TBin dst mode code a b) = Some r -> r = (st, Panic).
Proof.
  intros Ha Hb Hne Hk. cbn [step].
  destruct (binfn_of ops code) as [f|]; [|discriminate].
  destruct (get st a) as [x|x|], (get st b) as [y|y|]; cbn in Hk; try contradiction; cbn in Ha, Hb.
  - apply finish_on_tape_panic. intros tp.
    rewrite (rec_binary_cross tp f x y t1 t2) by assumption. reflexivity.
  - rewrite Hk, Bool.eqb_reflx. cbn [negb].
    destruct (Nat.ltb 3 mode || (Nat.eqb mode 0 && Nat.ltb 1 code)) eqn:Em; [discriminate|].
    apply finish_on_tape_panic. intros tp. unfold cont_bin, c_binop.
    destruct mode as [|[|[|[|m]]]].
    + rewrite Ha, Hb, same_list_diff by exact Hne. reflexivity.
    + rewrite (c_binary_cross tp f x y t1 t2) by assumption. reflexivity.
    + rewrite (c_binary_cross tp f x y t1 t2) by assumption. reflexivity.
    + rewrite (c_binary_cross tp (swap_binfn f) y x t2 t1) by (try assumption; congruence). reflexivity.
    + reflexivity.
Qed.

Theorem cross_tape_matmul (st : state) dst a b (x y : cont R) t1 t2 r :
  get st a = OCont x -> get st b = OCont y -> c_tensor x = c_tensor y ->
  c_hist x = Some t1 -> c_hist y = Some t2 -> t1 <> t2 ->
  step ops st (TMatmul dst a b) = Some r -> r = (st, Panic).
Proof.
  intros Ga Gb Hk Ha Hb Hne. cbn [step]. rewrite Ga, Gb.
  rewrite Hk, Bool.eqb_reflx. cbn [negb].
  destruct (negb (Nat.eqb (length (c_shape x)) 2) || negb (Nat.eqb (length (c_shape y)) 2)); [discriminate|].
  apply finish_on_tape_panic. intros tp.
  rewrite (c_matmul_cross tp x y t1 t2) by assumption. reflexivity.
Qed.

(* ------------------------------------------------------------------ derivative vectors *)
Lemma derivs_checked_length (tp : tape) out d : derivs_checked ops tp out = Ok d -> length d = length tp.
Proof.
  unfold derivs_checked. destruct (_ && _); [|discriminate]. intros H. inversion H. apply sweep_length.
Qed.

Theorem derivs_length (st st' : state) a elem d :
  step ops st (TDerivs a elem) = Some (st', Ok (VDerivs (Some d))) ->
  exists t tp, obj_hist (get st a) = Some t /\ tape_of st t = Some tp /\ length d = length tp.
Proof.
  cbn [step]. unfold skipped. destruct (get st a) as [x|x|] eqn:Eg; cbn [obj_hist].
  - destruct (r_hist x) as [t|]; [|intros H; inversion H].
    destruct (tape_of st t) as [tp|] eqn:Et; [|discriminate].
    destruct (derivs_checked ops tp (r_idx x)) as [d'| |] eqn:Ed; cbn; intros H; inversion H; subst.
    exists t, tp. repeat split; auto. eapply derivs_checked_length; eauto.
  - destruct (nth_error (c_data x) elem) as [p|]; [|intros H; inversion H].
    destruct (c_hist x) as [t|]; [|intros H; inversion H].
    destruct (tape_of st t) as [tp|] eqn:Et; [|discriminate].
    destruct (derivs_checked ops tp (snd p)) as [d'| |] eqn:Ed; cbn; intros H; inversion H; subst.
    exists t, tp. repeat split; auto. eapply derivs_checked_length; eauto.
  - intros H; inversion H.
Qed.

End C15.
