(* C12: matrix views.  The MatrixRef contract (present <-> inside the reported size, never a
   panic, resolved cell inside the root's storage) for every stack of views by induction over
   the view term; the explicit index mappings of ranges and reversals; writes through a view. *)
From Coq Require Import List ZArith NArith Bool Arith Lia.
From EasyML Require Import Base.Sx Model.Shape Model.MatrixViews.
From EasyML Require Model.Views.
Import ListNotations.
Local Open Scope N_scope.

(* ---------- well-formed views over a root with `len` stored cells ---------- *)
(* what Matrix::partition hands out: either the 0 x 0 normal form, or one slice per row, all of
   the reported width and inside the root's storage *)
Definition part_ok (len : N) (p : part) : Prop :=
  (p_rows p = 0 /\ p_cols p = 0) \/
  (p_rows p = N.of_nat (length (p_slices p)) /\
   Forall (fun s => snd s = p_cols p /\ fst s + snd s <= len) (p_slices p)).

(* a stored range is one that `clip` produced *)
Definition range_ok (r : index_range) (max : N) : Prop :=
  ir_length r = 0 \/ ir_start r + ir_length r <= max.

(* a tensor view under MatrixRefTensor honours the TensorRef contract and resolves inside the flat
   root made of its leaves' stores (established for every constructed view in Proofs/C12Tensor.v
   from the C02 development) *)
Definition tensor_ok (len : N) (c : Views.cview) : Prop :=
  forall row column,
    if (row <? Views.len_at (Views.c_shape c) 0) && (column <? Views.len_at (Views.c_shape c) 1)
    then exists p, try_get (VOverTensor c) row column = Cell p /\ p < len
    else try_get (VOverTensor c) row column = Absent.

Inductive wf (len : N) : mview -> Prop :=
| wf_matrix rows cols : rows * cols = len -> wf len (VMatrix rows cols)
| wf_part p : part_ok len p -> wf len (VPart p)
| wf_range rows cols src : wf len src -> range_ok rows (view_rows src) -> range_ok cols (view_cols src) ->
    wf len (VRange rows cols src)
| wf_reverse rr rc src : wf len src -> wf len (VReverse rr rc src)
| wf_map src : wf len src -> wf len (VMap src)
| wf_via_tensor n0 n1 src : wf len src -> wf len (VViaTensor n0 n1 src)
| wf_over_tensor c : tensor_ok len c -> wf len (VOverTensor c).

Definition inside (v : mview) (row column : N) : bool :=
  (row <? view_rows v) && (column <? view_cols v).

(* ---------- the MatrixRef contract, for every stack of views ---------- *)
Theorem view_contract len v : wf len v -> forall row column,
  if inside v row column
  then exists p, try_get v row column = Cell p /\ p < len
  else try_get v row column = Absent.
Proof.
  induction 1 as [rows cols Hlen|p Hp|rows cols src Hsrc IH Hr Hc|rr rc src Hsrc IH|src Hsrc IH|n0 n1 src Hsrc IH|c Hc];
    intros row column; [| | | | | |exact (Hc row column)]; unfold inside; cbn [view_rows view_cols try_get].
  - destruct (row <? rows) eqn:Er; cbn [andb]; [|reflexivity].
    destruct (column <? cols) eqn:Ec; [|reflexivity].
    apply N.ltb_lt in Er, Ec. eexists; split; [reflexivity|]. nia.
  - destruct Hp as [[Hr0 Hc0]|[Hrows Hall]].
    + rewrite Hr0, Hc0. destruct (row <? 0) eqn:E; [apply N.ltb_lt in E; lia|]. cbn [andb].
      now replace (0 <=? row) with true by (symmetry; apply N.leb_le; lia).
    + destruct (row <? p_rows p) eqn:Er; cbn [andb].
      * destruct (column <? p_cols p) eqn:Ec.
        -- apply N.ltb_lt in Er, Ec.
           replace (p_rows p <=? row) with false by (symmetry; apply N.leb_gt; lia).
           replace (p_cols p <=? column) with false by (symmetry; apply N.leb_gt; lia).
           cbn [orb]. destruct (nth_error (p_slices p) (N.to_nat row)) as [[off l]|] eqn:En.
           ++ rewrite Forall_forall in Hall. destruct (Hall _ (nth_error_In _ _ En)) as [Hl Hin].
              cbn [fst snd] in Hl, Hin. subst l.
              replace (column <? p_cols p) with true by (symmetry; apply N.ltb_lt; lia).
              eexists; split; [reflexivity|lia].
           ++ apply nth_error_None in En. lia.
        -- apply N.ltb_ge in Ec.
           replace (p_cols p <=? column) with true by (symmetry; apply N.leb_le; lia).
           now rewrite orb_true_r.
      * apply N.ltb_ge in Er. now replace (p_rows p <=? row) with true by (symmetry; apply N.leb_le; lia).
  - unfold ir_map.
    destruct (row <? ir_length rows) eqn:Er; cbn [andb]; [|reflexivity].
    destruct (column <? ir_length cols) eqn:Ec; [|reflexivity].
    apply N.ltb_lt in Er, Ec.
    specialize (IH (row + ir_start rows) (column + ir_start cols)). unfold inside in IH.
    destruct Hr as [Hr|Hr]; [lia|]. destruct Hc as [Hc|Hc]; [lia|].
    replace (row + ir_start rows <? view_rows src) with true in IH by (symmetry; apply N.ltb_lt; lia).
    replace (column + ir_start cols <? view_cols src) with true in IH by (symmetry; apply N.ltb_lt; lia).
    exact IH.
  - destruct (view_rows src =? 0) eqn:R0; cbn [orb].
    { apply N.eqb_eq in R0. rewrite R0. now destruct (row <? 0) eqn:E; [apply N.ltb_lt in E; lia|]. }
    destruct (view_cols src =? 0) eqn:C0.
    { apply N.eqb_eq in C0. rewrite C0. destruct (column <? 0) eqn:E; [apply N.ltb_lt in E; lia|].
      now rewrite andb_false_r. }
    apply N.eqb_neq in R0, C0.
    specialize (IH (reverse_index rr (view_rows src) row) (reverse_index rc (view_cols src) column)).
    unfold inside in IH.
    assert (Hrow : (reverse_index rr (view_rows src) row <? view_rows src) = (row <? view_rows src)).
    { unfold reverse_index. destruct rr; [|reflexivity].
      destruct (view_rows src - 1 <? row) eqn:E.
      - reflexivity.
      - apply N.ltb_ge in E. transitivity true; [apply N.ltb_lt; lia|symmetry; apply N.ltb_lt; lia]. }
    assert (Hcol : (reverse_index rc (view_cols src) column <? view_cols src) = (column <? view_cols src)).
    { unfold reverse_index. destruct rc; [|reflexivity].
      destruct (view_cols src - 1 <? column) eqn:E.
      - reflexivity.
      - apply N.ltb_ge in E. transitivity true; [apply N.ltb_lt; lia|symmetry; apply N.ltb_lt; lia]. }
    rewrite Hrow, Hcol in IH. exact IH.
  - apply IH.
  - apply IH.
Qed.

Corollary view_never_panics len v : wf len v -> forall row column, try_get v row column <> AccessPanic.
Proof.
  intros H row column. pose proof (view_contract len v H row column) as C.
  destruct (inside v row column); [destruct C as [p [E _]]|]; rewrite ?E, ?C; discriminate.
Qed.

Corollary view_present_iff len v : wf len v -> forall row column,
  (exists p, try_get v row column = Cell p) <-> (row < view_rows v /\ column < view_cols v).
Proof.
  intros H row column. pose proof (view_contract len v H row column) as C. unfold inside in C.
  destruct (row <? view_rows v) eqn:Er; destruct (column <? view_cols v) eqn:Ec; cbn [andb] in C;
    rewrite ?N.ltb_lt, ?N.ltb_ge in *.
  - destruct C as [p [E _]]. split; [intros _; lia|intros _; now exists p].
  - rewrite C. split; [intros [p E]; discriminate|lia].
  - rewrite C. split; [intros [p E]; discriminate|lia].
  - rewrite C. split; [intros [p E]; discriminate|lia].
Qed.

(* ---------- construction keeps views well formed ---------- *)
Lemma clip_ok r max : range_ok (ir_clip r max) max.
Proof.
  unfold range_ok, ir_clip, sat_add, sat_sub. cbn [ir_start ir_length]. lia.
Qed.

(* size = the request clipped to the source *)
Lemma clip_length r max : max <= usize_max ->
  ir_length (ir_clip r max) = N.min (ir_length r) (max - ir_start r).
Proof. unfold ir_clip, sat_add, sat_sub. cbn [ir_length ir_start]. lia. Qed.

Lemma range_from_wf len src rows cols : wf len src -> wf len (range_from src rows cols).
Proof. intros H. unfold range_from. constructor; [exact H|apply clip_ok|apply clip_ok]. Qed.

Lemma via_tensor_wf len src n0 n1 v : wf len src -> via_tensor src n0 n1 = Ok v -> wf len v.
Proof.
  intros H. unfold via_tensor. destruct (valid_shape_b _); [|discriminate]. intros [= <-]. now constructor.
Qed.

(* ---------- ranges: size and cell mapping ---------- *)
Theorem range_spec len src r0 rl c0 cl : wf len src ->
  view_rows src <= usize_max -> view_cols src <= usize_max ->
  let v := range_from src (mkIR r0 rl) (mkIR c0 cl) in
  view_rows v = N.min rl (view_rows src - r0) /\
  view_cols v = N.min cl (view_cols src - c0) /\
  forall row column,
    try_get v row column =
    if inside v row column then try_get src (row + r0) (column + c0) else Absent.
Proof.
  intros Hwf HR HC v. unfold v, range_from. cbn [view_rows view_cols].
  rewrite !clip_length by assumption. cbn [ir_length ir_start].
  split; [reflexivity|split; [reflexivity|]]. intros row column.
  unfold inside. cbn [try_get view_rows view_cols]. unfold ir_map.
  rewrite !clip_length by assumption. cbn [ir_length ir_start ir_clip].
  destruct (row <? N.min rl (view_rows src - r0)); cbn [andb]; [|reflexivity].
  destruct (column <? N.min cl (view_cols src - c0)); reflexivity.
Qed.

(* std::ops::Range requests: a..b is (a, b - a), an inverted range is empty *)
Lemma std_range_spec a b : ir_of_range a b = mkIR a (b - a).
Proof. reflexivity. Qed.

(* ---------- reversal: mirror image, absent outside, also over 0-sized sources ---------- *)
Definition mirror (reversed : bool) (length index : N) : N :=
  if reversed then length - 1 - index else index.

Theorem reverse_spec len src rr rc : wf len src -> forall row column,
  try_get (VReverse rr rc src) row column =
  if inside src row column
  then try_get src (mirror rr (view_rows src) row) (mirror rc (view_cols src) column)
  else Absent.
Proof.
  intros Hwf row column. cbn [try_get]. unfold inside.
  destruct (view_rows src =? 0) eqn:R0; cbn [orb].
  { apply N.eqb_eq in R0. rewrite R0. now destruct (row <? 0) eqn:E; [apply N.ltb_lt in E; lia|]. }
  destruct (view_cols src =? 0) eqn:C0.
  { apply N.eqb_eq in C0. rewrite C0. destruct (column <? 0) eqn:E; [apply N.ltb_lt in E; lia|].
    now rewrite andb_false_r. }
  apply N.eqb_neq in R0, C0.
  destruct (row <? view_rows src) eqn:Er; cbn [andb].
  - destruct (column <? view_cols src) eqn:Ec.
    + apply N.ltb_lt in Er, Ec. unfold reverse_index, mirror.
      replace (view_rows src - 1 <? row) with false by (symmetry; apply N.ltb_ge; lia).
      replace (view_cols src - 1 <? column) with false by (symmetry; apply N.ltb_ge; lia).
      reflexivity.
    + apply N.ltb_ge in Ec.
      pose proof (view_contract len src Hwf (reverse_index rr (view_rows src) row)
                                (reverse_index rc (view_cols src) column)) as C.
      unfold inside in C.
      replace (reverse_index rc (view_cols src) column <? view_cols src) with false in C.
      * now rewrite andb_false_r in C.
      * symmetry. apply N.ltb_ge. unfold reverse_index. destruct rc; [|lia].
        replace (view_cols src - 1 <? column) with true by (symmetry; apply N.ltb_lt; lia). lia.
  - apply N.ltb_ge in Er.
    pose proof (view_contract len src Hwf (reverse_index rr (view_rows src) row)
                              (reverse_index rc (view_cols src) column)) as C.
    unfold inside in C.
    replace (reverse_index rr (view_rows src) row <? view_rows src) with false in C.
    + exact C.
    + symmetry. apply N.ltb_ge. unfold reverse_index. destruct rr; [|lia].
      replace (view_rows src - 1 <? row) with true by (symmetry; apply N.ltb_lt; lia). lia.
Qed.

(* ---------- the tensor wrappers ---------- *)
Theorem via_tensor_spec src n0 n1 :
  (n0 <> n1 /\ view_rows src <> 0 /\ view_cols src <> 0 ->
     via_tensor src n0 n1 = Ok (VViaTensor n0 n1 src)) /\
  (~ (n0 <> n1 /\ view_rows src <> 0 /\ view_cols src <> 0) ->
     via_tensor src n0 n1 = Err (sshape [(n0, view_rows src); (n1, view_cols src)])) /\
  (forall row column, try_get (VViaTensor n0 n1 src) row column = try_get src row column) /\
  view_rows (VViaTensor n0 n1 src) = view_rows src /\
  view_cols (VViaTensor n0 n1 src) = view_cols src.
Proof.
  assert (E : valid_shape_b [(n0, view_rows src); (n1, view_cols src)] = true <->
              (n0 <> n1 /\ view_rows src <> 0 /\ view_cols src <> 0)).
  { unfold valid_shape_b, has_zero, names_of. cbn [map fst snd has_duplicates existsb].
    rewrite !orb_false_r, andb_true_iff, !negb_true_iff, orb_false_iff.
    rewrite Nat.eqb_neq, !N.eqb_neq. split; [intros [H1 [H2 H3]]|intros [H1 [H2 H3]]]; repeat split; auto. }
  unfold via_tensor. repeat split; auto.
  - intros H. apply E in H. now rewrite H.
  - intros H. destruct (valid_shape_b _); [exfalso; apply H, E; reflexivity|reflexivity].
Qed.

(* ---------- writes through a view ---------- *)
Section Writes.
Context {T : Type}.

Lemma nth_error_replace_nth (l : list T) : forall k x q,
  nth_error (replace_nth l k x) q =
  if Nat.eqb q k then (if Nat.ltb k (length l) then Some x else None) else nth_error l q.
Proof.
  induction l as [|y l IH]; intros k x q.
  - cbn [replace_nth length]. destruct (Nat.eqb q k); [|reflexivity].
    destruct q; reflexivity.
  - destruct k as [|k], q as [|q]; cbn [replace_nth nth_error Nat.eqb length]; try reflexivity.
    rewrite IH. destruct (Nat.eqb q k); [|reflexivity].
    change (Nat.ltb (S k) (S (length l))) with (Nat.ltb k (length l)). reflexivity.
Qed.

Lemma length_replace_nth (l : list T) : forall k x, length (replace_nth l k x) = length l.
Proof. induction l as [|y l IH]; intros [|k] x; cbn; auto. Qed.

(* a write through any well formed view over the root storage `data`: succeeds exactly on the
   present cells, replaces exactly the resolved cell and nothing else; an absent index panics
   and leaves the root untouched *)
Theorem write_spec (data : list T) v row column x : wf (N.of_nat (length data)) v ->
  if inside v row column
  then exists p, try_get v row column = Cell p /\ p < N.of_nat (length data) /\
         write data v row column x = (replace_nth data (N.to_nat p) x, true) /\
         read (fst (write data v row column x)) (try_get v row column) = Ok (Some x) /\
         forall q, q <> N.to_nat p ->
           nth_error (fst (write data v row column x)) q = nth_error data q
  else write data v row column x = (data, false).
Proof.
  intros Hwf. pose proof (view_contract _ v Hwf row column) as C.
  destruct (inside v row column).
  - destruct C as [p [E Hp]]. exists p. unfold write. rewrite E.
    replace (p <? N.of_nat (length data)) with true by (symmetry; apply N.ltb_lt; lia).
    cbn [fst]. repeat split; auto.
    + unfold read. rewrite nth_error_replace_nth, Nat.eqb_refl.
      replace (Nat.ltb (N.to_nat p) (length data)) with true by (symmetry; apply Nat.ltb_lt; lia).
      reflexivity.
    + intros q Hq. rewrite nth_error_replace_nth.
      now replace (Nat.eqb q (N.to_nat p)) with false by (symmetry; apply Nat.eqb_neq; lia).
  - unfold write. now rewrite C.
Qed.

End Writes.
