(* C16, API level: the fallible constructors of TensorRange / TensorMask (lenient and strict,
   Model/FallibleApi.v) are total — no input makes them panic, in either build profile — and
   are characterised completely: which Err, with which payload, and otherwise the clipped
   ranges and the view shape.  Also from_named_to_all, with_names, try_into_scalar. *)
From Coq Require Import List ZArith NArith Bool Arith Lia.
From EasyML Require Import Base.Sx Model.Shape Model.U64 Model.Fallible Model.FallibleApi
     Proofs.ShapeP Proofs.C16P Proofs.C16ApiP.
Import ListNotations.
Open Scope N_scope.

(* ---------- specification ---------- *)

(* the range a caller supplied for dimension name n (the first one, names are unique) *)
Definition lookup (n : nat) (rs : list (nat * index_range)) : option index_range :=
  option_map snd (find (fun p => Nat.eqb (fst p) n) rs).

Definition names_ok (sh : shape) (rs : list (nat * index_range)) : Prop :=
  NoDup (map fst rs) /\ incl (map fst rs) (names_of sh).

Definition all_of (sh : shape) (rs : list (nat * index_range)) : list (option index_range) :=
  map (fun d => lookup (fst d) rs) sh.

(* ---------- omapM ---------- *)

Lemma omapM_ok {A B} (g : A -> B) (f : A -> outcome B) l :
  (forall x, In x l -> f x = Ok (g x)) -> omapM f l = Ok (map g l).
Proof.
  induction l as [|x l IH]; intros H; [reflexivity|].
  cbn [omapM map]. rewrite (H x (or_introl eq_refl)). cbn [obind].
  rewrite IH by (intros y Hy; apply H; right; exact Hy). reflexivity.
Qed.

(* ---------- from_named_to_all ---------- *)

Lemma set_nth_length {A} (l : list A) n v : length (set_nth l n v) = length l.
Proof. revert n; induction l as [|x l IH]; intros [|n]; cbn [set_nth length]; auto. Qed.

Lemma nth_set_nth {A} (l : list A) n v d k : (n < length l)%nat ->
  nth k (set_nth l n v) d = if Nat.eqb k n then v else nth k l d.
Proof.
  revert n k; induction l as [|x l IH]; intros [|n] [|k] H; cbn [length] in H; try lia;
    cbn [set_nth nth Nat.eqb]; try reflexivity.
  apply IH. lia.
Qed.

Lemma lookup_cons n n' r rs :
  lookup n ((n', r) :: rs) = if Nat.eqb n' n then Some r else lookup n rs.
Proof. unfold lookup. cbn [find fst]. destruct (Nat.eqb n' n); reflexivity. Qed.

Lemma lookup_None n rs : ~ In n (map fst rs) -> lookup n rs = None.
Proof.
  induction rs as [|[n' r] rs IH]; intros H; [reflexivity|].
  rewrite lookup_cons. cbn [map fst In] in H.
  destruct (Nat.eqb_spec n' n); [exfalso; apply H; left; assumption|]. apply IH. tauto.
Qed.

Lemma lookup_Some_in n rs r : lookup n rs = Some r -> In (n, r) rs.
Proof.
  induction rs as [|[n' r'] rs IH]; [discriminate|]. rewrite lookup_cons.
  destruct (Nat.eqb_spec n' n) as [->|_]; [intros [= ->]; left; reflexivity|].
  intros H. right. apply IH. exact H.
Qed.

Lemma assign_ranges_err sh all_rs : forall rs acc e,
  assign_ranges sh rs all_rs acc = Err e -> e = invalid_dimensions sh all_rs.
Proof.
  induction rs as [|[n r] rs IH]; intros acc e; cbn [assign_ranges]; [discriminate|].
  destruct (position_of sh n); [apply IH|]. intros [= <-]. reflexivity.
Qed.

Lemma assign_ranges_not_panic sh all_rs : forall rs acc, assign_ranges sh rs all_rs acc <> Panic.
Proof.
  induction rs as [|[n r] rs IH]; intros acc; cbn [assign_ranges]; [discriminate|].
  destruct (position_of sh n); [apply IH|discriminate].
Qed.

Lemma assign_ranges_ok_iff sh all_rs : forall rs acc,
  (exists res, assign_ranges sh rs all_rs acc = Ok res) <-> incl (map fst rs) (names_of sh).
Proof.
  induction rs as [|[n r] rs IH]; intros acc; cbn [assign_ranges map fst].
  - split; [intros _ x []|eauto].
  - unfold position_of. destruct (index_of n (names_of sh)) as [p|] eqn:E.
    + rewrite IH. split.
      * intros H x [<-|Hx]; [|apply H; exact Hx].
        apply index_of_Some in E. destruct E as [Hp <-]. apply nth_In. exact Hp.
      * intros H x Hx. apply H. right. exact Hx.
    + split; [intros [res H]; discriminate|]. intros H. exfalso.
      apply index_of_None in E. apply E. apply H. left. reflexivity.
Qed.

Lemma assign_ranges_spec sh all_rs : NoDup (names_of sh) -> forall rs acc res,
  NoDup (map fst rs) -> length acc = length sh ->
  assign_ranges sh rs all_rs acc = Ok res ->
  length res = length sh /\
  forall d, (d < length sh)%nat ->
    nth d res None = match lookup (nth d (names_of sh) 0%nat) rs with
                     | Some r => Some r
                     | None => nth d acc None
                     end.
Proof.
  intros Hnd. induction rs as [|[n r] rs IH]; intros acc res Hrs Hlen; cbn [assign_ranges].
  - intros [= <-]. split; [exact Hlen|]. intros d _. reflexivity.
  - unfold position_of. destruct (index_of n (names_of sh)) as [p|] eqn:E; [|discriminate].
    intros H. cbn [map fst] in Hrs. inversion Hrs as [|? ? Hn Hrs']; subst.
    apply index_of_Some in E. destruct E as [Hp Hpn].
    assert (Hls : length (names_of sh) = length sh) by (unfold names_of; apply map_length).
    destruct (IH (set_nth acc p (Some r)) res Hrs'
                 ltac:(rewrite set_nth_length; exact Hlen) H) as [Hl Hnth].
    split; [exact Hl|]. intros d Hd. rewrite (Hnth d Hd), lookup_cons.
    destruct (Nat.eqb_spec n (nth d (names_of sh) 0%nat)) as [En|En].
    + assert (d = p).
      { apply (proj1 (NoDup_nth (names_of sh) 0%nat) Hnd); try lia; congruence. }
      subst d. rewrite lookup_None by (rewrite <- En; exact Hn).
      rewrite nth_set_nth by lia. rewrite Nat.eqb_refl. reflexivity.
    + destruct (lookup _ rs); [reflexivity|].
      rewrite nth_set_nth by lia. destruct (Nat.eqb_spec d p) as [->|_]; [congruence|reflexivity].
Qed.

Theorem from_named_to_all_total sh rs : from_named_to_all sh rs <> Panic.
Proof.
  unfold from_named_to_all. destruct (has_duplicates _); [discriminate|].
  apply assign_ranges_not_panic.
Qed.

Theorem from_named_to_all_err sh rs e :
  from_named_to_all sh rs = Err e -> e = invalid_dimensions sh rs.
Proof.
  unfold from_named_to_all. destruct (has_duplicates _); [intros [= <-]; reflexivity|].
  apply assign_ranges_err.
Qed.

Theorem from_named_to_all_ok_iff sh rs :
  (exists all, from_named_to_all sh rs = Ok all) <-> names_ok sh rs.
Proof.
  unfold from_named_to_all, names_ok.
  destruct (has_duplicates (map fst rs)) eqn:D.
  - split; [intros [all H]; discriminate|]. intros [H _]. apply has_duplicates_false in H. congruence.
  - apply has_duplicates_false in D. rewrite assign_ranges_ok_iff. tauto.
Qed.

Lemma nth_repeat_None {A} n d : nth d (repeat (@None A) n) None = None.
Proof. revert d; induction n as [|n IH]; intros [|d]; cbn; auto. Qed.

Theorem from_named_to_all_spec sh rs : NoDup (names_of sh) -> names_ok sh rs ->
  from_named_to_all sh rs = Ok (all_of sh rs).
Proof.
  intros Hnd Hok. destruct (proj2 (from_named_to_all_ok_iff sh rs) Hok) as [all H].
  rewrite H. f_equal. destruct Hok as [Hrs _].
  unfold from_named_to_all in H. destruct (has_duplicates _); [discriminate|].
  destruct (assign_ranges_spec sh rs Hnd rs _ all Hrs (repeat_length _ _) H) as [Hl Hnth].
  unfold all_of. apply nth_ext with (d := None) (d' := None); [rewrite map_length; exact Hl|].
  intros d Hd. rewrite Hl in Hd. rewrite (Hnth d Hd), nth_repeat_None.
  rewrite nth_indep with (d' := lookup (fst (0%nat, 0)) rs) by (rewrite map_length; exact Hd).
  rewrite (map_nth (fun d => lookup (fst d) rs) sh (0%nat, 0) d).
  unfold names_of. change 0%nat with (fst (0%nat, 0)) at 1. rewrite map_nth.
  destruct (lookup _ rs); reflexivity.
Qed.

(* ---------- IndexRange arithmetic needs only the SOURCE length to be a usize ---------- *)

Definition clip_spec (r : index_range) (len : N) : index_range :=
  mkRange (r_start r) (clipped_length r len).

Lemma ir_clip_spec r len : len <= usize_max -> ir_clip r len = Ok (clip_spec r len).
Proof.
  intros H. unfold ir_clip, clip_spec, clipped_length, sat_add, sat_sub. do 2 f_equal. lia.
Qed.

Lemma ir_exceeds_spec r len : len <= usize_max ->
  ir_exceeds r len = Ok (len <? r_start r + r_length r).
Proof.
  intros H. unfold ir_exceeds, checked_add.
  destruct (N.leb_spec (r_start r + r_length r) usize_max); [reflexivity|].
  destruct (N.ltb_spec len (r_start r + r_length r)); [reflexivity|lia].
Qed.

Lemma clipped_le r len : clipped_length r len <= len.
Proof. unfold clipped_length. lia. Qed.

Lemma clip_inside r len : r_start (clip_spec r len) + r_length (clip_spec r len) <= len \/
                          r_length (clip_spec r len) = 0.
Proof. unfold clip_spec, clipped_length. cbn [r_start r_length]. lia. Qed.

Lemma combine_map_r {A B} (f : A -> B) l : combine l (map f l) = map (fun x => (x, f x)) l.
Proof. induction l as [|x l IH]; cbn [map combine]; [reflexivity|]. rewrite IH. reflexivity. Qed.

Lemma negb_has_zero (sh : shape) : negb (has_zero sh) = forallb (fun d => 0 <? snd d) sh.
Proof.
  unfold has_zero. induction sh as [|d sh IH]; [reflexivity|]. cbn [existsb forallb].
  rewrite negb_orb, IH. f_equal. destruct (N.eqb_spec (snd d) 0) as [->|H]; [reflexivity|].
  symmetry. apply N.ltb_lt. lia.
Qed.

(* ---------- strict bounds test ---------- *)

Definition strict_outside (sh : shape) (rs : list (nat * index_range)) : bool :=
  existsb (fun d => match lookup (fst d) rs with
                    | Some r => snd d <? r_start r + r_length r
                    | None => false
                    end) sh.

Lemma exceeds_bounds_spec rs : forall sh : shape, Forall (fun d => snd d <= usize_max) sh ->
  exceeds_bounds (lens_of sh) (all_of sh rs) = Ok (strict_outside sh rs).
Proof.
  induction sh as [|d sh IH]; intros Hb; [reflexivity|].
  inversion Hb as [|? ? Hd Hb']; subst.
  unfold strict_outside. cbn [lens_of all_of map exceeds_bounds existsb].
  change (map snd sh) with (lens_of sh). change (map (fun d0 => lookup (fst d0) rs) sh) with (all_of sh rs).
  destruct (lookup (fst d) rs) as [r|].
  - rewrite ir_exceeds_spec by exact Hd. cbn [obind].
    destruct (snd d <? r_start r + r_length r); [reflexivity|]. cbn [orb]. apply IH. exact Hb'.
  - cbn [orb]. apply IH. exact Hb'.
Qed.

(* ---------- TensorRange::from / from_strict ---------- *)

Definition range_req (rs : list (nat * index_range)) (d : nat * N) : index_range :=
  match lookup (fst d) rs with Some r => r | None => mkRange 0 (snd d) end.
Definition range_clipped (sh : shape) rs : list index_range :=
  map (fun d => clip_spec (range_req rs d) (snd d)) sh.
Definition range_shape (sh : shape) rs : shape :=
  map (fun d => (fst d, clipped_length (range_req rs d) (snd d))) sh.

Lemma names_of_map_fst (sh : shape) (f : nat * N -> N) :
  names_of (map (fun d => (fst d, f d)) sh) = names_of sh.
Proof. unfold names_of. rewrite map_map. reflexivity. Qed.

Lemma range_shape_of_clipped (sh : shape) rs :
  map (fun p : nat * N * index_range => (fst (fst p), r_length (snd p)))
      (combine sh (range_clipped sh rs)) = range_shape sh rs.
Proof.
  unfold range_clipped, range_shape. rewrite combine_map_r, map_map. reflexivity.
Qed.

Theorem tensor_range_spec strict sh rs :
  NoDup (names_of sh) -> Forall (fun d => snd d <= usize_max) sh -> names_ok sh rs ->
  tensor_range strict sh rs =
    if strict && strict_outside sh rs then Err (outside_shape sh (all_of sh rs))
    else if forallb (fun d => 0 <? snd d) (range_shape sh rs)
         then Ok (range_shape sh rs, range_clipped sh rs)
         else Err (SL [SZ 1; sshape (range_shape sh rs)]).
Proof.
  intros Hnd Hb Hok. unfold tensor_range.
  rewrite (from_named_to_all_spec sh rs Hnd Hok). cbn [obind].
  assert (Hex : (if strict then exceeds_bounds (lens_of sh) (all_of sh rs) else Ok false) =
                Ok (strict && strict_outside sh rs)).
  { destruct strict; [apply exceeds_bounds_spec; exact Hb|reflexivity]. }
  rewrite Hex. cbn [obind].
  destruct (strict && strict_outside sh rs); [reflexivity|].
  unfold all_of. rewrite combine_map_r, map_map. cbn [fst snd].
  change (map (fun x : nat * N => match lookup (fst x) rs with
                                  | Some r => r | None => mkRange 0 (snd x) end) sh)
    with (map (range_req rs) sh).
  rewrite combine_map_r.
  rewrite (omapM_ok (fun p : (nat * N) * index_range => clip_spec (snd p) (snd (fst p)))).
  2:{ intros p Hp. apply in_map_iff in Hp. destruct Hp as [d [<- Hd]]. cbn [fst snd].
      apply ir_clip_spec. rewrite Forall_forall in Hb. apply Hb. exact Hd. }
  cbn [obind]. rewrite map_map. cbn [fst snd]. fold (range_clipped sh rs).
  cbv zeta. rewrite !range_shape_of_clipped.
  unfold valid_shape_b. unfold range_shape at 1. rewrite names_of_map_fst.
  replace (has_duplicates (names_of sh)) with false
    by (symmetry; apply has_duplicates_false; exact Hnd).
  cbn [negb andb]. rewrite negb_has_zero. reflexivity.
Qed.

(* ---------- TensorMask::from / from_strict ---------- *)

Definition mask_req (rs : list (nat * index_range)) (d : nat * N) : index_range :=
  match lookup (fst d) rs with Some r => r | None => mkRange 0 0 end.
Definition mask_clipped (sh : shape) rs : list index_range :=
  map (fun d => clip_spec (mask_req rs d) (snd d)) sh.
Definition mask_shape (sh : shape) rs : shape :=
  map (fun d => (fst d, snd d - clipped_length (mask_req rs d) (snd d))) sh.

Lemma mask_shape_of_clipped (sh : shape) rs :
  map (fun p : nat * N * index_range => (fst (fst p), snd (fst p) - r_length (snd p)))
      (combine sh (mask_clipped sh rs)) = mask_shape sh rs.
Proof.
  unfold mask_clipped, mask_shape. rewrite combine_map_r, map_map. reflexivity.
Qed.

Theorem tensor_mask_spec m strict sh rs :
  NoDup (names_of sh) -> Forall (fun d => snd d <= usize_max) sh -> names_ok sh rs ->
  tensor_mask m strict sh rs =
    if strict && strict_outside sh rs then Err (outside_shape sh (all_of sh rs))
    else if forallb (fun d => 0 <? snd d) (mask_shape sh rs)
         then Ok (mask_shape sh rs, mask_clipped sh rs)
         else Err (SL [SZ 1; sshape (mask_shape sh rs)]).
Proof.
  intros Hnd Hb Hok. unfold tensor_mask.
  rewrite (from_named_to_all_spec sh rs Hnd Hok). cbn [obind].
  assert (Hex : (if strict then exceeds_bounds (lens_of sh) (all_of sh rs) else Ok false) =
                Ok (strict && strict_outside sh rs)).
  { destruct strict; [apply exceeds_bounds_spec; exact Hb|reflexivity]. }
  rewrite Hex. cbn [obind].
  destruct (strict && strict_outside sh rs); [reflexivity|].
  unfold all_of. rewrite map_map.
  change (map (fun x : nat * N => match lookup (fst x) rs with
                                  | Some r => r | None => mkRange 0 0 end) sh)
    with (map (mask_req rs) sh).
  rewrite combine_map_r.
  rewrite (omapM_ok (fun p : (nat * N) * index_range => clip_spec (snd p) (snd (fst p)))).
  2:{ intros p Hp. apply in_map_iff in Hp. destruct Hp as [d [<- Hd]]. cbn [fst snd].
      apply ir_clip_spec. rewrite Forall_forall in Hb. apply Hb. exact Hd. }
  cbn [obind]. rewrite map_map. cbn [fst snd]. fold (mask_clipped sh rs).
  rewrite (omapM_ok (fun p : (nat * N) * index_range =>
                       (fst (fst p), snd (fst p) - r_length (snd p)))).
  2:{ intros p Hp. unfold mask_clipped in Hp. rewrite combine_map_r in Hp.
      apply in_map_iff in Hp. destruct Hp as [d [<- Hd]]. cbn [fst snd clip_spec r_length].
      rewrite u_sub_ok by apply clipped_le. reflexivity. }
  cbn [obind]. rewrite !mask_shape_of_clipped.
  unfold valid_shape_b. unfold mask_shape at 1. rewrite names_of_map_fst.
  replace (has_duplicates (names_of sh)) with false
    by (symmetry; apply has_duplicates_false; exact Hnd).
  cbn [negb andb]. rewrite negb_has_zero. reflexivity.
Qed.

(* ---------- totality for EVERY input (no hypothesis at all) ---------- *)

Lemma omapM_not_panic {A B} (f : A -> outcome B) l :
  (forall x, In x l -> f x <> Panic) -> (forall x e, In x l -> f x <> Err e) ->
  exists r, omapM f l = Ok r.
Proof.
  induction l as [|x l IH]; intros Hp He; [eexists; reflexivity|].
  cbn [omapM]. destruct (f x) as [y|e|] eqn:E.
  - cbn [obind]. destruct IH as [r Hr].
    + intros z Hz. apply Hp. right. exact Hz.
    + intros z e Hz. apply He. right. exact Hz.
    + rewrite Hr. eexists. reflexivity.
  - exfalso. exact (He x e (or_introl eq_refl) E).
  - exfalso. exact (Hp x (or_introl eq_refl) E).
Qed.

Lemma exceeds_bounds_never_fails : forall lens all, exists b, exceeds_bounds lens all = Ok b.
Proof.
  induction lens as [|l lens IH]; intros [|[r|] all]; cbn [exceeds_bounds]; try (eexists; reflexivity).
  - unfold ir_exceeds. destruct (checked_add _ _); cbn [obind].
    + destruct (l <? n); [eexists; reflexivity|apply IH].
    + eexists; reflexivity.
  - apply IH.
Qed.

Theorem tensor_range_total strict sh rs : tensor_range strict sh rs <> Panic.
Proof.
  unfold tensor_range. pose proof (from_named_to_all_total sh rs) as T.
  destruct (from_named_to_all sh rs) as [all| |]; cbn [obind]; [|discriminate|contradiction].
  assert (Hex : exists b, (if strict then exceeds_bounds (lens_of sh) all else Ok false) = Ok b)
    by (destruct strict; [apply exceeds_bounds_never_fails|eexists; reflexivity]).
  destruct Hex as [b ->]. cbn [obind]. destruct b; [discriminate|].
  match goal with |- obind (omapM ?f ?l) _ <> _ =>
    destruct (omapM_not_panic f l) as [cl ->];
      [intros x _; discriminate|intros x e _; discriminate|] end.
  cbn [obind]. destruct (valid_shape_b _); discriminate.
Qed.

Lemma ir_clip_len_le r len c : ir_clip r len = Ok c -> r_length c <= len.
Proof. unfold ir_clip, sat_sub, sat_add. intros [= <-]. cbn [r_length]. lia. Qed.

Lemma omapM_In {A B} (f : A -> outcome B) : forall l r, omapM f l = Ok r ->
  Forall2 (fun x y => f x = Ok y) l r.
Proof.
  induction l as [|x l IH]; intros r; cbn [omapM]; [intros [= <-]; constructor|].
  destruct (f x) as [y| |] eqn:E; cbn [obind]; try discriminate.
  destruct (omapM f l) as [ys| |]; cbn [obind]; try discriminate.
  intros [= <-]. constructor; [exact E|apply IH; reflexivity].
Qed.

Lemma clip_all_le : forall (sh : shape) dflt cl,
  omapM (fun p : (nat * N) * index_range => ir_clip (snd p) (snd (fst p))) (combine sh dflt) = Ok cl ->
  Forall (fun p : (nat * N) * index_range => r_length (snd p) <= snd (fst p)) (combine sh cl).
Proof.
  induction sh as [|d sh IH]; intros dflt cl H; [constructor|].
  destruct dflt as [|r dflt]; cbn [combine omapM] in H.
  - injection H as <-. constructor.
  - cbn [fst snd] in H. destruct (ir_clip r (snd d)) as [c| |] eqn:E; cbn [obind] in H; try discriminate.
    destruct (omapM _ (combine sh dflt)) as [cl'| |] eqn:E'; cbn [obind] in H; try discriminate.
    injection H as <-. cbn [combine]. constructor.
    + cbn [fst snd]. exact (ir_clip_len_le _ _ _ E).
    + exact (IH _ _ E').
Qed.

Theorem tensor_mask_total m strict sh rs : tensor_mask m strict sh rs <> Panic.
Proof.
  unfold tensor_mask. pose proof (from_named_to_all_total sh rs) as T.
  destruct (from_named_to_all sh rs) as [all| |]; cbn [obind]; [|discriminate|contradiction].
  assert (Hex : exists b, (if strict then exceeds_bounds (lens_of sh) all else Ok false) = Ok b)
    by (destruct strict; [apply exceeds_bounds_never_fails|eexists; reflexivity]).
  destruct Hex as [b ->]. cbn [obind]. destruct b; [discriminate|].
  match goal with |- obind (omapM ?f ?l) _ <> _ =>
    destruct (omapM_not_panic f l) as [cl Hcl];
      [intros x _; discriminate|intros x e _; discriminate|]; rewrite Hcl end.
  cbn [obind]. apply clip_all_le in Hcl. rewrite Forall_forall in Hcl.
  match goal with |- obind (omapM ?f ?l) _ <> _ =>
    destruct (omapM_not_panic f l) as [sh' ->] end.
  - intros p Hp. rewrite u_sub_ok by (apply Hcl; exact Hp). discriminate.
  - intros p e Hp. rewrite u_sub_ok by (apply Hcl; exact Hp). discriminate.
  - cbn [obind]. destruct (valid_shape_b _); discriminate.
Qed.

(* the error values: InvalidDimensions carries the provided and the valid names; OutsideShape
   (strict only) the source shape and the per-dimension requests; InvalidShape the clipped shape,
   which has the source's names and a zero length *)
Theorem tensor_range_errors strict sh rs e : tensor_range strict sh rs = Err e ->
  (e = invalid_dimensions sh rs /\ ~ names_ok sh rs) \/
  (strict = true /\ exists all, from_named_to_all sh rs = Ok all /\ e = outside_shape sh all) \/
  (exists sh', e = SL [SZ 1; sshape sh'] /\ valid_shape_b sh' = false).
Proof.
  unfold tensor_range. destruct (from_named_to_all sh rs) as [all|e0|] eqn:F; cbn [obind].
  - destruct (exceeds_bounds_never_fails (lens_of sh) all) as [b0 Hb0].
    assert (Hex : exists b, (if strict then exceeds_bounds (lens_of sh) all else Ok false) = Ok b /\
                            (b = true -> strict = true))
      by (destruct strict; [exists b0; split; auto|exists false; split; [reflexivity|discriminate]]).
    destruct Hex as [b [-> Hs]]. cbn [obind]. destruct b.
    + intros [= <-]. right. left. split; [auto|]. exists all. split; reflexivity.
    + match goal with |- obind (omapM ?f ?l) _ = _ -> _ =>
        destruct (omapM_not_panic f l) as [cl ->];
          [intros x _; discriminate|intros x e1 _; discriminate|] end.
      cbn [obind]. destruct (valid_shape_b _) eqn:V; [discriminate|].
      intros [= <-]. right. right. eexists. split; [reflexivity|exact V].
  - intros [= <-]. left. split; [apply from_named_to_all_err; exact F|].
    intros Hok. apply from_named_to_all_ok_iff in Hok. destruct Hok as [all H]. congruence.
  - discriminate.
Qed.

Theorem tensor_mask_errors m strict sh rs e : tensor_mask m strict sh rs = Err e ->
  (e = invalid_dimensions sh rs /\ ~ names_ok sh rs) \/
  (strict = true /\ exists all, from_named_to_all sh rs = Ok all /\ e = outside_shape sh all) \/
  (exists sh', e = SL [SZ 1; sshape sh'] /\ valid_shape_b sh' = false).
Proof.
  unfold tensor_mask. destruct (from_named_to_all sh rs) as [all|e0|] eqn:F; cbn [obind].
  - destruct (exceeds_bounds_never_fails (lens_of sh) all) as [b0 Hb0].
    assert (Hex : exists b, (if strict then exceeds_bounds (lens_of sh) all else Ok false) = Ok b /\
                            (b = true -> strict = true))
      by (destruct strict; [exists b0; split; auto|exists false; split; [reflexivity|discriminate]]).
    destruct Hex as [b [-> Hs]]. cbn [obind]. destruct b.
    + intros [= <-]. right. left. split; [auto|]. exists all. split; reflexivity.
    + match goal with |- obind (omapM ?f ?l) _ = _ -> _ =>
        destruct (omapM_not_panic f l) as [cl Hcl];
          [intros x _; discriminate|intros x e1 _; discriminate|]; rewrite Hcl end.
      cbn [obind]. apply clip_all_le in Hcl. rewrite Forall_forall in Hcl.
      match goal with |- obind (omapM ?f ?l) _ = _ -> _ =>
        destruct (omapM_not_panic f l) as [sh' ->] end.
      * intros p Hp. rewrite u_sub_ok by (apply Hcl; exact Hp). discriminate.
      * intros p e1 Hp. rewrite u_sub_ok by (apply Hcl; exact Hp). discriminate.
      * cbn [obind]. destruct (valid_shape_b _) eqn:V; [discriminate|].
        intros [= <-]. right. right. eexists. split; [reflexivity|exact V].
  - intros [= <-]. left. split; [apply from_named_to_all_err; exact F|].
    intros Hok. apply from_named_to_all_ok_iff in Hok. destruct Hok as [all H]. congruence.
  - discriminate.
Qed.

(* lenient construction clips rather than fails whenever at least one index remains in every
   dimension — and fails (InvalidShape) only when some dimension keeps none *)
Theorem tensor_range_lenient_clips sh rs :
  NoDup (names_of sh) -> Forall (fun d => snd d <= usize_max) sh -> names_ok sh rs ->
  ((exists v, tensor_range false sh rs = Ok v) <->
   Forall (fun d => r_start (range_req rs d) < snd d /\ 0 < r_length (range_req rs d)) sh).
Proof.
  intros Hnd Hb Hok. rewrite (tensor_range_spec false sh rs Hnd Hb Hok). cbn [andb].
  destruct (forallb _ (range_shape sh rs)) eqn:F.
  - split; [intros _|eauto]. rewrite forallb_forall in F. apply Forall_forall. intros d Hd.
    apply lenient_clips. apply N.ltb_lt.
    apply (F (fst d, clipped_length (range_req rs d) (snd d))).
    unfold range_shape. apply in_map_iff. exists d. split; [reflexivity|exact Hd].
  - split; [intros [v H]; discriminate|]. intros H. exfalso.
    assert (forallb (fun d : nat * N => 0 <? snd d) (range_shape sh rs) = true); [|congruence].
    apply forallb_forall. intros x Hx. unfold range_shape in Hx. apply in_map_iff in Hx.
    destruct Hx as [d [<- Hd]]. cbn [snd]. apply N.ltb_lt. apply lenient_clips.
    rewrite Forall_forall in H. apply H. exact Hd.
Qed.

Theorem tensor_mask_lenient_clips m sh rs :
  NoDup (names_of sh) -> Forall (fun d => snd d <= usize_max) sh -> names_ok sh rs ->
  ((exists v, tensor_mask m false sh rs = Ok v) <->
   Forall (fun d => clipped_length (mask_req rs d) (snd d) < snd d) sh).
Proof.
  intros Hnd Hb Hok. rewrite (tensor_mask_spec m false sh rs Hnd Hb Hok). cbn [andb].
  destruct (forallb _ (mask_shape sh rs)) eqn:F.
  - split; [intros _|eauto]. rewrite forallb_forall in F. apply Forall_forall. intros d Hd.
    assert (H : (0 <? snd (fst d, snd d - clipped_length (mask_req rs d) (snd d))) = true).
    { apply F. unfold mask_shape. apply in_map_iff. exists d. split; [reflexivity|exact Hd]. }
    cbn [snd] in H. apply N.ltb_lt in H. lia.
  - split; [intros [v H]; discriminate|]. intros H. exfalso.
    assert (forallb (fun d : nat * N => 0 <? snd d) (mask_shape sh rs) = true); [|congruence].
    apply forallb_forall. intros x Hx. unfold mask_shape in Hx. apply in_map_iff in Hx.
    destruct Hx as [d [<- Hd]]. cbn [snd]. apply N.ltb_lt.
    rewrite Forall_forall in H. specialize (H d Hd). lia.
Qed.

Lemma Forall2_map_r {A B} (P : A -> B -> Prop) (f : A -> B) l :
  (forall x, In x l -> P x (f x)) -> Forall2 P l (map f l).
Proof.
  induction l as [|x l IH]; intros H; [constructor|]. cbn [map]. constructor.
  - apply H. left. reflexivity.
  - apply IH. intros y Hy. apply H. right. exact Hy.
Qed.

(* what the constructor stores satisfies the invariant the checked getter needs (ranges_ok) *)
Theorem tensor_range_establishes_ranges_ok strict sh rs sh' cl :
  NoDup (names_of sh) -> Forall (fun d => snd d <= usize_max) sh -> names_ok sh rs ->
  tensor_range strict sh rs = Ok (sh', cl) ->
  ranges_ok sh cl /\ names_of sh' = names_of sh /\ lens_of sh' = map r_length cl /\ valid_shape sh'.
Proof.
  intros Hnd Hb Hok. rewrite (tensor_range_spec strict sh rs Hnd Hb Hok).
  destruct (strict && strict_outside sh rs); [discriminate|].
  destruct (forallb _ (range_shape sh rs)) eqn:F; [|discriminate]. intros [= <- <-].
  assert (Hpos : forall d, In d sh -> 0 < clipped_length (range_req rs d) (snd d)).
  { intros d Hd. rewrite forallb_forall in F. apply N.ltb_lt.
    apply (F (fst d, clipped_length (range_req rs d) (snd d))).
    unfold range_shape. apply in_map_iff. exists d. split; [reflexivity|exact Hd]. }
  repeat split.
  - unfold ranges_ok, range_clipped. apply Forall2_map_r. intros d Hd.
    cbn [clip_spec r_start r_length]. specialize (Hpos d Hd). unfold clipped_length in *. lia.
  - apply names_of_map_fst.
  - unfold range_shape, range_clipped, lens_of. rewrite !map_map. reflexivity.
  - unfold range_shape. rewrite names_of_map_fst. exact Hnd.
  - unfold range_shape, lens_of. rewrite map_map. cbn [snd]. apply Forall_forall.
    intros x Hx. apply in_map_iff in Hx. destruct Hx as [d [<- Hd]]. apply Hpos. exact Hd.
Qed.
