(* C12: the shared, mutable and unchecked access forms of every matrix view are transcribed
   separately (Model/MatrixViews.v `try_get`, Model/MatrixAccess.v `try_get_mut`, `get_unchecked`,
   `get_unchecked_mut`).  Here: on every view the mutable checked form computes what the shared
   one does (all indexes), the unchecked forms resolve every PRESENT index to the same cell, and
   outside the view's size they are not a function of the view's contract at all (panic,
   undefined, or a defined read of a different cell) — which is why "only present indexes reach
   them" (the iterator theorems at the end) is part of the property. *)
From Coq Require Import List ZArith NArith Bool Arith Lia.
From EasyML Require Import Base.Sx Model.Shape Model.MatrixViews Model.MatrixAccess Proofs.C12P.
From EasyML Require Model.Views.
Import ListNotations.
Local Open Scope N_scope.

(* ---------- mutable checked = shared checked, on every index ---------- *)
Theorem try_get_mut_eq v : has_mut v = true -> forall row column,
  try_get_mut v row column = try_get v row column.
Proof.
  induction v as [rows cols|p|rows cols src IH|rr rc src IH|src IH|n0 n1 src IH|c];
    cbn [has_mut try_get_mut try_get]; intros Hm row column; try reflexivity; try discriminate.
  - destruct (ir_map rows row); [|reflexivity]. destruct (ir_map cols column); [|reflexivity]. now apply IH.
  - destruct ((view_rows src =? 0) || (view_cols src =? 0)); [reflexivity|]. now apply IH.
  - now apply IH.
Qed.

(* ---------- the unchecked forms on present indexes ---------- *)
Theorem get_unchecked_present v : forall row column p,
  try_get v row column = Cell p -> get_unchecked v row column = UCell p.
Proof.
  induction v as [rows cols|pt|rows cols src IH|rr rc src IH|src IH|n0 n1 src IH|c];
    cbn [try_get get_unchecked]; intros row column p H.
  - destruct (row <? rows) eqn:Er; cbn [andb] in H; [|discriminate].
    destruct (column <? cols) eqn:Ec; [|discriminate]. injection H as <-.
    apply N.ltb_lt in Er, Ec.
    replace (column + row * cols <? rows * cols) with true by (symmetry; apply N.ltb_lt; nia). reflexivity.
  - destruct ((p_rows pt <=? row) || (p_cols pt <=? column)); [discriminate|].
    destruct (nth_error (p_slices pt) (N.to_nat row)) as [[off len]|]; [|discriminate].
    destruct (column <? len); [|discriminate]. injection H as <-. reflexivity.
  - destruct (ir_map rows row); [|discriminate]. destruct (ir_map cols column); [|discriminate]. now apply IH.
  - unfold reverse_underflows.
    destruct (view_rows src =? 0); cbn [orb] in H; [discriminate|].
    destruct (view_cols src =? 0); [discriminate|]. rewrite !andb_false_r. cbn [orb]. now apply IH.
  - now apply IH.
  - now apply IH.
  - destruct (Views.c_get c [row; column]) as [[leaf off]|]; [|discriminate].
    destruct (leaf_base (Views.c_leaves c) leaf); [|discriminate]. injection H as <-. reflexivity.
Qed.

Theorem get_unchecked_mut_present v : has_mut v = true -> forall row column p,
  try_get v row column = Cell p -> get_unchecked_mut v row column = UCell p.
Proof.
  induction v as [rows cols|pt|rows cols src IH|rr rc src IH|src IH|n0 n1 src IH|c];
    cbn [has_mut try_get get_unchecked_mut]; intros Hm row column p H; try discriminate.
  - destruct (row <? rows) eqn:Er; cbn [andb] in H; [|discriminate].
    destruct (column <? cols) eqn:Ec; [|discriminate]. injection H as <-.
    apply N.ltb_lt in Er, Ec.
    replace (column + row * cols <? rows * cols) with true by (symmetry; apply N.ltb_lt; nia). reflexivity.
  - destruct ((p_rows pt <=? row) || (p_cols pt <=? column)); [discriminate|].
    destruct (nth_error (p_slices pt) (N.to_nat row)) as [[off len]|]; [|discriminate].
    destruct (column <? len); [|discriminate]. injection H as <-. reflexivity.
  - destruct (ir_map rows row); [|discriminate]. destruct (ir_map cols column); [|discriminate]. now apply IH.
  - unfold reverse_underflows.
    destruct (view_rows src =? 0); cbn [orb] in H; [discriminate|].
    destruct (view_cols src =? 0); [discriminate|]. rewrite !andb_false_r. cbn [orb]. now apply IH.
  - now apply IH.
  - destruct (Views.c_get c [row; column]) as [[leaf off]|]; [|discriminate].
    destruct (leaf_base (Views.c_leaves c) leaf); [|discriminate]. injection H as <-. reflexivity.
Qed.

(* ---------- all four forms, for every well-formed view ---------- *)
Theorem access_forms_agree len v : wf len v -> has_mut v = true -> forall row column,
  if inside v row column
  then exists p, p < len /\
         try_get v row column = Cell p /\ try_get_mut v row column = Cell p /\
         get_unchecked v row column = UCell p /\ get_unchecked_mut v row column = UCell p
  else try_get v row column = Absent /\ try_get_mut v row column = Absent.
Proof.
  intros Hw Hm row column. pose proof (view_contract len v Hw row column) as C.
  destruct (inside v row column).
  - destruct C as [p [E Hp]]. exists p. split; [exact Hp|]. split; [exact E|].
    split; [rewrite try_get_mut_eq by exact Hm; exact E|].
    split; [now apply get_unchecked_present|now apply get_unchecked_mut_present].
  - split; [exact C|rewrite try_get_mut_eq by exact Hm; exact C].
Qed.

(* a view with a mapped layer has the two shared forms only *)
Theorem access_forms_agree_shared len v : wf len v -> forall row column,
  if inside v row column
  then exists p, p < len /\ try_get v row column = Cell p /\ get_unchecked v row column = UCell p
  else try_get v row column = Absent.
Proof.
  intros Hw row column. pose proof (view_contract len v Hw row column) as C.
  destruct (inside v row column); [|exact C].
  destruct C as [p [E Hp]]. exists p. split; [exact Hp|]. split; [exact E|now apply get_unchecked_present].
Qed.

(* ---------- reads and writes through each form ---------- *)
Section Forms.
Context {T : Type}.

Theorem write_mut_eq (data : list T) v row column x : has_mut v = true ->
  write_mut data v row column x = write data v row column x.
Proof. intros Hm. unfold write_mut, write. now rewrite try_get_mut_eq. Qed.

Theorem write_unchecked_present (data : list T) v row column x p : has_mut v = true ->
  try_get v row column = Cell p ->
  write_unchecked data v row column x = write data v row column x.
Proof.
  intros Hm E. unfold write_unchecked, write. now rewrite (get_unchecked_mut_present v Hm _ _ _ E), E.
Qed.

Theorem read_unchecked_present (data : list T) v row column p :
  try_get v row column = Cell p ->
  read_unchecked data (get_unchecked v row column) = read data (try_get v row column).
Proof. intros E. now rewrite (get_unchecked_present v _ _ _ E), E. Qed.

End Forms.

(* ---------- outside the size the unchecked forms are NOT the checked ones ---------- *)
(* a 2 x 3 matrix at (0, 4): absent for the checked getters, a defined read of cell (1, 1) for
   the unchecked one; a range asked beyond its length panics in `unwrap`; a partition part
   asked beyond a row slice is an out-of-bounds get_unchecked; a reversed view of an empty range
   underflows *)
Lemma unchecked_outside_examples :
  try_get (VMatrix 2 3) 0 4 = Absent /\ get_unchecked (VMatrix 2 3) 0 4 = UCell 4 /\
  try_get (VMatrix 2 3) 1 1 = Cell 4 /\
  get_unchecked (range_from (VMatrix 2 3) (mkIR 0 1) (mkIR 0 3)) 1 0 = UPanic /\
  get_unchecked (VPart (mkPart [(0, 2); (3, 2)] 2 2)) 0 2 = UUndefined /\
  get_unchecked_mut (VReverse true false (range_from (VMatrix 2 3) (mkIR 5 1) (mkIR 0 3))) 0 0 = UPanic /\
  try_get (VReverse true false (range_from (VMatrix 2 3) (mkIR 5 1) (mkIR 0 3))) 0 0 = Absent.
Proof. vm_compute. repeat split; reflexivity. Qed.

(* ---------- views over a source that is mutated through source_ref_mut ---------- *)
(* MatrixReverse (the one public matrix adaptor that hands out `source_ref_mut()`) stores only its
   two flags: after ANY history of Matrix operations applied to the source through the view, the
   same view object is `rev_stack m revs` over the matrix m as it is now — a stack over a valid
   matrix, so the whole contract (size = the source's, presence exactly inside, mirror mapping, the
   four access forms, injectivity) holds after every step, panicking steps included. *)
From EasyML Require Import Model.Matrix Proofs.C11Spec Proofs.C11P Proofs.C12Partition.

Lemma rev_stack_is_stack {T} (m : matrix T) revs : stack (m_rows m) (m_cols m) (rev_stack m revs) /\
  has_mut (rev_stack m revs) = true /\
  view_rows (rev_stack m revs) = m_rows m /\ view_cols (rev_stack m revs) = m_cols m.
Proof.
  unfold rev_stack.
  assert (G : forall revs v, stack (m_rows m) (m_cols m) v -> has_mut v = true ->
            view_rows v = m_rows m -> view_cols v = m_cols m ->
            let w := fold_left (fun v r => VReverse (fst r) (snd r) v) revs v in
            stack (m_rows m) (m_cols m) w /\ has_mut w = true /\ view_rows w = m_rows m /\ view_cols w = m_cols m).
  { induction revs0 as [|r revs0 IH]; intros v Hs Hm Hr Hc; cbn [fold_left]; [auto|].
    apply IH; [now apply st_reverse|exact Hm|exact Hr|exact Hc]. }
  apply G; [apply st_matrix|reflexivity|reflexivity|reflexivity].
Qed.

Theorem reversal_views_survive_source_mutation {T} (m0 : matrix T) (ops : list (op T)) revs :
  Inv m0 ->
  Forall (fun r : matrix T * bool =>
            let m := fst r in let v := rev_stack m revs in
            1 <= m_rows m /\ N.of_nat (length (m_data m)) = m_rows m * m_cols m /\
            stack (m_rows m) (m_cols m) v /\ has_mut v = true /\
            view_rows v = m_rows m /\ view_cols v = m_cols m)
         (impl_trace m0 ops).
Proof.
  intros Hi. pose proof (trace_inv ops m0 Hi) as F. eapply Forall_impl; [|exact F].
  intros [m b] [H1 [H2 H3]]. cbn [fst] in *. cbv zeta.
  destruct (rev_stack_is_stack m revs) as [A [B [C D]]].
  split; [exact H1|]. split; [unfold nlen in H3; lia|]. auto.
Qed.
