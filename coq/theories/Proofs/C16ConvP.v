(* C16: Tensor::try_from and TensorAccess::try_from (dimension-order access) as fallible APIs:
   never a panic, success exactly on valid input, and the error carries the offending shape /
   the tensor's shape and the requested names. *)
From Coq Require Import List ZArith NArith Bool Arith Lia Permutation.
From EasyML Require Import Base.Sx Model.Shape Model.Tensor Proofs.ShapeP Proofs.C01P.
Import ListNotations.
Open Scope N_scope.

Theorem tensor_try_from_total {A} sh (data : list A) :
  tensor_try_from sh data <> Panic /\
  ((exists t, tensor_try_from sh data = Ok t) <->
   valid_shape sh /\ elements sh = N.of_nat (length data) /\ elements sh <= usize_max) /\
  (forall e, tensor_try_from sh data = Err e -> e = sshape sh).
Proof.
  split; [|split].
  - unfold tensor_try_from. destruct (validate_dimensions _ _); discriminate.
  - apply ctor_validation.
  - unfold tensor_try_from. destruct (validate_dimensions _ _); [discriminate|].
    intros e [= <-]. reflexivity.
Qed.

Theorem access_try_from_total {A} (t : tensor A) req :
  access_try_from t req <> Panic /\
  (NoDup (names_of (t_shape t)) -> length req = length (t_shape t) ->
   ((exists a, access_try_from t req = Ok a) <-> Permutation (names_of (t_shape t)) req)) /\
  (forall e, access_try_from t req = Err e -> e = SL [sshape (t_shape t); snames req]).
Proof.
  split; [|split].
  - unfold access_try_from. destruct (dm_new _ _); discriminate.
  - apply access_try_from_iff_perm.
  - unfold access_try_from. destruct (dm_new _ _); [discriminate|]. intros e [= <-]. reflexivity.
Qed.
