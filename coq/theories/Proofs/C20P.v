(* C20 — specification tables (what the property and the crate's documentation promise about each
   public type) and the proofs that the declarations REGENERATED from /repo/src (Gen/Types.v) meet
   them under rustc's auto-trait rules (Model/AutoTraits.v).

   Reading guide.  `asm tr n` is rustc's parameter environment: "the n-th type parameter of the
   type under study implements tr".  A statement `forall asm, holds decls asm tr (G X) = e asm`
   therefore speaks about EVERY instantiation of X's parameters (whatever is known about them).
   `G X` is X applied to its own parameters, X<'a.., T0, T1, ..>. *)
From Coq Require Import List Arith Bool.
From EasyML Require Import Model.AutoTraits Gen.Types.
Import ListNotations.
Open Scope str_scope.

Definition G (n : str) : ty := generic_of decls n.

(* ---------------------------------------------------------------- the specification *)

Inductive cond := Never | When (reqs : list (trait * nat)).

Definition meets (asm : trait -> nat -> bool) (c : cond) : bool :=
  match c with
  | Never => false
  | When reqs => forallb (fun r => asm (fst r) (snd r)) reqs
  end.

Record expectation := { ename : str; eparams : nat; esend : cond; esync : cond }.

(* sendable / shareable exactly when ALL its k type parameters (element type, source type, ...) are *)
Definition structural (n : str) (k : nat) : expectation :=
  {| ename := n; eparams := k;
     esend := When (map (pair Send) (seq 0 k)); esync := When (map (pair Sync) (seq 0 k)) |}.
Definition exact (n : str) (k : nat) (s y : list (trait * nat)) : expectation :=
  {| ename := n; eparams := k; esend := When s; esync := When y |}.
Definition never (n : str) (k : nat) : expectation :=
  {| ename := n; eparams := k; esend := Never; esync := Never |}.

(* names *)
Definition WL := "differentiation::WengertList".
Definition REC := "differentiation::Record".
Definition RC := "differentiation::container_record::RecordContainer".
Definition RM := "differentiation::container_record::RecordMatrix".
Definition RT := "differentiation::container_record::RecordTensor".

(* the tape: can be moved to another thread with its element type, can never be shared *)
Definition tape_expectation : expectation :=
  {| ename := WL; eparams := 1; esend := When [(Send, 0)]; esync := Never |}.

(* everything that holds a reference to a tape: never Send, never Sync *)
Definition tape_holders : list expectation := [
  never REC 1;
  never RC 2;
  never "differentiation::container_record::iterators::AsRecords" 2;
  never "differentiation::container_record::iterators::InconsistentHistory" 1;
  never "differentiation::container_record::iterators::InvalidRecordIteratorError" 1;
  never "differentiation::container_record::iterators::RecordContainerComponents" 1 ].

(* containers, views, traces, derivative sets, decompositions, distributions, error types:
   exactly when element and source types are *)
Definition data_types : list expectation := [
  structural "tensors::Tensor" 1;
  structural "matrices::Matrix" 1;
  structural "tensors::views::TensorView" 2;
  structural "matrices::views::MatrixView" 2;
  structural "differentiation::Trace" 1;
  structural "differentiation::Derivatives" 1;
  structural "differentiation::Operation" 1;
  structural "differentiation::BorrowedWengertList" 1;
  (* tensor view adaptors <T, S> *)
  structural "tensors::indexing::TensorAccess" 2;
  structural "tensors::indexing::TensorTranspose" 2;
  structural "tensors::views::indexes::TensorIndex" 2;
  structural "tensors::views::indexes::TensorExpansion" 2;
  structural "tensors::views::ranges::TensorRange" 2;
  structural "tensors::views::ranges::TensorMask" 2;
  structural "tensors::views::renamed::TensorRename" 2;
  structural "tensors::views::reverse::TensorReverse" 2;
  structural "tensors::views::zip::TensorStack" 2;
  structural "tensors::views::zip::TensorChain" 2;
  structural "tensors::views::map::TensorMap" 4;
  structural "tensors::views::DebugSourceVisible" 2;
  (* matrix view adaptors *)
  structural "matrices::views::ranges::MatrixRange" 2;
  structural "matrices::views::reverse::MatrixReverse" 2;
  structural "matrices::views::map::MatrixMap" 4;
  structural "matrices::views::partitions::MatrixPart" 1;
  structural "matrices::views::partitions::MatrixQuadrants" 1;
  (* interop adaptors *)
  structural "interop::TensorRefMatrix" 3;
  structural "interop::MatrixRefTensor" 2;
  structural "interop::RowAndColumn" 0;
  (* plain data *)
  structural "tensors::dimensions::DimensionMappings" 0;
  structural "tensors::views::DataLayout" 0;
  structural "matrices::views::DataLayout" 0;
  structural "matrices::views::ranges::IndexRange" 0;
  structural "matrices::views::reverse::Reverse" 0;
  structural "matrices::slices::Slice" 0;
  structural "matrices::slices::Slice2D" 0;
  structural "matrices::slices::EmptySlice2DBuilder" 0;
  structural "matrices::slices::RowSlice2DBuilder" 0;
  structural "matrices::slices::ColumnSlice2DBuilder" 0;
  structural "matrices::serde_impls::MatrixDeserialize" 1;
  structural "tensors::serde_impls::TensorDeserialize" 1;
  (* error types *)
  structural "tensors::InvalidShapeError" 0;
  structural "tensors::InvalidDimensionsError" 0;
  structural "tensors::indexing::InvalidDimensionsError" 0;
  structural "tensors::views::ranges::IndexRangeValidationError" 0;
  structural "tensors::views::ranges::StrictIndexRangeValidationError" 0;
  structural "matrices::errors::ScalarConversionError" 0;
  structural "distributions::MultivariateGaussianError" 1;
  (* linear algebra results and distributions *)
  structural "linear_algebra::LDLTDecomposition" 1;
  structural "linear_algebra::LDLTDecompositionTensor" 1;
  structural "linear_algebra::QRDecomposition" 1;
  structural "linear_algebra::QRDecompositionTensor" 1;
  structural "distributions::Gaussian" 1;
  structural "distributions::MultivariateGaussian" 1;
  structural "distributions::MultivariateGaussianTensor" 1;
  (* derivative function markers (PhantomData<T>) *)
  structural "differentiation::functions::Addition" 1;
  structural "differentiation::functions::Subtraction" 1;
  structural "differentiation::functions::Multiplication" 1;
  structural "differentiation::functions::Division" 1;
  structural "differentiation::functions::Power" 1;
  structural "differentiation::functions::Negation" 1;
  structural "differentiation::functions::Sine" 1;
  structural "differentiation::functions::Cosine" 1;
  structural "differentiation::functions::Exponential" 1;
  structural "differentiation::functions::NaturalLogarithm" 1;
  structural "differentiation::functions::SquareRoot" 1 ].

(* iterators.  <T, S> : T = element type (parameter 0), S = source type (parameter 1).
   by-value iterators over a shared borrow:  &'a S + PhantomData<T>   : needs S: Sync
   reference iterators:                      &'a S + PhantomData<&'a T>: needs S: Sync, T: Sync
   mutable reference iterators:              &'a mut S + PhantomData<&'a mut T> : structural
   owned iterators:                          S + fn() -> T            : only S matters *)
Definition shared_copying (n : str) : expectation :=
  exact n 2 [(Sync, 1); (Send, 0)] [(Sync, 1); (Sync, 0)].
Definition shared_reference (n : str) : expectation :=
  exact n 2 [(Sync, 1); (Sync, 0)] [(Sync, 1); (Sync, 0)].
Definition owning (n : str) : expectation := exact n 2 [(Send, 1)] [(Sync, 1)].

Definition iterator_types : list expectation := [
  structural "tensors::indexing::ShapeIterator" 0;
  structural "matrices::iterators::WithIndex" 1;
  shared_copying "tensors::indexing::TensorIterator";
  shared_reference "tensors::indexing::TensorReferenceIterator";
  structural "tensors::indexing::TensorReferenceMutIterator" 2;
  owning "tensors::indexing::TensorOwnedIterator";
  (* the matrix by-value iterators carry PhantomData<&'a T> as well *)
  shared_reference "matrices::iterators::ColumnIterator";
  shared_reference "matrices::iterators::RowIterator";
  shared_reference "matrices::iterators::ColumnMajorIterator";
  shared_reference "matrices::iterators::RowMajorIterator";
  shared_reference "matrices::iterators::DiagonalIterator";
  shared_reference "matrices::iterators::ColumnReferenceIterator";
  shared_reference "matrices::iterators::RowReferenceIterator";
  shared_reference "matrices::iterators::ColumnMajorReferenceIterator";
  shared_reference "matrices::iterators::RowMajorReferenceIterator";
  shared_reference "matrices::iterators::DiagonalReferenceIterator";
  structural "matrices::iterators::ColumnMajorReferenceMutIterator" 2;
  structural "matrices::iterators::RowMajorReferenceMutIterator" 2;
  structural "matrices::iterators::DiagonalReferenceMutIterator" 2;
  structural "matrices::iterators::ColumnReferenceMutIterator" 2;
  structural "matrices::iterators::RowReferenceMutIterator" 2;
  owning "matrices::iterators::ColumnMajorOwnedIterator";
  owning "matrices::iterators::RowMajorOwnedIterator" ].

Definition expectations : list expectation :=
  tape_expectation :: tape_holders ++ data_types ++ iterator_types.

(* an expectation is met by the regenerated declarations *)
Definition met (asm : trait -> nat -> bool) (e : expectation) : Prop :=
  (exists d, lookup decls (ename e) = Some d /\ dtys d = eparams e) /\
  holds decls asm Send (G (ename e)) = meets asm (esend e) /\
  holds decls asm Sync (G (ename e)) = meets asm (esync e).

(* the borrow each source-pinning type carries: (type, field, mutable?, referent).  The referent
   is written in the scope of the type's own parameters; the lifetime of the reference must be the
   type's own first lifetime parameter. *)
Definition S1 := TParam 1.
Definition tapeof (n : nat) := TApp WL [] [TParam n].
Definition borrow_table : list (str * str * bool * ty) := [
  (REC, "history", false, tapeof 0);
  (RC, "history", false, tapeof 0);
  ("differentiation::container_record::iterators::AsRecords", "history", false, tapeof 1);
  ("differentiation::container_record::iterators::InconsistentHistory", "first", false, tapeof 0);
  ("differentiation::container_record::iterators::InconsistentHistory", "later", false, tapeof 0);
  ("differentiation::BorrowedWengertList", "operations", true,
     TVec (TApp "differentiation::Operation" [] [TParam 0]));
  ("tensors::indexing::TensorIterator", "source", false, S1);
  ("tensors::indexing::TensorReferenceIterator", "source", false, S1);
  ("tensors::indexing::TensorReferenceMutIterator", "source", true, S1);
  ("matrices::iterators::ColumnIterator", "matrix", false, S1);
  ("matrices::iterators::RowIterator", "matrix", false, S1);
  ("matrices::iterators::ColumnMajorIterator", "matrix", false, S1);
  ("matrices::iterators::RowMajorIterator", "matrix", false, S1);
  ("matrices::iterators::DiagonalIterator", "matrix", false, S1);
  ("matrices::iterators::ColumnReferenceIterator", "matrix", false, S1);
  ("matrices::iterators::RowReferenceIterator", "matrix", false, S1);
  ("matrices::iterators::ColumnMajorReferenceIterator", "matrix", false, S1);
  ("matrices::iterators::RowMajorReferenceIterator", "matrix", false, S1);
  ("matrices::iterators::DiagonalReferenceIterator", "matrix", false, S1);
  ("matrices::iterators::ColumnMajorReferenceMutIterator", "matrix", true, S1);
  ("matrices::iterators::RowMajorReferenceMutIterator", "matrix", true, S1);
  ("matrices::iterators::DiagonalReferenceMutIterator", "matrix", true, S1);
  ("matrices::iterators::ColumnReferenceMutIterator", "matrix", true, S1);
  ("matrices::iterators::RowReferenceMutIterator", "matrix", true, S1);
  ("matrices::views::partitions::MatrixPart", "data", true, TSlice (TParam 0)) ].

Definition carried (e : str * str * bool * ty) : Prop :=
  let '(n, fld, m, s) := e in carries decls n fld = Some (m, s).

(* the four quadrants are views over parts that carry the source's lifetime *)
Definition quadrant_ty : ty :=
  TApp "matrices::views::MatrixView" []
       [TParam 0; TApp "matrices::views::partitions::MatrixPart" [LParam 0] [TParam 0]].
Definition quadrant_fields := ["top_left"; "top_right"; "bottom_left"; "bottom_right"].

(* the types the owning / by-value APIs return must NOT carry a lifetime at all *)
Definition lifetime_free : list str := [
  "tensors::Tensor"; "matrices::Matrix"; "tensors::views::TensorView"; "matrices::views::MatrixView";
  "differentiation::WengertList"; "differentiation::Trace"; "differentiation::Derivatives";
  "tensors::indexing::TensorOwnedIterator"; "matrices::iterators::ColumnMajorOwnedIterator";
  "matrices::iterators::RowMajorOwnedIterator"; "tensors::indexing::TensorAccess";
  "tensors::indexing::TensorTranspose" ].

Definition unsafe_markers : list str := [
  "tensors::views::TensorRef"; "tensors::views::TensorMut";
  "matrices::views::MatrixRef"; "matrices::views::MatrixMut";
  "matrices::views::NoInteriorMutability" ].

Definition mem (s : str) (l : list str) : bool := existsb (str_eqb s) l.

(* ---------------------------------------------------------------- proofs *)

(* evaluates the evaluator on the generated declarations with the environment left symbolic, then
   splits on every `asm tr n` that is left *)
Ltac split_asm asm :=
  repeat match goal with
         | |- context [asm ?a ?b] => destruct (asm a b)
         end.
Ltac eval_auto asm := vm_compute; split_asm asm; reflexivity.

Lemma met_all : forall asm, Forall (met asm) expectations.
Proof.
  intro asm. unfold expectations, tape_holders, data_types, iterator_types. cbn [app].
  repeat (apply Forall_cons;
          [ split; [ eexists; split; vm_compute; reflexivity
                   | split; eval_auto asm ] | ]).
  apply Forall_nil.
Qed.

Lemma met_in : forall asm e, In e expectations -> met asm e.
Proof. intros asm e H. exact (proj1 (Forall_forall _ _) (met_all asm) e H). Qed.

Lemma tape_not_sync : forall asm, holds decls asm Sync (G WL) = false.
Proof. intro asm. eval_auto asm. Qed.

Lemma tape_send_iff : forall asm, holds decls asm Send (G WL) = asm Send 0.
Proof. intro asm. eval_auto asm. Qed.

Lemma record_never : forall asm tr, holds decls asm tr (G REC) = false.
Proof. intros asm tr. destruct tr; eval_auto asm. Qed.

Definition alias_body (n : str) : ty :=
  match find (fun a => str_eqb (aname a) n) aliases with
  | Some a => abody a
  | None => TPrim "missing alias"        (* would be Send + Sync: the theorems below would fail *)
  end.

Lemma containers_never : forall asm tr,
  holds decls asm tr (G RC) = false /\
  holds decls asm tr (alias_body RM) = false /\
  holds decls asm tr (alias_body RT) = false /\
  Forall (fun e => holds decls asm tr (G (ename e)) = false) tape_holders.
Proof.
  intros asm tr. destruct tr; (split; [eval_auto asm|]); (split; [eval_auto asm|]);
    (split; [eval_auto asm|]); unfold tape_holders;
    repeat (apply Forall_cons; [eval_auto asm|]); apply Forall_nil.
Qed.

Lemma aliases_are_containers :
  (exists s, alias_body RM = TApp RC [LParam 0] [TParam 0; TApp "matrices::views::MatrixView" [] [s; TParam 1]]) /\
  (exists s, alias_body RT = TApp RC [LParam 0] [TParam 0; TApp "tensors::views::TensorView" [] [s; TParam 1]]).
Proof. split; eexists; vm_compute; reflexivity. Qed.

Lemma send_sync_iff : forall asm tr e, In e (data_types ++ iterator_types) ->
  holds decls asm tr (G (ename e)) = meets asm (match tr with Send => esend e | Sync => esync e end).
Proof.
  intros asm tr e H.
  assert (Hin : In e expectations) by (unfold expectations; right; apply in_or_app; right; exact H).
  destruct (met_in asm e Hin) as [_ [Hs Hy]]. destruct tr; assumption.
Qed.

Lemma borrow_carried : Forall carried borrow_table.
Proof.
  unfold borrow_table. repeat (apply Forall_cons; [vm_compute; reflexivity|]). apply Forall_nil.
Qed.

Lemma quadrants_carry : Forall (fun f =>
    field_ty decls "matrices::views::partitions::MatrixQuadrants" f = Some quadrant_ty) quadrant_fields
  /\ pins decls "matrices::views::partitions::MatrixQuadrants" = true.
Proof.
  split; [|vm_compute; reflexivity].
  unfold quadrant_fields. repeat (apply Forall_cons; [vm_compute; reflexivity|]). apply Forall_nil.
Qed.

Lemma owned_lifetime_free : Forall (fun n => exists d, lookup decls n = Some d /\ dlts d = 0) lifetime_free.
Proof.
  unfold lifetime_free.
  repeat (apply Forall_cons; [eexists; split; vm_compute; reflexivity|]). apply Forall_nil.
Qed.

(* every declaration of the crate: no raw pointer / NonNull / Rc / unreadable type in any field,
   every lifetime written in a field is 'static or a declared parameter, every named type
   resolves to a declaration with the right number of type arguments *)
Lemma translation_closed :
  forallb (decl_ok decls) decls = true /\ translator_errors = [] /\ translator_unresolved = [].
Proof. split; [vm_compute; reflexivity | split; reflexivity]. Qed.

(* there is no explicit impl of Send or Sync anywhere in the crate: every verdict above is the
   structural one *)
Lemma no_marker_impls :
  marker_impls = [] /\ forallb (fun d => match dsend d, dsync d with Auto, Auto => true | _, _ => false end) decls = true.
Proof. split; [reflexivity | vm_compute; reflexivity]. Qed.

(* every PUBLIC struct / enum of the crate is classified by one of the tables (a private helper
   type is not part of the API the property speaks about; it still takes part in the structural
   auto-trait computation of any public type that stores it) *)
Lemma all_classified :
  forallb (fun d => negb (dpub d) || mem (dname d) (map ename expectations)) decls = true.
Proof. vm_compute; reflexivity. Qed.

Lemma sealed_similar :
  sealed traits modules reexports "tensors::operations" "Similar" "private" "Sealed" = true.
Proof. vm_compute; reflexivity. Qed.

(* the seal also covers the trait's own parameter: `trait Similar<Rhs>: private::Sealed<Rhs>`, so a
   client cannot write `impl Similar<Mine> for Tensor<..>` either (finding F14) *)
Lemma seal_covers_rhs :
  seal_covers_params traits "tensors::operations" "Similar" "private" "Sealed" = true.
Proof. vm_compute; reflexivity. Qed.

(* ... and the sealing trait itself is implemented for a closed set of crate types only: no impl of
   private::Sealed has a bare type parameter as Self or as Rhs (seeded change C20-t1: one impl
   generic over Rhs bounded by `TensorView<..>: PartialEq<Rhs>`, which a downstream
   `impl PartialEq<Local> for TensorView<..>` opens) *)
Lemma seal_impls_closed_ok :
  seal_impls_closed sealed_impls "tensors::operations" "private" "Sealed" = true.
Proof. vm_compute; reflexivity. Qed.

Lemma markers_unsafe : forallb (is_unsafe_trait traits) unsafe_markers = true.
Proof. vm_compute; reflexivity. Qed.

(* the fuel bound is not what decides: doubling it changes no verdict (symbolic environment) *)
Lemma fuel_stable : forall asm tr,
  Forall (fun e => holds_in (FUEL + FUEL) decls asm [] tr (G (ename e)) = holds decls asm tr (G (ename e)))
         expectations.
Proof.
  intros asm tr. unfold expectations, tape_holders, data_types, iterator_types. cbn [app].
  destruct tr; repeat (apply Forall_cons; [vm_compute; reflexivity|]); apply Forall_nil.
Qed.

(* ---------------------------------------------------------------- by-value view adaptors
   The view adaptors and wrappers do not have a lifetime parameter of their own: they store their
   source S by value, and the borrow of `t.range(..)`, `t.view()`, `MatrixRefTensor::from(&t)` ...
   sits in the type ARGUMENT (S = &'a Tensor / &'a mut Tensor).  (type, field, index of S). *)
Definition source_table : list (str * str * nat) := [
  ("tensors::views::TensorView", "source", 1);
  ("matrices::views::MatrixView", "source", 1);
  ("tensors::indexing::TensorAccess", "source", 1);
  ("tensors::views::indexes::TensorIndex", "source", 1);
  ("tensors::views::indexes::TensorExpansion", "source", 1);
  ("tensors::views::ranges::TensorRange", "source", 1);
  ("tensors::views::ranges::TensorMask", "source", 1);
  ("tensors::views::renamed::TensorRename", "source", 1);
  ("tensors::views::reverse::TensorReverse", "source", 1);
  ("tensors::views::zip::TensorStack", "sources", 1);
  ("tensors::views::zip::TensorChain", "sources", 1);
  ("tensors::views::map::TensorMap", "source", 2);
  ("matrices::views::ranges::MatrixRange", "source", 1);
  ("matrices::views::reverse::MatrixReverse", "source", 1);
  ("matrices::views::map::MatrixMap", "source", 2);
  ("interop::TensorRefMatrix", "source", 1);
  ("interop::MatrixRefTensor", "source", 1);
  ("matrices::iterators::WithIndex", "iterator", 0);
  ("tensors::indexing::TensorOwnedIterator", "source", 1);
  ("matrices::iterators::ColumnMajorOwnedIterator", "matrix", 1);
  ("matrices::iterators::RowMajorOwnedIterator", "matrix", 1);
  ("differentiation::container_record::RecordContainer", "numbers", 1);
  ("differentiation::container_record::iterators::AsRecords", "numbers", 0) ].

Lemma adaptors_store_source :
  forallb (fun e => let '(n, fld, k) := e in stores_param decls n fld k) source_table = true.
Proof. vm_compute; reflexivity. Qed.

(* ... hence, instantiated at a borrowed source the value stores a reference, at an owned source it
   does not (all other parameters := f64).  TensorTranspose keeps its source inside a TensorAccess. *)
Definition instance_at (n : str) (k : nat) (src : ty) : ty :=
  match lookup decls n with
  | Some d => TApp n (map (fun _ => LAnon) (seq 0 (dlts d)))
                   (map (fun i => if Nat.eqb i k then src else TPrim "f64") (seq 0 (dtys d)))
  | None => TOpaque n
  end.
Definition tensor_f64 : ty := TApp "tensors::Tensor" [] [TPrim "f64"].
Definition own_lifetimes (n : str) : nat := match lookup decls n with Some d => dlts d | None => 0 end.
(* (RecordContainer and AsRecords have a lifetime parameter of their own -- the tape's -- and are
   covered by lifetime_types_store_ref below) *)
Definition borrowing_adaptors : list (str * nat) :=
  filter (fun e => Nat.eqb (own_lifetimes (fst e)) 0)
         (map (fun e => let '(n, _, k) := e in (n, k)) source_table) ++ [("tensors::indexing::TensorTranspose", 1)].

Lemma adaptors_carry_argument_borrow :
  List.length borrowing_adaptors = 22 /\
  forallb (fun e => stores_ref decls (instance_at (fst e) (snd e) (TRef LAnon false tensor_f64)) &&
                    stores_ref decls (instance_at (fst e) (snd e) (TRef LAnon true tensor_f64)) &&
                    negb (stores_ref decls (instance_at (fst e) (snd e) tensor_f64)))
          borrowing_adaptors = true.
Proof. split; vm_compute; reflexivity. Qed.

(* every type with a lifetime parameter of its own stores a reference whatever its arguments are
   (iterators, records, record containers, partitions), every type without one stores none when its
   arguments are plain data *)
Lemma lifetime_types_store_ref :
  forallb (fun d => Bool.eqb (stores_ref decls (TApp (dname d) (map (fun _ => LAnon) (seq 0 (dlts d)))
                                                     (map (fun _ => TPrim "f64") (seq 0 (dtys d)))))
                             (Nat.ltb 0 (dlts d))) decls = true.
Proof. vm_compute; reflexivity. Qed.

(* ---------------------------------------------------------------- every use of the sealing pattern
   (not only Similar): each trait of the crate that names a supertrait in a private inline module is
   sealed in the full sense -- module private and not re-exported, the supertrait carries every type
   parameter of the sealed trait, and the sealing trait's impls are for a closed set of crate types *)
Definition seal_ok (u : str * str * str * str) : bool :=
  let '(p, t, m, s) := u in
  sealed traits modules reexports p t m s && seal_covers_params traits p t m s &&
  seal_impls_closed sealed_impls p m s.
Definition seal_use_eqb (a b : str * str * str * str) : bool :=
  let '(p, t, m, s) := a in let '(p', t', m', s') := b in
  str_eqb p p' && str_eqb t t' && str_eqb m m' && str_eqb s s'.

Lemma all_seals_closed :
  forallb seal_ok seal_uses = true /\
  existsb (seal_use_eqb ("tensors::operations", "Similar", "private", "Sealed")) seal_uses = true.
Proof. split; vm_compute; reflexivity. Qed.

(* ---------------------------------------------------------------- concrete instantiations
   The statements above are parametric in the environment `asm`.  Here the same table is checked
   on CONCRETE argument types: every entry, instantiated with the pairs (X, X), (X, f64), (f64, X) of representative
   element / source types X (first component for the even, second for the odd parameters), evaluated with NO assumptions,
   gives exactly what the table says when `asm tr n` is read as "the n-th argument implements tr". *)
Definition f64 : ty := TPrim "f64".
Definition representatives : list ty := [
  f64;                                             (* Send + Sync *)
  TCell f64;                                       (* Send, not Sync *)
  TRc f64;                                         (* neither *)
  TRef LStatic false f64;                          (* &f64 *)
  TRef LStatic false (TCell f64);                  (* &Cell<f64>: not Send (Cell is not Sync), not Sync *)
  TRef LStatic true (TCell f64);                   (* &mut Cell<f64>: Send, not Sync *)
  TApp "tensors::Tensor" [] [TCell f64];
  TApp WL [] [f64];                                (* a tape as element: Send, not Sync *)
  TApp REC [LStatic] [f64];                        (* a record as element: neither *)
  TDyn true false;                                 (* dyn Trait + Send *)
  TTuple [f64; TArc (TMutex (TCell f64))] ].       (* Arc<Mutex<Cell>>: Send + Sync *)

Definition no_asm : trait -> nat -> bool := fun _ _ => false.

Definition args_of (x y : ty) (k : nat) : list ty :=
  map (fun i => if Nat.even i then x else y) (seq 0 k).

Definition instance_ok (e : expectation) (x y : ty) : bool :=
  match lookup decls (ename e) with
  | None => false
  | Some d =>
      let args := args_of x y (dtys d) in
      let t := TApp (ename e) (map (fun _ => LStatic) (seq 0 (dlts d))) args in
      let env := fun tr n => holds decls no_asm tr (nth n args (TOpaque "none")) in
      Bool.eqb (holds decls no_asm Send t) (meets env (esend e)) &&
      Bool.eqb (holds decls no_asm Sync t) (meets env (esync e))
  end.

(* (X, X) for every representative, and X against f64 in both positions *)
Definition representative_pairs : list (ty * ty) :=
  map (fun x => (x, x)) representatives ++ map (fun x => (x, f64)) (tl representatives)
  ++ map (fun x => (f64, x)) (tl representatives).

Lemma concrete_instantiations :
  forallb (fun e => forallb (fun p => instance_ok e (fst p) (snd p)) representative_pairs) expectations = true.
Proof. vm_compute. reflexivity. Qed.

(* ---------------------------------------------------------------- mutants (the proofs above
   would break): each realistic unsound edit flips the evaluator *)

Definition with_marker (n : str) (tr : trait) (m : marker) (ds : list decl) : list decl :=
  map (fun d => if str_eqb (dname d) n
                then {| dname := dname d; dkind := dkind d; dpub := dpub d; dlts := dlts d; dtys := dtys d;
                        dconsts := dconsts d; dfields := dfields d;
                        dsend := match tr with Send => m | Sync => dsend d end;
                        dsync := match tr with Sync => m | Send => dsync d end |}
                else d) ds.

Definition with_fields (n : str) (fs : list (str * ty)) (ds : list decl) : list decl :=
  map (fun d => if str_eqb (dname d) n
                then {| dname := dname d; dkind := dkind d; dpub := dpub d; dlts := dlts d; dtys := dtys d;
                        dconsts := dconsts d; dfields := fs; dsend := dsend d; dsync := dsync d |}
                else d) ds.

Definition all_true : trait -> nat -> bool := fun _ _ => true.

(* `unsafe impl<T> Sync for WengertList<T> {}` : the tape becomes Sync and records Send + Sync *)
Lemma mutant_unsafe_sync :
  let ds := with_marker WL Sync (Explicit []) decls in
  holds ds all_true Sync (G WL) = true /\ holds ds all_true Send (G REC) = true.
Proof. split; vm_compute; reflexivity. Qed.

(* deleting the RefCell (operations: Vec<Operation<T>>) : same effect *)
Lemma mutant_no_refcell :
  let ds := with_fields WL [("operations", TVec (TApp "differentiation::Operation" [] [TParam 0]))] decls in
  holds ds all_true Sync (G WL) = true /\ holds ds all_true Sync (G REC) = true.
Proof. split; vm_compute; reflexivity. Qed.

(* Record storing `*const WengertList<T>` : still not Send, but no longer carries the borrow and is
   no longer `clean` *)
Lemma mutant_raw_pointer :
  let ds := with_fields REC [("number", TParam 0); ("history", TRaw false (tapeof 0)); ("index", TPrim "usize")] decls in
  carries ds REC "history" = None /\ forallb (decl_ok ds) ds = false.
Proof. split; vm_compute; reflexivity. Qed.

(* a lazily initialised `layout: OnceCell<DataLayout>` cache in interop::MatrixRefTensor (seeded change
   C20-u2): still Send, no longer Sync although element and source are -- and every MatrixView over it
   with it *)
Definition MRT := "interop::MatrixRefTensor".
Lemma mutant_once_cell_cache :
  let ds := with_fields MRT [("source", TParam 1); ("layout", TCell (TApp "matrices::views::DataLayout" [] []));
                             ("_type", TPhantom (TParam 0))] decls in
  holds ds all_true Send (G MRT) = true /\ holds ds all_true Sync (G MRT) = false /\
  holds ds all_true Sync (TApp "matrices::views::MatrixView" [] [TPrim "f64"; TApp MRT [] [TPrim "f64"; tensor_f64]]) = false /\
  holds decls all_true Sync (TApp "matrices::views::MatrixView" [] [TPrim "f64"; TApp MRT [] [TPrim "f64"; tensor_f64]]) = true /\
  (* with OnceLock instead, the cache would be fine *)
  (let ds' := with_fields MRT [("source", TParam 1); ("layout", TRwLock (TApp "matrices::views::DataLayout" [] []));
                               ("_type", TPhantom (TParam 0))] decls in
   holds ds' all_true Sync (G MRT) = true).
Proof. repeat split; vm_compute; reflexivity. Qed.
