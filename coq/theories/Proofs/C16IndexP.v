(* C16, index of the fallible API families that other properties' models decide.  Those models
   are total Gallina functions into `option` (no Panic constructor): that the code does not
   panic there is carried by the correspondences of C02 / C07 / C08; what is re-exported here is
   the exact characterisation of the failure value. *)
From Coq Require Import List ZArith NArith Bool Arith Lia.
From EasyML Require Import Base.Sx Model.Shape Model.Views Model.Num Model.LinAlg Model.Decomp
     Proofs.ShapeP Proofs.C02P Proofs.C02Q Proofs.C07P1 Proofs.C08P3.
Import ListNotations.

(* checked element access with EVERY constructible view adaptor / composition as the receiver
   (range, mask, index, expansion, rename, reverse, access, transpose, stack, chain, wrappers,
   matrix-backed; any depth): absent exactly outside the reported shape *)
Theorem every_adaptor_checked_get v c idx : v_ctor v = Ok c -> usize_view c ->
  length idx = length (c_shape c) ->
  (c_get c idx = None <-> ~ in_range idx (lens_of (c_shape c))).
Proof.
  intros H U L. pose proof (view_present_iff v c idx H U L) as P.
  destruct (c_get c idx) as [e|].
  - split; [discriminate|]. intros Hn. exfalso. apply Hn. apply P. discriminate.
  - split; [|reflexivity]. intros _ Hin. apply P in Hin. congruence.
Qed.

Theorem linalg_absent_iff {R} (ops : numops R) (m : list (list R)) :
  ((1 <= mrows m)%nat -> (det_tensor ops m = None <-> mrows m <> mcols m)) /\
  (mrows m <> mcols m -> inverse_tensor ops m = None) /\
  (qr ops m = None <-> (mrows m < mcols m)%nat).
Proof.
  split; [apply det_tensor_absent_iff|]. split; [apply inverse_tensor_nonsquare|apply qr_absent_iff].
Qed.
