(* C17 — specification and proofs for Model/Gaussian.v.
   Part 1 (Section Density): the density as written equals the normal density formula, from
   stated facts about sqrt / pow (true of the reals, see C17_pdf_real in Properties/C17.v).
   Part 2 (Section Draws): Box-Muller draws — purely structural facts about the loop, for ANY
   dictionary: length, consumption, value of each sample as a function of its pair.
   Part 3 (Section Multivariate): multivariate draws = mean + L z row by row. *)
From Coq Require Import List Arith Lia Ring Field Bool NArith ZArith ZifyNat.
From EasyML Require Import Base.Sx Model.Num Model.Stats Model.Gaussian Proofs.C14P.
Import ListNotations.

Ltac Zify.zify_post_hook ::= Z.div_mod_to_equations.

(* ================================================================== density *)
Section Density.
Context {R : Type} (ops : numops R).
Hypothesis Fth : is_field ops.
Let Fth' : field_theory (nzero ops) (none_ ops) (nadd ops) (nmul ops) (nsub ops) (nneg ops)
             (ndiv ops) (ninv ops) (@eq R) := Fth.
Add Field Ffield17 : Fth'.

Notation rO := (nzero ops).
Notation rI := (none_ ops).
Notation "x [+] y" := (nadd ops x y) (at level 50, left associativity).
Notation "x [-] y" := (nsub ops x y) (at level 50, left associativity).
Notation "x [*] y" := (nmul ops x y) (at level 40, left associativity).
Notation "x [/] y" := (ndiv ops x y) (at level 40, left associativity).
Notation rtwo := (two ops).

(* the facts about the Real methods the density needs; nonneg is the domain on which sqrt
   behaves (for the reals: 0 <= x) *)
Variable nonneg : R -> Prop.
Hypothesis sqrt_mul : forall a b, nonneg a -> nonneg b ->
  nsqrt ops (a [*] b) = nsqrt ops a [*] nsqrt ops b.
Hypothesis sqrt_sqr : forall a, nonneg a -> nsqrt ops a [*] nsqrt ops a = a.
Hypothesis pow_two : forall y, npow ops y rtwo = y [*] y.

(* the normal density  1 / sqrt(2 pi var) * exp( -(x - mean)^2 / (2 var) ) *)
Definition normal_pdf (mean var x : R) : R :=
  (rI [/] nsqrt ops (rtwo [*] npi ops [*] var))
  [*] nexp ops (nneg ops ((x [-] mean) [*] (x [-] mean)) [/] (rtwo [*] var)).

Theorem probability_is_normal_pdf mean var x :
  nonneg var -> nonneg (rtwo [*] npi ops) -> nsqrt ops var <> rO -> rtwo <> rO ->
  probability ops (mkGaussian mean var) x = normal_pdf mean var x.
Proof.
  intros Hv Hp Hsd Htwo. unfold probability, normal_pdf. cbn [g_mean g_variance].
  rewrite pow_two.
  replace (rtwo [*] npi ops [*] var) with (var [*] (rtwo [*] npi ops)) by ring.
  rewrite (sqrt_mul _ _ Hv Hp). f_equal. f_equal.
  rewrite <- (sqrt_sqr var Hv) at 3. set (sd := nsqrt ops var) in *.
  field. split; assumption.
Qed.

(* Gaussian::approximating: the population mean and variance of the data *)
Theorem approximating_correct (l : list R) :
  (l <> [] -> approximating ops l = Ok (mkGaussian (mean_spec ops l) (var_spec ops l))) /\
  approximating ops [] = Panic.
Proof.
  split; [|reflexivity]. intros Hne. unfold approximating.
  rewrite (mean_correct ops Fth l Hne). cbn [obind].
  now rewrite (variance_correct ops Fth l Hne).
Qed.

End Density.

(* ================================================================== draws *)
Section Draws.
Context {R : Type} (ops : numops R).
Implicit Types src acc l : list R.

(* the two samples made from consecutive source numbers, over the whole list *)
Fixpoint bm_list (g : gaussian) (src : list R) : list R :=
  match src with
  | u :: t =>
      match t with
      | v :: r => fst (box_muller ops g u v) :: snd (box_muller ops g u v) :: bm_list g r
      | [] => []
      end
  | [] => []
  end.

(* the number of source numbers k samples need: 2 * ceil(k / 2) *)
Definition width (k : nat) : nat := 2 * ((k + 1) / 2).

Lemma width_bounds k : k <= width k <= k + 1 /\ width k mod 2 = 0.
Proof. unfold width. lia. Qed.

Lemma draw_loop_eq g max acc src :
  draw_loop ops g max acc src =
  if (N.of_nat (length acc) <? max)%N then
    match src with
    | [] => (None, [])
    | u :: t =>
        match t with
        | [] => (None, [])
        | v :: src' =>
            draw_loop ops g max (acc ++ [fst (box_muller ops g u v); snd (box_muller ops g u v)]) src'
        end
    end
  else (Some acc, src).
Proof. destruct src; reflexivity. Qed.

Lemma draw_loop_spec g k p : forall acc src,
  length acc + 2 * p >= k -> (p > 0 -> length acc + 2 * (p - 1) < k) ->
  draw_loop ops g (N.of_nat k) acc src =
  if 2 * p <=? length src
  then (Some (acc ++ bm_list g (firstn (2 * p) src)), skipn (2 * p) src)
  else (None, []).
Proof.
  induction p as [|p IH]; intros acc src Hge Hlt; rewrite draw_loop_eq.
  - destruct (N.ltb_spec (N.of_nat (length acc)) (N.of_nat k)) as [H|H]; [lia|].
    cbn. now rewrite app_nil_r.
  - destruct (N.ltb_spec (N.of_nat (length acc)) (N.of_nat k)) as [H|H]; [|lia].
    destruct src as [|u [|v src']].
    + reflexivity.
    + destruct (Nat.leb_spec (2 * S p) (length [u])) as [H1|H1]; [simpl in H1; lia|reflexivity].
    + rewrite IH by (rewrite ?app_length; simpl; lia).
      replace (2 * S p) with (S (S (2 * p))) by lia.
      cbn [length firstn skipn bm_list Nat.leb].
      destruct (2 * p <=? length src'); [|reflexivity].
      now rewrite <- app_assoc.
Qed.

Lemma bm_list_length g l : length l mod 2 = 0 -> length (bm_list g l) = length l.
Proof.
  remember (length l) as n eqn:Hn. revert l Hn.
  induction n as [n IH] using lt_wf_ind. intros l Hn Heven.
  destruct l as [|u [|v r]].
  - subst n. reflexivity.
  - subst n. cbn [length] in Heven. lia.
  - cbn [bm_list length] in *. subst n. f_equal. f_equal.
    apply (IH (length r)); [lia | reflexivity | lia].
Qed.

(* draw as one equation *)
Theorem draw_spec g src k :
  draw ops g src (N.of_nat k) =
  if width k <=? length src
  then (Some (firstn k (bm_list g (firstn (width k) src))), skipn (width k) src)
  else (None, []).
Proof.
  unfold draw. pose proof (width_bounds k) as [Hb Hev].
  rewrite (draw_loop_spec g k ((k + 1) / 2)) by (cbn [length]; lia).
  fold (width k). destruct (Nat.leb_spec (width k) (length src)) as [Hle|Hgt]; [|reflexivity].
  cbn [app].
  assert (Hlen : length (bm_list g (firstn (width k) src)) = width k).
  { rewrite bm_list_length; rewrite firstn_length_le by assumption; [reflexivity | assumption]. }
  rewrite Hlen.
  destruct (N.ltb_spec (N.of_nat k) (N.of_nat (width k))) as [H|H].
  - rewrite removelast_firstn_len, Hlen. do 2 f_equal. f_equal. lia.
  - rewrite (firstn_all2 (n:=k) (bm_list g (firstn (width k) src))) by lia. reflexivity.
Qed.

Theorem draw_len g src k l rest : draw ops g src (N.of_nat k) = (Some l, rest) -> length l = k.
Proof.
  rewrite draw_spec. pose proof (width_bounds k) as [Hb Hev].
  destruct (Nat.leb_spec (width k) (length src)) as [Hle|Hgt]; [|discriminate].
  intros E. inversion E; subst. rewrite firstn_length, bm_list_length;
    rewrite firstn_length_le by assumption; [lia | assumption].
Qed.

(* consumption: exactly width k = 2 * ceil(k/2) numbers when they are available, everything
   that was left otherwise; absent exactly when fewer are available; k = 0 takes nothing *)
Theorem draw_consumption g src k :
  (width k <= length src ->
     exists l, draw ops g src (N.of_nat k) = (Some l, skipn (width k) src) /\
               length src - length (skipn (width k) src) = width k) /\
  (length src < width k -> draw ops g src (N.of_nat k) = (None, [])) /\
  (fst (draw ops g src (N.of_nat k)) = None <-> length src < width k) /\
  draw ops g src 0%N = (Some [], src).
Proof.
  rewrite draw_spec. split; [|split; [|split]].
  - intros Hle. destruct (Nat.leb_spec (width k) (length src)) as [_|Hgt]; [|lia].
    eexists; split; [reflexivity|]. rewrite skipn_length. lia.
  - intros Hlt. destruct (Nat.leb_spec (width k) (length src)) as [Hle|_]; [lia|reflexivity].
  - destruct (Nat.leb_spec (width k) (length src)) as [Hle|Hgt]; cbn [fst]; split; intros H;
      try discriminate; try lia; reflexivity.
  - change 0%N with (N.of_nat 0). rewrite draw_spec. reflexivity.
Qed.

Lemma nth_firstn_lt {A} (l : list A) n i d : i < n -> nth i (firstn n l) d = nth i l d.
Proof.
  revert l i; induction n as [|n IH]; intros l i Hi; [lia|].
  destruct l as [|x l]; [now destruct i|]. destruct i as [|i]; [reflexivity|].
  simpl. apply IH. lia.
Qed.

Lemma bm_list_nth g : forall i l d, 2 * i + 1 < length l ->
  nth (2 * i) (bm_list g l) d = fst (box_muller ops g (nth (2 * i) l d) (nth (2 * i + 1) l d)) /\
  nth (2 * i + 1) (bm_list g l) d = snd (box_muller ops g (nth (2 * i) l d) (nth (2 * i + 1) l d)).
Proof.
  induction i as [|i IH]; intros l d Hlen.
  - destruct l as [|u [|v r]]; simpl in Hlen; try lia. simpl. auto.
  - destruct l as [|u [|v r]]; simpl in Hlen; try lia.
    replace (2 * S i) with (S (S (2 * i))) by lia.
    replace (S (S (2 * i)) + 1) with (S (S (2 * i + 1))) by lia.
    cbn [bm_list nth]. apply IH. lia.
Qed.

(* sample 2i / 2i+1 is the cos / sin image of the i-th pair of source numbers *)
Theorem draw_values g src k l rest d : draw ops g src (N.of_nat k) = (Some l, rest) ->
  forall i,
  (2 * i < k -> nth (2 * i) l d =
     fst (box_muller ops g (nth (2 * i) src d) (nth (2 * i + 1) src d))) /\
  (2 * i + 1 < k -> nth (2 * i + 1) l d =
     snd (box_muller ops g (nth (2 * i) src d) (nth (2 * i + 1) src d))).
Proof.
  rewrite draw_spec. pose proof (width_bounds k) as [Hb Hev].
  destruct (Nat.leb_spec (width k) (length src)) as [Hle|Hgt]; [|discriminate].
  intros E i. inversion E; subst. clear E.
  assert (Hpair : 2 * i < k -> 2 * i + 1 < length (firstn (width k) src)).
  { intros Hi. rewrite firstn_length_le by assumption. lia. }
  split; intros Hi; rewrite nth_firstn_lt by lia.
  - destruct (bm_list_nth g i (firstn (width k) src) d (Hpair Hi)) as [-> _].
    rewrite !nth_firstn_lt by lia. reflexivity.
  - destruct (bm_list_nth g i (firstn (width k) src) d (Hpair ltac:(lia))) as [_ ->].
    rewrite !nth_firstn_lt by lia. reflexivity.
Qed.

(* the documented count: k numbers for an even k, k + 1 for an odd k *)
Lemma width_doc k : width k = if Nat.even k then k else k + 1.
Proof.
  unfold width. destruct (Nat.even k) eqn:E.
  - apply Nat.even_spec in E. destruct E as [m ->]. lia.
  - rewrite <- Nat.negb_odd in E. apply negb_false_iff in E. apply Nat.odd_spec in E.
    destruct E as [m ->]. lia.
Qed.

(* present exactly when the documented number of source values is available, absent exactly when
   it is not (both directions, no other outcome) *)
Theorem draw_doc_counts g src k :
  let needed := if Nat.even k then k else k + 1 in
  ((exists l, fst (draw ops g src (N.of_nat k)) = Some l) <-> needed <= length src) /\
  (fst (draw ops g src (N.of_nat k)) = None <-> length src < needed) /\
  (needed <= length src -> length (snd (draw ops g src (N.of_nat k))) = length src - needed) /\
  (length src < needed -> snd (draw ops g src (N.of_nat k)) = []).
Proof.
  cbv zeta. rewrite <- width_doc, draw_spec.
  destruct (Nat.leb_spec (width k) (length src)) as [Hle|Hgt]; cbn [fst snd].
  - split; [split; [intros _; exact Hle | intros _; eauto]|].
    split; [split; [discriminate | lia]|]. split; [intros _; apply skipn_length | lia].
  - split; [split; [intros [l Hl]; discriminate | lia]|].
    split; [split; [intros _; exact Hgt | reflexivity]|]. split; [lia | reflexivity].
Qed.

Lemma nth_skipn_add {A} n : forall (l : list A) i d, nth i (skipn n l) d = nth (n + i) l d.
Proof.
  induction n as [|n IH]; intros l i d; [reflexivity|].
  destruct l as [|x l]; [now destruct i|]. apply IH.
Qed.

End Draws.

(* ================================================================== multivariate draws *)
Section Multivariate.
Context {R : Type} (ops : numops R).
Implicit Types src mean : list R.
Implicit Types L cov : list (list R).

Lemma skipn_skipn {A} (a b : nat) (l : list A) : skipn a (skipn b l) = skipn (b + a) l.
Proof. revert l; induction b as [|b IH]; intros l; [reflexivity|]. destruct l; [now rewrite !skipn_nil|]. apply IH. Qed.

(* the r-th vector of standard normals taken from the source: n samples from the r-th block of
   width n numbers *)
Definition std_row (n : nat) src (r : nat) : list R :=
  firstn n (bm_list ops (standard_normal ops) (firstn (width n) (skipn (r * width n) src))).

(* mean + L z *)
Definition affine mean L (z : list R) : list R := vec_add ops mean (mat_vec ops L z).

Lemma draw_rows_spec mean L : forall k src acc,
  draw_rows ops mean L k src acc =
  if k * width (length mean) <=? length src
  then (Some (acc ++ map (fun r => affine mean L (std_row (length mean) src r)) (seq 0 k)),
        skipn (k * width (length mean)) src)
  else (None, []).
Proof.
  set (n := length mean). set (w := width n).
  induction k as [|k IH]; intros src acc.
  - cbn. now rewrite app_nil_r.
  - cbn [draw_rows]. fold n. rewrite draw_spec. fold w.
    destruct (Nat.leb_spec w (length src)) as [Hle|Hgt].
    + rewrite IH. rewrite skipn_length.
      destruct (Nat.leb_spec (k * w) (length src - w)) as [Hle2|Hgt2];
        destruct (Nat.leb_spec (S k * w) (length src)) as [Hle3|Hgt3]; try lia; [|reflexivity].
      rewrite skipn_skipn. replace (w + k * w) with (S k * w) by lia. f_equal. f_equal.
      rewrite <- app_assoc. f_equal. cbn [app].
      cbn [seq map]. rewrite <- seq_shift, map_map. f_equal.
      apply map_ext. intros r. unfold std_row. fold w. rewrite skipn_skipn.
      now replace (w + r * w) with (S r * w) by lia.
    + destruct (Nat.leb_spec (S k * w) (length src)) as [Hle3|Hgt3]; [lia|reflexivity].
Qed.

(* draw_tensor_samples as one equation *)
Theorem draw_tensor_samples_spec mean cov src k ns nf :
  draw_tensor_samples ops mean cov src (N.of_nat k) ns nf =
  if Nat.eqb ns nf then (None, src) else
  match cholesky ops cov with
  | None => (None, src)
  | Some L =>
      if Nat.eqb k 0 then (None, src)
      else if k * width (length mean) <=? length src
      then (Some ((ns, N.of_nat k), (nf, N.of_nat (length mean)),
                  map (fun r => affine mean L (std_row (length mean) src r)) (seq 0 k)),
            skipn (k * width (length mean)) src)
      else (None, [])
  end.
Proof.
  unfold draw_tensor_samples. destruct (Nat.eqb ns nf); [reflexivity|].
  destruct (cholesky ops cov) as [L|]; [|reflexivity].
  destruct k as [|k]; [reflexivity|].
  replace (N.of_nat (S k) =? 0)%N with false by (symmetry; apply N.eqb_neq; lia).
  rewrite Nnat.Nat2N.id. cbn [Nat.eqb]. rewrite draw_rows_spec.
  destruct (S k * width (length mean) <=? length src); reflexivity.
Qed.

(* Cholesky returns as many rows as the covariance has *)
Lemma chol_rows_length a n : forall is_ rows L,
  chol_rows ops a n is_ rows = Some L -> length L = length rows + length is_.
Proof.
  induction is_ as [|i is_ IH]; intros rows L H; cbn [chol_rows] in H.
  - inversion H. cbn [length]. lia.
  - destruct (chol_row ops a rows i (seq 0 (S i)) []) as [r|]; [|discriminate].
    apply IH in H. rewrite app_length in H. cbn [length] in *. lia.
Qed.

Lemma cholesky_length cov L : cholesky ops cov = Some L -> length L = length cov.
Proof.
  unfold cholesky. destruct (Nat.eqb (length cov) (length (hd [] cov))); [|discriminate].
  intros H. apply chol_rows_length in H. now rewrite seq_length in H.
Qed.

Lemma affine_length mean L z : length L = length mean -> length (affine mean L z) = length mean.
Proof.
  intros H. unfold affine, vec_add, mat_vec. rewrite map_length, combine_length, map_length. lia.
Qed.

(* shape, row-by-row values, consumption, refusal reasons *)
Theorem mv_draw_correct mean cov src k ns nf : length mean = length cov ->
  let n := length mean in
  (* refusals *)
  (ns = nf -> draw_tensor_samples ops mean cov src (N.of_nat k) ns nf = (None, src)) /\
  (cholesky ops cov = None -> draw_tensor_samples ops mean cov src (N.of_nat k) ns nf = (None, src)) /\
  (k = 0 -> draw_tensor_samples ops mean cov src (N.of_nat k) ns nf = (None, src)) /\
  (* otherwise *)
  (forall L, ns <> nf -> cholesky ops cov = Some L -> 0 < k ->
     (length src < k * width n ->
        draw_tensor_samples ops mean cov src (N.of_nat k) ns nf = (None, [])) /\
     (k * width n <= length src ->
        exists rows,
          draw_tensor_samples ops mean cov src (N.of_nat k) ns nf =
            (Some ((ns, N.of_nat k), (nf, N.of_nat n), rows), skipn (k * width n) src) /\
          length rows = k /\
          (forall r, r < k -> nth r rows [] = affine mean L (std_row n src r) /\
                              length (nth r rows []) = n))).
Proof.
  intros Hlen n. rewrite draw_tensor_samples_spec. fold n. split; [|split; [|split]].
  - intros ->. now rewrite Nat.eqb_refl.
  - intros ->. now destruct (Nat.eqb ns nf).
  - intros ->. destruct (Nat.eqb ns nf); [reflexivity|]. now destruct (cholesky ops cov).
  - intros L Hne HL Hk. apply Nat.eqb_neq in Hne. rewrite Hne, HL.
    replace (Nat.eqb k 0) with false by (symmetry; apply Nat.eqb_neq; lia). split.
    + intros Hlt. destruct (Nat.leb_spec (k * width n) (length src)); [lia|reflexivity].
    + intros Hle. destruct (Nat.leb_spec (k * width n) (length src)); [|lia].
      eexists. split; [reflexivity|]. split; [now rewrite map_length, seq_length|].
      intros r Hr. rewrite (nth_map_seq _ k r []) by assumption. split; [reflexivity|].
      apply affine_length. rewrite (cholesky_length cov L HL). now symmetry.
Qed.

(* the matrix variant is the tensor variant (any two distinct names) on the sole column of the
   mean, without the names *)
Theorem mv_matrix_tensor_agree (meanm : list (list R)) cov src k ns nf : ns <> nf ->
  let mean := map (fun row => nth 0 row (nzero ops)) meanm in
  mv_draw ops (meanm, cov) src (N.of_nat k) =
  (option_map snd (fst (mvt_draw ops (mean, cov) src (N.of_nat k) ns nf)),
   snd (mvt_draw ops (mean, cov) src (N.of_nat k) ns nf)).
Proof.
  intros Hne mean. unfold mv_draw, mvt_draw. cbn [fst snd]. fold mean.
  rewrite !draw_tensor_samples_spec. apply Nat.eqb_neq in Hne. rewrite Hne.
  unfold name_samples, name_features. cbn [Nat.eqb].
  destruct (cholesky ops cov) as [L|]; [|reflexivity].
  destruct (Nat.eqb k 0); [reflexivity|].
  destruct (k * width (length mean) <=? length src); reflexivity.
Qed.

(* constructor validation *)
Theorem mv_new_spec (meanm cov : list (list R)) :
  (length (hd [] meanm) = 1 /\ length cov = length (hd [] cov) /\ length meanm = length cov ->
     @mv_new R meanm cov = Ok (meanm, cov)) /\
  (~ (length (hd [] meanm) = 1 /\ length cov = length (hd [] cov) /\ length meanm = length cov) ->
     @mv_new R meanm cov = Panic).
Proof.
  unfold mv_new. split.
  - intros (H1 & H2 & H3). rewrite H1, <- H2, H3, !Nat.eqb_refl. reflexivity.
  - intros H.
    destruct (Nat.eqb_spec (length (hd [] meanm)) 1) as [E1|]; [|reflexivity].
    destruct (Nat.eqb_spec (length cov) (length (hd [] cov))) as [E2|]; [|reflexivity].
    destruct (Nat.eqb_spec (length meanm) (length cov)) as [E3|]; [|reflexivity].
    exfalso. apply H. auto.
Qed.

Theorem mvt_new_spec mean cov :
  (length cov <> length (hd [] cov) -> @mvt_new R mean cov = Err (SZ 0)) /\
  (length cov = length (hd [] cov) -> length mean <> length cov -> @mvt_new R mean cov = Err (SZ 1)) /\
  (length cov = length (hd [] cov) -> length mean = length cov -> @mvt_new R mean cov = Ok (mean, cov)).
Proof.
  unfold mvt_new. split; [|split].
  - intros H. apply Nat.eqb_neq in H. now rewrite H.
  - intros H1 H2. apply Nat.eqb_eq in H1. rewrite H1. cbn [negb].
    apply Nat.eqb_neq in H2. now rewrite H2.
  - intros H1 H2. apply Nat.eqb_eq in H1. rewrite H1. cbn [negb].
    apply Nat.eqb_eq in H2. now rewrite H2.
Qed.

(* the standard normals of sample row r, in terms of the source: entries 2i / 2i+1 are the
   Box-Muller images (mean 0, variance 1) of the numbers at positions r*w + 2i, r*w + 2i + 1,
   w = 2 * ceil(n / 2): every row starts a fresh pair *)
Theorem std_row_values n src r d : (r + 1) * width n <= length src ->
  length (std_row n src r) = n /\
  forall i,
  (2 * i < n -> nth (2 * i) (std_row n src r) d =
     fst (box_muller ops (standard_normal ops) (nth (r * width n + 2 * i) src d)
                                                (nth (r * width n + 2 * i + 1) src d))) /\
  (2 * i + 1 < n -> nth (2 * i + 1) (std_row n src r) d =
     snd (box_muller ops (standard_normal ops) (nth (r * width n + 2 * i) src d)
                                                (nth (r * width n + 2 * i + 1) src d))).
Proof.
  intros Hlen. set (w := width n) in *. set (src' := skipn (r * w) src).
  assert (Hw : w <= length src') by (unfold src'; rewrite skipn_length; lia).
  assert (E : draw ops (standard_normal ops) src' (N.of_nat n) = (Some (std_row n src r), skipn w src')).
  { rewrite draw_spec. fold w. destruct (Nat.leb_spec w (length src')); [reflexivity | lia]. }
  split; [exact (draw_len ops _ _ _ _ _ E)|].
  intros i. destruct (draw_values ops _ _ _ _ _ d E i) as [H1 H2].
  unfold src' in H1, H2. rewrite !nth_skipn_add in H1, H2.
  replace (r * w + (2 * i + 1)) with (r * w + 2 * i + 1) in H1, H2 by lia. auto.
Qed.

End Multivariate.

(* ================================================================== mean + L z, entry by entry *)
Section AffineEntry.
Context {R : Type} (ops : numops R).
Hypothesis Fth : is_field ops.
Let Fth' : field_theory (nzero ops) (none_ ops) (nadd ops) (nmul ops) (nsub ops) (nneg ops)
             (ndiv ops) (ninv ops) (@eq R) := Fth.
Add Field Ffield17a : Fth'.

(* the textbook inner product  sum_j x_j y_j *)
Definition inner (xs ys : list R) : R :=
  sumR ops (map (fun xy => nmul ops (fst xy) (snd xy)) (combine xs ys)).

Lemma scalar_product_inner xs ys : scalar_product ops xs ys = inner xs ys.
Proof.
  unfold scalar_product, inner.
  destruct (map (fun xy => nmul ops (fst xy) (snd xy)) (combine xs ys)) as [|p ps]; [reflexivity|].
  rewrite (fold_left_add ops Fth). cbn [sumR fold_right]. reflexivity.
Qed.

Lemma nth_map_combine {A B C} (f : A * B -> C) : forall (xs : list A) (ys : list B) i dx dy dc,
  i < length xs -> i < length ys ->
  nth i (map f (combine xs ys)) dc = f (nth i xs dx, nth i ys dy).
Proof.
  induction xs as [|x xs IH]; intros ys i dx dy dc Hx Hy; [simpl in Hx; lia|].
  destruct ys as [|y ys]; [simpl in Hy; lia|]. destruct i as [|i]; [reflexivity|].
  cbn [combine map nth]. apply IH; simpl in *; lia.
Qed.

(* entry i of mean + L z is mean_i + sum_j L_ij z_j *)
Theorem affine_entry (mean : list R) (L : list (list R)) (z : list R) i :
  i < length mean -> i < length L ->
  nth i (affine ops mean L z) (nzero ops) =
  nadd ops (nth i mean (nzero ops)) (inner (nth i L []) z).
Proof.
  intros Hm HL. unfold affine, vec_add, mat_vec.
  rewrite (nth_map_combine _ mean _ i (nzero ops) (nzero ops)) by (rewrite ?map_length; assumption).
  cbn [fst snd]. f_equal.
  rewrite (nth_indep _ (nzero ops) (scalar_product ops [] z)) by now rewrite map_length.
  rewrite (map_nth (fun row => scalar_product ops row z)). apply scalar_product_inner.
Qed.

End AffineEntry.
