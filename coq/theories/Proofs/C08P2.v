(* C08: the ordered-field-with-sqrt hypotheses of Proofs/C08P1.v are satisfiable — the dictionary
   of Coq's real numbers (Rle_dec, sqrt) meets every one of them.  (stdlib style) *)
From Coq Require Import List Arith Lia Bool Reals Lra ZArith.
From EasyML Require Import Base.Sx Model.Num Model.LinAlg Model.Decomp.
Import ListNotations.
Open Scope R_scope.

Definition Rops : numops R :=
  mkNumops R 0 1 Rplus Rminus Rmult Rdiv Ropp
    (fun x y => if Req_EM_T x y then true else false)
    (fun x y => if Rlt_dec x y then true else false)
    (fun x y => if Rle_dec x y then true else false)
    sqrt exp ln sin cos Rpower PI (fun n => Some (INR (N.to_nat n)))
    (fun _ => SZ 0%Z) (fun _ => None).

Lemma Rops_ring : ring_theory (nzero Rops) (none_ Rops) (nadd Rops) (nmul Rops) (nsub Rops) (nneg Rops) (@eq R).
Proof. exact RTheory. Qed.

Lemma Rops_leb_false x y : nleb Rops x y = false <-> y < x.
Proof. cbn. destruct (Rle_dec x y); split; intros; try discriminate; lra. Qed.

Lemma Rops_ltb x y : nltb Rops x y = true <-> x < y.
Proof. cbn. destruct (Rlt_dec x y); split; intros; try discriminate; auto; lra. Qed.

Lemma Rops_div_mul x : x <> 0 -> nmul Rops (ndiv Rops (none_ Rops) x) x = none_ Rops.
Proof. intros H. cbn. field. exact H. Qed.

Lemma Rops_div x y : ndiv Rops x y = nmul Rops x (ndiv Rops (none_ Rops) y).
Proof. cbn. unfold Rdiv. ring. Qed.

Lemma Rops_eqb x y : neqb Rops x y = true <-> x = y.
Proof. cbn. destruct (Req_EM_T x y); split; intros; try discriminate; auto; contradiction. Qed.

Lemma Rops_sqrt_sqrt x : 0 < x -> nmul Rops (nsqrt Rops x) (nsqrt Rops x) = x.
Proof. intros H. cbn. apply sqrt_sqrt. lra. Qed.

Lemma Rops_sqrt_pos x : 0 < x -> 0 < nsqrt Rops x.
Proof. intros H. cbn. apply sqrt_lt_R0. exact H. Qed.

Definition ex_1x1 : list (list R) := [[4]].
Lemma Rops_run_1x1 : cholesky Rops ex_1x1 = Some [[sqrt (4 - 0)]].
Proof.
  unfold ex_1x1, cholesky, is_square, mrows, mcols. cbn [length hd Nat.eqb negb chol_rows chol_row app].
  cbn. destruct (Rle_dec (4 - 0) 0); [lra|]. reflexivity.
Qed.
