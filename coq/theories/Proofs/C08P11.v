(* C08, LDL^T (stdlib style): the routine is absent EXACTLY when the input is not square or a zero
   pivot is met — both directions (Proofs/C08P1.v only had: not square / zero FIRST pivot / no
   factors exist -> absent).
   `ldlt_zero_pivot_at ops a j`: the run over the first j columns succeeds with partial factors
   (cols, ds) — j columns of L and the pivots d_0 .. d_{j-1}, which satisfy the LDL^T recurrences
   `cols_ok` of C08P1.v: every d_k <> 0, d_k = a_kk - sum_{m<k} l_km^2 d_m,
   l_ik = (a_ik - sum_{m<k} l_im l_km d_m) * (1 / d_k) below the diagonal, 1 on it, 0 above —
   and the NEXT pivot a_jj - sum_{k<j} l_jk^2 d_k is zero.
   Only hypothesis: the dictionary's `==` decides equality. *)
From Coq Require Import List Arith Lia Bool ZArith.
From EasyML Require Import Base.Sx Model.Num Model.LinAlg Model.Decomp Proofs.C07P1 Proofs.C08P1.
Import ListNotations.

Section ZeroPivot.
Context {R : Type} (ops : numops R).
Hypothesis eqb_spec : forall x y, neqb ops x y = true <-> x = y.

(* the value the routine tests `== 0` at column j = length cols *)
Definition ldlt_pivot (a : mat) (cols : list (list R)) (ds : list R) : R :=
  nsub ops (mget ops a (length cols) (length cols))
           (ldl_sum ops cols ds (length cols) (length cols) (length cols)).

Definition ldlt_zero_pivot_at (a : mat) (j : nat) : Prop :=
  exists cols ds, ldlt_cols ops a (mrows a) [] [] j = Some (cols, ds) /\ length cols = j /\
    cols_ok ops a (mrows a) cols ds /\ ldlt_pivot a cols ds = nzero ops.

Lemma ldlt_cols_split a n : forall f1 f2 cols ds,
  ldlt_cols ops a n cols ds (f1 + f2) =
  match ldlt_cols ops a n cols ds f1 with
  | Some (c, d) => ldlt_cols ops a n c d f2
  | None => None
  end.
Proof.
  induction f1 as [|f1 IH]; intros f2 cols ds; cbn [Nat.add ldlt_cols]; [reflexivity|].
  destruct (neqb ops _ (nzero ops)); [reflexivity|]. apply IH.
Qed.

Lemma ldlt_cols_step_none a n cols ds f :
  ldlt_pivot a cols ds = nzero ops -> ldlt_cols ops a n cols ds (S f) = None.
Proof.
  intros H. cbn [ldlt_cols]. unfold ldlt_pivot in H. rewrite H.
  rewrite (proj2 (eqb_spec _ _) eq_refl). reflexivity.
Qed.

Lemma ldlt_cols_step_some a n cols ds :
  ldlt_pivot a cols ds <> nzero ops -> exists c d, ldlt_cols ops a n cols ds 1 = Some (c, d).
Proof.
  intros H. cbn [ldlt_cols]. unfold ldlt_pivot in H.
  destruct (neqb ops _ (nzero ops)) eqn:E.
  - apply eqb_spec in E. contradiction.
  - eexists. eexists. reflexivity.
Qed.

Lemma cols_ok_nil a n : cols_ok ops a n [] [].
Proof. split; [reflexivity|]. intros j Hj. simpl in Hj. lia. Qed.

Lemma ldlt_cols_none_iff a : forall fuel,
  ldlt_cols ops a (mrows a) [] [] fuel = None <->
  exists j, j < fuel /\ ldlt_zero_pivot_at a j.
Proof.
  induction fuel as [|f IH].
  - cbn [ldlt_cols]. split; [discriminate|]. intros (j & Hj & _). lia.
  - replace (S f) with (f + 1) by lia. rewrite ldlt_cols_split.
    destruct (ldlt_cols ops a (mrows a) [] [] f) as [[c d]|] eqn:Hrun.
    + pose proof (ldlt_cols_sound ops eqb_spec a (mrows a) f [] [] c d (cols_ok_nil a _) Hrun)
        as [Hok Hlen]. simpl in Hlen.
      split.
      * intros Hnone. exists f. split; [lia|]. exists c, d.
        split; [exact Hrun|]. split; [exact Hlen|]. split; [exact Hok|].
        destruct (neqb ops (ldlt_pivot a c d) (nzero ops)) eqn:E.
        { apply eqb_spec. exact E. }
        exfalso. cbn [ldlt_cols] in Hnone. unfold ldlt_pivot in E. rewrite E in Hnone. discriminate.
      * intros (j & Hj & cols & ds & Hj_run & Hj_len & _ & Hz).
        destruct (Nat.eq_dec j f) as [->|Hne].
        { rewrite Hrun in Hj_run. injection Hj_run as <- <-. apply ldlt_cols_step_none. exact Hz. }
        exfalso. replace f with (j + S (f - j - 1)) in Hrun by lia.
        rewrite ldlt_cols_split, Hj_run in Hrun.
        rewrite (ldlt_cols_step_none a (mrows a) cols ds _ Hz) in Hrun. discriminate.
    + split; [|reflexivity]. intros _. destruct (proj1 IH eq_refl) as (j & Hj & Hz).
      exists j. split; [lia|exact Hz].
Qed.

(* absent <-> not square, or a zero pivot is met at some column j < n *)
Theorem ldlt_absent_iff_zero_pivot (a : mat) :
  ldlt ops a = None <->
  (mrows a <> mcols a \/ exists j, j < mrows a /\ ldlt_zero_pivot_at a j).
Proof.
  unfold ldlt, is_square. destruct (Nat.eqb_spec (mrows a) (mcols a)) as [Hsq|Hns]; cbn [negb].
  - destruct (ldlt_cols ops a (mrows a) [] [] (mrows a)) as [[cols ds]|] eqn:Hrun.
    + split; [discriminate|]. intros [Hns|Hz]; [contradiction|].
      apply ldlt_cols_none_iff in Hz. rewrite Hrun in Hz. discriminate.
    + split; [|reflexivity]. intros _. right. apply ldlt_cols_none_iff. exact Hrun.
  - split; [|reflexivity]. intros _. left. exact Hns.
Qed.

(* present <-> square and no zero pivot at any column *)
Theorem ldlt_present_iff_no_zero_pivot (a : mat) :
  (exists l d, ldlt ops a = Some (l, d)) <->
  (mrows a = mcols a /\ forall j, j < mrows a -> ~ ldlt_zero_pivot_at a j).
Proof.
  split.
  - intros (l & d & Hs). split.
    + destruct (Nat.eq_dec (mrows a) (mcols a)) as [E|Hne]; [exact E|].
      assert (Hn : ldlt ops a = None) by (apply ldlt_absent_iff_zero_pivot; left; exact Hne).
      rewrite Hn in Hs. discriminate.
    + intros j Hj Hz.
      assert (Hn : ldlt ops a = None)
        by (apply ldlt_absent_iff_zero_pivot; right; exists j; split; assumption).
      rewrite Hn in Hs. discriminate.
  - intros [Hsq Hno]. destruct (ldlt ops a) as [[l d]|] eqn:E; [exists l, d; reflexivity|].
    exfalso. apply ldlt_absent_iff_zero_pivot in E. destruct E as [Hns|(j & Hj & Hz)].
    + contradiction.
    + exact (Hno j Hj Hz).
Qed.
End ZeroPivot.

(* non-vacuity: the prime field dictionary Fpops satisfies the hypothesis (its == is Z.eqb), and
   [[1,1],[1,1]] (rank 1) meets its zero pivot at the LAST column, after a successful first
   column — hence is absent by the theorem *)
Lemma Fpops_eqb_spec : forall x y : Z, neqb Fpops x y = true <-> x = y.
Proof. exact Z.eqb_eq. Qed.

Definition zero_pivot_example : mat (R := Z) := [[1; 1]; [1; 1]]%Z.

Example ldlt_zero_pivot_example :
  ldlt_zero_pivot_at Fpops zero_pivot_example 1 /\ ldlt Fpops zero_pivot_example = None.
Proof.
  assert (Hz : ldlt_zero_pivot_at Fpops zero_pivot_example 1).
  { eexists. eexists. split; [vm_compute; reflexivity|]. split; [reflexivity|].
    split; [|vm_compute; reflexivity].
    split; [reflexivity|]. intros j Hj. cbn [length] in Hj. assert (j = 0) by lia. subst j.
    split; [vm_compute; reflexivity|]. split; [vm_compute; discriminate|].
    intros i Hi. cbn [mrows zero_pivot_example length] in Hi.
    destruct i as [|[|i]]; [vm_compute; reflexivity|vm_compute; reflexivity|lia]. }
  split; [exact Hz|].
  apply (ldlt_absent_iff_zero_pivot Fpops Fpops_eqb_spec). right. exists 1. split; [|exact Hz].
  cbn [mrows zero_pivot_example length]. lia.
Qed.
