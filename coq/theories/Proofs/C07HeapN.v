(* C07 — Heap's algorithm as transcribed (Model/Perms.v) enumerates every permutation exactly once
   with the right parity flag, for ALL n (stdlib style).
   Structure:
   1. `heaps` is split into two pure functions: `hfin` (the array after the call) and `hout`
      (the arrays passed to the consumer, in order); `lstart g k i l` is the array at the start of
      iteration i of the loop at level k.
   2. Every state is `reidx a f` = the initial array `a` read through a source map f (position ->
      position of a); `swap` is reidx by a transposition.  The source maps of the loop states are
      `T k i` and of the final state `sig k` (closed forms and their properties: C07HeapA.v).
   3. Induction on k: final state = reidx a (sig k); the k blocks of level k have pairwise
      different entries at position k-1 (T_last_inj), so the emitted arrays are pairwise different.
   4. Parity: every swap is a transposition of two different positions of a duplicate-free array,
      which flips the parity of the inversion count (par_swap); the flag toggles once per emission
      and there is exactly one swap between two emissions.
   5. Counting: k! emissions, all different, all permutations of the input => every permutation. *)
From Coq Require Import List Arith Lia Bool Permutation.
From EasyML Require Import Model.Perms Proofs.C07P1 Proofs.C07HeapA.
Import ListNotations.

(* ------------------------------------------------------------------ reading through a source map *)
Definition reidx (a : list nat) (f : nat -> nat) : list nat :=
  map (fun j => nth (f j) a 0) (seq 0 (length a)).

Lemma swap_reidx a i j : swap a i j = reidx a (tr i j).
Proof.
  unfold swap, reidx, tr. apply map_ext. intros p.
  destruct (p =? i); [reflexivity|]. destruct (p =? j); reflexivity.
Qed.

Lemma length_reidx a f : length (reidx a f) = length a.
Proof. unfold reidx. rewrite map_length, seq_length. reflexivity. Qed.

Lemma nth_reidx a f j : j < length a -> nth j (reidx a f) 0 = nth (f j) a 0.
Proof. intros H. unfold reidx. apply (nth_tabulate (fun j => nth (f j) a 0)). exact H. Qed.

Lemma reidx_ext a f g : (forall j, j < length a -> f j = g j) -> reidx a f = reidx a g.
Proof.
  intros H. unfold reidx. apply map_ext_in. intros j Hj. apply in_seq in Hj. rewrite H by lia. reflexivity.
Qed.

Lemma reidx_id a : reidx a (fun j => j) = a.
Proof.
  apply (nth_ext _ _ 0 0); [apply length_reidx|]. intros j Hj. rewrite length_reidx in Hj.
  apply nth_reidx. exact Hj.
Qed.

Lemma reidx_reidx a f g : (forall j, j < length a -> g j < length a) ->
  reidx (reidx a f) g = reidx a (fun j => f (g j)).
Proof.
  intros Hg. apply (nth_ext _ _ 0 0); [rewrite !length_reidx; reflexivity|].
  intros j Hj. rewrite !length_reidx in Hj. rewrite nth_reidx by (rewrite length_reidx; exact Hj).
  rewrite nth_reidx by (apply Hg; exact Hj). rewrite nth_reidx by exact Hj. reflexivity.
Qed.

(* ------------------------------------------------------------------ heaps = (hfin, hout) *)
Definition hstep (k i : nat) (l1 : list nat) : list nat :=
  if Nat.ltb i (k - 1) then (if Nat.even k then swap l1 i (k - 1) else swap l1 0 (k - 1)) else l1.

Fixpoint lstart (g : list nat -> list nat) (k i : nat) (l : list nat) : list nat :=
  match i with 0 => l | S i' => hstep k i' (g (lstart g k i' l)) end.

Fixpoint hfin (fuel k : nat) (l : list nat) : list nat :=
  match fuel with
  | 0 => l
  | S f => if Nat.eqb k 1 then l else lstart (hfin f (k - 1)) k k l
  end.

Fixpoint hout (fuel k : nat) (l : list nat) : list (list nat) :=
  match fuel with
  | 0 => []
  | S f => if Nat.eqb k 1 then [l]
           else flat_map (fun i => hout f (k - 1) (lstart (hfin f (k - 1)) k i l)) (seq 0 k)
  end.

Lemma fold_seq_inv {St : Type} (body : St -> nat -> St) (P : nat -> St -> Prop) m st0 :
  P 0 st0 -> (forall i st, i < m -> P i st -> P (S i) (body st i)) ->
  P m (fold_left body (seq 0 m) st0).
Proof.
  intros H0 Hstep.
  assert (G : forall m' s st, s + m' = m -> P s st -> P m (fold_left body (seq s m') st)).
  { induction m' as [|m' IH]; intros s st Hs Hp; cbn [seq fold_left].
    - replace m with s by lia. exact Hp.
    - apply IH; [lia|]. apply Hstep; [lia|exact Hp]. }
  apply (G m 0 st0); [reflexivity|exact H0].
Qed.

Lemma heaps_split fuel : forall k l acc ev,
  fst (heaps fuel k (l, (acc, ev))) = hfin fuel k l /\
  map fst (fst (snd (heaps fuel k (l, (acc, ev))))) = map fst acc ++ hout fuel k l.
Proof.
  induction fuel as [|f IH]; intros k l acc ev.
  - cbn. rewrite app_nil_r. split; reflexivity.
  - cbn [heaps hfin hout]. destruct (Nat.eqb k 1).
    + cbn. rewrite map_app. split; reflexivity.
    + apply (fold_seq_inv _ (fun i st =>
        fst st = lstart (hfin f (k - 1)) k i l /\
        map fst (fst (snd st)) = map fst acc ++
          flat_map (fun i' => hout f (k - 1) (lstart (hfin f (k - 1)) k i' l)) (seq 0 i))).
      * cbn. rewrite app_nil_r. split; reflexivity.
      * intros i [l' [acc' ev']] Hi [H1 H2]. cbn [fst snd] in H1, H2.
        destruct (IH (k - 1) l' acc' ev') as [E1 E2]. cbv zeta.
        destruct (heaps f (k - 1) (l', (acc', ev'))) as [l1 [acc1 ev1]]. cbn [fst snd] in E1, E2.
        rewrite seq_S, flat_map_app. cbn [flat_map Nat.add]. rewrite app_nil_r, app_assoc, <- H2, <- H1.
        cbn [lstart]. rewrite <- H1, <- E1. unfold hstep.
        destruct (Nat.ltb i (k - 1)); cbn [fst snd]; split; auto.
Qed.

(* ------------------------------------------------------------------ a swap is a transposition *)
Lemma swap_cons a l i j : swap (a :: l) (S i) (S j) = a :: swap l i j.
Proof.
  unfold swap. cbn [length seq map nth Nat.eqb]. f_equal.
  rewrite <- seq_shift, map_map. apply map_ext. intros p. reflexivity.
Qed.

Lemma map_nth_seq (l : list nat) : map (fun k => nth k l 0) (seq 0 (length l)) = l.
Proof. exact (reidx_id l). Qed.

Lemma set_mid B x y C :
  map (fun k => if k =? length B then x else nth k (B ++ y :: C) 0) (seq 0 (length (B ++ y :: C)))
  = B ++ x :: C.
Proof.
  induction B as [|b B IH].
  - cbn [app length seq map Nat.eqb nth]. f_equal.
    rewrite <- seq_shift, map_map. cbn [Nat.eqb nth]. apply map_nth_seq.
  - cbn [app length seq map Nat.eqb nth]. f_equal.
    rewrite <- seq_shift, map_map. cbn [Nat.eqb nth]. exact IH.
Qed.

Lemma swap_mid A x B y C :
  swap (A ++ x :: B ++ y :: C) (length A) (length A + S (length B)) = A ++ y :: B ++ x :: C.
Proof.
  induction A as [|a A IH].
  - cbn [app length Nat.add]. unfold swap. cbn [length seq map Nat.eqb nth].
    rewrite nth_middle. f_equal.
    rewrite <- seq_shift, map_map. cbn [Nat.eqb nth]. apply set_mid.
  - cbn [app length Nat.add]. rewrite swap_cons, IH. reflexivity.
Qed.

Lemma swap_decomp l i j : i < j -> j < length l ->
  exists A x B y C, l = A ++ x :: B ++ y :: C /\ swap l i j = A ++ y :: B ++ x :: C.
Proof.
  intros Hij Hj.
  set (A := firstn i l). set (x := nth i l 0). set (r := skipn (S i) l).
  assert (E1 : l = A ++ x :: r) by (apply split_at; lia).
  assert (Hr : length r = length l - S i) by (unfold r; apply skipn_length).
  set (B := firstn (j - S i) r). set (y := nth (j - S i) r 0). set (C := skipn (S (j - S i)) r).
  assert (E2 : r = B ++ y :: C) by (apply split_at; lia).
  assert (L1 : length A = i) by (unfold A; rewrite firstn_length; lia).
  assert (L2 : length B = j - S i) by (unfold B; rewrite firstn_length; lia).
  clearbody A x r B y C. subst r. exists A, x, B, y, C. split; [exact E1|].
  subst l. replace i with (length A) by exact L1. replace j with (length A + S (length B)) by lia.
  apply swap_mid.
Qed.

(* ------------------------------------------------------------------ parity of the inversion count *)
Definition cnt (x : nat) (M : list nat) : nat := length (filter (fun z => Nat.ltb z x) M).
Definition gtc (y : nat) (M : list nat) : nat := length (filter (fun b => Nat.ltb y b) M).
Fixpoint cross (A L : list nat) : nat :=
  match A with [] => 0 | a :: A' => cnt a L + cross A' L end.

Lemma cnt_app x B M : cnt x (B ++ M) = cnt x B + cnt x M.
Proof. unfold cnt. rewrite filter_app, app_length. reflexivity. Qed.

Lemma cnt_cons x y M : cnt x (y :: M) = (if Nat.ltb y x then 1 else 0) + cnt x M.
Proof. unfold cnt. cbn [filter]. destruct (Nat.ltb y x); reflexivity. Qed.

Lemma inv_app A L : inversions (A ++ L) = inversions A + cross A L + inversions L.
Proof.
  induction A as [|a A IH]; [reflexivity|]. cbn [app inversions cross].
  fold (cnt a (A ++ L)). fold (cnt a A). rewrite cnt_app, IH. lia.
Qed.

Lemma cnt_perm x L L' : Permutation L L' -> cnt x L = cnt x L'.
Proof.
  unfold cnt. induction 1 as [|z L L' HP IH|z z' L|L L' L'' HP1 IH1 HP2 IH2]; cbn [filter]; auto.
  - destruct (Nat.ltb z x); cbn [length]; auto.
  - destruct (Nat.ltb z x), (Nat.ltb z' x); reflexivity.
  - congruence.
Qed.

Lemma cross_perm A L L' : Permutation L L' -> cross A L = cross A L'.
Proof. intros H. induction A as [|a A IH]; [reflexivity|]. cbn [cross]. rewrite IH, (cnt_perm a L L' H). reflexivity. Qed.

Lemma cross_cons B y C : cross B (y :: C) = gtc y B + cross B C.
Proof.
  induction B as [|b B IH]; [reflexivity|]. cbn [cross]. rewrite IH, cnt_cons. unfold gtc. cbn [filter].
  destruct (Nat.ltb y b); cbn [length]; lia.
Qed.

Lemma cnt_gtc x B : ~ In x B -> cnt x B + gtc x B = length B.
Proof.
  induction B as [|b B IH]; intros Hx; [reflexivity|].
  assert (Hb : b <> x) by (intros ->; apply Hx; left; reflexivity).
  assert (Hx' : ~ In x B) by (intros H; apply Hx; right; exact H).
  specialize (IH Hx'). rewrite cnt_cons. unfold gtc in *. cbn [filter length].
  destruct (Nat.ltb_spec b x), (Nat.ltb_spec x b); cbn [length]; lia.
Qed.

Lemma inv_mid x B y C :
  inversions (x :: B ++ y :: C) =
  cnt x B + (if Nat.ltb y x then 1 else 0) + cnt x C + inversions B + gtc y B + cross B C
  + cnt y C + inversions C.
Proof.
  cbn [inversions]. fold (cnt x (B ++ y :: C)). rewrite cnt_app, cnt_cons, inv_app, cross_cons.
  cbn [inversions]. fold (cnt y C). lia.
Qed.

Definition par (l : list nat) : bool := Nat.even (inversions l).

Lemma even_flip a b s : a + b = 2 * s + 1 -> Nat.even a = negb (Nat.even b).
Proof.
  intros H. assert (E : Nat.even (a + b) = false).
  { rewrite H. replace (2 * s + 1) with (1 + 2 * s) by lia. rewrite Nat.even_add_mul_2. reflexivity. }
  rewrite Nat.even_add in E. destruct (Nat.even a), (Nat.even b); cbn in *; congruence.
Qed.

Lemma NoDup_app_right {X} (l1 l2 : list X) : NoDup (l1 ++ l2) -> NoDup l2.
Proof. induction l1 as [|a l1 IH]; intros H; [exact H|]. inversion H; subst. apply IH. assumption. Qed.

Lemma inv_transpose A x B y C : NoDup (A ++ x :: B ++ y :: C) ->
  par (A ++ y :: B ++ x :: C) = negb (par (A ++ x :: B ++ y :: C)).
Proof.
  intros Hnd. unfold par.
  assert (Hx : ~ In x (B ++ y :: C)).
  { apply NoDup_remove_2 in Hnd. intros H. apply Hnd. apply in_or_app. right. exact H. }
  assert (Hnd2 : NoDup (B ++ y :: C)).
  { apply NoDup_remove_1 in Hnd. apply NoDup_app_right in Hnd. exact Hnd. }
  assert (HxB : ~ In x B) by (intros H; apply Hx; apply in_or_app; left; exact H).
  assert (Hxy : x <> y) by (intros ->; apply Hx; apply in_or_app; right; left; reflexivity).
  assert (HyB : ~ In y B).
  { apply NoDup_remove_2 in Hnd2. intros H. apply Hnd2. apply in_or_app. left. exact H. }
  assert (HP : Permutation (y :: B ++ x :: C) (x :: B ++ y :: C)).
  { transitivity (y :: x :: B ++ C); [constructor; symmetry; apply Permutation_middle|].
    transitivity (x :: y :: B ++ C); [constructor|constructor; apply Permutation_middle]. }
  rewrite !inv_app, (cross_perm A _ _ HP), !inv_mid.
  pose proof (cnt_gtc x B HxB). pose proof (cnt_gtc y B HyB).
  apply (even_flip _ _ (inversions A + cross A (x :: B ++ y :: C) + length B + cnt x C + cnt y C
                        + inversions B + cross B C + inversions C)).
  destruct (Nat.ltb_spec y x), (Nat.ltb_spec x y); lia.
Qed.

Lemma par_swap l i j : NoDup l -> i < j -> j < length l -> par (swap l i j) = negb (par l).
Proof.
  intros Hnd Hij Hj. destruct (swap_decomp l i j Hij Hj) as [A [x [B [y [C [El Es]]]]]].
  rewrite Es, El. apply inv_transpose. rewrite <- El. exact Hnd.
Qed.

Lemma swap_perm l i j : i < j -> j < length l -> Permutation (swap l i j) l.
Proof.
  intros Hij Hj. destruct (swap_decomp l i j Hij Hj) as [A [x [B [y [C [El Es]]]]]].
  rewrite Es, El. apply Permutation_app_head.
  transitivity (y :: x :: B ++ C); [constructor; symmetry; apply Permutation_middle|].
  transitivity (x :: y :: B ++ C); [constructor|constructor; apply Permutation_middle].
Qed.

(* ------------------------------------------------------------------ everything is a permutation *)
Lemma hstep_perm k i l : k <= length l -> Permutation (hstep k i l) l.
Proof.
  intros Hk. unfold hstep. destruct (Nat.ltb_spec i (k - 1)); [|reflexivity].
  destruct (Nat.even k); apply swap_perm; lia.
Qed.

Lemma lstart_perm g k l : (forall l', Permutation l' l -> Permutation (g l') l') -> k <= length l ->
  forall i, Permutation (lstart g k i l) l.
Proof.
  intros Hg Hk. induction i as [|i IH]; cbn [lstart]; [reflexivity|].
  transitivity (g (lstart g k i l)).
  - apply hstep_perm. rewrite (Permutation_length (Hg _ IH)), (Permutation_length IH). exact Hk.
  - transitivity (lstart g k i l); [apply Hg|]; exact IH.
Qed.

Lemma hfin_perm fuel : forall k l, k <= length l -> Permutation (hfin fuel k l) l.
Proof.
  induction fuel as [|f IH]; intros k l Hk; cbn [hfin]; [reflexivity|].
  destruct (Nat.eqb k 1); [reflexivity|]. apply lstart_perm; [|exact Hk].
  intros l' Hl'. apply IH. rewrite (Permutation_length Hl'). lia.
Qed.

Lemma lstart_hfin_perm f k l i : k <= length l -> Permutation (lstart (hfin f (k - 1)) k i l) l.
Proof.
  intros Hk. apply lstart_perm; [|exact Hk]. intros l' Hl'. apply hfin_perm.
  rewrite (Permutation_length Hl'). lia.
Qed.

Lemma hout_perm fuel : forall k l p, k <= length l -> In p (hout fuel k l) -> Permutation p l.
Proof.
  induction fuel as [|f IH]; intros k l p Hk Hp; cbn [hout] in Hp; [destruct Hp|].
  destruct (Nat.eqb k 1).
  - destruct Hp as [<-|[]]. reflexivity.
  - apply in_flat_map in Hp as [i [_ Hp]].
    pose proof (lstart_hfin_perm f k l i Hk) as HL.
    transitivity (lstart (hfin f (k - 1)) k i l); [|exact HL].
    apply (IH (k - 1)); [|exact Hp]. rewrite (Permutation_length HL). lia.
Qed.

(* ------------------------------------------------------------------ the parity flag *)
Lemma heaps_sign fuel : forall k l acc ev c, 1 <= k <= fuel -> k <= length l -> NoDup l ->
  (forall p e, In (p, e) acc -> xorb e (par p) = c) -> xorb ev (par l) = c ->
  (forall p e, In (p, e) (fst (snd (heaps fuel k (l, (acc, ev))))) -> xorb e (par p) = c) /\
  xorb (snd (snd (heaps fuel k (l, (acc, ev))))) (par (fst (heaps fuel k (l, (acc, ev))))) = negb c /\
  Permutation (fst (heaps fuel k (l, (acc, ev)))) l.
Proof.
  induction fuel as [|f IH]; intros k l acc ev c Hk Hlen Hnd Hacc Hev; [lia|].
  cbn [heaps]. destruct (Nat.eqb_spec k 1) as [->|Hk1].
  - cbn [fst snd]. split; [|split; [|reflexivity]].
    + intros p e Hin. apply in_app_or in Hin as [Hin|[Heq|[]]]; [apply Hacc; exact Hin|].
      injection Heq as <- <-. exact Hev.
    + rewrite <- Hev. destruct ev, (par l); reflexivity.
  - set (F := fold_left _ (seq 0 k) _).
    enough (HF : (forall p e, In (p, e) (fst (snd F)) -> xorb e (par p) = c) /\
      xorb (snd (snd F)) (par (fst F)) = (if Nat.eqb k k then negb c else c) /\
      Permutation (fst F) l) by (rewrite Nat.eqb_refl in HF; exact HF).
    subst F.
    apply (fold_seq_inv _ (fun i st =>
      (forall p e, In (p, e) (fst (snd st)) -> xorb e (par p) = c) /\
      xorb (snd (snd st)) (par (fst st)) = (if Nat.eqb i k then negb c else c) /\
      Permutation (fst st) l)).
    + cbn [fst snd]. destruct (Nat.eqb_spec 0 k); [lia|]. split; [exact Hacc|split; [exact Hev|reflexivity]].
    + intros i [l' [acc' ev']] Hi [H1 [H2 H3]]. cbn [fst snd] in H1, H2, H3.
      destruct (Nat.eqb_spec i k); [lia|].
      assert (Hl' : length l' = length l) by (apply Permutation_length; exact H3).
      assert (Hnd' : NoDup l') by (apply (Permutation_NoDup (Permutation_sym H3)); exact Hnd).
      destruct (IH (k - 1) l' acc' ev' c ltac:(lia) ltac:(lia) Hnd' H1 H2) as [G1 [G2 G3]].
      cbv zeta. destruct (heaps f (k - 1) (l', (acc', ev'))) as [l1 [acc1 ev1]].
      cbn [fst snd] in G1, G2, G3.
      assert (Hl1 : length l1 = length l) by (rewrite (Permutation_length G3); exact Hl').
      assert (Hnd1 : NoDup l1) by (apply (Permutation_NoDup (Permutation_sym G3)); exact Hnd').
      destruct (Nat.ltb_spec i (k - 1)) as [Hlt|Hge]; cbn [fst snd].
      * destruct (Nat.eqb_spec (S i) k); [lia|]. split; [exact G1|].
        assert (Hs : forall a b, a < b -> b = k - 1 ->
                  xorb ev1 (par (swap l1 a b)) = c /\ Permutation (swap l1 a b) l).
        { intros a b Hab Hb. split.
          - rewrite par_swap by (auto; lia). rewrite <- (negb_involutive c), <- G2.
            destruct ev1, (par l1); reflexivity.
          - transitivity l1; [apply swap_perm; lia|]. transitivity l'; assumption. }
        destruct (Nat.even k); apply Hs; lia.
      * assert (S i = k) by lia. destruct (Nat.eqb_spec (S i) k); [|lia].
        split; [exact G1|]. split; [exact G2|]. transitivity l'; assumption.
Qed.

(* ------------------------------------------------------------------ counting *)
Lemma flat_map_length_const {A B} (g : A -> list B) c xs :
  (forall x, In x xs -> length (g x) = c) -> length (flat_map g xs) = length xs * c.
Proof.
  induction xs as [|x xs IH]; intros H; [reflexivity|]. cbn [flat_map length].
  rewrite app_length, H by (left; reflexivity). rewrite IH by (intros; apply H; right; assumption).
  lia.
Qed.

Lemma perms_length f : forall cols, length cols = f -> length (perms f cols) = fact f.
Proof.
  induction f as [|f IH]; intros cols Hlen; [reflexivity|]. cbn [perms].
  rewrite (flat_map_length_const _ (fact f)).
  - rewrite seq_length, Hlen. reflexivity.
  - intros j Hj. apply in_seq in Hj. rewrite map_length. apply IH. rewrite length_del; lia.
Qed.

Lemma hout_length fuel : forall k l, 1 <= k <= fuel -> length (hout fuel k l) = fact k.
Proof.
  induction fuel as [|f IH]; intros k l Hk; [lia|]. cbn [hout].
  destruct (Nat.eqb_spec k 1) as [->|Hk1]; [reflexivity|].
  rewrite (flat_map_length_const _ (fact (k - 1))).
  - rewrite seq_length. replace k with (S (k - 1)) at 1 3 by lia. reflexivity.
  - intros i _. apply IH. lia.
Qed.

(* ------------------------------------------------------------------ the induction on k *)
Lemma NoDup_flat_map_seq {B} (g : nat -> list B) k :
  (forall i, i < k -> NoDup (g i)) ->
  (forall i i' p, i < k -> i' < k -> In p (g i) -> In p (g i') -> i = i') ->
  NoDup (flat_map g (seq 0 k)).
Proof.
  intros Hn Hd.
  assert (G : forall js, NoDup js -> (forall j, In j js -> j < k) -> NoDup (flat_map g js)).
  { induction js as [|j js IH]; intros Hjs Hb; [constructor|].
    inversion Hjs as [|? ? Hj Hjs']; subst. cbn [flat_map]. apply NoDup_app_intro.
    - apply Hn. apply Hb. left. reflexivity.
    - apply IH; [exact Hjs'|]. intros; apply Hb; right; assumption.
    - intros p Hp Hp'. apply in_flat_map in Hp' as [j' [Hj' Hp']].
      assert (j = j') by (apply (Hd j j' p); auto; apply Hb; [left|right]; auto).
      subst. contradiction. }
  apply G; [apply seq_NoDup|]. intros j Hj. apply in_seq in Hj. lia.
Qed.

Lemma sig_one j : sig 1 j = j.
Proof. unfold sig, tr. cbn. destruct j; reflexivity. Qed.

Lemma heap_core : forall k, 1 <= k -> forall fuel a, k <= fuel -> NoDup a -> k <= length a ->
  hfin fuel k a = reidx a (sig k) /\
  NoDup (hout fuel k a) /\
  (forall p, In p (hout fuel k a) -> forall j, k <= j -> nth j p 0 = nth j a 0).
Proof.
  intros k Hk. induction Hk as [|k Hk IH]; intros fuel a Hf Hnd Hlen.
  - destruct fuel as [|f]; [lia|]. cbn [hfin hout Nat.eqb]. split; [|split].
    + rewrite (reidx_ext a (sig 1) (fun j => j)) by (intros; apply sig_one). symmetry. apply reidx_id.
    + constructor; [intros []|constructor].
    + intros p [<-|[]] j _. reflexivity.
  - destruct fuel as [|f]; [lia|]. cbn [hfin hout].
    destruct (Nat.eqb_spec (S k) 1); [lia|]. replace (S k - 1) with k by lia.
    set (K := S k) in *.
    (* the loop states *)
    assert (HL : forall i, lstart (hfin f k) K i a = reidx a (T K i)).
    { induction i as [|i IHi]; cbn [lstart T]; [symmetry; apply reidx_id|].
      assert (HP : Permutation (lstart (hfin f k) K i a) a).
      { replace k with (K - 1) by (unfold K; lia). apply lstart_hfin_perm. exact Hlen. }
      assert (Hnd' : NoDup (lstart (hfin f k) K i a)) by (apply (Permutation_NoDup (Permutation_sym HP)); exact Hnd).
      assert (Hlen' : length (lstart (hfin f k) K i a) = length a) by (apply Permutation_length; exact HP).
      destruct (IH f _ ltac:(lia) Hnd' ltac:(unfold K in *; lia)) as [E _].
      rewrite E, IHi. replace (K - 1) with k by (unfold K; lia).
      assert (Hsb : forall j, j < length a -> sig k j < length a).
      { intros j Hj. destruct (sig_bnd k j Hk) as [B1 B2].
        destruct (lt_dec j k); [specialize (B1 ltac:(lia)); unfold K in *; lia|rewrite B2 by lia; exact Hj]. }
      rewrite reidx_reidx by exact Hsb.
      unfold hstep. replace (K - 1) with k by (unfold K; lia).
      destruct (Nat.ltb_spec i k) as [Hik|Hik]; [|reflexivity].
      assert (Hc : forall c, c < K -> swap (reidx a (fun j => T K i (sig k j))) c k =
                                reidx a (fun j => T K i (sig k (tr c k j)))).
      { intros c Hc. rewrite swap_reidx, reidx_reidx; [reflexivity|].
        intros j Hj. destruct (tr_bnd c K j Hc ltac:(unfold K; lia)) as [B1 B2].
        replace (K - 1) with k in * by (unfold K; lia).
        destruct (lt_dec j K); [specialize (B1 ltac:(lia)); lia|rewrite B2 by lia; exact Hj]. }
      destruct (Nat.even K); apply Hc; unfold K; lia. }
    assert (HTb : forall i j, (j < K -> T K i j < K) /\ (K <= j -> T K i j = j))
      by (apply T_bnd; unfold K; lia).
    split; [|split].
    + rewrite HL. apply reidx_ext. intros j _. apply T_final. unfold K; lia.
    + apply NoDup_flat_map_seq.
      * intros i Hi.
        assert (HP : Permutation (lstart (hfin f k) K i a) a).
        { replace k with (K - 1) by (unfold K; lia). apply lstart_hfin_perm. exact Hlen. }
        apply IH; [lia| |rewrite (Permutation_length HP); unfold K in *; lia].
        apply (Permutation_NoDup (Permutation_sym HP)); exact Hnd.
      * intros i i' p Hi Hi' Hp Hp'.
        assert (G : forall i0, i0 < K -> In p (hout f k (lstart (hfin f k) K i0 a)) ->
                     nth k p 0 = nth (T K i0 k) a 0).
        { intros i0 Hi0 Hp0.
          assert (HP : Permutation (lstart (hfin f k) K i0 a) a).
          { replace k with (K - 1) by (unfold K; lia). apply lstart_hfin_perm. exact Hlen. }
          destruct (IH f (lstart (hfin f k) K i0 a) ltac:(lia)
                      (Permutation_NoDup (Permutation_sym HP) Hnd)
                      ltac:(rewrite (Permutation_length HP); unfold K in *; lia)) as [_ [_ Hfix]].
          rewrite (Hfix p Hp0 k (le_n k)), HL. apply nth_reidx. unfold K in *; lia. }
        pose proof (G i Hi Hp) as G1. pose proof (G i' Hi' Hp') as G2. rewrite G1 in G2.
        apply (T_last_inj K i i'); [unfold K; lia|exact Hi|exact Hi'|].
        replace (K - 1) with k by (unfold K; lia).
        apply (proj1 (NoDup_nth a 0) Hnd); [| |exact G2].
        -- destruct (HTb i k) as [B _]. specialize (B ltac:(unfold K; lia)). unfold K in *; lia.
        -- destruct (HTb i' k) as [B _]. specialize (B ltac:(unfold K; lia)). unfold K in *; lia.
    + intros p Hp j Hj. apply in_flat_map in Hp as [i [Hi Hp]]. apply in_seq in Hi.
      assert (HP : Permutation (lstart (hfin f k) K i a) a).
      { replace k with (K - 1) by (unfold K; lia). apply lstart_hfin_perm. exact Hlen. }
      destruct (IH f (lstart (hfin f k) K i a) ltac:(lia)
                  (Permutation_NoDup (Permutation_sym HP) Hnd)
                  ltac:(rewrite (Permutation_length HP); unfold K in *; lia)) as [_ [_ Hfix]].
      rewrite (Hfix p Hp j ltac:(unfold K in *; lia)), HL.
      destruct (lt_dec j (length a)) as [Hja|Hja].
      * rewrite nth_reidx by exact Hja. destruct (HTb i j) as [_ B]. rewrite B by exact Hj. reflexivity.
      * rewrite !nth_overflow; [reflexivity|lia|rewrite length_reidx; lia].
Qed.

(* ------------------------------------------------------------------ the theorem *)
Lemma filter_lt_seq s : forall n b, s < b -> filter (fun y => Nat.ltb y s) (seq b n) = [].
Proof.
  induction n as [|n IH]; intros b Hb; [reflexivity|]. cbn [seq filter].
  destruct (Nat.ltb_spec b s); [lia|]. apply IH. lia.
Qed.

Lemma inversions_seq n : forall s, inversions (seq s n) = 0.
Proof.
  induction n as [|n IH]; intros s; [reflexivity|]. cbn [seq inversions]. rewrite IH.
  rewrite filter_lt_seq by lia. reflexivity.
Qed.

(* Heap's algorithm with the even_swaps toggle, for every n >= 1 *)
Theorem heap_enumerates_all n : 1 <= n -> heap_enumerates n.
Proof.
  intros Hn. unfold heap_enumerates, heap_perms.
  pose proof (heaps_split (S n) n (seq 0 n) [] true) as [_ Hout]. cbn [map app] in Hout.
  assert (Hlen : n <= length (seq 0 n)) by (rewrite seq_length; lia).
  destruct (heap_core n Hn (S n) (seq 0 n) (le_S _ _ (le_n n)) (seq_NoDup n 0) Hlen) as [_ [Hnd _]].
  assert (HPall : forall p, In p (hout (S n) n (seq 0 n)) -> Permutation p (seq 0 n)).
  { intros p Hp. apply (hout_perm (S n) n); [exact Hlen|exact Hp]. }
  assert (HPerm : Permutation (hout (S n) n (seq 0 n)) (perms n (seq 0 n))).
  { apply NoDup_Permutation_bis; [exact Hnd| |].
    - rewrite hout_length by lia. rewrite perms_length by apply seq_length. lia.
    - intros p Hp. apply perms_complete; [apply seq_length|apply HPall; exact Hp]. }
  rewrite Hout. split; [exact Hnd|split].
  - intros p; split; [apply HPall|]. intros Hp.
    apply (Permutation_in _ (Permutation_sym HPerm)). apply perms_complete; [apply seq_length|exact Hp].
  - intros p ev Hin.
    assert (H0 : xorb true (par (seq 0 n)) = false) by (unfold par; rewrite inversions_seq; reflexivity).
    destruct (heaps_sign (S n) n (seq 0 n) [] true false ltac:(lia) Hlen (seq_NoDup n 0)
                ltac:(intros ? ? []) H0) as [Hs _].
    specialize (Hs p ev Hin). unfold par in Hs.
    destruct ev, (Nat.even (inversions p)); cbn in Hs; congruence.
Qed.
