(* C16, view adaptors with machine arithmetic (Model/ViewsM.v): for EVERY composition of adaptors
   whose (ideal) shapes fit usize, view_shape and the checked getter computed with the machine's
   usize operations - dev profile (overflow panics) and release profile (wrapping) alike - never
   panic / wrap and equal the ideal-arithmetic model of C02 (Model/Views.v c_shape / c_get), for
   every index tuple.  And the converse for the one adaptor where the hypothesis is not enforced by
   a constructor: a TensorChain whose chained lengths sum beyond usize::MAX (chain_sum_overflow). *)
From Coq Require Import List ZArith NArith Bool Arith Lia Permutation.
From EasyML Require Import Base.Sx Model.Shape Model.U64 Model.Fallible Model.Views Model.ViewsM
  Proofs.ShapeP Proofs.C01P Proofs.C02Lemmas Proofs.C02P Proofs.C02Spec Proofs.C16P.
Import ListNotations.
Open Scope N_scope.

(* What the arithmetic needs: every view in the composition has an (ideal) shape whose lengths are
   usize values, and every leaf stores at most usize::MAX elements.  For a tensor / matrix leaf the
   validating constructors give it; for every adaptor except the chain it follows from the same
   fact about its sources (Proofs/C16ViewsMP.v fits_of_chain_sums); for a chain it says that the
   SUM of the chained lengths is at most usize::MAX - which TensorChain::from does not check. *)
Definition usz_shape (sh : shape) : Prop := Forall (fun d => snd d <= usize_max) sh.
Fixpoint fits (c : cview) : Prop :=
  usz_shape (c_shape c) /\
  match c with
  | CTensor _ sh _ => elements sh <= usize_max
  | CMatrix _ rows cols _ _ => rows * cols <= usize_max
  | CRange c _ | CMask c _ | CIndex c _ | CExpand c _ | CRename c _ | CReverse c _
  | CAccess c _ | CTranspose c _ | CWrap c => fits c
  | CStack cs _ _ | CChain cs _ =>
      (fix all (l : list cview) : Prop := match l with [] => True | x :: r => fits x /\ all r end) cs
  end.

(* the minimal form: only leaves and chain sums (and the number of stacked sources, an array length) *)
Fixpoint fits_min (c : cview) : Prop :=
  match c with
  | CTensor _ sh _ => elements sh <= usize_max
  | CMatrix _ rows cols _ _ => rows * cols <= usize_max
  | CRange c _ | CMask c _ | CIndex c _ | CExpand c _ | CRename c _ | CReverse c _
  | CAccess c _ | CTranspose c _ | CWrap c => fits_min c
  | CStack cs _ _ =>
      N.of_nat (length cs) <= usize_max /\
      (fix all (l : list cview) : Prop := match l with [] => True | x :: r => fits_min x /\ all r end) cs
  | CChain cs along =>
      sum (map (fun c0 => len_at (c_shape c0) along) cs) <= usize_max /\
      (fix all (l : list cview) : Prop := match l with [] => True | x :: r => fits_min x /\ all r end) cs
  end.

Lemma fits_usz c : fits c -> usz_shape (c_shape c).
Proof. destruct c; cbn [fits]; tauto. Qed.

(* ---------- per-adaptor arithmetic ---------- *)

Lemma mask_shape_m_ok m (sh : shape) : forall ms, Forall2 (fun d k => r_len k <= snd d) sh ms ->
  mask_shape_m m sh ms = Ok (zipwith (fun d k => (fst d, snd d - r_len k)) sh ms).
Proof.
  induction sh as [|d sh IH]; intros ms HF; inversion HF as [|? k ? ms' Hk HF']; subst; [reflexivity|].
  cbn [mask_shape_m zipwith]. rewrite u_sub_ok by exact Hk. cbn [obind]. rewrite (IH ms' HF'). reflexivity.
Qed.

Lemma mask_ok_le (sh : shape) ms : Forall2 mask_ok sh ms -> Forall2 (fun d k => r_len k <= snd d) sh ms.
Proof. induction 1 as [|d k sh ms [_ H] _ IH]; constructor; [lia|exact IH]. Qed.

(* clip_masked_shape at construction: after IndexRange::clip the subtraction cannot underflow,
   whatever the mask and the source shape *)
Lemma clip_le r l : r_len (r_clip r l) <= l.
Proof. unfold r_clip. cbn [r_len]. lia. Qed.
Lemma clip_masked_shape_total m (sh : shape) : forall ms, length ms = length sh ->
  mask_shape_m m sh (clip_all sh ms) =
  Ok (zipwith (fun d k => (fst d, snd d - r_len k)) sh (clip_all sh ms)).
Proof.
  intros ms Hl. apply mask_shape_m_ok. revert ms Hl. unfold clip_all.
  induction sh as [|d sh IH]; intros [|k ms] Hl; cbn [length] in Hl; try lia; cbn [zipwith]; constructor.
  - apply clip_le.
  - apply IH. lia.
Qed.

Lemma map_by_range_m_ok m (sh : shape) : forall rs idx, Forall2 range_ok sh rs -> usz_shape sh ->
  map_by_range_m m rs idx = Ok (map_indexes_by_range idx rs).
Proof.
  unfold map_indexes_by_range.
  induction sh as [|d sh IH]; intros rs idx HF HU; inversion HF as [|? r ? rs' [Hr1 Hr2] HF']; subst.
  - reflexivity.
  - inversion HU as [|? ? Hu HU']; subst. destruct idx as [|i idx]; [reflexivity|].
    cbn [map_by_range_m zipwith sequence]. unfold r_map at 1.
    destruct (N.ltb_spec i (r_len r)) as [Hi|Hi]; [|reflexivity].
    rewrite u_add_ok by lia. cbn [obind]. rewrite (IH rs' idx HF' HU'). cbn [omap].
    destruct (sequence _); reflexivity.
Qed.

Lemma reverse_indexes_m_ok m (sh : shape) : forall idx rev, Forall (fun l => 0 < l) (lens_of sh) ->
  reverse_indexes_m m idx sh rev = Ok (reverse_indexes idx sh rev).
Proof.
  induction sh as [|d sh IH]; intros idx rev HP; destruct idx as [|i idx]; try reflexivity.
  destruct rev as [|r rev]; [reflexivity|].
  cbn [lens_of map] in HP. inversion HP as [|? ? Hd HP']; subst.
  cbn [reverse_indexes_m reverse_indexes]. rewrite (IH idx rev HP').
  destruct r; cbn [reverse_index].
  - unfold rev_index. rewrite u_sub_ok by lia. cbn [obind].
    destruct (N.ltb_spec (snd d - 1) i); [reflexivity|]. rewrite u_sub_ok by lia. reflexivity.
  - reflexivity.
Qed.

(* ---------- stack / chain loops ---------- *)
Definition sum_go m (along : nat) :=
  fix go (l : list cview) (acc : N) {struct l} : outcome N :=
    match l with
    | [] => Ok acc
    | x :: r => obind (c_shape_m m x) (fun s => obind (u_add m acc (len_at s along)) (fun a => go r a))
    end.

Lemma sum_go_ok m along cs : Forall (fun x => c_shape_m m x = Ok (c_shape x)) cs ->
  forall acc, acc + sum (map (fun x => len_at (c_shape x) along) cs) <= usize_max ->
  sum_go m along cs acc = Ok (acc + sum (map (fun x => len_at (c_shape x) along) cs)).
Proof.
  induction 1 as [|x r Hx _ IH]; intros acc Hb; cbn [sum_go map sum fold_right] in *.
  - f_equal. lia.
  - rewrite Hx. cbn [obind]. fold (sum (map (fun x0 => len_at (c_shape x0) along) r)) in *.
    rewrite u_add_ok by lia. cbn [obind]. rewrite IH by lia. f_equal. lia.
Qed.

Definition chain_go m (along : nat) (idx : list N) :=
  fix go (l : list cview) (i : N) {struct l} : outcome (option (N * N)) :=
    match l with
    | [] => Ok None
    | c0 :: r =>
        obind (c_shape_m m c0) (fun s =>
          let len := len_at s along in
          if i <? len then c_get_m m c0 (list_upd idx along i)
          else obind (u_sub m i len) (fun i' => go r i'))
    end.

Lemma chain_go_ok m along idx cs :
  Forall (fun x => c_shape_m m x = Ok (c_shape x) /\
                   forall j, c_get_m m x (list_upd idx along j) = Ok (c_get x (list_upd idx along j))) cs ->
  forall i k0,
  chain_go m along idx cs i =
  Ok (match chain_find (map (fun x => len_at (c_shape x) along) cs) i k0 with
      | None => None
      | Some (k, i') => picknat (fun c1 => c_get c1 (list_upd idx along i')) cs (k - k0)
      end).
Proof.
  induction 1 as [|x r [Hs Hg] _ IH]; intros i k0; cbn [chain_go map chain_find]; [reflexivity|].
  rewrite Hs. cbn [obind]. cbv zeta. destruct (N.ltb_spec i (len_at (c_shape x) along)) as [Hi|Hi].
  - rewrite Nat.sub_diag. cbn [picknat]. apply Hg.
  - rewrite u_sub_ok by exact Hi. cbn [obind]. rewrite (IH (i - len_at (c_shape x) along) (S k0)).
    pose proof (chain_find_spec (map (fun x0 => len_at (c_shape x0) along) r)
                  (i - len_at (c_shape x) along) (S k0)) as Hf.
    destruct (chain_find _ _ _) as [[k i']|]; [|reflexivity].
    destruct Hf as [Hk _]. replace (k - k0)%nat with (S (k - S k0)) by lia. reflexivity.
Qed.

Definition stack_pick m (idx' : list N) :=
  fix pick (l : list cview) (k : N) {struct l} : outcome (option (N * N)) :=
    match l with
    | [] => Ok None
    | c0 :: r => if k =? 0 then c_get_m m c0 idx' else pick r (k - 1)
    end.

Lemma stack_pick_ok m idx' cs : Forall (fun x => c_get_m m x idx' = Ok (c_get x idx')) cs ->
  forall k, stack_pick m idx' cs k = Ok (pickN (fun c1 => c_get c1 idx') cs k).
Proof.
  induction 1 as [|x r Hx _ IH]; intros k; cbn [stack_pick pickN]; [reflexivity|].
  destruct (k =? 0); [exact Hx|apply IH].
Qed.

(* ---------- the theorem ---------- *)
Definition agrees m (c : cview) : Prop :=
  usize_view c /\ c_shape_m m c = Ok (c_shape c) /\
  forall idx, length idx = length (c_shape c) -> c_get_m m c idx = Ok (c_get c idx).

Theorem machine_agrees m c : cwf c -> fits c -> agrees m c.
Proof.
  induction c using cview_ind'; cbn [cwf fits]; unfold agrees.
  - (* tensor *)
    intros [Hv ->] [_ He]. split; [exact I|]. split; [reflexivity|]. intros idx _.
    cbn [c_get_m c_get]. rewrite get_index_direct_total by assumption. reflexivity.
  - (* matrix *)
    intros [Hn [Hr Hk]] [_ He]. split; [exact I|]. split; [reflexivity|]. intros idx Hl.
    destruct idx as [|a [|b [|? ?]]]; cbn [length c_shape] in Hl; try lia.
    cbn [c_get_m c_get]. rewrite matrix_try_index_total by exact He.
    destruct ((a <? r) && (b <? k)); cbn [omap option_map]; [|reflexivity].
    do 3 f_equal. lia.
  - (* range *)
    intros [Hw HF] [_ Hf]. destruct (IHc Hw Hf) as [Hu [Hs Hg]]. split; [exact Hu|].
    cbn [c_shape_m c_shape c_get_m c_get]. rewrite Hs. split; [reflexivity|]. intros idx Hl.
    pose proof (Forall2_length' _ _ _ HF) as Hlen. rewrite zipwith_length in Hl by lia.
    rewrite (map_by_range_m_ok m (c_shape c)) by (try exact HF; apply fits_usz; exact Hf).
    cbn [obind]. pose proof (range_step (c_shape c) rs idx HF Hl) as Hst.
    destruct (map_indexes_by_range idx rs) as [idx'|]; [|reflexivity].
    destruct Hst as [_ [B _]]. apply Hg. apply in_range_length in B. rewrite lens_of_length in B. exact B.
  - (* mask *)
    intros [Hw HF] [_ Hf]. destruct (IHc Hw Hf) as [Hu [Hs Hg]].
    split; [split; [apply fits_usz; exact Hf|exact Hu]|].
    cbn [c_shape_m c_shape c_get_m c_get]. rewrite Hs. cbn [obind].
    split; [apply mask_shape_m_ok, mask_ok_le; exact HF|]. intros idx Hl.
    pose proof (Forall2_length' _ _ _ HF) as Hlen. rewrite zipwith_length in Hl by lia.
    apply Hg. unfold map_indexes_by_mask. rewrite zipwith_length by lia. lia.
  - (* index *)
    intros [Hw HF] [_ Hf]. destruct (IHc Hw Hf) as [Hu [Hs Hg]]. split; [exact Hu|].
    cbn [c_shape_m c_shape c_get_m c_get]. rewrite Hs. split; [reflexivity|]. intros idx Hl.
    destruct (select_step (c_shape c) pr idx HF Hl) as [idx' [E [L _]]]. rewrite E. apply Hg. exact L.
  - (* expansion *)
    intros [Hw [Hso [Hnd Hni]]] [_ Hf]. destruct (IHc Hw Hf) as [Hu [Hs Hg]]. split; [exact Hu|].
    cbn [c_shape_m c_shape c_get_m c_get]. rewrite Hs. split; [reflexivity|]. intros idx Hl.
    set (sh := c_shape c) in *.
    assert (Hgen : forall idx, length idx = (length sh + length ex)%nat -> _) by
      (intros idx0 Hl0; exact (expand_step (length sh + length ex) sh 0 ex idx0 (length sh) Hso
                              ltac:(lia) eq_refl Hl0)).
    destruct (Hgen (repeat 0 (length sh + length ex)) ltac:(apply repeat_length)) as [P _].
    apply Permutation_length in P. rewrite app_length in P.
    unfold extra_dims in P. rewrite map_length in P. rewrite P in Hl.
    destruct (Hgen idx Hl) as [_ H]. destruct (expand_idx idx 0 ex) as [idx'|]; [|reflexivity].
    apply Hg. apply H.
  - (* rename *)
    intros [Hw [Hl Hnd]] [_ Hf]. destruct (IHc Hw Hf) as [Hu [Hs Hg]]. split; [exact Hu|].
    cbn [c_shape_m c_shape c_get_m c_get]. rewrite Hs. split; [reflexivity|]. intros idx Hi.
    rewrite zipwith_length in Hi by lia. apply Hg. exact Hi.
  - (* reverse *)
    intros [Hw Hl] [_ Hf]. destruct (IHc Hw Hf) as [Hu [Hs Hg]]. split; [exact Hu|].
    cbn [c_shape_m c_shape c_get_m c_get]. rewrite Hs. split; [reflexivity|]. intros idx Hi.
    cbn [obind]. destruct (cwf_contract c Hw Hu) as [[_ Hp] _].
    rewrite reverse_indexes_m_ok by exact Hp. cbn [obind].
    destruct (reverse_step (c_shape c) rev idx Hp Hl Hi) as [L _]. apply Hg. exact L.
  - (* access *)
    intros [Hw [req [Hl Hnew]]] [_ Hf]. destruct (IHc Hw Hf) as [Hu [Hs Hg]]. split; [exact Hu|].
    cbn [c_shape_m c_shape c_get_m c_get]. rewrite Hs. split; [reflexivity|]. intros idx Hi.
    destruct (cwf_contract c Hw Hu) as [[Hnd _] _].
    pose proof (access_shape_perm (c_shape c) req tbl Hnd Hl Hnew) as P.
    rewrite (Permutation_length P) in Hi.
    destruct (access_step (c_shape c) req tbl idx Hnd Hl Hnew Hi) as [L _]. apply Hg. exact L.
  - (* transpose *)
    intros [Hw [req [Hl Hnew]]] [_ Hf]. destruct (IHc Hw Hf) as [Hu [Hs Hg]]. split; [exact Hu|].
    cbn [c_shape_m c_shape c_get_m c_get]. rewrite Hs. cbn [obind omap]. split; [reflexivity|].
    intros idx Hi. destruct (cwf_contract c Hw Hu) as [[Hnd _] _].
    pose proof (access_shape_perm (c_shape c) req tbl Hnd Hl Hnew) as P.
    rewrite zipwith_length in Hi by (symmetry; exact (Permutation_length P)).
    destruct (access_step (c_shape c) req tbl idx Hnd Hl Hnew Hi) as [L _]. apply Hg. exact L.
  - (* stack *)
    intros [Hne [Hall [Hal [Hnin Hsame]]]] [_ Hf]. rewrite all_Forall in Hall, Hf.
    assert (Hc : Forall (agrees m) cs).
    { rewrite Forall_forall in *. intros x Hx. apply H; auto. }
    split.
    { apply all_Forall. eapply Forall_impl; [|exact Hc]. intros x Hx. apply Hx. }
    destruct (head_in_first cs Hne) as [c0 [r [Ecs Efs]]].
    assert (H0 : agrees m c0) by (rewrite Forall_forall in Hc; apply Hc; rewrite Ecs; left; reflexivity).
    split.
    + cbn [c_shape_m c_shape]. fold (first_shape cs). rewrite Efs. rewrite Ecs at 1.
      destruct H0 as [_ [-> _]]. cbn [omap]. try rewrite <- Ecs. reflexivity.
    + intros idx Hl. rewrite c_get_stack. cbn [c_get_m]. fold (stack_pick m (remove_at 0 along idx)).
      apply stack_pick_ok.
      cbn [c_shape] in Hl. fold (first_shape cs) in Hl. set (sh0 := first_shape cs) in *.
      destruct (stack_step sh0 0 along (n, N.of_nat (length cs)) (repeat 0 (S (length sh0)))
                  ltac:(lia) ltac:(apply repeat_length)) as [P _].
      rewrite (Permutation_length P) in Hl. cbn [length] in Hl.
      destruct (stack_step sh0 0 along (n, N.of_nat (length cs)) idx ltac:(lia) Hl) as [_ [L _]].
      rewrite Forall_forall in *. intros x Hx. apply (Hc x Hx). rewrite (Hsame x Hx). exact L.
  - (* chain *)
    intros [Hne [Hall [Hal Hsim]]] [Husz Hf]. rewrite all_Forall in Hall, Hf.
    assert (Hc : Forall (agrees m) cs).
    { rewrite Forall_forall in *. intros x Hx. apply H; auto. }
    split.
    { apply all_Forall. eapply Forall_impl; [|exact Hc]. intros x Hx. apply Hx. }
    destruct (head_in_first cs Hne) as [c0 [r [Ecs Efs]]].
    assert (H0 : agrees m c0) by (rewrite Forall_forall in Hc; apply Hc; rewrite Ecs; left; reflexivity).
    assert (Hshapes : Forall (fun x => c_shape_m m x = Ok (c_shape x)) cs).
    { eapply Forall_impl; [|exact Hc]. intros x Hx. apply Hx. }
    cbn [c_shape] in *. fold (first_shape cs) in *. set (sh0 := first_shape cs) in *.
    rewrite map_map in *. set (lens := map (fun c1 => len_at (c_shape c1) along) cs) in *.
    assert (Hsum : sum lens <= usize_max).
    { unfold usz_shape in Husz. rewrite Forall_forall in Husz.
      specialize (Husz (nth along (list_upd sh0 along (fst (nth along sh0 (0%nat, 0)), sum lens)) (0%nat, 0))).
      rewrite list_upd_nth_same in Husz by exact Hal. apply Husz.
      rewrite <- (list_upd_nth_same sh0 along (fst (nth along sh0 (0%nat, 0)), sum lens) (0%nat, 0) Hal) at 1.
      apply nth_In. rewrite list_upd_length. exact Hal. }
    split.
    + assert (Hm : c_shape_m m (CChain cs along) =
                   obind (c_shape_m m c0) (fun s0 => obind (sum_go m along cs 0) (fun total =>
                     Ok (list_upd s0 along (fst (nth along s0 (0%nat, 0)), total)))))
        by (rewrite Ecs; reflexivity).
      rewrite Hm. destruct H0 as [_ [-> _]]. cbn [obind].
      rewrite (sum_go_ok m along cs Hshapes 0) by (fold lens; lia).
      cbn [obind]. fold lens. rewrite N.add_0_l. fold sh0. rewrite Efs. reflexivity.
    + intros idx Hl. rewrite list_upd_length in Hl. rewrite c_get_chain. fold lens.
      cbn [c_get_m]. fold (chain_go m along idx).
      rewrite (chain_go_ok m along idx cs) with (k0 := 0%nat).
      * fold lens. destruct (chain_find lens (nth along idx 0) 0) as [[k i']|]; [|reflexivity].
        rewrite Nat.sub_0_r. reflexivity.
      * rewrite Forall_forall in *. intros x Hx. split; [apply (Hc x Hx)|]. intros j.
        apply (Hc x Hx). rewrite list_upd_length.
        destruct (similar_from_spec _ _ _ _ (Hsim x Hx)) as [SL _]. lia.
  - (* wrap *)
    intros Hw [_ Hf]. destruct (IHc Hw Hf) as [Hu [Hs Hg]]. split; [exact Hu|].
    cbn [c_shape_m c_shape c_get_m c_get]. split; assumption.
Qed.

Corollary machine_mode_independent c : cwf c -> fits c ->
  c_shape_m Debug c = c_shape_m Release c /\
  forall idx, length idx = length (c_shape c) -> c_get_m Debug c idx = c_get_m Release c idx.
Proof.
  intros Hw Hf. destruct (machine_agrees Debug c Hw Hf) as [_ [S1 G1]].
  destruct (machine_agrees Release c Hw Hf) as [_ [S2 G2]]. split; [congruence|].
  intros idx Hl. rewrite G1, G2 by exact Hl. reflexivity.
Qed.

(* ---------- the hypothesis is violable: chained lengths whose sum exceeds usize::MAX ----------
   Two sources of 2^63 indexes each (in Rust: a Tensor over a zero-sized element type, whose Vec
   needs no memory; see notes/C01_C16.md for the program).  Every source fits; the chain is
   accepted by the constructor; its view_shape panics in a dev build and reports LENGTH ZERO in a
   release build (while index 0 is present); the Option-returning getters of a reversal of it and
   of a chain of two such chains panic in a dev build. *)
Definition big_leaf (id : N) : view := VTensor id [(0%nat, 9223372036854775808)].
Definition big_chain : view := VChain [big_leaf 1; big_leaf 2] 0%nat.

(* REFUTATION WITNESS for the code BEFORE fix f29e87d (finding F16): `chain_ctor_legacy` is the
   constructor without the test of the total length.  After the fix the same term is a Panic. *)
Lemma chain_sum_overflow :
  exists c l1 l2, v_ctor (big_leaf 1) = Ok l1 /\ v_ctor (big_leaf 2) = Ok l2 /\
    chain_ctor_legacy [l1; l2] 0%nat = Ok c /\ c = CChain [l1; l2] 0 /\ fits l1 /\ fits l2 /\
    c_shape c = [(0%nat, 18446744073709551616)] /\
    c_shape_m Debug c = Panic /\
    c_shape_m Release c = Ok [(0%nat, 0)] /\
    c_get_m Release c [0] = Ok (Some (1, 0)) /\
    c_get_m Debug c [0] = Ok (Some (1, 0)) /\
    c_get_m Debug (CReverse c [true]) [0] = Panic /\
    c_get_m Debug (CChain [c; c] 0) [1] = Panic /\
    (* the code now *)
    v_ctor big_chain = Panic.
Proof.
  eexists. eexists. eexists. split; [vm_compute; reflexivity|]. split; [vm_compute; reflexivity|].
  split; [vm_compute; reflexivity|]. split; [reflexivity|].
  split; [split; [repeat constructor; vm_compute; discriminate|vm_compute; discriminate]|].
  split; [split; [repeat constructor; vm_compute; discriminate|vm_compute; discriminate]|].
  repeat split; vm_compute; reflexivity.
Qed.

(* ---------- `fits` follows from the leaf sizes and the chain sums alone ---------- *)
Lemma usz_lens (sh : shape) : usz_shape sh <-> Forall (fun l => l <= usize_max) (lens_of sh).
Proof. unfold usz_shape, lens_of. rewrite Forall_map. reflexivity. Qed.

Lemma prod_ge_each ls : Forall (fun l => 0 < l) ls -> forall b, prod ls <= b -> Forall (fun l => l <= b) ls.
Proof.
  induction 1 as [|l ls Hl Hp IH]; intros b Hb; [constructor|]. rewrite prod_cons in Hb.
  pose proof (prod_pos ls Hp) as Hpp. constructor; [nia|]. apply IH. nia.
Qed.

Lemma usz_zip {B} (g : name * N -> B -> name * N) (sh : shape) : (forall d x, snd (g d x) <= snd d) ->
  usz_shape sh -> forall l, usz_shape (zipwith g sh l).
Proof.
  intros Hg HU. induction HU as [|d sh Hd _ IH]; intros [|x l]; cbn [zipwith]; try constructor.
  - specialize (Hg d x). lia.
  - apply IH.
Qed.

Lemma usz_unprovided (sh : shape) : usz_shape sh -> forall pr, usz_shape (unprovided sh pr).
Proof.
  induction 1 as [|d sh Hd _ IH]; intros [|[i|] pr]; cbn [unprovided]; try constructor; auto; apply IH.
Qed.

Lemma usz_list_upd (sh : shape) k x : usz_shape sh -> snd x <= usize_max -> usz_shape (list_upd sh k x).
Proof.
  intros HU Hx. revert k. induction HU as [|d sh Hd HU' IH]; intros [|k]; cbn [list_upd]; try constructor; auto.
  apply IH.
Qed.

Theorem fits_of_chain_sums c : cwf c -> fits_min c -> fits c.
Proof.
  induction c using cview_ind'; cbn [cwf fits_min fits].
  - intros [[_ Hp] _] He. split; [|exact He]. apply usz_lens. apply prod_ge_each; assumption.
  - intros [_ [Hr Hk]] He. split; [|exact He]. repeat constructor; cbn [snd]; nia.
  - intros [Hw HF] Hm. specialize (IHc Hw Hm). split; [|exact IHc]. cbn [c_shape].
    pose proof (fits_usz c IHc) as HU. clear - HF HU.
    induction HF as [|d r sh rs [Hr _] _ IH]; cbn [zipwith]; [constructor|].
    inversion HU; subst. constructor; [cbn [snd]; lia|apply IH; assumption].
  - intros [Hw HF] Hm. specialize (IHc Hw Hm). split; [|exact IHc]. cbn [c_shape].
    apply usz_zip; [intros; cbn [snd]; lia|apply fits_usz; exact IHc].
  - intros [Hw HF] Hm. specialize (IHc Hw Hm). split; [|exact IHc]. cbn [c_shape].
    apply usz_unprovided, fits_usz, IHc.
  - intros [Hw [Hso [Hnd Hni]]] Hm. specialize (IHc Hw Hm). split; [|exact IHc]. cbn [c_shape].
    set (sh := c_shape c) in *.
    destruct (expand_step (length sh + length ex) sh 0 ex (repeat 0 (length sh + length ex)) (length sh) Hso
                ltac:(lia) eq_refl ltac:(apply repeat_length)) as [P _].
    unfold usz_shape. eapply Permutation_Forall; [symmetry; exact P|]. apply Forall_app. split.
    + apply fits_usz. exact IHc.
    + unfold extra_dims. apply Forall_map. apply Forall_forall. intros e _. cbn [snd]. assert (usize_max = 18446744073709551615) by reflexivity. lia.
  - intros [Hw _] Hm. specialize (IHc Hw Hm). split; [|exact IHc]. cbn [c_shape].
    apply usz_zip; [intros; cbn [snd]; lia|apply fits_usz; exact IHc].
  - intros [Hw _] Hm. specialize (IHc Hw Hm). split; [|exact IHc]. cbn [c_shape]. apply fits_usz, IHc.
  - intros [Hw [req [Hl Hnew]]] Hm. specialize (IHc Hw Hm). split; [|exact IHc]. cbn [c_shape].
    destruct (machine_agrees Debug c Hw IHc) as [Hu _].
    destruct (cwf_contract c Hw Hu) as [[Hnd _] _].
    pose proof (access_shape_perm (c_shape c) req tbl Hnd Hl Hnew) as P.
    unfold usz_shape. eapply Permutation_Forall; [symmetry; exact P|]. apply fits_usz, IHc.
  - intros [Hw [req [Hl Hnew]]] Hm. specialize (IHc Hw Hm). split; [|exact IHc]. cbn [c_shape].
    destruct (machine_agrees Debug c Hw IHc) as [Hu _].
    destruct (cwf_contract c Hw Hu) as [[Hnd _] _].
    pose proof (access_shape_perm (c_shape c) req tbl Hnd Hl Hnew) as P.
    destruct (lens_transpose_shape (c_shape c) (map_shape_to_requested tbl (c_shape c))
                (Permutation_length P)) as [A _].
    apply usz_lens. rewrite A. eapply Permutation_Forall; [|apply usz_lens, fits_usz, IHc].
    unfold lens_of. apply Permutation_map. symmetry. exact P.
  - (* stack *)
    intros [Hne [Hall [Hal [Hnin Hsame]]]] [Hn Hm]. rewrite all_Forall in Hall, Hm.
    assert (Hc : Forall fits cs).
    { rewrite Forall_forall in *. intros x Hx. apply H; auto. }
    split; [|apply all_Forall; exact Hc].
    destruct (head_in_first cs Hne) as [c0 [r [Ecs Efs]]].
    cbn [c_shape]. fold (first_shape cs). set (sh0 := first_shape cs) in *.
    destruct (stack_step sh0 0 along (n, N.of_nat (length cs)) (repeat 0 (S (length sh0)))
                ltac:(lia) ltac:(apply repeat_length)) as [P _].
    unfold usz_shape. eapply Permutation_Forall; [symmetry; exact P|]. constructor; [exact Hn|].
    rewrite Efs. apply fits_usz. rewrite Forall_forall in Hc. apply Hc. rewrite Ecs. left. reflexivity.
  - (* chain *)
    intros [Hne [Hall [Hal Hsim]]] [Hn Hm]. rewrite all_Forall in Hall, Hm.
    assert (Hc : Forall fits cs).
    { rewrite Forall_forall in *. intros x Hx. apply H; auto. }
    split; [|apply all_Forall; exact Hc].
    destruct (head_in_first cs Hne) as [c0 [r [Ecs Efs]]].
    cbn [c_shape]. fold (first_shape cs). rewrite map_map. apply usz_list_upd; [|exact Hn].
    rewrite Efs. apply fits_usz. rewrite Forall_forall in Hc. apply Hc. rewrite Ecs. left. reflexivity.
  - intros Hw Hm. specialize (IHc Hw Hm). split; [|exact IHc]. cbn [c_shape]. apply fits_usz, IHc.
Qed.

(* ---------- after fix f29e87d the constructor establishes the chain sums ---------- *)
Fixpoint chain_sums_ok (c : cview) : Prop :=
  match c with
  | CTensor _ _ _ | CMatrix _ _ _ _ _ => True
  | CRange c _ | CMask c _ | CIndex c _ | CExpand c _ | CRename c _ | CReverse c _
  | CAccess c _ | CTranspose c _ | CWrap c => chain_sums_ok c
  | CStack cs _ _ =>
      (fix all (l : list cview) : Prop := match l with [] => True | x :: r => chain_sums_ok x /\ all r end) cs
  | CChain cs along =>
      ((1 < length cs)%nat -> sum (map (fun c0 => len_at (c_shape c0) along) cs) <= usize_max) /\
      (fix all (l : list cview) : Prop := match l with [] => True | x :: r => chain_sums_ok x /\ all r end) cs
  end.

Lemma ctor_all_Forall (Q : cview -> Prop) vs :
  Forall (fun v => forall c, v_ctor v = Ok c -> Q c) vs ->
  forall cs, ctor_all vs = Ok cs -> Forall Q cs.
Proof.
  induction 1 as [|v vs Hv _ IH]; intros cs E; cbn [ctor_all] in E.
  - injection E as <-. constructor.
  - destruct (v_ctor v) as [c| |] eqn:Ev; cbn [obind] in E; try discriminate.
    destruct (ctor_all vs) as [cs'| |]; cbn [omap] in E; try discriminate. injection E as <-.
    constructor; [apply Hv; reflexivity|apply IH; reflexivity].
Qed.

Theorem ctor_chain_sums v : forall c, v_ctor v = Ok c -> chain_sums_ok c.
Proof.
  induction v using view_ind'; intros c' Hc.
  - cbn [v_ctor] in Hc. destruct (valid_shape_b sh); [|discriminate]. injection Hc as <-. exact I.
  - cbn [v_ctor] in Hc. destruct (r * k =? 0); [discriminate|].
    destruct (valid_shape_b _); [|discriminate]. injection Hc as <-. exact I.
  - cbn [v_ctor] in Hc. destruct (v_ctor v) as [c| |] eqn:E; cbn [obind] in Hc; try discriminate.
    apply ranged_ctor_Ok in Hc. destruct Hc as [all [_ Hc]]. unfold range_clip_from in Hc.
    destruct (valid_shape_b _); [|discriminate]. injection Hc as <-. cbn [chain_sums_ok]. apply IHv. reflexivity.
  - cbn [v_ctor] in Hc. destruct (v_ctor v) as [c| |] eqn:E; cbn [obind] in Hc; try discriminate.
    apply ranged_ctor_Ok in Hc. destruct Hc as [all [_ Hc]]. unfold mask_clip_from in Hc.
    destruct (valid_shape_b _); [|discriminate]. injection Hc as <-. cbn [chain_sums_ok]. apply IHv. reflexivity.
  - cbn [v_ctor] in Hc. destruct (v_ctor v) as [c| |] eqn:E; cbn [obind] in Hc; try discriminate.
    destruct (index_ctor_panics_iff c ps) as [_ [_ Hok]]. destruct (Hok c' Hc) as [pr [-> _]].
    cbn [chain_sums_ok]. apply IHv. reflexivity.
  - cbn [v_ctor] in Hc. destruct (v_ctor v) as [c| |] eqn:E; cbn [obind] in Hc; try discriminate.
    destruct (expand_ctor_panics_iff c es) as [_ [_ Hok]]. rewrite (Hok c' Hc).
    cbn [chain_sums_ok]. apply IHv. reflexivity.
  - cbn [v_ctor] in Hc. destruct (v_ctor v) as [c| |] eqn:E; cbn [obind] in Hc; try discriminate.
    destruct (rename_ctor_panics_iff c ns) as [_ [_ Hok]]. rewrite (Hok c' Hc).
    cbn [chain_sums_ok]. apply IHv. reflexivity.
  - cbn [v_ctor] in Hc. destruct (v_ctor v) as [c| |] eqn:E; cbn [obind] in Hc; try discriminate.
    destruct (reverse_ctor_panics_iff c ns) as [_ [_ Hok]]. rewrite (Hok c' Hc).
    cbn [chain_sums_ok]. apply IHv. reflexivity.
  - cbn [v_ctor] in Hc. destruct (v_ctor v) as [c| |] eqn:E; cbn [obind] in Hc; try discriminate.
    destruct (access_tbl c ns) as [tbl| |]; cbn [omap] in Hc; try discriminate. injection Hc as <-.
    cbn [chain_sums_ok]. apply IHv. reflexivity.
  - cbn [v_ctor] in Hc. destruct (v_ctor v) as [c| |] eqn:E; cbn [obind] in Hc; try discriminate.
    destruct (access_tbl c ns) as [tbl| |]; cbn [omap] in Hc; try discriminate. injection Hc as <-.
    cbn [chain_sums_ok]. apply IHv. reflexivity.
  - rewrite v_ctor_stack in Hc. destruct (ctor_all vs) as [cs| |] eqn:E; cbn [obind] in Hc; try discriminate.
    pose proof (ctor_all_Forall chain_sums_ok vs H cs E) as Hall.
    destruct (stack_ctor_panics_iff cs pos n) as [_ [_ Hok]]. rewrite (Hok c' Hc).
    cbn [chain_sums_ok]. apply all_Forall. exact Hall.
  - rewrite v_ctor_chain in Hc. destruct (ctor_all vs) as [cs| |] eqn:E; cbn [obind] in Hc; try discriminate.
    pose proof (ctor_all_Forall chain_sums_ok vs H cs E) as Hall.
    destruct (chain_ctor_panics_iff cs n) as [_ [_ Hok]]. destruct (Hok c' Hc) as [along [_ [-> Hs]]].
    cbn [chain_sums_ok]. split; [exact Hs|apply all_Forall; exact Hall].
  - cbn [v_ctor] in Hc. destruct (v_ctor v) as [c| |] eqn:E; cbn [omap] in Hc; try discriminate.
    injection Hc as <-. cbn [chain_sums_ok]. apply IHv. reflexivity.
Qed.

(* what remains as a hypothesis: facts about the sizes of the STORES (typing facts in Rust: a
   Vec's length and an array's length are usize values) *)
Fixpoint fits_leaves (c : cview) : Prop :=
  match c with
  | CTensor _ sh _ => elements sh <= usize_max
  | CMatrix _ rows cols _ _ => rows * cols <= usize_max
  | CRange c _ | CMask c _ | CIndex c _ | CExpand c _ | CRename c _ | CReverse c _
  | CAccess c _ | CTranspose c _ | CWrap c => fits_leaves c
  | CStack cs _ _ =>
      N.of_nat (length cs) <= usize_max /\
      (fix all (l : list cview) : Prop := match l with [] => True | x :: r => fits_leaves x /\ all r end) cs
  | CChain cs _ =>
      (fix all (l : list cview) : Prop := match l with [] => True | x :: r => fits_leaves x /\ all r end) cs
  end.

Theorem fits_min_of_leaves c : cwf c -> chain_sums_ok c -> fits_leaves c -> fits_min c.
Proof.
  induction c using cview_ind'; cbn [cwf chain_sums_ok fits_leaves fits_min]; intros Hw Hs Hl;
    try exact Hl; try (apply IHc; [apply Hw|exact Hs|exact Hl]).
  - (* stack *)
    destruct Hw as [_ [Hall _]]. destruct Hl as [Hn Hl]. rewrite all_Forall in Hall, Hs, Hl.
    split; [exact Hn|]. apply all_Forall. rewrite Forall_forall in *. intros x Hx. apply H; auto.
  - (* chain *)
    destruct Hw as [Hne [Hall [Hal Hsim]]]. destruct Hs as [Hsum Hs]. rewrite all_Forall in Hall, Hs, Hl.
    assert (Hm : Forall fits_min cs).
    { rewrite Forall_forall in *. intros x Hx. apply H; auto. }
    split; [|apply all_Forall; exact Hm].
    destruct cs as [|c0 [|c1 r]]; [congruence| |apply Hsum; cbn [length]; lia].
    cbn [map sum fold_right]. rewrite N.add_0_r.
    inversion Hm as [|? ? Hm0 _]; subst. inversion Hall as [|? ? Hw0 _]; subst.
    pose proof (fits_usz c0 (fits_of_chain_sums c0 Hw0 Hm0)) as HU.
    unfold first_shape in Hal. cbn [map head_shape] in Hal.
    unfold usz_shape in HU. rewrite Forall_forall in HU. unfold len_at. apply HU. apply nth_In. exact Hal.
Qed.

(* EVERY constructed view satisfies `fits` as soon as its stores have usize sizes *)
Theorem ctor_fits v c : v_ctor v = Ok c -> fits_leaves c -> fits c.
Proof.
  intros Hc Hl. pose proof (ctor_wf v c Hc) as Hw.
  apply fits_of_chain_sums; [exact Hw|]. apply fits_min_of_leaves; [exact Hw|eapply ctor_chain_sums; exact Hc|exact Hl].
Qed.
