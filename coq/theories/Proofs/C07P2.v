(* C07, mathcomp half (ssreflect style): the list-level Laplace expansion `detc` is mathcomp's
   \det; hence the transcribed determinant routine returns \det of its input (sizes 1..7, any
   commutative ring) and the transcribed inverse routine returns the inverse matrix exactly when
   the determinant is non-zero (any field). *)
From Coq Require Import PeanoNat List.
From mathcomp Require Import all_ssreflect all_algebra zify.
From EasyML Require Import Base.Sx Model.Num Model.Perms Model.LinAlg Proofs.C07P1 Proofs.C07Heap7.
Set Implicit Arguments. Unset Strict Implicit. Unset Printing Implicit Defensive.
Import GRing.Theory.
Local Open Scope ring_scope.

Lemma even_odd k : Nat.even k = ~~ odd k.
Proof.
  elim: k => [|k IH] //. by rewrite Nat.even_succ -Nat.negb_even IH /= negbK.
Qed.

Lemma leb_leq i k : Nat.leb i k = (i <= k)%N.
Proof. by apply/Nat.leb_spec0/leP. Qed.

Lemma bump_bump i k : C07P1.bump i k = fintype.bump i k.
Proof. rewrite /C07P1.bump /fintype.bump leb_leq. by case: (i <= k)%N. Qed.

Section RingOps.
Variable R : comRingType.
Variable dv : R -> R -> R.

(* the dictionary of a mathcomp commutative ring (division supplied separately) *)
Definition ops_of : numops R :=
  @mkNumops R 0 1 +%R (fun x y => x - y) *%R dv -%R (fun x y => x == y)
           (fun _ _ => false) (fun _ _ => false) id id id id id (fun x _ => x) 0
           (fun _ => None) (fun _ => SZ BinNums.Z0) (fun _ => None).

Lemma ops_of_ring : ring_theory (nzero ops_of) (none_ ops_of) (nadd ops_of) (nmul ops_of)
                                (nsub ops_of) (nneg ops_of) (@eq R).
Proof.
  split => /=.
  - exact: add0r.
  - exact: addrC.
  - exact: addrA.
  - exact: mul1r.
  - exact: mulrC.
  - exact: mulrA.
  - exact: mulrDl.
  - by [].
  - exact: subrr.
Qed.

Lemma sum_big (f : nat -> R) n : C07P1.sum ops_of (List.map f (List.seq 0 n)) = \sum_(j < n) f j.
Proof.
  elim: n => [|n IH]; first by rewrite big_ord0.
  rewrite List.seq_S List.map_app (sum_app ops_of ops_of_ring) IH big_ord_recr /=.
  by rewrite addr0.
Qed.

Lemma sgn_sign k : sgn ops_of k = (-1) ^+ k.
Proof. rewrite /sgn even_odd -signr_odd /=. by case: (odd k). Qed.

Variable M : nat -> nat -> R.

Definition sub (n r : nat) (cols : list nat) : 'M[R]_n :=
  \matrix_(i, j) M (r + i) (List.nth j cols 0%N).

Lemma detc_det n r cols : length cols = n -> detc ops_of M n r cols = \det (sub n r cols).
Proof.
  elim: n r cols => [|n IH] r cols Hs.
  - by rewrite /= det_mx00.
  - rewrite [LHS]/= sum_big Hs (expand_det_row _ ord0).
    apply: eq_bigr => j _.
    rewrite /cofactor mxE addn0 add0n sgn_sign -mulrA mulrCA. congr (_ * (_ * _)).
    rewrite IH; last by rewrite length_del Hs; [lia|apply/ltP; exact: ltn_ord].
    congr (\det _). apply/matrixP => i k. rewrite !mxE nth_del bump_bump. congr (M _ _).
    by rewrite /= /fintype.bump /= add1n addnS addSn.
Qed.
End RingOps.

Section Det.
Variable R : comRingType.
Variable dv : R -> R -> R.
Notation ops := (ops_of dv).

(* the n x n matrix read off the content by the routine *)
Definition mx_of (n : nat) (m : list (list R)) : 'M[R]_n := \matrix_(i, j) mget ops m i j.

Lemma heap_ok n : (1 <= n <= 7)%N -> heap_enumerates n.
Proof. move=> Hn. apply: heap_enumerates_le_7. lia. Qed.

Theorem det_tensor_correct n (m : list (list R)) : mrows m = n -> mcols m = n -> (1 <= n <= 7)%N ->
  det_tensor ops m = Some (\det (mx_of n m)).
Proof.
  move=> Hr Hc Hn.
  rewrite (@det_tensor_detc _ ops (ops_of_ring dv) m n Hr Hc _ (heap_ok Hn)); last by lia.
  congr Some. rewrite detc_det; last by rewrite List.seq_length.
  congr (\det _). apply/matrixP => i j. rewrite !mxE add0n List.seq_nth //. by apply/ltP.
Qed.

Theorem det_matrix_correct n (m : list (list R)) : mrows m = n -> mcols m = n -> (1 <= n <= 7)%N ->
  det_matrix ops m = Some (\det (mx_of n m)).
Proof. move=> Hr Hc Hn. by rewrite det_matrix_tensor (det_tensor_correct Hr Hc Hn). Qed.

Lemma mx_of_mask n (m : list (list R)) (i j : 'I_n.+1) :
  mx_of n (mask i j m) = row' i (col' j (mx_of n.+1 m)).
Proof.
  apply/matrixP => a b. rewrite !mxE mget_mask !bump_bump. by [].
Qed.
End Det.

Section Inverse.
Variable F : fieldType.
Notation ops := (ops_of (fun x y : F => x / y)).

Lemma cofactor_sign_sign i j : cofactor_sign ops i j = (-1) ^+ (i + j).
Proof.
  rewrite /cofactor_sign even_mod2_add even_odd -signr_odd /=.
  case: (odd (i + j)) => //=. by rewrite expr1 sub0r.
Qed.

Lemma minor_tensor_correct n (m : list (list F)) (i j : 'I_n.+2) : wf n.+2 m -> (n.+2 <= 7)%N ->
  minor_tensor ops m i j = Some (\det (row' i (col' j (mx_of (fun x y : F => x / y) n.+2 m)))).
Proof.
  move=> Hwf Hn. have [Hl Hall] := Hwf.
  have Hc : mcols m = n.+2.
  { rewrite /mcols. case: m Hl Hall {Hwf} => [|r rs] //= _ Hall. by inversion Hall. }
  rewrite /minor_tensor /is_square /mrows Hl Hc /=.
  have [Hmr Hmc] := @wf_mask F n.+1 m i j Hwf (ltP (ltn_ord i)) (ltP (ltn_ord j)).
  rewrite (det_tensor_correct _ Hmr Hmc); last by lia.
  by rewrite Nat.eqb_refl /= mx_of_mask.
Qed.

(* the routine's result: absent when the determinant is zero, otherwise the inverse matrix *)
Theorem inverse_tensor_spec n (m : list (list F)) : wf n m -> (1 <= n <= 7)%N ->
  let A := mx_of (fun x y : F => x / y) n m in
  exists X0, wf n X0 /\
    inverse_tensor ops m = (if \det A == 0 then None else Some X0) /\
    (\det A != 0 ->
     A *m mx_of (fun x y : F => x / y) n X0 = 1%:M /\
     mx_of (fun x y : F => x / y) n X0 *m A = 1%:M).
Proof.
  move=> Hwf Hn. have [Hl Hall] := Hwf.
  have Hc : mcols m = n.
  { rewrite /mcols. case: m Hl Hall {Hwf} => [|r rs] /=; first by lia.
    move=> _ Hall. by inversion Hall. }
  case: n Hwf Hn Hl Hall Hc => [|[|n]] Hwf Hn Hl Hall Hc A; first by [].
  - (* 1 x 1 *)
    exists [:: [:: 1 / mget ops m 0 0]]. split; first by split; [|repeat constructor].
    have HdA : \det A = mget ops m 0 0 by rewrite det_mx11 /A /mx_of mxE.
    split.
    + rewrite /inverse_tensor /is_square /mrows Hl Hc /= HdA. by case: (_ == 0).
    + rewrite HdA => Hnz.
      have HA : A = (mget ops m 0 0)%:M.
      { apply/matrixP => i j. by rewrite /A /mx_of !ord1 !mxE eqxx mulr1n. }
      have HX : mx_of (fun x y : F => x / y) 1 [:: [:: 1 / mget ops m 0 0]] = (1 / mget ops m 0 0)%:M.
      { apply/matrixP => i j. by rewrite /mx_of !ord1 !mxE eqxx mulr1n. }
      rewrite HA HX -!scalar_mxM mul1r divff // mulVf //.
  - (* general case *)
    set Xf := fun i j : nat =>
      nmul ops (nmul ops (cofactor_sign ops j i)
                 (\det (row' (inord j : 'I_n.+2) (col' (inord i : 'I_n.+2) A))))
               (ndiv ops (none_ ops) (\det A)).
    exists (tab n.+2 Xf). split; first exact: wf_tab.
    have Hdet : det_tensor ops m = Some (\det A) by apply: det_tensor_correct.
    split.
    + rewrite /inverse_tensor /is_square /mrows Hl Hc Nat.eqb_refl /=.
      case: ifP => [/eqP Hz|Hnz].
      * by rewrite /inverse_general Hdet /= Hz eqxx.
      * rewrite (@inverse_general_tab F ops _ _ m n.+2 (\det A)
                   (fun i j => \det (row' (inord i : 'I_n.+2) (col' (inord j : 'I_n.+2) A)))) //.
        move=> i j /ltP Hi /ltP Hj.
        have := @minor_tensor_correct n m (inord i) (inord j) Hwf.
        rewrite !inordK //. apply. lia.
    + move=> HdA.
      have HA : A \in unitmx by rewrite unitmxE unitfE.
      have -> : mx_of (fun x y : F => x / y) n.+2 (tab n.+2 Xf) = invmx A.
      { rewrite /invmx HA. apply/matrixP => i j.
        rewrite /mx_of !mxE mget_tab; [|exact/ltP|exact/ltP]. rewrite /Xf /=.
        by rewrite cofactor_sign_sign /cofactor mul1r mulrC !inord_val. }
      by rewrite mulmxV // mulVmx.
Qed.

Theorem inverse_tensor_iff n (m : list (list F)) : wf n m -> (1 <= n <= 7)%N ->
  ((exists X, inverse_tensor ops m = Some X) <-> \det (mx_of (fun x y : F => x / y) n m) != 0).
Proof.
  move=> Hwf Hn. have [X0 [_ [Hinv _]]] := inverse_tensor_spec Hwf Hn.
  rewrite Hinv. case: (_ == 0); split => //.
  - by case.
  - by exists X0.
Qed.

Theorem inverse_tensor_products n (m X : list (list F)) : wf n m -> (1 <= n <= 7)%N ->
  inverse_tensor ops m = Some X ->
  wf n X /\
  mx_of (fun x y : F => x / y) n m *m mx_of (fun x y : F => x / y) n X = 1%:M /\
  mx_of (fun x y : F => x / y) n X *m mx_of (fun x y : F => x / y) n m = 1%:M.
Proof.
  move=> Hwf Hn. have [X0 [Hwf0 [Hinv Hprod]]] := inverse_tensor_spec Hwf Hn.
  rewrite Hinv. case: ifP => // /negbT Hnz [<-]. split=> //. exact: Hprod.
Qed.
End Inverse.
