(* C11 - undo laws of the resizing history: removing the row / column that was just inserted gives back the
   matrix (abstraction = the original list of rows), for every valid start, position and value. *)
From Coq Require Import List ZArith NArith Bool Arith Lia.
From EasyML Require Import Base.Sx Model.Matrix Proofs.C11Spec Proofs.C11Ops Proofs.C11Transpose Proofs.C11P.
Import ListNotations.
Open Scope N_scope.

Lemma remove_insert_at {A} (x : A) : forall l k, (k <= length l)%nat -> remove_at k (insert_at k x l) = l.
Proof.
  unfold insert_at. induction l as [|y r IH]; intros k H; cbn [length] in H.
  - assert (k = 0)%nat by lia. subst k. reflexivity.
  - destruct k as [|k]; [reflexivity|]. cbn [firstn skipn app remove_at]. f_equal. apply IH. lia.
Qed.

Lemma insert_at_length {A} (x : A) l k : length (insert_at k x l) = S (length l).
Proof.
  unfold insert_at. rewrite app_length. cbn [length]. rewrite firstn_length, skipn_length. lia.
Qed.

Section Undo.
Context {T : Type}.

Lemma spec_insert_remove_row (m : list (list T)) i v : rect m -> i <= nlen m ->
  spec_run m [OInsertRow i v; ORemoveRow i] = m.
Proof.
  intros [Hne _] Hi. unfold spec_run. cbn [fold_left spec_step].
  destruct (N.leb_spec i (nlen m)) as [_|]; [|lia]. cbn [fst].
  unfold nlen at 1 2. rewrite insert_at_length.
  assert (0 < length m)%nat by (destruct m; [contradiction|cbn [length]; lia]).
  unfold nlen in Hi.
  destruct (N.ltb_spec 1 (N.of_nat (S (length m)))) as [_|]; [|lia].
  destruct (N.ltb_spec i (N.of_nat (S (length m)))) as [_|]; [|lia].
  cbn [andb fst]. apply remove_insert_at. lia.
Qed.

Lemma spec_insert_remove_column (m : list (list T)) j v : rect m -> j <= N.of_nat (ncols m) ->
  spec_run m [OInsertColumn j v; ORemoveColumn j] = m.
Proof.
  intros [Hne [Hc Hall]] Hj. unfold spec_run. cbn [fold_left spec_step].
  destruct (N.leb_spec j (N.of_nat (ncols m))) as [_|]; [|lia]. cbn [fst].
  assert (Hnc : ncols (map (insert_at (N.to_nat j) v) m) = S (ncols m)).
  { unfold ncols. destruct m as [|r0 m']; [contradiction|]. cbn [map hd]. apply insert_at_length. }
  rewrite Hnc.
  destruct (N.ltb_spec 1 (N.of_nat (S (ncols m)))) as [_|]; [|lia].
  destruct (N.ltb_spec j (N.of_nat (S (ncols m)))) as [_|]; [|lia].
  cbn [andb fst]. rewrite map_map. rewrite <- (map_id m) at 2. apply map_ext_in.
  intros r Hr. apply remove_insert_at. rewrite Forall_forall in Hall. rewrite (Hall r Hr). lia.
Qed.

Theorem insert_remove_row_undo (s : matrix T) i v : Inv s -> i <= m_rows s ->
  all_fit (abs s) [OInsertRow i v; ORemoveRow i] ->
  abs (impl_run s [OInsertRow i v; ORemoveRow i]) = abs s /\ Inv (impl_run s [OInsertRow i v; ORemoveRow i]).
Proof.
  intros Hinv Hi Hfit. destruct (run_refines s _ Hinv Hfit) as [E I]. split; [|exact I].
  rewrite E. apply spec_insert_remove_row; [exact (proj1 (abs_of_inv s Hinv))|].
  destruct (observe_refines s Hinv) as [Hsz _]. injection Hsz as Hr _. rewrite <- Hr. exact Hi.
Qed.

Theorem insert_remove_column_undo (s : matrix T) j v : Inv s -> j <= m_cols s ->
  all_fit (abs s) [OInsertColumn j v; ORemoveColumn j] ->
  abs (impl_run s [OInsertColumn j v; ORemoveColumn j]) = abs s /\
  Inv (impl_run s [OInsertColumn j v; ORemoveColumn j]).
Proof.
  intros Hinv Hj Hfit. destruct (run_refines s _ Hinv Hfit) as [E I]. split; [|exact I].
  rewrite E. apply spec_insert_remove_column; [exact (proj1 (abs_of_inv s Hinv))|].
  destruct (observe_refines s Hinv) as [Hsz _]. injection Hsz as _ Hc. rewrite <- Hc. exact Hj.
Qed.
End Undo.

Example undo_nonvacuous :
  spec_run [[1; 2]; [3; 4]] [OInsertRow 1 9; ORemoveRow 1] = [[1; 2]; [3; 4]] /\
  fst (spec_step [[1; 2]; [3; 4]] (OInsertRow 1 9)) = [[1; 2]; [9; 9]; [3; 4]] /\
  spec_run [[1; 2]; [3; 4]] [OInsertColumn 2 9; ORemoveColumn 2] = [[1; 2]; [3; 4]].
Proof. vm_compute. repeat split. Qed.
