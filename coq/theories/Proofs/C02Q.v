(* C02, second part: the documented per-adaptor mappings, the constructor acceptance rules of
   ranges and masks, the data-layout facts (regression witness for finding F13 and the bounded
   memory-order theorem). *)
From Coq Require Import List ZArith NArith Bool Arith Lia Permutation.
From EasyML Require Import Base.Sx Model.Shape Model.Tensor Model.Views Proofs.ShapeP Proofs.C01P
  Proofs.C02Lemmas Proofs.C02P.
Import ListNotations.
Open Scope N_scope.

(* ---------- headline statements from the two inductions ---------- *)
Theorem ctor_contract v c : v_ctor v = Ok c -> usize_view c -> contract c.
Proof. intros H U. apply cwf_contract; [eapply ctor_wf; exact H|exact U]. Qed.

Theorem view_shape_valid v c : v_ctor v = Ok c -> usize_view c -> valid_shape (c_shape c).
Proof. intros H U. apply (ctor_contract v c H U). Qed.

Theorem view_present_iff v c idx : v_ctor v = Ok c -> usize_view c ->
  length idx = length (c_shape c) ->
  (c_get c idx <> None <-> in_range idx (lens_of (c_shape c))).
Proof. intros H U. apply (ctor_contract v c H U). Qed.

(* an index with any coordinate at or beyond its length (usize::MAX included) is absent *)
Theorem view_oob_absent v c idx d : v_ctor v = Ok c -> usize_view c ->
  length idx = length (c_shape c) -> (d < length idx)%nat ->
  nth d (lens_of (c_shape c)) 0 <= nth d idx 0 -> c_get c idx = None.
Proof.
  intros H U L Hd Hoob. destruct (c_get c idx) eqn:E; [|reflexivity]. exfalso.
  assert (Hp : c_get c idx <> None) by congruence.
  apply (view_present_iff v c idx H U L) in Hp.
  rewrite in_range_nth in Hp by (rewrite lens_of_length; exact L).
  specialize (Hp d). rewrite lens_of_length in Hp. specialize (Hp ltac:(lia)). lia.
Qed.

(* ---------- the documented mappings (for ANY source view c, hence any composition) ---------- *)
Theorem mapping_range c rs idx : cwf (CRange c rs) -> length idx = length (c_shape c) ->
  in_range idx (lens_of (c_shape (CRange c rs))) ->
  c_get (CRange c rs) idx = c_get c (range_spec rs idx).
Proof.
  cbn [cwf c_shape c_get]. intros [_ HF] Hl Hin.
  pose proof (Forall2_length' _ _ _ HF) as Hlen.
  rewrite lens_range_shape in Hin by lia.
  pose proof (range_step (c_shape c) rs idx HF Hl) as Hs.
  destruct (map_indexes_by_range idx rs) as [idx'|]; [|contradiction].
  destruct Hs as [_ [_ ->]]. reflexivity.
Qed.

Theorem mapping_mask c ms idx : cwf (CMask c ms) ->
  Forall (fun d => snd d <= usize_max) (c_shape c) -> length idx = length (c_shape c) ->
  in_range idx (lens_of (c_shape (CMask c ms))) ->
  c_get (CMask c ms) idx = c_get c (mask_spec ms idx).
Proof.
  cbn [cwf c_shape c_get]. intros [_ HF] HU Hl Hin.
  pose proof (Forall2_length' _ _ _ HF) as Hlen.
  rewrite lens_mask_shape in Hin by lia.
  destruct (mask_step (c_shape c) ms idx HF HU Hl) as [_ Hs]. rewrite (Hs Hin). reflexivity.
Qed.

Theorem mapping_reverse c rev idx : cwf (CReverse c rev) -> valid_shape (c_shape c) ->
  length idx = length (c_shape c) -> in_range idx (lens_of (c_shape c)) ->
  c_get (CReverse c rev) idx = c_get c (reverse_spec idx (c_shape c) rev).
Proof.
  cbn [cwf c_get]. intros [_ Hr] [_ Hp] Hl Hin.
  destruct (reverse_step (c_shape c) rev idx Hp Hr Hl) as [_ [_ Hs]]. rewrite (Hs Hin). reflexivity.
Qed.

Theorem mapping_rename c ns idx : c_get (CRename c ns) idx = c_get c idx.
Proof. reflexivity. Qed.
Theorem mapping_wrap c idx : c_get (CWrap c) idx = c_get c idx.
Proof. reflexivity. Qed.

(* access and transposition index the source by NAME (coords_by_name is C01's specification) *)
Theorem mapping_access c req tbl idx : NoDup (names_of (c_shape c)) -> length req = length (c_shape c) ->
  dm_new (names_of (c_shape c)) req = Some tbl ->
  c_get (CAccess c tbl) idx = c_get c (coords_by_name (c_shape c) req idx) /\
  c_get (CTranspose c tbl) idx = c_get c (coords_by_name (c_shape c) req idx) /\
  c_shape (CAccess c tbl) = shape_by_name (c_shape c) req.
Proof.
  intros Hnd Hl Hnew. cbn [c_get c_shape]. rewrite (map_to_source_by_name _ _ _ _ Hnd Hl Hnew).
  repeat split.
  pose (t := mkTensor (@nil unit) (c_shape c) []).
  apply (access_shape_by_name t req (mkAccess t tbl)); [exact Hnd|exact Hl|].
  unfold access_try_from. cbn [t_shape t]. rewrite Hnew. reflexivity.
Qed.

(* stacking: the coordinate at `along` selects the source, the others index it *)
Theorem mapping_stack cs along n idx :
  c_get (CStack cs along n) idx =
  match nth_error cs (N.to_nat (nth along idx 0)) with
  | Some ck => c_get ck (remove_at 0 along idx)
  | None => None
  end.
Proof. rewrite c_get_stack, pickN_spec. reflexivity. Qed.

Lemma sum_firstn_mono (lens : list N) : forall k k', (k < k')%nat -> (k < length lens)%nat ->
  sum (firstn k lens) + nth k lens 0 <= sum (firstn k' lens).
Proof.
  induction lens as [|l ls IH]; intros k k' Hlt Hk; cbn [length] in Hk; [lia|].
  destruct k' as [|k']; [lia|]. destruct k as [|k]; cbn [firstn sum fold_right nth].
  - unfold sum. lia.
  - specialize (IH k k' ltac:(lia) ltac:(lia)). unfold sum in *. lia.
Qed.

(* chaining: prefix sums of the lengths along the chained dimension *)
Theorem mapping_chain cs along idx k ck :
  let lens := map (fun c0 => len_at (c_shape c0) along) cs in
  nth_error cs k = Some ck ->
  sum (firstn k lens) <= nth along idx 0 < sum (firstn k lens) + nth k lens 0 ->
  c_get (CChain cs along) idx = c_get ck (list_upd idx along (nth along idx 0 - sum (firstn k lens))).
Proof.
  intros lens Ek Hi. rewrite c_get_chain. fold lens.
  pose proof (chain_find_spec lens (nth along idx 0) 0) as Hf.
  assert (Hlen : length lens = length cs) by (unfold lens; apply map_length).
  assert (Hk : (k < length cs)%nat) by (apply nth_error_Some; congruence).
  destruct (chain_find lens (nth along idx 0) 0) as [[k' i']|].
  - destruct Hf as [Hk' [Hi' Hs]]. rewrite Nat.sub_0_r in *.
    (* the block containing the index is unique *)
    assert (k' = k).
    { destruct (Nat.lt_trichotomy k' k) as [Hlt|[Heq|Hgt]]; [|exact Heq|]; exfalso.
      - pose proof (sum_firstn_mono lens k' k Hlt ltac:(lia)). lia.
      - pose proof (sum_firstn_mono lens k k' Hgt ltac:(lia)). lia. }
    subst k'. rewrite picknat_spec, Ek. f_equal. f_equal. lia.
  - exfalso. pose proof (sum_firstn_lt lens k ltac:(lia)). lia.
Qed.

(* ---------- constructor rules for ranges and masks ---------- *)

(* what remains of a range in a dimension of length l: >= 1 index iff it starts inside and is not empty *)
Lemma clip_remains r l : l <= usize_max -> (0 < r_len (r_clip r l) <-> r_start r < l /\ 0 < r_len r).
Proof. unfold r_clip, sat_add. cbn [r_len r_start]. assert (usize_max = 18446744073709551615) by reflexivity. lia. Qed.

Definition keeps_one (d : name * N) (o : option irange) : Prop :=
  match o with None => True | Some r => r_start r < snd d /\ 0 < r_len r end.

(* lenient constructor: clips, and succeeds whenever at least one index remains in every dimension *)
Theorem range_lenient_rule c rs : valid_shape (c_shape c) ->
  Forall (fun d => snd d <= usize_max) (c_shape c) -> length rs = length (c_shape c) ->
  ((exists c', ranged_ctor range_clip_from c (PAll false rs) = Ok c') <->
   Forall2 keeps_one (c_shape c) rs).
Proof.
  intros [Hnd Hpos] HU Hl. unfold ranged_ctor. rewrite Hl, Nat.eqb_refl. cbn [negb].
  unfold range_clip_from.
  set (sh := c_shape c) in *.
  assert (Hl' : length (range_defaults sh rs) = length sh)
    by (unfold range_defaults; apply zipwith_length; lia).
  assert (Hv : valid_shape_b (zipwith (fun d r => (fst d, r_len r)) sh (clip_all sh (range_defaults sh rs))) = true
               <-> Forall2 keeps_one sh rs).
  { rewrite valid_shape_b_spec. unfold valid_shape.
    rewrite names_zipwith_fst by (rewrite clip_all_length; lia).
    rewrite lens_range_shape by (apply clip_all_length; exact Hl').
    split.
    - intros [_ H]. clear Hnd Hl'. revert rs Hl H. unfold lens_of in Hpos.
      induction sh as [|d sh IH]; intros [|o rs] Hl H; cbn [length] in Hl; try lia; [constructor|].
      cbn [map] in Hpos. inversion Hpos as [|? ? Hp1 Hp2]; subst. inversion HU as [|? ? Hu1 Hu2]; subst.
      unfold clip_all, range_defaults in H. cbn [zipwith map] in H. inversion H as [|? ? H1 H2]; subst.
      constructor; [|apply IH; auto; lia].
      destruct o as [r|]; cbn [keeps_one]; [|exact I]. apply (proj1 (clip_remains _ _ Hu1)). exact H1.
    - intros H. split; [exact Hnd|]. clear Hnd Hl' Hl. unfold lens_of in Hpos.
      induction H as [|d o sh rs Ho H IH]; [constructor|]. cbn [map] in Hpos.
      inversion Hpos as [|? ? Hp1 Hp2]; subst. inversion HU as [|? ? Hu1 Hu2]; subst.
      unfold clip_all, range_defaults. cbn [zipwith map]. constructor.
      + apply (proj2 (clip_remains _ _ Hu1)). destruct o as [r|]; cbn [keeps_one] in Ho; [exact Ho|].
        cbn [r_start r_len]. lia.
      + apply IH; assumption. }
  destruct (valid_shape_b _) eqn:E.
  - split; [intros _; apply Hv; reflexivity|intros _; eexists; reflexivity].
  - split; [intros [c' H]; discriminate|]. intros H. apply Hv in H. discriminate.
Qed.

(* strict constructor: reports OutsideShape exactly when some range ends beyond its dimension *)
Definition ends_outside (d : name * N) (o : option irange) : Prop :=
  match o with None => False | Some r => snd d < r_start r + r_len r end.

Lemma range_exceeds_bounds_spec (sh : shape) : forall rs, length rs = length sh ->
  Forall (fun d => snd d <= usize_max) sh ->
  (range_exceeds_bounds sh rs = true <-> Exists (fun p => ends_outside (fst p) (snd p)) (combine sh rs)).
Proof.
  induction sh as [|d sh IH]; intros [|o rs] Hl HU; cbn [length] in Hl; try lia.
  - cbn. split; [discriminate|]. intros H; inversion H.
  - inversion HU; subst. cbn [range_exceeds_bounds combine]. rewrite Exists_cons. cbn [fst snd].
    specialize (IH rs ltac:(lia) ltac:(assumption)).
    destruct o as [r|]; cbn [ends_outside].
    + unfold checked_add. destruct (N.leb_spec (r_start r + r_len r) usize_max).
      * destruct (N.ltb_spec (snd d) (r_start r + r_len r)).
        -- split; [intros _; left; assumption|reflexivity].
        -- rewrite IH. split; [intros; right; assumption|intros [|]; [lia|assumption]].
      * split; [intros _; left; lia|reflexivity].
    + rewrite IH. tauto.
Qed.

Theorem strict_rule clip_from c rs : length rs = length (c_shape c) ->
  Forall (fun d => snd d <= usize_max) (c_shape c) ->
  (Exists (fun p => ends_outside (fst p) (snd p)) (combine (c_shape c) rs) ->
     ranged_ctor clip_from c (PAll true rs) = Err (e_outside (c_shape c) rs)) /\
  (~ Exists (fun p => ends_outside (fst p) (snd p)) (combine (c_shape c) rs) ->
     forall c', (ranged_ctor clip_from c (PAll true rs) = Ok c' <->
                 ranged_ctor clip_from c (PAll false rs) = Ok c')).
Proof.
  intros Hl HU. unfold ranged_ctor. rewrite Hl, Nat.eqb_refl. cbn [negb].
  pose proof (range_exceeds_bounds_spec (c_shape c) rs Hl HU) as Hs. split.
  - intros H. apply Hs in H. rewrite H. reflexivity.
  - intros H c'. destruct (range_exceeds_bounds (c_shape c) rs); [exfalso; apply H, Hs; reflexivity|].
    destruct (clip_from c rs); cbn [map_err]; split; congruence.
Qed.

(* ---------- data layout ---------- *)

(* regression witness for finding F13: the code BEFORE fix 6660492 claimed Linear(d1, d0, d2) for
   transpose [d2,d0,d1] of access [d0,d2,d1] of a 2x1x2 tensor, and walking it in that order visits
   offsets 0, 2, 1, 3 *)
Definition f13_view : view :=
  VTranspose (VAccess (VTensor 0 [(0%nat, 2); (1%nat, 1); (2%nat, 2)]) [0; 2; 1]%nat) [2; 0; 1]%nat.

Definition memory_walk (as_written : bool) (c : cview) : option (list (option (N * N))) :=
  match c_layout_gen as_written c with
  | Ok (Linear order) =>
      match access_tbl c order with
      | Ok tbl => Some (map (c_get (CAccess c tbl)) (all_indexes (lens_of (c_shape (CAccess c tbl)))))
      | _ => None
      end
  | _ => None
  end.

Lemma transpose_layout_as_written_refuted :
  exists c, v_ctor f13_view = Ok c /\
    c_layout_gen true c = Ok (Linear [1; 0; 2]%nat) /\
    memory_walk true c = Some [Some (0, 0); Some (0, 2); Some (0, 1); Some (0, 3)] /\
    (* the code now *)
    c_layout c = Ok (Linear [2; 1; 0]%nat) /\
    memory_walk false c = Some [Some (0, 0); Some (0, 1); Some (0, 2); Some (0, 3)].
Proof. eexists. split; [vm_compute; reflexivity|]. repeat split; vm_compute; reflexivity. Qed.

(* bounded theorem: every composition of up to three accesses / transpositions / renames (all
   permutations) over a leaf with three dimensions: whenever the view claims Linear(order), walking
   it in that order visits offsets 0, 1, 2, ... of the one leaf *)
Fixpoint perms (l : list nat) (fuel : nat) : list (list nat) :=
  match fuel with
  | O => [[]]
  | S f =>
      match l with
      | [] => [[]]
      | _ => flat_map (fun x => map (cons x) (perms (remove Nat.eq_dec x l) f)) l
      end
  end.

Definition layout_steps (v : view) (names : list nat) : list (view * list nat) :=
  flat_map (fun p => [ (VAccess v p, p); (VTranspose v p, names) ]) (perms names (length names))
  ++ [ (VRename v (map (fun n => (n + 3)%nat) names), map (fun n => (n + 3)%nat) names);
       (VWrap v, names) ].

Fixpoint layout_terms (depth : nat) (v : view) (names : list nat) : list view :=
  match depth with
  | O => [v]
  | S d => v :: flat_map (fun vn => layout_terms d (fst vn) (snd vn)) (layout_steps v names)
  end.

Definition walk_ok (v : view) : bool :=
  match v_ctor v with
  | Ok c =>
      match memory_walk false c with
      | Some w =>
          let n := length w in
          match c_leaves c with
          | [(id, _)] =>
              forallb (fun p => match snd p with
                                | Some (l, off) => (l =? id) && (off =? N.of_nat (fst p))
                                | None => false
                                end) (combine (seq 0 n) w)
              && (N.of_nat n =? elements (c_shape c))
          | _ => false
          end
      | None => false        (* these terms are all Linear *)
      end
  | _ => false
  end.

Lemma linear_layout_bounded :
  forallb walk_ok (layout_terms 3 (VTensor 0 [(0%nat, 2); (1%nat, 3); (2%nat, 2)]) [0; 1; 2]%nat) = true /\
  forallb walk_ok (layout_terms 3 (VMatrix 0 2 3 0%nat 1%nat) [0; 1]%nat) = true /\
  forallb walk_ok (layout_terms 2 (VTensor 0 [(3%nat, 2); (1%nat, 1); (0%nat, 2); (2%nat, 3)]) [3; 1; 0; 2]%nat) = true.
Proof. repeat split; vm_compute; reflexivity. Qed.
