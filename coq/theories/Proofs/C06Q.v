(* C06, second part: the constant side of a matrix multiplication is inert; the
   element-by-element run completes whenever the container run does. *)
From Coq Require Import List Arith Bool Lia ZArith.
From EasyML Require Import Base.Sx Model.Num Model.Tape Model.Container Proofs.TapeP Proofs.C06P.
Import ListNotations.

Section C06Q.
Context {R : Type} (ops : numops R).
Notation tape := (tape R).
Notation rec := (rec R).
Notation cont := (cont R).
Notation econt := (econt R).

(* ------------------------------------------------------------------ inert constants in products *)
Definition same_fst (l l' : list (R * nat)) : Prop := map fst l' = map fst l.

Lemma fold_inert_r (F : R -> R -> R -> R) : forall (left right right' : list (R * nat)) a, same_fst right right' ->
  fold_left (fun acc p => F acc (fst (fst p)) (fst (snd p))) (combine left right') a =
  fold_left (fun acc p => F acc (fst (fst p)) (fst (snd p))) (combine left right) a.
Proof.
  induction left as [|x lr IH]; intros [|y rr] [|y' rr'] a H; cbn in *; try discriminate; try reflexivity.
  inversion H as [[H1 H2]]. rewrite H1. apply IH. exact H2.
Qed.

Lemma fold_inert_l (F : R -> R -> R -> R) : forall (left left' right : list (R * nat)) a, same_fst left left' ->
  fold_left (fun acc p => F acc (fst (fst p)) (fst (snd p))) (combine left' right) a =
  fold_left (fun acc p => F acc (fst (fst p)) (fst (snd p))) (combine left right) a.
Proof.
  induction left as [|x lr IH]; intros [|x' lr'] [|y rr] a H; cbn in *; try discriminate; try reflexivity.
  inversion H as [[H1 H2]]. rewrite H1. apply IH. exact H2.
Qed.

Lemma spr_inert_r h : forall (left right right' : list (R * nat)) t acc, same_fst right right' ->
  scalar_product_rest ops t (Some h) None acc (combine left right') =
  scalar_product_rest ops t (Some h) None acc (combine left right).
Proof.
  induction left as [|[x xi] lr IH]; intros [|[y yi] rr] [|[y' yi'] rr'] t acc H; cbn in H; try discriminate; try reflexivity.
  inversion H as [[H1 H2]]. subst y'. cbn [combine scalar_product_rest product_step append_unary].
  destruct acc as [a ai]. cbn [append_binary]. apply IH. exact H2.
Qed.

Lemma spr_inert_l h : forall (left left' right : list (R * nat)) t acc, same_fst left left' ->
  scalar_product_rest ops t None (Some h) acc (combine left' right) =
  scalar_product_rest ops t None (Some h) acc (combine left right).
Proof.
  induction left as [|[x xi] lr IH]; intros [|[x' xi'] lr'] [|[y yi] rr] t acc H; cbn in H; try discriminate; try reflexivity.
  inversion H as [[H1 H2]]. subst x'. cbn [combine scalar_product_rest product_step append_unary].
  destruct acc as [a ai]. cbn [append_binary]. apply IH. exact H2.
Qed.

Lemma rsp_inert_r t lh left right right' : same_fst right right' ->
  record_scalar_product ops t lh None left right' = record_scalar_product ops t lh None left right.
Proof.
  intros H. unfold record_scalar_product. destruct lh as [h|]; cbn [first_hist].
  - destruct left as [|[x xi] lr], right as [|[y yi] rr], right' as [|[y' yi'] rr']; cbn in H; try discriminate; try reflexivity.
    inversion H as [[H1 H2]]. subst y'. cbn [combine product_step append_unary]. rewrite (spr_inert_r h lr rr rr') by exact H2. reflexivity.
  - destruct left as [|[x xi] lr], right as [|[y yi] rr], right' as [|[y' yi'] rr']; cbn in H; try discriminate; try reflexivity.
    inversion H as [[H1 H2]]. subst y'. cbn [combine].
    rewrite (fold_inert_r (fun a u v => nadd ops a (nmul ops u v)) lr rr rr') by exact H2. reflexivity.
Qed.

Lemma rsp_inert_l t rh left left' right : same_fst left left' ->
  record_scalar_product ops t None rh left' right = record_scalar_product ops t None rh left right.
Proof.
  intros H. unfold record_scalar_product. destruct rh as [h|]; cbn [first_hist].
  - destruct left as [|[x xi] lr], left' as [|[x' xi'] lr'], right as [|[y yi] rr]; cbn in H; try discriminate; try reflexivity.
    inversion H as [[H1 H2]]. subst x'. cbn [combine product_step append_unary]. rewrite (spr_inert_l h lr lr' rr) by exact H2. reflexivity.
  - destruct left as [|[x xi] lr], left' as [|[x' xi'] lr'], right as [|[y yi] rr]; cbn in H; try discriminate; try reflexivity.
    inversion H as [[H1 H2]]. subst x'. cbn [combine].
    rewrite (fold_inert_l (fun a u v => nadd ops a (nmul ops u v)) lr lr' rr) by exact H2. reflexivity.
Qed.

Lemma same_fst_row n (l l' : list (R * nat)) i : same_fst l l' -> same_fst (row_of n l i) (row_of n l' i).
Proof. unfold same_fst. intros H. rewrite !map_row_of, H. reflexivity. Qed.

Lemma same_fst_column rows cols (l l' : list (R * nat)) j : same_fst l l' ->
  same_fst (column_of rows cols l j) (column_of rows cols l' j).
Proof. unfold same_fst. intros H. rewrite !map_column_of, H. reflexivity. Qed.

Lemma cells_inert_r lh rows inner columns ldata rdata rdata' : same_fst rdata rdata' ->
  forall cs t, matmul_cells ops t lh None rows inner columns ldata rdata' cs =
               matmul_cells ops t lh None rows inner columns ldata rdata cs.
Proof.
  intros H. induction cs as [|[i j] r IH]; intros t; cbn [matmul_cells]; [reflexivity|].
  rewrite (rsp_inert_r t lh _ _ _ (same_fst_column inner columns _ _ j H)).
  destruct (record_scalar_product ops t lh None (row_of inner ldata i) (column_of inner columns rdata j)) as [[t1 z]|];
    [|reflexivity]. rewrite IH. reflexivity.
Qed.

Lemma cells_inert_l rh rows inner columns ldata ldata' rdata : same_fst ldata ldata' ->
  forall cs t, matmul_cells ops t None rh rows inner columns ldata' rdata cs =
               matmul_cells ops t None rh rows inner columns ldata rdata cs.
Proof.
  intros H. induction cs as [|[i j] r IH]; intros t; cbn [matmul_cells]; [reflexivity|].
  rewrite (rsp_inert_l t rh _ _ _ (same_fst_row inner _ _ i H)).
  destruct (record_scalar_product ops t None rh (row_of inner ldata i) (column_of inner columns rdata j)) as [[t1 z]|];
    [|reflexivity]. rewrite IH. reflexivity.
Qed.

(* replacing the indexes stored in a constants operand changes neither the tape nor the
   result of either matrix multiplication, on either side *)
Theorem matmul_constant_side_inert t (x y y' : cont) : same_numbers y y' ->
  c_matmul ops t x y' = c_matmul ops t x y /\ c_matmul ops t y' x = c_matmul ops t y x.
Proof.
  intros (Hy & Hy' & Ht & Hs & Hd). split; unfold c_matmul; rewrite Hy, Hy', Hs, ?Ht.
  - destruct (negb _); [reflexivity|].
    destruct (c_shape x) as [|[n0 rows] [|[n1 inner] [|]]]; try reflexivity.
    destruct (c_shape y) as [|[n2 inner2] [|[n3 columns] [|]]]; try reflexivity.
    destruct (negb _); [reflexivity|]. destruct (_ && _); [reflexivity|].
    rewrite (cells_inert_r (c_hist x) rows inner columns _ _ _ Hd). reflexivity.
  - destruct (negb _); [reflexivity|].
    destruct (c_shape y) as [|[n0 rows] [|[n1 inner] [|]]]; try reflexivity.
    destruct (c_shape x) as [|[n2 inner2] [|[n3 columns] [|]]]; try reflexivity.
    destruct (negb _); [reflexivity|]. destruct (_ && _); [reflexivity|].
    rewrite (cells_inert_l (c_hist x) rows inner columns _ _ _ Hd). reflexivity.
Qed.

(* the binary operations, as full equalities on both sides *)
Theorem binary_constant_side_inert t f (x y y' : cont) : same_numbers y y' ->
  c_binary ops t f x y' = c_binary ops t f x y /\ c_binary ops t f y' x = c_binary ops t f y x.
Proof.
  intros (Hy & Hy' & Ht & Hs & Hd). split; unfold c_binary; rewrite Hy, Hy', Hs, ?Ht.
  - destruct (negb _); [reflexivity|]. destruct (c_hist x).
    + rewrite (x_loop_inert ops f _ _ _ t Hd). reflexivity.
    + rewrite (none_map_inert_r f _ _ _ Hd). reflexivity.
  - destruct (negb _); [reflexivity|]. destruct (c_hist x).
    + rewrite (y_loop_inert ops f _ _ _ t Hd). reflexivity.
    + rewrite (none_map_inert_l f _ _ _ Hd). reflexivity.
Qed.


Theorem constant_side_inert_all t (x y y' : cont) : same_numbers y y' ->
  (forall f, c_binary ops t f x y' = c_binary ops t f x y /\ c_binary ops t f y' x = c_binary ops t f y x) /\
  c_matmul ops t x y' = c_matmul ops t x y /\ c_matmul ops t y' x = c_matmul ops t y x.
Proof.
  intros H. split; [intros f; exact (binary_constant_side_inert t f x y y' H)|].
  exact (matmul_constant_side_inert t x y y' H).
Qed.

(* ------------------------------------------------------------------ the Record run completes
   Which branch a Record operation takes (and whether it panics) depends only on the histories
   of its operands; the element-by-element records carry the same histories as the container
   elements, so every check that passed in the container run passes in the Record run. *)
Definition hsim (rs rs' : list rec) : Prop := map (@r_hist R) rs = map (@r_hist R) rs'.

Lemma hsim_length rs rs' : hsim rs rs' -> length rs = length rs'.
Proof. intros H. apply (f_equal (@length _)) in H. rewrite !map_length in H. exact H. Qed.

Lemma rec_unary_code_hsim code c (x x' : rec) t t' t1 y : r_hist x = r_hist x' ->
  rec_unary_code ops t code c x = Some (Ok (t1, y)) ->
  exists t1' y', rec_unary_code ops t' code c x' = Some (Ok (t1', y')) /\ r_hist y = r_hist y'.
Proof.
  intros Hh. unfold rec_unary_code. destruct code as [|code].
  - unfold rec_neg. rewrite <- Hh. destruct (r_hist x) as [h|] eqn:Eh.
    + unfold rec_binary. cbn [rec_constant r_hist r_num r_idx same_list negb]. rewrite Eh, <- Hh. cbn.
      intros E. inversion E; subst. eexists _, _. split; reflexivity.
    + intros E. inversion E; subst. eexists _, _. split; reflexivity.
  - destruct (unfn_of ops (S code) c) as [f|]; [|discriminate]. unfold rec_unary. rewrite <- Hh.
    destruct (r_hist x); cbn; intros E; inversion E; subst; eexists _, _; split; reflexivity.
Qed.

Lemma rec_binary_hsim f (x x' y y' : rec) t t' t1 z : r_hist x = r_hist x' -> r_hist y = r_hist y' ->
  rec_binary ops t f x y = Ok (t1, z) ->
  exists t1' z', rec_binary ops t' f x' y' = Ok (t1', z') /\ r_hist z = r_hist z'.
Proof.
  intros Hx Hy. unfold rec_binary. rewrite <- Hx, <- Hy. destruct (negb _); [discriminate|].
  destruct (r_hist x), (r_hist y); cbn; intros E; inversion E; subst; eexists _, _; split; reflexivity.
Qed.

Lemma rec_eval_hsim first : forall e (x x' : rec) t t' t1 y, r_hist x = r_hist x' ->
  rec_eval ops t e x first = Some (Ok (t1, y)) ->
  exists t1' y', rec_eval ops t' e x' first = Some (Ok (t1', y')) /\ r_hist y = r_hist y'.
Proof.
  induction e as [|c|e1 IH1|code c e1 IH1|code e1 IH1 e2 IH2|e1 IH1 e2 IH2|]; intros x x' t t' t1 y Hh; cbn [rec_eval].
  - intros E; inversion E; subst. eexists _, _. split; [reflexivity|exact Hh].
  - intros E; inversion E; subst. eexists _, _. split; reflexivity.
  - destruct (rec_eval ops t e1 x first) as [[[t2 r]| |]|] eqn:E1; try discriminate.
    destruct (IH1 _ _ _ t' _ _ Hh E1) as (t2' & r' & E1' & _). rewrite E1'.
    intros E; inversion E; subst. eexists _, _. split; reflexivity.
  - destruct (rec_eval ops t e1 x first) as [[[t2 r]| |]|] eqn:E1; try discriminate.
    destruct (IH1 _ _ _ t' _ _ Hh E1) as (t2' & r' & E1' & Hr). rewrite E1'.
    intros E. eapply rec_unary_code_hsim; eauto.
  - destruct (binfn_of ops code) as [f|]; [|discriminate].
    destruct (rec_eval ops t e1 x first) as [[[t2 r1]| |]|] eqn:E1; try discriminate.
    destruct (IH1 _ _ _ t' _ _ Hh E1) as (t2' & r1' & E1' & Hr1). rewrite E1'.
    destruct (rec_eval ops t2 e2 x first) as [[[t3 r2]| |]|] eqn:E2; try discriminate.
    destruct (IH2 _ _ _ t2' _ _ Hh E2) as (t3' & r2' & E2' & Hr2). rewrite E2'.
    intros E. inversion E as [E']. destruct (rec_binary_hsim f _ _ _ _ _ t3' _ _ Hr1 Hr2 E') as (t4 & z' & Ez & Hz).
    rewrite Ez. eexists _, _. split; [reflexivity|exact Hz].
  - destruct first; [apply IH1|apply IH2]; exact Hh.
  - intros E; inversion E; subst. eexists _, _. split; reflexivity.
Qed.

Lemma eval_each_hsim e : forall (rs rs' : list rec) first t t' t1 ys, hsim rs rs' ->
  eval_each ops t e rs first = Some (Ok (t1, ys)) ->
  exists t1' ys', eval_each ops t' e rs' first = Some (Ok (t1', ys')) /\ hsim ys ys'.
Proof.
  induction rs as [|r rest IH]; intros [|r' rest'] first t t' t1 ys H; cbn in H; try discriminate.
  - cbn. intros E; inversion E; subst. eexists _, _. split; reflexivity.
  - inversion H as [[H1 H2]]. cbn [eval_each].
    destruct (rec_eval ops t e r first) as [[[t2 y]| |]|] eqn:E1; try discriminate.
    destruct (rec_eval_hsim first e _ _ _ t' _ _ H1 E1) as (t2' & y' & E1' & Hy). rewrite E1'.
    destruct (eval_each ops t2 e rest false) as [[[t3 yr]| |]|] eqn:E2; try discriminate.
    destruct (IH _ _ _ t2' _ _ H2 E2) as (t3' & yr' & E2' & Hyr). rewrite E2'.
    intros E; inversion E; subst. eexists _, _. split; [reflexivity|]. unfold hsim in *. cbn. congruence.
Qed.

Lemma eval_each2_hsim e1 e2 : forall (rs rs' : list rec) first t t' t1 ys1 ys2, hsim rs rs' ->
  eval_each2 ops t e1 e2 rs first = Some (Ok (t1, (ys1, ys2))) ->
  exists t1' ys1' ys2', eval_each2 ops t' e1 e2 rs' first = Some (Ok (t1', (ys1', ys2'))) /\
    hsim ys1 ys1' /\ hsim ys2 ys2'.
Proof.
  induction rs as [|r rest IH]; intros [|r' rest'] first t t' t1 ys1 ys2 H; cbn in H; try discriminate.
  - cbn. intros E; inversion E; subst. eexists _, _, _. repeat split; reflexivity.
  - inversion H as [[H1 H2]]. cbn [eval_each2].
    destruct (rec_eval ops t e1 r first) as [[[t2 y1]| |]|] eqn:E1; try discriminate.
    destruct (rec_eval_hsim first e1 _ _ _ t' _ _ H1 E1) as (t2' & y1' & E1' & Hy1). rewrite E1'.
    destruct (rec_eval ops t2 e2 r first) as [[[t3 y2]| |]|] eqn:E2; try discriminate.
    destruct (rec_eval_hsim first e2 _ _ _ t2' _ _ H1 E2) as (t3' & y2' & E2' & Hy2). rewrite E2'.
    destruct (eval_each2 ops t3 e1 e2 rest false) as [[[t4 [yr1 yr2]]| |]|] eqn:E3; try discriminate.
    destruct (IH _ _ _ t3' _ _ _ H2 E3) as (t4' & yr1' & yr2' & E3' & Hr1 & Hr2). rewrite E3'.
    intros E; inversion E; subst. eexists _, _, _. split; [reflexivity|]. unfold hsim in *. cbn. split; congruence.
Qed.

Lemma each_unary_hsim code c : forall (rs rs' : list rec) t t' t1 ys, hsim rs rs' ->
  each_unary ops t code c rs = Some (Ok (t1, ys)) ->
  exists t1' ys', each_unary ops t' code c rs' = Some (Ok (t1', ys')) /\ hsim ys ys'.
Proof.
  induction rs as [|r rest IH]; intros [|r' rest'] t t' t1 ys H; cbn in H; try discriminate.
  - cbn. intros E; inversion E; subst. eexists _, _. split; reflexivity.
  - inversion H as [[H1 H2]]. cbn [each_unary].
    destruct (rec_unary_code ops t code c r) as [[[t2 y]| |]|] eqn:E1; try discriminate.
    destruct (rec_unary_code_hsim code c _ _ _ t' _ _ H1 E1) as (t2' & y' & E1' & Hy). rewrite E1'.
    destruct (each_unary ops t2 code c rest) as [[[t3 yr]| |]|] eqn:E2; try discriminate.
    destruct (IH _ _ t2' _ _ H2 E2) as (t3' & yr' & E2' & Hyr). rewrite E2'.
    intros E; inversion E; subst. eexists _, _. split; [reflexivity|]. unfold hsim in *. cbn. congruence.
Qed.

Lemma each_binary_hsim f : forall (xs xs' ys ys' : list rec) t t' t1 zs, hsim xs xs' -> hsim ys ys' ->
  each_binary ops t f xs ys = Ok (t1, zs) ->
  exists t1' zs', each_binary ops t' f xs' ys' = Ok (t1', zs') /\ hsim zs zs'.
Proof.
  induction xs as [|x xr IH]; intros [|x' xr'] ys ys' t t' t1 zs Hx Hy; cbn in Hx; try discriminate.
  - cbn. intros E; inversion E; subst. eexists _, _. split; reflexivity.
  - inversion Hx as [[Hx1 Hx2]]. destruct ys as [|y yr], ys' as [|y' yr']; cbn in Hy; try discriminate.
    + cbn. intros E; inversion E; subst. eexists _, _. split; reflexivity.
    + inversion Hy as [[Hy1 Hy2]]. cbn [each_binary].
      destruct (rec_binary ops t f x y) as [[t2 z]| |] eqn:E1; try discriminate.
      destruct (rec_binary_hsim f _ _ _ _ _ t' _ _ Hx1 Hy1 E1) as (t2' & z' & E1' & Hz). rewrite E1'.
      destruct (each_binary ops t2 f xr yr) as [[t3 zr]| |] eqn:E2; try discriminate.
      destruct (IH _ _ _ _ t2' _ _ Hx2 Hy2 E2) as (t3' & zr' & E2' & Hzr). rewrite E2'.
      intros E; inversion E; subst. eexists _, _. split; [reflexivity|]. unfold hsim in *. cbn. congruence.
Qed.


Notation mk h := (fun p : R * nat => mkRec (fst p) h (snd p)).

Lemma rec_binary_swap_hsim f (x y : rec) t t' t1 z :
  rec_binary ops t (swap_binfn f) y x = Ok (t1, z) ->
  exists t1' z', rec_binary ops t' f x y = Ok (t1', z') /\ r_hist z = r_hist z'.
Proof.
  unfold rec_binary. destruct (r_hist x) as [hx|] eqn:Ex, (r_hist y) as [hy|] eqn:Ey; cbn.
  - destruct (Nat.eqb_spec hy hx) as [->|]; cbn; [rewrite Nat.eqb_refl; cbn|discriminate].
    intros E; inversion E; subst. eexists _, _. split; reflexivity.
  - intros E; inversion E; subst. eexists _, _. split; reflexivity.
  - intros E; inversion E; subst. eexists _, _. split; reflexivity.
  - intros E; inversion E; subst. eexists _, _. split; reflexivity.
Qed.

Lemma each_binary_swap_hsim f : forall (ys xs : list rec) t t' t1 zs,
  each_binary ops t (swap_binfn f) ys xs = Ok (t1, zs) ->
  exists t1' zs', each_binary ops t' f xs ys = Ok (t1', zs') /\ hsim zs zs'.
Proof.
  induction ys as [|y yr IH]; intros [|x xr] t t' t1 zs; cbn [each_binary];
    try (intros E; inversion E; subst; eexists _, _; split; reflexivity).
  destruct (rec_binary ops t (swap_binfn f) y x) as [[t2 z]| |] eqn:E1; try discriminate.
  destruct (rec_binary_swap_hsim f _ _ _ t' _ _ E1) as (t2' & z' & E1' & Hz). rewrite E1'.
  destruct (each_binary ops t2 (swap_binfn f) yr xr) as [[t3 zr]| |] eqn:E2; try discriminate.
  destruct (IH _ _ t2' _ _ E2) as (t3' & zr' & E2' & Hzr). rewrite E2'.
  intros E; inversion E; subst. eexists _, _. split; [reflexivity|]. unfold hsim in *. cbn. congruence.
Qed.

(* the container binary operation is, record by record, the Record operator *)
Lemma c_binary_each t f (x y : cont) t' z : c_binary ops t f x y = Ok (t', z) ->
  each_binary ops t f (as_records x) (as_records y) = Ok (t', as_records z) /\
  c_tensor z = c_tensor x /\ c_shape z = c_shape x.
Proof.
  unfold c_binary. rewrite !as_records_mk. destruct (negb _); [discriminate|].
  destruct (c_hist x) as [h|], (c_hist y) as [h2|].
  - destruct (Nat.eqb_spec h h2) as [<-|]; cbn [negb]; [|discriminate].
    pose proof (both_loop_eq ops h f (c_data x) (c_data y) t) as Q.
    destruct (binary_both_loop t f (c_data x) (c_data y)) as [t1 zs]. intros E; inversion E; subst.
    rewrite Q. cbn [c_data c_hist c_tensor c_shape]. auto.
  - pose proof (x_loop_eq ops h f (c_data x) (c_data y) t) as Q.
    destruct (binary_x_loop ops t f (c_data x) (c_data y)) as [t1 zs]. intros E; inversion E; subst.
    rewrite Q. cbn [c_data c_hist c_tensor c_shape]. auto.
  - pose proof (y_loop_eq ops h2 f (c_data x) (c_data y) t) as Q.
    destruct (binary_y_loop ops t f (c_data x) (c_data y)) as [t1 zs]. intros E; inversion E; subst.
    rewrite Q. cbn [c_data c_hist c_tensor c_shape]. auto.
  - intros E; inversion E; subst. rewrite (none_loop_eq ops f). cbn [c_data c_hist c_tensor c_shape]. auto.
Qed.

Lemma thread_un_hsim f : forall (rs : list rec) t t' ys, thread_un ops t f rs = (t', ys) -> hsim rs ys.
Proof.
  induction rs as [|r rest IH]; intros t t' ys; cbn [thread_un].
  - intros E; inversion E. reflexivity.
  - destruct (rec_unary ops t f r) as [t1 y] eqn:E1. destruct (thread_un ops t1 f rest) as [t2 yr] eqn:E2.
    intros E; inversion E; subst. unfold hsim. cbn. f_equal; [|eapply IH; eauto].
    revert E1. unfold rec_unary. destruct (r_hist r) eqn:Eh; cbn; intros Q; inversion Q; subst; cbn; congruence.
Qed.

Lemma c_unary_hsim t assign f (x : cont) t' y : c_unary ops t assign f x = (t', y) ->
  hsim (as_records x) (as_records y) /\ c_tensor y = c_tensor x /\ c_shape y = c_shape x.
Proof.
  unfold c_unary. rewrite as_records_mk. destruct (c_hist x) as [h|] eqn:Eh.
  - pose proof (unary_loop_eq ops h f (c_data x) t) as Q.
    destruct (unary_loop ops t f (c_data x)) as [t1 ys]. intros E; inversion E; subst.
    split; [|auto]. rewrite as_records_mk. cbn [c_data c_hist]. eapply thread_un_hsim. exact Q.
  - intros E; inversion E; subst. split; [|auto]. rewrite as_records_mk. cbn [c_data c_hist].
    unfold hsim. rewrite !map_map. reflexivity.
Qed.

(* uniform histories *)
Definition all_hist (h : hist) (rs : list rec) : Prop := Forall (fun r => r_hist r = h) rs.

Lemma all_hist_map h rs : all_hist h rs -> map (@r_hist R) rs = repeat h (length rs).
Proof. induction 1; cbn; congruence. Qed.

Lemma all_hist_of_map h rs : map (@r_hist R) rs = repeat h (length rs) -> all_hist h rs.
Proof.
  induction rs as [|r rest IH]; cbn; intros H; [constructor|]. injection H as H1 H2. constructor; [exact H1|apply IH; exact H2].
Qed.

Lemma hsim_as_records (c : cont) rs : hsim (as_records c) rs -> all_hist (c_hist c) rs /\ length rs = length (c_data c).
Proof.
  intros H. pose proof (hsim_length _ _ H) as L. rewrite as_records_mk, map_length in L. split; [|auto].
  apply all_hist_of_map. unfold hsim in H. rewrite <- H, as_records_mk, map_map. cbn [r_hist].
  rewrite <- L. clear. induction (c_data c); cbn; congruence.
Qed.

Lemma same_list_refl h : same_list h h = true.
Proof. destruct h; cbn; [apply Nat.eqb_refl|reflexivity]. Qed.

Lemma rec_binary_total f (x y : rec) t : same_list (r_hist x) (r_hist y) = true ->
  exists t' z, rec_binary ops t f x y = Ok (t', z) /\ r_hist z = first_hist (r_hist x) (r_hist y).
Proof.
  intros H. unfold rec_binary. rewrite H. cbn [negb].
  destruct (r_hist x), (r_hist y); cbn; eexists _, _; split; reflexivity.
Qed.

Lemma each_binary_total f hx hy : same_list hx hy = true -> forall (xs ys : list rec) t,
  all_hist hx xs -> all_hist hy ys ->
  exists t' zs, each_binary ops t f xs ys = Ok (t', zs) /\ all_hist (first_hist hx hy) zs /\
                length zs = length (combine xs ys).
Proof.
  intros Hs. induction xs as [|x xr IH]; intros [|y yr] t Hx Hy; cbn [each_binary combine];
    try (eexists _, _; split; [reflexivity|split; [constructor|reflexivity]]).
  pose proof (Forall_inv Hx) as Hx1. pose proof (Forall_inv_tail Hx) as Hxr.
  pose proof (Forall_inv Hy) as Hy1. pose proof (Forall_inv_tail Hy) as Hyr. cbn beta in Hx1, Hy1.
  destruct (rec_binary_total f x y t) as (t1 & z & E1 & Hz); [rewrite Hx1, Hy1; exact Hs|]. rewrite E1.
  destruct (IH yr t1 Hxr Hyr) as (t2 & zr & E2 & Hzr & Lz). rewrite E2.
  eexists _, _. split; [reflexivity|]. split; [constructor; [rewrite Hz, Hx1, Hy1; reflexivity|exact Hzr]|cbn; lia].
Qed.

Lemma each_sum_total h : forall (rs : list rec) t (acc : rec), r_hist acc = h -> all_hist h rs ->
  exists t' z, each_sum ops t acc rs = Ok (t', z) /\ r_hist z = h.
Proof.
  induction rs as [|r rest IH]; intros t acc Ha Hr; cbn [each_sum].
  - eexists _, _. split; [reflexivity|exact Ha].
  - pose proof (Forall_inv Hr) as Hr1. pose proof (Forall_inv_tail Hr) as Hrr. cbn beta in Hr1.
    destruct (rec_binary_total (Addition ops) acc r t) as (t1 & s & E1 & Hs); [rewrite Ha, Hr1; apply same_list_refl|].
    rewrite E1. apply IH; [|exact Hrr]. rewrite Hs, Ha, Hr1. destruct h; reflexivity.
Qed.

Lemma In_firstn {A} (a : A) : forall n l, In a (firstn n l) -> In a l.
Proof. induction n; intros [|x l]; cbn; try tauto. intros [H|H]; auto. Qed.
Lemma In_skipn {A} (a : A) : forall n l, In a (skipn n l) -> In a l.
Proof. induction n; intros [|x l]; cbn; try tauto. intros H. right. apply IHn. exact H. Qed.
Lemma all_hist_firstn h n rs : all_hist h rs -> all_hist h (firstn n rs).
Proof. intros H. unfold all_hist. apply Forall_forall. intros r Hr. apply (proj1 (Forall_forall _ _) H). eapply In_firstn; eauto. Qed.
Lemma all_hist_skipn h n rs : all_hist h rs -> all_hist h (skipn n rs).
Proof. intros H. unfold all_hist. apply Forall_forall. intros r Hr. apply (proj1 (Forall_forall _ _) H). eapply In_skipn; eauto. Qed.
Lemma all_hist_row h n rs i : all_hist h rs -> all_hist h (row_of n rs i).
Proof. intros H. unfold row_of. apply all_hist_firstn, all_hist_skipn, H. Qed.
Lemma all_hist_column h rows cols rs j : all_hist h rs -> all_hist h (column_of rows cols rs j).
Proof.
  intros H. unfold column_of, all_hist. induction (seq 0 rows) as [|k r IH]; cbn [flat_map]; [constructor|].
  apply Forall_app. split; [apply all_hist_firstn, all_hist_skipn, H|exact IH].
Qed.

Lemma each_cells_total hx hy rows inner columns (l r : list rec) : same_list hx hy = true ->
  all_hist hx l -> all_hist hy r ->
  forall cs t, (forall ij, In ij cs -> combine (row_of inner l (fst ij)) (column_of inner columns r (snd ij)) <> []) ->
  exists t' zs, each_cells ops t rows inner columns l r cs = Ok (t', zs) /\
                all_hist (first_hist hx hy) zs /\ length zs = length cs.
Proof.
  intros Hs Hl Hr. induction cs as [|[i j] rest IH]; intros t Hne; cbn [each_cells].
  - eexists _, _. split; [reflexivity|]. split; [constructor|reflexivity].
  - rewrite each_products_eq.
    destruct (each_binary_total (Multiplication ops) hx hy Hs (row_of inner l i) (column_of inner columns r j) t
                (all_hist_row _ _ _ _ Hl) (all_hist_column _ _ _ _ _ Hr)) as (t1 & ps & E1 & Hps & Lps).
    rewrite E1. destruct ps as [|p ps].
    + exfalso. apply (Hne (i, j) (or_introl eq_refl)). cbn [fst snd].
      destruct (combine _ _); [reflexivity|discriminate].
    + pose proof (Forall_inv Hps) as Hp. pose proof (Forall_inv_tail Hps) as Hps'. cbn beta in Hp.
      destruct (each_sum_total _ ps t1 p Hp Hps') as (t2 & z & E2 & Hz). rewrite E2.
      destruct (IH t2) as (t3 & zr & E3 & Hzr & Lz); [intros ij Hin; apply Hne; right; exact Hin|]. rewrite E3.
      eexists _, _. split; [reflexivity|]. split; [constructor; assumption|cbn; lia].
Qed.

Lemma matmul_cells_nonempty lh rh rows inner columns (ld rd : list (R * nat)) : forall cs t t' zs,
  matmul_cells ops t lh rh rows inner columns ld rd cs = Some (t', zs) ->
  length zs = length cs /\
  forall ij, In ij cs -> combine (row_of inner ld (fst ij)) (column_of inner columns rd (snd ij)) <> [].
Proof.
  induction cs as [|[i j] rest IH]; intros t t' zs; cbn [matmul_cells].
  - intros E; inversion E. split; [reflexivity|intros ? []].
  - destruct (record_scalar_product ops t lh rh (row_of inner ld i) (column_of inner columns rd j)) as [[t1 z]|] eqn:E1;
      [|discriminate].
    destruct (matmul_cells ops t1 lh rh rows inner columns ld rd rest) as [[t2 zr]|] eqn:E2; [|discriminate].
    intros E; inversion E; subst. destruct (IH _ _ _ E2) as [L N]. split; [cbn; lia|].
    intros ij [<-|Hin]; [|apply N; exact Hin]. cbn [fst snd]. intros Hc.
    revert E1. unfold record_scalar_product. rewrite Hc. destruct (first_hist lh rh); discriminate.
Qed.


Lemma rec_unary_code_total code c f (x : rec) t : unfn_of ops code c = Some f ->
  exists t' y, rec_unary_code ops t code c x = Some (Ok (t', y)) /\ r_hist y = r_hist x.
Proof.
  intros Hf. unfold rec_unary_code. destruct code as [|code].
  - unfold rec_neg. destruct (r_hist x) as [h|] eqn:Eh.
    + unfold rec_binary. cbn [rec_constant r_hist r_num r_idx same_list negb]. rewrite Eh. cbn.
      eexists _, _. split; reflexivity.
    + eexists _, _. split; [reflexivity|]. cbn. auto.
  - rewrite Hf. unfold rec_unary. destruct (r_hist x) eqn:Eh; cbn; eexists _, _; split; try reflexivity; cbn; auto.
Qed.

Lemma each_unary_total code c f : unfn_of ops code c = Some f -> forall (rs : list rec) t,
  exists t' ys, each_unary ops t code c rs = Some (Ok (t', ys)) /\ hsim rs ys.
Proof.
  intros Hf. induction rs as [|r rest IH]; intros t; cbn [each_unary].
  - eexists _, _. split; reflexivity.
  - destruct (rec_unary_code_total code c f r t Hf) as (t1 & y & E1 & Hy). rewrite E1.
    destruct (IH t1) as (t2 & yr & E2 & Hyr). rewrite E2. eexists _, _. split; [reflexivity|].
    unfold hsim in *. cbn. congruence.
Qed.

Lemma map_const {A B} (c : B) (l : list A) : map (fun _ => c) l = repeat c (length l).
Proof. induction l; cbn; congruence. Qed.

Lemma vars_e_hist : forall data t t' (rs : list rec), vars_e ops t data = (t', rs) ->
  map (@r_hist R) rs = repeat (Some 0) (length data).
Proof.
  induction data as [|x dr IH]; intros t t' rs; cbn [vars_e rec_variable append_nullary].
  - intros E; inversion E. reflexivity.
  - destruct (vars_e ops (t ++ [_]) dr) as [t2 rr] eqn:E2. intros E; inversion E; subst.
    cbn. f_equal. eapply IH; eauto.
Qed.

Lemma shape_eqb_sym b : forall a1 a2, shape_eqb b a1 a2 = shape_eqb b a2 a1.
Proof.
  unfold shape_eqb. induction a1 as [|[n1 l1] r1 IH]; intros [|[n2 l2] r2]; cbn; try reflexivity.
  specialize (IH r2). cbn in IH.
  rewrite (Nat.eqb_sym n1 n2), (Nat.eqb_sym l1 l2).
  destruct (Nat.eqb (length r1) (length r2)) eqn:E1, (Nat.eqb (length r2) (length r1)) eqn:E2; cbn in *;
    try (apply Nat.eqb_eq in E1; apply Nat.eqb_neq in E2; congruence);
    try (apply Nat.eqb_neq in E1; apply Nat.eqb_eq in E2; congruence); try reflexivity.
  rewrite IH. reflexivity.
Qed.

Lemma map_column_major {A B} (f : A -> B) sh l : map f (column_major sh l) = column_major sh (map f l).
Proof.
  unfold column_major. destruct sh as [|[? rows] [|[? cols] [|]]]; try reflexivity.
  induction (seq 0 cols) as [|j r IH]; cbn [flat_map map]; [reflexivity|].
  rewrite map_app, IH, map_column_of. reflexivity.
Qed.

Lemma hsim_column_major sh (l l' : list rec) : hsim l l' -> hsim (column_major sh l) (column_major sh l').
Proof. unfold hsim. intros H. rewrite !map_column_major, H. reflexivity. Qed.


(* ---- from_iters::<N> and generic views *)
Lemma eval_list_hsim first : forall es (x x' : rec) t t' t1 ys, r_hist x = r_hist x' ->
  eval_list ops t es x first = Some (Ok (t1, ys)) ->
  exists t1' ys', eval_list ops t' es x' first = Some (Ok (t1', ys')) /\ hsim ys ys'.
Proof.
  induction es as [|e er IH]; intros x x' t t' t1 ys Hh; cbn [eval_list].
  - intros E; inversion E; subst. eexists _, _. split; reflexivity.
  - destruct (rec_eval ops t e x first) as [[[t2 y]| |]|] eqn:E1; try discriminate.
    destruct (rec_eval_hsim first e _ _ _ t' _ _ Hh E1) as (t2' & y' & E1' & Hy). rewrite E1'.
    destruct (eval_list ops t2 er x first) as [[[t3 yr]| |]|] eqn:E2; try discriminate.
    destruct (IH _ _ _ t2' _ _ Hh E2) as (t3' & yr' & E2' & Hyr). rewrite E2'.
    intros E; inversion E; subst. eexists _, _. split; [reflexivity|]. unfold hsim in *. cbn. congruence.
Qed.

Definition hsims (cols cols' : list (list rec)) : Prop := Forall2 hsim cols cols'.

Lemma push_row_hsim : forall (ys ys' : list rec) cols cols', hsim ys ys' -> hsims cols cols' ->
  hsims (push_row ys cols) (push_row ys' cols').
Proof.
  induction ys as [|y yr IH]; intros [|y' yr'] cols cols' Hy Hc; cbn in Hy; try discriminate; cbn [push_row]; [constructor|].
  inversion Hy as [[H1 H2]]. inversion Hc; subst; [constructor|]. constructor.
  - unfold hsim in *. cbn. congruence.
  - apply IH; assumption.
Qed.

Lemma eval_eachN_hsim es : forall (rs rs' : list rec) first t t' t1 cols, hsim rs rs' ->
  eval_eachN ops t es rs first = Some (Ok (t1, cols)) ->
  exists t1' cols', eval_eachN ops t' es rs' first = Some (Ok (t1', cols')) /\ hsims cols cols'.
Proof.
  induction rs as [|r rest IH]; intros [|r' rest'] first t t' t1 cols H; cbn in H; try discriminate.
  - cbn. intros E; inversion E; subst. eexists _, _. split; [reflexivity|].
    clear. induction es; cbn [map]; constructor; [reflexivity|assumption].
  - inversion H as [[H1 H2]]. cbn [eval_eachN].
    destruct (eval_list ops t es r first) as [[[t2 ys]| |]|] eqn:E1; try discriminate.
    destruct (eval_list_hsim first es _ _ _ t' _ _ H1 E1) as (t2' & ys' & E1' & Hy). rewrite E1'.
    destruct (eval_eachN ops t2 es rest false) as [[[t3 cr]| |]|] eqn:E2; try discriminate.
    destruct (IH _ _ _ t2' _ _ H2 E2) as (t3' & cr' & E2' & Hcr). rewrite E2'.
    intros E; inversion E; subst. eexists _, _. split; [reflexivity|]. apply push_row_hsim; assumption.
Qed.

Lemma hsim_firstn n (l l' : list rec) : hsim l l' -> hsim (firstn n l) (firstn n l').
Proof. unfold hsim. intros H. rewrite <- !firstn_map, H. reflexivity. Qed.

Lemma hsim_Forall2 (l l' : list rec) : hsim l l' <-> Forall2 (fun r r' => r_hist r = r_hist r') l l'.
Proof.
  split.
  - revert l'. induction l as [|a r IH]; intros [|b r'] H; cbn in H; try discriminate; constructor.
    + unfold hsim in H. cbn in H. congruence.
    + apply IH. unfold hsim in *. cbn in H. congruence.
  - induction 1; unfold hsim in *; cbn; congruence.
Qed.

Definition hl (c : cont) (e : econt) : Prop := link c e /\ hsim (as_records c) (e_recs e).

Lemma c_binary_shape t f (x y : cont) r : c_binary ops t f x y = Ok r ->
  shape_eqb (c_tensor x) (c_shape x) (c_shape y) = true.
Proof. unfold c_binary. destruct (shape_eqb _ _ _); [reflexivity|discriminate]. Qed.

Lemma e_step_completes cenv eenv ct o ct' cs et :
  Forall2 hl cenv eenv -> cstep ops (ct, cenv) o = Some (Ok (ct', cs)) ->
  exists et' es, estep ops (et, eenv) o = Some (Ok (et', es)) /\ Forall2 hl cs es.
Proof.
  intros F. destruct o as [tensor var sh data|assign code c a|mode code a b|a b|mu e a|tensor sh cm e a|e1 e2 a|kind a|f srcs|tensor sh cm take el a];
    cbn [cstep estep].
  - (* declarations *)
    destruct (negb (shape_valid sh (length data)) || negb (tensor || Nat.eqb (length sh) 2)) eqn:Ev; [discriminate|].
    apply orb_false_iff in Ev as [Ev _]. apply negb_false_iff in Ev. apply shape_valid_elements in Ev.
    destruct var.
    + unfold c_variables. rewrite Ev. intros E; inversion E; subst. rewrite fold_vars_e.
      destruct (vars_e ops et data) as [t2 rs] eqn:Ee. eexists _, _. split; [reflexivity|].
      constructor; [|constructor]. split; [split; reflexivity|].
      unfold hsim. cbn [app e_recs]. rewrite (vars_e_hist _ _ _ _ Ee), as_records_mk, map_map. cbn [c_data c_hist r_hist].
      rewrite map_const, combine_length. unfold incrementing_indexes. rewrite seq_length, Nat.min_id. reflexivity.
    + intros E; inversion E; subst. eexists _, _. split; [reflexivity|].
      constructor; [|constructor]. split; [split; reflexivity|].
      unfold hsim, c_constants. rewrite as_records_mk. cbn [c_data c_hist e_recs]. rewrite !map_map. reflexivity.
  - (* unary *)
    destruct (nth_error cenv a) as [cx|] eqn:Ea; [|discriminate].
    destruct (Forall2_nth_error _ _ _ _ _ F Ea) as (ex & Ee & [[L1 L2] Hh]). rewrite Ee.
    destruct (unfn_of ops code c) as [f|] eqn:Ef; [|discriminate].
    destruct (c_unary ops ct assign f cx) as [t1 y] eqn:Ec. intros E; inversion E; subst.
    destruct (c_unary_hsim _ _ _ _ _ _ Ec) as (Hy & T & S).
    destruct (each_unary_total code c f Ef (e_recs ex) et) as (t2 & ys & Eu & Hys). rewrite Eu. cbn [omap fst snd].
    eexists _, _. split; [reflexivity|]. constructor; [|constructor].
    split; [split; cbn; congruence|]. unfold hsim in *. cbn [e_recs]. congruence.
  - (* binary *)
    destruct (nth_error cenv a) as [cx|] eqn:Ea; [|discriminate].
    destruct (nth_error cenv b) as [cy|] eqn:Eb; [|discriminate].
    destruct (Forall2_nth_error _ _ _ _ _ F Ea) as (ex & Eea & [[Lx1 Lx2] Hx]). rewrite Eea.
    destruct (Forall2_nth_error _ _ _ _ _ F Eb) as (ey & Eeb & [[Ly1 Ly2] Hy]). rewrite Eeb.
    destruct (binfn_of ops code) as [f|]; [|discriminate].
    rewrite <- Lx1, <- Ly1, <- Lx2, <- Ly2.
    destruct (Bool.eqb (c_tensor cx) (c_tensor cy)) eqn:Etf; cbn [negb]; [|discriminate].
    apply Bool.eqb_prop in Etf.
    destruct (Nat.eqb mode 0 && Nat.ltb 1 code); [discriminate|].
    destruct (c_binop ops ct mode f cx cy) as [[[t1 z]| |]|] eqn:Ec; try discriminate.
    cbn [omap fst snd]. intros E; injection E as E1' E2'; subst ct' cs.
    unfold c_binop in Ec.
    assert (K : forall g (u v : cont) (eu ev : econt), c_binary ops ct g u v = Ok (t1, z) ->
              hsim (as_records u) (e_recs eu) -> hsim (as_records v) (e_recs ev) ->
              exists t2 zs, each_binary ops et g (e_recs eu) (e_recs ev) = Ok (t2, zs) /\
                            hsim (as_records z) zs /\ c_tensor z = c_tensor u /\ c_shape z = c_shape u).
    { intros g u v eu ev Hb Hu Hv. destruct (c_binary_each _ _ _ _ _ _ Hb) as (Q & T & S).
      destruct (each_binary_hsim g _ _ _ _ _ et _ _ Hu Hv Q) as (t2 & zs & E2 & Hz). eauto 8. }
    destruct mode as [|[|[|[|m]]]]; try discriminate; cbn [Nat.ltb Nat.leb Nat.eqb].
    + destruct (negb (same_list (c_hist cx) (c_hist cy))); [discriminate|]. inversion Ec as [Ec'].
      rewrite (c_binary_shape _ _ _ _ _ Ec'). cbn [negb].
      destruct (K f cx cy ex ey Ec' Hx Hy) as (t2 & zs & E2 & Hz & T & S). rewrite E2. cbn [omap fst snd].
      eexists _, _. split; [reflexivity|]. constructor; [|constructor]. split; [split; cbn; congruence|exact Hz].
    + inversion Ec as [Ec']. rewrite (c_binary_shape _ _ _ _ _ Ec'). cbn [negb].
      destruct (K f cx cy ex ey Ec' Hx Hy) as (t2 & zs & E2 & Hz & T & S). rewrite E2. cbn [omap fst snd].
      eexists _, _. split; [reflexivity|]. constructor; [|constructor]. split; [split; cbn; congruence|exact Hz].
    + inversion Ec as [Ec']. rewrite (c_binary_shape _ _ _ _ _ Ec'). cbn [negb].
      destruct (K f cx cy ex ey Ec' Hx Hy) as (t2 & zs & E2 & Hz & T & S). rewrite E2. cbn [omap fst snd].
      eexists _, _. split; [reflexivity|]. constructor; [|constructor]. split; [split; cbn; congruence|exact Hz].
    + inversion Ec as [Ec']. pose proof (c_binary_shape _ _ _ _ _ Ec') as Sh.
      rewrite <- Etf, shape_eqb_sym in Sh. rewrite Sh. cbn [negb].
      destruct (c_binary_each _ _ _ _ _ _ Ec') as (Q & T & S).
      destruct (each_binary_swap_hsim f _ _ _ ct _ _ Q) as (t0 & zs0 & E0 & Hz0).
      destruct (each_binary_hsim f _ _ _ _ _ et _ _ Hx Hy E0) as (t2 & zs & E2 & Hz). rewrite E2. cbn [omap fst snd].
      eexists _, _. split; [reflexivity|]. constructor; [|constructor].
      split; [split; cbn; congruence|]. unfold hsim in *. cbn [e_recs]. congruence.
  - (* matmul *)
    destruct (nth_error cenv a) as [cx|] eqn:Ea; [|discriminate].
    destruct (nth_error cenv b) as [cy|] eqn:Eb; [|discriminate].
    destruct (Forall2_nth_error _ _ _ _ _ F Ea) as (ex & Eea & [[Lx1 Lx2] Hx]). rewrite Eea.
    destruct (Forall2_nth_error _ _ _ _ _ F Eb) as (ey & Eeb & [[Ly1 Ly2] Hy]). rewrite Eeb.
    destruct (negb (Bool.eqb (c_tensor cx) (c_tensor cy)) || negb (Nat.eqb (length (c_shape cx)) 2)
              || negb (Nat.eqb (length (c_shape cy)) 2)) eqn:Eg; [discriminate|].
    apply orb_false_iff in Eg as [Eg _]. apply orb_false_iff in Eg as [Eg _].
    unfold c_matmul. destruct (same_list (c_hist cx) (c_hist cy)) eqn:Hs; cbn [negb omap]; [|discriminate].
    rewrite <- Lx2, <- Ly2, <- Lx1, <- Ly1, Eg.
    destruct (c_shape cx) as [|[n0 rows] [|[n1 inner] [|]]]; try discriminate.
    destruct (c_shape cy) as [|[n2 inner2] [|[n3 columns] [|]]]; try discriminate.
    destruct (negb (Nat.eqb inner inner2)); [discriminate|].
    destruct (c_tensor cx && Nat.eqb n0 n3); [discriminate|].
    destruct (matmul_cells ops ct (c_hist cx) (c_hist cy) rows inner columns (c_data cx) (c_data cy) (cells rows columns))
      as [[t1 zs]|] eqn:E1; [|discriminate].
    cbn [omap fst snd]. intros E; inversion E; subst.
    destruct (matmul_cells_nonempty _ _ _ _ _ _ _ _ _ _ _ E1) as [Lz Ne].
    destruct (hsim_as_records _ _ Hx) as [Ax Lxl]. destruct (hsim_as_records _ _ Hy) as [Ay Lyl].
    destruct (each_cells_total (c_hist cx) (c_hist cy) rows inner columns (e_recs ex) (e_recs ey) Hs Ax Ay
                (cells rows columns) et) as (t2 & ws & E2 & Aw & Lw).
    { intros ij Hin Hc. apply (Ne ij Hin).
      assert (Hr : hsim (map (mk (c_hist cx)) (row_of inner (c_data cx) (fst ij))) (row_of inner (e_recs ex) (fst ij))).
      { unfold hsim in *. rewrite as_records_mk in Hx.
        rewrite (map_row_of (mk (c_hist cx))), !map_row_of, Hx. reflexivity. }
      assert (Hcl : hsim (map (mk (c_hist cy)) (column_of inner columns (c_data cy) (snd ij)))
                         (column_of inner columns (e_recs ey) (snd ij))).
      { unfold hsim in *. rewrite as_records_mk in Hy.
        rewrite (map_column_of (mk (c_hist cy))), !map_column_of, Hy. reflexivity. }
      apply hsim_length in Hr. apply hsim_length in Hcl. rewrite map_length in Hr, Hcl.
      destruct (row_of inner (c_data cx) (fst ij)), (row_of inner (e_recs ex) (fst ij)); cbn in *; try discriminate; try reflexivity;
        destruct (column_of inner columns (c_data cy) (snd ij)), (column_of inner columns (e_recs ey) (snd ij)); cbn in *;
        try discriminate; reflexivity. }
    rewrite E2. cbn [omap fst snd]. eexists _, _. split; [reflexivity|]. constructor; [|constructor].
    split; [split; reflexivity|]. unfold hsim. rewrite as_records_mk. cbn [c_data c_hist e_recs].
    rewrite map_map. cbn [r_hist]. rewrite map_const, (all_hist_map _ _ Aw). congruence.
  - (* map *)
    destruct (nth_error cenv a) as [cx|] eqn:Ea; [|discriminate].
    destruct (Forall2_nth_error _ _ _ _ _ F Ea) as (ex & Ee & [[L1 L2] Hh]). rewrite Ee.
    unfold c_map. destruct (eval_each ops ct e (as_records cx) true) as [[[t1 ys]| |]|] eqn:E1; try discriminate.
    destruct (c_from_iter (c_tensor cx) (c_shape cx) ys) as [c| |] eqn:Ef; try discriminate.
    cbn [omap fst snd]. intros E; inversion E; subst.
    destruct (eval_each_hsim e _ _ _ _ et _ _ Hh E1) as (t2 & zs & E2 & Hz). rewrite E2. cbn [omap fst snd].
    destruct (c_from_iter_records _ _ _ _ Ef) as (R1 & R2 & R3).
    eexists _, _. split; [reflexivity|]. constructor; [|constructor].
    split; [split; cbn; congruence|]. rewrite R1. exact Hz.
  - (* from_iter *)
    destruct (nth_error cenv a) as [cx|] eqn:Ea; [|discriminate].
    destruct (Forall2_nth_error _ _ _ _ _ F Ea) as (ex & Ee & [[L1 L2] Hh]). rewrite Ee.
    rewrite <- L1, <- L2. destruct (cm && c_tensor cx); [discriminate|].
    destruct (negb tensor && negb (Nat.eqb (length sh) 2)); [discriminate|].
    destruct (eval_each ops ct e (if cm then column_major (c_shape cx) (as_records cx) else as_records cx) true)
      as [[[t1 ys]| |]|] eqn:E1; try discriminate.
    destruct (c_from_iter tensor sh ys) as [c| |] eqn:Ef; try discriminate.
    cbn [omap]. intros E; inversion E; subst.
    assert (Hh' : hsim (if cm then column_major (c_shape cx) (as_records cx) else as_records cx)
                       (if cm then column_major (c_shape cx) (e_recs ex) else e_recs ex)).
    { destruct cm; [apply hsim_column_major|]; exact Hh. }
    destruct (eval_each_hsim e _ _ _ _ et _ _ Hh' E1) as (t2 & zs & E2 & Hz). rewrite E2. cbn [omap fst snd].
    destruct (c_from_iter_records _ _ _ _ Ef) as (R1 & R2 & R3).
    eexists _, _. split; [reflexivity|]. constructor; [|constructor].
    split; [split; cbn; congruence|]. rewrite R1. exact Hz.
  - (* from_iters *)
    destruct (nth_error cenv a) as [cx|] eqn:Ea; [|discriminate].
    destruct (Forall2_nth_error _ _ _ _ _ F Ea) as (ex & Ee & [[L1 L2] Hh]). rewrite Ee.
    destruct (eval_each2 ops ct e1 e2 (as_records cx) true) as [[[t1 [ys1 ys2]]| |]|] eqn:E1; try discriminate.
    destruct (c_from_iter (c_tensor cx) (c_shape cx) ys1) as [c1| |] eqn:Ef1; try discriminate;
      destruct (c_from_iter (c_tensor cx) (c_shape cx) ys2) as [c2| |] eqn:Ef2; try discriminate.
    intros E; inversion E; subst.
    destruct (eval_each2_hsim e1 e2 _ _ _ _ et _ _ _ Hh E1) as (t2 & zs1 & zs2 & E2 & Hz1 & Hz2). rewrite E2.
    cbn [omap fst snd].
    destruct (c_from_iter_records _ _ _ _ Ef1) as (R1 & R2 & R3).
    destruct (c_from_iter_records _ _ _ _ Ef2) as (Q1 & Q2 & Q3).
    eexists _, _. split; [reflexivity|]. constructor; [|constructor; [|constructor]].
    + split; [split; cbn; congruence|]. rewrite R1. exact Hz1.
    + split; [split; cbn; congruence|]. rewrite Q1. exact Hz2.
  - (* views *)
    destruct (nth_error cenv a) as [cx|] eqn:Ea; [|discriminate].
    destruct (Forall2_nth_error _ _ _ _ _ F Ea) as (ex & Ee & [[L1 L2] Hh]). rewrite Ee.
    rewrite <- L1, <- L2.
    assert (P : forall tensor sh,
              hl (mkCont tensor sh (column_major (c_shape cx) (c_data cx)) (c_hist cx))
                 (mkECont tensor sh (column_major (c_shape cx) (e_recs ex)))).
    { intros tensor sh. split; [split; reflexivity|]. rewrite as_records_mk in *. cbn [c_data c_hist e_recs].
      rewrite map_column_major6. apply hsim_column_major. exact Hh. }
    destruct kind as [|[|[|[|k]]]]; try discriminate.
    + destruct (c_tensor cx); [|discriminate]. destruct (c_shape cx) as [|[n0 r] [|[n1 c] [|]]]; try discriminate.
      intros E; inversion E; subst. eexists _, _. split; [reflexivity|]. constructor; [|constructor].
      exact (P false [(0, c); (1, r)]).
    + destruct (c_tensor cx); [|discriminate]. destruct (c_shape cx) as [|[n0 r] [|[n1 c] [|]]]; try discriminate.
      intros E; inversion E; subst. eexists _, _. split; [reflexivity|]. constructor; [|constructor].
      exact (P true [(n1, c); (n0, r)]).
    + intros E; inversion E; subst. eexists _, _. split; [reflexivity|]. constructor; [|constructor].
      split; [split; reflexivity|]. unfold hsim. rewrite as_records_mk. cbn [c_data c_hist e_recs]. rewrite !map_map.
      cbn [r_hist rec_constant]. pose proof (hsim_length _ _ Hh) as L. rewrite as_records_mk, map_length in L.
      rewrite !map_const. congruence.
  - (* generic views *)
    destruct (sequence (map (fun k => nth_error cenv k) srcs)) as [xs|] eqn:Es; [|discriminate].
    assert (G : exists exs, sequence (map (fun k => nth_error eenv k) srcs) = Some exs /\ Forall2 hl xs exs).
    { clear -F Es. revert xs Es. induction srcs as [|a r IH]; intros xs; cbn [map sequence].
      - intros E; inversion E; subst. exists []. split; [reflexivity|constructor].
      - destruct (nth_error cenv a) as [c|] eqn:Ea; [|discriminate].
        destruct (sequence (map _ r)) as [xr|] eqn:Er; [|discriminate]. intros E; inversion E; subst.
        destruct (Forall2_nth_error _ _ _ _ _ F Ea) as (e & Ee & Hl). destruct (IH _ eq_refl) as (exs & Ees & Hls).
        rewrite Ee, Ees. exists (e :: exs). split; [reflexivity|constructor; assumption]. }
    destruct G as (exs & Ees & Hl). rewrite Ees.
    destruct xs as [|x0 xr]; [discriminate|].
    destruct (negb (forallb (fun y => exact_same_list (c_hist x0) (c_hist y)) xr)) eqn:Eh; [discriminate|].
    apply negb_false_iff in Eh.
    assert (Hsh : map (fun c => (c_tensor c, c_shape c)) (x0 :: xr) = map (fun c => (e_tensor c, e_shape c)) exs).
    { clear -Hl. induction Hl as [|c e cl el [[L1 L2] _] _ IH]; cbn [map]; [reflexivity|]. rewrite L1, L2, IH. reflexivity. }
    inversion Hl as [|? e0 ? er L0 Lr]; subst. rewrite <- Hsh.
    destruct (f (map (fun c => (c_tensor c, c_shape c)) (x0 :: xr))) as [[[tensor sh] pos]|]; [|discriminate].
    destruct (negb (sel_shape_ok tensor sh (length pos))); [discriminate|].
    destruct (select (map (@c_data R) (x0 :: xr)) pos) as [data|] eqn:Ed; [|discriminate].
    intros E; inversion E; subst.
    assert (Hh : map (@as_records R) (x0 :: xr) = map (map (mk (c_hist x0))) (map (@c_data R) (x0 :: xr))).
    { cbn [map]. f_equal. clear -Eh. induction xr as [|y r IH]; cbn [map]; [reflexivity|].
      cbn [forallb] in Eh. apply andb_true_iff in Eh as [E1 E2]. apply exact_same_list_eq in E1.
      rewrite as_records_mk, <- E1, IH by exact E2. reflexivity. }
    assert (Sc : select (map (@as_records R) (x0 :: xr)) pos = Some (map (mk (c_hist x0)) data)).
    { rewrite Hh, select_map, Ed. reflexivity. }
    assert (Fh : Forall2 (Forall2 (fun r r' : rec => r_hist r = r_hist r')) (map (@as_records R) (x0 :: xr)) (map (@e_recs R) (e0 :: er))).
    { clear -Hl. induction Hl as [|c e cl el [_ Hs] _ IH]; cbn [map]; constructor; [apply hsim_Forall2; exact Hs|exact IH]. }
    destruct (select_Forall2 _ _ _ _ Fh _ Sc) as (rs & Sr & Fr). rewrite Sr.
    eexists _, _. split; [reflexivity|]. constructor; [|constructor].
    split; [split; reflexivity|]. rewrite as_records_mk. cbn [c_data c_hist e_recs]. apply hsim_Forall2. exact Fr.
  - (* from_iters::<N> *)
    destruct (nth_error cenv a) as [cx|] eqn:Ea; [|discriminate].
    destruct (Forall2_nth_error _ _ _ _ _ F Ea) as (ex & Ee & [[L1 L2] Hh]). rewrite Ee.
    rewrite <- L1, <- L2. destruct (cm && c_tensor cx); [discriminate|].
    destruct (negb tensor && negb (Nat.eqb (length sh) 2)); [discriminate|].
    destruct (Nat.eqb (length el) 0); [discriminate|].
    destruct (eval_eachN ops ct el (firstn take (if cm then column_major (c_shape cx) (as_records cx) else as_records cx)) true)
      as [[[t1 cols]| |]|] eqn:E1; try discriminate.
    destruct (collect_all (map (c_from_iter tensor sh) cols)) as [cl|] eqn:Ef; [|discriminate].
    intros E; inversion E; subst.
    assert (Hh' : hsim (firstn take (if cm then column_major (c_shape cx) (as_records cx) else as_records cx))
                       (firstn take (if cm then column_major (c_shape cx) (e_recs ex) else e_recs ex))).
    { apply hsim_firstn. destruct cm; [apply hsim_column_major|]; exact Hh. }
    destruct (eval_eachN_hsim el _ _ _ _ et _ _ Hh' E1) as (t2 & zcols & E2 & Hz). rewrite E2. cbn [omap fst snd].
    pose proof (collect_all_records _ _ _ _ Ef) as Hrec.
    eexists _, _. split; [reflexivity|].
    clear -Hrec Hz. revert zcols Hz. induction Hrec as [|c col cr colr (R1 & R2 & R3) _ IH]; intros zcols Hz;
      inversion Hz; subst; cbn [map]; constructor.
    + split; [split; cbn; first [assumption | reflexivity | congruence]|]. cbn [e_recs]. assumption.
    + apply IH. assumption.
Qed.


(* ------------------------------------------------------------------ views are relabellings *)
Lemma select_spec {A} (xs : list (list A)) : forall pos l, select xs pos = Some l ->
  length l = length pos /\
  forall i k j, nth_error pos i = Some (k, j) ->
    exists x v, nth_error xs k = Some x /\ nth_error x j = Some v /\ nth_error l i = Some v.
Proof.
  induction pos as [|p r IH]; intros l.
  - intros E; inversion E; subst. split; [reflexivity|]. intros [|i] k j; discriminate.
  - rewrite select_cons. destruct (nth_error xs (fst p)) as [x|] eqn:Ex; [|discriminate].
    destruct (nth_error x (snd p)) as [v|] eqn:Ev; [|discriminate].
    destruct (select xs r) as [r'|] eqn:Er; [|discriminate]. intros E; inversion E; subst.
    destruct (IH _ eq_refl) as [L H]. split; [cbn; congruence|].
    intros [|i] k j; cbn [nth_error].
    + intros E1; inversion E1; subst. cbn [fst snd] in *. eauto.
    + apply H.
Qed.

Theorem select_is_relabelling t env f srcs t' (c : cont) :
  cstep ops (t, env) (OSelect f srcs) = Some (Ok (t', [c])) ->
  t' = t /\
  exists xs tensor sh pos,
    sequence (map (fun k => nth_error env k) srcs) = Some xs /\
    f (map (fun x => (c_tensor x, c_shape x)) xs) = Some (tensor, sh, pos) /\
    c_tensor c = tensor /\ c_shape c = sh /\ length (c_data c) = length pos /\ elements sh = length pos /\
    Forall (fun x => c_hist x = c_hist c) xs /\
    forall i k j, nth_error pos i = Some (k, j) ->
      exists x v, nth_error xs k = Some x /\ nth_error (c_data x) j = Some v /\ nth_error (c_data c) i = Some v.
Proof.
  cbn [cstep]. destruct (sequence (map (fun k => nth_error env k) srcs)) as [[|x0 xr]|]; try discriminate.
  destruct (negb (forallb (fun y => exact_same_list (c_hist x0) (c_hist y)) xr)) eqn:Eh; [discriminate|].
  apply negb_false_iff in Eh.
  destruct (f (map (fun c0 => (c_tensor c0, c_shape c0)) (x0 :: xr))) as [[[tensor sh] pos]|] eqn:Ef; [|discriminate].
  destruct (negb (sel_shape_ok tensor sh (length pos))) eqn:Eo; [discriminate|]. apply negb_false_iff in Eo.
  destruct (select (map (@c_data R) (x0 :: xr)) pos) as [data|] eqn:Ed; [|discriminate].
  intros E; inversion E; subst. split; [reflexivity|].
  exists (x0 :: xr), tensor, sh, pos. destruct (select_spec _ _ _ Ed) as [L H].
  split; [reflexivity|]. split; [exact Ef|]. split; [reflexivity|]. split; [reflexivity|]. split; [exact L|].
  split.
  { unfold sel_shape_ok in Eo. apply andb_true_iff in Eo as [Eo _]. apply shape_valid_elements in Eo. exact Eo. }
  split.
  { constructor; [reflexivity|]. cbn [c_hist]. clear -Eh. induction xr as [|y r IH]; constructor.
    - cbn [forallb] in Eh. apply andb_true_iff in Eh as [E1 _]. apply exact_same_list_eq in E1. congruence.
    - apply IH. cbn [forallb] in Eh. apply andb_true_iff in Eh as [_ E2]. exact E2. }
  intros i k j Hp. destruct (H i k j Hp) as (l & v & Hl & Hv & Hi). rewrite nth_error_map in Hl.
  destruct (nth_error (x0 :: xr) k) as [x|] eqn:Ex; [|discriminate]. cbn [option_map] in Hl. inversion Hl; subst.
  exists x, v. auto.
Qed.

Lemma e_run_completes : forall prog ct cenv eenv n m ct' cenv' et n',
  Forall2 hl cenv eenv -> crun ops (ct, cenv) n prog = Some (m, Ok (ct', cenv')) ->
  exists m' et' eenv', erun ops (et, eenv) n' prog = Some (m', Ok (et', eenv')) /\ Forall2 hl cenv' eenv'.
Proof.
  induction prog as [|o r IH]; intros ct cenv eenv n m ct' cenv' et n' F.
  - cbn. intros E; inversion E; subst. eexists _, _, _. split; [reflexivity|exact F].
  - cbn [crun erun]. destruct (cstep ops (ct, cenv) o) as [[[t1 cs]| |]|] eqn:Ec; try discriminate.
    destruct (forallb _ cs); [|discriminate]. cbn [snd]. intros Rn.
    destruct (e_step_completes _ _ _ _ _ _ et F Ec) as (t2 & es & Ee & Fs). rewrite Ee. cbn [snd].
    eapply IH; [|exact Rn]. apply Forall2_app; assumption.
Qed.

(* ------------------------------------------------------------------ rejected streams
   e_step_completes needs no hypothesis on the closures; the same history-similarity argument
   also decides what happens when the container operation does NOT complete.  Which branch a
   Record operator takes, and whether it panics, depends on the operand histories only, so the
   closure evaluation of the container run and of the element-by-element run end the same way
   (both panic, or both produce streams with the same histories); the errors of the collect
   stage (InconsistentHistory / Empty / Shape) are a function of the histories and the length
   of the stream, hence the same verdict on both streams. *)
Definition rsim (a b : option (outcome (tape * rec))) : Prop :=
  match a, b with
  | Some (Ok (_, y)), Some (Ok (_, y')) => r_hist y = r_hist y'
  | Some Panic, Some Panic => True
  | None, None => True
  | _, _ => False
  end.

Lemma rec_unary_code_rsim code c (x x' : rec) t t' : r_hist x = r_hist x' ->
  rsim (rec_unary_code ops t code c x) (rec_unary_code ops t' code c x').
Proof.
  intros Hh. unfold rec_unary_code. destruct code as [|code].
  - unfold rec_neg. rewrite <- Hh. destruct (r_hist x) as [h|] eqn:Eh; [|reflexivity].
    unfold rec_binary. cbn [rec_constant r_hist r_num r_idx same_list negb]. rewrite <- Hh, Eh. cbn. reflexivity.
  - destruct (unfn_of ops (S code) c) as [f|]; [|exact I]. unfold rec_unary. rewrite <- Hh.
    destruct (r_hist x); cbn; reflexivity.
Qed.

Lemma rec_binary_rsim f (x x' y y' : rec) t t' : r_hist x = r_hist x' -> r_hist y = r_hist y' ->
  rsim (Some (rec_binary ops t f x y)) (Some (rec_binary ops t' f x' y')).
Proof.
  intros Hx Hy. unfold rec_binary. rewrite <- Hx, <- Hy. destruct (negb _); [exact I|].
  destruct (r_hist x), (r_hist y); cbn; reflexivity.
Qed.

Lemma rec_eval_rsim first : forall e (x x' : rec) t t', r_hist x = r_hist x' ->
  rsim (rec_eval ops t e x first) (rec_eval ops t' e x' first).
Proof.
  induction e as [|c|e1 IH1|code c e1 IH1|code e1 IH1 e2 IH2|e1 IH1 e2 IH2|]; intros x x' t t' Hh; cbn [rec_eval].
  - exact Hh.
  - reflexivity.
  - pose proof (IH1 x x' t t' Hh) as Q.
    destruct (rec_eval ops t e1 x first) as [[[t2 r]|e0|]|], (rec_eval ops t' e1 x' first) as [[[t2' r']|e0'|]|];
      cbn [rsim] in Q |- *; try contradiction; try exact I. reflexivity.
  - pose proof (IH1 x x' t t' Hh) as Q.
    destruct (rec_eval ops t e1 x first) as [[[t2 r]|e0|]|], (rec_eval ops t' e1 x' first) as [[[t2' r']|e0'|]|];
      cbn [rsim] in Q |- *; try contradiction; try exact I. apply rec_unary_code_rsim. exact Q.
  - destruct (binfn_of ops code) as [f|]; [|exact I].
    pose proof (IH1 x x' t t' Hh) as Q.
    destruct (rec_eval ops t e1 x first) as [[[t2 r]|e0|]|], (rec_eval ops t' e1 x' first) as [[[t2' r']|e0'|]|];
      cbn [rsim] in Q |- *; try contradiction; try exact I.
    pose proof (IH2 x x' t2 t2' Hh) as Q2.
    destruct (rec_eval ops t2 e2 x first) as [[[t3 r2]|e1'|]|], (rec_eval ops t2' e2 x' first) as [[[t3' r2']|e1''|]|];
      cbn [rsim] in Q2 |- *; try contradiction; try exact I. apply rec_binary_rsim; assumption.
  - destruct first; [apply IH1|apply IH2]; exact Hh.
  - reflexivity.
Qed.

Definition lsim (a b : option (outcome (tape * list rec))) : Prop :=
  match a, b with
  | Some (Ok (_, ys)), Some (Ok (_, ys')) => hsim ys ys'
  | Some Panic, Some Panic => True
  | None, None => True
  | _, _ => False
  end.

Lemma eval_each_rsim e : forall (rs rs' : list rec) first t t', hsim rs rs' ->
  lsim (eval_each ops t e rs first) (eval_each ops t' e rs' first).
Proof.
  induction rs as [|r rest IH]; intros [|r' rest'] first t t' H; cbn in H; try discriminate.
  - cbn. reflexivity.
  - inversion H as [[H1 H2]]. cbn [eval_each].
    pose proof (rec_eval_rsim first e r r' t t' H1) as Q.
    destruct (rec_eval ops t e r first) as [[[t2 y]|e0|]|], (rec_eval ops t' e r' first) as [[[t2' y']|e0'|]|];
      cbn [rsim] in Q; cbn [lsim]; try contradiction; try exact I.
    pose proof (IH rest' false t2 t2' H2) as Q2.
    destruct (eval_each ops t2 e rest false) as [[[t3 ys]|e1|]|], (eval_each ops t2' e rest' false) as [[[t3' ys']|e1'|]|];
      cbn [lsim] in Q2 |- *; try contradiction; try exact I.
    unfold hsim in *. cbn. congruence.
Qed.

(* the verdict of the collect stage depends on the histories and the length of the stream only *)
Lemma consistent_history_hsim (ys ys' : list rec) : hsim ys ys' -> consistent_history ys = consistent_history ys'.
Proof.
  destruct ys as [|r rest], ys' as [|r' rest']; intros H; cbn in H; try discriminate; [reflexivity|].
  inversion H as [[H1 H2]]. cbn [consistent_history]. rewrite <- H1. clear H H1. revert rest' H2.
  induction rest as [|q rest IH]; intros [|q' rest'] H2; cbn in H2; try discriminate; [reflexivity|].
  inversion H2 as [[Q1 Q2]]. cbn [forallb]. rewrite <- Q1, (IH rest' Q2). reflexivity.
Qed.

Lemma c_from_iter_verdict tensor sh (ys ys' : list rec) code : hsim ys ys' ->
  c_from_iter tensor sh ys = Err code -> c_from_iter tensor sh ys' = Err code.
Proof.
  intros H. unfold c_from_iter. rewrite <- (consistent_history_hsim _ _ H), <- (hsim_length _ _ H).
  destruct (negb (consistent_history ys)); [auto|].
  destruct ys as [|r rest], ys' as [|r' rest']; cbn in H; try discriminate; [auto|].
  destruct (if tensor then _ else _); [discriminate|auto].
Qed.

Lemma c_from_iter_no_panic tensor sh (ys : list rec) : c_from_iter tensor sh ys <> Panic.
Proof.
  unfold c_from_iter. destruct (negb _); [discriminate|]. destruct ys; [discriminate|].
  destruct (if tensor then _ else _); discriminate.
Qed.

(* map / map_mut / from_iter with ANY closure (no `supported` hypothesis), when the container
   operation does not complete: it panics exactly when the element-by-element run of the same
   closure panics; it returns an error value exactly when the element-by-element run completes
   and the collect rule (c_from_iter: InconsistentHistory if a later history differs from the
   first, else Empty, else Shape) rejects the stream of records THAT run produced, with the
   same error value. *)
Theorem rejected_streams cenv eenv ct et o r : Forall2 hl cenv eenv ->
  (exists mu e a, o = OMap mu e a) \/ (exists tensor sh cm e a, o = OFromIter tensor sh cm e a) ->
  cstep ops (ct, cenv) o = Some r ->
  match r with
  | Ok _ => True
  | Panic => estep ops (et, eenv) o = Some Panic
  | Err code => exists et' x, estep ops (et, eenv) o = Some (Ok (et', [x])) /\
                  c_from_iter (e_tensor x) (e_shape x) (e_recs x) = Err code
  end.
Proof.
  intros F [(mu & e & a & ->)|(tensor & sh & cm & e & a & ->)]; cbn [cstep estep].
  - destruct (nth_error cenv a) as [cx|] eqn:Ea; [|discriminate].
    destruct (Forall2_nth_error _ _ _ _ _ F Ea) as (ex & Ee & [[L1 L2] Hh]). rewrite Ee. unfold c_map.
    pose proof (eval_each_rsim e _ _ true ct et Hh) as Q.
    destruct (eval_each ops ct e (as_records cx) true) as [[[t1 ys]|e0|]|], (eval_each ops et e (e_recs ex) true) as [[[t1' ys']|e0'|]|];
      cbn [lsim] in Q; try contradiction; try discriminate.
    + destruct (c_from_iter (c_tensor cx) (c_shape cx) ys) as [c|code|] eqn:Ef; intros E; inversion E; subst.
      * exact I.
      * eexists _, _. split; [reflexivity|]. cbn [e_tensor e_shape e_recs]. rewrite <- L1, <- L2.
        eapply c_from_iter_verdict; eauto.
      * exfalso. eapply c_from_iter_no_panic; eauto.
    + intros E; inversion E; subst. reflexivity.
  - destruct (nth_error cenv a) as [cx|] eqn:Ea; [|discriminate].
    destruct (Forall2_nth_error _ _ _ _ _ F Ea) as (ex & Ee & [[L1 L2] Hh]). rewrite Ee.
    rewrite <- L1, <- L2. destruct (cm && c_tensor cx); [discriminate|].
    destruct (negb tensor && negb (Nat.eqb (length sh) 2)); [discriminate|].
    assert (Hh' : hsim (if cm then column_major (c_shape cx) (as_records cx) else as_records cx)
                       (if cm then column_major (c_shape cx) (e_recs ex) else e_recs ex)).
    { destruct cm; [apply hsim_column_major|]; exact Hh. }
    pose proof (eval_each_rsim e _ _ true ct et Hh') as Q.
    destruct (eval_each ops ct e (if cm then column_major (c_shape cx) (as_records cx) else as_records cx) true)
      as [[[t1 ys]|e0|]|],
      (eval_each ops et e (if cm then column_major (c_shape cx) (e_recs ex) else e_recs ex) true) as [[[t1' ys']|e0'|]|];
      cbn [lsim] in Q; try contradiction; try discriminate.
    + destruct (c_from_iter tensor sh ys) as [c|code|] eqn:Ef; cbn [omap]; intros E; inversion E; subst.
      * exact I.
      * eexists _, _. split; [reflexivity|]. cbn [e_tensor e_shape e_recs]. eapply c_from_iter_verdict; eauto.
      * exfalso. eapply c_from_iter_no_panic; eauto.
    + intros E; inversion E; subst. reflexivity.
Qed.

(* ---- the same for from_iters::<2> and from_iters::<N> *)
Definition l2sim (a b : option (outcome (tape * (list rec * list rec)))) : Prop :=
  match a, b with
  | Some (Ok (_, (y1, y2))), Some (Ok (_, (z1, z2))) => hsim y1 z1 /\ hsim y2 z2
  | Some Panic, Some Panic => True
  | None, None => True
  | _, _ => False
  end.

Lemma eval_each2_rsim e1 e2 : forall (rs rs' : list rec) first t t', hsim rs rs' ->
  l2sim (eval_each2 ops t e1 e2 rs first) (eval_each2 ops t' e1 e2 rs' first).
Proof.
  induction rs as [|r rest IH]; intros [|r' rest'] first t t' H; cbn in H; try discriminate.
  - cbn. split; reflexivity.
  - inversion H as [[H1 H2]]. cbn [eval_each2].
    pose proof (rec_eval_rsim first e1 r r' t t' H1) as Q.
    destruct (rec_eval ops t e1 r first) as [[[t2 y]|e0|]|], (rec_eval ops t' e1 r' first) as [[[t2' y']|e0'|]|];
      cbn [rsim] in Q; cbn [l2sim]; try contradiction; try exact I.
    pose proof (rec_eval_rsim first e2 r r' t2 t2' H1) as Q1.
    destruct (rec_eval ops t2 e2 r first) as [[[t3 w]|e1'|]|], (rec_eval ops t2' e2 r' first) as [[[t3' w']|e1''|]|];
      cbn [rsim] in Q1; cbn [l2sim]; try contradiction; try exact I.
    pose proof (IH rest' false t3 t3' H2) as Q2.
    destruct (eval_each2 ops t3 e1 e2 rest false) as [[[t4 [a b]]|e2'|]|],
             (eval_each2 ops t3' e1 e2 rest' false) as [[[t4' [a' b']]|e2''|]|];
      cbn [l2sim] in Q2 |- *; try contradiction; try exact I.
    destruct Q2 as [Qa Qb]. unfold hsim in *. cbn. split; congruence.
Qed.

Lemma eval_list_rsim first : forall es (x x' : rec) t t', r_hist x = r_hist x' ->
  lsim (eval_list ops t es x first) (eval_list ops t' es x' first).
Proof.
  induction es as [|e er IH]; intros x x' t t' Hh; cbn [eval_list].
  - cbn. reflexivity.
  - pose proof (rec_eval_rsim first e x x' t t' Hh) as Q.
    destruct (rec_eval ops t e x first) as [[[t2 y]|e0|]|], (rec_eval ops t' e x' first) as [[[t2' y']|e0'|]|];
      cbn [rsim] in Q; cbn [lsim]; try contradiction; try exact I.
    pose proof (IH x x' t2 t2' Hh) as Q2.
    destruct (eval_list ops t2 er x first) as [[[t3 ys]|e1|]|], (eval_list ops t2' er x' first) as [[[t3' ys']|e1'|]|];
      cbn [lsim] in Q2 |- *; try contradiction; try exact I.
    unfold hsim in *. cbn. congruence.
Qed.

Definition lNsim (a b : option (outcome (tape * list (list rec)))) : Prop :=
  match a, b with
  | Some (Ok (_, cols)), Some (Ok (_, cols')) => hsims cols cols'
  | Some Panic, Some Panic => True
  | None, None => True
  | _, _ => False
  end.

Lemma eval_eachN_rsim es : forall (rs rs' : list rec) first t t', hsim rs rs' ->
  lNsim (eval_eachN ops t es rs first) (eval_eachN ops t' es rs' first).
Proof.
  induction rs as [|r rest IH]; intros [|r' rest'] first t t' H; cbn in H; try discriminate.
  - cbn. clear. induction es; cbn [map]; constructor; [reflexivity|assumption].
  - inversion H as [[H1 H2]]. cbn [eval_eachN].
    pose proof (eval_list_rsim first es r r' t t' H1) as Q.
    destruct (eval_list ops t es r first) as [[[t2 ys]|e0|]|], (eval_list ops t' es r' first) as [[[t2' ys']|e0'|]|];
      cbn [lsim] in Q; cbn [lNsim]; try contradiction; try exact I.
    pose proof (IH rest' false t2 t2' H2) as Q2.
    destruct (eval_eachN ops t2 es rest false) as [[[t3 cr]|e1|]|], (eval_eachN ops t2' es rest' false) as [[[t3' cr']|e1'|]|];
      cbn [lNsim] in Q2 |- *; try contradiction; try exact I.
    apply push_row_hsim; assumption.
Qed.

Lemma hsim_sym (a b : list rec) : hsim a b -> hsim b a.
Proof. unfold hsim. intros H. symmetry. exact H. Qed.

(* the collect rule gives the same verdict (accepted, or the same error value) on streams with
   the same histories *)
Lemma c_from_iter_sim tensor sh (ys ys' : list rec) : hsim ys ys' ->
  match c_from_iter tensor sh ys, c_from_iter tensor sh ys' with
  | Ok _, Ok _ => True
  | Err a, Err b => a = b
  | _, _ => False
  end.
Proof.
  intros H. destruct (c_from_iter tensor sh ys) as [c|a|] eqn:E1.
  - destruct (c_from_iter tensor sh ys') as [c'|b|] eqn:E2; [exact I| |].
    + rewrite (c_from_iter_verdict _ _ _ _ _ (hsim_sym _ _ H) E2) in E1. discriminate.
    + exfalso. eapply c_from_iter_no_panic; eauto.
  - rewrite (c_from_iter_verdict _ _ _ _ _ H E1). reflexivity.
  - exfalso. eapply c_from_iter_no_panic; eauto.
Qed.

(* from_iters::<2> (OFromIters2), any two closures *)
Theorem rejected_streams2 cenv eenv ct et e1 e2 a r : Forall2 hl cenv eenv ->
  cstep ops (ct, cenv) (OFromIters2 e1 e2 a) = Some r ->
  match r with
  | Ok _ => True
  | Panic => estep ops (et, eenv) (OFromIters2 e1 e2 a) = Some Panic
  | Err code => exists et' x1 x2, estep ops (et, eenv) (OFromIters2 e1 e2 a) = Some (Ok (et', [x1; x2])) /\
      match c_from_iter (e_tensor x1) (e_shape x1) (e_recs x1), c_from_iter (e_tensor x2) (e_shape x2) (e_recs x2) with
      | Err e0, _ => e0 = code
      | Ok _, Err e0 => e0 = code
      | _, _ => False
      end
  end.
Proof.
  intros F. cbn [cstep estep].
  destruct (nth_error cenv a) as [cx|] eqn:Ea; [|discriminate].
  destruct (Forall2_nth_error _ _ _ _ _ F Ea) as (ex & Ee & [[L1 L2] Hh]). rewrite Ee.
  pose proof (eval_each2_rsim e1 e2 _ _ true ct et Hh) as Q.
  destruct (eval_each2 ops ct e1 e2 (as_records cx) true) as [[[t1 [ys1 ys2]]|e0|]|],
           (eval_each2 ops et e1 e2 (e_recs ex) true) as [[[t1' [zs1 zs2]]|e0'|]|];
    cbn [l2sim] in Q; try contradiction; try discriminate.
  - destruct Q as [Q1 Q2].
    pose proof (c_from_iter_sim (c_tensor cx) (c_shape cx) _ _ Q1) as S1.
    pose proof (c_from_iter_sim (c_tensor cx) (c_shape cx) _ _ Q2) as S2.
    pose proof (c_from_iter_no_panic (c_tensor cx) (c_shape cx) ys1) as N1.
    pose proof (c_from_iter_no_panic (c_tensor cx) (c_shape cx) ys2) as N2.
    destruct (c_from_iter (c_tensor cx) (c_shape cx) ys1) as [c1|a1|], (c_from_iter (c_tensor cx) (c_shape cx) ys2) as [c2|a2|];
      intros E; inversion E; subst; try exact I; try (exfalso; apply N1; reflexivity); try (exfalso; apply N2; reflexivity);
      (eexists _, _, _; split; [reflexivity|]; cbn [omap fst snd e_tensor e_shape e_recs]; rewrite <- L1, <- L2;
       destruct (c_from_iter (c_tensor cx) (c_shape cx) zs1), (c_from_iter (c_tensor cx) (c_shape cx) zs2);
       try contradiction; congruence).
  - intros E; inversion E; subst. reflexivity.
Qed.

(* from_iters::<N> (OCollect): the error value is the list of per-output verdicts, computed by
   the collect rule on the N streams of the element-by-element run *)
Theorem rejected_streamsN cenv eenv ct et tensor sh cm take es a r : Forall2 hl cenv eenv ->
  cstep ops (ct, cenv) (OCollect tensor sh cm take es a) = Some r ->
  match r with
  | Ok _ => True
  | Panic => estep ops (et, eenv) (OCollect tensor sh cm take es a) = Some Panic
  | Err code => exists et' xs, estep ops (et, eenv) (OCollect tensor sh cm take es a) = Some (Ok (et', xs)) /\
      code = SL (map (fun x => collect_code (c_from_iter (e_tensor x) (e_shape x) (e_recs x))) xs) /\
      exists x, In x xs /\ forall c, c_from_iter (e_tensor x) (e_shape x) (e_recs x) <> Ok c
  end.
Proof.
  intros F. cbn [cstep estep].
  destruct (nth_error cenv a) as [cx|] eqn:Ea; [|discriminate].
  destruct (Forall2_nth_error _ _ _ _ _ F Ea) as (ex & Ee & [[L1 L2] Hh]). rewrite Ee.
  rewrite <- L1, <- L2. destruct (cm && c_tensor cx); [discriminate|].
  destruct (negb tensor && negb (Nat.eqb (length sh) 2)); [discriminate|].
  destruct (Nat.eqb (length es) 0); [discriminate|].
  assert (Hh' : hsim (firstn take (if cm then column_major (c_shape cx) (as_records cx) else as_records cx))
                     (firstn take (if cm then column_major (c_shape cx) (e_recs ex) else e_recs ex))).
  { apply hsim_firstn. destruct cm; [apply hsim_column_major|]; exact Hh. }
  pose proof (eval_eachN_rsim es _ _ true ct et Hh') as Q.
  destruct (eval_eachN ops ct es (firstn take (if cm then column_major (c_shape cx) (as_records cx) else as_records cx)) true)
    as [[[t1 cols]|e0|]|],
    (eval_eachN ops et es (firstn take (if cm then column_major (c_shape cx) (e_recs ex) else e_recs ex)) true)
    as [[[t1' cols']|e0'|]|]; cbn [lNsim] in Q; try contradiction; try discriminate.
  - assert (K : map (@collect_code R) (map (c_from_iter tensor sh) cols) =
                map (fun x => collect_code (c_from_iter (e_tensor x) (e_shape x) (e_recs x))) (map (mkECont tensor sh) cols')).
    { clear -Q. induction Q as [|ys zs cr cr' Hy _ IH]; cbn [map]; [reflexivity|]. f_equal; [|exact IH].
      cbn [e_tensor e_shape e_recs]. pose proof (c_from_iter_sim tensor sh _ _ Hy) as S.
      destruct (c_from_iter tensor sh ys), (c_from_iter tensor sh zs); try contradiction; cbn [collect_code]; congruence. }
    destruct (collect_all (map (c_from_iter tensor sh) cols)) as [cs|] eqn:Ec; intros E; inversion E; subst; [exact I|].
    eexists _, _. split; [reflexivity|]. cbn [omap fst snd]. split; [rewrite K; reflexivity|].
    (* some output was rejected *)
    clear -Ec Q. unfold collect_all in Ec. revert cols' Q Ec.
    induction cols as [|ys cr IH]; intros cols' Q Ec; [discriminate Ec|].
    inversion Q as [|? zs ? cr' Hy Hr]; subst. cbn [map sequence] in Ec.
    pose proof (c_from_iter_sim tensor sh _ _ Hy) as S.
    destruct (c_from_iter tensor sh ys) as [c|a0|] eqn:E1.
    + destruct (sequence (map (fun r => match r with Ok c0 => Some c0 | _ => None end) (map (c_from_iter tensor sh) cr))) eqn:E2;
        [discriminate Ec|].
      destruct (IH cr' Hr eq_refl) as (x & Hx & Hn). exists x. split; [right; exact Hx|exact Hn].
    + exists (mkECont tensor sh zs). split; [left; reflexivity|]. intros c Hc. cbn [e_tensor e_shape e_recs] in Hc. try rewrite Hc in S. exact S.
    + exists (mkECont tensor sh zs). split; [left; reflexivity|]. intros c Hc. cbn [e_tensor e_shape e_recs] in Hc. try rewrite Hc in S. exact S.
  - intros E; inversion E; subst. reflexivity.
Qed.

(* a container run that stops at an operation: the element-by-element run completes every
   operation before it and the two states are linked there, so the step theorems above apply
   to the operation that was rejected *)
Theorem rejected_run : forall prog ct cenv eenv n m r et n',
  Forall2 hl cenv eenv -> crun ops (ct, cenv) n prog = Some (m, r) -> (forall st, r <> Ok st) ->
  exists pre o post ct1 cenv1 m1 et1 eenv1 r1,
    prog = pre ++ o :: post /\ m = n + length pre /\
    crun ops (ct, cenv) n pre = Some (m, Ok (ct1, cenv1)) /\
    erun ops (et, eenv) n' pre = Some (m1, Ok (et1, eenv1)) /\ Forall2 hl cenv1 eenv1 /\
    cstep ops (ct1, cenv1) o = Some r1 /\
    match r, r1 with Err a, Err b => a = b | Panic, Panic => True | _, _ => False end.
Proof.
  induction prog as [|o rest IH]; intros ct cenv eenv n m r et n' F; cbn [crun].
  - intros E Hn. inversion E; subst. exfalso. eapply Hn. reflexivity.
  - destruct (cstep ops (ct, cenv) o) as [[[t1 cs]|e|]|] eqn:Ec; try discriminate.
    + destruct (forallb _ cs) eqn:Ef; [|discriminate]. cbn [snd]. intros Rn Hn.
      destruct (e_step_completes _ _ _ _ _ _ et F Ec) as (t2 & es & Ee & Fs).
      destruct (IH t1 (cenv ++ cs) (eenv ++ es) (S n) m r t2 (S n') (Forall2_app F Fs) Rn Hn)
        as (pre & o1 & post & ct1 & cenv1 & m1 & et1 & eenv1 & r1 & Hp & Hm & Hc & He & Hl & Hs & Hr).
      exists (o :: pre), o1, post, ct1, cenv1, m1, et1, eenv1, r1.
      split; [rewrite Hp; reflexivity|]. split; [cbn [length]; lia|].
      split; [cbn [crun]; rewrite Ec, Ef; exact Hc|]. split; [cbn [erun]; rewrite Ee; exact He|].
      split; [exact Hl|]. split; [exact Hs|exact Hr].
    + intros E Hn. inversion E; subst.
      exists [], o, rest, ct, cenv, n', et, eenv, (Err e). cbn [app length crun erun].
      split; [reflexivity|]. split; [lia|]. split; [reflexivity|]. split; [reflexivity|]. split; [exact F|].
      split; [exact Ec|reflexivity].
    + intros E Hn. inversion E; subst.
      exists [], o, rest, ct, cenv, n', et, eenv, Panic. cbn [app length crun erun].
      split; [reflexivity|]. split; [lia|]. split; [reflexivity|]. split; [reflexivity|]. split; [exact F|].
      split; [exact Ec|exact I].
Qed.

End C06Q.

(* ------------------------------------------------------------------ the complete statement *)
Section C06T.
Context {R : Type} (ops : numops R).
Hypothesis Rth : ring_theory (nzero ops) (none_ ops) (nadd ops) (nmul ops) (nsub ops) (nneg ops) (@eq R).

(* For every container program that completes: its element-by-element version completes too,
   with the same shapes, values and constant-ness of every element, and for every input
   element (x, j) and every variable output element (o, i) the derivative on the container
   tape equals the derivative on the Record tape. *)
Theorem elementwise_equiv_total prog m ct cenv :
  forallb supported prog = true ->
  crun ops ([], []) 0 prog = Some (m, Ok (ct, cenv)) ->
  exists m' et eenv,
  erun ops ([], []) 0 prog = Some (m', Ok (et, eenv)) /\
  (forall o c e, nth_error cenv o = Some c -> nth_error eenv o = Some e ->
     c_tensor c = e_tensor e /\ c_shape c = e_shape e /\
     map fst (c_data c) = map (@r_num R) (e_recs e) /\
     Forall (fun r => r_hist r = c_hist c) (e_recs e)) /\
  (forall x j o i cx ex vx p rq c e v po ro h,
     is_input x j 0 prog ->
     nth_error cenv x = Some cx -> nth_error eenv x = Some ex ->
     nth_error (c_data cx) j = Some (vx, p) -> nth_error (e_recs ex) j = Some rq ->
     nth_error cenv o = Some c -> nth_error eenv o = Some e ->
     nth_error (c_data c) i = Some (v, po) -> c_hist c = Some h ->
     nth_error (e_recs e) i = Some ro ->
     nth p (sweep ops ct po) (nzero ops) = nth (r_idx rq) (sweep ops et (r_idx ro)) (nzero ops)).
Proof.
  intros Hs Hc.
  destruct (e_run_completes ops prog [] [] [] 0 m ct cenv [] 0 (Forall2_nil _) Hc) as (m' & et & eenv & He & F).
  exists m', et, eenv. split; [exact He|].
  destruct (elementwise_equiv ops Rth prog m m' ct cenv et eenv Hs Hc He) as [V D].
  assert (HH : forall o c e, nth_error cenv o = Some c -> nth_error eenv o = Some e ->
                 Forall (fun r => r_hist r = c_hist c) (e_recs e)).
  { intros o c e H1 H2. destruct (Forall2_nth_error _ _ _ _ _ F H1) as (e' & H2' & [_ Hh]).
    assert (e' = e) by congruence. subst e'. apply (hsim_as_records c (e_recs e) Hh). }
  split.
  - intros o c e H1 H2. destruct (V o c e H1 H2) as (A & B & C). repeat split; auto. eapply HH; eauto.
  - intros x j o i cx ex vx p rq c e v po ro h Hin Hx1 Hx2 Hj1 Hj2 Ho1 Ho2 Hi1 Hh Hi2.
    assert (Hro : r_hist ro = Some h).
    { pose proof (HH o c e Ho1 Ho2) as Q. rewrite Forall_forall in Q. rewrite <- Hh. apply Q.
      eapply nth_error_In; eauto. }
    eapply D; eauto.
Qed.
End C06T.
