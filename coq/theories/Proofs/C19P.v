(* C19: numeric trait contracts.  Specification and proofs about Model/Numeric.v:
   from_usize succeeds exactly on the representable counts and round-trips (for the twelve
   integer types, with the `as usize` cast of MAX as written in the code), the wrappers
   delegate, zero / one are the identities of plain, wrapping and saturating arithmetic, and the
   Trace / Record constants carry no derivative / no tape. *)
From Coq Require Import List ZArith NArith Bool Lia Ring_theory.
From EasyML Require Import Base.Sx Model.Num Model.Tape Model.Numeric.
Import ListNotations.
Open Scope Z_scope.

(* every statement below is proved uniformly for the twelve integer types: the tactic only
   replaces the type by its (bits, signedness) constants; the counts and operands stay symbolic *)
Ltac each_type H :=
  repeat (destruct H as [H|H]; [subst|]); try contradiction.

Ltac consts :=
  cbv [imax imin imod ihalf ibits isigned in_range as_usize cast sat
       U8 I8 U16 I16 U32 I32 U64 I64 U128 I128 USIZE ISIZE andb] in *;
  change (2 ^ 8) with 256 in *; change (2 ^ (8 - 1)) with 128 in *;
  change (2 ^ 16) with 65536 in *; change (2 ^ (16 - 1)) with 32768 in *;
  change (2 ^ 32) with 4294967296 in *; change (2 ^ (32 - 1)) with 2147483648 in *;
  change (2 ^ 64) with 18446744073709551616 in *;
  change (2 ^ (64 - 1)) with 9223372036854775808 in *;
  change (2 ^ 128) with 340282366920938463463374607431768211456 in *;
  change (2 ^ (128 - 1)) with 170141183460469231731687303715884105728 in *.

Ltac leb_cases :=
  repeat match goal with
         | |- context [?a <=? ?b] => destruct (Z.leb_spec a b)
         | H : context [?a <=? ?b] |- _ => destruct (Z.leb_spec a b)
         end.

(* ---------- the cast as written ---------- *)

(* MAX as usize: the value itself for the types of at most 64 bits; the low 64 bits (all ones)
   for the 128-bit types — which is why every count is accepted there *)
Lemma max_as_usize t : In t all_ity ->
  as_usize (imax t) = Z.min (imax t) 18446744073709551615.
Proof. intros H. each_type H; vm_compute; reflexivity. Qed.

Lemma cast_in_range t z : In t all_ity -> in_range t z = true -> cast t z = z.
Proof.
  intros H R. unfold in_range in R. rewrite andb_true_iff, !Z.leb_le in R. destruct R as [R1 R2].
  each_type H; consts;
    leb_cases;
    try (Z.div_mod_to_equations; lia).
Qed.

Lemma cast_range t z : In t all_ity -> in_range t (cast t z) = true.
Proof.
  intros H. each_type H; consts;
    leb_cases;
    try reflexivity; try (Z.div_mod_to_equations; lia).
Qed.

(* ---------- FromUsize ---------- *)

Theorem from_usize_spec t (n : N) : In t all_ity -> (n < 18446744073709551616)%N ->
  from_usize t n = if Z.of_N n <=? imax t then Some (Z.of_N n) else None.
Proof.
  intros H Hn. unfold from_usize. rewrite max_as_usize by exact H.
  assert (Hz : 0 <= Z.of_N n < 18446744073709551616) by lia.
  destruct (Z.leb_spec (Z.of_N n) (imax t)) as [Hle|Hgt].
  - destruct (Z.leb_spec (Z.of_N n) (Z.min (imax t) 18446744073709551615)); [|lia].
    f_equal. apply cast_in_range; [exact H|].
    unfold in_range. apply andb_true_iff. rewrite !Z.leb_le. split; [|exact Hle].
    each_type H; consts; lia.
  - destruct (Z.leb_spec (Z.of_N n) (Z.min (imax t) 18446744073709551615)); [lia|reflexivity].
Qed.

Theorem from_usize_iff t (n : N) : In t all_ity -> (n < 18446744073709551616)%N ->
  ((exists v, from_usize t n = Some v) <-> Z.of_N n <= imax t) /\
  (forall v, from_usize t n = Some v -> Z.to_N v = n /\ in_range t v = true).
Proof.
  intros H Hn. rewrite (from_usize_spec t n H Hn).
  destruct (Z.leb_spec (Z.of_N n) (imax t)) as [Hle|Hgt]; split.
  - split; [intros _; exact Hle|intros _; eauto].
  - intros v [= <-]. split; [apply N2Z.id|].
    unfold in_range. apply andb_true_iff. rewrite !Z.leb_le. split; [|exact Hle].
    each_type H; consts; lia.
  - split; [intros [v Hv]; discriminate|lia].
  - intros v Hv; discriminate.
Qed.

(* counts above MAX are refused, MAX itself is accepted: the boundary *)
Corollary from_usize_boundary t : In t all_ity -> imax t < 18446744073709551616 ->
  from_usize t (Z.to_N (imax t)) = Some (imax t) /\ from_usize t (Z.to_N (imax t + 1)) = None.
Proof.
  intros H Hb.
  assert (Hpos : 0 < imax t) by (each_type H; vm_compute; reflexivity).
  split.
  - rewrite from_usize_spec by (auto; lia). rewrite Z2N.id by lia. rewrite Z.leb_refl. reflexivity.
  - destruct (Z.eq_dec (imax t + 1) 18446744073709551616) as [E|NE].
    + (* u64 / usize: MAX + 1 is not a usize *)
      unfold from_usize. rewrite max_as_usize by exact H. rewrite E.
      rewrite Z2N.id by lia.
      destruct (Z.leb_spec 18446744073709551616 (Z.min (imax t) 18446744073709551615)); [lia|reflexivity].
    + rewrite from_usize_spec by (auto; lia). rewrite Z2N.id by lia.
      destruct (Z.leb_spec (imax t + 1) (imax t)); [lia|reflexivity].
Qed.

(* the wrappers delegate *)
Theorem wrapper_inherits t n :
  from_usize_wrapper t n = from_usize t n /\
  wrapper_zero t = int_zero t /\ wrapper_one t = int_one t.
Proof. unfold from_usize_wrapper. destruct (from_usize t n); repeat split. Qed.

Theorem float_always n : exists v, from_usize_float n = Some v.
Proof. eexists. reflexivity. Qed.

(* ---------- identities ---------- *)

Lemma zero_one_in_range t : In t all_ity ->
  in_range t (int_zero t) = true /\ in_range t (int_one t) = true.
Proof. intros H. each_type H; vm_compute; split; reflexivity. Qed.

Theorem plain_identities t x : In t all_ity -> in_range t x = true ->
  plain_op t 0 (int_zero t) x = Ok x /\ plain_op t 0 x (int_zero t) = Ok x /\
  plain_op t 2 (int_one t) x = Ok x /\ plain_op t 2 x (int_one t) = Ok x /\
  plain_op t 1 x (int_zero t) = Ok x /\ plain_op t 3 x (int_one t) = Ok x.
Proof.
  intros H R. unfold plain_op, exact_op, int_zero, int_one.
  cbn [Z.eqb andb].
  replace (0 + x) with x by lia. replace (x + 0) with x by lia.
  replace (1 * x) with x by lia. replace (x * 1) with x by lia.
  replace (x - 0) with x by lia. rewrite Z.quot_1_r. rewrite R.
  repeat split; reflexivity.
Qed.

Theorem wrapping_identities t x : In t all_ity -> in_range t x = true ->
  wrapping_op t 0 (wrapper_zero t) x = Ok x /\ wrapping_op t 0 x (wrapper_zero t) = Ok x /\
  wrapping_op t 2 (wrapper_one t) x = Ok x /\ wrapping_op t 2 x (wrapper_one t) = Ok x /\
  wrapping_op t 1 x (wrapper_zero t) = Ok x /\ wrapping_op t 3 x (wrapper_one t) = Ok x.
Proof.
  intros H R. unfold wrapping_op, exact_op, wrapper_zero, wrapper_one, int_zero, int_one.
  cbn [Z.eqb andb].
  replace (0 + x) with x by lia. replace (x + 0) with x by lia.
  replace (1 * x) with x by lia. replace (x * 1) with x by lia.
  replace (x - 0) with x by lia. rewrite Z.quot_1_r. rewrite (cast_in_range t x H R).
  repeat split; reflexivity.
Qed.

Lemma sat_in_range t x : in_range t x = true -> sat t x = x.
Proof.
  unfold in_range, sat. rewrite andb_true_iff, !Z.leb_le. lia.
Qed.

Theorem saturating_identities t x : In t all_ity -> in_range t x = true ->
  saturating_op t 0 (wrapper_zero t) x = Ok x /\ saturating_op t 0 x (wrapper_zero t) = Ok x /\
  saturating_op t 2 (wrapper_one t) x = Ok x /\ saturating_op t 2 x (wrapper_one t) = Ok x /\
  saturating_op t 1 x (wrapper_zero t) = Ok x /\ saturating_op t 3 x (wrapper_one t) = Ok x.
Proof.
  intros H R. unfold saturating_op, exact_op, wrapper_zero, wrapper_one, int_zero, int_one.
  cbn [Z.eqb andb].
  replace (0 + x) with x by lia. replace (x + 0) with x by lia.
  replace (1 * x) with x by lia. replace (x * 1) with x by lia.
  replace (x - 0) with x by lia. rewrite Z.quot_1_r. rewrite (sat_in_range t x R).
  repeat split; reflexivity.
Qed.

(* results of the wrapper arithmetics always denote values of the type *)
Theorem wrapper_results_in_range t op a b v : In t all_ity ->
  (wrapping_op t op a b = Ok v -> in_range t v = true) /\
  (saturating_op t op a b = Ok v -> in_range t v = true).
Proof.
  intros H. unfold wrapping_op, saturating_op. split.
  - destruct ((op =? 3) && (b =? 0)); [discriminate|]. intros [= <-]. apply cast_range, H.
  - destruct ((op =? 3) && (b =? 0)); [discriminate|]. intros [= <-].
    unfold in_range, sat. apply andb_true_iff. rewrite !Z.leb_le.
    assert (imin t <= imax t) by (each_type H; vm_compute; discriminate). lia.
Qed.

(* wrapping arithmetic is arithmetic modulo 2^bits *)
Theorem wrapping_is_modular t op a b v : In t all_ity -> wrapping_op t op a b = Ok v ->
  v mod imod t = exact_op op a b mod imod t.
Proof.
  intros H. unfold wrapping_op. destruct ((op =? 3) && (b =? 0)); [discriminate|]. intros [= <-].
  generalize (exact_op op a b). intros z.
  each_type H; consts;
    leb_cases;
    try (Z.div_mod_to_equations; lia).
Qed.

(* the element type Wrapping<i64> of the correspondence checks: zero and one are identities *)
Theorem w64_identities x : in_range I64 x = true ->
  nadd W64ops (nzero W64ops) x = x /\ nadd W64ops x (nzero W64ops) = x /\
  nmul W64ops (none_ W64ops) x = x /\ nmul W64ops x (none_ W64ops) = x.
Proof.
  intros R. cbn [nadd nmul nzero none_ W64ops]. unfold w64_add, w64_mul, w64.
  replace (0 + x) with x by lia. replace (x + 0) with x by lia.
  replace (1 * x) with x by lia. replace (x * 1) with x by lia.
  rewrite (cast_in_range I64 x) by (auto; cbn; tauto). repeat split; reflexivity.
Qed.

(* ---------- Trace / Record ---------- *)
Section Wrappers.
Context {R : Type} (ops : numops R).

Theorem trace_constants :
  tr_number (trace_zero ops) = nzero ops /\ tr_derivative (trace_zero ops) = nzero ops /\
  tr_number (trace_one ops) = none_ ops /\ tr_derivative (trace_one ops) = nzero ops /\
  forall n, match trace_from_usize ops n with
            | Some t => nof_N ops n = Some (tr_number t) /\ tr_derivative t = nzero ops
            | None => nof_N ops n = None
            end.
Proof.
  repeat split. intros n. unfold trace_from_usize. destruct (nof_N ops n); cbn; auto.
Qed.

Theorem record_constants :
  rc_number (record_zero ops) = nzero ops /\ rc_history (record_zero ops) = None /\
  rc_number (record_one ops) = none_ ops /\ rc_history (record_one ops) = None /\
  forall n, match record_from_usize ops n with
            | Some r => nof_N ops n = Some (rc_number r) /\ rc_history r = None /\ rc_index r = 0%nat
            | None => nof_N ops n = None
            end.
Proof.
  repeat split. intros n. unfold record_from_usize. destruct (nof_N ops n); cbn; auto.
Qed.
End Wrappers.

(* ---------- Trace / Record operators: the operand forms, constants, identities ---------- *)
Section WrapperOps.
Context {R : Type} (ops : numops R).

(* all owned / borrowed operand forms of an operator run the `&x op &y` impl; both negation
   forms coincide *)
Theorem trace_forms_agree op a b :
  trace_vv ops op a b = trace_rr ops op a b /\ trace_vr ops op a b = trace_rr ops op a b /\
  trace_rv ops op a b = trace_rr ops op a b /\ trace_neg_v ops a = trace_neg_r ops a.
Proof. repeat split. Qed.

Theorem record_forms_agree op t a b :
  record_vv ops op t a b = record_rr ops op t a b /\ record_vr ops op t a b = record_rr ops op t a b /\
  record_rv ops op t a b = record_rr ops op t a b /\ record_neg_v ops t a = record_neg_r ops t a.
Proof. repeat split. Qed.

(* Record arithmetic on constants stays constant: the number is the operator applied to the
   numbers, no tape is attached and the tape given as state is untouched *)
Theorem record_constants_closed op t a b : rc_history a = None -> rc_history b = None ->
  record_rr ops op t a b = Ok (mkRecord (fn_of ops op (rc_number a) (rc_number b)) None 0%nat, t) /\
  record_neg_r ops t a = Ok (mkRecord (nneg ops (rc_number a)) None 0%nat, t) /\
  record_neg_v ops t a = Ok (mkRecord (nneg ops (rc_number a)) None 0%nat, t).
Proof.
  intros Ha Hb. unfold record_rr, record_neg_r, record_neg_v, same_list. rewrite Ha, Hb.
  repeat split.
Qed.

(* with an operand on a tape the result is on that tape, at the entry just appended; records of
   two different tapes: the assertion fires *)
Theorem record_tape_result op t a b r t' : record_rr ops op t a b = Ok (r, t') ->
  (rc_history a <> None \/ rc_history b <> None) ->
  rc_index r = length t /\ length t' = S (length t) /\
  (rc_history r = rc_history a \/ rc_history r = rc_history b) /\ rc_history r <> None.
Proof.
  unfold record_rr. destruct (same_list a b); [|discriminate].
  destruct (rc_history a) as [ha|] eqn:Ha, (rc_history b) as [hb|] eqn:Hb.
  - cbn. intros [= <- <-] _. cbn. rewrite app_length. cbn. repeat split; auto; try lia. discriminate.
  - unfold record_num. rewrite Ha. cbn. intros [= <- <-] _. cbn. rewrite app_length. cbn.
    repeat split; auto; try lia. discriminate.
  - destruct ((op =? 0) || (op =? 2)).
    + unfold record_num. rewrite Hb. cbn. intros [= <- <-] _. cbn. rewrite app_length. cbn.
      repeat split; auto; try lia. discriminate.
    + unfold num_record. rewrite Hb. cbn. intros [= <- <-] _. cbn. rewrite app_length. cbn.
      repeat split; auto; try lia. discriminate.
  - intros _ [H|H]; congruence.
Qed.

Theorem record_cross_tape_panics op t a b x y : rc_history a = Some x -> rc_history b = Some y ->
  x <> y -> record_rr ops op t a b = Panic.
Proof.
  intros Ha Hb Hne. unfold record_rr, same_list. rewrite Ha, Hb.
  apply Nat.eqb_neq in Hne. rewrite Hne. reflexivity.
Qed.

(* ---- dual numbers over a commutative ring ---- *)
Hypothesis Rth : ring_theory (nzero ops) (none_ ops) (nadd ops) (nmul ops) (nsub ops) (nneg ops) eq.
Notation zero := (nzero ops). Notation one := (none_ ops).
Notation "x [+] y" := (nadd ops x y) (at level 50, left associativity).
Notation "x [*] y" := (nmul ops x y) (at level 40, left associativity).
Notation "x [-] y" := (nsub ops x y) (at level 50, left associativity).

Lemma r_add_0_r x : x [+] zero = x.
Proof. rewrite (Radd_comm Rth). apply (Radd_0_l Rth). Qed.
Lemma r_mul_1_r x : x [*] one = x.
Proof. rewrite (Rmul_comm Rth). apply (Rmul_1_l Rth). Qed.
Lemma r_opp_0 : nneg ops zero = zero.
Proof. rewrite <- (Radd_0_l Rth (nneg ops zero)). apply (Ropp_def Rth). Qed.
Lemma r_sub_0_r x : x [-] zero = x.
Proof. rewrite (Rsub_def Rth), r_opp_0. apply r_add_0_r. Qed.
Lemma r_sub_0_l x : zero [-] x = nneg ops x.
Proof. rewrite (Rsub_def Rth). apply (Radd_0_l Rth). Qed.
Lemma r_mul_0_l x : zero [*] x = zero.
Proof.
  (* 0*x = 0*x + (0*x + -(0*x)) = (0+0)*x + -(0*x) = 0*x + -(0*x) = 0 *)
  assert (E : zero [*] x [+] zero [*] x = zero [*] x).
  { rewrite <- (Rdistr_l Rth). rewrite (Radd_0_l Rth). reflexivity. }
  rewrite <- (r_add_0_r (zero [*] x)) at 1.
  rewrite <- (Ropp_def Rth (zero [*] x)) at 2.
  rewrite (Radd_assoc Rth), E. apply (Ropp_def Rth).
Qed.
Lemma r_mul_0_r x : x [*] zero = zero.
Proof. rewrite (Rmul_comm Rth). apply r_mul_0_l. Qed.

(* Trace arithmetic on constants stays constant: derivative 0 (the quotient needs 0 / y = 0,
   which the ring laws do not provide: stated as a hypothesis of that clause) *)
Theorem trace_constants_closed a b :
  trace_rr ops 0 (trace_constant ops a) (trace_constant ops b) = trace_constant ops (a [+] b) /\
  trace_rr ops 1 (trace_constant ops a) (trace_constant ops b) = trace_constant ops (a [-] b) /\
  trace_rr ops 2 (trace_constant ops a) (trace_constant ops b) = trace_constant ops (a [*] b) /\
  ((forall y, ndiv ops zero y = zero) ->
   trace_rr ops 3 (trace_constant ops a) (trace_constant ops b) = trace_constant ops (ndiv ops a b)) /\
  trace_neg_r ops (trace_constant ops a) = trace_constant ops (nneg ops a) /\
  trace_neg_v ops (trace_constant ops a) = trace_constant ops (nneg ops a).
Proof.
  unfold trace_neg_r, trace_neg_v, trace_vr, trace_vv, trace_zero, trace_rr, trace_constant.
  cbn [tr_number tr_derivative].
  rewrite !r_mul_0_l, !r_mul_0_r, !(Radd_0_l Rth), !r_sub_0_r, !r_sub_0_l.
  repeat split. intros H0. rewrite H0. reflexivity.
Qed.

(* zero and one are the identities of Trace arithmetic AS DUAL NUMBERS (derivative component
   included); x / 1 = x is again a hypothesis of the quotient clause *)
Theorem trace_identities t :
  trace_rr ops 0 (trace_zero ops) t = t /\ trace_rr ops 0 t (trace_zero ops) = t /\
  trace_rr ops 2 (trace_one ops) t = t /\ trace_rr ops 2 t (trace_one ops) = t /\
  trace_rr ops 1 t (trace_zero ops) = t /\
  ((forall x, ndiv ops x one = x) -> trace_rr ops 3 t (trace_one ops) = t).
Proof.
  destruct t as [n d]. unfold trace_rr, trace_zero, trace_one, trace_constant.
  cbn [tr_number tr_derivative].
  rewrite !(Radd_0_l Rth), !r_add_0_r, !(Rmul_1_l Rth), !r_mul_1_r, !r_mul_0_l, !r_mul_0_r,
          !r_sub_0_r, !(Radd_0_l Rth), !r_add_0_r.
  repeat split. intros H1. rewrite !H1. reflexivity.
Qed.

(* negation of a dual number negates both components *)
Theorem trace_neg_spec t :
  trace_neg_r ops t = mkTrace (nneg ops (tr_number t)) (nneg ops (tr_derivative t)).
Proof.
  unfold trace_neg_r, trace_vr, trace_rr, trace_zero, trace_constant. cbn [tr_number tr_derivative].
  rewrite !r_sub_0_l. reflexivity.
Qed.

(* zero and one as Records are identities of Record arithmetic on constants *)
Theorem record_identities t x :
  record_rr ops 0 t (record_zero ops) (record_constant x) = Ok (record_constant x, t) /\
  record_rr ops 0 t (record_constant x) (record_zero ops) = Ok (record_constant x, t) /\
  record_rr ops 2 t (record_one ops) (record_constant x) = Ok (record_constant x, t) /\
  record_rr ops 2 t (record_constant x) (record_one ops) = Ok (record_constant x, t).
Proof.
  unfold record_rr, same_list, record_zero, record_one, record_constant. cbn [rc_history rc_number fn_of].
  rewrite (Radd_0_l Rth), r_add_0_r, (Rmul_1_l Rth), r_mul_1_r. repeat split.
Qed.
End WrapperOps.

(* the integers as a dictionary: the ring hypothesis and the two quotient hypotheses are
   satisfiable (non-vacuity) *)
Definition ZopsC19 : numops Z := {|
  nzero := 0; none_ := 1;
  nadd := Z.add; nsub := Z.sub; nmul := Z.mul; ndiv := Z.div; nneg := Z.opp;
  neqb := Z.eqb; nltb := Z.ltb; nleb := Z.leb;
  nsqrt := fun z => z; nexp := fun z => z; nln := fun z => z; nsin := fun z => z;
  ncos := fun z => z; npow := fun x _ => x; npi := 3; nof_N := fun n => Some (Z.of_N n);
  nenc := fun z => SZ z; ndec := dZ
|}.
Lemma ZopsC19_ring :
  ring_theory (nzero ZopsC19) (none_ ZopsC19) (nadd ZopsC19) (nmul ZopsC19) (nsub ZopsC19)
              (nneg ZopsC19) eq.
Proof. exact Zth. Qed.
Lemma ZopsC19_div : (forall y, ndiv ZopsC19 (nzero ZopsC19) y = nzero ZopsC19) /\
                    (forall x, ndiv ZopsC19 x (none_ ZopsC19) = x).
Proof. split; [intros y; exact (Zdiv_0_l y)|intros x; exact (Z.div_1_r x)]. Qed.
