(* C08 (stdlib style): scalar ring identities used by the mathcomp files (proved here with `ring`
   over the dictionary's ring laws and instantiated there), and the list-level half of Cholesky
   completeness. *)
From Coq Require Import List Arith Lia Ring Bool.
From EasyML Require Import Base.Sx Model.Num Model.LinAlg Model.Decomp Proofs.C07P1 Proofs.C08P1.
Import ListNotations.

Section Scalars.
Context {R : Type} (ops : numops R).
Hypothesis Rth : ring_theory (nzero ops) (none_ ops) (nadd ops) (nmul ops) (nsub ops) (nneg ops) (@eq R).
Add Ring Rring87 : Rth.
Notation "x [+] y" := (nadd ops x y) (at level 50, left associativity).
Notation "x [-] y" := (nsub ops x y) (at level 50, left associativity).
Notation "x [*] y" := (nmul ops x y) (at level 40, left associativity).

(* u.u = 2 u.x for u = x + a e when a^2 = x.x (S = the squares of the tail = a^2 - x0^2) *)
Lemma hu_scalar (a x0 : R) :
  (x0 [+] a) [*] (x0 [+] a) [+] (a [*] a [-] x0 [*] x0) =
  ((x0 [+] a) [*] x0 [+] (a [*] a [-] x0 [*] x0)) [+] ((x0 [+] a) [*] x0 [+] (a [*] a [-] x0 [*] x0)).
Proof. ring. Qed.
End Scalars.

(* ------------------------------------------------------------------ Cholesky completeness,
   list level: the routine is present whenever every pivot it tests is positive; `pivot_pos` is
   the statement about ONE pivot that Proofs/C08P9.v derives from positive definiteness. *)
Section Complete.
Context {R : Type} (ops : numops R).
Hypothesis Rth : ring_theory (nzero ops) (none_ ops) (nadd ops) (nmul ops) (nsub ops) (nneg ops) (@eq R).
Add Ring Rring87c : Rth.
Notation rO := (nzero ops).
Notation rI := (none_ ops).
Notation "x [+] y" := (nadd ops x y) (at level 50, left associativity).
Notation "x [-] y" := (nsub ops x y) (at level 50, left associativity).
Notation "x [*] y" := (nmul ops x y) (at level 40, left associativity).

Variable lt : R -> R -> Prop.
Hypothesis lt_irrefl : forall x, ~ lt x x.
Hypothesis leb_false : forall x y, nleb ops x y = false <-> lt y x.
Hypothesis div_mul : forall x, x <> rO -> ndiv ops rI x [*] x = rI.
Hypothesis sqrt_sqrt : forall x, lt rO x -> nsqrt ops x [*] nsqrt ops x = x.
Hypothesis sqrt_pos : forall x, lt rO x -> lt rO (nsqrt ops x).

Notation dot := (dot ops).
Notation mget := (mget ops).
Notation partial_ok := (partial_ok ops lt).
Notation row_ok := (row_ok ops lt).
Notation rows_ok := (rows_ok ops lt).

(* the pivot of row i is positive for every candidate off-diagonal part of that row *)
Definition pivot_pos (a : mat) (L : list (list R)) (i : nat) : Prop :=
  forall cur, length cur = i ->
    (forall j, j < i -> dot cur (nth j L []) (S j) = mget a i j) ->
    lt rO (mget a i i [-] dot cur cur i).

Lemma partial_ok_diag (a : mat) L i cur : length cur = i -> partial_ok a L i cur ->
  lt rO (mget a i i [-] dot cur cur i) ->
  partial_ok a L i (cur ++ [nsqrt ops (mget a i i [-] dot cur cur i)]).
Proof.
  intros Hji [Hc1 [Hc2 Hc3]] Hle.
  split; [rewrite app_length; simpl; lia|]. split.
  - intros j' Hj' Hj'i. rewrite app_length in Hj'. simpl in Hj'.
    rewrite dot_app_l by lia. apply Hc2; lia.
  - intros _. rewrite app_nth2 by lia. rewrite Hji, Nat.sub_diag. cbn [nth].
    split; [apply sqrt_pos; exact Hle|].
    cbn [Decomp.dot]. rewrite dot_app_l by lia.
    rewrite (dot_app_r ops cur cur) by lia.
    rewrite app_nth2 by lia. rewrite Hji, Nat.sub_diag. cbn [nth].
    rewrite sqrt_sqrt by exact Hle. ring.
Qed.

Lemma partial_ok_off (a : mat) L i cur : length cur < i ->
  lt rO (entry ops L (length cur) (length cur)) -> partial_ok a L i cur ->
  partial_ok a L i
    (cur ++ [(mget a i (length cur) [-] dot cur (nth (length cur) L []) (length cur))
             [*] ndiv ops rI (nth (length cur) (nth (length cur) L []) rO)]).
Proof.
  intros Hjlt Hposj [Hc1 [Hc2 Hc3]].
  split; [rewrite app_length; simpl; lia|]. split.
  - intros j' Hj' Hj'i. rewrite app_length in Hj'. simpl in Hj'.
    destruct (Nat.eq_dec j' (length cur)) as [->|Hne].
    + cbn [Decomp.dot]. rewrite dot_app_l by lia.
      rewrite app_nth2 by lia. rewrite Nat.sub_diag. cbn [nth].
      unfold entry in Hposj.
      set (s := dot cur (nth (length cur) L []) (length cur)).
      set (d := nth (length cur) (nth (length cur) L []) rO) in *.
      transitivity (s [+] (mget a i (length cur) [-] s) [*] (ndiv ops rI d [*] d)); [ring|].
      rewrite div_mul by (apply (pos_nz ops lt lt_irrefl); exact Hposj). ring.
    + rewrite dot_app_l by lia. apply Hc2; lia.
  - intros Hfull. rewrite app_length in Hfull. simpl in Hfull. lia.
Qed.

Lemma chol_row_complete (a : mat) L i : length L = i ->
  (forall j, j < i -> length (nth j L []) = S j /\ lt rO (entry ops L j j)) ->
  pivot_pos a L i ->
  forall fuel cur, length cur + fuel = S i -> partial_ok a L i cur ->
  exists row, chol_row ops a L i cur fuel = Some row.
Proof.
  intros HL Hprev Hpiv. induction fuel as [|f IH]; intros cur Hlen Hpo.
  - exists cur. reflexivity.
  - cbn [chol_row]. destruct (Nat.eqb_spec (length cur) i) as [Hji|Hji].
    + assert (Hpos : lt rO (mget a i i [-] dot cur cur i)).
      { apply Hpiv; [exact Hji|]. destruct Hpo as [_ [Hc2 _]]. intros j Hj. apply Hc2; lia. }
      rewrite Hji. rewrite (proj2 (leb_false _ _) Hpos).
      apply IH; [rewrite app_length; simpl; lia|].
      apply partial_ok_diag; assumption.
    + assert (Hjlt : length cur < i) by lia.
      apply IH; [rewrite app_length; simpl; lia|].
      apply partial_ok_off; [exact Hjlt|apply Hprev; exact Hjlt|exact Hpo].
Qed.

Lemma rows_ok_prev (a : mat) L : rows_ok a L ->
  forall j, j < length L -> length (nth j L []) = S j /\ lt rO (entry ops L j j).
Proof. intros Hok j Hj. destruct (Hok j Hj) as [H1 [H2 _]]. split; [auto|]. unfold entry. exact H2. Qed.

Lemma chol_rows_complete (a : mat) n :
  (forall L, rows_ok a L -> length L < n -> pivot_pos a L (length L)) ->
  forall fuel L, rows_ok a L -> length L + fuel = n ->
  exists Lf, chol_rows ops a L fuel = Some Lf.
Proof.
  intros Hpiv. induction fuel as [|f IH]; intros L Hok Hlen.
  - exists L. reflexivity.
  - assert (Hinit : partial_ok a L (length L) []).
    { split; [simpl; lia|]. split; simpl; intros; lia. }
    destruct (chol_row_complete a L (length L) eq_refl (rows_ok_prev a L Hok)
                (Hpiv L Hok ltac:(lia)) (S (length L)) [] ltac:(simpl; lia) Hinit) as [row Hrow].
    assert (Hone : chol_rows ops a L 1 = Some (L ++ [row])).
    { cbn [chol_rows]. rewrite Hrow. reflexivity. }
    destruct (chol_rows_sound ops Rth lt lt_irrefl leb_false div_mul sqrt_sqrt sqrt_pos
                a 1 L (L ++ [row]) Hok Hone) as [Hok' _].
    cbn [chol_rows]. rewrite Hrow. apply IH; [exact Hok'|].
    rewrite app_length. simpl. lia.
Qed.

Theorem cholesky_complete_list (a : mat) : mrows a = mcols a ->
  (forall L, rows_ok a L -> length L < mrows a -> pivot_pos a L (length L)) ->
  exists L, cholesky ops a = Some L.
Proof.
  intros Hsq Hpiv. unfold cholesky, is_square. rewrite Hsq, Nat.eqb_refl. cbn [negb]. rewrite <- Hsq.
  destruct (chol_rows_complete a (mrows a) Hpiv (mrows a) []) as [Lf HLf].
  - intros i Hi. simpl in Hi. lia.
  - reflexivity.
  - rewrite HLf. eexists. reflexivity.
Qed.

(* the Gram identities carried by the invariant: rows p, q of the finished part and a candidate
   new row reproduce the corresponding entries of a symmetric input *)
Lemma rows_ok_gram (a : mat) n L : symmetric ops a n -> rows_ok a L -> length L <= n ->
  forall p q m, p < length L -> q < length L -> length L <= m ->
  dot (nth p L []) (nth q L []) m = mget a p q.
Proof.
  intros Hsym Hok Hn.
  assert (Hlow : forall p q m, p < length L -> q <= p -> length L <= m ->
            dot (nth p L []) (nth q L []) m = mget a p q).
  { intros p q m Hp Hq Hm.
    rewrite (dot_zero_tail ops Rth _ _ (S q)); [|lia|].
    2:{ intros k Hk _. apply nth_overflow. destruct (Hok q ltac:(lia)) as [H1 _]. rewrite H1. lia. }
    destruct (Hok p Hp) as [_ [_ [H3 H4]]].
    destruct (Nat.eq_dec q p) as [->|Hne]; [exact H4|].
    specialize (H3 q ltac:(lia)). rewrite nth_firstn_lt in H3 by lia. exact H3. }
  intros p q m Hp Hq Hm. destruct (Nat.le_gt_cases q p) as [Hle|Hgt]; [apply Hlow; assumption|].
  rewrite (dot_comm ops Rth), Hsym by lia. apply Hlow; lia.
Qed.

Lemma cur_gram (a : mat) L i cur : rows_ok a L -> length L = i -> length cur = i ->
  (forall j, j < i -> dot cur (nth j L []) (S j) = mget a i j) ->
  forall p, p < i -> dot cur (nth p L []) i = mget a i p.
Proof.
  intros Hok HL Hc Heq p Hp.
  rewrite (dot_zero_tail ops Rth _ _ (S p)); [apply Heq; exact Hp|lia|].
  intros k Hk _. apply nth_overflow. destruct (Hok p ltac:(lia)) as [H1 _]. rewrite H1. lia.
Qed.
End Complete.
