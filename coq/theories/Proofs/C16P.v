(* C16: the index arithmetic behind the fallible APIs is total over the WHOLE usize domain: for
   every argument in [0, 2^64) and in both build profiles (overflow-checking and wrapping) it
   never panics and equals the ideal (unbounded) arithmetic specification. *)
From Coq Require Import List ZArith NArith Bool Arith Lia.
From EasyML Require Import Base.Sx Model.Shape Model.U64 Model.Fallible Proofs.ShapeP.
Import ListNotations.
Open Scope N_scope.

Definition usz (n : N) : Prop := n <= usize_max.

Lemma usize_max_val : usize_max = 18446744073709551615. Proof. reflexivity. Qed.
Lemma usize_mod_val : usize_mod = 18446744073709551616. Proof. reflexivity. Qed.
Global Opaque usize_max usize_mod.

Ltac usz_lia := unfold usz in *; rewrite ?usize_max_val, ?usize_mod_val in *; lia.

Lemma u_add_ok m a b : a + b <= usize_max -> u_add m a b = Ok (a + b).
Proof. intros H. unfold u_add. destruct (N.leb_spec (a + b) usize_max); [reflexivity|lia]. Qed.
Lemma u_sub_ok m a b : b <= a -> u_sub m a b = Ok (a - b).
Proof. intros H. unfold u_sub. destruct (N.leb_spec b a); [reflexivity|lia]. Qed.
Lemma u_mul_ok m a b : a * b <= usize_max -> u_mul m a b = Ok (a * b).
Proof. intros H. unfold u_mul. destruct (N.leb_spec (a * b) usize_max); [reflexivity|lia]. Qed.

(* ---------- ideal specifications ---------- *)

(* number of indexes a range (start, length) leaves of a dimension of `len` elements *)
Definition clipped_length (r : index_range) (len : N) : N :=
  N.min (r_start r + r_length r) len - r_start r.

Definition range_spec (r : index_range) (len i : N) : option N :=
  if i <? clipped_length r len then Some (r_start r + i) else None.

Definition mask_spec (r : index_range) (len i : N) : option N :=
  if i <? r_start r then (if i <? len then Some i else None)
  else if i + clipped_length r len <? len then Some (i + clipped_length r len) else None.

Definition reverse_spec (len i : N) : option N := if i <? len then Some (len - 1 - i) else None.

(* ---------- IndexRange ---------- *)

Lemma ir_clip_total r len : usz (r_start r) -> usz (r_length r) -> usz len ->
  ir_clip r len = Ok (mkRange (r_start r) (clipped_length r len)).
Proof.
  intros Hs Hl Hn. unfold ir_clip, clipped_length, sat_add, sat_sub. do 2 f_equal. usz_lia.
Qed.

Theorem range_get_total m r len i : usz (r_start r) -> usz (r_length r) -> usz len -> usz i ->
  range_get m r len i = Ok (range_spec r len i).
Proof.
  intros Hs Hl Hn Hi. unfold range_get. rewrite ir_clip_total by assumption. cbn [obind].
  unfold ir_map, range_spec. cbn [r_start r_length].
  destruct (N.ltb_spec i (clipped_length r len)) as [Hlt|Hge]; [|reflexivity].
  assert (Hb : i + r_start r < len) by (unfold clipped_length in Hlt; usz_lia).
  rewrite u_add_ok by usz_lia. cbn [omap obind].
  destruct (N.ltb_spec (i + r_start r) len); [|lia]. do 2 f_equal. lia.
Qed.

Theorem range_len_total r len : usz (r_start r) -> usz (r_length r) -> usz len ->
  range_len r len = Ok (clipped_length r len).
Proof. intros. unfold range_len. rewrite ir_clip_total by assumption. reflexivity. Qed.

(* every index the range view reports present is inside the source and below start+length *)
Corollary range_spec_sound r len i j : range_spec r len i = Some j ->
  j < len /\ j = r_start r + i /\ i < r_length r.
Proof.
  unfold range_spec, clipped_length.
  destruct (N.ltb_spec i (N.min (r_start r + r_length r) len - r_start r)); [|discriminate].
  intros [= <-]. lia.
Qed.

Theorem mask_get_total r len i : usz (r_start r) -> usz (r_length r) -> usz len -> usz i ->
  mask_get r len i = Ok (mask_spec r len i).
Proof.
  intros Hs Hl Hn Hi. unfold mask_get. rewrite ir_clip_total by assumption. cbn [obind].
  unfold ir_mask, mask_spec, sat_add. cbn [r_start r_length obind].
  destruct (N.ltb_spec i (r_start r)); [reflexivity|]. cbn [obind].
  set (c := clipped_length r len).
  destruct (N.ltb_spec (N.min (i + c) usize_max) len) as [H1|H1];
    destruct (N.ltb_spec (i + c) len) as [H2|H2]; try reflexivity; try usz_lia.
  do 2 f_equal. usz_lia.
Qed.

Theorem mask_len_total m r len : usz (r_start r) -> usz (r_length r) -> usz len ->
  mask_len m r len = Ok (len - clipped_length r len).
Proof.
  intros. unfold mask_len. rewrite ir_clip_total by assumption. cbn [obind r_length].
  apply u_sub_ok. unfold clipped_length. lia.
Qed.

(* a masked view never exposes a hidden element: what it reports present is outside the mask *)
Corollary mask_spec_sound r len i j : mask_spec r len i = Some j ->
  j < len /\ (j < r_start r \/ r_start r + clipped_length r len <= j).
Proof.
  unfold mask_spec. destruct (N.ltb_spec i (r_start r)).
  - destruct (N.ltb_spec i len); [|discriminate]. intros [= <-]. lia.
  - destruct (N.ltb_spec (i + clipped_length r len) len); [|discriminate]. intros [= <-]. lia.
Qed.

Theorem ir_exceeds_total r len : usz (r_start r) -> usz (r_length r) -> usz len ->
  ir_exceeds r len = Ok (len <? r_start r + r_length r).
Proof.
  intros Hs Hl Hn. unfold ir_exceeds, checked_add.
  destruct (N.leb_spec (r_start r + r_length r) usize_max); [reflexivity|].
  destruct (N.ltb_spec len (r_start r + r_length r)); [reflexivity|usz_lia].
Qed.

(* lenient construction keeps a non-empty view exactly when at least one index remains *)
Theorem lenient_clips r len : 0 < clipped_length r len <-> r_start r < len /\ 0 < r_length r.
Proof. unfold clipped_length. lia. Qed.

(* ---------- reversal ---------- *)

Theorem reverse_get_total m len i : usz len -> usz i ->
  reverse_get m len i = Ok (reverse_spec len i).
Proof.
  intros Hn Hi. unfold reverse_get, reverse_spec.
  destruct (N.eqb_spec len 0) as [->|Hne].
  - destruct (N.ltb_spec i 0); [lia|reflexivity].
  - unfold rev_index. rewrite u_sub_ok by lia. cbn [obind].
    destruct (N.ltb_spec (len - 1) i).
    + cbn [obind]. destruct (N.ltb_spec i len); [lia|reflexivity].
    + rewrite u_sub_ok by lia. cbn [obind].
      destruct (N.ltb_spec (len - 1 - i) len); [|lia].
      destruct (N.ltb_spec i len); [reflexivity|lia].
Qed.

(* ---------- get_index_direct and Matrix::get_index ---------- *)

Lemma gid_m_total m idx : forall sh acc,
  Forall (fun l => 0 < l) (lens_of sh) -> acc + prod (lens_of sh) <= usize_max + 1 ->
  gid_m m idx (compute_strides sh) (lens_of sh) acc = Ok (gid idx (compute_strides sh) (lens_of sh) acc).
Proof.
  induction idx as [|i idx IH]; intros [|[n l] sh] acc Hpos Hb.
  - reflexivity.
  - rewrite strides_cons. reflexivity.
  - reflexivity.
  - rewrite strides_cons. cbn [lens_of map snd gid_m gid] in *.
    change (map snd sh) with (lens_of sh) in *.
    inversion Hpos as [|? ? Hl Hrest]; subst. rewrite prod_cons in Hb.
    pose proof (prod_pos _ Hrest) as Hp.
    destruct (N.leb_spec l i); [reflexivity|].
    set (s := prod (lens_of sh)) in *.
    assert (i * s + s <= l * s) by nia.
    rewrite u_mul_ok by lia. cbn [obind]. rewrite u_add_ok by lia. cbn [obind].
    apply IH; [exact Hrest|]. fold s. lia.
Qed.

(* for every tensor built by a validating constructor (element count fits a usize) the
   machine-arithmetic position computation equals the ideal one for EVERY index tuple *)
Theorem get_index_direct_total m sh idx :
  valid_shape sh -> elements sh <= usize_max ->
  gid_m m idx (compute_strides sh) (lens_of sh) 0 =
  Ok (get_index_direct idx (compute_strides sh) sh).
Proof.
  intros [_ Hpos] He. unfold get_index_direct. apply gid_m_total; [exact Hpos|].
  unfold elements in He. lia.
Qed.

Theorem matrix_try_index_total m rows cols row col : rows * cols <= usize_max ->
  matrix_try_index m rows cols row col =
  Ok (if (row <? rows) && (col <? cols) then Some (row * cols + col) else None).
Proof.
  intros Hb. unfold matrix_try_index.
  destruct (N.ltb_spec row rows); [|reflexivity].
  destruct (N.ltb_spec col cols); [|reflexivity]. cbn [andb].
  assert (row * cols + cols <= rows * cols) by nia.
  rewrite u_mul_ok by lia. cbn [obind]. rewrite u_add_ok by lia. reflexivity.
Qed.

Corollary matrix_index_in_bounds rows cols row col :
  row < rows -> col < cols -> row * cols + col < rows * cols.
Proof. intros. nia. Qed.

(* ---------- size validation ---------- *)

Theorem flat_size_ok_total rows cols len : usz len ->
  flat_size_ok rows cols len = Ok (rows * cols =? len).
Proof.
  intros Hl. unfold flat_size_ok, checked_mul.
  destruct (N.leb_spec (rows * cols) usize_max); [reflexivity|].
  destruct (N.eqb_spec (rows * cols) len); [usz_lia|reflexivity].
Qed.

(* Tensor validation (Model/Shape.validate_dimensions uses the checked product): accepted shapes
   have an element count that fits a usize, whatever lengths the caller passed *)
Theorem validate_dimensions_total sh len : usz len ->
  (validate_dimensions sh len = true <-> valid_shape sh /\ elements sh = len).
Proof.
  intros Hl. rewrite validate_dimensions_spec. unfold usz in Hl. split.
  - tauto.
  - intros [[H1 H2] He]. split; [split; assumption|]. split; [exact He|lia].
Qed.
