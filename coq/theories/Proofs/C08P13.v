(* C08, LDL^T completeness (mathcomp / ssreflect style): a symmetric positive definite input never
   meets a zero pivot, hence (C08P11) its LDL^T result is present.  If column j met a zero pivot
   after j successful columns, the leading (j+1) x (j+1) block of A would be W D W^T with W of only
   j columns (C08P12.ldlt_zero_pivot_gram): a vector v <> 0 with v W = 0 exists, v A' v^T = 0,
   contradicting positive definiteness of the leading block (C08P9.posdef_restrict). *)
From Coq Require Import PeanoNat List.
From EasyML Require Import Base.Sx Model.Num Model.LinAlg Model.Decomp Proofs.C07P1 Proofs.C08P1
     Proofs.C08P3 Proofs.C08P5 Proofs.C08P11 Proofs.C08P12.
From mathcomp Require Import all_ssreflect all_algebra zify.
From EasyML Require Import Proofs.C08P4 Proofs.C08P6 Proofs.C08P9.
Set Implicit Arguments. Unset Strict Implicit. Unset Printing Implicit Defensive.
Import Order.TTheory GRing.Theory Num.Theory.
Local Open Scope ring_scope.

Section LowRank.
Variable F : realFieldType.

(* a (j+1) x (j+1) matrix of the form W D W^T with W of j columns is not positive definite *)
Lemma lowrank_not_posdef j (W : 'M[F]_(j.+1, j)) (D : 'M[F]_j) : ~ posdef (W *m D *m W^T).
Proof.
  move=> pd.
  have Hk : kermx W != 0.
  { rewrite -mxrank_eq0 mxrank_ker subn_eq0 -ltnNge.
    exact: leq_ltn_trans (rank_leq_col W) (ltnSn j). }
  case/rowV0Pn: Hk => v /sub_kermxP Hv vn0.
  have xn0 : v^T != 0 by rewrite -(trmx0 F 1 j.+1) (inj_eq (@trmx_inj _ _ _)).
  have := pd _ xn0. by rewrite trmxK !mulmxA Hv !mul0mx mxE ltxx.
Qed.
End LowRank.

Section Complete.
Variable F : realFieldType.
Variable sq : F -> F.
Notation ops := (rops sq).

Lemma rops_div_mul (x : F) : x <> nzero ops -> nmul ops (ndiv ops (none_ ops) x) x = none_ ops.
Proof. move=> /= Hx. rewrite div1r mulVf //. exact/eqP. Qed.

Lemma rops_eqb (x y : F) : neqb ops x y = true <-> x = y.
Proof. rewrite /=. split => [/eqP //|->]. exact: eqxx. Qed.

Lemma ldl_sum_sum (cols : list (list F)) (ds : list F) i k j :
  ldl_sum ops cols ds i k j =
  \sum_(0 <= m < j) lent ops cols i m * lent ops cols k m * List.nth m ds 0.
Proof.
  elim: j => [|j IH] /=; first by rewrite big_geq.
  by rewrite IH big_nat_recr.
Qed.

Lemma no_zero_pivot (a : list (list F)) j :
  C08P1.symmetric ops a (mrows a) -> posdef (mxo sq (mrows a) (mrows a) a) ->
  (j < mrows a)%coq_nat -> ~ ldlt_zero_pivot_at ops a j.
Proof.
  move=> Hsym Hpd /ssrnat.ltP Hj [cols [ds [_ [Hlen [Hok Hz]]]]].
  have Hjn : (length cols < mrows a)%coq_nat by rewrite Hlen; exact/ssrnat.ltP.
  have Hg := @ldlt_zero_pivot_gram F ops (rops_ring sq) rops_div_mul a (mrows a) cols ds Hok Hsym Hjn Hz.
  rewrite Hlen in Hg.
  pose W : 'M[F]_(j.+1, j) := \matrix_(p, m) lent ops cols p m.
  pose D : 'M[F]_j := diag_mx (\row_m List.nth m ds 0).
  have Hblock : mxo sq j.+1 j.+1 a = W *m D *m W^T.
  { apply/matrixP => p q. rewrite [LHS]mxE -Hg; last 2 first.
    - apply/ssrnat.leP. by rewrite -ltnS.
    - apply/ssrnat.leP. by rewrite -ltnS.
    rewrite ldl_sum_sum big_mkord [RHS]mxE. apply: eq_bigr => m _.
    by rewrite mul_mx_diag !mxE mulrAC. }
  apply: (@lowrank_not_posdef F j W D). rewrite -Hblock (@mxo_leading F sq (mrows a) j.+1 a) //.
  exact: posdef_restrict.
Qed.

(* square, symmetric, positive definite -> the LDL^T result is present (any real field; the
   square-root oracle of the dictionary is not used by LDL^T) *)
Theorem ldlt_complete (a : list (list F)) :
  mrows a = mcols a -> C08P1.symmetric ops a (mrows a) ->
  posdef (mxo sq (mrows a) (mrows a) a) -> exists l d, ldlt ops a = Some (l, d).
Proof.
  move=> Hsq Hsym Hpd. apply (proj2 (ldlt_present_iff_no_zero_pivot ops rops_eqb a)).
  split=> // j Hj. exact: no_zero_pivot.
Qed.
End Complete.

(* non-vacuity over the rationals: the 1 x 1 input [[1]] is square, symmetric, positive definite *)
Definition spd_example : list (list rat) := [:: [:: 1]].

Lemma spd_example_ok (sq : rat -> rat) :
  mrows spd_example = mcols spd_example /\
  C08P1.symmetric (rops sq) spd_example (mrows spd_example) /\
  posdef (mxo sq (mrows spd_example) (mrows spd_example) spd_example).
Proof.
  split; first by []. split.
  { move=> i k Hi Hk. rewrite /mrows /= in Hi Hk.
    have -> : i = 0%N by lia.
    have -> : k = 0%N by lia.
    by []. }
  move=> x xn0. rewrite /mrows /= in x xn0 *.
  have x0 : x 0 0 != 0.
  { apply: contra xn0 => /eqP E. apply/eqP/matrixP => p q. by rewrite !ord1 E mxE. }
  rewrite !mxE big_ord1 !mxE big_ord1 !mxE /= mulr1 -expr2.
  by rewrite exprn_even_gt0.
Qed.
