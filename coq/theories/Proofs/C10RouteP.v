(* C10, wave 2: the sites of the inventory (notes/C10.md, class C) that had no theorem of their own.
   1. The routing theorem over ARBITRARY view terms of the C02 algebra (all 13 adaptors incl.
      TensorIndex / TensorExpansion / TensorStack / TensorChain / TensorMap-like wrappers, matrix
      backed leaves, any depth): every index inside the view's shape -- in particular every index a
      tensor iterator hands to get_reference_unchecked(_mut) -- resolves to an offset inside the
      stored data of one leaf; an index outside resolves to nothing.  Corollaries of C02's
      view_present_iff / resolves_in_bounds and C09's shape_iter_places.
   2. RecordTensor / RecordMatrix as sources (Model/RecordFwd.v): identity forwarding.
   3. MatrixPart: both get_unchecked calls of `data.get_unchecked(row).get_unchecked(column)` are in
      bounds for every part handed out by partition / partition_quadrants, the position lies inside
      the matrix's storage, distinct (part, row, column) never share a position.  Corollaries of
      C12's partition_parts_ok / partition_disjoint and C10Matrix.matrix_part_resolves_in_bounds. *)
From Coq Require Import List ZArith NArith Bool Arith Lia.
From EasyML Require Import Base.Sx Model.Shape Model.Tensor Model.Views Model.TSource Model.ShapeIter
  Model.MatrixIter Model.Transform Model.RecordFwd
  Proofs.ShapeP Proofs.C01P Proofs.OdometerP Proofs.C09P Proofs.C09MatOwnedP Proofs.SrcWfP
  Proofs.C02P Proofs.C02Q Proofs.C02W Proofs.C10P Proofs.C10IterP.
From EasyML Require Model.Matrix Model.MatrixViews Proofs.C12P Proofs.C12Partition Proofs.C10Matrix.
Import ListNotations.
Open Scope N_scope.

(* ---------- 1. any view term ---------- *)

Lemma in_range_shape_length idx (sh : shape) : in_range idx (lens_of sh) -> length idx = length sh.
Proof. intros H. apply in_range_length in H. unfold lens_of in H. rewrite map_length in H. exact H. Qed.

Theorem any_view_route_in_bounds v c idx : v_ctor v = Ok c -> usize_view c ->
  in_range idx (lens_of (c_shape c)) ->
  exists l off n, c_get c idx = Some (l, off) /\ In (l, n) (c_leaves c) /\ off < n.
Proof.
  intros Hc Hu Hr. pose proof (in_range_shape_length _ _ Hr) as Hl.
  pose proof (proj2 (view_present_iff v c idx Hc Hu Hl) Hr) as Hp.
  destruct (c_get c idx) as [[l off]|] eqn:E; [|congruence].
  destruct (resolves_in_bounds v c idx l off Hc E) as [n [Hin Hlt]].
  exists l, off, n. auto.
Qed.

Theorem any_view_outside_no_access v c idx : v_ctor v = Ok c -> usize_view c ->
  length idx = length (c_shape c) -> ~ in_range idx (lens_of (c_shape c)) -> c_get c idx = None.
Proof.
  intros Hc Hu Hl Hn. destruct (c_get c idx) eqn:E; [|reflexivity]. exfalso. apply Hn.
  apply (proj1 (view_present_iff v c idx Hc Hu Hl)). congruence.
Qed.

(* the indexes the shape iterator (the engine of every tensor iterator: indexing.rs:919, 1101,
   1219, 1385) yields over the view's shape during its first k calls *)
Definition view_iter_places (c : cview) (k : nat) : list (list N) :=
  somes (map fst (fst (drive iter_next iter_len k (shape_iter_from (c_shape c))))).

Theorem any_view_iter_places_in_shape c k :
  Forall (fun idx => in_range idx (lens_of (c_shape c))) (view_iter_places c k).
Proof.
  unfold view_iter_places. fold (outs k (shape_iter_from (c_shape c))). rewrite shape_iter_places.
  apply Forall_firstn', all_indexes_in_range.
Qed.

Theorem any_view_iter_accesses_in_bounds v c k : v_ctor v = Ok c -> usize_view c ->
  Forall (fun idx => exists l off n, c_get c idx = Some (l, off) /\ In (l, n) (c_leaves c) /\ off < n)
         (view_iter_places c k).
Proof.
  intros Hc Hu. eapply Forall_impl; [|apply any_view_iter_places_in_shape].
  intros idx Hr. exact (any_view_route_in_bounds v c idx Hc Hu Hr).
Qed.

(* ---------- 2. RecordTensor / RecordMatrix forwarding ---------- *)
Section Records.
Context {T : Type}.

(* a record tensor over a source built by the adaptor constructors (tensor at the bottom): an
   index inside the record tensor's view_shape is handed on UNCHANGED, lies inside the source's
   view_shape, and the source routes it to a storage offset inside the stored data *)
Theorem record_tensor_forwarding_in_bounds (r : record_tensor (T := T)) idx :
  constructed (rt_numbers r) -> in_range idx (lens_of (rt_view_shape r)) ->
  rt_forward idx = idx /\
  in_range (rt_forward idx) (lens_of (src_shape (rt_numbers r))) /\
  exists b p x, src_route (rt_numbers r) (rt_forward idx) = Some b /\
    in_range b (lens_of (t_shape (src_base (rt_numbers r)))) /\
    get_index_direct b (t_strides (src_base (rt_numbers r))) (t_shape (src_base (rt_numbers r))) = Some p /\
    (N.to_nat p < length (t_data (src_base (rt_numbers r))))%nat /\
    rt_get_reference r idx = Some x.
Proof.
  intros Hc Hr. split; [reflexivity|]. split; [exact Hr|].
  destruct (constructed_route_in_bounds (rt_numbers r) idx Hc Hr) as [b [p [x [H1 [H2 [H3 [H4 [_ H6]]]]]]]].
  exists b, p, x. unfold rt_get_reference, rt_forward. auto.
Qed.

(* writes through get_reference_mut / get_reference_unchecked_mut: same index, the source (hence
   the tensor at the bottom) keeps shape, strides and stored length *)
Theorem record_tensor_write_keeps_frame (r r' : record_tensor (T := T)) idx v :
  rt_set r idx v = Some r' ->
  src_set (rt_numbers r) idx v = Some (rt_numbers r') /\ rt_history r' = rt_history r.
Proof.
  unfold rt_set, rt_forward. destruct (src_set (rt_numbers r) idx v) as [s|]; cbn [option_map]; [|discriminate].
  intros [= <-]. split; reflexivity.
Qed.

(* a record matrix over a well-formed matrix source (Matrix, MatrixRange, MatrixReverse): a
   (row, column) inside the record matrix's size is handed on unchanged, lies inside the source's
   size and finds an element; over a Matrix the storage position is inside the stored data *)
Theorem record_matrix_forwarding_in_bounds (r : record_matrix (T := T)) row column :
  msrc_wf (rm_numbers r) -> row < rm_view_rows r -> column < rm_view_columns r ->
  rm_forward row column = (row, column) /\
  in_size (rm_numbers r) (rm_forward row column) /\
  (exists x, rm_try_get_reference r row column = Some x) /\
  (forall m, rm_numbers r = MBase m ->
     (N.to_nat (column + row * m_cols m) < length (m_data m))%nat).
Proof.
  intros Hw Hr Hc. split; [reflexivity|]. split; [split; assumption|]. split.
  - unfold rm_try_get_reference, rm_forward. cbn [fst snd]. apply msrc_total; assumption.
  - intros m Em. unfold rm_view_rows, rm_view_columns in *. rewrite Em in *. cbn [msrc_wf ms_rows ms_cols] in *. nia.
Qed.

End Records.

(* a record tensor over ANY view term (from_existing over a TensorRef): RecordTensor is the
   index-transparent wrapper of the C02 algebra; the wrapped view's constructor decides, shape and
   element are the source's at the SAME index, and the route ends in bounds *)
Theorem record_view_forwarding_in_bounds v c' : v_ctor (record_view v) = Ok c' -> usize_view c' ->
  exists c, v_ctor v = Ok c /\ c' = record_cview c /\ c_shape c' = c_shape c /\
    (forall idx, c_get c' idx = c_get c idx) /\
    forall idx, in_range idx (lens_of (c_shape c')) ->
      exists l off n, c_get c idx = Some (l, off) /\ In (l, n) (c_leaves c) /\ off < n.
Proof.
  unfold record_view, record_cview. cbn [v_ctor]. destruct (v_ctor v) as [c| |] eqn:E; cbn; try discriminate.
  intros [= <-] Hu. exists c. split; [reflexivity|]. split; [reflexivity|]. split; [reflexivity|].
  split; [reflexivity|]. intros idx Hr. cbn [c_shape] in Hr. cbn [usize_view] in Hu.
  exact (any_view_route_in_bounds v c idx E Hu Hr).
Qed.

(* ---------- 3. MatrixPart ---------- *)
Section Parts.
Import Model.Matrix Model.MatrixViews Proofs.C12P Proofs.C12Partition Proofs.C10Matrix.

(* MatrixPart::get_reference_unchecked(_mut) is `data.get_unchecked(row).get_unchecked(column)`:
   for every part handed out by Matrix::partition over a matrix satisfying the invariant and every
   (row, column) inside the part's size, `row` is inside `data` (one slice per row), `column` is
   inside that slice, the slice lies inside the matrix's storage; the verif-hook's side conditions
   (data.len() == rows, every slice as long as columns) hold; and two different
   (part, row, column) never resolve to the same storage position *)
Theorem partition_parts_in_bounds (T : Type) (s : Matrix.matrix T) rp cp parts :
  matrix_invariant s -> partition (Matrix.m_rows s) (Matrix.m_cols s) rp cp = Ok parts ->
  (forall p, In p parts -> forall row column, row < p_rows p -> column < p_cols p ->
     N.of_nat (length (p_slices p)) = p_rows p /\
     Forall (fun sl => snd sl = p_cols p) (p_slices p) /\
     exists offset len,
       nth_error (p_slices p) (N.to_nat row) = Some (offset, len) /\ column < len /\
       try_get (VPart p) row column = Cell (offset + column) /\
       offset + column < N.of_nat (length (Matrix.m_data s))) /\
  (forall k k' p p' i j i' j' a,
     nth_error parts k = Some p -> nth_error parts k' = Some p' ->
     try_get (VPart p) i j = Cell a -> try_get (VPart p') i' j' = Cell a ->
     k = k' /\ i = i' /\ j = j').
Proof.
  intros Hinv Hok. split; [|exact (proj2 (matrix_part_resolves_in_bounds T s rp cp parts Hinv Hok))].
  destruct Hinv as [Hlen [Hr1 _]].
  pose proof (partition_parts_ok _ _ rp cp parts Hr1 Hok) as Hall. rewrite Forall_forall in Hall.
  intros p Hin row column Hrow Hcol. destruct (Hall p Hin) as [[Z1 Z2]|[Hrows Hsl]]; [lia|].
  split; [symmetry; exact Hrows|]. split.
  { eapply Forall_impl; [|exact Hsl]. intros sl H. exact (proj1 H). }
  destruct (nth_error (p_slices p) (N.to_nat row)) as [[offset len]|] eqn:En.
  - rewrite Forall_forall in Hsl. destruct (Hsl _ (nth_error_In _ _ En)) as [Hw Hb]. cbn [fst snd] in Hw, Hb.
    exists offset, len. split; [reflexivity|]. split; [lia|]. split; [|lia].
    cbn [try_get]. rewrite En.
    destruct (N.leb_spec (p_rows p) row); [lia|]. destruct (N.leb_spec (p_cols p) column); [lia|]. cbn [orb].
    destruct (N.ltb_spec column len); [reflexivity|lia].
  - apply nth_error_None in En. lia.
Qed.

(* partition_quadrants(row, column) is partition(&[row], &[column]) *)
Corollary quadrants_parts_in_bounds (T : Type) (s : Matrix.matrix T) qr qc parts :
  matrix_invariant s -> partition_quadrants (Matrix.m_rows s) (Matrix.m_cols s) qr qc = Ok parts ->
  forall p, In p parts -> forall row column, row < p_rows p -> column < p_cols p ->
    exists offset len,
      nth_error (p_slices p) (N.to_nat row) = Some (offset, len) /\ column < len /\
      offset + column < N.of_nat (length (Matrix.m_data s)).
Proof.
  intros Hinv Hok p Hin row column Hr Hc. unfold partition_quadrants in Hok.
  destruct (proj1 (partition_parts_in_bounds T s [qr] [qc] parts Hinv Hok) p Hin row column Hr Hc)
    as [_ [_ [offset [len [H1 [H2 [_ H4]]]]]]].
  exists offset, len. auto.
Qed.

End Parts.
