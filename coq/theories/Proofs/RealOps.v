(* The dictionary of Model/Num.v instantiated with Coq's real numbers: the MEANING of the
   symbols sin / cos / exp / ln / sqrt / pow / pi that are uninterpreted polynomials on the
   correspondence side.  Used (a) to show that the hypotheses of the C14 / C17 theorems are
   satisfiable and (b) to state the C17 density theorem over the reals.
   Not executable (the comparisons go through the decidability axioms of the Coq reals); the
   encoders are dummies. *)
From Coq Require Import Reals List Lra Lia NArith Bool Field.
From EasyML Require Import Base.Sx Model.Num Proofs.C14P.
Import ListNotations.
Open Scope R_scope.

Definition Rltb (a b : R) : bool := if Rlt_dec a b then true else false.
Definition Rleb (a b : R) : bool := if Rle_dec a b then true else false.
Definition Reqb (a b : R) : bool := if Req_EM_T a b then true else false.
(* powf, as far as the models use it: the square is the product (also for y <= 0, where
   Rpower = exp (z * ln y) would be wrong) *)
Definition Rpow (y z : R) : R := if Req_EM_T z 2 then y * y else Rpower y z.

Definition Rops : numops R := {|
  nzero := 0; none_ := 1;
  nadd := Rplus; nsub := Rminus; nmul := Rmult; ndiv := Rdiv; nneg := Ropp;
  neqb := Reqb; nltb := Rltb; nleb := Rleb;
  nsqrt := sqrt; nexp := exp; nln := ln; nsin := sin; ncos := cos;
  npow := Rpow; npi := PI;
  nof_N := fun n => Some (INR (N.to_nat n));
  nenc := fun _ => SL [];
  ndec := fun _ => None
|}.

Lemma Rops_is_field : is_field Rops.
Proof.
  unfold is_field, ninv. cbn. constructor.
  - constructor; intros; cbn; try ring. 
  - cbn. lra.
  - intros p q. cbn. unfold Rdiv. ring.
  - intros p Hp. cbn. field. exact Hp.
Qed.

Lemma natR_INR n : natR Rops n = INR n.
Proof.
  induction n as [|n IH]; [reflexivity|]. cbn [natR]. rewrite IH, S_INR. reflexivity.
Qed.

Lemma Rops_from : forall n : N, nof_N Rops n = Some (natR Rops (N.to_nat n)).
Proof. intros n. cbn. now rewrite natR_INR. Qed.

Lemma Rltb_spec a b : Rltb a b = true <-> a < b.
Proof. unfold Rltb. destruct (Rlt_dec a b); split; intros; auto; discriminate. Qed.

Lemma Rops_ordered : ordered_exp_field Rops Rlt.
Proof.
  constructor; cbn.
  - exact Rops_is_field.
  - intros a. apply Rlt_irrefl.
  - intros a b c. apply Rlt_trans.
  - intros a b. destruct (Rtotal_order a b) as [H | [H | H]]; auto.
  - intros a b c H. lra.
  - intros a b Ha Hb. now apply Rmult_lt_0_compat.
  - apply Rltb_spec.
  - apply exp_pos.
  - apply exp_increasing.
Qed.
