(* C08 (mathcomp / ssreflect style): a matrix with a Cholesky factor is positive definite, hence
   over a real closed field (sqrt = Num.sqrt) the transcribed routine rejects every symmetric
   input that is not positive definite. *)
From Coq Require Import PeanoNat List.
From EasyML Require Import Base.Sx Model.Num Model.LinAlg Model.Decomp Proofs.C07P1 Proofs.C08P1
     Proofs.C08P3 Proofs.C08P5.
From mathcomp Require Import all_ssreflect all_algebra zify.
From EasyML Require Import Proofs.C08P4.
Set Implicit Arguments. Unset Strict Implicit. Unset Printing Implicit Defensive.
Import Order.TTheory GRing.Theory Num.Theory.
Local Open Scope ring_scope.

Section PD.
Variable F : realFieldType.

(* L lower triangular with positive diagonal: L L^T is positive definite *)
Lemma factor_posdef n (L : 'M[F]_n) : is_trig_mx L -> (forall i, 0 < L i i) -> posdef (L *m L^T).
Proof.
  move=> Ltrig Ldiag x xn0.
  have Lu : L \in unitmx.
  { rewrite unitmxE unitfE (det_trig Ltrig). apply/prodf_neq0 => i _. by rewrite lt0r_neq0. }
  set y := L^T *m x.
  have yn0 : y != 0.
  { apply/eqP => y0. move/eqP: xn0; apply.
    have : invmx L^T *m y = 0 by rewrite y0 mulmx0.
    by rewrite /y mulKmx // unitmx_tr. }
  have -> : x^T *m (L *m L^T) *m x = y^T *m y by rewrite /y trmx_mul trmxK !mulmxA.
  rewrite mxE. under eq_bigr => i _ do rewrite mxE.
  rewrite lt0r; apply/andP; split; last by apply: sumr_ge0 => i _; rewrite -expr2 sqr_ge0.
  rewrite psumr_eq0; last by move=> i _; rewrite -expr2 sqr_ge0.
  apply/negP => /allP H. case/negP: yn0. apply/eqP/matrixP => i j. rewrite ord1 [RHS]mxE.
  have := H i. rewrite mem_index_enum => /(_ isT). by rewrite implyTb mulf_eq0 orbb => /eqP.
Qed.

Variable sq : F -> F.
Notation ops := (rops sq).

Lemma rops_ring : ring_theory (nzero ops) (none_ ops) (nadd ops) (nmul ops) (nsub ops) (nneg ops) (@eq F).
Proof.
  split => /=.
  - exact: add0r.
  - exact: addrC.
  - exact: addrA.
  - exact: mul1r.
  - exact: mulrC.
  - exact: mulrA.
  - exact: mulrDl.
  - by [].
  - exact: subrr.
Qed.

Lemma dot_sum (u v : list F) n :
  dot ops u v n = \sum_(0 <= k < n) List.nth k u 0 * List.nth k v 0.
Proof.
  elim: n => [|n IH] /=; first by rewrite big_geq.
  by rewrite IH big_nat_recr.
Qed.

(* a list-level Cholesky factor of a symmetric a, as matrices: L L^T = A, hence A is PD *)
Lemma factor_matrix (a L : list (list F)) :
  cholesky_factor ops (fun x y => x < y) a L -> C08P1.symmetric ops a (mrows a) ->
  mxo sq (mrows a) (mrows a) L *m (mxo sq (mrows a) (mrows a) L)^T = mxo sq (mrows a) (mrows a) a /\
  posdef (mxo sq (mrows a) (mrows a) a).
Proof.
  move=> [Hc [Hwf [Htri [Hdiag [_ Hsym]]]]] Hs.
  have Hprod : mxo sq (mrows a) (mrows a) L *m (mxo sq (mrows a) (mrows a) L)^T
               = mxo sq (mrows a) (mrows a) a.
  { apply/matrixP => i j. rewrite !mxE -(Hsym Hs i j); [|exact/ssrnat.ltP|exact/ssrnat.ltP].
    rewrite dot_sum big_mkord. apply: eq_bigr => k _. by rewrite !mxE. }
  split=> //. rewrite -Hprod. apply: factor_posdef.
  - apply/is_trig_mxP => i j Hij. rewrite mxE. apply: Htri; [exact/ssrnat.ltP|exact/ssrnat.ltP|exact/ssrnat.ltP].
  - move=> i. rewrite mxE. apply: Hdiag. exact/ssrnat.ltP.
Qed.
End PD.

Section RCF.
Variable F : rcfType.
Notation ops := (rops (@Num.sqrt F)).

Lemma rcf_ordered_sqrt_field : ordered_sqrt_field ops (fun x y : F => x < y).
Proof.
  split; first exact: rops_ring.
  split; first by move=> x; rewrite /= ltxx.
  split. { move=> x y /=. rewrite leNgt. by case: (y < x). }
  split. { move=> x /= Hx. rewrite div1r mulVf //. exact/eqP. }
  split. { move=> x y /=. split => [/eqP //|->]. exact: eqxx. }
  split. { move=> x /= Hx. by rewrite -expr2 sqr_sqrtr // ltW. }
  move=> x /= Hx. by rewrite sqrtr_gt0.
Qed.

(* real closed field, sqrt = Num.sqrt: a symmetric input with a present result is positive
   definite; equivalently a symmetric input that is not positive definite is rejected *)
Theorem cholesky_present_posdef (a L : list (list F)) :
  C08P1.symmetric ops a (mrows a) -> cholesky ops a = Some L ->
  posdef (mxo (@Num.sqrt F) (mrows a) (mrows a) a).
Proof.
  move=> Hs Hc. have Hf := @cholesky_sound_b F ops _ a L rcf_ordered_sqrt_field Hc.
  by have [_ Hpd] := factor_matrix Hf Hs.
Qed.

Theorem cholesky_rejects_not_posdef (a : list (list F)) :
  C08P1.symmetric ops a (mrows a) -> ~ posdef (mxo (@Num.sqrt F) (mrows a) (mrows a) a) ->
  cholesky ops a = None.
Proof.
  move=> Hs Hn. case E: (cholesky ops a) => [L|] //. case: Hn. exact: cholesky_present_posdef E.
Qed.
End RCF.
