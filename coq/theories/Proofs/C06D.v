(* C06: the QUERY side of a derivative set (Model/ContainerViews.v at_record / at_container_index /
   at_container = Derivatives::at / at_tensor_index / at_matrix_index / at_tensor / at_matrix).
   All query forms agree, in the container's own (view) order, and the whole-container query of a
   container over a view is the relabelling of the sources' whole-container queries by the view's
   position map. *)
From Coq Require Import List Arith Bool Lia.
From EasyML Require Import Base.Sx Model.Num Model.Tape Model.Container Model.ContainerViews Proofs.C06Q.
Import ListNotations.

Section C06D.
Context {R : Type} (ops : numops R).
Let zero := nzero ops.

Lemma at_container_length (d : list R) (c : cont R) :
  length (at_container zero d c) = length (c_data c).
Proof. unfold at_container. apply map_length. Qed.

(* whole-container query, read at position k = the one-index query = the one-record query *)
Lemma at_container_nth (d : list R) (c : cont R) k :
  nth_error (at_container zero d c) k = at_container_index zero d c k.
Proof.
  unfold at_container, at_container_index. rewrite nth_error_map.
  destruct (nth_error (c_data c) k); reflexivity.
Qed.

Lemma at_container_index_record (d : list R) (c : cont R) k v i :
  nth_error (c_data c) k = Some (v, i) -> at_container_index zero d c k = Some (at_record zero d i).
Proof. unfold at_container_index. intros ->. reflexivity. Qed.

Lemma at_container_index_outside (d : list R) (c : cont R) k :
  length (c_data c) <= k -> at_container_index zero d c k = None.
Proof. unfold at_container_index. intros H. apply nth_error_None in H. rewrite H. reflexivity. Qed.

Theorem derivative_queries_agree (d : list R) :
  (forall (c : cont R), length (at_container zero d c) = length (c_data c)) /\
  (forall (c : cont R) k, nth_error (at_container zero d c) k = at_container_index zero d c k) /\
  (forall (c : cont R) k v i, nth_error (c_data c) k = Some (v, i) ->
      at_container_index zero d c k = Some (at_record zero d i)) /\
  (forall (c : cont R) k, length (c_data c) <= k -> at_container_index zero d c k = None) /\
  (forall t env f srcs t' (c : cont R),
      cstep ops (t, env) (OSelect f srcs) = Some (Ok (t', [c])) ->
      exists xs tensor sh pos,
        sequence (map (fun k => nth_error env k) srcs) = Some xs /\
        f (map (fun x => (c_tensor x, c_shape x)) xs) = Some (tensor, sh, pos) /\
        length (at_container zero d c) = length pos /\
        forall i k j, nth_error pos i = Some (k, j) ->
          exists x w, nth_error xs k = Some x /\
                      nth_error (at_container zero d x) j = Some w /\
                      nth_error (at_container zero d c) i = Some w).
Proof.
  split; [apply at_container_length|]. split; [apply at_container_nth|].
  split; [apply at_container_index_record|]. split; [apply at_container_index_outside|].
  intros t env f srcs t' c E.
  destruct (select_is_relabelling ops _ _ _ _ _ _ E) as (_ & xs & tensor & sh & pos & Hx & Hf & _ & _ & HL & _ & _ & H).
  exists xs, tensor, sh, pos. split; [exact Hx|]. split; [exact Hf|].
  split; [rewrite at_container_length; exact HL|].
  intros i k j Hp. destruct (H i k j Hp) as (x & v & Hk & Hj & Hi).
  exists x, (at_record zero d (snd v)). split; [exact Hk|].
  rewrite !at_container_nth. unfold at_container_index. rewrite Hj, Hi. split; reflexivity.
Qed.
End C06D.
