(* C17 over Coq's real numbers: the hypotheses of the density theorem hold for R with the usual
   sqrt / exp / PI and `pow y 2 = y * y`, hence Gaussian::probability as written IS the normal
   density for every mean, every variance > 0 and every point. *)
From Coq Require Import Reals Lra List.
From EasyML Require Import Base.Sx Model.Num Model.Gaussian Proofs.C14P Proofs.RealOps Proofs.C17P.
Open Scope R_scope.

Lemma Rops_two : two Rops = 2.
Proof. unfold two. cbn. lra. Qed.

Lemma Rops_pow_two y : npow Rops y (two Rops) = y * y.
Proof.
  rewrite Rops_two. cbn. unfold Rpow. destruct (Req_EM_T 2 2) as [_|H]; [reflexivity|lra].
Qed.

Lemma Rops_sqrt_mul a b : 0 <= a -> 0 <= b -> nsqrt Rops (nmul Rops a b) = nmul Rops (nsqrt Rops a) (nsqrt Rops b).
Proof. intros Ha Hb. cbn. now apply sqrt_mult. Qed.

Lemma Rops_sqrt_sqr a : 0 <= a -> nmul Rops (nsqrt Rops a) (nsqrt Rops a) = a.
Proof. intros Ha. cbn. now apply sqrt_sqrt. Qed.

Theorem pdf_real (mean var x : R) : 0 < var ->
  probability Rops (mkGaussian mean var) x =
  1 / sqrt (2 * PI * var) * exp (- ((x - mean) * (x - mean)) / (2 * var)).
Proof.
  intros Hv.
  rewrite (probability_is_normal_pdf Rops Rops_is_field (fun a => 0 <= a)
             Rops_sqrt_mul Rops_sqrt_sqr Rops_pow_two).
  - unfold normal_pdf. rewrite Rops_two. reflexivity.
  - lra.
  - rewrite Rops_two. cbn. pose proof PI_RGT_0. nra.
  - cbn. pose proof (sqrt_lt_R0 var Hv). lra.
  - rewrite Rops_two. cbn. lra.
Qed.

(* the Box-Muller pair over the reals, as documented: sqrt(-2 ln u) cos(2 pi v) sd + mean and the
   sin twin *)
Theorem box_muller_real (mean var u v : R) :
  box_muller Rops (mkGaussian mean var) u v =
  (sqrt (-2 * ln u) * cos (2 * PI * v) * sqrt var + mean,
   sqrt (-2 * ln u) * sin (2 * PI * v) * sqrt var + mean).
Proof.
  unfold box_muller. rewrite Rops_two. cbn.
  replace (- (2)) with (-2) by lra. reflexivity.
Qed.
