(* C17 over Coq's real numbers: the hypotheses of the density theorem hold for R with the usual
   sqrt / exp / PI and `pow y 2 = y * y`, hence Gaussian::probability as written IS the normal
   density for every mean, every variance > 0 and every point. *)
From Coq Require Import Reals Lra Lia List NArith Arith.
From EasyML Require Import Base.Sx Model.Num Model.Gaussian Proofs.C14P Proofs.RealOps Proofs.C17P.
Open Scope R_scope.

Lemma Rops_two : two Rops = 2.
Proof. unfold two. cbn. lra. Qed.

Lemma Rops_pow_two y : npow Rops y (two Rops) = y * y.
Proof.
  rewrite Rops_two. cbn. unfold Rpow. destruct (Req_EM_T 2 2) as [_|H]; [reflexivity|lra].
Qed.

Lemma Rops_sqrt_mul a b : 0 <= a -> 0 <= b -> nsqrt Rops (nmul Rops a b) = nmul Rops (nsqrt Rops a) (nsqrt Rops b).
Proof. intros Ha Hb. cbn. now apply sqrt_mult. Qed.

Lemma Rops_sqrt_sqr a : 0 <= a -> nmul Rops (nsqrt Rops a) (nsqrt Rops a) = a.
Proof. intros Ha. cbn. now apply sqrt_sqrt. Qed.

Theorem pdf_real (mean var x : R) : 0 < var ->
  probability Rops (mkGaussian mean var) x =
  1 / sqrt (2 * PI * var) * exp (- ((x - mean) * (x - mean)) / (2 * var)).
Proof.
  intros Hv.
  rewrite (probability_is_normal_pdf Rops Rops_is_field (fun a => 0 <= a)
             Rops_sqrt_mul Rops_sqrt_sqr Rops_pow_two).
  - unfold normal_pdf. rewrite Rops_two. reflexivity.
  - lra.
  - rewrite Rops_two. cbn. pose proof PI_RGT_0. nra.
  - cbn. pose proof (sqrt_lt_R0 var Hv). lra.
  - rewrite Rops_two. cbn. lra.
Qed.

(* the Box-Muller pair over the reals, as documented: sqrt(-2 ln u) cos(2 pi v) sd + mean and the
   sin twin *)
Theorem box_muller_real (mean var u v : R) :
  box_muller Rops (mkGaussian mean var) u v =
  (sqrt (-2 * ln u) * cos (2 * PI * v) * sqrt var + mean,
   sqrt (-2 * ln u) * sin (2 * PI * v) * sqrt var + mean).
Proof.
  unfold box_muller. rewrite Rops_two. cbn.
  replace (- (2)) with (-2) by lra. reflexivity.
Qed.

(* ---- the link from Gaussian::draw to the documented transform, over the reals ----
   For every mean, variance and source: whenever draw returns l, its samples 2i and 2i+1 are
       sqrt(-2 ln u) cos(2 pi v) * sqrt(variance) + mean   and the sin twin,
   with (u, v) the i-th pair of source numbers. *)
Theorem draw_values_real (mean var : R) (src : list R) (k : nat) (l rest : list R) :
  draw Rops (mkGaussian mean var) src (N.of_nat k) = (Some l, rest) ->
  forall i : nat,
  let u := nth (2 * i)%nat src 0 in
  let v := nth (2 * i + 1)%nat src 0 in
  ((2 * i < k)%nat ->
     nth (2 * i)%nat l 0 = sqrt (-2 * ln u) * cos (2 * PI * v) * sqrt var + mean) /\
  ((2 * i + 1 < k)%nat ->
     nth (2 * i + 1)%nat l 0 = sqrt (-2 * ln u) * sin (2 * PI * v) * sqrt var + mean).
Proof.
  intros H i u v.
  destruct (draw_values Rops (mkGaussian mean var) src k l rest 0 H i) as [H1 H2].
  fold u v in H1, H2. rewrite box_muller_real in H1, H2. cbn [fst snd] in H1, H2. auto.
Qed.

(* for a uniform number u in (0, 1] the radicand is non-negative, so sqrt(-2 ln u) is its genuine
   square root; for a variance >= 0 the scale factor sqrt(variance) is the standard deviation *)
Lemma box_muller_radicand (u : R) : 0 < u <= 1 ->
  0 <= -2 * ln u /\ sqrt (-2 * ln u) * sqrt (-2 * ln u) = -2 * ln u.
Proof.
  intros [Hpos Hle].
  assert (Hln : ln u <= 0).
  { destruct Hle as [Hlt | ->]; [|rewrite ln_1; lra].
    pose proof (ln_increasing u 1 Hpos Hlt) as Hi. rewrite ln_1 in Hi. lra. }
  assert (H0 : 0 <= -2 * ln u) by lra.
  split; [exact H0 | now apply sqrt_sqrt].
Qed.

Lemma standard_deviation_squared (var : R) : 0 <= var -> sqrt var * sqrt var = var.
Proof. apply sqrt_sqrt. Qed.

(* ---- session 3: the multivariate draw over the reals, in full ---- *)
(* a standard normal pair: mean 0, variance 1 (sqrt 1 = 1) *)
Theorem standard_normal_real (u v : R) :
  box_muller Rops (standard_normal Rops) u v =
  (sqrt (-2 * ln u) * cos (2 * PI * v), sqrt (-2 * ln u) * sin (2 * PI * v)).
Proof.
  unfold standard_normal. rewrite box_muller_real. cbn. rewrite sqrt_1. f_equal; ring.
Qed.

(* every present multivariate draw over the reals: there is the Cholesky routine's factor L of
   the covariance, and for every sample row r a vector z_r of n standard normals — entry 2j / 2j+1
   is sqrt(-2 ln u) cos(2 pi v) / sqrt(-2 ln u) sin(2 pi v) for the source numbers u, v at
   positions r*w + 2j, r*w + 2j + 1 (w = 2 ceil(n/2): each row consumes whole pairs) — with
   rows[r][i] = mean[i] + sum_j L[i][j] z_r[j] *)
Theorem mv_draw_real (mean : list R) (cov : list (list R)) (src : list R) (k ns nf : nat)
    d0 d1 rows rest :
  length mean = length cov ->
  draw_tensor_samples Rops mean cov src (N.of_nat k) ns nf = (Some (d0, d1, rows), rest) ->
  let n := length mean in
  let w := width n in
  exists L, cholesky Rops cov = Some L /\ length rows = k /\
  forall r, (r < k)%nat ->
    exists z, length z = n /\
      (forall j, (2 * j < n)%nat ->
         nth (2 * j) z 0 = sqrt (-2 * ln (nth (r * w + 2 * j) src 0))
                           * cos (2 * PI * nth (r * w + 2 * j + 1) src 0)) /\
      (forall j, (2 * j + 1 < n)%nat ->
         nth (2 * j + 1) z 0 = sqrt (-2 * ln (nth (r * w + 2 * j) src 0))
                               * sin (2 * PI * nth (r * w + 2 * j + 1) src 0)) /\
      (forall i, (i < n)%nat ->
         nth i (nth r rows nil) 0 = nth i mean 0 + inner Rops (nth i L nil) z).
Proof.
  intros Hlen H n w. rewrite draw_tensor_samples_spec in H.
  destruct (Nat.eqb ns nf); [discriminate|].
  destruct (cholesky Rops cov) as [L|] eqn:HL; [|discriminate].
  destruct (Nat.eqb k 0); [discriminate|]. fold n w in H.
  destruct (Nat.leb_spec (k * w) (length src)) as [Hsrc|]; [|discriminate].
  inversion H; subst; clear H. exists L. split; [reflexivity|].
  split; [now rewrite map_length, seq_length|].
  intros r Hr. exists (std_row Rops n src r).
  assert (Hrow : ((r + 1) * w <= length src)%nat) by nia.
  destruct (std_row_values Rops n src r 0 Hrow) as [Hzl Hz]. fold w in Hz.
  split; [exact Hzl|]. split; [|split].
  - intros j Hj. destruct (Hz j) as [H1 _]. rewrite (H1 Hj), standard_normal_real. reflexivity.
  - intros j Hj. destruct (Hz j) as [_ H2]. rewrite (H2 Hj), standard_normal_real. reflexivity.
  - intros i Hi. rewrite (C14P.nth_map_seq _ k r nil) by assumption.
    apply (affine_entry Rops Rops_is_field); [exact Hi|].
    rewrite (cholesky_length Rops cov L HL). now rewrite <- Hlen.
Qed.

(* ---- what the documentation of `probability` says about the density, over the reals: it is
   positive everywhere, symmetric about the mean, largest AT the mean (value 1/sqrt(2 pi var)) ---- *)
Theorem pdf_real_shape (mean var : R) : 0 < var ->
  let p := probability Rops (mkGaussian mean var) in
  (forall x, 0 < p x) /\ (forall d, p (mean + d) = p (mean - d)) /\
  (forall x, p x <= p mean) /\ p mean = 1 / sqrt (2 * PI * var).
Proof.
  intros Hv p. unfold p.
  assert (Hs : 0 < sqrt (2 * PI * var)).
  { apply sqrt_lt_R0. pose proof PI_RGT_0. nra. }
  assert (Hc : 0 < 1 / sqrt (2 * PI * var)) by (apply Rdiv_lt_0_compat; lra).
  assert (Hmean : probability Rops (mkGaussian mean var) mean = 1 / sqrt (2 * PI * var)).
  { rewrite (pdf_real mean var mean Hv).
    replace (- ((mean - mean) * (mean - mean)) / (2 * var)) with 0 by (field; lra).
    rewrite exp_0. ring. }
  split; [|split; [|split]].
  - intros x. rewrite (pdf_real mean var x Hv). apply Rmult_lt_0_compat; [exact Hc | apply exp_pos].
  - intros d. rewrite !(pdf_real mean var _ Hv).
    replace ((mean + d - mean) * (mean + d - mean)) with ((mean - d - mean) * (mean - d - mean)) by ring.
    reflexivity.
  - intros x. rewrite Hmean, (pdf_real mean var x Hv).
    rewrite <- (Rmult_1_r (1 / sqrt (2 * PI * var))) at 2.
    apply Rmult_le_compat_l; [lra|].
    set (e := - ((x - mean) * (x - mean)) / (2 * var)).
    assert (He : e <= 0).
    { unfold e. pose proof (Rle_0_sqr (x - mean)) as Hsq. unfold Rsqr in Hsq.
      unfold Rdiv. assert (0 < / (2 * var)) by (apply Rinv_0_lt_compat; lra). nra. }
    destruct He as [Hlt | ->]; [|rewrite exp_0; lra].
    rewrite <- exp_0. left. now apply exp_increasing.
  - exact Hmean.
Qed.

(* THE FLOAT ORACLE'S REFERENCE for the density (harness/src/c17.rs, `float_pdf`), literally as
   the harness evaluates it in f64: d = x - mean, y = -(d d) / (2 var), norm = 1 / sqrt(2 pi var),
   reference = norm * exp y.  Over the reals the transcribed `probability` equals it for every
   mean, var > 0 and x; the exponent is never positive (so exp y <= 1: the `maximal` flag) and the
   normaliser is positive. *)
Theorem float_oracle_pdf_reference (mean var x : R) : 0 < var ->
  let d := x - mean in
  let y := - (d * d) / (2 * var) in
  let norm := 1 / sqrt (2 * PI * var) in
  probability Rops (mkGaussian mean var) x = norm * exp y /\ y <= 0 /\ exp y <= 1 /\ 0 < norm.
Proof.
  intros Hv d y norm.
  assert (Hy : y <= 0).
  { unfold y. pose proof (Rle_0_sqr d) as Hsq. unfold Rsqr in Hsq.
    unfold Rdiv. assert (0 < / (2 * var)) by (apply Rinv_0_lt_compat; lra). nra. }
  split; [exact (pdf_real mean var x Hv)|]. split; [exact Hy|]. split.
  - destruct Hy as [Hlt | ->]; [|rewrite exp_0; lra].
    rewrite <- exp_0. left. now apply exp_increasing.
  - unfold norm. apply Rdiv_lt_0_compat; [lra|]. apply sqrt_lt_R0. pose proof PI_RGT_0. nra.
Qed.
