(* C17 over Coq's real numbers: the hypotheses of the density theorem hold for R with the usual
   sqrt / exp / PI and `pow y 2 = y * y`, hence Gaussian::probability as written IS the normal
   density for every mean, every variance > 0 and every point. *)
From Coq Require Import Reals Lra List NArith.
From EasyML Require Import Base.Sx Model.Num Model.Gaussian Proofs.C14P Proofs.RealOps Proofs.C17P.
Open Scope R_scope.

Lemma Rops_two : two Rops = 2.
Proof. unfold two. cbn. lra. Qed.

Lemma Rops_pow_two y : npow Rops y (two Rops) = y * y.
Proof.
  rewrite Rops_two. cbn. unfold Rpow. destruct (Req_EM_T 2 2) as [_|H]; [reflexivity|lra].
Qed.

Lemma Rops_sqrt_mul a b : 0 <= a -> 0 <= b -> nsqrt Rops (nmul Rops a b) = nmul Rops (nsqrt Rops a) (nsqrt Rops b).
Proof. intros Ha Hb. cbn. now apply sqrt_mult. Qed.

Lemma Rops_sqrt_sqr a : 0 <= a -> nmul Rops (nsqrt Rops a) (nsqrt Rops a) = a.
Proof. intros Ha. cbn. now apply sqrt_sqrt. Qed.

Theorem pdf_real (mean var x : R) : 0 < var ->
  probability Rops (mkGaussian mean var) x =
  1 / sqrt (2 * PI * var) * exp (- ((x - mean) * (x - mean)) / (2 * var)).
Proof.
  intros Hv.
  rewrite (probability_is_normal_pdf Rops Rops_is_field (fun a => 0 <= a)
             Rops_sqrt_mul Rops_sqrt_sqr Rops_pow_two).
  - unfold normal_pdf. rewrite Rops_two. reflexivity.
  - lra.
  - rewrite Rops_two. cbn. pose proof PI_RGT_0. nra.
  - cbn. pose proof (sqrt_lt_R0 var Hv). lra.
  - rewrite Rops_two. cbn. lra.
Qed.

(* the Box-Muller pair over the reals, as documented: sqrt(-2 ln u) cos(2 pi v) sd + mean and the
   sin twin *)
Theorem box_muller_real (mean var u v : R) :
  box_muller Rops (mkGaussian mean var) u v =
  (sqrt (-2 * ln u) * cos (2 * PI * v) * sqrt var + mean,
   sqrt (-2 * ln u) * sin (2 * PI * v) * sqrt var + mean).
Proof.
  unfold box_muller. rewrite Rops_two. cbn.
  replace (- (2)) with (-2) by lra. reflexivity.
Qed.

(* ---- the link from Gaussian::draw to the documented transform, over the reals ----
   For every mean, variance and source: whenever draw returns l, its samples 2i and 2i+1 are
       sqrt(-2 ln u) cos(2 pi v) * sqrt(variance) + mean   and the sin twin,
   with (u, v) the i-th pair of source numbers. *)
Theorem draw_values_real (mean var : R) (src : list R) (k : nat) (l rest : list R) :
  draw Rops (mkGaussian mean var) src (N.of_nat k) = (Some l, rest) ->
  forall i : nat,
  let u := nth (2 * i)%nat src 0 in
  let v := nth (2 * i + 1)%nat src 0 in
  ((2 * i < k)%nat ->
     nth (2 * i)%nat l 0 = sqrt (-2 * ln u) * cos (2 * PI * v) * sqrt var + mean) /\
  ((2 * i + 1 < k)%nat ->
     nth (2 * i + 1)%nat l 0 = sqrt (-2 * ln u) * sin (2 * PI * v) * sqrt var + mean).
Proof.
  intros H i u v.
  destruct (draw_values Rops (mkGaussian mean var) src k l rest 0 H i) as [H1 H2].
  fold u v in H1, H2. rewrite box_muller_real in H1, H2. cbn [fst snd] in H1, H2. auto.
Qed.

(* for a uniform number u in (0, 1] the radicand is non-negative, so sqrt(-2 ln u) is its genuine
   square root; for a variance >= 0 the scale factor sqrt(variance) is the standard deviation *)
Lemma box_muller_radicand (u : R) : 0 < u <= 1 ->
  0 <= -2 * ln u /\ sqrt (-2 * ln u) * sqrt (-2 * ln u) = -2 * ln u.
Proof.
  intros [Hpos Hle].
  assert (Hln : ln u <= 0).
  { destruct Hle as [Hlt | ->]; [|rewrite ln_1; lra].
    pose proof (ln_increasing u 1 Hpos Hlt) as Hi. rewrite ln_1 in Hi. lra. }
  assert (H0 : 0 <= -2 * ln u) by lra.
  split; [exact H0 | now apply sqrt_sqrt].
Qed.

Lemma standard_deviation_squared (var : R) : 0 <= var -> sqrt var * sqrt var = var.
Proof. apply sqrt_sqrt. Qed.
