(* Per-adaptor facts about the index arithmetic of Model/Views.v, stated on plain lists (no view
   terms): for each adaptor, "the mapped index is inside the source shape exactly when the index
   is inside the adaptor's shape", together with the explicit mapping. Used by Proofs/C02P.v. *)
From Coq Require Import List ZArith NArith Bool Arith Lia Permutation.
From EasyML Require Import Base.Sx Model.Shape Model.Views Proofs.ShapeP Proofs.C01P.
Import ListNotations.
Open Scope N_scope.

(* ---------- generic list helpers ---------- *)

Lemma zipwith_length {A B C} (f : A -> B -> C) l1 l2 :
  length l1 = length l2 -> length (zipwith f l1 l2) = length l1.
Proof.
  revert l2; induction l1 as [|a l1 IH]; intros [|b l2] H; cbn [zipwith length] in *; try lia.
  f_equal. apply IH. lia.
Qed.

Lemma Forall2_length' {A B} (R : A -> B -> Prop) l1 l2 : Forall2 R l1 l2 -> length l1 = length l2.
Proof. induction 1; cbn; lia. Qed.

Lemma names_zipwith_fst {B} (f : (name * N) -> B -> N) (sh : shape) (l : list B) :
  length l = length sh ->
  names_of (zipwith (fun d x => (fst d, f d x)) sh l) = names_of sh.
Proof.
  revert l; induction sh as [|d sh IH]; intros [|x l] H; cbn [zipwith names_of map length] in *;
    try lia; try reflexivity.
  f_equal. apply IH. lia.
Qed.

Lemma lens_of_length sh : length (lens_of sh) = length sh.
Proof. apply map_length. Qed.
Lemma names_of_length sh : length (names_of sh) = length sh.
Proof. apply map_length. Qed.

Lemma in_range_cons i idx l lens : in_range (i :: idx) (l :: lens) <-> i < l /\ in_range idx lens.
Proof. reflexivity. Qed.

Lemma list_upd_length {A} (l : list A) k x : length (list_upd l k x) = length l.
Proof. revert k; induction l as [|y l IH]; intros [|k]; cbn; auto. Qed.

Lemma list_upd_nth_same {A} (l : list A) k x d : (k < length l)%nat -> nth k (list_upd l k x) d = x.
Proof.
  revert k; induction l as [|y l IH]; intros [|k] H; cbn [length list_upd nth] in *; try lia; auto.
  apply IH. lia.
Qed.

Lemma list_upd_nth_other {A} (l : list A) k j x d : j <> k -> nth j (list_upd l k x) d = nth j l d.
Proof.
  revert k j; induction l as [|y l IH]; intros [|k] [|j] H; cbn [list_upd nth]; auto; try lia.
Qed.

(* ---------- range ---------- *)

Definition range_ok (d : name * N) (r : irange) : Prop :=
  r_start r + r_len r <= snd d /\ 0 < r_len r.

Lemma lens_range_shape (sh : shape) rs : length rs = length sh ->
  lens_of (zipwith (fun d r => (fst d, r_len r)) sh rs) = map r_len rs.
Proof.
  revert rs; induction sh as [|d sh IH]; intros [|r rs] H; cbn [zipwith lens_of map length] in *;
    try lia; try reflexivity.
  f_equal. apply IH. lia.
Qed.

(* the documented mapping of a range: i |-> start + i *)
Definition range_spec (rs : list irange) (idx : list N) : list N :=
  zipwith (fun r i => i + r_start r) rs idx.

Lemma range_step (sh : shape) : forall rs idx,
  Forall2 range_ok sh rs -> length idx = length sh ->
  match map_indexes_by_range idx rs with
  | Some idx' => in_range idx (map r_len rs) /\ in_range idx' (lens_of sh) /\
                 idx' = range_spec rs idx
  | None => ~ in_range idx (map r_len rs)
  end.
Proof.
  unfold map_indexes_by_range, range_spec.
  induction sh as [|d sh IH]; intros rs idx HF Hl; inversion HF as [|? r ? rs' [Hr1 Hr2] HF']; subst;
    destruct idx as [|i idx]; cbn [length] in Hl; try lia.
  - cbn. auto.
  - cbn [zipwith sequence map]. unfold r_map at 1.
    specialize (IH rs' idx HF' ltac:(lia)).
    destruct (N.ltb_spec i (r_len r)) as [Hi|Hi].
    + destruct (sequence (zipwith (fun r0 i0 => r_map r0 i0) rs' idx)) as [idx'|].
      * destruct IH as [A [B C]]. cbn [lens_of map snd in_range]. repeat split; auto; try lia.
        f_equal. exact C.
      * cbn [in_range]. tauto.
    + cbn [in_range]. lia.
Qed.

(* ---------- mask ---------- *)

Definition mask_ok (d : name * N) (m : irange) : Prop :=
  (r_len m = 0 \/ r_start m + r_len m <= snd d) /\ r_len m < snd d.

Lemma lens_mask_shape (sh : shape) ms : length ms = length sh ->
  lens_of (zipwith (fun d m => (fst d, snd d - r_len m)) sh ms) =
  zipwith (fun d m => snd d - r_len m) sh ms.
Proof.
  revert ms; induction sh as [|d sh IH]; intros [|r ms] H; cbn [zipwith lens_of map length] in *;
    try lia; try reflexivity.
  cbn [snd]. f_equal. apply IH. lia.
Qed.

(* the documented mapping of a mask: i |-> i before the hidden block, i + len after it *)
Definition mask_spec (ms : list irange) (idx : list N) : list N :=
  zipwith (fun m i => if i <? r_start m then i else i + r_len m) ms idx.

Lemma mask_step (sh : shape) : forall ms idx,
  Forall2 mask_ok sh ms -> Forall (fun d => snd d <= usize_max) sh -> length idx = length sh ->
  (in_range (map_indexes_by_mask idx ms) (lens_of sh) <->
   in_range idx (zipwith (fun d m => snd d - r_len m) sh ms)) /\
  (in_range idx (zipwith (fun d m => snd d - r_len m) sh ms) ->
   map_indexes_by_mask idx ms = mask_spec ms idx).
Proof.
  unfold map_indexes_by_mask, mask_spec.
  induction sh as [|d sh IH]; intros ms idx HF HU Hl; inversion HF as [|? m ? ms' [Hm1 Hm2] HF']; subst;
    destruct idx as [|i idx]; cbn [length] in Hl; try lia.
  - cbn. tauto.
  - inversion HU as [|? ? Hu HU']; subst.
    cbn [zipwith lens_of map in_range]. destruct (IH ms' idx HF' HU' ltac:(lia)) as [IH1 IH2].
    change (map snd sh) with (lens_of sh). rewrite IH1.
    unfold r_mask, sat_add. assert (Hmax : usize_max = 18446744073709551615) by reflexivity.
    destruct (N.ltb_spec i (r_start m)) as [Hi|Hi].
    + split; [|intros [_ H]; f_equal; auto]. split; intros [H1 H2]; split; auto; lia.
    + destruct (N.min_spec (i + r_len m) usize_max) as [[Hlt E]|[Hge E]]; rewrite E.
      * split; [|intros [_ H]; f_equal; auto]. split; intros [H1 H2]; split; auto; lia.
      * split; [split; intros [H1 H2]; split; auto; lia|].
        intros [H1 H]. f_equal; [lia|auto].
Qed.

(* ---------- index selection ---------- *)

Definition provided_ok (d : name * N) (o : option N) : Prop :=
  match o with Some i => i < snd d | None => True end.

Lemma select_step (sh : shape) : forall pr idx,
  Forall2 provided_ok sh pr -> length idx = length (unprovided sh pr) ->
  exists idx', select_idx pr idx = Some idx' /\ length idx' = length sh /\
    (in_range idx' (lens_of sh) <-> in_range idx (lens_of (unprovided sh pr))).
Proof.
  induction sh as [|d sh IH]; intros pr idx HF Hl; inversion HF as [|? o ? pr' Ho HF']; subst.
  - cbn in *. destruct idx; cbn in Hl; try lia. exists []. cbn. tauto.
  - destruct o as [i|]; cbn [unprovided select_idx] in *.
    + destruct (IH pr' idx HF' Hl) as [idx' [E [L H]]]. exists (i :: idx'). rewrite E. cbn [option_map].
      split; [reflexivity|]. split; [cbn; lia|]. cbn [lens_of map in_range]. cbn in Ho.
      change (map snd sh) with (lens_of sh). rewrite H. tauto.
    + destruct idx as [|s idx]; cbn [length] in Hl; try lia.
      destruct (IH pr' idx HF' ltac:(lia)) as [idx' [E [L H]]]. exists (s :: idx'). rewrite E.
      cbn [option_map]. split; [reflexivity|]. split; [cbn; lia|]. cbn [lens_of map in_range].
      change (map snd sh) with (lens_of sh).
      change (map snd (unprovided sh pr')) with (lens_of (unprovided sh pr')). rewrite H. tauto.
Qed.

Lemma unprovided_sub (sh : shape) : forall pr, Forall2 provided_ok sh pr ->
  (forall x, In x (names_of (unprovided sh pr)) -> In x (names_of sh)) /\
  (NoDup (names_of sh) -> NoDup (names_of (unprovided sh pr))) /\
  (Forall (fun l => 0 < l) (lens_of sh) -> Forall (fun l => 0 < l) (lens_of (unprovided sh pr))).
Proof.
  induction sh as [|d sh IH]; intros pr HF; inversion HF as [|? o ? pr' Ho HF']; subst.
  - cbn. repeat split; auto.
  - destruct (IH pr' HF') as [A [B C]]. destruct o; cbn [unprovided names_of lens_of map].
    + repeat split.
      * intros x Hx. right. apply A. exact Hx.
      * intros H. inversion H; subst. apply B. assumption.
      * intros H. inversion H; subst. apply C. assumption.
    + repeat split.
      * intros x [Hx|Hx]; [left; exact Hx|right; apply A; exact Hx].
      * intros H. inversion H as [|? ? Hn Hd]; subst. constructor; [|apply B; exact Hd].
        intros Hin. apply Hn. apply A. exact Hin.
      * intros H. inversion H; subst. constructor; [assumption|apply C; assumption].
Qed.

(* ---------- reversal ---------- *)

(* the documented mapping of a reversal: i |-> len - 1 - i on the reversed dimensions *)
Fixpoint reverse_spec (idx : list N) (sh : shape) (rev : list bool) : list N :=
  match idx, sh, rev with
  | i :: idx', d :: sh', r :: rev' => (if r then snd d - 1 - i else i) :: reverse_spec idx' sh' rev'
  | _, _, _ => []
  end.

Lemma reverse_step (sh : shape) : forall rev idx,
  Forall (fun l => 0 < l) (lens_of sh) -> length rev = length sh -> length idx = length sh ->
  length (reverse_indexes idx sh rev) = length sh /\
  (in_range (reverse_indexes idx sh rev) (lens_of sh) <-> in_range idx (lens_of sh)) /\
  (in_range idx (lens_of sh) -> reverse_indexes idx sh rev = reverse_spec idx sh rev).
Proof.
  induction sh as [|d sh IH]; intros rev idx HP Hr Hl; destruct rev as [|r rev], idx as [|i idx];
    cbn [length] in *; try lia.
  - cbn. tauto.
  - cbn [lens_of map] in HP. inversion HP as [|? ? Hd HP']; subst.
    destruct (IH rev idx HP' ltac:(lia) ltac:(lia)) as [L [H S]].
    cbn [reverse_indexes reverse_spec lens_of map in_range length].
    change (map snd sh) with (lens_of sh). split; [lia|]. rewrite H.
    unfold reverse_index. destruct r.
    + destruct (N.ltb_spec (snd d - 1) i).
      * split; [split; intros [A B]; split; auto; lia|]. intros [A B]. lia.
      * split; [split; intros [A B]; split; auto; lia|]. intros [A B]. f_equal. auto.
    + split; [tauto|]. intros [A B]. f_equal. auto.
Qed.

(* ---------- access / transposition ---------- *)

Lemma access_step (sh : shape) req tbl idx :
  NoDup (names_of sh) -> length req = length sh -> dm_new (names_of sh) req = Some tbl ->
  length idx = length sh ->
  length (map_dimensions_to_source tbl idx 0) = length sh /\
  (in_range (map_dimensions_to_source tbl idx 0) (lens_of sh) <->
   in_range idx (lens_of (map_shape_to_requested tbl sh))).
Proof.
  intros Hnd Hlen Hnew Hidx.
  assert (Hl : length req = length (names_of sh)) by (rewrite names_of_length; exact Hlen).
  assert (Hls : length (names_of sh) = length sh) by apply names_of_length.
  pose proof (s2r_length _ _ _ Hnew) as Ls. pose proof (r2s_length _ _ _ Hnew) as Lr.
  unfold map_shape_to_requested, map_dimensions_to_source.
  split; [rewrite map_length; lia|].
  rewrite !in_range_nth by (unfold lens_of; rewrite !map_length; lia).
  unfold lens_of. rewrite !map_length, Lr, <- Hls.
  assert (Hs2r : forall d, (d < length (names_of sh))%nat ->
     nth d (map (fun p => nth p idx 0) (dm_s2r tbl)) 0 = nth (nth d (dm_s2r tbl) 0%nat) idx 0).
  { intros d Hd. rewrite nth_map_in with (da := 0%nat) by lia. reflexivity. }
  assert (Hr2s : forall d, (d < length (names_of sh))%nat ->
     nth d (map snd (map (fun p => nth p sh (0%nat, 0)) (dm_r2s tbl))) 0 =
     nth (nth d (dm_r2s tbl) 0%nat) (map snd sh) 0).
  { intros d Hd. rewrite map_map. rewrite nth_map_in with (da := 0%nat) by lia.
    destruct (r2s_spec _ _ _ Hnd Hl Hnew d Hd) as [Hb _].
    rewrite nth_map_in with (f := snd) (da := (0%nat, 0)) by lia. reflexivity. }
  split.
  - intros H e He. rewrite Hr2s by exact He.
    destruct (tables_inverse _ _ _ Hnd Hl Hnew e He) as [_ Hinv].
    destruct (r2s_spec _ _ _ Hnd Hl Hnew e He) as [Hb _].
    specialize (H _ Hb). rewrite Hs2r in H by exact Hb. rewrite Hinv in H. exact H.
  - intros H d Hd. rewrite Hs2r by exact Hd.
    destruct (tables_inverse _ _ _ Hnd Hl Hnew d Hd) as [Hinv _].
    destruct (s2r_spec _ _ _ Hnd Hl Hnew d Hd) as [_ [Hb _]]. rewrite Hl in Hb.
    specialize (H _ Hb). rewrite Hr2s in H by exact Hb. rewrite Hinv in H. exact H.
Qed.

Lemma map_nth_seq_id {A} (l : list A) d : map (fun p => nth p l d) (seq 0 (length l)) = l.
Proof.
  apply nth_ext with (d := d) (d' := d); [rewrite map_length, seq_length; reflexivity|].
  rewrite map_length, seq_length. intros n Hn.
  rewrite nth_map_in with (da := 0%nat) by (rewrite seq_length; exact Hn).
  rewrite seq_nth by exact Hn. reflexivity.
Qed.

(* the shape an access reports is the source shape permuted: a permutation of its entries *)
Lemma access_shape_perm (sh : shape) req tbl :
  NoDup (names_of sh) -> length req = length sh -> dm_new (names_of sh) req = Some tbl ->
  Permutation (map_shape_to_requested tbl sh) sh.
Proof.
  intros Hnd Hlen Hnew.
  assert (Hl : length req = length (names_of sh)) by (rewrite names_of_length; exact Hlen).
  assert (Hls : length (names_of sh) = length sh) by apply names_of_length.
  pose proof (r2s_length _ _ _ Hnew) as Lr. pose proof (s2r_length _ _ _ Hnew) as Ls.
  unfold map_shape_to_requested.
  (* r2s is a permutation of seq 0 D: NoDup + bounded + right length *)
  assert (Hb : forall d, (d < length sh)%nat -> (nth d (dm_r2s tbl) 0 < length sh)%nat).
  { intros d Hd. rewrite <- Hls in *. apply (r2s_spec _ _ _ Hnd Hl Hnew d Hd). }
  assert (Hinj : NoDup (dm_r2s tbl)).
  { apply NoDup_nth with (d := 0%nat). intros i j Hi Hj E. rewrite Lr in Hi, Hj.
    destruct (tables_inverse _ _ _ Hnd Hl Hnew i Hi) as [_ Hii].
    destruct (tables_inverse _ _ _ Hnd Hl Hnew j Hj) as [_ Hjj]. congruence. }
  assert (Hp : Permutation (dm_r2s tbl) (seq 0 (length sh))).
  { apply NoDup_Permutation_bis; [exact Hinj|rewrite seq_length; lia|].
    intros x Hx. apply In_nth with (d := 0%nat) in Hx. destruct Hx as [k [Hk <-]].
    apply in_seq. rewrite Lr, Hls in Hk. specialize (Hb k Hk). lia. }
  apply Permutation_map with (f := fun p => nth p sh (0%nat, 0)) in Hp.
  rewrite Hp. rewrite map_nth_seq_id. reflexivity.
Qed.

(* ---------- expansion ---------- *)

(* the extra dimensions are sorted by insertion position, all between lo and hi *)
Fixpoint ex_sorted (lo hi : nat) (extra : list (nat * name)) : Prop :=
  match extra with
  | [] => True
  | e :: r => (lo <= fst e <= hi)%nat /\ ex_sorted (fst e) hi r
  end.

Lemma ex_sorted_weaken lo lo' hi extra : (lo' <= lo)%nat -> ex_sorted lo hi extra -> ex_sorted lo' hi extra.
Proof. destruct extra as [|e r]; cbn; [auto|]. intros H [A B]. split; [lia|exact B]. Qed.

Lemma ex_sorted_S i hi j n r : ex_sorted i hi ((j, n) :: r) -> j <> i -> ex_sorted (S i) hi ((j, n) :: r).
Proof. cbn. intros [A B] H. split; [lia|exact B]. Qed.

Definition extra_dims (extra : list (nat * name)) : shape := map (fun e => (snd e, 1)) extra.

Lemma expand_step : forall fuel (sh : shape) i extra idx hi,
  ex_sorted i hi extra -> (i + length sh = hi)%nat -> fuel = (length sh + length extra)%nat ->
  length idx = fuel ->
  Permutation (expand_shape fuel sh i extra) (sh ++ extra_dims extra) /\
  match expand_idx idx i extra with
  | Some idx' => length idx' = length sh /\
                 (in_range idx' (lens_of sh) <-> in_range idx (lens_of (expand_shape fuel sh i extra)))
  | None => ~ in_range idx (lens_of (expand_shape fuel sh i extra))
  end.
Proof.
  induction fuel as [|f IH]; intros sh i extra idx hi Hs Hhi Hf Hl.
  - destruct sh, extra, idx; cbn [length] in *; try lia. cbn. split; [constructor|tauto].
  - destruct idx as [|index idx]; cbn [length] in Hl; try lia.
    destruct extra as [|[j n] ex'].
    + destruct sh as [|d sh']; cbn [length] in *; try lia.
      destruct (IH sh' (S i) [] idx hi I ltac:(lia) ltac:(cbn; lia) ltac:(lia)) as [P H].
      cbn [expand_shape expand_idx]. split.
      * cbn [app]. constructor. exact P.
      * destruct (expand_idx idx (S i) []) as [idx'|]; cbn [option_map].
        -- destruct H as [L H]. split; [cbn; lia|]. cbn [lens_of map in_range].
           change (map snd sh') with (lens_of sh').
           change (map snd (expand_shape f sh' (S i) [])) with (lens_of (expand_shape f sh' (S i) [])).
           rewrite H. tauto.
        -- cbn [lens_of map in_range]. intros [_ B]. apply H. exact B.
    + cbn [expand_shape expand_idx]. destruct (Nat.eqb_spec j i) as [E|E].
      * subst j. destruct Hs as [Hb Hs]. cbn [fst] in *.
        destruct (IH sh i ex' idx hi Hs Hhi ltac:(cbn [length] in Hf; lia) ltac:(lia)) as [P H]. split.
        -- cbn [extra_dims map snd]. apply Permutation_cons_app. exact P.
        -- cbn [lens_of map snd in_range].
           change (map snd (expand_shape f sh i ex')) with (lens_of (expand_shape f sh i ex')).
           destruct (N.eqb_spec index 0) as [Z|Z].
           ++ subst index. destruct (expand_idx idx i ex') as [idx'|].
              ** destruct H as [L H]. split; [exact L|]. rewrite H. split; [intros B; split; [lia|exact B]|tauto].
              ** intros [_ B]. apply H. exact B.
           ++ intros [A _]. lia.
      * destruct sh as [|d sh']; cbn [length] in *.
        { destruct Hs as [Hb _]. cbn [fst] in Hb. lia. }
        destruct (IH sh' (S i) ((j, n) :: ex') idx hi (ex_sorted_S _ _ _ _ _ Hs E) ltac:(lia)
                     ltac:(cbn [length]; lia) ltac:(lia)) as [P H]. split.
        -- cbn [app]. constructor. exact P.
        -- destruct (expand_idx idx (S i) ((j, n) :: ex')) as [idx'|]; cbn [option_map].
           ++ destruct H as [L H]. split; [cbn; lia|]. cbn [lens_of map in_range].
              change (map snd sh') with (lens_of sh').
              change (map snd (expand_shape f sh' (S i) ((j, n) :: ex')))
                with (lens_of (expand_shape f sh' (S i) ((j, n) :: ex'))).
              rewrite H. tauto.
           ++ cbn [lens_of map in_range]. intros [_ B]. apply H. exact B.
Qed.

(* the stable insertion sort *)
Lemma insert_sorted_perm x l : Permutation (insert_sorted x l) (x :: l).
Proof.
  induction l as [|y r IH]; cbn [insert_sorted]; [reflexivity|].
  destruct (fst x <=? fst y)%nat; [reflexivity|]. rewrite IH. apply perm_swap.
Qed.
Lemma stable_sort_perm l : Permutation (stable_sort l) l.
Proof.
  induction l as [|x l IH]; cbn [stable_sort fold_right]; [reflexivity|].
  rewrite insert_sorted_perm. constructor. exact IH.
Qed.
Lemma insert_sorted_sorted x : forall l lo hi, (lo <= fst x <= hi)%nat ->
  ex_sorted lo hi l -> ex_sorted lo hi (insert_sorted x l).
Proof.
  induction l as [|y r IH]; intros lo hi Hx Hs; cbn [insert_sorted].
  - cbn. auto.
  - destruct Hs as [Hy Hs]. destruct (Nat.leb_spec (fst x) (fst y)).
    + cbn [ex_sorted]. split; [exact Hx|]. split; [lia|exact Hs].
    + cbn [ex_sorted]. split; [exact Hy|]. apply IH; [lia|exact Hs].
Qed.
Lemma stable_sort_sorted hi l : Forall (fun e => (fst e <= hi)%nat) l -> ex_sorted 0 hi (stable_sort l).
Proof.
  induction 1 as [|x l Hx _ IH]; cbn [stable_sort fold_right]; [exact I|].
  apply insert_sorted_sorted; [lia|exact IH].
Qed.

(* ---------- stack ---------- *)

Lemma stack_passed : forall (sh : shape) d along x idx, (along < d)%nat ->
  stack_shape (length sh) d sh along x = sh /\ remove_at d along idx = idx.
Proof.
  intros sh d along x idx H. split.
  - revert d H; induction sh as [|e sh IH]; intros d H; cbn [length stack_shape]; [reflexivity|].
    destruct (Nat.eqb_spec d along); [lia|]. f_equal. apply IH. lia.
  - revert d H; induction idx as [|i idx IH]; intros d H; cbn [remove_at]; [reflexivity|].
    destruct (Nat.eqb_spec d along); [lia|]. f_equal. apply IH. lia.
Qed.

Lemma stack_shape_S f d (sh : shape) along x :
  stack_shape (S f) d sh along x =
  if Nat.eqb d along then x :: stack_shape f (S d) sh along x
  else match sh with e :: sh' => e :: stack_shape f (S d) sh' along x | [] => [] end.
Proof. reflexivity. Qed.

Lemma stack_step : forall (sh : shape) d along x idx,
  (d <= along <= d + length sh)%nat -> length idx = S (length sh) ->
  Permutation (stack_shape (S (length sh)) d sh along x) (x :: sh) /\
  length (remove_at d along idx) = length sh /\
  (in_range idx (lens_of (stack_shape (S (length sh)) d sh along x)) <->
   nth (along - d) idx 0 < snd x /\ in_range (remove_at d along idx) (lens_of sh)).
Proof.
  induction sh as [|e sh IH]; intros d along x idx Hd Hl; destruct idx as [|i idx]; cbn [length] in *; try lia.
  - assert (along = d) by lia. subst along. destruct idx; cbn [length] in Hl; try lia.
    cbn [stack_shape remove_at]. rewrite Nat.eqb_refl. cbn [stack_shape remove_at lens_of map in_range length].
    rewrite Nat.sub_diag. cbn [nth]. split; [reflexivity|]. split; [reflexivity|tauto].
  - rewrite (stack_shape_S (S (length sh))). cbn [remove_at]. destruct (Nat.eqb_spec d along) as [E|E].
    + subst along. destruct (stack_passed (e :: sh) (S d) d x idx ltac:(lia)) as [A B].
      cbn [length] in A. rewrite A, B. rewrite Nat.sub_diag. cbn [nth lens_of map in_range].
      split; [reflexivity|]. split; [cbn [length]; lia|tauto].
    + destruct (IH (S d) along x idx ltac:(lia) ltac:(lia)) as [P [L H]].
      split; [rewrite P; apply perm_swap|]. split; [cbn [length]; lia|].
      cbn [lens_of map in_range].
      change (map snd (stack_shape (S (length sh)) (S d) sh along x))
        with (lens_of (stack_shape (S (length sh)) (S d) sh along x)).
      change (map snd sh) with (lens_of sh). rewrite H.
      replace (along - d)%nat with (S (along - S d)) by lia. cbn [nth]. tauto.
Qed.

(* selecting the k-th source *)
Fixpoint pickN {A B} (g : A -> option B) (l : list A) (k : N) : option B :=
  match l with
  | [] => None
  | c0 :: r => if k =? 0 then g c0 else pickN g r (k - 1)
  end.
Fixpoint picknat {A B} (g : A -> option B) (l : list A) (k : nat) : option B :=
  match l with
  | [] => None
  | c0 :: r => match k with O => g c0 | S k' => picknat g r k' end
  end.

Lemma pickN_spec {A B} (g : A -> option B) l : forall k,
  pickN g l k = match nth_error l (N.to_nat k) with Some c => g c | None => None end.
Proof.
  induction l as [|c l IH]; intros k; cbn [pickN].
  - destruct (N.to_nat k); reflexivity.
  - destruct (N.eqb_spec k 0) as [->|Hk]; [reflexivity|].
    rewrite IH. replace (N.to_nat k) with (S (N.to_nat (k - 1))) by lia. reflexivity.
Qed.
Lemma picknat_spec {A B} (g : A -> option B) l : forall k,
  picknat g l k = match nth_error l k with Some c => g c | None => None end.
Proof. induction l as [|c l IH]; intros [|k]; cbn [picknat nth_error]; auto. Qed.

(* ---------- chain ---------- *)

Lemma chain_find_spec lens : forall i k0,
  match chain_find lens i k0 with
  | Some (k, i') => (k0 <= k < k0 + length lens)%nat /\ i' < nth (k - k0) lens 0 /\
                    i = sum (firstn (k - k0) lens) + i'
  | None => sum lens <= i
  end.
Proof.
  induction lens as [|l lens IH]; intros i k0; cbn [chain_find].
  - cbn. lia.
  - destruct (N.ltb_spec i l) as [H|H].
    + cbn [length]. rewrite Nat.sub_diag. cbn [nth firstn sum fold_right]. lia.
    + specialize (IH (i - l) (S k0)). destruct (chain_find lens (i - l) (S k0)) as [[k i']|].
      * destruct IH as [A [B C]]. cbn [length]. split; [lia|].
        replace (k - k0)%nat with (S (k - S k0)) by lia. cbn [nth firstn sum fold_right].
        split; [exact B|]. unfold sum in C. lia.
      * cbn [sum fold_right]. unfold sum in IH. lia.
Qed.

Lemma sum_nth_le lens k : nth k lens 0 <= sum lens.
Proof.
  revert k; induction lens as [|l lens IH]; intros [|k]; cbn [nth sum fold_right]; try lia.
  specialize (IH k). unfold sum in IH. lia.
Qed.
Lemma sum_firstn_lt lens k : (k < length lens)%nat -> sum (firstn k lens) + nth k lens 0 <= sum lens.
Proof.
  revert k; induction lens as [|l lens IH]; intros [|k] H; cbn [length nth firstn sum fold_right] in *; try lia.
  specialize (IH k ltac:(lia)). unfold sum in IH. lia.
Qed.

(* validate_shapes_similar *)
Lemma similar_from_spec : forall (s s0 : shape) d along, similar_from d along s s0 = true ->
  length s = length s0 /\ names_of s = names_of s0 /\
  forall k, (d + k)%nat <> along -> nth k (lens_of s) 0 = nth k (lens_of s0) 0.
Proof.
  induction s as [|a s IH]; intros [|b s0] d along H; cbn [similar_from] in H; try discriminate.
  - repeat split; auto.
  - apply andb_prop in H as [H1 H2]. destruct (IH s0 (S d) along H2) as [L [Nm Hk]].
    assert (Hn : fst a = fst b).
    { destruct (Nat.eqb d along); [apply Nat.eqb_eq; exact H1|].
      apply andb_prop in H1 as [H1 _]. apply Nat.eqb_eq; exact H1. }
    repeat split.
    + cbn [length]; lia.
    + cbn [names_of map]. f_equal; [exact Hn|exact Nm].
    + intros [|k] Hne; cbn [lens_of map nth].
      * destruct (Nat.eqb_spec d along); [lia|]. apply andb_prop in H1 as [_ H1].
        apply N.eqb_eq. exact H1.
      * apply Hk. lia.
Qed.

Lemma shape_eqb_eq (a b : shape) : shape_eqb a b = true -> a = b.
Proof.
  unfold shape_eqb. intros H. apply andb_prop in H as [HL HF]. apply Nat.eqb_eq in HL.
  revert b HL HF; induction a as [|[n l] a IH]; intros [|[n' l'] b] HL HF; cbn [length] in HL; try lia.
  - reflexivity.
  - cbn [combine forallb fst snd] in HF. apply andb_prop in HF as [H1 H2].
    apply andb_prop in H1 as [Hn Hl]. apply Nat.eqb_eq in Hn. apply N.eqb_eq in Hl. subst.
    f_equal. apply IH; [lia|exact H2].
Qed.

(* validate_shapes_similar after fix f29e87d: the running checked_add of the chained lengths
   succeeds for every later source exactly when the total fits usize *)
Lemma similar_loop_spec along (s0 : shape) : forall rest t,
  similar_loop along s0 t rest = true <->
  forallb (fun s => similar_from 0 along s s0) rest = true /\
  (rest = [] \/ t + sum (map (fun s => len_at s along) rest) <= usize_max).
Proof.
  induction rest as [|s r IH]; intros t; cbn [similar_loop forallb map].
  - split; [intros _; split; [reflexivity|left; reflexivity]|reflexivity].
  - unfold checked_add. change (sum (len_at s along :: map (fun s1 => len_at s1 along) r))
      with (len_at s along + sum (map (fun s1 => len_at s1 along) r)).
    destruct (N.leb_spec (t + len_at s along) usize_max) as [Hle|Hgt].
    + rewrite !andb_true_iff, IH. split.
      * intros [A [B C]]. split; [split; assumption|]. right. destruct C as [->|C]; cbn [map sum fold_right]; lia.
      * intros [[A B] [C|C]]; [discriminate|]. split; [exact A|]. split; [exact B|].
        destruct r; [left; reflexivity|right; lia].
    + split; [discriminate|]. intros [_ [C|C]]; [discriminate|lia].
Qed.

Lemma shapes_similar_checked_spec (s0 : shape) rest along :
  shapes_similar_checked (s0 :: rest) along = true <->
  shapes_similar (s0 :: rest) along = true /\
  (rest = [] \/ sum (map (fun s => len_at s along) (s0 :: rest)) <= usize_max).
Proof. cbn [shapes_similar_checked shapes_similar map sum fold_right]. apply similar_loop_spec. Qed.
