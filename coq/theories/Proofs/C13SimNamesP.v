(* C13 - similar sources have the same set of dimension names. *)
From Coq Require Import List ZArith NArith Bool Arith Lia Permutation.
From EasyML Require Import Base.Sx Model.Shape Model.Tensor Model.TSource Model.ShapeIter
  Model.Transform Model.TransformG Proofs.ShapeP Proofs.C01P Proofs.C13P Proofs.C13SymP.
Import ListNotations.
Open Scope N_scope.

Section SimNames.
Context {A : Type}.
Variable eqb : A -> A -> bool.

(* similar tensors have the same SET of dimension names (the right one's names are a permutation of the
   left one's), whatever the element comparison is *)
Theorem similarity_names_perm (l r : tsrc A) :
  NoDup (names_of (src_shape r)) -> length (src_shape l) = length (src_shape r) ->
  tensor_similarity eqb l r = true ->
  Permutation (names_of (src_shape r)) (names_of (src_shape l)).
Proof.
  intros Nd HD H. apply similarity_iff in H. destruct H as [tbl [Hnew _]].
  apply dm_new_iff_perm; [exact Nd| |rewrite Hnew; discriminate].
  unfold names_of. rewrite !map_length. exact HD.
Qed.
End SimNames.
