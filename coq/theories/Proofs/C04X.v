(* C04 — extension round: program-level statements of the last sentence of the property
   ("Constants neither receive nor perturb derivative mass, inputs the result does not depend on
   get exactly zero, and the result is a constant exactly when no variable contributed") and of
   the shape of the Derivatives object, for ALL programs:
   * every record of the program that has a tape (created before OR after the output) has a slot
     in the derivative vector of every output (Derivatives::at never leaves the vector);
   * a variable created after the output gets exactly zero;
   * an instruction whose result is a constant changes neither the tape nor any derivative vector;
   * a program without variables never touches the tape and every result is a constant;
   * a Record::constant operand is, in EVERY operator form (record op record on either side,
     + and * commuted, Record::binary on either side), exactly the plain number it carries.
   Over any commutative ring, on top of Proofs/C04P.v. *)
From Coq Require Import List Arith Lia Ring Bool ZArith.
From EasyML Require Import Base.Sx Model.Num Model.Tape Model.AD Spec.FormalD Proofs.TapeP Proofs.C04P.
Import ListNotations.

Section C04X.
Context {R : Type} (ops : numops R).
Hypothesis Rth : ring_theory (nzero ops) (none_ ops) (nadd ops) (nmul ops) (nsub ops) (nneg ops) (@eq R).
Add Ring Rring4x : Rth.
Notation rO := (nzero ops).
Notation rI := (none_ ops).

(* ------------------------------------------------------------------ bookkeeping *)
Lemma run_prog_length (prog : list (instr R)) : length (fst (run_prog ops prog)) = length prog.
Proof.
  induction prog as [|ins prog IH] using rev_ind; [reflexivity|].
  rewrite run_prog_snoc. destruct (run_prog ops prog) as [nodes t]. cbn [exec fst] in *.
  destruct (exec_op ops nodes t ins) as [r t']. cbn [fst]. rewrite !app_length, IH. reflexivity.
Qed.

Lemma run_prog_old (prog : list (instr R)) ins k : k < length prog ->
  getr ops (fst (run_prog ops (prog ++ [ins]))) k = getr ops (fst (run_prog ops prog)) k.
Proof.
  intros Hk. rewrite run_prog_snoc. pose proof (run_prog_length prog) as L.
  destruct (run_prog ops prog) as [nodes t]. cbn [exec fst] in *.
  destruct (exec_op ops nodes t ins) as [r t']. cbn [fst].
  apply getr_app_old. lia.
Qed.

Lemma run_prog_new (prog : list (instr R)) ins :
  getr ops (fst (run_prog ops (prog ++ [ins]))) (length prog)
  = fst (exec_op ops (fst (run_prog ops prog)) (snd (run_prog ops prog)) ins) /\
  snd (run_prog ops (prog ++ [ins]))
  = snd (exec_op ops (fst (run_prog ops prog)) (snd (run_prog ops prog)) ins).
Proof.
  rewrite run_prog_snoc. pose proof (run_prog_length prog) as L.
  destruct (run_prog ops prog) as [nodes t]. cbn [exec fst snd] in *.
  destruct (exec_op ops nodes t ins) as [r t']. cbn [fst snd].
  rewrite <- L. rewrite getr_app_new. split; reflexivity.
Qed.

(* ------------------------------------------------------------------ the derivative vector *)
(* every record with a tape sits inside the final tape *)
Theorem record_on_tape (prog : list (instr R)) k :
  history (getr ops (fst (run_prog ops prog)) k) = true ->
  index (getr ops (fst (run_prog ops prog)) k) < length (snd (run_prog ops prog)).
Proof.
  intros Hh. pose proof (run_inv_holds ops Rth (fun _ => rO) prog) as H.
  destruct (run_prog ops prog) as [nodes t]. destruct (drun ops (fun _ => rO) prog) as [vs ts].
  destruct H as [sd [_ [_ [_ [_ [Hall _]]]]]]. cbn [fst snd] in *.
  destruct (Hall k) as [_ Hk]. rewrite Hh in Hk. apply Hk.
Qed.

(* Derivatives has exactly one entry per tape entry of the WHOLE tape, hence a slot for every
   record of the program that is not a constant, whether created before or after the output *)
Theorem derivatives_cover_every_record (prog : list (instr R)) out d :
  try_derivatives ops (run_prog ops prog) out = Some d ->
  length d = length (snd (run_prog ops prog)) /\
  forall k, history (getr ops (fst (run_prog ops prog)) k) = true ->
            index (getr ops (fst (run_prog ops prog)) k) < length d.
Proof.
  unfold try_derivatives.
  destruct (history (getr ops (fst (run_prog ops prog)) out)); [|discriminate].
  intros E. inversion E. rewrite (sweep_length ops).
  split; [reflexivity|]. intros k Hk. apply record_on_tape. exact Hk.
Qed.

(* ------------------------------------------------------------------ later variables get zero *)
Lemma existsb_all_false {A} (f : A -> bool) l : (forall a, In a l -> f a = false) -> existsb f l = false.
Proof.
  induction l as [|x l IH]; intros H; cbn [existsb]; [reflexivity|].
  rewrite (H x) by (left; reflexivity). apply IH. intros a Ha. apply H. right. exact Ha.
Qed.

Lemma depends_on_before (prog : list (instr R)) v : forall k, k < v ->
  nth k (depends_on prog v) false = false.
Proof.
  induction prog as [|ins prog IH] using rev_ind; intros k Hk.
  - destruct k; reflexivity.
  - rewrite depends_on_snoc. pose proof (depends_on_length prog v) as L.
    destruct (Nat.lt_ge_cases k (length prog)) as [Hlt|Hge].
    + rewrite app_nth1 by lia. apply IH. exact Hk.
    + destruct (Nat.eq_dec k (length prog)) as [->|Hne];
        [|apply nth_overflow; rewrite app_length; simpl; lia].
      rewrite <- L at 1. rewrite app_nth2, Nat.sub_diag by lia. cbn [nth].
      assert (Hrefs : forall l, existsb (fun a => nth a (depends_on prog v) false) l = false).
      { intros l. apply existsb_all_false. intros a _.
        destruct (Nat.lt_ge_cases a (length prog)) as [Ha|Ha].
        - apply IH. lia.
        - apply nth_overflow. lia. }
      destruct ins; cbn [dep_instr]; try apply Hrefs.
      rewrite L. apply Nat.eqb_neq. lia.
Qed.

Theorem later_variable_zero (prog : list (instr R)) out v x d :
  nth_error prog v = Some (IVar x) -> out < v ->
  try_derivatives ops (run_prog ops prog) out = Some d ->
  at_ ops d (getr ops (fst (run_prog ops prog)) v) = rO.
Proof.
  intros Hv Hlt Hd.
  apply (try_derivatives_independent_zero ops Rth prog out v x d Hv); [|exact Hd].
  apply depends_on_before. exact Hlt.
Qed.

(* ------------------------------------------------------------------ constants are inert *)
(* an instruction whose result is a constant leaves the tape, every earlier record and every
   derivative vector exactly as they were *)
Theorem constant_instruction_inert (prog : list (instr R)) ins :
  history (getr ops (fst (run_prog ops (prog ++ [ins]))) (length prog)) = false ->
  snd (run_prog ops (prog ++ [ins])) = snd (run_prog ops prog) /\
  forall out, out < length prog ->
    try_derivatives ops (run_prog ops (prog ++ [ins])) out = try_derivatives ops (run_prog ops prog) out.
Proof.
  destruct (run_prog_new prog ins) as [Hr Ht]. rewrite Hr. intros Hh.
  assert (E : snd (run_prog ops (prog ++ [ins])) = snd (run_prog ops prog)).
  { rewrite Ht. apply constants_inert. exact Hh. }
  split; [exact E|]. intros out Hout. unfold try_derivatives.
  rewrite (run_prog_old prog ins out Hout), E. reflexivity.
Qed.

(* a program that creates no variable never touches the tape; every result is a constant *)
Lemma var_nodes_from_app (p q : list (instr R)) : forall n,
  var_nodes_from n (p ++ q) = var_nodes_from n p ++ var_nodes_from (n + length p) q.
Proof.
  induction p as [|ins p IH]; intros n; cbn [app var_nodes_from length].
  - rewrite Nat.add_0_r. reflexivity.
  - rewrite IH, app_assoc. do 2 f_equal. lia.
Qed.

Theorem no_variable_no_tape (prog : list (instr R)) : var_nodes prog = [] ->
  snd (run_prog ops prog) = [] /\
  forall out, try_derivatives ops (run_prog ops prog) out = None.
Proof.
  intros Hv.
  assert (H : snd (run_prog ops prog) = [] /\
              forall k, history (getr ops (fst (run_prog ops prog)) k) = false).
  { induction prog as [|ins prog IH] using rev_ind.
    - split; [reflexivity|]. intros k. destruct k; reflexivity.
    - unfold var_nodes in Hv. rewrite var_nodes_from_app in Hv. apply app_eq_nil in Hv as [Hp Hi].
      destruct (IH Hp) as [Ht Hc]. cbn [var_nodes_from] in Hi.
      destruct (is_var ins) eqn:Hiv; [discriminate|].
      destruct (run_prog_new prog ins) as [Hr Hs].
      assert (Hnew : history (fst (exec_op ops (fst (run_prog ops prog)) (snd (run_prog ops prog)) ins)) = false).
      { rewrite exec_op_history.
        assert (Hrefs : forall l, existsb (fun a => nth a (map (@history R) (fst (run_prog ops prog))) false) l = false).
        { intros l. apply existsb_all_false. intros a _.
          change false with (history (constant rO)) at 1. rewrite map_nth. apply Hc. }
        destruct ins; cbn [dep_instr]; try apply Hrefs. discriminate. }
      split.
      + rewrite Hs, (constants_inert ops _ _ _ Hnew). exact Ht.
      + intros k. destruct (Nat.lt_ge_cases k (length prog)) as [Hlt|Hge].
        * rewrite run_prog_old by exact Hlt. apply Hc.
        * destruct (Nat.eq_dec k (length prog)) as [->|Hne]; [rewrite Hr; exact Hnew|].
          rewrite getr_overflow; [reflexivity|]. rewrite run_prog_length, app_length. simpl. lia. }
  destruct H as [Ht Hc]. split; [exact Ht|]. intros out. unfold try_derivatives. rewrite Hc. reflexivity.
Qed.

(* ------------------------------------------------------------------ a constant record operand
   is the plain number it carries, in every operator form, at any point of any program *)
Lemma getr_constant (prog : list (instr R)) b c : nth_error prog b = Some (IConst c) ->
  getr ops (fst (run_prog ops prog)) b = constant c.
Proof.
  induction prog as [|ins prog IH] using rev_ind; intros Hb.
  - destruct b; discriminate.
  - destruct (Nat.lt_ge_cases b (length prog)) as [Hlt|Hge].
    + rewrite nth_error_app1 in Hb by exact Hlt. rewrite run_prog_old by exact Hlt. apply IH. exact Hb.
    + destruct (Nat.eq_dec b (length prog)) as [->|Hne].
      * rewrite nth_error_app2, Nat.sub_diag in Hb by lia. cbn in Hb. inversion Hb; subst ins.
        destruct (run_prog_new prog (IConst c)) as [Hr _]. rewrite Hr. reflexivity.
      * assert (E : nth_error (prog ++ [ins]) b = None)
          by (apply nth_error_None; rewrite app_length; simpl; lia). congruence.
Qed.

Theorem constant_operand_every_form (prog : list (instr R)) b c :
  nth_error prog b = Some (IConst c) ->
  let nodes := fst (run_prog ops prog) in
  forall t a,
  (* record (op) constant-record = record (op) number, for + - * / pow *)
  (forall o, exec_op ops nodes t (IBin o a b) = exec_op ops nodes t (IBinC o a c)) /\
  (* constant-record (op) record = number (op) record: sub_swapped, div_swapped, number.pow(record) *)
  (forall o, exec_op ops nodes t (IBin (cop_bop o) b a) = exec_op ops nodes t (ICBin o c a)) /\
  (* constant-record + record and constant-record * record = record + number, record * number *)
  exec_op ops nodes t (IBin BAdd b a) = exec_op ops nodes t (IBinC BAdd a c) /\
  exec_op ops nodes t (IBin BMul b a) = exec_op ops nodes t (IBinC BMul a c) /\
  (* Record::binary with a constant on either side = Record::unary of the partial application *)
  (forall f dx dy, exec_op ops nodes t (IUser2 f dx dy a b)
                   = exec_op ops nodes t (IUser1 (fun x => f x c) (fun x => dx x c) a)) /\
  (forall f dx dy, exec_op ops nodes t (IUser2 f dx dy b a)
                   = exec_op ops nodes t (IUser1 (fun y => f c y) (fun y => dy c y) a)).
Proof.
  intros Hb nodes t a. subst nodes. cbn [exec_op]. rewrite (getr_constant prog b c Hb).
  set (ra := getr ops (fst (run_prog ops prog)) a).
  split; [|split; [|split; [|split; [|split]]]].
  - intros o. apply (constant_operand_is_number ops).
  - intros o. destruct o; cbn [cop_bop bop_fd bop_commuted cop_fd];
      apply (constant_operand_is_number ops _ false).
  - cbn [bop_fd bop_commuted]. unfold rec_rec, rec_num. cbn [history constant number].
    destruct (history ra); [reflexivity|]. cbn [Addition f2]. do 2 f_equal. ring.
  - cbn [bop_fd bop_commuted]. unfold rec_rec, rec_num. cbn [history constant number].
    destruct (history ra); [reflexivity|]. cbn [Multiplication f2]. do 2 f_equal. ring.
  - intros f dx dy. unfold rec_binary, rec_un. cbn [history constant number f1 f1dx f2 f2dx f2dy].
    destruct (history ra); reflexivity.
  - intros f dx dy. unfold rec_binary, rec_un. cbn [history constant number f1 f1dx f2 f2dx f2dy].
    destruct (history ra); reflexivity.
Qed.

End C04X.
