(* C13, third extension wave: the two paths of Tensor::reorder_mut / transpose_mut and the shape of
   a transposition (answers to the round-4 seeds C13-v1, C13-v2).
     reorder_mut_guard     the condition of the in-place branch AS WRITTEN in src/tensors/mod.rs:
                           `D == 2 && crate::tensors::dimensions::is_square(&self.shape)`.
                           tools/props/c13.py re-reads this condition from the Rust source on every
                           run, renders it in Gallina and re-proves `generated guard = reorder_mut_guard`
                           (coq/gen/C13Guard.v.in): widening the guard in the source (C13-v2: `D >= 2`)
                           breaks that obligation by name.
     reorder_mut_paths     reorder_mut IS `if guard then <swap loop> else *self = self.reorder(..)`.
     reorder_mut_fallback  outside the guard (D <> 2, or D = 2 with unequal lengths; cubes 2^3, 3^3,
                           2^4, ... in particular) reorder_mut is LITERALLY reorder - no hypothesis
                           on the tensor at all; the same for transpose_mut.
     square_path_iff       the swap loop runs exactly for shapes [(a, n); (b, n)].
     transpose_shape_by_name  the result shape of transpose: dimension d keeps its NAME and gets the
                           LENGTH of the dimension called dims[d] (the requested order, not its
                           inverse - C13-v1 used the inverse permutation, visible for D >= 3 with a
                           non-involutive order and unequal lengths). *)
From Coq Require Import List ZArith NArith Bool Arith Lia.
From EasyML Require Import Base.Sx Model.Shape Model.Tensor Model.TSource Model.ShapeIter
  Model.Transform Proofs.ShapeP Proofs.C01P Proofs.OdometerP Proofs.C09P Proofs.C13P Proofs.C13bP
  Proofs.SwapLoopP.
Import ListNotations.
Open Scope N_scope.

(* the guard of the in-place branch, in the source's own terms: (D, shape) *)
Definition reorder_mut_guard (sh : shape) : bool := Nat.eqb (length sh) 2 && is_square sh.

Section Paths.
Context {A : Type}.

(* the body of the in-place branch (Model/Transform.v reorder_mut, first arm) *)
Definition reorder_mut_square_path (t : tensor A) (dims : list name) : outcome (tensor A) :=
  let sh := t_shape t in
  match dm_new (names_of sh) dims with
  | None => Panic
  | Some tbl =>
      let shape' := map_shape_to_requested tbl sh in
      match fold_left (swap_step tbl) (shape_iter_all shape') (Some t) with
      | Some t' => Ok (mkTensor (t_data t') shape' (compute_strides shape'))
      | None => Panic
      end
  end.

Theorem reorder_mut_paths (t : tensor A) dims :
  reorder_mut t dims =
  if reorder_mut_guard (t_shape t) then reorder_mut_square_path t dims else reorder (TBase t) dims.
Proof. reflexivity. Qed.

(* the fallback `*self = self.reorder(dimensions)`: for EVERY tensor value (no invariant needed),
   every shape outside the guard, every name list (rejected ones included: both panic) *)
Theorem reorder_mut_fallback (t : tensor A) dims :
  (length (t_shape t) <> 2%nat \/ is_square (t_shape t) = false) ->
  reorder_mut t dims = reorder (TBase t) dims /\
  transpose_mut t dims = transpose (TBase t) dims.
Proof.
  intros H.
  assert (G : reorder_mut_guard (t_shape t) = false).
  { unfold reorder_mut_guard. destruct H as [H|H].
    - apply Nat.eqb_neq in H. rewrite H. reflexivity.
    - rewrite H. apply andb_false_r. }
  assert (E : reorder_mut t dims = reorder (TBase t) dims) by (rewrite reorder_mut_paths, G; reflexivity).
  split; [exact E|]. unfold transpose_mut, transpose. rewrite E. reflexivity.
Qed.

End Paths.

(* the in-place branch is taken exactly for two dimensions of equal length *)
Theorem square_path_iff (sh : shape) :
  reorder_mut_guard sh = true <-> exists a b n, sh = [(a, n); (b, n)].
Proof.
  split.
  - apply square_2d.
  - intros [a [b [n ->]]]. unfold reorder_mut_guard. cbn. rewrite N.eqb_refl. reflexivity.
Qed.

Corollary square_path_requires_two_dimensions (sh : shape) :
  reorder_mut_guard sh = true -> length sh = 2%nat.
Proof. intros H. apply square_path_iff in H. destruct H as [a [b [n ->]]]. reflexivity. Qed.

(* hypercubes of three or more dimensions (2^3, 3^3, 2^4, ...) take the fallback *)
Corollary cubes_take_the_fallback {A} (t : tensor A) dims :
  (3 <= length (t_shape t))%nat -> reorder_mut t dims = reorder (TBase t) dims.
Proof. intros H. apply reorder_mut_fallback. left. lia. Qed.

(* the shape of a transposition *)
Section TransposeShape.
Context {A : Type}.

Theorem transpose_shape_by_name (s : tsrc A) dims t' :
  NoDup (names_of (src_shape s)) -> length dims = length (src_shape s) ->
  transpose s dims = Ok t' ->
  t_shape t' = with_names_of (src_shape s) (shape_by_name (src_shape s) dims) /\
  names_of (t_shape t') = names_of (src_shape s) /\
  lens_of (t_shape t') =
    map (fun n => match length_of (src_shape s) n with Some l => l | None => 0 end) dims.
Proof.
  intros Hnd Hl Ht. unfold transpose, reorder in Ht.
  destruct (dm_new (names_of (src_shape s)) dims) as [tbl|] eqn:E; [|discriminate].
  cbn [src_shape] in Ht.
  destruct (tensor_from _ _) as [r| |] eqn:Er; cbn [omap] in Ht; try discriminate.
  injection Ht as <-. cbn [t_shape].
  apply from_agrees in Er. apply try_from_inv in Er. destruct Er as [_ [Hsh _]]. rewrite Hsh.
  (* the requested-order shape is the by-name shape (C01: access_shape_by_name) *)
  pose (t0 := mkTensor (@nil A) (src_shape s) []).
  assert (Hby : map_shape_to_requested tbl (src_shape s) = shape_by_name (src_shape s) dims).
  { apply (access_shape_by_name t0 dims (mkAccess t0 tbl)); cbn [t_shape t0]; auto.
    unfold access_try_from. cbn [t_shape t0]. rewrite E. reflexivity. }
  rewrite Hby.
  assert (Hlen : length (src_shape s) = length (shape_by_name (src_shape s) dims)).
  { unfold shape_by_name. rewrite map_length. symmetry. exact Hl. }
  split; [reflexivity|]. split.
  - clear -Hlen. revert Hlen. generalize (shape_by_name (src_shape s) dims).
    induction (src_shape s) as [|d sh IH]; intros [|e l] H; cbn [length] in H; try discriminate; [reflexivity|].
    cbn [with_names_of combine map names_of fst]. f_equal. apply (IH l). lia.
  - rewrite lens_with_names by exact Hlen. unfold shape_by_name, lens_of. rewrite map_map. reflexivity.
Qed.

End TransposeShape.
