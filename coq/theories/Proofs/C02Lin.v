(* C02, linear layout: whenever a view claims DataLayout::Linear(order), `order` is a permutation
   of the view's dimension names and indexing the view BY NAME with the indexes given in that
   order is exactly row-major addressing of ONE whole leaf: walking the view in the claimed order
   visits leaf offsets 0, 1, 2, ... (strictly increasing, contiguous, the whole leaf).
   By structural induction on the constructed view (Linear survives exactly through rename /
   access / transposition / wrappers over tensor and matrix-backed leaves; every other adaptor
   reports NonLinear or Other). *)
From Coq Require Import List ZArith NArith Bool Arith Lia Permutation.
From EasyML Require Import Base.Sx Model.Shape Model.Tensor Model.Views Proofs.ShapeP Proofs.C01P
  Proofs.C02Lemmas Proofs.C02P.
Import ListNotations.
Open Scope N_scope.

(* ---------- specification ---------- *)
Definition len_of (sh : shape) (n : name) : N :=
  match length_of sh n with Some l => l | None => 0 end.
Definition lens_by_name (sh : shape) (order : list name) : list N := map (len_of sh) order.

(* row-major addressing of leaf `id` with dimension lengths `lens` *)
Definition rowmajor (id : N) (lens idx : list N) : option (N * N) :=
  if in_range_b idx lens then Some (id, flat idx lens) else None.

Definition lin_inv (sh : shape) (get : list N -> option (N * N)) (order : list name) (id : N) : Prop :=
  Permutation order (names_of sh) /\
  forall idx, length idx = length sh ->
    get (coords_by_name sh order idx) = rowmajor id (lens_by_name sh order) idx.

(* ---------- positions of names ---------- *)
Lemma pos_in_nth l d : NoDup l -> (d < length l)%nat -> pos_in (nth d l 0%nat) l = d.
Proof. intros H Hd. unfold pos_in. rewrite index_of_nth_NoDup by assumption. reflexivity. Qed.

Lemma nth_pos_in n l : In n l -> (pos_in n l < length l)%nat /\ nth (pos_in n l) l 0%nat = n.
Proof.
  intros H. unfold pos_in. destruct (index_of_In n l H) as [i E]. rewrite E.
  apply index_of_Some in E. exact E.
Qed.

Lemma position_of_in (sh : shape) n : In n (names_of sh) ->
  position_of sh n = Some (pos_in n (names_of sh)).
Proof.
  intros H. unfold position_of, pos_in. destruct (index_of_In _ _ H) as [i E]. rewrite E. reflexivity.
Qed.

Lemma len_of_nth (sh : shape) d : NoDup (names_of sh) -> (d < length sh)%nat ->
  len_of sh (nth d (names_of sh) 0%nat) = nth d (lens_of sh) 0.
Proof.
  intros Hnd Hd. unfold len_of.
  assert (E : nth d (names_of sh) 0%nat = fst (nth d sh (0%nat, 0)))
    by (unfold names_of; apply (map_nth fst sh (0%nat, 0) d)).
  rewrite E, length_of_nth by assumption. unfold lens_of. symmetry. apply (map_nth snd sh (0%nat, 0) d).
Qed.

(* indexing a shape by its own names in its own order is the identity *)
Lemma coords_self (sh : shape) idx : NoDup (names_of sh) -> length idx = length sh ->
  coords_by_name sh (names_of sh) idx = idx.
Proof.
  intros Hnd Hl. unfold coords_by_name, coord_of.
  apply nth_ext with (d := 0) (d' := 0); [rewrite map_length, names_of_length; lia|].
  rewrite map_length, names_of_length. intros d Hd.
  rewrite nth_map_in with (da := 0%nat) by (rewrite names_of_length; exact Hd).
  rewrite pos_in_nth by (auto; rewrite names_of_length; exact Hd). reflexivity.
Qed.

Lemma lens_self (sh : shape) : NoDup (names_of sh) -> lens_by_name sh (names_of sh) = lens_of sh.
Proof.
  intros Hnd. unfold lens_by_name.
  apply nth_ext with (d := 0) (d' := 0); [rewrite map_length, names_of_length, lens_of_length; reflexivity|].
  rewrite map_length, names_of_length. intros d Hd.
  rewrite nth_map_in with (da := 0%nat) by (rewrite names_of_length; exact Hd).
  apply len_of_nth; assumption.
Qed.

(* ---------- shape_by_name ---------- *)
Lemma names_shape_by_name sh req : names_of (shape_by_name sh req) = req.
Proof. unfold names_of, shape_by_name. rewrite map_map. cbn [fst]. apply map_id. Qed.

Lemma length_of_shape_by_name sh req n : In n req ->
  len_of (shape_by_name sh req) n = len_of sh n.
Proof.
  intros Hin. unfold len_of at 1. unfold shape_by_name, length_of.
  induction req as [|m req IH]; [contradiction|]. cbn [map find fst].
  destruct (Nat.eqb_spec m n) as [->|Hne]; cbn [option_map snd]; [reflexivity|].
  destruct Hin as [E|Hin]; [congruence|]. apply IH. exact Hin.
Qed.

Lemma lens_by_name_access sh req order : incl order req ->
  lens_by_name (shape_by_name sh req) order = lens_by_name sh order.
Proof.
  intros Hi. unfold lens_by_name. apply map_ext_in. intros n Hn.
  apply length_of_shape_by_name. apply Hi. exact Hn.
Qed.

Lemma lens_of_shape_by_name sh order : lens_of (shape_by_name sh order) = lens_by_name sh order.
Proof. unfold lens_of, shape_by_name, lens_by_name, len_of. rewrite map_map. reflexivity. Qed.

(* composing two by-name lookups *)
Lemma coords_compose sh req order idx : incl (names_of sh) req ->
  coords_by_name sh req (coords_by_name (shape_by_name sh req) order idx) = coords_by_name sh order idx.
Proof.
  intros Hi. unfold coords_by_name at 1 3. apply map_ext_in. intros n Hn.
  unfold coord_of at 1. unfold coords_by_name. rewrite names_shape_by_name.
  destruct (nth_pos_in n req (Hi n Hn)) as [Hb He].
  rewrite nth_map_in with (da := 0%nat) by exact Hb. rewrite He. reflexivity.
Qed.

(* ---------- the step lemmas ---------- *)
Lemma lin_access sh get order id req :
  NoDup (names_of sh) -> Permutation (names_of sh) req -> lin_inv sh get order id ->
  lin_inv (shape_by_name sh req) (fun J => get (coords_by_name sh req J)) order id.
Proof.
  intros Hnd Hp [Ho Hg]. split.
  - rewrite names_shape_by_name. rewrite Ho. exact Hp.
  - intros idx Hl. unfold shape_by_name in Hl. rewrite map_length in Hl.
    rewrite <- (Permutation_length Hp), names_of_length in Hl.
    rewrite coords_compose by (intros x Hx; eapply Permutation_in; eauto).
    rewrite lens_by_name_access.
    + apply Hg. exact Hl.
    + intros x Hx. eapply Permutation_in; [exact Hp|]. eapply Permutation_in; [exact Ho|exact Hx].
Qed.

Definition rho (sh : shape) (ns : list name) (n : name) : name := nth (pos_in n (names_of sh)) ns 0%nat.

Lemma rho_nth sh ns d : NoDup (names_of sh) -> (d < length sh)%nat ->
  rho sh ns (nth d (names_of sh) 0%nat) = nth d ns 0%nat.
Proof. intros Hnd Hd. unfold rho. rewrite pos_in_nth by (auto; rewrite names_of_length; exact Hd). reflexivity. Qed.

Lemma rho_inj sh ns x y : NoDup (names_of sh) -> length ns = length sh -> NoDup ns ->
  In x (names_of sh) -> In y (names_of sh) -> rho sh ns x = rho sh ns y -> x = y.
Proof.
  intros Hnd Hl Hns Hx Hy E. unfold rho in E.
  destruct (nth_pos_in x _ Hx) as [Bx Ex]. destruct (nth_pos_in y _ Hy) as [By Ey].
  rewrite names_of_length in Bx, By.
  assert (pos_in x (names_of sh) = pos_in y (names_of sh)).
  { eapply (proj1 (NoDup_nth ns 0%nat) Hns); [lia|lia|exact E]. }
  congruence.
Qed.

Lemma index_of_map_inj (f : name -> name) (S : list name) n l :
  (forall x y, In x S -> In y S -> f x = f y -> x = y) -> In n S -> incl l S ->
  index_of (f n) (map f l) = index_of n l.
Proof.
  intros Hinj Hn Hl. induction l as [|m l IH]; [reflexivity|]. cbn [map index_of].
  assert (Hm : In m S) by (apply Hl; left; reflexivity).
  destruct (Nat.eqb_spec m n) as [->|Hne].
  - rewrite Nat.eqb_refl. reflexivity.
  - destruct (Nat.eqb_spec (f m) (f n)) as [E|_].
    + exfalso. apply Hne. apply Hinj; assumption.
    + rewrite IH; [reflexivity|]. intros x Hx. apply Hl. right. exact Hx.
Qed.

Lemma map_rho_names sh ns : NoDup (names_of sh) -> length ns = length sh ->
  map (rho sh ns) (names_of sh) = ns.
Proof.
  intros Hnd Hl. apply nth_ext with (d := 0%nat) (d' := 0%nat); [rewrite map_length, names_of_length; lia|].
  rewrite map_length, names_of_length. intros d Hd.
  rewrite nth_map_in with (da := 0%nat) by (rewrite names_of_length; exact Hd).
  apply rho_nth; assumption.
Qed.

Lemma lin_rename sh get order id ns :
  NoDup (names_of sh) -> length ns = length sh -> NoDup ns -> lin_inv sh get order id ->
  lin_inv (zipwith (fun d n => (n, snd d)) sh ns) get (map (rho sh ns) order) id.
Proof.
  intros Hnd Hl Hns [Ho Hg]. destruct (lens_rename_shape sh ns Hl) as [HL HN].
  set (sh' := zipwith (fun d n => (n, snd d)) sh ns) in *.
  assert (Hlen' : length sh' = length sh) by (unfold sh'; apply zipwith_length; lia).
  assert (Hincl : incl order (names_of sh)) by (intros x Hx; eapply Permutation_in; eauto).
  split.
  - rewrite HN. rewrite <- (map_rho_names sh ns Hnd Hl) at 2. apply Permutation_map. exact Ho.
  - intros idx Hi. rewrite Hlen' in Hi.
    assert (Ec : coords_by_name sh' (map (rho sh ns) order) idx = coords_by_name sh order idx).
    { unfold coords_by_name, coord_of. rewrite HN.
      apply nth_ext with (d := 0) (d' := 0); [rewrite !map_length, names_of_length; lia|].
      rewrite map_length. intros d Hd. rewrite Hl in Hd.
      rewrite nth_map_in with (da := 0%nat) by lia.
      rewrite nth_map_in with (da := 0%nat) by (rewrite names_of_length; exact Hd).
      rewrite <- (rho_nth sh ns d Hnd Hd). unfold pos_in.
      rewrite (index_of_map_inj (rho sh ns) (names_of sh)); [reflexivity| | |exact Hincl].
      - intros x y Hx Hy. apply rho_inj; assumption.
      - apply nth_In. rewrite names_of_length. exact Hd. }
    assert (El : lens_by_name sh' (map (rho sh ns) order) = lens_by_name sh order).
    { unfold lens_by_name. rewrite map_map. apply map_ext_in. intros n Hn.
      apply Hincl in Hn. destruct (nth_pos_in n _ Hn) as [Hb He]. rewrite names_of_length in Hb.
      set (d := pos_in n (names_of sh)) in *.
      rewrite <- He at 2. rewrite (len_of_nth sh d Hnd Hb).
      replace (rho sh ns n) with (nth d (names_of sh') 0%nat) by (rewrite HN; reflexivity).
      rewrite (len_of_nth sh' d) by (rewrite ?HN; auto; lia). rewrite HL. reflexivity. }
    rewrite Ec, El. apply Hg. exact Hi.
Qed.

(* ---------- the layouts computed by rename and transposition ---------- *)
Lemma rename_layout_positions (sh : shape) order : incl order (names_of sh) ->
  sequence (map (position_of sh) order) = Some (map (fun n => pos_in n (names_of sh)) order).
Proof.
  intros Hi. apply sequence_Some. rewrite map_map. apply map_ext_in. intros n Hn.
  apply position_of_in. apply Hi. exact Hn.
Qed.

Lemma zip_transpose_as_rename (l1 l2 : shape) : length l2 = length l1 ->
  zipwith (fun a b => (fst a, snd b)) l1 l2 = zipwith (fun d n => (n, snd d)) l2 (names_of l1).
Proof.
  revert l2; induction l1 as [|a l1 IH]; intros [|b l2] H; cbn [length] in H; try lia; [reflexivity|].
  cbn [zipwith names_of map]. f_equal. apply IH. lia.
Qed.

Lemma msr_is_shape_by_name (sh : shape) req tbl :
  NoDup (names_of sh) -> length req = length sh -> dm_new (names_of sh) req = Some tbl ->
  map_shape_to_requested tbl sh = shape_by_name sh req.
Proof.
  intros Hnd Hl Hnew. pose (t := mkTensor (@nil unit) sh []).
  apply (access_shape_by_name t req (mkAccess t tbl)); [exact Hnd|exact Hl|].
  unfold access_try_from. cbn [t_shape t]. rewrite Hnew. reflexivity.
Qed.

Lemma transpose_layout_is_rho (sh : shape) req tbl order :
  NoDup (names_of sh) -> length req = length sh -> dm_new (names_of sh) req = Some tbl ->
  incl order (names_of sh) ->
  transpose_layout sh tbl order = map (rho (shape_by_name sh req) (names_of sh)) order.
Proof.
  intros Hnd Hl Hnew Hi. unfold transpose_layout. apply map_ext_in. intros n Hn. apply Hi in Hn.
  rewrite (position_of_in sh n Hn). unfold rho. rewrite names_shape_by_name.
  destruct (nth_pos_in n _ Hn) as [Hb He]. set (p := pos_in n (names_of sh)) in *.
  assert (Hl' : length req = length (names_of sh)) by (rewrite names_of_length; exact Hl).
  destruct (s2r_spec _ _ _ Hnd Hl' Hnew p Hb) as [E _]. rewrite E, He. reflexivity.
Qed.

(* ---------- elements ---------- *)
Lemma prod_perm l1 l2 : Permutation l1 l2 -> prod l1 = prod l2.
Proof.
  induction 1 as [|x l1 l2 _ IH|x y l|l1 l2 l3 _ IH1 _ IH2]; rewrite ?prod_cons;
    try congruence; try reflexivity. apply N.mul_shuffle3.
Qed.

(* ---------- main induction ---------- *)
Theorem linear_inv c : cwf c -> usize_view c -> forall order, c_layout c = Ok (Linear order) ->
  exists id, c_leaves c = [(id, elements (c_shape c))] /\ lin_inv (c_shape c) (c_get c) order id.
Proof.
  unfold c_layout.
  induction c using cview_ind'; cbn [cwf usize_view c_layout_gen]; intros Hw Hu order Hlay;
    try discriminate.
  - (* tensor *)
    destruct Hw as [[Hnd Hp] ->]. injection Hlay as <-. exists id. cbn [c_leaves c_shape c_get].
    split; [reflexivity|]. split; [reflexivity|]. intros idx Hl.
    rewrite coords_self, lens_self by assumption. rewrite get_index_direct_spec by exact Hl.
    unfold rowmajor. destruct (in_range_b idx (lens_of sh)); reflexivity.
  - (* matrix *)
    destruct Hw as [Hn [Hr Hk]]. injection Hlay as <-. exists id. cbn [c_leaves c_shape].
    set (sh := [(n0, r); (n1, k)]).
    assert (Hnd : NoDup (names_of sh)).
    { cbn. constructor; [intros [E|[]]; congruence|constructor; [intros []|constructor]]. }
    split; [unfold elements; cbn; f_equal; f_equal; lia|].
    split; [reflexivity|]. intros idx Hl.
    change [n0; n1] with (names_of sh). rewrite coords_self, lens_self by assumption.
    destruct idx as [|a [|b [|? ?]]]; cbn [length] in Hl; try discriminate.
    cbn [c_get]. unfold rowmajor. cbn [sh lens_of map snd in_range_b flat].
    destruct (a <? r), (b <? k); cbn [andb]; try reflexivity. rewrite !prod_cons, prod_nil.
    f_equal. f_equal. lia.
  - (* rename *)
    destruct Hw as [Hw [Hl Hns]].
    destruct (c_layout_gen false c) as [[o| |]| |] eqn:El; try discriminate.
    destruct (IHc Hw Hu o eq_refl) as [id [Hlv [Ho Hg]]].
    destruct (cwf_contract c Hw Hu) as [[Hnd _] _].
    assert (Hincl : incl o (names_of (c_shape c))) by (intros x Hx; eapply Permutation_in; eauto).
    rewrite (rename_layout_positions _ _ Hincl) in Hlay. injection Hlay as <-.
    exists id. cbn [c_leaves c_shape c_get]. split.
    + rewrite Hlv. unfold elements. destruct (lens_rename_shape (c_shape c) ns Hl) as [-> _]. reflexivity.
    + rewrite map_map. apply (lin_rename _ _ _ _ _ Hnd Hl Hns). split; assumption.
  - (* access *)
    destruct Hw as [Hw [req [Hl Hnew]]].
    destruct (IHc Hw Hu order Hlay) as [id [Hlv Hinv]].
    destruct (cwf_contract c Hw Hu) as [[Hnd _] _].
    assert (Hp : Permutation (names_of (c_shape c)) req).
    { apply dm_new_iff_perm; [exact Hnd|rewrite names_of_length; exact Hl|congruence]. }
    exists id. cbn [c_leaves c_shape c_get]. split.
    + rewrite Hlv. unfold elements. f_equal. f_equal. apply prod_perm. unfold lens_of.
      apply Permutation_map. symmetry. apply (access_shape_perm _ req); assumption.
    + rewrite (msr_is_shape_by_name _ _ _ Hnd Hl Hnew).
      pose proof (lin_access _ _ _ _ req Hnd Hp Hinv) as H.
      destruct H as [H1 H2]. split; [exact H1|]. intros idx Hi.
      rewrite (map_to_source_by_name _ _ _ _ Hnd Hl Hnew). apply H2. exact Hi.
  - (* transpose *)
    destruct Hw as [Hw [req [Hl Hnew]]].
    destruct (c_layout_gen false c) as [[o| |]| |] eqn:El; try discriminate.
    injection Hlay as <-.
    destruct (IHc Hw Hu o eq_refl) as [id [Hlv Hinv]].
    destruct (cwf_contract c Hw Hu) as [[Hnd _] _].
    assert (Hp : Permutation (names_of (c_shape c)) req).
    { apply dm_new_iff_perm; [exact Hnd|rewrite names_of_length; exact Hl|congruence]. }
    assert (Hincl : incl o (names_of (c_shape c)))
      by (intros x Hx; eapply Permutation_in; [exact (proj1 Hinv)|exact Hx]).
    exists id. cbn [c_leaves c_shape c_get].
    rewrite (msr_is_shape_by_name _ _ _ Hnd Hl Hnew).
    set (sh := c_shape c) in *. set (sh' := shape_by_name sh req).
    assert (Hlen' : length sh' = length sh) by (unfold sh', shape_by_name; rewrite map_length; exact Hl).
    rewrite zip_transpose_as_rename by exact Hlen'.
    pose proof (lin_access _ _ _ _ req Hnd Hp Hinv) as Ha. fold sh' in Ha.
    assert (Hnd' : NoDup (names_of sh'))
      by (unfold sh'; rewrite names_shape_by_name; eapply Permutation_NoDup; eauto).
    pose proof (lin_rename sh' _ o id (names_of sh) Hnd'
                  ltac:(rewrite names_of_length; lia) Hnd Ha) as Hr.
    rewrite (transpose_layout_is_rho sh req tbl o Hnd Hl Hnew Hincl). fold sh'.
    split.
    + rewrite Hlv. unfold elements. f_equal. f_equal.
      destruct (lens_rename_shape sh' (names_of sh) ltac:(rewrite names_of_length; lia)) as [-> _].
      apply prod_perm. unfold sh'. rewrite lens_of_shape_by_name. unfold lens_by_name.
      rewrite <- (lens_self sh Hnd). unfold lens_by_name. apply Permutation_map. exact Hp.
    + destruct Hr as [H1 H2]. split; [exact H1|]. intros idx Hi.
      rewrite (map_to_source_by_name _ _ _ _ Hnd Hl Hnew). apply H2. exact Hi.
  - (* wrap *)
    destruct (IHc Hw Hu order Hlay) as [id [Hlv Hinv]]. exists id. cbn [c_leaves c_shape c_get].
    split; assumption.
Qed.

(* ---------- the walk ---------- *)
Lemma map_add_seq s p : map (fun k => (s + k)%nat) (seq 0 p) = seq s p.
Proof.
  revert s; induction p as [|p IH]; intros s; [reflexivity|].
  cbn [seq map]. rewrite Nat.add_0_r. f_equal. rewrite <- seq_shift, map_map.
  rewrite <- (IH (S s)). apply map_ext. intros k. lia.
Qed.

Lemma blocks_seq p : forall l a,
  flat_map (fun i => map (fun k => (i * p + k)%nat) (seq 0 p)) (seq a l) = seq (a * p) (l * p).
Proof.
  induction l as [|l IH]; intros a; [reflexivity|].
  cbn [seq flat_map]. rewrite map_add_seq, IH. cbn [Nat.mul]. rewrite seq_app. f_equal. f_equal. lia.
Qed.

Lemma all_indexes_flat lens :
  map (fun idx => flat idx lens) (all_indexes lens) = map N.of_nat (seq 0 (N.to_nat (prod lens))) /\
  Forall (fun idx => in_range idx lens) (all_indexes lens).
Proof.
  induction lens as [|l r [IH1 IH2]].
  - cbn. split; [reflexivity|]. repeat constructor.
  - cbn [all_indexes]. split.
    + rewrite prod_cons. set (P := N.to_nat (prod r)) in *.
      replace (N.to_nat (l * prod r)) with (N.to_nat l * P)%nat by (unfold P; lia).
      pose proof (blocks_seq P (N.to_nat l) 0) as B. change (0 * P)%nat with 0%nat in B.
      rewrite <- B. clear B. rewrite !flat_map_concat_map, !concat_map, !map_map.
      f_equal. apply map_ext. intros i. rewrite !map_map. cbn [flat].
      rewrite <- (map_map (fun idx => flat idx r) (fun f => N.of_nat i * prod r + f)), IH1, !map_map.
      apply map_ext. intros k. unfold P. lia.
    + apply Forall_forall. intros idx Hin. apply in_flat_map in Hin. destruct Hin as [i [Hi Hin]].
      apply in_map_iff in Hin. destruct Hin as [t [<- Ht]]. apply in_seq in Hi.
      rewrite Forall_forall in IH2. cbn [in_range]. split; [lia|apply IH2; exact Ht].
Qed.

Lemma all_indexes_rowmajor id lens :
  map (rowmajor id lens) (all_indexes lens) =
  map (fun k => Some (id, N.of_nat k)) (seq 0 (N.to_nat (prod lens))).
Proof.
  destruct (all_indexes_flat lens) as [H1 H2].
  rewrite <- (map_map N.of_nat (fun f => Some (id, f))), <- H1, map_map.
  apply map_ext_in. intros idx Hin. rewrite Forall_forall in H2. unfold rowmajor.
  rewrite (proj2 (in_range_b_spec idx lens) (H2 idx Hin)). reflexivity.
Qed.

(* the headline statement *)
Theorem linear_layout v c order : v_ctor v = Ok c -> usize_view c ->
  c_layout c = Ok (Linear order) ->
  Permutation order (names_of (c_shape c)) /\
  exists id tbl,
    access_tbl c order = Ok tbl /\
    c_leaves c = [(id, elements (c_shape c))] /\
    map (c_get (CAccess c tbl)) (all_indexes (lens_of (c_shape (CAccess c tbl)))) =
    map (fun k => Some (id, N.of_nat k)) (seq 0 (N.to_nat (elements (c_shape c)))).
Proof.
  intros Hc Hu Hlay. pose proof (ctor_wf v c Hc) as Hw.
  destruct (linear_inv c Hw Hu order Hlay) as [id [Hlv [Ho Hg]]].
  destruct (cwf_contract c Hw Hu) as [[Hnd _] _].
  split; [exact Ho|]. exists id.
  assert (Hl : length order = length (c_shape c))
    by (rewrite (Permutation_length Ho); apply names_of_length).
  assert (Hp : Permutation (names_of (c_shape c)) order) by (symmetry; exact Ho).
  destruct (dm_new (names_of (c_shape c)) order) as [tbl|] eqn:Hnew.
  2:{ exfalso. apply (proj2 (dm_new_iff_perm _ order Hnd ltac:(rewrite names_of_length; exact Hl)) Hp).
      exact Hnew. }
  exists tbl. split; [|split; [exact Hlv|]].
  - unfold access_tbl. rewrite Hl, Nat.eqb_refl. cbn [negb]. rewrite Hnew. reflexivity.
  - cbn [c_shape]. rewrite (msr_is_shape_by_name _ _ _ Hnd Hl Hnew), lens_of_shape_by_name.
    assert (Hel : elements (c_shape c) = prod (lens_by_name (c_shape c) order)).
    { unfold elements. rewrite <- (lens_self _ Hnd). unfold lens_by_name. apply prod_perm.
      apply Permutation_map. exact Hp. }
    rewrite Hel, <- all_indexes_rowmajor. apply map_ext_in. intros idx Hin.
    cbn [c_get]. rewrite (map_to_source_by_name _ _ _ _ Hnd Hl Hnew). apply Hg.
    destruct (all_indexes_flat (lens_by_name (c_shape c) order)) as [_ HF].
    rewrite Forall_forall in HF. apply HF in Hin. apply in_range_length in Hin.
    unfold lens_by_name in Hin. rewrite map_length in Hin. lia.
Qed.
