(* C03: tensor and matrix arithmetic.  Specification-level notions (the element of an operand
   at an index, well-formed views, textbook sums) and the proofs that the transcribed operator
   implementations of Model/Arith.v compute them, for every shape and every operand form. *)
From Coq Require Import List ZArith NArith Bool Arith Lia Ring_theory.
From EasyML Require Import Base.Sx Model.Shape Model.Tensor Model.Num Model.Arith
     Proofs.ShapeP Proofs.C01P.
Import ListNotations.
Open Scope N_scope.

(* ================================================================ lists *)

Lemma nth_error_ext {X} (l1 l2 : list X) :
  (forall k, nth_error l1 k = nth_error l2 k) -> l1 = l2.
Proof.
  revert l2; induction l1 as [|a l1 IH]; intros [|b l2] H.
  - reflexivity.
  - specialize (H 0%nat). discriminate.
  - specialize (H 0%nat). discriminate.
  - pose proof (H 0%nat) as H0. cbn in H0. injection H0 as ->. f_equal.
    apply IH. intros k. exact (H (S k)).
Qed.

Lemma nth_error_map' {X Y} (f : X -> Y) l k :
  nth_error (map f l) k = option_map f (nth_error l k).
Proof. revert k; induction l as [|a l IH]; intros [|k]; cbn; auto. Qed.

Lemma map2_length {X Y Z} (f : X -> Y -> Z) l1 l2 :
  length (map2 f l1 l2) = Nat.min (length l1) (length l2).
Proof. revert l2; induction l1 as [|a l1 IH]; intros [|b l2]; cbn; auto. Qed.

Lemma map2_nth {X Y Z} (f : X -> Y -> Z) l1 l2 k a b :
  nth_error l1 k = Some a -> nth_error l2 k = Some b ->
  nth_error (map2 f l1 l2) k = Some (f a b).
Proof.
  revert l2 k; induction l1 as [|x l1 IH]; intros [|y l2] [|k]; cbn; try discriminate.
  - intros [= ->] [= ->]. reflexivity.
  - apply IH.
Qed.

Lemma map2_map {X Y Z W} (f : Y -> Z -> W) (g : X -> Y) (h : X -> Z) l :
  map2 f (map g l) (map h l) = map (fun x => f (g x) (h x)) l.
Proof. induction l as [|a l IH]; cbn; [reflexivity|]. f_equal. exact IH. Qed.

Lemma nth_error_flat_map_uniform {X Y} (g : X -> list Y) (P : nat) xs :
  (forall x, In x xs -> length (g x) = P) ->
  forall i k x, nth_error xs i = Some x -> (k < P)%nat ->
  nth_error (flat_map g xs) (i * P + k) = nth_error (g x) k.
Proof.
  induction xs as [|a xs IH]; intros HP i k x Hi Hk.
  - destruct i; discriminate.
  - cbn [flat_map]. destruct i as [|i]; cbn [nth_error] in Hi.
    + injection Hi as ->. cbn [Nat.mul Nat.add].
      apply nth_error_app1. rewrite HP by (left; reflexivity). exact Hk.
    + rewrite nth_error_app2 by (rewrite HP by (left; reflexivity); cbn; lia).
      rewrite HP by (left; reflexivity).
      replace (S i * P + k - P)%nat with (i * P + k)%nat by (cbn; lia).
      apply IH; auto. intros y Hy. apply HP. right. exact Hy.
Qed.

Lemma flat_map_length_uniform {X Y} (g : X -> list Y) (P : nat) xs :
  (forall x, In x xs -> length (g x) = P) -> length (flat_map g xs) = (length xs * P)%nat.
Proof.
  induction xs as [|a xs IH]; intros HP; cbn [flat_map length]; [reflexivity|].
  rewrite app_length, HP by (left; reflexivity). rewrite IH by (intros y Hy; apply HP; right; exact Hy).
  cbn. reflexivity.
Qed.

(* ---- nrange ---- *)
Lemma nrange_length n : length (nrange n) = N.to_nat n.
Proof. unfold nrange. rewrite map_length, seq_length. reflexivity. Qed.

Lemma nrange_nth n i : i < n -> nth_error (nrange n) (N.to_nat i) = Some i.
Proof.
  intros H. unfold nrange. rewrite nth_error_map'.
  rewrite (nth_error_nth' _ 0%nat) by (rewrite seq_length; lia).
  rewrite seq_nth by lia. cbn. f_equal. lia.
Qed.

Lemma in_nrange n i : In i (nrange n) <-> i < n.
Proof.
  unfold nrange. rewrite in_map_iff. split.
  - intros [k [<- Hk]]. apply in_seq in Hk. lia.
  - intros H. exists (N.to_nat i). split; [lia|]. apply in_seq. lia.
Qed.

(* ================================================================ the index walk *)

Lemma all_indexes_length lens : length (all_indexes lens) = N.to_nat (prod lens).
Proof.
  induction lens as [|l lens IH]; [reflexivity|].
  cbn [all_indexes]. rewrite (flat_map_length_uniform _ (N.to_nat (prod lens))).
  - rewrite nrange_length, prod_cons. lia.
  - intros i _. rewrite map_length. exact IH.
Qed.

Lemma all_indexes_in_range lens idx : In idx (all_indexes lens) -> in_range idx lens.
Proof.
  revert idx; induction lens as [|l lens IH]; intros idx; cbn [all_indexes].
  - intros [<-|[]]. exact I.
  - rewrite in_flat_map. intros [i [Hi Hin]]. apply in_map_iff in Hin.
    destruct Hin as [r [<- Hr]]. cbn [in_range]. split; [apply in_nrange, Hi|apply IH, Hr].
Qed.

(* the walk visits the index tuples in row-major order: position = flattened index *)
Lemma all_indexes_nth idx : forall lens, in_range idx lens ->
  nth_error (all_indexes lens) (N.to_nat (flat idx lens)) = Some idx.
Proof.
  induction idx as [|i idx IH]; intros [|l lens]; cbn [in_range]; try tauto;
    try (intros _; reflexivity).
  - intros [Hi Hr]. cbn [flat all_indexes].
    pose proof (flat_lt idx lens Hr) as Hlt.
    replace (N.to_nat (i * prod lens + flat idx lens))
      with (N.to_nat i * N.to_nat (prod lens) + N.to_nat (flat idx lens))%nat by lia.
    rewrite nth_error_flat_map_uniform with (x := i).
    + rewrite nth_error_map', IH by exact Hr. reflexivity.
    + intros x _. rewrite map_length. apply all_indexes_length.
    + apply nrange_nth, Hi.
    + lia.
Qed.

Lemma all_indexes_onto lens k : Forall (fun l => 0 < l) lens -> (k < N.to_nat (prod lens))%nat ->
  exists idx, in_range idx lens /\ flat idx lens = N.of_nat k /\
              nth_error (all_indexes lens) k = Some idx.
Proof.
  intros Hpos Hk. destruct (flat_onto lens Hpos (N.of_nat k)) as [idx [Hr Hf]]; [lia|].
  exists idx. repeat split; auto.
  pose proof (all_indexes_nth idx lens Hr) as H. rewrite Hf in H.
  rewrite Nat2N.id in H. exact H.
Qed.

Lemma all_indexes_2 m k :
  all_indexes [m; k] = flat_map (fun i => map (fun j => [i; j]) (nrange k)) (nrange m).
Proof.
  cbn [all_indexes]. apply flat_map_ext. intros i. rewrite flat_map_concat_map.
  induction (nrange k) as [|j r IH]; cbn; [reflexivity|]. f_equal. exact IH.
Qed.

(* ================================================================ shapes *)

Lemma shape_eqb_spec a b : shape_eqb a b = true <-> a = b.
Proof.
  revert b; induction a as [|[n l] a IH]; intros [|[n' l'] b]; cbn [shape_eqb];
    try (split; [discriminate|discriminate]); try tauto.
  unfold dim_eqb. cbn [fst snd]. rewrite !andb_true_iff, Nat.eqb_eq, N.eqb_eq, IH.
  split; [intros [[-> ->] ->]; reflexivity|intros [= -> -> ->]; auto].
Qed.

Lemma shape_eqb_false a b : shape_eqb a b = false <-> a <> b.
Proof.
  destruct (shape_eqb a b) eqn:E.
  - apply shape_eqb_spec in E. split; [discriminate|tauto].
  - split; [|reflexivity]. intros _ H. apply shape_eqb_spec in H. congruence.
Qed.

(* ================================================================ views and operands *)
Section Views.
Context {A : Type}.

(* the view answers every in-range index, its shape is a valid shape that fits a usize *)
Definition view_wf (v : tview A) : Prop :=
  valid_shape (v_shape v) /\ elements (v_shape v) <= usize_max /\
  forall idx, in_range idx (lens_of (v_shape v)) -> exists x, v_get v idx = Some x.

Definition operand_wf (o : operand A) : Prop :=
  match o with
  | OT t => tensor_inv t /\ elements (t_shape t) <= usize_max
  | OV v => view_wf v
  end.

(* the element of an operand at an index (its get_reference) *)
Definition op_at (o : operand A) (idx : list N) : option A :=
  match o with OT t => t_get t idx | OV v => v_get v idx end.

Lemma t_get_flat (t : tensor A) idx : tensor_inv t -> in_range idx (lens_of (t_shape t)) ->
  t_get t idx = nth_error (t_data t) (N.to_nat (flat idx (lens_of (t_shape t)))).
Proof.
  intros [Hv [Hs Hl]] Hr. unfold t_get. rewrite Hs.
  rewrite get_index_direct_spec.
  - apply in_range_b_spec in Hr. rewrite Hr. reflexivity.
  - apply in_range_length in Hr. unfold lens_of in Hr. rewrite map_length in Hr. exact Hr.
Qed.

Lemma t_get_present (t : tensor A) idx : tensor_inv t -> in_range idx (lens_of (t_shape t)) ->
  exists x, t_get t idx = Some x.
Proof.
  intros Hinv Hr. rewrite t_get_flat by assumption. apply nth_error_lt_Some.
  destruct Hinv as [_ [_ Hl]]. pose proof (flat_lt _ _ Hr) as H. unfold elements in Hl. lia.
Qed.

Lemma tensor_view_wf (t : tensor A) : tensor_inv t -> elements (t_shape t) <= usize_max ->
  view_wf (view_of_tensor t).
Proof.
  intros Hinv Hb. split; [apply Hinv|]. split; [exact Hb|].
  intros idx Hr. apply t_get_present; assumption.
Qed.

Lemma view_elems_Some (v : tview A) : view_wf v -> exists l, view_elems v = Some l.
Proof.
  intros [_ [_ Hg]]. unfold view_elems.
  destruct (sequence _) as [l|] eqn:E; [eauto|]. exfalso.
  apply sequence_None_iff in E. apply in_map_iff in E. destruct E as [idx [E Hin]].
  apply all_indexes_in_range in Hin. destruct (Hg idx Hin) as [x Hx]. congruence.
Qed.

Lemma view_elems_length (v : tview A) l : view_elems v = Some l ->
  length l = N.to_nat (elements (v_shape v)).
Proof.
  unfold view_elems. intros H. apply sequence_Some in H.
  apply (f_equal (@length _)) in H. rewrite !map_length, all_indexes_length in H.
  symmetry. exact H.
Qed.

(* the k'th item produced by iter_reference() is the element at the k'th row-major index *)
Lemma view_elems_nth (v : tview A) l idx : view_elems v = Some l ->
  in_range idx (lens_of (v_shape v)) ->
  nth_error l (N.to_nat (flat idx (lens_of (v_shape v)))) = v_get v idx.
Proof.
  unfold view_elems. intros H Hr. apply sequence_Some in H.
  apply (f_equal (fun l => nth_error l (N.to_nat (flat idx (lens_of (v_shape v)))))) in H.
  rewrite !nth_error_map', all_indexes_nth in H by exact Hr. cbn [option_map] in H.
  destruct (nth_error l _) as [x|]; cbn [option_map] in H; congruence.
Qed.

(* why the direct_iter_reference shortcut is sound for a Tensor: its storage order IS its view
   order *)
Theorem direct_iter_is_view_order (t : tensor A) : tensor_inv t ->
  view_elems (view_of_tensor t) = Some (t_data t).
Proof.
  intros Hinv. unfold view_elems. apply sequence_Some. apply nth_error_ext. intros k.
  cbn [view_of_tensor v_shape v_get].
  pose proof Hinv as [Hv [Hs Hl]].
  destruct (Nat.lt_ge_cases k (length (t_data t))) as [Hk|Hk].
  - destruct (all_indexes_onto (lens_of (t_shape t)) k) as [idx [Hr [Hf Hn]]];
      [apply Hv|unfold elements in Hl; lia|].
    rewrite !nth_error_map', Hn. cbn [option_map].
    rewrite t_get_flat by assumption. rewrite Hf, Nat2N.id.
    destruct (nth_error_lt_Some (t_data t) k Hk) as [x Hx]. rewrite Hx. reflexivity.
  - rewrite !nth_error_map'.
    replace (nth_error (t_data t) k) with (@None A) by (symmetry; apply nth_error_None; exact Hk).
    replace (nth_error (all_indexes (lens_of (t_shape t))) k) with (@None (list N)); [reflexivity|].
    symmetry. apply nth_error_None. rewrite all_indexes_length. unfold elements in Hl. lia.
Qed.

(* what every operator impl reads from an operand *)
Lemma op_iter_spec (o : operand A) : operand_wf o ->
  exists l, op_iter o = Some l /\ length l = N.to_nat (elements (op_shape o)) /\
    forall idx, in_range idx (lens_of (op_shape o)) ->
      nth_error l (N.to_nat (flat idx (lens_of (op_shape o)))) = op_at o idx /\
      exists x, op_at o idx = Some x.
Proof.
  destruct o as [t|v]; cbn [operand_wf op_iter op_shape op_at].
  - intros [Hinv Hb]. exists (t_data t). split; [reflexivity|]. split.
    + destruct Hinv as [_ [_ Hl]]. lia.
    + intros idx Hr. split; [symmetry; apply t_get_flat; assumption|apply t_get_present; assumption].
  - intros Hwf. destruct (view_elems_Some v Hwf) as [l Hl]. exists l. split; [exact Hl|]. split.
    + apply view_elems_length, Hl.
    + intros idx Hr. split; [apply view_elems_nth; assumption|apply Hwf, Hr].
Qed.

Lemma op_shape_valid (o : operand A) : operand_wf o ->
  valid_shape (op_shape o) /\ elements (op_shape o) <= usize_max.
Proof. destruct o as [t|v]; cbn; [intros [[Hv _] Hb]; auto|intros [Hv [Hb _]]; auto]. Qed.

(* a container holding a view's elements in view order is indistinguishable from the view *)
Theorem container_is_view (v : tview A) l m : view_wf v -> view_elems v = Some l ->
  tensor_from (v_shape v) l = Ok m ->
  op_shape (OT m) = op_shape (OV v) /\ op_iter (OT m) = op_iter (OV v) /\ tensor_inv m /\
  forall idx, in_range idx (lens_of (v_shape v)) -> op_at (OT m) idx = op_at (OV v) idx.
Proof.
  intros Hwf Hl Hm. apply from_agrees in Hm. destruct (try_from_inv _ _ _ Hm) as [Hinv [Hs Hd]].
  cbn [op_shape op_iter op_at]. repeat split; auto; try apply Hinv; try congruence.
  intros idx Hr. rewrite t_get_flat by (auto; rewrite Hs; exact Hr).
  rewrite Hs, Hd. apply view_elems_nth; assumption.
Qed.

(* ================================================================ elementwise *)

Lemma tensor_from_ok sh (data : list A) : valid_shape sh -> elements sh <= usize_max ->
  length data = N.to_nat (elements sh) ->
  tensor_from sh data = Ok (mkTensor data sh (compute_strides sh)) /\
  tensor_inv (mkTensor data sh (compute_strides sh)).
Proof.
  intros Hv Hb Hl. unfold tensor_from.
  assert (E : validate_dimensions sh (N.of_nat (length data)) = true)
    by (apply validate_dimensions_spec; repeat split; try apply Hv; auto; lia).
  rewrite E. split; [reflexivity|]. split; [exact Hv|]. split; [reflexivity|]. cbn [t_data t_shape]. lia.
Qed.

Theorem zip_with_ok (f : A -> A -> A) x y : operand_wf x -> operand_wf y ->
  op_shape x = op_shape y ->
  exists t, t_zip_with f x y = Ok t /\ t_shape t = op_shape x /\ tensor_inv t /\
    forall idx, in_range idx (lens_of (op_shape x)) ->
      exists a b, op_at x idx = Some a /\ op_at y idx = Some b /\ t_get t idx = Some (f a b).
Proof.
  intros Hx Hy Hs. unfold t_zip_with.
  assert (E : shape_eqb (op_shape x) (op_shape y) = true) by (apply shape_eqb_spec, Hs). rewrite E.
  destruct (op_iter_spec x Hx) as [lx [Ex [Lx Nx]]].
  destruct (op_iter_spec y Hy) as [ly [Ey [Ly Ny]]]. rewrite Ex, Ey.
  destruct (op_shape_valid x Hx) as [Hv Hb].
  destruct (tensor_from_ok (op_shape x) (map2 f lx ly) Hv Hb) as [Ht Hinv].
  { rewrite map2_length, Lx, Ly, <- Hs. lia. }
  eexists. split; [exact Ht|]. split; [reflexivity|]. split; [exact Hinv|].
  intros idx Hr. destruct (Nx idx Hr) as [Na [a Ha]].
  rewrite <- Hs in Ny. destruct (Ny idx Hr) as [Nb [b Hb']].
  exists a, b. repeat split; auto.
  rewrite t_get_flat by (auto). cbn [t_data t_shape].
  apply map2_nth; congruence.
Qed.

Theorem zip_with_reject (f : A -> A -> A) x y : op_shape x <> op_shape y ->
  t_zip_with f x y = Panic.
Proof. intros H. unfold t_zip_with. apply shape_eqb_false in H. rewrite H. reflexivity. Qed.

Theorem zip_with_value_shapes (f : A -> A -> A) x y t : t_zip_with f x y = Ok t ->
  op_shape x = op_shape y.
Proof.
  unfold t_zip_with. destruct (shape_eqb _ _) eqn:E; [|discriminate]. intros _.
  apply shape_eqb_spec, E.
Qed.

(* ================================================================ map (scalars, negation) *)

Theorem map_ok (f : A -> A) x : operand_wf x ->
  exists t, t_map f x = Ok t /\ t_shape t = op_shape x /\ tensor_inv t /\
    forall idx, in_range idx (lens_of (op_shape x)) ->
      exists a, op_at x idx = Some a /\ t_get t idx = Some (f a).
Proof.
  destruct x as [t|v]; cbn [operand_wf t_map op_shape op_at].
  - intros [Hinv Hb]. eexists. split; [reflexivity|]. split; [reflexivity|].
    assert (Hinv' : tensor_inv (mkTensor (map f (t_data t)) (t_shape t) (t_strides t))).
    { destruct Hinv as [Hv [Hs Hl]]. repeat split; try apply Hv; auto. cbn. rewrite map_length. exact Hl. }
    split; [exact Hinv'|]. intros idx Hr.
    destruct (t_get_present t idx Hinv Hr) as [a Ha]. exists a. split; [exact Ha|].
    rewrite t_get_flat by assumption. cbn [t_data t_shape].
    rewrite nth_error_map'. rewrite <- t_get_flat by assumption. rewrite Ha. reflexivity.
  - intros Hwf. destruct (view_elems_Some v Hwf) as [l Hl]. rewrite Hl.
    destruct Hwf as [Hv [Hb Hg]].
    destruct (tensor_from_ok (v_shape v) (map f l) Hv Hb) as [Ht Hinv].
    { rewrite map_length. apply view_elems_length, Hl. }
    eexists. split; [exact Ht|]. split; [reflexivity|]. split; [exact Hinv|].
    intros idx Hr. destruct (Hg idx Hr) as [a Ha]. exists a. split; [exact Ha|].
    rewrite t_get_flat by auto. cbn [t_data t_shape]. rewrite nth_error_map'.
    rewrite (view_elems_nth v l idx Hl Hr), Ha. reflexivity.
Qed.

End Views.
