(* C03: tensor and matrix arithmetic.  Specification-level notions (the element of an operand
   at an index, well-formed views, textbook sums) and the proofs that the transcribed operator
   implementations of Model/Arith.v compute them, for every shape and every operand form. *)
From Coq Require Import List ZArith NArith Bool Arith Lia Ring_theory.
From EasyML Require Import Base.Sx Model.Shape Model.Tensor Model.Num Model.Arith
     Proofs.ShapeP Proofs.C01P.
Import ListNotations.
Open Scope N_scope.

(* ================================================================ lists *)

Lemma nth_error_ext {X} (l1 l2 : list X) :
  (forall k, nth_error l1 k = nth_error l2 k) -> l1 = l2.
Proof.
  revert l2; induction l1 as [|a l1 IH]; intros [|b l2] H.
  - reflexivity.
  - specialize (H 0%nat). discriminate.
  - specialize (H 0%nat). discriminate.
  - pose proof (H 0%nat) as H0. cbn in H0. injection H0 as ->. f_equal.
    apply IH. intros k. exact (H (S k)).
Qed.

Lemma nth_error_map' {X Y} (f : X -> Y) l k :
  nth_error (map f l) k = option_map f (nth_error l k).
Proof. revert k; induction l as [|a l IH]; intros [|k]; cbn; auto. Qed.

Lemma map2_length {X Y Z} (f : X -> Y -> Z) l1 l2 :
  length (map2 f l1 l2) = Nat.min (length l1) (length l2).
Proof. revert l2; induction l1 as [|a l1 IH]; intros [|b l2]; cbn; auto. Qed.

Lemma map2_nth {X Y Z} (f : X -> Y -> Z) l1 l2 k a b :
  nth_error l1 k = Some a -> nth_error l2 k = Some b ->
  nth_error (map2 f l1 l2) k = Some (f a b).
Proof.
  revert l2 k; induction l1 as [|x l1 IH]; intros [|y l2] [|k]; cbn; try discriminate.
  - intros [= ->] [= ->]. reflexivity.
  - apply IH.
Qed.

Lemma map2_map {X Y Z W} (f : Y -> Z -> W) (g : X -> Y) (h : X -> Z) l :
  map2 f (map g l) (map h l) = map (fun x => f (g x) (h x)) l.
Proof. induction l as [|a l IH]; cbn; [reflexivity|]. f_equal. exact IH. Qed.

Lemma nth_error_flat_map_uniform {X Y} (g : X -> list Y) (P : nat) xs :
  (forall x, In x xs -> length (g x) = P) ->
  forall i k x, nth_error xs i = Some x -> (k < P)%nat ->
  nth_error (flat_map g xs) (i * P + k) = nth_error (g x) k.
Proof.
  induction xs as [|a xs IH]; intros HP i k x Hi Hk.
  - destruct i; discriminate.
  - cbn [flat_map]. destruct i as [|i]; cbn [nth_error] in Hi.
    + injection Hi as ->. cbn [Nat.mul Nat.add].
      apply nth_error_app1. rewrite HP by (left; reflexivity). exact Hk.
    + rewrite nth_error_app2 by (rewrite HP by (left; reflexivity); cbn; lia).
      rewrite HP by (left; reflexivity).
      replace (S i * P + k - P)%nat with (i * P + k)%nat by (cbn; lia).
      apply IH; auto. intros y Hy. apply HP. right. exact Hy.
Qed.

Lemma flat_map_length_uniform {X Y} (g : X -> list Y) (P : nat) xs :
  (forall x, In x xs -> length (g x) = P) -> length (flat_map g xs) = (length xs * P)%nat.
Proof.
  induction xs as [|a xs IH]; intros HP; cbn [flat_map length]; [reflexivity|].
  rewrite app_length, HP by (left; reflexivity). rewrite IH by (intros y Hy; apply HP; right; exact Hy).
  cbn. reflexivity.
Qed.

(* ---- nrange ---- *)
Lemma nrange_length n : length (nrange n) = N.to_nat n.
Proof. unfold nrange. rewrite map_length, seq_length. reflexivity. Qed.

Lemma nrange_nth n i : i < n -> nth_error (nrange n) (N.to_nat i) = Some i.
Proof.
  intros H. unfold nrange. rewrite nth_error_map'.
  rewrite (nth_error_nth' _ 0%nat) by (rewrite seq_length; lia).
  rewrite seq_nth by lia. cbn. f_equal. lia.
Qed.

Lemma in_nrange n i : In i (nrange n) <-> i < n.
Proof.
  unfold nrange. rewrite in_map_iff. split.
  - intros [k [<- Hk]]. apply in_seq in Hk. lia.
  - intros H. exists (N.to_nat i). split; [lia|]. apply in_seq. lia.
Qed.

(* ================================================================ the index walk *)

Lemma all_indexes_length lens : length (all_indexes lens) = N.to_nat (prod lens).
Proof.
  induction lens as [|l lens IH]; [reflexivity|].
  cbn [all_indexes]. rewrite (flat_map_length_uniform _ (N.to_nat (prod lens))).
  - rewrite nrange_length, prod_cons. lia.
  - intros i _. rewrite map_length. exact IH.
Qed.

Lemma all_indexes_in_range lens idx : In idx (all_indexes lens) -> in_range idx lens.
Proof.
  revert idx; induction lens as [|l lens IH]; intros idx; cbn [all_indexes].
  - intros [<-|[]]. exact I.
  - rewrite in_flat_map. intros [i [Hi Hin]]. apply in_map_iff in Hin.
    destruct Hin as [r [<- Hr]]. cbn [in_range]. split; [apply in_nrange, Hi|apply IH, Hr].
Qed.

(* the walk visits the index tuples in row-major order: position = flattened index *)
Lemma all_indexes_nth idx : forall lens, in_range idx lens ->
  nth_error (all_indexes lens) (N.to_nat (flat idx lens)) = Some idx.
Proof.
  induction idx as [|i idx IH]; intros [|l lens]; cbn [in_range]; try tauto;
    try (intros _; reflexivity).
  - intros [Hi Hr]. cbn [flat all_indexes].
    pose proof (flat_lt idx lens Hr) as Hlt.
    replace (N.to_nat (i * prod lens + flat idx lens))
      with (N.to_nat i * N.to_nat (prod lens) + N.to_nat (flat idx lens))%nat by lia.
    rewrite nth_error_flat_map_uniform with (x := i).
    + rewrite nth_error_map', IH by exact Hr. reflexivity.
    + intros x _. rewrite map_length. apply all_indexes_length.
    + apply nrange_nth, Hi.
    + lia.
Qed.

Lemma all_indexes_onto lens k : Forall (fun l => 0 < l) lens -> (k < N.to_nat (prod lens))%nat ->
  exists idx, in_range idx lens /\ flat idx lens = N.of_nat k /\
              nth_error (all_indexes lens) k = Some idx.
Proof.
  intros Hpos Hk. destruct (flat_onto lens Hpos (N.of_nat k)) as [idx [Hr Hf]]; [lia|].
  exists idx. repeat split; auto.
  pose proof (all_indexes_nth idx lens Hr) as H. rewrite Hf in H.
  rewrite Nat2N.id in H. exact H.
Qed.

Lemma all_indexes_2 m k :
  all_indexes [m; k] = flat_map (fun i => map (fun j => [i; j]) (nrange k)) (nrange m).
Proof.
  cbn [all_indexes]. apply flat_map_ext. intros i. rewrite flat_map_concat_map.
  induction (nrange k) as [|j r IH]; cbn; [reflexivity|]. f_equal. exact IH.
Qed.

(* ================================================================ shapes *)

Lemma shape_eqb_spec a b : shape_eqb a b = true <-> a = b.
Proof.
  revert b; induction a as [|[n l] a IH]; intros [|[n' l'] b]; cbn [shape_eqb];
    try (split; [discriminate|discriminate]); try tauto.
  unfold dim_eqb. cbn [fst snd]. rewrite !andb_true_iff, Nat.eqb_eq, N.eqb_eq, IH.
  split; [intros [[-> ->] ->]; reflexivity|intros [= -> -> ->]; auto].
Qed.

Lemma shape_eqb_false a b : shape_eqb a b = false <-> a <> b.
Proof.
  destruct (shape_eqb a b) eqn:E.
  - apply shape_eqb_spec in E. split; [discriminate|tauto].
  - split; [|reflexivity]. intros _ H. apply shape_eqb_spec in H. congruence.
Qed.

(* ================================================================ views and operands *)
Section Views.
Context {A : Type}.

(* the view answers every in-range index, its shape is a valid shape that fits a usize *)
Definition view_wf (v : tview A) : Prop :=
  valid_shape (v_shape v) /\ elements (v_shape v) <= usize_max /\
  forall idx, in_range idx (lens_of (v_shape v)) -> exists x, v_get v idx = Some x.

Definition operand_wf (o : operand A) : Prop :=
  match o with
  | OT t => tensor_inv t /\ elements (t_shape t) <= usize_max
  | OV v => view_wf v
  end.

(* the element of an operand at an index (its get_reference) *)
Definition op_at (o : operand A) (idx : list N) : option A :=
  match o with OT t => t_get t idx | OV v => v_get v idx end.

Lemma t_get_flat (t : tensor A) idx : tensor_inv t -> in_range idx (lens_of (t_shape t)) ->
  t_get t idx = nth_error (t_data t) (N.to_nat (flat idx (lens_of (t_shape t)))).
Proof.
  intros [Hv [Hs Hl]] Hr. unfold t_get. rewrite Hs.
  rewrite get_index_direct_spec.
  - apply in_range_b_spec in Hr. rewrite Hr. reflexivity.
  - apply in_range_length in Hr. unfold lens_of in Hr. rewrite map_length in Hr. exact Hr.
Qed.

Lemma t_get_present (t : tensor A) idx : tensor_inv t -> in_range idx (lens_of (t_shape t)) ->
  exists x, t_get t idx = Some x.
Proof.
  intros Hinv Hr. rewrite t_get_flat by assumption. apply nth_error_lt_Some.
  destruct Hinv as [_ [_ Hl]]. pose proof (flat_lt _ _ Hr) as H. unfold elements in Hl. lia.
Qed.

Lemma tensor_view_wf (t : tensor A) : tensor_inv t -> elements (t_shape t) <= usize_max ->
  view_wf (view_of_tensor t).
Proof.
  intros Hinv Hb. split; [apply Hinv|]. split; [exact Hb|].
  intros idx Hr. apply t_get_present; assumption.
Qed.

Lemma view_elems_Some (v : tview A) : view_wf v -> exists l, view_elems v = Some l.
Proof.
  intros [_ [_ Hg]]. unfold view_elems.
  destruct (sequence _) as [l|] eqn:E; [eauto|]. exfalso.
  apply sequence_None_iff in E. apply in_map_iff in E. destruct E as [idx [E Hin]].
  apply all_indexes_in_range in Hin. destruct (Hg idx Hin) as [x Hx]. congruence.
Qed.

Lemma view_elems_length (v : tview A) l : view_elems v = Some l ->
  length l = N.to_nat (elements (v_shape v)).
Proof.
  unfold view_elems. intros H. apply sequence_Some in H.
  apply (f_equal (@length _)) in H. rewrite !map_length, all_indexes_length in H.
  symmetry. exact H.
Qed.

(* the k'th item produced by iter_reference() is the element at the k'th row-major index *)
Lemma view_elems_nth (v : tview A) l idx : view_elems v = Some l ->
  in_range idx (lens_of (v_shape v)) ->
  nth_error l (N.to_nat (flat idx (lens_of (v_shape v)))) = v_get v idx.
Proof.
  unfold view_elems. intros H Hr. apply sequence_Some in H.
  apply (f_equal (fun l => nth_error l (N.to_nat (flat idx (lens_of (v_shape v)))))) in H.
  rewrite !nth_error_map', all_indexes_nth in H by exact Hr. cbn [option_map] in H.
  destruct (nth_error l _) as [x|]; cbn [option_map] in H; congruence.
Qed.

(* why the direct_iter_reference shortcut is sound for a Tensor: its storage order IS its view
   order *)
Theorem direct_iter_is_view_order (t : tensor A) : tensor_inv t ->
  view_elems (view_of_tensor t) = Some (t_data t).
Proof.
  intros Hinv. unfold view_elems. apply sequence_Some. apply nth_error_ext. intros k.
  cbn [view_of_tensor v_shape v_get].
  pose proof Hinv as [Hv [Hs Hl]].
  destruct (Nat.lt_ge_cases k (length (t_data t))) as [Hk|Hk].
  - destruct (all_indexes_onto (lens_of (t_shape t)) k) as [idx [Hr [Hf Hn]]];
      [apply Hv|unfold elements in Hl; lia|].
    rewrite !nth_error_map', Hn. cbn [option_map].
    rewrite t_get_flat by assumption. rewrite Hf, Nat2N.id.
    destruct (nth_error_lt_Some (t_data t) k Hk) as [x Hx]. rewrite Hx. reflexivity.
  - rewrite !nth_error_map'.
    replace (nth_error (t_data t) k) with (@None A) by (symmetry; apply nth_error_None; exact Hk).
    replace (nth_error (all_indexes (lens_of (t_shape t))) k) with (@None (list N)); [reflexivity|].
    symmetry. apply nth_error_None. rewrite all_indexes_length. unfold elements in Hl. lia.
Qed.

(* what every operator impl reads from an operand *)
Lemma op_iter_spec (o : operand A) : operand_wf o ->
  exists l, op_iter o = Some l /\ length l = N.to_nat (elements (op_shape o)) /\
    forall idx, in_range idx (lens_of (op_shape o)) ->
      nth_error l (N.to_nat (flat idx (lens_of (op_shape o)))) = op_at o idx /\
      exists x, op_at o idx = Some x.
Proof.
  destruct o as [t|v]; cbn [operand_wf op_iter op_shape op_at].
  - intros [Hinv Hb]. exists (t_data t). split; [reflexivity|]. split.
    + destruct Hinv as [_ [_ Hl]]. lia.
    + intros idx Hr. split; [symmetry; apply t_get_flat; assumption|apply t_get_present; assumption].
  - intros Hwf. destruct (view_elems_Some v Hwf) as [l Hl]. exists l. split; [exact Hl|]. split.
    + apply view_elems_length, Hl.
    + intros idx Hr. split; [apply view_elems_nth; assumption|apply Hwf, Hr].
Qed.

Lemma op_shape_valid (o : operand A) : operand_wf o ->
  valid_shape (op_shape o) /\ elements (op_shape o) <= usize_max.
Proof. destruct o as [t|v]; cbn; [intros [[Hv _] Hb]; auto|intros [Hv [Hb _]]; auto]. Qed.

(* a container holding a view's elements in view order is indistinguishable from the view *)
Theorem container_is_view (v : tview A) l m : view_wf v -> view_elems v = Some l ->
  tensor_from (v_shape v) l = Ok m ->
  op_shape (OT m) = op_shape (OV v) /\ op_iter (OT m) = op_iter (OV v) /\ tensor_inv m /\
  forall idx, in_range idx (lens_of (v_shape v)) -> op_at (OT m) idx = op_at (OV v) idx.
Proof.
  intros Hwf Hl Hm. apply from_agrees in Hm. destruct (try_from_inv _ _ _ Hm) as [Hinv [Hs Hd]].
  cbn [op_shape op_iter op_at]. repeat split; auto; try apply Hinv; try congruence.
  intros idx Hr. rewrite t_get_flat by (auto; rewrite Hs; exact Hr).
  rewrite Hs, Hd. apply view_elems_nth; assumption.
Qed.

(* ================================================================ elementwise *)

Lemma tensor_from_ok sh (data : list A) : valid_shape sh -> elements sh <= usize_max ->
  length data = N.to_nat (elements sh) ->
  tensor_from sh data = Ok (mkTensor data sh (compute_strides sh)) /\
  tensor_inv (mkTensor data sh (compute_strides sh)).
Proof.
  intros Hv Hb Hl. unfold tensor_from.
  assert (E : validate_dimensions sh (N.of_nat (length data)) = true)
    by (apply validate_dimensions_spec; repeat split; try apply Hv; auto; lia).
  rewrite E. split; [reflexivity|]. split; [exact Hv|]. split; [reflexivity|]. cbn [t_data t_shape]. lia.
Qed.

Theorem zip_with_ok (f : A -> A -> A) x y : operand_wf x -> operand_wf y ->
  op_shape x = op_shape y ->
  exists t, t_zip_with f x y = Ok t /\ t_shape t = op_shape x /\ tensor_inv t /\
    forall idx, in_range idx (lens_of (op_shape x)) ->
      exists a b, op_at x idx = Some a /\ op_at y idx = Some b /\ t_get t idx = Some (f a b).
Proof.
  intros Hx Hy Hs. unfold t_zip_with.
  assert (E : shape_eqb (op_shape x) (op_shape y) = true) by (apply shape_eqb_spec, Hs). rewrite E.
  destruct (op_iter_spec x Hx) as [lx [Ex [Lx Nx]]].
  destruct (op_iter_spec y Hy) as [ly [Ey [Ly Ny]]]. rewrite Ex, Ey.
  destruct (op_shape_valid x Hx) as [Hv Hb].
  destruct (tensor_from_ok (op_shape x) (map2 f lx ly) Hv Hb) as [Ht Hinv].
  { rewrite map2_length, Lx, Ly, <- Hs. lia. }
  eexists. split; [exact Ht|]. split; [reflexivity|]. split; [exact Hinv|].
  intros idx Hr. destruct (Nx idx Hr) as [Na [a Ha]].
  rewrite <- Hs in Ny. destruct (Ny idx Hr) as [Nb [b Hb']].
  exists a, b. repeat split; auto.
  rewrite t_get_flat by (auto). cbn [t_data t_shape].
  apply map2_nth; congruence.
Qed.

Theorem zip_with_reject (f : A -> A -> A) x y : op_shape x <> op_shape y ->
  t_zip_with f x y = Panic.
Proof. intros H. unfold t_zip_with. apply shape_eqb_false in H. rewrite H. reflexivity. Qed.

Theorem zip_with_value_shapes (f : A -> A -> A) x y t : t_zip_with f x y = Ok t ->
  op_shape x = op_shape y.
Proof.
  unfold t_zip_with. destruct (shape_eqb _ _) eqn:E; [|discriminate]. intros _.
  apply shape_eqb_spec, E.
Qed.

(* ================================================================ map (scalars, negation) *)

Theorem map_ok (f : A -> A) x : operand_wf x ->
  exists t, t_map f x = Ok t /\ t_shape t = op_shape x /\ tensor_inv t /\
    forall idx, in_range idx (lens_of (op_shape x)) ->
      exists a, op_at x idx = Some a /\ t_get t idx = Some (f a).
Proof.
  destruct x as [t|v]; cbn [operand_wf t_map op_shape op_at].
  - intros [Hinv Hb]. eexists. split; [reflexivity|]. split; [reflexivity|].
    assert (Hinv' : tensor_inv (mkTensor (map f (t_data t)) (t_shape t) (t_strides t))).
    { destruct Hinv as [Hv [Hs Hl]]. repeat split; try apply Hv; auto. cbn. rewrite map_length. exact Hl. }
    split; [exact Hinv'|]. intros idx Hr.
    destruct (t_get_present t idx Hinv Hr) as [a Ha]. exists a. split; [exact Ha|].
    rewrite t_get_flat by assumption. cbn [t_data t_shape].
    rewrite nth_error_map'. rewrite <- t_get_flat by assumption. rewrite Ha. reflexivity.
  - intros Hwf. destruct (view_elems_Some v Hwf) as [l Hl]. rewrite Hl.
    destruct Hwf as [Hv [Hb Hg]].
    destruct (tensor_from_ok (v_shape v) (map f l) Hv Hb) as [Ht Hinv].
    { rewrite map_length. apply view_elems_length, Hl. }
    eexists. split; [exact Ht|]. split; [reflexivity|]. split; [exact Hinv|].
    intros idx Hr. destruct (Hg idx Hr) as [a Ha]. exists a. split; [exact Ha|].
    rewrite t_get_flat by auto. cbn [t_data t_shape]. rewrite nth_error_map'.
    rewrite (view_elems_nth v l idx Hl Hr), Ha. reflexivity.
Qed.

End Views.

(* ================================================================ sums *)

Lemma otraverse_spec {X Y} (f : X -> outcome Y) l ys :
  otraverse f l = Ok ys <-> map f l = map Ok ys.
Proof.
  revert ys; induction l as [|a l IH]; intros ys; cbn [otraverse map].
  - split; [intros [= <-]; reflexivity|destruct ys; [reflexivity|discriminate]].
  - destruct (f a) as [c|e|]; cbn [obind].
    + destruct (otraverse f l) as [ys'|e|] eqn:E; cbn [omap].
      * split.
        -- intros [= <-]. cbn [map]. f_equal. apply IH. reflexivity.
        -- destruct ys as [|y ys]; [discriminate|]. cbn [map]. intros [= -> H].
           apply IH in H. injection H as ->. reflexivity.
      * split; [discriminate|]. destruct ys as [|y ys]; [discriminate|]. cbn [map].
        intros [= _ H]. apply IH in H. discriminate.
      * split; [discriminate|]. destruct ys as [|y ys]; [discriminate|]. cbn [map].
        intros [= _ H]. apply IH in H. discriminate.
    + split; [discriminate|]. destruct ys; discriminate.
    + split; [discriminate|]. destruct ys; discriminate.
Qed.

Lemma otraverse_total {X Y} (f : X -> outcome Y) l :
  (forall x, In x l -> exists y, f x = Ok y) -> exists ys, otraverse f l = Ok ys.
Proof.
  induction l as [|a l IH]; intros H; cbn [otraverse]; [eauto|].
  destruct (H a (or_introl eq_refl)) as [c ->]. cbn [obind].
  destruct IH as [ys ->]; [intros x Hx; apply H; right; exact Hx|]. cbn [omap]. eauto.
Qed.

Lemma sequence_map_total {X Y} (g : X -> option Y) xs :
  (forall x, In x xs -> exists y, g x = Some y) ->
  exists ys, sequence (map g xs) = Some ys /\ length ys = length xs /\
             forall k x, nth_error xs k = Some x -> nth_error ys k = g x.
Proof.
  intros H. destruct (sequence (map g xs)) as [ys|] eqn:E.
  - exists ys. split; [reflexivity|]. apply sequence_Some in E. split.
    + apply (f_equal (@length _)) in E. rewrite !map_length in E. auto.
    + intros k x Hk. apply (f_equal (fun l => nth_error l k)) in E.
      rewrite !nth_error_map', Hk in E. cbn [option_map] in E.
      destruct (nth_error ys k); cbn [option_map] in E; congruence.
  - exfalso. apply sequence_None_iff in E. apply in_map_iff in E. destruct E as [x [E Hx]].
    destruct (H x Hx) as [y Hy]. congruence.
Qed.

Section Sums.
Context {R : Type} (ops : numops R).

(* the textbook sum of a list, and the textbook dot product *)
Definition sum_list (l : list R) : R := fold_right (nadd ops) (nzero ops) l.
Definition dot_spec (a b : list R) : R := sum_list (map2 (nmul ops) a b).

Hypothesis Rth : ring_theory (nzero ops) (none_ ops) (nadd ops) (nmul ops) (nsub ops) (nneg ops) eq.

Lemma fold_left_add_sum r x : fold_left (nadd ops) r x = nadd ops x (sum_list r).
Proof.
  revert x; induction r as [|y r IH]; intros x; cbn [fold_left sum_list fold_right].
  - rewrite (Radd_comm Rth). symmetry. apply (Radd_0_l Rth).
  - rewrite IH. symmetry. apply (Radd_assoc Rth).
Qed.

(* the left-to-right reduce of the code is the sum, in a commutative ring *)
Lemma reduce_is_sum l : l <> [] -> reduce (nadd ops) l = Some (sum_list l).
Proof.
  destruct l as [|x r]; [congruence|]. intros _. cbn [reduce]. f_equal. apply fold_left_add_sum.
Qed.

Theorem scalar_product_is_dot a b : map2 (nmul ops) a b <> [] ->
  scalar_product ops a b = Ok (dot_spec a b).
Proof. intros H. unfold scalar_product, dot_spec. rewrite reduce_is_sum by exact H. reflexivity. Qed.
End Sums.

(* ================================================================ scalar product, matrix product *)
Section Products.
Context {R : Type} (ops : numops R).

Lemma reduce_Some {X} (f : X -> X -> X) l : l <> [] -> exists r, reduce f l = Some r.
Proof. destruct l; [congruence|]. intros _. cbn. eauto. Qed.

(* Tensor::scalar_product / TensorView::scalar_product on equal 1-dimensional shapes *)
Theorem dot_ok x y nm len : operand_wf x -> operand_wf y ->
  op_shape x = [(nm, len)] -> op_shape y = [(nm, len)] ->
  exists lx ly r, op_iter x = Some lx /\ op_iter y = Some ly /\
    length lx = N.to_nat len /\ length ly = N.to_nat len /\
    (forall i, i < len -> nth_error lx (N.to_nat i) = op_at x [i] /\
                          nth_error ly (N.to_nat i) = op_at y [i]) /\
    reduce (nadd ops) (map2 (nmul ops) lx ly) = Some r /\ t_dot ops x y = Ok r.
Proof.
  intros Hx Hy Sx Sy.
  destruct (op_iter_spec x Hx) as [lx [Ex [Lx Nx]]].
  destruct (op_iter_spec y Hy) as [ly [Ey [Ly Ny]]].
  rewrite Sx in Lx, Nx. rewrite Sy in Ly, Ny.
  assert (Hlen : 0 < len).
  { destruct (op_shape_valid x Hx) as [[_ Hpos] _]. rewrite Sx in Hpos. inversion Hpos; auto. }
  assert (El : elements [(nm, len)] = len) by (unfold elements; cbn; lia).
  rewrite El in Lx, Ly.
  assert (Hne : map2 (nmul ops) lx ly <> []).
  { intros E. apply (f_equal (@length _)) in E. rewrite map2_length, Lx, Ly in E. cbn in E. lia. }
  destruct (reduce_Some (nadd ops) _ Hne) as [r Hr].
  (* the right operand is read as a view: same elements (storage order = view order) *)
  assert (Ey' : view_elems (op_view y) = Some ly).
  { destruct y as [t|v]; cbn [op_view op_iter] in *; [|exact Ey].
    injection Ey as <-. apply direct_iter_is_view_order. apply Hy. }
  exists lx, ly, r. repeat split; auto.
  - assert (Hr' : in_range [i] (lens_of [(nm, len)])) by (cbn; auto).
    destruct (Nx [i] Hr') as [E _]. rewrite <- E. cbn [flat lens_of map snd]. f_equal. cbn. lia.
  - assert (Hr' : in_range [i] (lens_of [(nm, len)])) by (cbn; auto).
    destruct (Ny [i] Hr') as [E _]. rewrite <- E. cbn [flat lens_of map snd]. f_equal. cbn. lia.
  - unfold t_dot. rewrite Sx, Sy.
    assert (E : shape_eqb [(nm, len)] [(nm, len)] = true) by (apply shape_eqb_spec; reflexivity).
    rewrite E, N.eqb_refl, Ex, Ey'. unfold scalar_product. rewrite Hr. reflexivity.
Qed.

Theorem dot_reject x y : op_shape x <> op_shape y -> t_dot ops x y = Panic.
Proof. intros H. unfold t_dot. apply shape_eqb_false in H. rewrite H. reflexivity. Qed.

(* rows and columns of a well-formed 2-dimensional view *)
Lemma select_row_ok (v : tview R) n0 n1 m n i : view_wf v -> v_shape v = [(n0, m); (n1, n)] ->
  i < m -> exists row, select_row v i n = Some row /\ length row = N.to_nat n /\
    forall k, k < n -> nth_error row (N.to_nat k) = v_get v [i; k].
Proof.
  intros [_ [_ Hg]] Hs Hi. unfold select_row.
  destruct (sequence_map_total (fun k => v_get v [i; k]) (nrange n)) as [row [E [L Nth]]].
  - intros k Hk. apply in_nrange in Hk. apply Hg. rewrite Hs. cbn. auto.
  - exists row. split; [exact E|]. split; [rewrite L; apply nrange_length|].
    intros k Hk. apply Nth. apply nrange_nth, Hk.
Qed.

Lemma select_column_ok (v : tview R) n0 n1 n k j : view_wf v -> v_shape v = [(n0, n); (n1, k)] ->
  j < k -> exists col, select_column v j n = Some col /\ length col = N.to_nat n /\
    forall i, i < n -> nth_error col (N.to_nat i) = v_get v [i; j].
Proof.
  intros [_ [_ Hg]] Hs Hj. unfold select_column.
  destruct (sequence_map_total (fun i => v_get v [i; j]) (nrange n)) as [col [E [L Nth]]].
  - intros i Hi. apply in_nrange in Hi. apply Hg. rewrite Hs. cbn. auto.
  - exists col. split; [exact E|]. split; [rewrite L; apply nrange_length|].
    intros i Hi. apply Nth. apply nrange_nth, Hi.
Qed.

(* tensor_view_matrix_product: MxN times NxL *)
Theorem matmul_ok x y ln0 ln1 rn0 rn1 m n k :
  view_wf (op_view x) -> view_wf (op_view y) ->
  v_shape (op_view x) = [(ln0, m); (ln1, n)] -> v_shape (op_view y) = [(rn0, n); (rn1, k)] ->
  ln0 <> rn1 -> m * k <= usize_max ->
  exists t, t_matmul ops x y = Ok t /\ t_shape t = [(ln0, m); (rn1, k)] /\ tensor_inv t /\
    forall i j, i < m -> j < k ->
      exists row col,
        select_row (op_view x) i n = Some row /\ select_column (op_view y) j n = Some col /\
        length row = N.to_nat n /\ length col = N.to_nat n /\
        (forall kk, kk < n -> nth_error row (N.to_nat kk) = v_get (op_view x) [i; kk] /\
                              nth_error col (N.to_nat kk) = v_get (op_view y) [kk; j]) /\
        t_get t [i; j] = reduce (nadd ops) (map2 (nmul ops) row col).
Proof.
  intros Hl Hr Sl Sr Hne Hb. unfold t_matmul. rewrite Sl, Sr, N.eqb_refl. cbn [negb].
  assert (E : Nat.eqb ln0 rn1 = false) by (apply Nat.eqb_neq; exact Hne). rewrite E.
  assert (Hm : 0 < m /\ 0 < n).
  { destruct Hl as [[_ Hpos] _]. rewrite Sl in Hpos. cbn in Hpos.
    inversion Hpos as [|? ? H1 H2]; subst. inversion H2; subst. auto. }
  assert (Hk : 0 < k).
  { destruct Hr as [[_ Hpos] _]. rewrite Sr in Hpos. cbn in Hpos.
    inversion Hpos as [|? ? H1 H2]; subst. inversion H2; subst. auto. }
  set (sh := [(ln0, m); (rn1, k)]).
  assert (Hv : valid_shape sh).
  { split; cbn.
    - constructor; [intros [H|[]]; congruence|constructor; [intros []|constructor]].
    - repeat constructor; lia. }
  assert (He : elements sh = m * k) by (unfold elements; cbn; lia).
  destruct (tensor_from_ok sh (repeat (nzero ops) (N.to_nat (elements sh))) Hv) as [Hz _];
    [lia|apply repeat_length|]. rewrite Hz. cbn [obind].
  match goal with |- context [otraverse ?c _] => set (cell := c) end.
  assert (Hcell : forall i j, i < m -> j < k ->
    exists row col, select_row (op_view x) i n = Some row /\
      select_column (op_view y) j n = Some col /\
      length row = N.to_nat n /\ length col = N.to_nat n /\
      (forall kk, kk < n -> nth_error row (N.to_nat kk) = v_get (op_view x) [i; kk] /\
                            nth_error col (N.to_nat kk) = v_get (op_view y) [kk; j]) /\
      exists r, reduce (nadd ops) (map2 (nmul ops) row col) = Some r /\ cell [i; j] = Ok r).
  { intros i j Hi Hj.
    destruct (select_row_ok _ _ _ _ _ i Hl Sl Hi) as [row [Er [Lr Nr]]].
    destruct (select_column_ok _ _ _ _ _ j Hr Sr Hj) as [col [Ec [Lc Nc]]].
    exists row, col. repeat split; auto.
    destruct (reduce_Some (nadd ops) (map2 (nmul ops) row col)) as [r Hred].
    { intros E0. apply (f_equal (@length _)) in E0. rewrite map2_length, Lr, Lc in E0. cbn in E0. lia. }
    exists r. split; [exact Hred|]. unfold cell. rewrite Er, Ec. unfold scalar_product.
    rewrite Hred. reflexivity. }
  destruct (otraverse_total cell (all_indexes [m; k])) as [data Hdata].
  { intros idx Hin. apply all_indexes_in_range in Hin.
    destruct idx as [|i [|j [|? ?]]]; cbn in Hin; try tauto.
    destruct Hin as [Hi [Hj _]].
    destruct (Hcell i j Hi Hj) as [_ [_ [_ [_ [_ [_ [_ [r [_ Hc]]]]]]]]]. eauto. }
  rewrite Hdata. cbn [omap].
  pose proof Hdata as Hmap. apply otraverse_spec in Hmap.
  assert (Ld : length data = N.to_nat (elements sh)).
  { apply (f_equal (@length _)) in Hmap. rewrite !map_length, all_indexes_length in Hmap.
    rewrite <- Hmap, He. cbn. f_equal. lia. }
  assert (Hinv : tensor_inv (mkTensor data sh (compute_strides sh))).
  { split; [exact Hv|]. split; [reflexivity|]. cbn [t_data t_shape]. lia. }
  eexists. split; [reflexivity|]. split; [reflexivity|]. split; [exact Hinv|].
  intros i j Hi Hj.
  destruct (Hcell i j Hi Hj) as [row [col [Er [Ec [Lr [Lc [Nth [r [Hred Hc]]]]]]]]].
  exists row, col. repeat split; auto; try apply Nth; auto.
  assert (Hin : in_range [i; j] (lens_of sh)) by (cbn; auto).
  rewrite t_get_flat by (auto). cbn [t_data t_shape].
  apply (f_equal (fun l => nth_error l (N.to_nat (flat [i; j] (lens_of sh))))) in Hmap.
  rewrite !nth_error_map' in Hmap.
  change (lens_of sh) with [m; k] in *.
  rewrite all_indexes_nth in Hmap by exact Hin. cbn [option_map] in Hmap. rewrite Hc in Hmap.
  rewrite Hred. destruct (nth_error data _); cbn [option_map] in Hmap; congruence.
Qed.

(* each violated rule: a panic, never a value *)
Theorem matmul_reject_inner x y ln0 ln1 rn0 rn1 m n n' k :
  v_shape (op_view x) = [(ln0, m); (ln1, n)] -> v_shape (op_view y) = [(rn0, n'); (rn1, k)] ->
  n <> n' -> t_matmul ops x y = Panic.
Proof.
  intros Sl Sr H. unfold t_matmul. rewrite Sl, Sr.
  apply N.eqb_neq in H. rewrite H. reflexivity.
Qed.

Theorem matmul_reject_names x y ln0 ln1 rn0 rn1 m n n' k :
  v_shape (op_view x) = [(ln0, m); (ln1, n)] -> v_shape (op_view y) = [(rn0, n'); (rn1, k)] ->
  ln0 = rn1 -> t_matmul ops x y = Panic.
Proof.
  intros Sl Sr ->. unfold t_matmul. rewrite Sl, Sr.
  destruct (n =? n'); cbn [negb]; [|reflexivity]. rewrite Nat.eqb_refl. reflexivity.
Qed.

End Products.

(* ================================================================ matrices *)

Lemma map_flat_map {X Y Z} (g : Y -> Z) (h : X -> list Y) l :
  map g (flat_map h l) = flat_map (fun x => map g (h x)) l.
Proof. induction l as [|a l IH]; cbn; [reflexivity|]. rewrite map_app, IH. reflexivity. Qed.

Lemma otraverse_map {X Y Z} (f : Y -> outcome Z) (g : X -> Y) l :
  otraverse f (map g l) = otraverse (fun x => f (g x)) l.
Proof. induction l as [|a l IH]; cbn; [reflexivity|]. rewrite IH. reflexivity. Qed.

Lemma otraverse_ext {X Y} (f g : X -> outcome Y) l :
  (forall x, In x l -> f x = g x) -> otraverse f l = otraverse g l.
Proof.
  induction l as [|a l IH]; intros H; cbn; [reflexivity|].
  rewrite (H a (or_introl eq_refl)), IH; [reflexivity|]. intros x Hx. apply H. right. exact Hx.
Qed.

Section MatrixTensor.
Context {A : Type}.

(* the same flat data seen through the 2-dimensional tensor API, under the names n0 n1 *)
Definition tensor_of_matrix (m : matrix A) (n0 n1 : name) : tensor A :=
  let sh := [(n0, m_rows m); (n1, m_cols m)] in mkTensor (m_data m) sh (compute_strides sh).
Definition tview_of_mview (v : mview A) (n0 n1 : name) : tview A :=
  mkView [(n0, mv_rows v); (n1, mv_cols v)]
         (fun idx => match idx with [i; j] => mv_get v i j | _ => None end).
Definition toperand (o : moperand A) (n0 n1 : name) : operand A :=
  match o with
  | OM m => OT (tensor_of_matrix m n0 n1)
  | OMV v => OV (tview_of_mview v n0 n1)
  end.

(* what is compared: rows, columns, row-major data *)
Definition flat_of_matrix (m : matrix A) : N * N * list A := (m_rows m, m_cols m, m_data m).
Definition flat_of_tensor (t : tensor A) : N * N * list A :=
  match t_shape t with
  | [(_, r); (_, c)] => (r, c, t_data t)
  | _ => (0, 0, [])
  end.

Lemma toperand_shape o n0 n1 :
  op_shape (toperand o n0 n1) = [(n0, fst (mop_size o)); (n1, snd (mop_size o))].
Proof. destruct o; reflexivity. Qed.

Lemma toperand_iter o n0 n1 : op_iter (toperand o n0 n1) = mop_iter o.
Proof.
  destruct o as [m|v]; cbn [toperand op_iter mop_iter]; [reflexivity|].
  unfold view_elems, mv_row_major. cbn [tview_of_mview v_shape v_get lens_of map snd].
  rewrite all_indexes_2, map_flat_map. f_equal. apply flat_map_ext. intros i.
  rewrite map_map. reflexivity.
Qed.

Lemma tensor_of_matrix_get (m : matrix A) n0 n1 i j :
  t_get (tensor_of_matrix m n0 n1) [i; j] = m_get m i j.
Proof.
  unfold t_get, m_get, tensor_of_matrix, get_index_direct, compute_strides.
  cbn [t_strides t_shape t_data length seq map skipn lens_of snd gid prod fold_right].
  destruct (N.leb_spec (m_rows m) i), (N.ltb_spec i (m_rows m)); try lia; cbn [andb]; try reflexivity.
  destruct (N.leb_spec (m_cols m) j), (N.ltb_spec j (m_cols m)); try lia; try reflexivity.
  f_equal. lia.
Qed.

Lemma toperand_view_get o n0 n1 i j :
  v_get (op_view (toperand o n0 n1)) [i; j] = mv_get (mop_view o) i j.
Proof. destruct o as [m|v]; cbn; [apply tensor_of_matrix_get|reflexivity]. Qed.

Lemma toperand_view_shape o n0 n1 :
  v_shape (op_view (toperand o n0 n1)) = [(n0, mv_rows (mop_view o)); (n1, mv_cols (mop_view o))].
Proof. destruct o; reflexivity. Qed.

(* Matrix::from_flat_row_major and Tensor::from accept the same (size, data) pairs *)
Lemma ctor_agree n0 n1 r c (d : list A) : n0 <> n1 ->
  omap flat_of_matrix (from_flat_row_major r c d) =
  omap flat_of_tensor (tensor_from [(n0, r); (n1, c)] d).
Proof.
  intros Hne. unfold from_flat_row_major, tensor_from.
  set (len := N.of_nat (length d)).
  destruct (validate_dimensions [(n0, r); (n1, c)] len) eqn:V.
  - apply validate_dimensions_spec in V. destruct V as [[_ Hpos] [He Hb]].
    unfold elements in He, Hb. cbn in He, Hb, Hpos.
    inversion Hpos as [|? ? H1 H2]; subst. inversion H2 as [|? ? H3 _]; subst.
    destruct (N.leb_spec (r * c) usize_max); [|lia].
    destruct (N.eqb_spec (r * c) len); [|lia].
    destruct (N.eqb_spec len 0); [nia|]. reflexivity.
  - destruct ((r * c <=? usize_max) && (r * c =? len) && negb (len =? 0)) eqn:C; [|reflexivity].
    exfalso. rewrite !andb_true_iff, negb_true_iff, N.leb_le, N.eqb_eq, N.eqb_neq in C.
    destruct C as [[C1 C2] C3].
    assert (validate_dimensions [(n0, r); (n1, c)] len = true); [|congruence].
    apply validate_dimensions_spec. unfold elements. cbn. repeat split; try lia.
    + cbn. constructor; [intros [H|[]]; congruence|constructor; [intros []|constructor]].
    + cbn. repeat constructor; nia.
Qed.

(* elementwise operators: the matrix API and the tensor API compute the same flat data, for
   every container / view combination of operands *)
Theorem zip_agree (f : A -> A -> A) x y n0 n1 : n0 <> n1 ->
  omap flat_of_matrix (m_zip_with f x y) =
  omap flat_of_tensor (t_zip_with f (toperand x n0 n1) (toperand y n0 n1)).
Proof.
  intros Hne. unfold m_zip_with, t_zip_with. rewrite !toperand_shape, !toperand_iter.
  destruct (mop_size x) as [lr lc], (mop_size y) as [rr rc]. cbn [fst snd shape_eqb].
  unfold dim_eqb. cbn [fst snd]. rewrite !Nat.eqb_refl. cbn [andb]. rewrite andb_true_r.
  destruct ((lr =? rr) && (lc =? rc)); [|reflexivity].
  destruct (mop_iter x), (mop_iter y); try reflexivity. apply ctor_agree, Hne.
Qed.

Theorem map_agree (f : A -> A) x n0 n1 : n0 <> n1 ->
  (match x with OM m => N.of_nat (length (m_data m)) = m_rows m * m_cols m /\
                        0 < m_rows m * m_cols m <= usize_max | OMV _ => True end) ->
  omap flat_of_matrix (m_map f x) = omap flat_of_tensor (t_map f (toperand x n0 n1)).
Proof.
  intros Hne Hinv. unfold m_map. destruct x as [m|v]; cbn [toperand t_map mop_iter mop_size fst snd].
  - unfold from_flat_row_major. rewrite map_length. destruct Hinv as [Hl Hb].
    destruct (N.leb_spec (m_rows m * m_cols m) usize_max); [|lia].
    destruct (N.eqb_spec (m_rows m * m_cols m) (N.of_nat (length (m_data m)))); [|lia].
    destruct (N.eqb_spec (N.of_nat (length (m_data m))) 0); [lia|]. reflexivity.
  - pose proof (toperand_iter (OMV v) n0 n1) as E. cbn [toperand op_iter mop_iter] in E. rewrite E.
    destruct (mv_row_major v); [|reflexivity]. apply ctor_agree, Hne.
Qed.

End MatrixTensor.

Section MatrixProduct.
Context {R : Type} (ops : numops R).

(* matrix multiplication: same flat data from both APIs (left named n0 n1, right n2 n3) *)
Theorem matmul_agree (x y : moperand R) n0 n1 n2 n3 : n0 <> n3 ->
  mv_rows (mop_view x) * mv_cols (mop_view y) <= usize_max ->
  omap flat_of_matrix (m_matmul ops x y) =
  omap flat_of_tensor (t_matmul ops (toperand x n0 n1) (toperand y n2 n3)).
Proof.
  intros Hne Hb. unfold m_matmul, t_matmul. rewrite !toperand_view_shape.
  set (l := mop_view x) in *. set (r := mop_view y) in *.
  destruct (mv_cols l =? mv_rows r) eqn:En; cbn [negb]; [|reflexivity].
  assert (E : Nat.eqb n0 n3 = false) by (apply Nat.eqb_neq; exact Hne). rewrite E.
  set (sh := [(n0, mv_rows l); (n3, mv_cols r)]).
  assert (He : elements sh = mv_rows l * mv_cols r) by (unfold elements; cbn; lia).
  destruct ((mv_rows l =? 0) || (mv_cols r =? 0)) eqn:Z.
  - (* an empty result: Matrix::empty and Tensor::from both refuse *)
    unfold tensor_from.
    assert (V : validate_dimensions sh (N.of_nat (length (repeat (nzero ops) (N.to_nat (elements sh))))) = false).
    { destruct (validate_dimensions sh _) eqn:V; [|reflexivity]. exfalso.
      apply validate_dimensions_spec in V. destruct V as [[_ Hpos] _]. cbn in Hpos.
      inversion Hpos as [|? ? H1 H2]; subst. inversion H2 as [|? ? H3 _]; subst.
      apply orb_true_iff in Z. rewrite !N.eqb_eq in Z. lia. }
    rewrite V. reflexivity.
  - apply orb_false_iff in Z. rewrite !N.eqb_neq in Z.
    assert (Hv : valid_shape sh).
    { split; cbn.
      - constructor; [intros [H|[]]; congruence|constructor; [intros []|constructor]].
      - repeat constructor; lia. }
    destruct (tensor_from_ok sh (repeat (nzero ops) (N.to_nat (elements sh))) Hv) as [Hz _];
      [lia|apply repeat_length|]. rewrite Hz. cbn [obind].
    rewrite all_indexes_2.
    replace (flat_map (fun i => map (fun j => [i; j]) (nrange (mv_cols r))) (nrange (mv_rows l)))
      with (map (fun ij : N * N => [fst ij; snd ij])
                (flat_map (fun i => map (fun j => (i, j)) (nrange (mv_cols r))) (nrange (mv_rows l))))
      by (rewrite map_flat_map; apply flat_map_ext; intros i; rewrite map_map; reflexivity).
    rewrite otraverse_map.
    match goal with |- omap _ (omap _ (otraverse ?f ?l1)) = omap _ (omap _ (otraverse ?g _)) =>
      rewrite (otraverse_ext g f l1) end.
    + destruct (otraverse _ _); reflexivity.
    + intros [i j] _. cbn [fst snd]. unfold select_row, select_column, row_iter, column_iter.
      apply N.eqb_eq in En.
      replace (map (fun k => v_get (op_view (toperand x n0 n1)) [i; k]) (nrange (mv_cols l)))
        with (map (fun k => mv_get l i k) (nrange (mv_cols l)))
        by (apply map_ext; intros k; symmetry; apply toperand_view_get).
      replace (map (fun k => v_get (op_view (toperand y n2 n3)) [k; j]) (nrange (mv_rows r)))
        with (map (fun k => mv_get r k j) (nrange (mv_rows r)))
        by (apply map_ext; intros k; symmetry; apply toperand_view_get).
      reflexivity.
Qed.

Theorem m_zip_with_reject (f : R -> R -> R) x y : mop_size x <> mop_size y ->
  m_zip_with f x y = Panic.
Proof.
  unfold m_zip_with. destruct (mop_size x) as [lr lc], (mop_size y) as [rr rc]. intros H.
  destruct ((lr =? rr) && (lc =? rc)) eqn:E; [|reflexivity].
  apply andb_true_iff in E. rewrite !N.eqb_eq in E. destruct E as [-> ->]. congruence.
Qed.

Theorem m_matmul_reject x y : mv_cols (mop_view x) <> mv_rows (mop_view y) ->
  m_matmul ops x y = Panic.
Proof. intros H. unfold m_matmul. apply N.eqb_neq in H. rewrite H. reflexivity. Qed.

End MatrixProduct.

(* ================================================================ operand forms *)
Section Forms.
Context {R : Type} (ops : numops R).

(* the matrix product only reads the shapes and the in-range elements of its operands *)
Lemma matmul_ext (x x' y y' : operand R) :
  v_shape (op_view x) = v_shape (op_view x') -> v_shape (op_view y) = v_shape (op_view y') ->
  (forall idx, in_range idx (lens_of (v_shape (op_view x))) ->
               v_get (op_view x) idx = v_get (op_view x') idx) ->
  (forall idx, in_range idx (lens_of (v_shape (op_view y))) ->
               v_get (op_view y) idx = v_get (op_view y') idx) ->
  t_matmul ops x y = t_matmul ops x' y'.
Proof.
  intros Sx Sy Gx Gy. unfold t_matmul. rewrite <- Sx, <- Sy.
  destruct (v_shape (op_view x)) as [|[ln0 m] [|[ln1 n] [|? ?]]] eqn:El; try reflexivity.
  destruct (v_shape (op_view y)) as [|[rn0 n'] [|[rn1 k] [|? ?]]] eqn:Er; try reflexivity.
  destruct (negb (n =? n')); [reflexivity|]. destruct (Nat.eqb ln0 rn1); [reflexivity|].
  destruct (tensor_from _ _); cbn [obind]; try reflexivity. f_equal.
  apply otraverse_ext. intros idx Hin. apply all_indexes_in_range in Hin.
  destruct idx as [|i [|j [|? ?]]]; cbn in Hin; try tauto. destruct Hin as [Hi [Hj _]].
  unfold select_row, select_column.
  replace (map (fun k0 => v_get (op_view x') [i; k0]) (nrange n))
    with (map (fun k0 => v_get (op_view x) [i; k0]) (nrange n)).
  2:{ apply map_ext_in. intros k0 Hk. apply in_nrange in Hk. apply Gx. cbn. auto. }
  replace (map (fun k0 => v_get (op_view y') [k0; j]) (nrange n'))
    with (map (fun k0 => v_get (op_view y) [k0; j]) (nrange n')).
  2:{ apply map_ext_in. intros k0 Hk. apply in_nrange in Hk. apply Gy. cbn. auto. }
  reflexivity.
Qed.

(* all container / view combinations of the same operands give the same result: for the
   operators that consume the element iterators ... *)
Theorem forms_agree_zip (f : R -> R -> R) (vx vy : tview R) lx ly mx my :
  view_wf vx -> view_wf vy -> view_elems vx = Some lx -> view_elems vy = Some ly ->
  tensor_from (v_shape vx) lx = Ok mx -> tensor_from (v_shape vy) ly = Ok my ->
  t_zip_with f (OT mx) (OT my) = t_zip_with f (OV vx) (OV vy) /\
  t_zip_with f (OT mx) (OV vy) = t_zip_with f (OV vx) (OV vy) /\
  t_zip_with f (OV vx) (OT my) = t_zip_with f (OV vx) (OV vy).
Proof.
  intros Wx Wy Ex Ey Mx My.
  destruct (container_is_view vx lx mx Wx Ex Mx) as [Sx [Ix _]].
  destruct (container_is_view vy ly my Wy Ey My) as [Sy [Iy _]].
  unfold t_zip_with. rewrite Sx, Sy, Ix, Iy. repeat split; reflexivity.
Qed.

(* ... and for the matrix product, which indexes its operands *)
Theorem forms_agree_matmul (vx vy : tview R) lx ly mx my :
  view_wf vx -> view_wf vy -> view_elems vx = Some lx -> view_elems vy = Some ly ->
  tensor_from (v_shape vx) lx = Ok mx -> tensor_from (v_shape vy) ly = Ok my ->
  t_matmul ops (OT mx) (OT my) = t_matmul ops (OV vx) (OV vy) /\
  t_matmul ops (OT mx) (OV vy) = t_matmul ops (OV vx) (OV vy) /\
  t_matmul ops (OV vx) (OT my) = t_matmul ops (OV vx) (OV vy).
Proof.
  intros Wx Wy Ex Ey Mx My.
  destruct (container_is_view vx lx mx Wx Ex Mx) as [Sx [_ [_ Gx]]].
  destruct (container_is_view vy ly my Wy Ey My) as [Sy [_ [_ Gy]]].
  cbn [op_shape op_at] in *.
  repeat split; apply matmul_ext; cbn [op_view view_of_tensor v_shape v_get]; auto;
    try (rewrite Sx; exact Gx); try (rewrite Sy; exact Gy).
Qed.

End Forms.

(* ================================================================ textbook form over a ring *)
Section Textbook.
Context {R : Type} (ops : numops R).
Hypothesis Rth : ring_theory (nzero ops) (none_ ops) (nadd ops) (nmul ops) (nsub ops) (nneg ops) eq.

(* (A . B)[i, j] = sum_k A[i, k] * B[k, j] *)
Theorem matmul_textbook x y ln0 ln1 rn0 rn1 m n k :
  view_wf (op_view x) -> view_wf (op_view y) ->
  v_shape (op_view x) = [(ln0, m); (ln1, n)] -> v_shape (op_view y) = [(rn0, n); (rn1, k)] ->
  ln0 <> rn1 -> m * k <= usize_max ->
  exists t, t_matmul ops x y = Ok t /\ t_shape t = [(ln0, m); (rn1, k)] /\
    forall i j, i < m -> j < k ->
      exists row col,
        map Some row = map (fun kk => v_get (op_view x) [i; kk]) (nrange n) /\
        map Some col = map (fun kk => v_get (op_view y) [kk; j]) (nrange n) /\
        t_get t [i; j] = Some (sum_list ops (map2 (nmul ops) row col)).
Proof.
  intros Hl Hr Sl Sr Hne Hb.
  destruct (matmul_ok ops x y ln0 ln1 rn0 rn1 m n k Hl Hr Sl Sr Hne Hb) as [t [Ht [Hs [_ Hc]]]].
  exists t. split; [exact Ht|]. split; [exact Hs|]. intros i j Hi Hj.
  destruct (Hc i j Hi Hj) as [row [col [Er [Ec [Lr [Lc [_ Hg]]]]]]].
  exists row, col. split; [|split].
  - symmetry. apply sequence_Some. exact Er.
  - symmetry. apply sequence_Some. exact Ec.
  - rewrite Hg. apply (reduce_is_sum ops Rth).
    intros E0. apply (f_equal (@length _)) in E0. rewrite map2_length, Lr, Lc in E0.
    assert (0 < n).
    { destruct Hl as [[_ Hpos] _]. rewrite Sl in Hpos. cbn in Hpos.
      inversion Hpos as [|? ? H1 H2]; subst. inversion H2; subst. auto. }
    cbn in E0. lia.
Qed.

Theorem dot_textbook x y nm len : operand_wf x -> operand_wf y ->
  op_shape x = [(nm, len)] -> op_shape y = [(nm, len)] ->
  exists lx ly, op_iter x = Some lx /\ op_iter y = Some ly /\
    (forall i, i < len -> nth_error lx (N.to_nat i) = op_at x [i] /\
                          nth_error ly (N.to_nat i) = op_at y [i]) /\
    t_dot ops x y = Ok (sum_list ops (map2 (nmul ops) lx ly)).
Proof.
  intros Hx Hy Sx Sy.
  destruct (dot_ok ops x y nm len Hx Hy Sx Sy) as [lx [ly [r [Ex [Ey [Lx [Ly [Nth [Hr Hd]]]]]]]]].
  exists lx, ly. repeat split; auto; try apply Nth; auto.
  rewrite Hd. f_equal.
  assert (Hne : map2 (nmul ops) lx ly <> []).
  { intros E. rewrite E in Hr. discriminate. }
  rewrite (reduce_is_sum ops Rth _ Hne) in Hr. congruence.
Qed.
End Textbook.

(* ================================================================ adaptors keep views well formed *)
(* so that the hypotheses `view_wf` of the theorems above are met by non-row-major operands:
   reversed, renamed and ranged views of a well-formed view are well formed, and their elements
   are the source's elements at the mapped index *)
Section Adaptors.
Context {A : Type}.

Lemma lens_of_combine (names : list name) (lens : list N) : length names = length lens ->
  lens_of (combine names lens) = lens /\ names_of (combine names lens) = names.
Proof.
  revert lens; induction names as [|n names IH]; intros [|l lens] H; cbn in H; try lia.
  - split; reflexivity.
  - destruct (IH lens) as [E1 E2]; [lia|]. unfold lens_of, names_of in *. cbn. rewrite E1, E2. auto.
Qed.

Lemma reverse_indexes_in_range idx : forall sh reversed, length reversed = length sh ->
  in_range idx (lens_of sh) -> in_range (reverse_indexes idx sh reversed) (lens_of sh).
Proof.
  induction idx as [|i idx IH]; intros [|[n len] sh] [|r reversed] Hl;
    cbn [length] in Hl; try lia; cbn [lens_of map snd in_range reverse_indexes]; try tauto.
  intros [Hi Hr]. split; [|apply IH; [lia|exact Hr]].
  destruct r; [|exact Hi]. destruct (N.ltb_spec (len - 1) i); lia.
Qed.

Theorem reverse_wf (v v' : tview A) names : view_wf v -> v_reverse v names = Some v' ->
  view_wf v' /\ v_shape v' = v_shape v /\
  forall idx, v_get v' idx =
    v_get v (reverse_indexes idx (v_shape v)
               (map (fun d => existsb (Nat.eqb (fst d)) names) (v_shape v))).
Proof.
  intros [Hv [Hb Hg]]. unfold v_reverse.
  destruct (has_duplicates names || negb (forallb (contains (v_shape v)) names)); [discriminate|].
  intros [= <-]. cbn [v_shape v_get]. split; [|split; reflexivity].
  split; [exact Hv|]. split; [exact Hb|]. intros idx Hr. apply Hg.
  apply reverse_indexes_in_range; [apply map_length|exact Hr].
Qed.

Theorem rename_wf (v v' : tview A) names : view_wf v -> v_rename v names = Some v' ->
  view_wf v' /\ names_of (v_shape v') = names /\ lens_of (v_shape v') = lens_of (v_shape v) /\
  forall idx, v_get v' idx = v_get v idx.
Proof.
  intros [[Hnd Hpos] [Hb Hg]]. unfold v_rename.
  destruct (Nat.eqb_spec (length names) (length (v_shape v))) as [Hl|]; cbn [negb orb]; [|discriminate].
  destruct (has_duplicates names) eqn:Hd; [discriminate|]. intros [= <-]. cbn [v_shape v_get].
  destruct (lens_of_combine names (lens_of (v_shape v))) as [E1 E2];
    [unfold lens_of; rewrite map_length; exact Hl|].
  split; [|repeat split; auto]. unfold view_wf. cbn [v_shape v_get].
  split; [split; [rewrite E2; apply has_duplicates_false, Hd|rewrite E1; exact Hpos]|].
  split; [unfold elements in *; rewrite E1; exact Hb|]. intros idx Hr. apply Hg. rewrite <- E1. exact Hr.
Qed.

Lemma range_bounds sh : forall rs, length rs = length sh -> exceeds_bounds sh rs = false ->
  Forall2 (fun d r => fst r + snd r <= snd d) sh rs.
Proof.
  induction sh as [|[n len] sh IH]; intros [|[start l] rs] Hl; cbn [length] in Hl; try lia.
  - constructor.
  - cbn [exceeds_bounds]. rewrite !orb_false_iff, !N.ltb_ge. intros [[_ H1] H2].
    constructor; [cbn; lia|apply IH; [lia|exact H2]].
Qed.

Lemma map_by_range_in_range sh : forall rs idx, Forall2 (fun d r => fst r + snd r <= snd d) sh rs ->
  in_range idx (map snd rs) ->
  exists j, map_by_range idx rs = Some j /\ in_range j (lens_of sh).
Proof.
  induction sh as [|[n len] sh IH]; intros rs idx HF; inversion HF as [|? [start l] ? rs' Hd HF']; subst.
  - destruct idx; cbn; [eauto|tauto].
  - destruct idx as [|i idx]; cbn [map snd in_range]; [tauto|]. intros [Hi Hr].
    destruct (IH rs' idx HF' Hr) as [j [Ej Hj]]. cbn [map_by_range].
    destruct (N.ltb_spec i l); [|lia]. rewrite Ej. cbn [option_map].
    eexists. split; [reflexivity|]. cbn [lens_of map snd in_range]. cbn in Hd. split; [lia|exact Hj].
Qed.

Lemma prod_le l1 : forall l2, Forall2 (fun a b => a <= b) l1 l2 -> prod l1 <= prod l2.
Proof.
  induction l1 as [|a l1 IH]; intros l2 H; inversion H; subst; [reflexivity|].
  rewrite !prod_cons. apply N.mul_le_mono; auto.
Qed.

Theorem range_wf (v v' : tview A) rs : view_wf v -> v_range v rs = Some v' ->
  view_wf v' /\ names_of (v_shape v') = names_of (v_shape v) /\ lens_of (v_shape v') = map snd rs /\
  forall idx, in_range idx (map snd rs) ->
    exists j, map_by_range idx rs = Some j /\ in_range j (lens_of (v_shape v)) /\
              v_get v' idx = v_get v j.
Proof.
  intros [Hv [Hb Hg]]. unfold v_range.
  destruct (Nat.eqb_spec (length rs) (length (v_shape v))) as [Hl|]; cbn [negb orb]; [|discriminate].
  destruct (exceeds_bounds (v_shape v) rs) eqn:Ex; [discriminate|].
  destruct (valid_shape_b _) eqn:Vs; [|discriminate]. intros [= <-]. cbn [v_shape v_get].
  destruct (lens_of_combine (names_of (v_shape v)) (map snd rs)) as [E1 E2];
    [unfold names_of; rewrite !map_length; auto|].
  pose proof (range_bounds _ _ Hl Ex) as HF.
  assert (Hget : forall idx, in_range idx (map snd rs) ->
    exists j, map_by_range idx rs = Some j /\ in_range j (lens_of (v_shape v)) /\
      match map_by_range idx rs with Some j => v_get v j | None => None end = v_get v j).
  { intros idx Hr. destruct (map_by_range_in_range _ _ _ HF Hr) as [j [Ej Hj]].
    exists j. rewrite Ej. auto. }
  split; [|repeat split; auto]. unfold view_wf. cbn [v_shape v_get].
  split; [apply valid_shape_b_spec, Vs|]. split.
  - unfold elements in *. rewrite E1. eapply N.le_trans; [|exact Hb]. apply prod_le.
    clear - HF. unfold lens_of. induction HF as [|[n len] [s l] sh rs H _ IH]; cbn; constructor; auto.
    cbn in H. lia.
  - intros idx Hr. rewrite E1 in Hr. destruct (Hget idx Hr) as [j [_ [Hj ->]]]. apply Hg, Hj.
Qed.
End Adaptors.

(* ---- TensorAccess / TensorTranspose: the non-row-major views par excellence ---- *)
From Coq Require Import Permutation.

Lemma prod_perm l1 l2 : Permutation l1 l2 -> prod l1 = prod l2.
Proof.
  induction 1 as [|x l l' _ IH|x y l|l l' l'' _ IH1 _ IH2].
  - reflexivity.
  - rewrite !prod_cons. congruence.
  - rewrite !prod_cons. rewrite !N.mul_assoc. f_equal. apply N.mul_comm.
  - congruence.
Qed.

Lemma shape_by_name_self sh : NoDup (names_of sh) ->
  map (fun n => (n, match length_of sh n with Some l => l | None => 0 end)) (names_of sh) = sh.
Proof.
  induction sh as [|[n l] sh IH]; intros Hnd; [reflexivity|].
  cbn [names_of map fst] in *. inversion Hnd as [|? ? Hn Hnd']; subst.
  unfold length_of at 1. cbn [find fst]. rewrite Nat.eqb_refl. cbn [option_map snd]. f_equal.
  rewrite <- IH at 2 by exact Hnd'. apply map_ext_in. intros n' Hin.
  unfold length_of. cbn [find fst]. destruct (Nat.eqb_spec n n') as [->|_]; [contradiction|reflexivity].
Qed.

Lemma shape_by_name_perm sh req : NoDup (names_of sh) -> Permutation (names_of sh) req ->
  Permutation sh (shape_by_name sh req).
Proof.
  intros Hnd Hp. unfold shape_by_name. rewrite <- (shape_by_name_self sh Hnd) at 1.
  apply Permutation_map, Hp.
Qed.

Section Access.
Context {A : Type}.

Lemma access_core (v : tview A) req tbl : view_wf v -> length req = length (v_shape v) ->
  dm_new (names_of (v_shape v)) req = Some tbl ->
  let sh' := map_shape_to_requested tbl (v_shape v) in
  sh' = shape_by_name (v_shape v) req /\ Permutation (v_shape v) sh' /\ NoDup req /\
  forall idx, in_range idx (lens_of sh') ->
    exists x, v_get v (map_dimensions_to_source tbl idx 0) = Some x.
Proof.
  intros [[Hnd Hpos] [Hb Hg]] Hlen Hnew sh'. set (sh := v_shape v) in *.
  assert (Hl : length req = length (names_of sh)) by (unfold names_of; rewrite map_length; exact Hlen).
  assert (Hperm : Permutation (names_of sh) req)
    by (apply dm_new_iff_perm; auto; rewrite Hnew; discriminate).
  (* a tensor of units with the same shape carries the index algebra of C01 *)
  set (t := mkTensor (repeat tt (N.to_nat (elements sh))) sh (compute_strides sh)).
  assert (Hinv : tensor_inv t).
  { split; [split; assumption|]. split; [reflexivity|]. unfold t. cbn [t_data t_shape]. rewrite repeat_length. lia. }
  assert (Ha : access_try_from t req = Ok (mkAccess t tbl))
    by (unfold access_try_from; cbn [t_shape t]; rewrite Hnew; reflexivity).
  assert (Es : sh' = shape_by_name sh req).
  { apply (access_shape_by_name t req (mkAccess t tbl)); auto. }
  split; [exact Es|]. split; [rewrite Es; apply shape_by_name_perm; auto|].
  split; [eapply Permutation_NoDup; eauto|].
  intros idx Hr. apply Hg.
  assert (Hli : length idx = length sh).
  { apply in_range_length in Hr. unfold sh', lens_of, map_shape_to_requested in Hr.
    rewrite !map_length in Hr. rewrite Hr, (r2s_length _ _ _ Hnew). unfold names_of. apply map_length. }
  pose proof (in_range_by_name_iff t req (mkAccess t tbl) idx Hinv Hlen Hli Ha) as E.
  apply in_range_b_spec in Hr. unfold access_shape in E. cbn [a_tbl a_src t_shape t] in E.
  fold sh' in E. rewrite Hr in E. apply in_range_b_spec in E.
  rewrite (map_to_source_by_name sh req tbl idx Hnd Hlen Hnew). exact E.
Qed.

Theorem access_wf (v v' : tview A) req : view_wf v -> length req = length (v_shape v) ->
  v_access v req = Some v' ->
  view_wf v' /\ v_shape v' = shape_by_name (v_shape v) req /\
  forall idx, v_get v' idx = v_get v (coords_by_name (v_shape v) req idx).
Proof.
  intros Hwf Hlen. unfold v_access. destruct (dm_new _ _) as [tbl|] eqn:Hnew; [|discriminate].
  intros [= <-]. cbn [v_shape v_get].
  destruct (access_core v req tbl Hwf Hlen Hnew) as [Es [Hp [Hnd' Hget]]].
  destruct Hwf as [[Hnd Hpos] [Hb Hg]].
  split; [|split; [exact Es|]].
  - unfold view_wf. cbn [v_shape v_get]. split; [split|split].
    + rewrite Es. unfold shape_by_name, names_of. rewrite map_map. cbn [fst]. rewrite map_id. exact Hnd'.
    + eapply Permutation_Forall; [|exact Hpos]. unfold lens_of. apply Permutation_map, Hp.
    + unfold elements, lens_of in *. rewrite <- (prod_perm _ _ (Permutation_map snd Hp)). exact Hb.
    + exact Hget.
  - intros idx. rewrite (map_to_source_by_name _ req tbl idx Hnd Hlen Hnew). reflexivity.
Qed.

Theorem transpose_wf (v v' : tview A) req : view_wf v -> length req = length (v_shape v) ->
  v_transpose v req = Some v' ->
  view_wf v' /\ names_of (v_shape v') = names_of (v_shape v) /\
  lens_of (v_shape v') = lens_of (shape_by_name (v_shape v) req) /\
  forall idx, v_get v' idx = v_get v (coords_by_name (v_shape v) req idx).
Proof.
  intros Hwf Hlen. unfold v_transpose. destruct (dm_new _ _) as [tbl|] eqn:Hnew; [|discriminate].
  intros [= <-]. cbn [v_shape v_get].
  destruct (access_core v req tbl Hwf Hlen Hnew) as [Es [Hp [Hnd' Hget]]].
  destruct Hwf as [[Hnd Hpos] [Hb Hg]].
  destruct (lens_of_combine (names_of (v_shape v)) (lens_of (map_shape_to_requested tbl (v_shape v))))
    as [E1 E2].
  { unfold lens_of, map_shape_to_requested. rewrite !map_length.
    symmetry. apply (r2s_length _ _ _ Hnew). }
  split; [|split; [exact E2|split; [rewrite E1, Es; reflexivity|]]].
  - unfold view_wf, valid_shape, elements. cbn [v_shape v_get]. rewrite E1, E2. split; [split|split].
    + exact Hnd.
    + eapply Permutation_Forall; [|exact Hpos]. unfold lens_of. apply Permutation_map, Hp.
    + unfold elements, lens_of in *. rewrite <- (prod_perm _ _ (Permutation_map snd Hp)). exact Hb.
    + exact Hget.
  - intros idx. rewrite (map_to_source_by_name _ req tbl idx Hnd Hlen Hnew). reflexivity.
Qed.
End Access.

(* ---- TensorMask ---- *)
Section Mask.
Context {A : Type}.

Lemma mask_shape sh : forall ms, length ms = length sh ->
  let sh' := map2 (fun (d : name * N) (m : N * N) => (fst d, snd d - snd m)) sh ms in
  names_of sh' = names_of sh /\ lens_of sh' = map2 (fun (d : name * N) (m : N * N) => snd d - snd m) sh ms.
Proof.
  induction sh as [|[n len] sh IH]; intros [|[s l] ms] Hl; cbn [length] in Hl; try lia.
  - split; reflexivity.
  - destruct (IH ms) as [E1 E2]; [lia|]. cbn zeta in *. unfold names_of, lens_of in *.
    cbn [map2 map fst snd]. rewrite E1, E2. split; reflexivity.
Qed.

Lemma map_by_mask_in_range sh : forall ms idx,
  Forall2 (fun (d : name * N) (r : N * N) => fst r + snd r <= snd d) sh ms ->
  in_range idx (map2 (fun (d : name * N) (m : N * N) => snd d - snd m) sh ms) ->
  in_range (map_by_mask idx ms) (lens_of sh).
Proof.
  induction sh as [|[n len] sh IH]; intros ms idx HF; inversion HF as [|? [start l] ? ms' Hd HF']; subst.
  - destruct idx; cbn; tauto.
  - destruct idx as [|i idx]; cbn [map2 in_range fst snd]; [tauto|]. intros [Hi Hr].
    cbn [map_by_mask lens_of map snd in_range]. cbn in Hd. split; [|apply IH; assumption].
    destruct (N.ltb_spec i start); [lia|]. apply N.min_lt_iff. right. lia.
Qed.

Theorem mask_wf (v v' : tview A) ms : view_wf v -> v_mask v ms = Some v' ->
  view_wf v' /\ names_of (v_shape v') = names_of (v_shape v) /\
  lens_of (v_shape v') = map2 (fun (d : name * N) (m : N * N) => snd d - snd m) (v_shape v) ms /\
  forall idx, v_get v' idx = v_get v (map_by_mask idx ms).
Proof.
  intros [Hv [Hb Hg]]. unfold v_mask.
  destruct (Nat.eqb_spec (length ms) (length (v_shape v))) as [Hl|]; cbn [negb orb]; [|discriminate].
  destruct (exceeds_bounds (v_shape v) ms) eqn:Ex; [discriminate|].
  destruct (valid_shape_b _) eqn:Vs; [|discriminate]. intros [= <-]. cbn [v_shape v_get].
  destruct (mask_shape (v_shape v) ms Hl) as [E1 E2]. cbn zeta in E1, E2.
  pose proof (range_bounds _ _ Hl Ex) as HF.
  split; [|repeat split; auto]. unfold view_wf. cbn [v_shape v_get].
  split; [apply valid_shape_b_spec, Vs|]. split.
  - unfold elements in *. rewrite E2. eapply N.le_trans; [|exact Hb]. apply prod_le.
    clear - HF. unfold lens_of. induction HF as [|[n len] [s l] sh rs H _ IH]; cbn; constructor; auto.
    cbn in H. lia.
  - intros idx Hr. rewrite E2 in Hr. apply Hg. apply map_by_mask_in_range; assumption.
Qed.
End Mask.
