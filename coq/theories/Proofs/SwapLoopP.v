(* The in-place branch of Tensor::reorder_mut for square 2-D tensors (Model/Transform.v:
   swap_step / reorder_mut, transcribed from src/tensors/mod.rs) equals the allocating reorder,
   for every side length n; hence reorder_mut = reorder and transpose_mut = transpose for every
   shape.  The loop visits every index (i, j) in row-major order and, when j >= i, exchanges the
   elements at (i, j) and at the mapped index. *)
From Coq Require Import List ZArith NArith Bool Arith Lia.
From EasyML Require Import Base.Sx Model.Shape Model.Tensor Model.TSource Model.ShapeIter
  Model.Transform Proofs.ShapeP Proofs.C01P Proofs.OdometerP Proofs.C09P Proofs.C13P.
Import ListNotations.
Open Scope N_scope.

(* `for index in ShapeIterator::from(shape)` visits exactly all_indexes *)
Lemma shape_iter_run_outs : forall k it,
  shape_iter_run k it = take_somes (map fst (outs k it)).
Proof.
  induction k as [|k IH]; intros it; [reflexivity|].
  rewrite outs_S. cbn [shape_iter_run map take_somes fst].
  destruct (iter_next it) as [[x|] it']; cbn [fst snd]; [|reflexivity]. f_equal. apply IH.
Qed.

Theorem shape_iter_all_spec sh : shape_iter_all sh = all_indexes (lens_of sh).
Proof.
  unfold shape_iter_all. rewrite shape_iter_run_outs.
  replace (S (N.to_nat (elements sh))) with (length (all_indexes (lens_of sh)) + 1)%nat
    by (rewrite all_indexes_length; unfold elements; lia).
  rewrite shape_iter_enumerates. cbn [repeat]. apply take_somes_app.
Qed.

Lemma nth_error_ext {X} (l1 l2 : list X) :
  length l1 = length l2 -> (forall k, (k < length l1)%nat -> nth_error l1 k = nth_error l2 k) -> l1 = l2.
Proof.
  revert l2; induction l1 as [|x l1 IH]; intros [|y l2] Hl H; cbn [length] in *; try lia; [reflexivity|].
  f_equal.
  - specialize (H 0%nat ltac:(lia)). cbn in H. congruence.
  - apply IH; [lia|]. intros k Hk. apply (H (S k)). lia.
Qed.

Lemma firstn_S_nth {X} (l : list X) m x : nth_error l m = Some x ->
  firstn (S m) l = firstn m l ++ [x].
Proof.
  revert m; induction l as [|y l IH]; intros [|m] H; cbn in *; try discriminate.
  - injection H as ->. reflexivity.
  - f_equal. apply IH. exact H.
Qed.

Section Square.
Context {A : Type}.
Variable t : tensor A.
Variables (a b : name) (n : N).
Hypothesis Hinv : tensor_inv t.
Hypothesis Hshape : t_shape t = [(a, n); (b, n)].

Let data := t_data t.

Lemma n_pos : 0 < n.
Proof.
  destruct Hinv as [[_ Hp] _]. rewrite Hshape in Hp. cbn in Hp. inversion Hp; assumption.
Qed.

Lemma ab_neq : a <> b.
Proof.
  destruct Hinv as [[Hnd _] _]. rewrite Hshape in Hnd. cbn in Hnd.
  inversion Hnd as [|? ? Hn _]; subst. intros ->. apply Hn. left. reflexivity.
Qed.

Lemma data_len : N.of_nat (length data) = n * n.
Proof.
  destruct Hinv as [_ [_ He]]. rewrite Hshape in He. unfold elements in He. cbn in He.
  unfold data. lia.
Qed.

Lemma pos_inj i j i' j' : j < n -> j' < n -> i * n + j = i' * n + j' -> i = i' /\ j = j'.
Proof.
  intros Hj Hj' H.
  assert (i = i').
  { destruct (N.lt_trichotomy i i') as [L|[E|L]]; auto; exfalso.
    - assert (i * n + n <= i' * n) by (replace (i * n + n) with ((i + 1) * n) by lia; apply N.mul_le_mono_r; lia). lia.
    - assert (i' * n + n <= i * n) by (replace (i' * n + n) with ((i' + 1) * n) by lia; apply N.mul_le_mono_r; lia). lia. }
  subst. split; [reflexivity|lia].
Qed.

(* a tensor that differs from t only in its data (same length) *)
Definition same_frame (t' : tensor A) : Prop :=
  t_shape t' = t_shape t /\ t_strides t' = t_strides t /\ length (t_data t') = length data.

Lemma get_frame t' i j : same_frame t' -> i < n -> j < n ->
  t_get t' [i; j] = nth_error (t_data t') (N.to_nat (i * n + j)).
Proof.
  intros [Hs [Hst _]] Hi Hj. rewrite t_get_flat.
  - rewrite Hs, Hshape. cbn [lens_of map snd flat]. rewrite !prod_cons, prod_nil. f_equal. f_equal. lia.
  - rewrite Hst, Hs. apply Hinv.
  - rewrite Hs, Hshape. cbn. auto.
Qed.

Lemma pos_lt i j : i < n -> j < n -> (N.to_nat (i * n + j) < length data)%nat.
Proof. intros Hi Hj. pose proof data_len. nia. Qed.

Lemma set_frame t' i j v : same_frame t' -> i < n -> j < n ->
  exists t'', t_set t' [i; j] v = Some t'' /\ same_frame t'' /\
    forall k, nth_error (t_data t'') k =
              if Nat.eqb k (N.to_nat (i * n + j)) then Some v else nth_error (t_data t') k.
Proof.
  intros [Hs [Hst Hl]] Hi Hj. unfold t_set.
  assert (G : get_index_direct [i; j] (t_strides t') (t_shape t') = Some (i * n + j)).
  { rewrite Hst, Hs. destruct Hinv as [_ [-> _]]. rewrite get_index_direct_spec by (rewrite Hshape; reflexivity).
    rewrite Hshape. cbn [lens_of map snd in_range_b flat].
    destruct (N.ltb_spec i n); [|lia]. destruct (N.ltb_spec j n); [|lia]. cbn [andb].
    rewrite !prod_cons, prod_nil. f_equal. lia. }
  rewrite G.
  destruct (list_set_Some (t_data t') (N.to_nat (i * n + j)) v) as [d' Hd'].
  { rewrite Hl. apply pos_lt; assumption. }
  rewrite Hd'. cbn [option_map]. eexists. split; [reflexivity|].
  destruct (list_set_spec _ _ _ _ Hd') as [Hlen Hnth].
  split; [|exact Hnth]. unfold same_frame. cbn [t_shape t_strides t_data]. repeat split; auto. lia.
Qed.

(* ---- the swapping order ---- *)
Definition swap_tbl : list (nat * nat) := [(1, 1); (0, 0)]%nat.

Definition pmin (i j : N) : N := N.min (i * n + j) (j * n + i).

(* after the first m indexes of the loop: every pair whose smaller position is below m has been
   exchanged, everything else is untouched *)
Definition inv_at (m : N) (t' : tensor A) : Prop :=
  same_frame t' /\
  forall i j, i < n -> j < n ->
    nth_error (t_data t') (N.to_nat (i * n + j)) =
    if pmin i j <? m then nth_error data (N.to_nat (j * n + i)) else nth_error data (N.to_nat (i * n + j)).

Lemma swap_step_inv (t' : tensor A) i0 j0 : i0 < n -> j0 < n ->
  inv_at (i0 * n + j0) t' ->
  exists t'', swap_step swap_tbl (Some t') [i0; j0] = Some t'' /\ inv_at (i0 * n + j0 + 1) t''.
Proof.
  intros Hi0 Hj0 [Hf Hd]. unfold swap_step. cbn [nth].
  destruct (N.leb_spec i0 j0) as [Hle|Hgt].
  - (* upper triangle (or diagonal): exchange (i0, j0) and (j0, i0) *)
    change (map_dimensions_to_source swap_tbl [i0; j0] 0) with [j0; i0].
    rewrite !get_frame by assumption.
    destruct (nth_error (t_data t') (N.to_nat (i0 * n + j0))) as [temp|] eqn:Etemp.
    2:{ apply nth_error_None in Etemp. destruct Hf as [_ [_ Hl]]. pose proof (pos_lt i0 j0 Hi0 Hj0). lia. }
    destruct (nth_error (t_data t') (N.to_nat (j0 * n + i0))) as [mv|] eqn:Emv.
    2:{ apply nth_error_None in Emv. destruct Hf as [_ [_ Hl]]. pose proof (pos_lt j0 i0 Hj0 Hi0). lia. }
    destruct (set_frame t' i0 j0 mv Hf Hi0 Hj0) as [t1 [H1 [Hf1 Hn1]]]. rewrite H1.
    destruct (set_frame t1 j0 i0 temp Hf1 Hj0 Hi0) as [t2 [H2 [Hf2 Hn2]]]. rewrite H2.
    exists t2. split; [reflexivity|]. split; [exact Hf2|].
    intros i j Hi Hj. rewrite Hn2, Hn1.
    assert (Hpq : i0 * n + j0 <= j0 * n + i0) by nia.
    pose proof (Hd i0 j0 Hi0 Hj0) as D1. pose proof (Hd j0 i0 Hj0 Hi0) as D2.
    unfold pmin in D1, D2.
    rewrite (proj2 (N.ltb_ge _ _)) in D1 by lia. rewrite (proj2 (N.ltb_ge _ _)) in D2 by lia.
    rewrite Etemp in D1. rewrite Emv in D2.
    destruct (Nat.eqb_spec (N.to_nat (i * n + j)) (N.to_nat (j0 * n + i0))) as [Eq|Nq].
    + (* (i, j) = (j0, i0) *)
      destruct (pos_inj i j j0 i0 Hj Hi0 ltac:(lia)) as [-> ->].
      unfold pmin. rewrite (proj2 (N.ltb_lt _ _)) by lia. exact D1.
    + destruct (Nat.eqb_spec (N.to_nat (i * n + j)) (N.to_nat (i0 * n + j0))) as [Ep|Np].
      * destruct (pos_inj i j i0 j0 Hj Hj0 ltac:(lia)) as [-> ->].
        unfold pmin. rewrite (proj2 (N.ltb_lt _ _)) by lia. exact D2.
      * rewrite Hd by assumption.
        assert (Hne : pmin i j <> i0 * n + j0).
        { unfold pmin. intros E.
          destruct (N.min_spec (i * n + j) (j * n + i)) as [[_ M]|[_ M]]; rewrite M in E.
          - apply Np. f_equal. exact E.
          - destruct (pos_inj j i i0 j0 Hi Hj0 E) as [-> ->]. apply Nq. reflexivity. }
        destruct (N.ltb_spec (pmin i j) (i0 * n + j0)); destruct (N.ltb_spec (pmin i j) (i0 * n + j0 + 1));
          try reflexivity; lia.
  - (* strictly lower triangle: nothing to do, its pair was exchanged earlier *)
    exists t'. split; [reflexivity|]. split; [exact Hf|].
    intros i j Hi Hj. rewrite Hd by assumption.
    assert (Hne : pmin i j <> i0 * n + j0).
    { unfold pmin. intros E.
      destruct (N.min_spec (i * n + j) (j * n + i)) as [[L M]|[L M]]; rewrite M in E.
      - destruct (pos_inj i j i0 j0 Hj Hj0 E) as [-> ->]. nia.
      - destruct (pos_inj j i i0 j0 Hi Hj0 E) as [-> ->]. nia. }
    destruct (N.ltb_spec (pmin i j) (i0 * n + j0)); destruct (N.ltb_spec (pmin i j) (i0 * n + j0 + 1));
      try reflexivity; lia.
Qed.

(* the whole loop *)
Lemma swap_loop_prefix : forall m, (m <= N.to_nat (n * n))%nat ->
  exists t', fold_left (swap_step swap_tbl) (firstn m (all_indexes [n; n])) (Some t) = Some t' /\
             inv_at (N.of_nat m) t'.
Proof.
  induction m as [|m IH]; intros Hm.
  - exists t. split; [reflexivity|]. split; [repeat split; reflexivity|].
    intros i j _ _. destruct (N.ltb_spec (pmin i j) (N.of_nat 0)); [lia|reflexivity].
  - destruct (IH ltac:(lia)) as [t' [Hfold Hinvm]].
    destruct (nth_error (all_indexes [n; n]) m) as [x|] eqn:Ex.
    2:{ apply nth_error_None in Ex. rewrite all_indexes_length in Ex. rewrite !prod_cons, prod_nil in Ex. lia. }
    destruct (all_indexes_nth _ _ _ Ex) as [Hr Hfl].
    destruct x as [|i0 [|j0 [|? ?]]]; cbn [in_range] in Hr; try tauto.
    destruct Hr as [Hi0 [Hj0 _]].
    cbn [flat] in Hfl. rewrite !prod_cons, prod_nil in Hfl.
    assert (Hpos : N.of_nat m = i0 * n + j0) by lia.
    rewrite (firstn_S_nth _ _ _ Ex), fold_left_app, Hfold. cbn [fold_left].
    rewrite Hpos in Hinvm.
    destruct (swap_step_inv t' i0 j0 Hi0 Hj0 Hinvm) as [t'' [Hs Hi'']].
    exists t''. split; [exact Hs|]. replace (N.of_nat (S m)) with (i0 * n + j0 + 1) by lia. exact Hi''.
Qed.

Theorem swap_loop_transposes :
  exists t', fold_left (swap_step swap_tbl) (all_indexes [n; n]) (Some t) = Some t' /\
    same_frame t' /\
    forall i j, i < n -> j < n ->
      nth_error (t_data t') (N.to_nat (i * n + j)) = nth_error data (N.to_nat (j * n + i)).
Proof.
  destruct (swap_loop_prefix (N.to_nat (n * n)) (le_n _)) as [t' [Hfold [Hf Hd]]].
  rewrite firstn_all2 in Hfold by (rewrite all_indexes_length, !prod_cons, prod_nil; lia).
  exists t'. split; [exact Hfold|]. split; [exact Hf|].
  intros i j Hi Hj. rewrite Hd by assumption.
  unfold pmin. destruct (N.ltb_spec (N.min (i * n + j) (j * n + i)) (N.of_nat (N.to_nat (n * n)))); [reflexivity|nia].
Qed.

(* ---- the identity ordering: every step writes back what it read ---- *)
Lemma id_step (t' : tensor A) i0 j0 : i0 < n -> j0 < n -> same_frame t' ->
  exists t'', swap_step (dm_no_op 2) (Some t') [i0; j0] = Some t'' /\ same_frame t'' /\
              t_data t'' = t_data t'.
Proof.
  intros Hi0 Hj0 Hf. unfold swap_step. cbn [nth].
  destruct (i0 <=? j0); [|exists t'; auto].
  change (map_dimensions_to_source (dm_no_op 2) [i0; j0] 0) with [i0; j0].
  rewrite !get_frame by assumption.
  destruct (nth_error (t_data t') (N.to_nat (i0 * n + j0))) as [temp|] eqn:Etemp.
  2:{ apply nth_error_None in Etemp. destruct Hf as [_ [_ Hl]]. pose proof (pos_lt i0 j0 Hi0 Hj0). lia. }
  destruct (set_frame t' i0 j0 temp Hf Hi0 Hj0) as [t1 [H1 [Hf1 Hn1]]]. rewrite H1.
  destruct (set_frame t1 i0 j0 temp Hf1 Hi0 Hj0) as [t2 [H2 [Hf2 Hn2]]]. rewrite H2.
  exists t2. split; [reflexivity|]. split; [exact Hf2|].
  apply nth_error_ext.
  - destruct Hf2 as [_ [_ L2]]. destruct Hf as [_ [_ L]]. lia.
  - intros k _. rewrite Hn2, Hn1.
    destruct (Nat.eqb_spec k (N.to_nat (i0 * n + j0))) as [->|]; [symmetry; exact Etemp|reflexivity].
Qed.

Lemma id_loop : forall l t', same_frame t' ->
  Forall (fun x => in_range x [n; n]) l ->
  exists t'', fold_left (swap_step (dm_no_op 2)) l (Some t') = Some t'' /\ same_frame t'' /\
              t_data t'' = t_data t'.
Proof.
  induction l as [|x l IH]; intros t' Hf Hall.
  - exists t'. auto.
  - inversion Hall as [|? ? Hx Hrest]; subst.
    destruct x as [|i0 [|j0 [|? ?]]]; cbn [in_range] in Hx; try tauto. destruct Hx as [Hi0 [Hj0 _]].
    destruct (id_step t' i0 j0 Hi0 Hj0 Hf) as [t1 [Hs [Hf1 Hd1]]].
    cbn [fold_left]. rewrite Hs.
    destruct (IH t1 Hf1 Hrest) as [t2 [Hfold [Hf2 Hd2]]].
    exists t2. split; [exact Hfold|]. split; [exact Hf2|]. congruence.
Qed.

End Square.

(* ---------- reorder_mut = reorder, transpose_mut = transpose, for every shape ---------- *)
Section InPlace.
Context {A : Type}.

Lemma square_2d (sh : shape) : Nat.eqb (length sh) 2 && is_square sh = true ->
  exists a b n, sh = [(a, n); (b, n)].
Proof.
  destruct sh as [|[a n] [|[b n'] [|? ?]]]; cbn; try discriminate.
  rewrite andb_true_r. intros H. apply N.eqb_eq in H. subst. eauto.
Qed.

Lemma view_elems_of_data (s : tsrc A) (d : list A) (n : N) :
  lens_of (src_shape s) = [n; n] -> N.of_nat (length d) = n * n ->
  (forall i j, i < n -> j < n -> src_get s [i; j] = nth_error d (N.to_nat (i * n + j))) ->
  iter_values s = d.
Proof.
  intros Hl Hlen Hget. rewrite iter_values_spec. unfold view_elems. rewrite Hl.
  rewrite (map_ext_in _ (fun x => nth_error d (N.to_nat (flat x [n; n])))).
  - rewrite <- (map_map (fun x => flat x [n; n]) (fun k => nth_error d (N.to_nat k))).
    rewrite all_indexes_flat, !prod_cons, prod_nil.
    replace (N.to_nat (n * (n * 1))) with (length d) by lia.
    pose proof (nth_error_enum d []) as E. cbn [app length N.of_nat] in E. rewrite E.
    apply somes_map_Some.
  - intros x Hin. pose proof (all_indexes_in_range [n; n]) as F. rewrite Forall_forall in F.
    specialize (F x Hin). destruct x as [|i [|j [|? ?]]]; cbn [in_range] in F; try tauto.
    destruct F as [Hi [Hj _]]. rewrite Hget by assumption. cbn [flat]. rewrite !prod_cons, prod_nil.
    f_equal. f_equal. lia.
Qed.

Theorem reorder_mut_eq_reorder (t : tensor A) dims :
  tensor_inv t -> elements (t_shape t) <= usize_max -> length dims = length (t_shape t) ->
  reorder_mut t dims = reorder (TBase t) dims.
Proof.
  intros Hinv Hb Hlen. unfold reorder_mut.
  destruct (Nat.eqb (length (t_shape t)) 2 && is_square (t_shape t)) eqn:Esq; [|reflexivity].
  destruct (square_2d _ Esq) as [a [b [n Hsh]]].
  unfold reorder. cbn [src_shape]. rewrite Hsh in *. cbn [length] in Hlen.
  destruct dims as [|x [|y [|? ?]]]; try discriminate.
  pose proof (ab_neq t a b n Hinv Hsh) as Hab. pose proof (n_pos t a b n Hinv Hsh) as Hn.
  pose proof (data_len t a b n Hinv Hsh) as Hdl.
  destruct (dm_new (names_of [(a, n); (b, n)]) [x; y]) as [tbl|] eqn:Hd; [|reflexivity].
  assert (Hcases : (x = a /\ y = b /\ tbl = dm_no_op 2) \/ (x = b /\ y = a /\ tbl = swap_tbl)).
  { unfold dm_new, dm_step in Hd. cbn [names_of map fst length seq nth index_of sequence option_map] in Hd.
    repeat match type of Hd with
           | context [Nat.eqb ?u ?u] => rewrite Nat.eqb_refl in Hd
           | context [Nat.eqb ?u ?v] => destruct (Nat.eqb_spec u v); [subst|]
           end; cbn [option_map sequence] in Hd; try congruence;
      try (injection Hd as <-; auto). }
  rewrite shape_iter_all_spec.
  destruct Hcases as [[-> [-> ->]]|[-> [-> ->]]].
  - (* identity ordering: the loop writes back what it reads *)
    change (map_shape_to_requested (dm_no_op 2) [(a, n); (b, n)]) with [(a, n); (b, n)].
    cbn [lens_of map snd].
    destruct (id_loop t a b n Hinv Hsh (all_indexes [n; n]) t) as [t' [Hfold [_ Hdata]]].
    { repeat split; reflexivity. }
    { apply all_indexes_in_range. }
    rewrite Hfold, Hdata.
    pose proof (no_op_access_values (TBase t)) as [Hs Hv]. cbn [src_shape] in Hs, Hv.
    rewrite Hsh in Hs, Hv. cbn [length] in Hs, Hv.
    rewrite Hv. destruct (tensor_view_elems t Hinv) as [_ [-> _]].
    rewrite <- Hsh.
    rewrite (tensor_inv_validate t Hinv ltac:(rewrite Hsh; exact Hb) (t_data t) eq_refl). f_equal.
    destruct Hinv as [_ [-> _]]. reflexivity.
  - (* the exchange of the two dimensions *)
    change (map_shape_to_requested swap_tbl [(a, n); (b, n)]) with [(b, n); (a, n)].
    cbn [lens_of map snd].
    destruct (swap_loop_transposes t a b n Hinv Hsh) as [t' [Hfold [[_ [_ Hl']] Htr]]].
    rewrite Hfold.
    assert (Hv : iter_values (TAccess (TBase t) swap_tbl) = t_data t').
    { apply (view_elems_of_data _ _ n).
      - cbn [src_shape]. rewrite Hsh. reflexivity.
      - rewrite Hl'. exact Hdl.
      - intros i j Hi Hj. cbn [src_get].
        change (map_dimensions_to_source swap_tbl [i; j] 0) with [j; i].
        rewrite (get_frame t a b n Hinv Hsh t) by (auto; repeat split; reflexivity).
        symmetry. apply Htr; assumption. }
    rewrite Hv. unfold tensor_from.
    assert (V : validate_dimensions [(b, n); (a, n)] (N.of_nat (length (t_data t'))) = true).
    { apply validate_dimensions_spec. unfold elements in *. cbn [lens_of map snd] in *.
      rewrite !prod_cons, prod_nil in *. split; [|split; lia].
      split.
      - cbn. constructor; [intros [E|[]]; congruence|]. constructor; [intros []|constructor].
      - cbn. repeat constructor; assumption. }
    rewrite V. reflexivity.
Qed.

Theorem transpose_mut_eq_transpose (t : tensor A) dims :
  tensor_inv t -> elements (t_shape t) <= usize_max -> length dims = length (t_shape t) ->
  transpose_mut t dims = transpose (TBase t) dims.
Proof.
  intros Hinv Hb Hlen. unfold transpose_mut, transpose.
  rewrite reorder_mut_eq_reorder by assumption. reflexivity.
Qed.

End InPlace.
