(* C13, continued: map_with_index and elementwise (with and without index) materialise the
   corresponding pointwise views; the Tensor forms equal the TensorView forms over the tensor
   itself; reshape / rename keep the row-major data. *)
From Coq Require Import List ZArith NArith Bool Arith Lia.
From EasyML Require Import Base.Sx Model.Shape Model.Tensor Model.TSource Model.ShapeIter
  Model.Transform Proofs.ShapeP Proofs.C01P Proofs.OdometerP Proofs.C09P Proofs.C13P.
Import ListNotations.
Open Scope N_scope.

Section Pointwise.
Context {A : Type}.

(* a total source is a function on its in-range indexes *)
Lemma total_fun (s : tsrc A) : good_view s ->
  exists val : list N -> A,
    (forall idx, in_range idx (lens_of (src_shape s)) -> src_get s idx = Some (val idx)) /\
    iter_values s = map val (all_indexes (lens_of (src_shape s))) /\
    iter_indexed s = map (fun idx => (idx, val idx)) (all_indexes (lens_of (src_shape s))).
Proof.
  intros [Hv [Hb Ht]].
  assert (Hall : forall idx, In idx (all_indexes (lens_of (src_shape s))) -> in_range idx (lens_of (src_shape s))).
  { pose proof (all_indexes_in_range (lens_of (src_shape s))) as F. rewrite Forall_forall in F. exact F. }
  assert (Hx0 : exists x0 : A, True).
  { destruct (all_indexes (lens_of (src_shape s))) as [|i0 rest] eqn:Eall.
    - exfalso. pose proof (all_indexes_length (lens_of (src_shape s))) as L. rewrite Eall in L.
      destruct Hv as [_ Hp]. pose proof (prod_pos _ Hp). cbn [length] in L. lia.
    - destruct (Ht i0 (Hall i0 (or_introl eq_refl))) as [x0 _]. exists x0. exact I. }
  destruct Hx0 as [x0 _].
  exists (fun idx => match src_get s idx with Some x => x | None => x0 end).
  assert (Hget : forall idx, in_range idx (lens_of (src_shape s)) ->
            src_get s idx = Some (match src_get s idx with Some x => x | None => x0 end)).
  { intros idx Hr. destruct (Ht idx Hr) as [x ->]. reflexivity. }
  split; [exact Hget|]. split.
  - rewrite iter_values_spec. unfold view_elems.
    rewrite (map_ext_in (src_get s) (fun idx => Some (match src_get s idx with Some x => x | None => x0 end))).
    + rewrite <- (map_map (fun idx => match src_get s idx with Some x => x | None => x0 end) Some).
      apply somes_map_Some.
    + intros idx Hin. apply Hget, Hall. exact Hin.
  - rewrite iter_indexed_spec.
    rewrite (map_ext_in _ (fun idx => Some (idx, match src_get s idx with Some x => x | None => x0 end))).
    + rewrite <- (map_map (fun idx => (idx, match src_get s idx with Some x => x | None => x0 end)) Some).
      apply somes_map_Some.
    + intros idx Hin. rewrite (Hget idx) at 1 by (apply Hall; exact Hin). reflexivity.
Qed.

Lemma combine_map_same {X Y Z} (f : X -> Y) (g : X -> Z) l :
  combine (map f l) (map g l) = map (fun x => (f x, g x)) l.
Proof. induction l as [|x l IH]; cbn [map combine]; [reflexivity|]. f_equal. exact IH. Qed.

(* TensorView::map_with_index *)
Theorem view_map_with_index_materialises {B} (f : list N -> A -> B) (s : tsrc A) : good_view s ->
  exists t, view_map_with_index f s = Ok t /\
            materialises t (src_shape s) (fun idx => option_map (f idx) (src_get s idx)).
Proof.
  intros Hg. destruct (total_fun s Hg) as [val [Hget [_ Hix]]]. destruct Hg as [Hv [Hb _]].
  unfold view_map_with_index. rewrite Hix, map_map. cbn [fst snd].
  destruct (from_enumeration (src_shape s) (fun idx => f idx (val idx)) Hv Hb) as [t [Hok [[Hsh [Hst Hm]] _]]].
  exists t. split; [exact Hok|]. repeat split; auto.
  intros idx Hr. rewrite Hm, Hget by exact Hr. reflexivity.
Qed.

Definition zip_get (f : A -> A -> A) (l r : tsrc A) (idx : list N) : option A :=
  match src_get l idx, src_get r idx with
  | Some x, Some y => Some (f x y)
  | _, _ => None
  end.

(* TensorView::elementwise: equal shapes, else panic; the pointwise combination *)
Theorem view_elementwise_materialises (f : A -> A -> A) (l r : tsrc A) :
  good_view l -> good_view r ->
  (src_shape l = src_shape r ->
   exists t, view_elementwise f l r = Ok t /\ materialises t (src_shape l) (zip_get f l r)) /\
  (src_shape l <> src_shape r -> view_elementwise f l r = Panic).
Proof.
  intros Hl Hr. unfold view_elementwise. split.
  - intros Hs. rewrite (proj2 (shape_eqb_eq _ _) Hs).
    destruct (total_fun l Hl) as [vl [Hgl [Hvl _]]]. destruct (total_fun r Hr) as [vr [Hgr [Hvr _]]].
    destruct Hl as [Hv [Hb _]].
    rewrite Hvl, Hvr, <- Hs, combine_map_same, map_map. cbn [fst snd].
    destruct (from_enumeration (src_shape l) (fun idx => f (vl idx) (vr idx)) Hv Hb) as [t [Hok [[Hsh [Hst Hm]] _]]].
    exists t. split; [exact Hok|]. repeat split; auto.
    intros idx Hi. rewrite Hm by exact Hi. unfold zip_get.
    rewrite Hgl by exact Hi. rewrite Hgr by (rewrite <- Hs; exact Hi). reflexivity.
  - intros Hs. destruct (shape_eqb (src_shape l) (src_shape r)) eqn:E; [|reflexivity].
    apply shape_eqb_eq in E. contradiction.
Qed.

Theorem view_elementwise_with_index_materialises (f : list N -> A -> A -> A) (l r : tsrc A) :
  good_view l -> good_view r -> src_shape l = src_shape r ->
  exists t, view_elementwise_with_index f l r = Ok t /\
            materialises t (src_shape l) (fun idx => zip_get (f idx) l r idx).
Proof.
  intros Hl Hr Hs. unfold view_elementwise_with_index. rewrite (proj2 (shape_eqb_eq _ _) Hs).
  destruct (total_fun l Hl) as [vl [Hgl [_ Hil]]]. destruct (total_fun r Hr) as [vr [Hgr [Hvr _]]].
  destruct Hl as [Hv [Hb _]].
  rewrite Hil, Hvr, <- Hs, combine_map_same, map_map. cbn [fst snd].
  destruct (from_enumeration (src_shape l) (fun idx => f idx (vl idx) (vr idx)) Hv Hb) as [t [Hok [[Hsh [Hst Hm]] _]]].
  exists t. split; [exact Hok|]. repeat split; auto.
  intros idx Hi. rewrite Hm by exact Hi. unfold zip_get.
  rewrite Hgl by exact Hi. rewrite Hgr by (rewrite <- Hs; exact Hi). reflexivity.
Qed.

(* ---- the Tensor forms are the view forms over the tensor itself ---- *)
Lemma good_tensor (t : tensor A) : tensor_inv t -> elements (t_shape t) <= usize_max ->
  good_view (TBase t).
Proof.
  intros Hi Hb. split; [apply Hi|]. split; [exact Hb|]. apply (tensor_view_elems t Hi).
Qed.

Theorem tensor_map_with_index_eq_view {B} (f : list N -> A -> B) (t : tensor A) :
  tensor_inv t -> elements (t_shape t) <= usize_max ->
  view_map_with_index f (TBase t) = Ok (tensor_map_with_index f t).
Proof.
  intros Hi Hb. unfold view_map_with_index, tensor_map_with_index. cbn [src_shape].
  apply tensor_inv_validate; auto.
  destruct (total_fun (TBase t) (good_tensor t Hi Hb)) as [val [_ [Hv Hix]]].
  rewrite map_length, Hix, map_length.
  destruct (tensor_view_elems t Hi) as [_ [Hd _]]. rewrite <- Hd, Hv, map_length. reflexivity.
Qed.

Theorem tensor_elementwise_eq_view (f : A -> A -> A) (t : tensor A) (rhs : tsrc A) :
  tensor_inv t -> elements (t_shape t) <= usize_max -> good_view rhs ->
  tensor_elementwise f t rhs = view_elementwise f (TBase t) rhs.
Proof.
  intros Hi Hb Hr. unfold tensor_elementwise, view_elementwise. cbn [src_shape].
  destruct (shape_eqb (t_shape t) (src_shape rhs)) eqn:E; [|reflexivity].
  apply shape_eqb_eq in E.
  destruct (tensor_view_elems t Hi) as [_ [Hd _]]. rewrite Hd.
  symmetry. apply tensor_inv_validate; auto.
  rewrite map_length, combine_length.
  destruct (total_fun rhs Hr) as [val [_ [Hv _]]]. rewrite Hv, map_length, all_indexes_length, <- E.
  destruct Hi as [_ [_ He]]. unfold elements in He. lia.
Qed.

Theorem tensor_elementwise_with_index_eq_view (f : list N -> A -> A -> A) (t : tensor A) (rhs : tsrc A) :
  tensor_inv t -> elements (t_shape t) <= usize_max -> good_view rhs ->
  tensor_elementwise_with_index f t rhs = view_elementwise_with_index f (TBase t) rhs.
Proof.
  intros Hi Hb Hr. unfold tensor_elementwise_with_index, view_elementwise_with_index. cbn [src_shape].
  destruct (shape_eqb (t_shape t) (src_shape rhs)) eqn:E; [|reflexivity].
  apply shape_eqb_eq in E.
  destruct (total_fun (TBase t) (good_tensor t Hi Hb)) as [vl [_ [Hvl Hil]]].
  destruct (total_fun rhs Hr) as [vr [_ [Hvr Hir]]].
  destruct (tensor_view_elems t Hi) as [_ [Hd _]]. rewrite <- Hd, Hvl, Hil, Hvr, Hir.
  cbn [src_shape]. rewrite <- E, !combine_map_same, !map_map. cbn [fst snd].
  symmetry. apply tensor_inv_validate; auto.
  rewrite map_length. cbn [src_shape] in Hvl. rewrite <- Hd, Hvl, map_length. reflexivity.
Qed.

(* ---- reshape and rename keep the row-major data ---- *)
Theorem reshape_spec (t : tensor A) (sh : shape) :
  reshape_mut t sh = reshape_owned t sh /\
  ((valid_shape sh /\ elements sh = N.of_nat (length (t_data t)) /\ elements sh <= usize_max) ->
   reshape_mut t sh = Ok (mkTensor (t_data t) sh (compute_strides sh))) /\
  (~ (valid_shape sh /\ elements sh = N.of_nat (length (t_data t)) /\ elements sh <= usize_max) ->
   reshape_mut t sh = Panic).
Proof.
  unfold reshape_mut, reshape_owned, tensor_from. split; [reflexivity|].
  rewrite <- validate_dimensions_spec.
  destruct (validate_dimensions sh (N.of_nat (length (t_data t)))); split; intros H; auto; try discriminate.
  exfalso. apply H. reflexivity.
Qed.

(* reading the reshaped tensor at an index = reading the old storage at that row-major position *)
Theorem reshape_reads (t : tensor A) (sh : shape) idx :
  valid_shape sh -> elements sh = N.of_nat (length (t_data t)) -> elements sh <= usize_max ->
  in_range idx (lens_of sh) ->
  t_get (mkTensor (t_data t) sh (compute_strides sh)) idx =
  nth_error (t_data t) (N.to_nat (flat idx (lens_of sh))).
Proof.
  intros _ _ _ Hr.
  apply (t_get_flat (mkTensor (t_data t) sh (compute_strides sh)) idx); cbn; auto.
Qed.

Theorem rename_spec (t : tensor A) dims : length dims = length (t_shape t) ->
  (NoDup dims -> exists t', rename t dims = Ok t' /\ t_data t' = t_data t /\
                            t_strides t' = t_strides t /\ names_of (t_shape t') = dims /\
                            lens_of (t_shape t') = lens_of (t_shape t)) /\
  (~ NoDup dims -> rename t dims = Panic).
Proof.
  intros Hl. unfold rename. split.
  - intros Hn. rewrite (proj2 (has_duplicates_false dims) Hn). eexists. split; [reflexivity|].
    cbn [t_data t_strides t_shape]. repeat split.
    + revert dims Hl Hn. induction (t_shape t) as [|d sh IH]; intros [|x dims] Hl Hn; cbn [length] in Hl; try lia;
        [reflexivity|]. cbn [combine map names_of fst snd]. f_equal.
      inversion Hn; subst. apply IH; [lia|assumption].
    + clear Hn. revert dims Hl. induction (t_shape t) as [|d sh IH]; intros [|x dims] Hl; cbn [length] in Hl; try lia;
        [reflexivity|]. cbn [combine map lens_of fst snd]. f_equal. apply IH. lia.
  - intros Hn. destruct (has_duplicates dims) eqn:E; [reflexivity|].
    apply has_duplicates_false in E. contradiction.
Qed.

End Pointwise.
