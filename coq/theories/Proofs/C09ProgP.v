(* C09: programs of Iterator::nth calls (Model/IterProg.v).
   For every iterator whose unfolding by next() has a closed form E (call number q returns E q;
   E is (None, 0) from `total` on and yields an item before), a program of nth(n) calls — the
   provided method: advance_by(n) then next() — returns exactly E at the running positions
   n1, n1 + n2 + 1, ... and, once a call ran past the end, (None, 0) forever: the iterator is
   left exhausted, its reported length is the number of items still to come at every point. *)
From Coq Require Import List ZArith NArith Bool Arith Lia.
From EasyML Require Import Base.Sx Model.Shape Model.Tensor Model.TSource Model.ShapeIter
  Model.MatrixIter Model.Transform Model.IterG Model.IterProg
  Proofs.ShapeP Proofs.OdometerP Proofs.C09P Proofs.C09GenP.
Import ListNotations.
Open Scope N_scope.

Section ProgSpec.
Context {St I : Type}.
Variable next : St -> option I * St.
Variable len : St -> N.
Variable E : nat -> option I * N.
Variable s0 : St.
Variable total : nat.
Hypothesis H : forall k, fst (drive next len k s0) = map E (seq 0 k).
Hypothesis Hpast : forall q, (total <= q)%nat -> E q = (None, 0).
Hypothesis Hin : forall q, (q < total)%nat -> exists x, fst (E q) = Some x.

(* the state after m calls of next() *)
Definition st (m : nat) : St := snd (drive next len m s0).

Lemma drive_snoc : forall m s,
  fst (drive next len (S m) s) =
    fst (drive next len m s) ++
    [(fst (next (snd (drive next len m s))), len (snd (next (snd (drive next len m s)))))] /\
  snd (drive next len (S m) s) = snd (next (snd (drive next len m s))).
Proof.
  induction m as [|m IH]; intros s.
  - cbn [drive fst snd]. destruct (next s) as [x s']. cbn [fst snd app]. split; reflexivity.
  - destruct (IH (snd (next s))) as [I1 I2].
    assert (U : forall k, drive next len (S k) s =
              ((fst (next s), len (snd (next s))) :: fst (drive next len k (snd (next s))),
               snd (drive next len k (snd (next s))))).
    { intros k. cbn [drive]. destruct (next s) as [x s']. cbn [fst snd].
      destruct (drive next len k s') as [rest s'']. reflexivity. }
    rewrite (U (S m)), (U m). cbn [fst snd]. rewrite I1, I2. split; reflexivity.
Qed.

Lemma next_at m : next (st m) = (fst (E m), st (S m)) /\ len (st (S m)) = snd (E m).
Proof.
  unfold st. destruct (drive_snoc m s0) as [D1 D2].
  pose proof (H (S m)) as HS. rewrite D1, (H m), seq_S, map_app in HS. cbn [map plus] in HS.
  apply app_inv_head in HS. injection HS as HS.
  rewrite D2, <- HS. cbn [fst snd]. split; [|reflexivity].
  destruct (next (snd (drive next len m s0))) as [x s']. reflexivity.
Qed.

Lemma advance_spec : forall n m,
  advance next n (st m) =
  if (Nat.eqb n 0) || (Nat.leb (m + n) total) then (true, st (m + n)%nat)
  else (false, st (S (Nat.max m total))).
Proof.
  induction n as [|n IH]; intros m.
  - cbn [advance Nat.eqb orb]. rewrite Nat.add_0_r. reflexivity.
  - cbn [advance Nat.eqb orb]. rewrite (proj1 (next_at m)).
    destruct (Nat.lt_ge_cases m total) as [Hlt|Hge].
    + destruct (Hin m Hlt) as [x Hx]. rewrite Hx. rewrite IH.
      replace (S m + n)%nat with (m + S n)%nat by lia.
      destruct n as [|n'].
      * cbn [Nat.eqb orb]. replace (Nat.leb (m + 1) total) with true by (symmetry; apply Nat.leb_le; lia).
        reflexivity.
      * cbn [Nat.eqb orb]. destruct (Nat.leb (m + S (S n')) total); [reflexivity|].
        replace (Nat.max (S m) total) with (Nat.max m total) by lia. reflexivity.
    + rewrite (Hpast m Hge). cbn [fst].
      replace (Nat.leb (m + S n) total) with false by (symmetry; apply Nat.leb_gt; lia).
      replace (Nat.max m total) with m by lia. reflexivity.
Qed.

(* one nth(n) call from the state after m calls of next() *)
Lemma nth_spec n m :
  exists m', nth_default next n (st m) = (fst (if (Nat.eqb n 0) || (Nat.leb (m + n) total) then E (m + n)%nat else (None, 0)), st m') /\
             len (st m') = snd (if (Nat.eqb n 0) || (Nat.leb (m + n) total) then E (m + n)%nat else (None, 0)) /\
             m' = (if (Nat.eqb n 0) || (Nat.leb (m + n) total) then S (m + n) else S (Nat.max m total)).
Proof.
  unfold nth_default. rewrite advance_spec.
  destruct ((Nat.eqb n 0) || (Nat.leb (m + n) total)).
  - exists (S (m + n)). destruct (next_at (m + n)) as [N1 N2]. rewrite N1. auto.
  - exists (S (Nat.max m total)). split; [reflexivity|]. split; [|reflexivity].
    destruct (next_at (Nat.max m total)) as [_ N2]. rewrite N2, Hpast by lia. reflexivity.
Qed.

(* m = calls of next() made so far, p = position of the next call in the ideal (never ending
   early) count: equal until a call has run past the end, both beyond `total` afterwards *)
Definition Inv (m p : nat) : Prop := m = p \/ (total <= m /\ total <= p)%nat.

Lemma drive_prog_from : forall prog m p, Inv m p ->
  fst (drive_prog next len prog (st m)) = map E (positions prog p).
Proof.
  induction prog as [|n prog IH]; intros m p Hi; [reflexivity|].
  cbn [drive_prog positions map].
  destruct (nth_spec n m) as [m' [N1 [N2 N3]]].
  assert (Hout : (if (Nat.eqb n 0) || (Nat.leb (m + n) total) then E (m + n)%nat else (None, 0)) = E (p + n)%nat).
  { destruct Hi as [->|[Hm Hp]].
    - destruct ((Nat.eqb n 0) || (Nat.leb (p + n) total)) eqn:C; [reflexivity|].
      apply orb_false_iff in C as [_ C]. apply Nat.leb_gt in C. rewrite Hpast by lia. reflexivity.
    - rewrite (Hpast (p + n)) by lia.
      destruct ((Nat.eqb n 0) || (Nat.leb (m + n) total)); [|reflexivity]. apply Hpast. lia. }
  assert (Hi' : Inv m' (p + n + 1)).
  { rewrite N3. destruct Hi as [->|[Hm Hp]].
    - destruct ((Nat.eqb n 0) || (Nat.leb (p + n) total)) eqn:C; [left; lia|].
      apply orb_false_iff in C as [_ C]. apply Nat.leb_gt in C. right. lia.
    - right. destruct ((Nat.eqb n 0) || (Nat.leb (m + n) total)); lia. }
  specialize (IH m' (p + n + 1)%nat Hi').
  rewrite Hout in N1, N2. rewrite N1.
  destruct (drive_prog next len prog (st m')) as [out sf]. cbn [fst] in *.
  rewrite N2, IH. f_equal. destruct (E (p + n)%nat); reflexivity.
Qed.

(* from the initial state *)
Theorem drive_prog_spec prog :
  fst (drive_prog next len prog s0) = map E (positions prog 0).
Proof. apply (drive_prog_from prog 0 0). left. reflexivity. Qed.

(* ---- every script stays on the states that plain next() calls reach ---- *)
Lemma next_reach m : snd (next (st m)) = st (S m).
Proof. rewrite (proj1 (next_at m)). reflexivity. Qed.

Lemma nth_reach n m : exists m', snd (nth_default next n (st m)) = st m' /\ (m <= m')%nat.
Proof.
  destruct (nth_spec n m) as [m' [N1 [_ N3]]]. exists m'. rewrite N1. split; [reflexivity|].
  rewrite N3. destruct ((Nat.eqb n 0) || (Nat.leb (m + n) total)); lia.
Qed.

Lemma collect_upto_reach (f : St -> option I * St) :
  (forall m, exists m', snd (f (st m)) = st m' /\ (m <= m')%nat) ->
  forall j m, exists m', snd (collect_upto f j (st m)) = st m' /\ (m <= m')%nat.
Proof.
  intros Hf. induction j as [|j IH]; intros m; [exists m; split; [reflexivity|lia]|].
  cbn [collect_upto]. destruct (Hf m) as [m1 [E1 L1]].
  destruct (f (st m)) as [[x|] s1]; cbn [snd] in E1; subst s1.
  - destruct (IH m1) as [m2 [E2 L2]]. destruct (collect_upto f j (st m1)) as [xs s2]. cbn [snd] in *.
    exists m2. split; [exact E2|lia].
  - exists m1. split; [reflexivity|exact L1].
Qed.

Lemma next_reach' m : exists m', snd (next (st m)) = st m' /\ (m <= m')%nat.
Proof. exists (S m). split; [apply next_reach|lia]. Qed.

Theorem run_script_reach : forall script m,
  exists m', snd (run_script next len script (st m)) = st m' /\ (m <= m')%nat.
Proof.
  induction script as [|stp script IH]; intros m; [exists m; split; [reflexivity|lia]|].
  assert (Hdrain : exists m', snd (drain next len (st m)) = st m' /\ (m <= m')%nat).
  { unfold drain. apply collect_upto_reach. exact next_reach'. }
  destruct stp as [n|n|k j|j| | |]; cbn [run_script].
  - destruct (nth_reach n m) as [m1 [E1 L1]]. destruct (nth_default next n (st m)) as [x s1]. cbn [snd] in E1. subst s1.
    destruct (IH m1) as [m2 [E2 L2]]. destruct (run_script next len script (st m1)) as [out s2]. cbn [snd] in *.
    exists m2. split; [exact E2|lia].
  - destruct (nth_reach n m) as [m1 [E1 L1]]. destruct (nth_default next n (st m)) as [x s1]. cbn [snd] in E1. subst s1.
    destruct (IH m1) as [m2 [E2 L2]]. destruct (run_script next len script (st m1)) as [out s2]. cbn [snd] in *.
    exists m2. split; [exact E2|lia].
  - assert (Hs : exists m1, snd (step_by_collect next k j (st m)) = st m1 /\ (m <= m1)%nat).
    { unfold step_by_collect. destruct j as [|j']; [exists m; split; [reflexivity|lia]|].
      rewrite (proj1 (next_at m)). destruct (fst (E m)) as [x|].
      - destruct (collect_upto_reach (nth_default next (k - 1)) (nth_reach (k - 1)) j' (S m)) as [m1 [E1 L1]].
        destruct (collect_upto (nth_default next (k - 1)) j' (st (S m))) as [xs s1]. cbn [snd] in *.
        exists m1. split; [exact E1|lia].
      - exists (S m). split; [reflexivity|lia]. }
    destruct Hs as [m1 [E1 L1]]. destruct (step_by_collect next k j (st m)) as [xs s1]. cbn [snd] in E1. subst s1.
    destruct (IH m1) as [m2 [E2 L2]]. destruct (run_script next len script (st m1)) as [out s2]. cbn [snd] in *.
    exists m2. split; [exact E2|lia].
  - destruct (collect_upto_reach next next_reach' j m) as [m1 [E1 L1]].
    destruct (collect_upto next j (st m)) as [xs s1]. cbn [snd] in E1. subst s1.
    destruct (IH m1) as [m2 [E2 L2]]. destruct (run_script next len script (st m1)) as [out s2]. cbn [snd] in *.
    exists m2. split; [exact E2|lia].
  - destruct Hdrain as [m1 [E1 L1]]. destruct (drain next len (st m)) as [xs s1]. cbn [snd] in *. eauto.
  - destruct Hdrain as [m1 [E1 L1]]. destruct (drain next len (st m)) as [xs s1]. cbn [snd] in *. eauto.
  - destruct Hdrain as [m1 [E1 L1]]. destruct (drain next len (st m)) as [xs s1]. cbn [snd] in *. eauto.
Qed.

(* from any such state plain next() calls continue the closed form *)
Lemma drive_from_st : forall k m, fst (drive next len k (st m)) = map E (seq m k).
Proof.
  induction k as [|k IH]; intros m; [reflexivity|].
  rewrite drive_S. destruct (next_at m) as [N1 N2]. rewrite N1. cbn [fst snd seq map].
  rewrite N2, IH. f_equal. destruct (E m); reflexivity.
Qed.

(* after ANY script over nth / skip / step_by / take (and the terminal count / last / fold) the
   iterator continues exactly where some number m' of plain next() calls would have left it:
   the same items, the same exact lengths, (None, 0) forever once m' + j reaches `total` *)
Theorem after_script_spec script :
  exists m', forall k,
    fst (drive next len k (snd (run_script next len script s0))) = map E (seq m' k).
Proof.
  destruct (run_script_reach script 0) as [m' [E1 _]]. exists m'. intros k.
  change s0 with (st 0). rewrite E1. apply drive_from_st.
Qed.

(* a script of nth calls only is the program of Model/IterProg.v `drive_prog` *)
Lemma script_of_nth : forall prog s,
  run_script next len (map PNth prog) s =
  (map (fun o => OItem (fst o) (snd o)) (fst (drive_prog next len prog s)), snd (drive_prog next len prog s)).
Proof.
  induction prog as [|n prog IH]; intros s; [reflexivity|].
  cbn [map run_script drive_prog]. destruct (nth_default next n s) as [x s1]. rewrite IH.
  destruct (drive_prog next len prog s1) as [out s2]. reflexivity.
Qed.

End ProgSpec.

(* ---------- packaging ---------- *)
Definition closed_form {St I} (next : St -> option I * St) (len : St -> N) (s0 : St)
           (E : nat -> option I * N) (total : nat) : Prop :=
  (forall k, fst (drive next len k s0) = map E (seq 0 k)) /\
  (forall q, (total <= q)%nat -> E q = (None, 0)) /\
  (forall q, (q < total)%nat -> exists x, fst (E q) = Some x).

Theorem closed_form_prog {St I} (next : St -> option I * St) len s0 E total prog :
  closed_form next len s0 E total ->
  fst (drive_prog next len prog s0) = map E (positions prog 0).
Proof. intros [H [Hp Hi]]. exact (drive_prog_spec next len E s0 total H Hp Hi prog). Qed.

Theorem closed_form_after_script {St I} (next : St -> option I * St) len s0 E total script :
  closed_form next len s0 E total ->
  exists m', forall k, fst (drive next len k (snd (run_script next len script s0))) = map E (seq m' k).
Proof. intros [H [Hp Hi]]. exact (after_script_spec next len E s0 total H Hp Hi script). Qed.

(* ---------- instances ---------- *)
(* ShapeIterator *)
Theorem shape_iter_prog sh prog :
  fst (drive_prog iter_next iter_len prog (shape_iter_from sh)) =
  map (fun q => expected (lens_of sh) (N.of_nat q)) (positions prog 0).
Proof.
  apply (drive_prog_spec iter_next iter_len (fun q => expected (lens_of sh) (N.of_nat q))
           (shape_iter_from sh) (N.to_nat (prod (lens_of sh)))).
  - intros k. exact (shape_iter_outs sh k).
  - intros q Hq. unfold expected. destruct (N.ltb_spec (N.of_nat q) (prod (lens_of sh))); [lia|reflexivity].
  - intros q Hq. unfold expected. destruct (N.ltb_spec (N.of_nat q) (prod (lens_of sh))); [|lia].
    cbn [fst]. rewrite Nat2N.id.
    destruct (nth_error (all_indexes (lens_of sh)) q) as [x|] eqn:En; [eauto|].
    apply nth_error_None in En. rewrite all_indexes_length in En. lia.
Qed.

(* tensor iterators (copy / reference / mutable) over any source *)
Theorem gen_tensor_iter_prog {St A} (o : tsource St A) (s : St) prog :
  fst (drive_prog (gti_next o) gti_len prog (gti_from o s)) =
  map (fun q => let e := expected (lens_of (ts_shape o s)) (N.of_nat q) in
                (option_map (fun idx => (idx, ts_get o s idx)) (fst e), snd e)) (positions prog 0).
Proof.
  apply (drive_prog_spec (gti_next o) gti_len
           (fun q => let e := expected (lens_of (ts_shape o s)) (N.of_nat q) in
                     (option_map (fun idx => (idx, ts_get o s idx)) (fst e), snd e))
           (gti_from o s) (N.to_nat (prod (lens_of (ts_shape o s))))).
  - intros k. rewrite gti_drive, shape_iter_outs. unfold with_elements. rewrite map_map. reflexivity.
  - intros q Hq. cbv zeta. unfold expected.
    destruct (N.ltb_spec (N.of_nat q) (prod (lens_of (ts_shape o s)))); [lia|reflexivity].
  - intros q Hq. cbv zeta. unfold expected.
    destruct (N.ltb_spec (N.of_nat q) (prod (lens_of (ts_shape o s)))); [|lia].
    cbn [fst]. rewrite Nat2N.id.
    destruct (nth_error (all_indexes (lens_of (ts_shape o s))) q) as [x|] eqn:En; [cbn; eauto|].
    apply nth_error_None in En. rewrite all_indexes_length in En. lia.
Qed.

(* row-/column-major matrix iterators over any source *)
Theorem gen_major_iter_prog {St A} (o : msource St A) rm (s : St) prog :
  let rows := mo_rows o s in let cols := mo_cols o s in
  fst (drive_prog (gmi_next o) gmi_len prog (gmi_from o rm s)) =
  map (fun q => cexpected (rows * cols)
                  (fun q => let p := mi_place rm rows cols q in (p, mo_get o s p)) (N.of_nat q))
      (positions prog 0).
Proof.
  cbv zeta.
  apply (drive_prog_spec (gmi_next o) gmi_len
           (fun q => cexpected (mo_rows o s * mo_cols o s)
                       (fun q => let p := mi_place rm (mo_rows o s) (mo_cols o s) q in (p, mo_get o s p)) (N.of_nat q))
           (gmi_from o rm s) (N.to_nat (mo_rows o s * mo_cols o s))).
  - intros k. exact (proj1 (gen_major_iter_spec o rm s k)).
  - intros q Hq. unfold cexpected. destruct (N.ltb_spec (N.of_nat q) (mo_rows o s * mo_cols o s)); [lia|reflexivity].
  - intros q Hq. unfold cexpected. destruct (N.ltb_spec (N.of_nat q) (mo_rows o s * mo_cols o s)); [|lia].
    cbn [fst]. eauto.
Qed.

(* ---------- the iterator families have closed forms ---------- *)
Theorem shape_iter_closed_form sh :
  closed_form iter_next iter_len (shape_iter_from sh)
              (fun q => expected (lens_of sh) (N.of_nat q)) (N.to_nat (prod (lens_of sh))).
Proof.
  split; [intros k; exact (shape_iter_outs sh k)|]. split.
  - intros q Hq. unfold expected. destruct (N.ltb_spec (N.of_nat q) (prod (lens_of sh))); [lia|reflexivity].
  - intros q Hq. unfold expected. destruct (N.ltb_spec (N.of_nat q) (prod (lens_of sh))); [|lia].
    cbn [fst]. rewrite Nat2N.id.
    destruct (nth_error (all_indexes (lens_of sh)) q) as [x|] eqn:En; [eauto|].
    apply nth_error_None in En. rewrite all_indexes_length in En. lia.
Qed.

Theorem gen_tensor_iter_closed_form {St A} (o : tsource St A) (s : St) :
  closed_form (gti_next o) gti_len (gti_from o s)
    (fun q => let e := expected (lens_of (ts_shape o s)) (N.of_nat q) in
              (option_map (fun idx => (idx, ts_get o s idx)) (fst e), snd e))
    (N.to_nat (prod (lens_of (ts_shape o s)))).
Proof.
  split; [|split].
  - intros k. rewrite gti_drive, shape_iter_outs. unfold with_elements. rewrite map_map. reflexivity.
  - intros q Hq. cbv zeta. unfold expected.
    destruct (N.ltb_spec (N.of_nat q) (prod (lens_of (ts_shape o s)))); [lia|reflexivity].
  - intros q Hq. cbv zeta. unfold expected.
    destruct (N.ltb_spec (N.of_nat q) (prod (lens_of (ts_shape o s)))); [|lia].
    cbn [fst]. rewrite Nat2N.id.
    destruct (nth_error (all_indexes (lens_of (ts_shape o s))) q) as [x|] eqn:En; [cbn; eauto|].
    apply nth_error_None in En. rewrite all_indexes_length in En. lia.
Qed.

Theorem gen_major_iter_closed_form {St A} (o : msource St A) rm (s : St) :
  closed_form (gmi_next o) gmi_len (gmi_from o rm s)
    (fun q => cexpected (mo_rows o s * mo_cols o s)
                (fun q => let p := mi_place rm (mo_rows o s) (mo_cols o s) q in (p, mo_get o s p)) (N.of_nat q))
    (N.to_nat (mo_rows o s * mo_cols o s)).
Proof.
  split; [intros k; exact (proj1 (gen_major_iter_spec o rm s k))|]. split.
  - intros q Hq. unfold cexpected. destruct (N.ltb_spec (N.of_nat q) (mo_rows o s * mo_cols o s)); [lia|reflexivity].
  - intros q Hq. unfold cexpected. destruct (N.ltb_spec (N.of_nat q) (mo_rows o s * mo_cols o s)); [|lia].
    cbn [fst]. eauto.
Qed.

Theorem gen_line_iter_closed_form {St A} (o : msource St A) kind fixed n (s : St) :
  closed_form (gli_next o) gli_len (mkGI (mkLC kind fixed (0, n)) s)
    (fun q => cexpected n (fun q => let p := lc_place (mkLC kind fixed (0, n)) q in (p, mo_get o s p)) (N.of_nat q))
    (N.to_nat n).
Proof.
  split; [intros k; exact (proj1 (gen_line_iter_spec o kind fixed n s k))|]. split.
  - intros q Hq. unfold cexpected. destruct (N.ltb_spec (N.of_nat q) n); [lia|reflexivity].
  - intros q Hq. unfold cexpected. destruct (N.ltb_spec (N.of_nat q) n); [|lia]. cbn [fst]. eauto.
Qed.
