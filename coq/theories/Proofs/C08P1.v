(* C08, Cholesky and LDL^T (stdlib style): soundness of the transcribed row-by-row Cholesky and
   column-by-column LDL^T of Model/Decomp.v, over ANY ordered field with a square-root oracle,
   given as Section hypotheses on the dictionary `ops`:
     ring laws; (1 / x) * x = 1 for x <> 0; a strict order `lt` that the code's test decides
     (`x <= y` is false exactly when y < x); sqrt x * sqrt x = x and 0 < sqrt x for 0 < x.
   The hypotheses are satisfiable: instantiated with Coq's reals at the end (Example). *)
From Coq Require Import List Arith Lia Ring Bool.
From EasyML Require Import Base.Sx Model.Num Model.LinAlg Model.Decomp Proofs.C07P1.
Import ListNotations.

Section Sound.
Context {R : Type} (ops : numops R).
Hypothesis Rth : ring_theory (nzero ops) (none_ ops) (nadd ops) (nmul ops) (nsub ops) (nneg ops) (@eq R).
Add Ring Rring8 : Rth.
Notation rO := (nzero ops).
Notation rI := (none_ ops).
Notation "x [+] y" := (nadd ops x y) (at level 50, left associativity).
Notation "x [-] y" := (nsub ops x y) (at level 50, left associativity).
Notation "x [*] y" := (nmul ops x y) (at level 40, left associativity).

Variable lt : R -> R -> Prop.
Hypothesis lt_irrefl : forall x, ~ lt x x.
Hypothesis leb_false : forall x y, nleb ops x y = false <-> lt y x.
Hypothesis div_mul : forall x, x <> rO -> ndiv ops rI x [*] x = rI.
Hypothesis eqb_spec : forall x y, neqb ops x y = true <-> x = y.
Hypothesis sqrt_sqrt : forall x, lt rO x -> nsqrt ops x [*] nsqrt ops x = x.
Hypothesis sqrt_pos : forall x, lt rO x -> lt rO (nsqrt ops x).

Lemma pos_nz x : lt rO x -> x <> rO.
Proof. intros H E. subst. exact (lt_irrefl _ H). Qed.

Notation dot := (dot ops).
Notation mget := (mget ops).

Lemma dot_app_l u u' v j : j <= length u -> dot (u ++ u') v j = dot u v j.
Proof.
  induction j; intros H; simpl; auto. rewrite IHj by lia. rewrite app_nth1 by lia. reflexivity.
Qed.
Lemma dot_app_r u v v' j : j <= length v -> dot u (v ++ v') j = dot u v j.
Proof.
  induction j; intros H; simpl; auto. rewrite IHj by lia. rewrite app_nth1 by lia. reflexivity.
Qed.
Lemma dot_ext u v u' v' j :
  (forall k, k < j -> nth k u rO = nth k u' rO /\ nth k v rO = nth k v' rO) ->
  dot u v j = dot u' v' j.
Proof.
  induction j; intros H; simpl; auto. rewrite IHj by (intros; apply H; lia).
  destruct (H j ltac:(lia)) as [-> ->]. reflexivity.
Qed.
Lemma dot_comm u v j : dot u v j = dot v u j.
Proof. induction j; simpl; auto. rewrite IHj. ring. Qed.
Lemma dot_zero_tail u v m n : m <= n -> (forall k, m <= k -> k < n -> nth k v rO = rO) ->
  dot u v n = dot u v m.
Proof.
  induction n; intros Hm Hz.
  - assert (m = 0) by lia. subst. reflexivity.
  - destruct (Nat.eq_dec m (S n)) as [->|Hne]; [reflexivity|].
    simpl. rewrite (Hz n) by lia. rewrite IHn by (try lia; intros; apply Hz; lia). ring.
Qed.

(* ------------------------------------------------------------------ Cholesky *)
Definition entry (L : list (list R)) (i k : nat) : R := nth k (nth i L []) rO.

Definition row_ok (a : mat) (L : list (list R)) (i : nat) (row : list R) : Prop :=
  length row = S i /\ lt rO (nth i row rO) /\
  (forall j, j < i -> dot row (nth j L []) (S j) = mget a i j) /\
  dot row row (S i) = mget a i i.

Definition rows_ok (a : mat) (L : list (list R)) : Prop :=
  forall i, i < length L -> row_ok a (firstn i L) i (nth i L []).

Definition partial_ok (a : mat) L i (cur : list R) : Prop :=
  length cur <= S i /\
  (forall j, j < length cur -> j < i -> dot cur (nth j L []) (S j) = mget a i j) /\
  (length cur = S i -> lt rO (nth i cur rO) /\ dot cur cur (S i) = mget a i i).

Lemma chol_row_sound (a : mat) L i : length L = i ->
  (forall j, j < i -> length (nth j L []) = S j /\ lt rO (entry L j j)) ->
  forall fuel cur row, length cur + fuel = S i -> partial_ok a L i cur ->
  chol_row ops a L i cur fuel = Some row -> row_ok a L i row.
Proof.
  intros HL Hprev. induction fuel as [|f IH]; intros cur row Hlen [Hc1 [Hc2 Hc3]] Hrun.
  - simpl in Hrun. injection Hrun as <-. assert (Hfull : length cur = S i) by lia.
    destruct (Hc3 Hfull) as [Hp Hd]. split; [auto|]. split; [auto|]. split; [|auto].
    intros j Hj. apply Hc2; lia.
  - cbn [chol_row] in Hrun.
    destruct (Nat.eqb_spec (length cur) i) as [Hji|Hji].
    + rewrite Hji in Hrun.
      destruct (nleb ops (mget a i i [-] dot cur cur i) rO) eqn:Hle; [discriminate|].
      apply leb_false in Hle.
      refine (IH _ _ _ _ Hrun); [rewrite app_length; simpl; lia|].
      split; [rewrite app_length; simpl; lia|]. split.
      * intros j' Hj' Hj'i. rewrite app_length in Hj'. simpl in Hj'.
        rewrite dot_app_l by lia. apply Hc2; lia.
      * intros _. rewrite app_nth2 by lia. rewrite Hji, Nat.sub_diag. cbn [nth].
        split; [apply sqrt_pos; exact Hle|].
        cbn [Decomp.dot]. rewrite dot_app_l by lia.
        rewrite (dot_app_r cur cur) by lia.
        rewrite app_nth2 by lia. rewrite Hji, Nat.sub_diag. cbn [nth].
        rewrite sqrt_sqrt by exact Hle. ring.
    + assert (Hjlt : length cur < i) by lia.
      destruct (Hprev _ Hjlt) as [Hlenj Hposj].
      refine (IH _ _ _ _ Hrun); [rewrite app_length; simpl; lia|].
      split; [rewrite app_length; simpl; lia|]. split.
      * intros j' Hj' Hj'i. rewrite app_length in Hj'. simpl in Hj'.
        destruct (Nat.eq_dec j' (length cur)) as [->|Hne].
        -- cbn [Decomp.dot]. rewrite dot_app_l by lia.
           rewrite app_nth2 by lia. rewrite Nat.sub_diag. cbn [nth].
           unfold entry in Hposj.
           set (s := dot cur (nth (length cur) L []) (length cur)).
           set (d := nth (length cur) (nth (length cur) L []) rO) in *.
           transitivity (s [+] (mget a i (length cur) [-] s) [*] (ndiv ops rI d [*] d)); [ring|].
           rewrite div_mul by (apply pos_nz; exact Hposj). ring.
        -- rewrite dot_app_l by lia. apply Hc2; lia.
      * intros Hfull. rewrite app_length in Hfull. simpl in Hfull. lia.
Qed.

Lemma chol_rows_sound (a : mat) : forall fuel L Lfinal, rows_ok a L ->
  chol_rows ops a L fuel = Some Lfinal -> rows_ok a Lfinal /\ length Lfinal = length L + fuel.
Proof.
  induction fuel as [|f IH]; intros L Lf Hok Hrun.
  - simpl in Hrun. injection Hrun as <-. split; [auto|lia].
  - cbn [chol_rows] in Hrun.
    destruct (chol_row ops a L (length L) [] (S (length L))) as [row|] eqn:Hrow; [|discriminate].
    assert (Hrowok : row_ok a L (length L) row).
    { assert (Hprev : forall j, j < length L ->
                length (nth j L []) = S j /\ lt rO (entry L j j)).
      { intros j Hj. destruct (Hok j Hj) as [H1 [H2 _]]. split; [auto|]. unfold entry. exact H2. }
      assert (Hinit : partial_ok a L (length L) []).
      { split; [simpl; lia|]. split; simpl; intros; lia. }
      exact (chol_row_sound a L (length L) eq_refl Hprev (S (length L)) [] row
               ltac:(simpl; lia) Hinit Hrow). }
    apply IH in Hrun.
    + destruct Hrun as [H1 H2]. split; [auto|]. rewrite app_length in H2. simpl in H2. lia.
    + intros i Hi. rewrite app_length in Hi. simpl in Hi.
      destruct (Nat.eq_dec i (length L)) as [->|Hne].
      * rewrite firstn_app, firstn_all, Nat.sub_diag. simpl. rewrite app_nil_r.
        rewrite app_nth2, Nat.sub_diag by lia. exact Hrowok.
      * rewrite firstn_app. replace (i - length L) with 0 by lia. simpl. rewrite app_nil_r.
        rewrite app_nth1 by lia. apply Hok. lia.
Qed.

Lemma nth_pad_row n row k : nth k (pad_row ops n row) rO = nth k row rO.
Proof.
  unfold pad_row. destruct (Nat.lt_ge_cases k (length row)) as [H|H].
  - rewrite app_nth1 by exact H. reflexivity.
  - rewrite app_nth2 by exact H. rewrite (nth_overflow row) by exact H. apply nth_repeat.
Qed.

Lemma nth_firstn_lt {A} (l : list A) i j d : j < i -> nth j (firstn i l) d = nth j l d.
Proof.
  revert i j. induction l as [|x l IH]; intros i j H; destruct i, j; simpl; try lia; auto.
  apply IH. lia.
Qed.

Definition symmetric (a : mat) (n : nat) : Prop :=
  forall i j, i < n -> j < n -> mget a i j = mget a j i.

(* A returned factor is n x n, lower triangular with positive diagonal, and the product with its
   transpose, entry (i, j) = sum_{k<n} L[i][k] * L[j][k], reproduces the input on the lower
   triangle — hence everywhere when the input is symmetric. *)
Theorem cholesky_sound (a L : mat) : cholesky ops a = Some L ->
  let n := mrows a in
  mcols a = n /\ wf n L /\
  (forall i j, i < n -> j < n -> i < j -> mget L i j = rO) /\
  (forall i, i < n -> lt rO (mget L i i)) /\
  (forall i j, i < n -> j <= i -> dot (nth i L []) (nth j L []) n = mget a i j) /\
  (symmetric a n -> forall i j, i < n -> j < n -> dot (nth i L []) (nth j L []) n = mget a i j).
Proof.
  unfold cholesky, is_square. intros H. cbv zeta.
  destruct (Nat.eqb_spec (mrows a) (mcols a)) as [Hsq|]; [|discriminate]. cbn [negb] in H.
  set (n := mrows a) in *.
  destruct (chol_rows ops a [] n) as [L0|] eqn:Hrun; [|discriminate].
  injection H as <-.
  apply chol_rows_sound in Hrun; [|intros i Hi; simpl in Hi; lia].
  destruct Hrun as [Hok Hlen]. simpl in Hlen.
  assert (Hrow : forall i, i < n -> nth i (map (pad_row ops n) L0) [] = pad_row ops n (nth i L0 [])).
  { intros i Hi. rewrite (nth_indep _ [] (pad_row ops n [])) by (rewrite map_length; lia).
    apply map_nth. }
  assert (Hrowlen : forall i, i < n -> length (nth i L0 []) = S i).
  { intros i Hi. destruct (Hok i ltac:(lia)) as [H1 _]. exact H1. }
  assert (Hget : forall i j, i < n -> mget (map (pad_row ops n) L0) i j = nth j (nth i L0 []) rO).
  { intros i j Hi. unfold LinAlg.mget. rewrite Hrow by exact Hi. apply nth_pad_row. }
  assert (Hlow : forall i j, i < n -> j <= i ->
            dot (nth i (map (pad_row ops n) L0) []) (nth j (map (pad_row ops n) L0) []) n = mget a i j).
  { intros i j Hi Hj. rewrite !Hrow by lia.
    rewrite (dot_ext _ _ (nth i L0 []) (nth j L0 [])) by (intros; split; apply nth_pad_row).
    rewrite (dot_zero_tail _ _ (S j)); [|lia|].
    2:{ intros k Hk _. apply nth_overflow. rewrite Hrowlen by lia. lia. }
    destruct (Hok i ltac:(lia)) as [_ [_ [H3 H4]]].
    destruct (Nat.eq_dec j i) as [->|Hne]; [exact H4|].
    specialize (H3 j ltac:(lia)). rewrite nth_firstn_lt in H3 by lia. exact H3. }
  split; [symmetry; exact Hsq|]. split.
  { split; [rewrite map_length; exact Hlen|]. apply Forall_forall. intros r Hr.
    apply in_map_iff in Hr as [r0 [<- Hr0]]. destruct (In_nth _ _ [] Hr0) as [i [Hi Hnth]].
    unfold pad_row. rewrite app_length, repeat_length. subst r0. rewrite Hrowlen by lia. lia. }
  split.
  { intros i j Hi Hj Hij. rewrite Hget by exact Hi. apply nth_overflow. rewrite Hrowlen by lia. lia. }
  split.
  { intros i Hi. rewrite Hget by exact Hi. destruct (Hok i ltac:(lia)) as [_ [H2 _]]. exact H2. }
  split; [exact Hlow|].
  intros Hsym i j Hi Hj. destruct (Nat.le_gt_cases j i) as [Hle|Hgt]; [apply Hlow; assumption|].
  rewrite dot_comm, Hsym by assumption. apply Hlow; lia.
Qed.

Theorem cholesky_nonsquare (a : mat) : mrows a <> mcols a -> cholesky ops a = None.
Proof.
  intros H. unfold cholesky, is_square. destruct (Nat.eqb_spec (mrows a) (mcols a)); [contradiction|].
  reflexivity.
Qed.

(* ------------------------------------------------------------------ LDL^T *)
Notation lent := (lent ops).
Notation ldl_sum := (ldl_sum ops).

Lemma lent_app cols c i k : k < length cols -> lent (cols ++ c) i k = lent cols i k.
Proof. intros H. unfold Decomp.lent. rewrite app_nth1 by exact H. reflexivity. Qed.

Lemma ldl_sum_app cols c ds d i j k : k <= length cols -> k <= length ds ->
  ldl_sum (cols ++ c) (ds ++ d) i j k = ldl_sum cols ds i j k.
Proof.
  induction k; intros H1 H2; simpl; auto. rewrite IHk by lia.
  rewrite !lent_app by lia. rewrite app_nth1 by lia. reflexivity.
Qed.

Definition col_ok (a : mat) (n : nat) cols ds (j : nat) : Prop :=
  nth j ds rO = mget a j j [-] ldl_sum cols ds j j j /\ nth j ds rO <> rO /\
  forall i, i < n -> lent cols i j =
    if Nat.ltb i j then rO else if Nat.eqb i j then rI
    else (mget a i j [-] ldl_sum cols ds i j j) [*] ndiv ops rI (nth j ds rO).

Definition cols_ok (a : mat) n cols ds : Prop :=
  length cols = length ds /\ forall j, j < length cols -> col_ok a n cols ds j.

Lemma col_ok_app a n cols ds c d j : length cols = length ds -> j < length cols ->
  col_ok a n cols ds j -> col_ok a n (cols ++ c) (ds ++ d) j.
Proof.
  intros Hl Hj [H1 [H2 H3]]. unfold col_ok.
  rewrite !ldl_sum_app by lia. rewrite app_nth1 by lia. split; [exact H1|]. split; [exact H2|].
  intros i Hi. rewrite lent_app by lia. rewrite ldl_sum_app by lia. apply H3. exact Hi.
Qed.

Lemma ldlt_cols_sound (a : mat) n : forall fuel cols ds cols' ds', cols_ok a n cols ds ->
  ldlt_cols ops a n cols ds fuel = Some (cols', ds') ->
  cols_ok a n cols' ds' /\ length cols' = length cols + fuel.
Proof.
  induction fuel as [|f IH]; intros cols ds cols' ds' Hok Hrun.
  - simpl in Hrun. injection Hrun as <- <-. split; [exact Hok|lia].
  - cbn [ldlt_cols] in Hrun. destruct Hok as [Hl Hok].
    set (j := length cols) in *.
    set (e := mget a j j [-] ldl_sum cols ds j j j) in *.
    destruct (neqb ops e rO) eqn:He; [discriminate|].
    assert (Hnz : e <> rO).
    { intros E. apply eqb_spec in E. rewrite E in He. discriminate. }
    apply IH in Hrun.
    + destruct Hrun as [H1 H2]. split; [exact H1|]. rewrite app_length in H2. simpl in H2. lia.
    + split; [rewrite !app_length; simpl; lia|].
      intros j' Hj'. rewrite app_length in Hj'. simpl in Hj'.
      destruct (Nat.eq_dec j' j) as [->|Hne].
      * unfold col_ok. rewrite !ldl_sum_app by (fold j; lia).
        rewrite app_nth2 by lia. replace (j - length ds) with 0 by lia. cbn [nth].
        split; [reflexivity|]. split; [exact Hnz|].
        intros i Hi. unfold Decomp.lent. rewrite app_nth2 by (fold j; lia).
        fold j. rewrite Nat.sub_diag. cbn [nth].
        rewrite (nth_tabulate (fun i => if Nat.ltb i j then rO else if Nat.eqb i j then rI
            else (mget a i j [-] Decomp.ldl_sum ops cols ds i j j) [*] ndiv ops rI e) n i rO Hi).
        rewrite ldl_sum_app by (fold j; lia). reflexivity.
      * apply col_ok_app; [exact Hl|fold j; lia|apply Hok; fold j; lia].
Qed.

Lemma ldl_sum_comm cols ds i j k : ldl_sum cols ds i j k = ldl_sum cols ds j i k.
Proof. induction k; simpl; auto. rewrite IHk. ring. Qed.

Lemma ldl_sum_zero_tail cols ds i j m n : m <= n ->
  (forall k, m <= k -> k < n -> lent cols j k = rO) -> ldl_sum cols ds i j n = ldl_sum cols ds i j m.
Proof.
  induction n; intros Hm Hz.
  - assert (m = 0) by lia. subst. reflexivity.
  - destruct (Nat.eq_dec m (S n)) as [->|Hne]; [reflexivity|].
    simpl. rewrite (Hz n) by lia. rewrite IHn by (try lia; intros; apply Hz; lia). ring.
Qed.

(* entry (i, j) of L * D * L^T over n x n lists of rows *)
Fixpoint ldl_entry (l d : mat) (i j k : nat) : R :=
  match k with
  | O => rO
  | S k' => ldl_entry l d i j k' [+] mget l i k' [*] mget l j k' [*] mget d k' k'
  end.

(* A returned pair is n x n; L is unit lower triangular, D is diagonal with non-zero pivots, and
   L * D * L^T reproduces the input on the lower triangle, hence everywhere when it is symmetric *)
Theorem ldlt_sound (a l d : mat) : ldlt ops a = Some (l, d) ->
  let n := mrows a in
  mcols a = n /\ wf n l /\ wf n d /\
  (forall i j, i < n -> j < n -> i < j -> mget l i j = rO) /\
  (forall i, i < n -> mget l i i = rI) /\
  (forall i j, i < n -> j < n -> i <> j -> mget d i j = rO) /\
  (forall i, i < n -> mget d i i <> rO) /\
  (forall i j, i < n -> j <= i -> ldl_entry l d i j n = mget a i j) /\
  (symmetric a n -> forall i j, i < n -> j < n -> ldl_entry l d i j n = mget a i j).
Proof.
  unfold ldlt, is_square. intros H. cbv zeta.
  destruct (Nat.eqb_spec (mrows a) (mcols a)) as [Hsq|]; [|discriminate]. cbn [negb] in H.
  set (n := mrows a) in *.
  destruct (ldlt_cols ops a n [] [] n) as [[cols ds]|] eqn:Hrun; [|discriminate].
  injection H as <- <-.
  apply ldlt_cols_sound in Hrun; [|split; [reflexivity|intros j Hj; simpl in Hj; lia]].
  destruct Hrun as [[Hl Hok] Hlen]. simpl in Hlen.
  fold (tab n (fun i j => lent cols i j)).
  fold (tab n (fun i j => if Nat.eqb i j then nth i ds rO else rO)).
  assert (HL : forall i j, i < n -> j < n -> mget (tab n (fun i j => lent cols i j)) i j = lent cols i j).
  { intros. apply mget_tab; assumption. }
  assert (HD : forall i, i < n -> mget (tab n (fun i j => if Nat.eqb i j then nth i ds rO else rO)) i i = nth i ds rO).
  { intros i Hi. rewrite mget_tab by assumption. rewrite Nat.eqb_refl. reflexivity. }
  assert (Hentry : forall i j k, i < n -> j < n -> k <= n ->
     ldl_entry (tab n (fun i j => lent cols i j))
               (tab n (fun i j => if Nat.eqb i j then nth i ds rO else rO)) i j k = ldl_sum cols ds i j k).
  { intros i j k Hi Hj. induction k; intros Hk; simpl; [reflexivity|].
    rewrite IHk by lia. rewrite !HL, HD by lia. reflexivity. }
  assert (Hlow : forall i j, i < n -> j <= i -> ldl_sum cols ds i j n = mget a i j).
  { intros i j Hi Hj. rewrite (ldl_sum_zero_tail _ _ _ _ (S j)); [|lia|].
    2:{ intros k Hk Hkn. destruct (Hok k ltac:(lia)) as [_ [_ H3]]. rewrite (H3 j ltac:(lia)).
        destruct (Nat.ltb_spec j k); [reflexivity|lia]. }
    destruct (Hok j ltac:(lia)) as [H1 [H2 H3]]. cbn [Decomp.ldl_sum].
    rewrite (H3 j ltac:(lia)), (H3 i Hi). rewrite Nat.ltb_irrefl, Nat.eqb_refl.
    destruct (Nat.ltb_spec i j); [lia|]. destruct (Nat.eqb_spec i j) as [->|Hne].
    - rewrite H1. ring.
    - set (s := ldl_sum cols ds i j j). set (dj := nth j ds rO) in *.
      transitivity (s [+] (mget a i j [-] s) [*] (ndiv ops rI dj [*] dj)); [ring|].
      rewrite div_mul by exact H2. ring. }
  split; [symmetry; exact Hsq|]. split; [apply wf_tab|]. split; [apply wf_tab|].
  split.
  { intros i j Hi Hj Hij. rewrite HL by assumption. destruct (Hok j ltac:(lia)) as [_ [_ H3]].
    rewrite (H3 i Hi). destruct (Nat.ltb_spec i j); [reflexivity|lia]. }
  split.
  { intros i Hi. rewrite HL by assumption. destruct (Hok i ltac:(lia)) as [_ [_ H3]].
    rewrite (H3 i Hi). rewrite Nat.ltb_irrefl, Nat.eqb_refl. reflexivity. }
  split.
  { intros i j Hi Hj Hij. rewrite mget_tab by assumption. destruct (Nat.eqb_spec i j); [contradiction|reflexivity]. }
  split.
  { intros i Hi. rewrite HD by assumption. destruct (Hok i ltac:(lia)) as [_ [H2 _]]. exact H2. }
  split.
  { intros i j Hi Hj. rewrite Hentry by lia. apply Hlow; assumption. }
  intros Hsym i j Hi Hj. rewrite Hentry by lia.
  destruct (Nat.le_gt_cases j i) as [Hle|Hgt]; [apply Hlow; assumption|].
  rewrite ldl_sum_comm, Hsym by assumption. apply Hlow; lia.
Qed.

Theorem ldlt_nonsquare (a : mat) : mrows a <> mcols a -> ldlt ops a = None.
Proof.
  intros H. unfold ldlt, is_square. destruct (Nat.eqb_spec (mrows a) (mcols a)); [contradiction|].
  reflexivity.
Qed.

(* a zero pivot (the entry the code tests) at the first column: absent *)
Theorem ldlt_zero_first_pivot (a : mat) : mget a 0 0 = rO -> 1 <= mrows a -> ldlt ops a = None.
Proof.
  intros H Hn. unfold ldlt. destruct (negb (is_square a)); [reflexivity|].
  destruct (mrows a) as [|n]; [lia|]. cbn [ldlt_cols length Decomp.ldl_sum].
  replace (mget a 0 0 [-] rO) with rO by (rewrite H; ring).
  rewrite (proj2 (eqb_spec rO rO) eq_refl). reflexivity.
Qed.
End Sound.
