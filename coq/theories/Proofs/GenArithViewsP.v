(* The definitions regenerated from the Rust source (Gen/Arith.v) against the IDEAL-arithmetic
   hand models of the same functions that other properties use: Model/MatrixViews.v (C12),
   Model/Views.v (C02) and Model/Shape.v (C01).  Where the source computes `a + b` or `a - b`
   the statement carries the no-overflow side condition; the saturating / checked operations
   agree unconditionally. *)
From Coq Require Import List ZArith NArith Bool Arith Lia.
From EasyML Require Import Base.Sx Model.Shape Model.U64 Model.Fallible Gen.Arith
     Proofs.ShapeP Proofs.C16P Proofs.GenArithP.
From EasyML Require Model.Views Model.MatrixViews.
Import ListNotations.
Open Scope N_scope.

Definition to_mv (r : index_range) : MatrixViews.index_range := MatrixViews.mkIR (r_start r) (r_length r).
Definition to_v (r : index_range) : Views.irange := Views.mkR (r_start r) (r_length r).
Definition shN (sh : shape) : list (N * N) := map (fun d => (N.of_nat (fst d), snd d)) sh.

Lemma gen_clip_views : forall md r mx,
  omap to_mv (gen_IndexRange_clip md r mx) = Ok (MatrixViews.ir_clip (to_mv r) mx) /\
  omap to_v (gen_IndexRange_clip md r mx) = Ok (Views.r_clip (to_v r) mx).
Proof. intros. split; reflexivity. Qed.

Lemma gen_mask_views : forall md r i, gen_IndexRange_mask md r i = Ok (Views.r_mask (to_v r) i).
Proof.
  intros. unfold gen_IndexRange_mask, Views.r_mask, to_v. cbn [Views.r_start Views.r_len].
  destruct (i <? r_start r); reflexivity.
Qed.

Lemma gen_map_views : forall md r i, i + r_start r <= usize_max ->
  gen_IndexRange_map md r i = Ok (MatrixViews.ir_map (to_mv r) i) /\
  gen_IndexRange_map md r i = Ok (Views.r_map (to_v r) i).
Proof.
  intros md r i H. unfold gen_IndexRange_map, MatrixViews.ir_map, Views.r_map, to_mv, to_v, u_add.
  cbn [MatrixViews.ir_start MatrixViews.ir_length Views.r_start Views.r_len].
  apply N.leb_le in H. rewrite H. destruct (i <? r_length r); split; reflexivity.
Qed.

Lemma gen_from_range_views : forall md s e,
  omap to_mv (gen_IndexRange_from_range md (s, e)) = Ok (MatrixViews.ir_of_range s e).
Proof. intros. reflexivity. Qed.

Lemma gen_reverse_views : forall md b i nm len, 0 < len ->
  gen_reverse_indexes_elem md i (nm, len) b = Ok (MatrixViews.reverse_index b len i).
Proof.
  intros md b i nm len H. unfold gen_reverse_indexes_elem, MatrixViews.reverse_index. cbn [fst snd].
  destruct b; [|reflexivity].
  unfold u_sub at 1. replace (1 <=? len) with true by (symmetry; apply N.leb_le; lia). cbn [obind].
  destruct (len - 1 <? i) eqn:E; [reflexivity|].
  apply N.ltb_ge in E. unfold u_sub. replace (i <=? len - 1) with true by (symmetry; apply N.leb_le; lia).
  reflexivity.
Qed.

Lemma exceeds_any_views : forall (sh : shape) rs,
  exceeds_any (shN sh) rs = Views.range_exceeds_bounds sh (map (option_map to_v) rs).
Proof.
  induction sh as [|d sh IH]; intros [|[r|] rs]; cbn [shN map exceeds_any Views.range_exceeds_bounds option_map snd]; try reflexivity.
  - unfold to_v at 1 2. cbn [Views.r_start Views.r_len]. fold (shN sh).
    change (Views.checked_add (r_start r) (r_length r)) with (checked_add (r_start r) (r_length r)).
    destruct (checked_add (r_start r) (r_length r)); [|reflexivity].
    destruct (snd d <? n); [reflexivity|apply IH].
  - apply IH.
Qed.

Lemma gen_range_exceeds_bounds_views : forall md (sh : shape) rs,
  gen_range_exceeds_bounds md (combine (shN sh) rs) =
  Ok (Views.range_exceeds_bounds sh (map (option_map to_v) rs)).
Proof. intros. rewrite gen_range_exceeds_bounds_eq, exceeds_any_views. reflexivity. Qed.

Lemma gen_get_index_direct_shape : forall md (sh : shape) idx,
  valid_shape sh -> elements sh <= usize_max -> length idx = length sh ->
  gen_get_index_direct md (zip3 idx (compute_strides sh) (shN sh)) =
  Ok (get_index_direct idx (compute_strides sh) sh).
Proof.
  intros md sh idx Hv He Hl.
  rewrite gen_get_index_direct_eq.
  - replace (map snd (shN sh)) with (lens_of sh).
    + apply get_index_direct_total; assumption.
    + unfold shN, lens_of. rewrite map_map. reflexivity.
  - unfold shN. rewrite map_length. exact Hl.
  - unfold shN, compute_strides. rewrite !map_length, seq_length. reflexivity.
Qed.

Lemma gen_checked_elements_shape : forall md (sh : shape),
  gen_checked_elements md (shN sh) = Ok (checked_elements sh).
Proof.
  intros. rewrite gen_checked_elements_eq. unfold checked_elements, shN, lens_of.
  rewrite map_map. reflexivity.
Qed.
