(* The definitions regenerated from the Rust source (Gen/Arith.v) against the IDEAL-arithmetic
   hand models of the same functions that other properties use: Model/MatrixViews.v (C12),
   Model/Views.v (C02) and Model/Shape.v (C01).  Where the source computes `a + b` or `a - b`
   the statement carries the no-overflow side condition; the saturating / checked operations
   agree unconditionally. *)
From Coq Require Import List ZArith NArith Bool Arith Lia.
From EasyML Require Import Base.Sx Model.Shape Model.U64 Model.Fallible Gen.Arith
     Proofs.ShapeP Proofs.C16P Proofs.GenArithP.
From EasyML Require Model.Views Model.MatrixViews Model.ShapeIter.
Import ListNotations.
From EasyML Require Import Proofs.GenTac.
Open Scope N_scope.

Definition to_mv (r : index_range) : MatrixViews.index_range := MatrixViews.mkIR (r_start r) (r_length r).
Definition to_v (r : index_range) : Views.irange := Views.mkR (r_start r) (r_length r).
Definition shN (sh : shape) : list (N * N) := map (fun d => (N.of_nat (fst d), snd d)) sh.

Lemma gen_clip_views : forall md r mx,
  omap to_mv (gen_IndexRange_clip md r mx) = Ok (MatrixViews.ir_clip (to_mv r) mx) /\
  omap to_v (gen_IndexRange_clip md r mx) = Ok (Views.r_clip (to_v r) mx).
Proof. intros. split; reflexivity. Qed.

Lemma gen_mask_views : forall md r i, gen_IndexRange_mask md r i = Ok (Views.r_mask (to_v r) i).
Proof.
  intros. unfold gen_IndexRange_mask, Views.r_mask, to_v. cbn [Views.r_start Views.r_len].
  destruct (i <? r_start r); reflexivity.
Qed.

Lemma gen_map_views : forall md r i, i + r_start r <= usize_max ->
  gen_IndexRange_map md r i = Ok (MatrixViews.ir_map (to_mv r) i) /\
  gen_IndexRange_map md r i = Ok (Views.r_map (to_v r) i).
Proof.
  intros md r i H. unfold gen_IndexRange_map, MatrixViews.ir_map, Views.r_map, to_mv, to_v, u_add.
  cbn [MatrixViews.ir_start MatrixViews.ir_length Views.r_start Views.r_len].
  apply N.leb_le in H. rewrite H. destruct (i <? r_length r); split; reflexivity.
Qed.

Lemma gen_from_range_views : forall md s e,
  omap to_mv (gen_IndexRange_from_range md (s, e)) = Ok (MatrixViews.ir_of_range s e).
Proof. intros. reflexivity. Qed.

Lemma gen_reverse_views : forall md b i nm len, 0 < len ->
  gen_reverse_indexes_elem md i (nm, len) b = Ok (MatrixViews.reverse_index b len i).
Proof.
  intros md b i nm len H. unfold gen_reverse_indexes_elem, MatrixViews.reverse_index. cbn [fst snd].
  destruct b; [|reflexivity].
  unfold u_sub at 1. replace (1 <=? len) with true by (symmetry; apply N.leb_le; lia). cbn [obind].
  destruct (len - 1 <? i) eqn:E; [reflexivity|].
  apply N.ltb_ge in E. unfold u_sub. replace (i <=? len - 1) with true by (symmetry; apply N.leb_le; lia).
  reflexivity.
Qed.

Lemma exceeds_any_views : forall (sh : shape) rs,
  exceeds_any (shN sh) rs = Views.range_exceeds_bounds sh (map (option_map to_v) rs).
Proof.
  induction sh as [|d sh IH]; intros [|[r|] rs]; cbn [shN map exceeds_any Views.range_exceeds_bounds option_map snd]; try reflexivity.
  - unfold to_v at 1 2. cbn [Views.r_start Views.r_len]. fold (shN sh).
    change (Views.checked_add (r_start r) (r_length r)) with (checked_add (r_start r) (r_length r)).
    destruct (checked_add (r_start r) (r_length r)); [|reflexivity].
    destruct (snd d <? n); [reflexivity|apply IH].
  - apply IH.
Qed.

Lemma gen_range_exceeds_bounds_views : forall md (sh : shape) rs,
  gen_range_exceeds_bounds md (combine (shN sh) rs) =
  Ok (Views.range_exceeds_bounds sh (map (option_map to_v) rs)).
Proof. intros. rewrite gen_range_exceeds_bounds_eq, exceeds_any_views. reflexivity. Qed.

Lemma gen_get_index_direct_shape : forall md (sh : shape) idx,
  valid_shape sh -> elements sh <= usize_max -> length idx = length sh ->
  gen_get_index_direct md (zip3 idx (compute_strides sh) (shN sh)) =
  Ok (get_index_direct idx (compute_strides sh) sh).
Proof.
  intros md sh idx Hv He Hl.
  rewrite gen_get_index_direct_eq.
  - replace (map snd (shN sh)) with (lens_of sh).
    + apply get_index_direct_total; assumption.
    + unfold shN, lens_of. rewrite map_map. reflexivity.
  - unfold shN. rewrite map_length. exact Hl.
  - unfold shN, compute_strides. rewrite !map_length, seq_length. reflexivity.
Qed.

Lemma gen_checked_elements_shape : forall md (sh : shape),
  gen_checked_elements md (shN sh) = Ok (checked_elements sh).
Proof.
  intros. rewrite gen_checked_elements_eq. unfold checked_elements, shN, lens_of.
  rewrite map_map. reflexivity.
Qed.

(* ==== second extension wave: elements, compute_strides, reverse_indexes as a whole ==== *)

(* the plain machine product of positive lengths whose ideal product fits a usize is that product *)
Lemma prod_legacy_ok : forall md l acc, Forall (fun x => 0 < x) l -> acc * prod l <= usize_max ->
  prod_legacy md l acc = Ok (acc * prod l).
Proof.
  intros md. induction l as [|x l IH]; intros acc Hp Hb; cbn [prod_legacy].
  - rewrite prod_nil, N.mul_1_r. reflexivity.
  - inversion Hp as [|? ? Hx Hl]; subst. rewrite prod_cons in *.
    pose proof (prod_pos l Hl) as Hpl.
    assert (Hax : acc * x <= usize_max) by nia.
    unfold u_mul. apply N.leb_le in Hax. rewrite Hax. cbn [obind].
    rewrite IH; [f_equal; lia|exact Hl|lia].
Qed.

Lemma lens_shN : forall sh : shape, map snd (shN sh) = lens_of sh.
Proof. intros. unfold shN, lens_of. rewrite map_map. reflexivity. Qed.

(* dimensions::elements (C01 / C10: `elements`) *)
Lemma gen_elements_shape : forall md (sh : shape),
  valid_shape sh -> elements sh <= usize_max ->
  gen_elements md (shN sh) = Ok (elements sh).
Proof.
  intros md sh [_ Hpos] He. rewrite gen_elements_eq, lens_shN.
  rewrite prod_legacy_ok; [f_equal; unfold elements; lia|exact Hpos|unfold elements in He; lia].
Qed.

Lemma Forall_skipn' {A} (P : A -> Prop) : forall n l, Forall P l -> Forall P (skipn n l).
Proof. induction n as [|n IH]; intros [|x l] H; cbn [skipn]; auto. inversion H; auto. Qed.
Lemma Forall_firstn' {A} (P : A -> Prop) : forall n l, Forall P l -> Forall P (firstn n l).
Proof. induction n as [|n IH]; intros [|x l] H; cbn [firstn]; auto. inversion H; auto. Qed.

Lemma prod_skipn_le : forall n l, Forall (fun x => 0 < x) l -> prod (skipn n l) <= prod l.
Proof.
  intros n l H. rewrite <- (firstn_skipn n l) at 2. rewrite prod_app.
  pose proof (prod_pos _ (Forall_firstn' _ n l H)). nia.
Qed.

(* compute_strides (C01 / C10: `compute_strides`); D itself is a usize *)
Lemma gen_compute_strides_shape : forall md (sh : shape),
  valid_shape sh -> elements sh <= usize_max -> N.of_nat (length sh) <= usize_max ->
  gen_compute_strides md (shN sh) = Ok (compute_strides sh).
Proof.
  intros md sh [_ Hpos] He HD. rewrite gen_compute_strides_eq, lens_shN.
  unfold compute_strides.
  replace (length (shN sh)) with (length sh) by (unfold shN; rewrite map_length; reflexivity).
  rewrite (gen_map_m_ok _ (fun d => prod (skipn (N.to_nat d + 1) (lens_of sh)))).
  - rewrite map_map. f_equal. apply map_ext. intros d. rewrite Nat2N.id, Nat.add_1_r. reflexivity.
  - intros x Hx. apply in_map_iff in Hx. destruct Hx as [d [<- Hd]]. apply in_seq in Hd.
    unfold strides_elem_m, u_add.
    assert (Hd1 : N.of_nat d + 1 <= usize_max) by lia.
    apply N.leb_le in Hd1. rewrite Hd1. cbn [obind].
    rewrite prod_legacy_ok.
    + f_equal. rewrite N.mul_1_l. f_equal. f_equal. lia.
    + apply Forall_skipn'. exact Hpos.
    + pose proof (prod_skipn_le (N.to_nat (N.of_nat d + 1)) _ Hpos). unfold elements in He. lia.
Qed.

(* reverse_indexes as a whole against C02's model (Views.reverse_indexes) *)
Lemma gen_reverse_indexes_views : forall md idx (sh : shape) rv,
  Forall (fun l => 0 < l) (lens_of sh) ->
  gen_reverse_indexes md (zip3r idx (shN sh) rv) = Ok (Views.reverse_indexes idx sh rv).
Proof.
  intros md idx sh rv. rewrite gen_reverse_indexes_eq. revert sh rv.
  induction idx as [|i idx IH]; intros [|[nm len] sh] [|b rv] Hpos;
    cbn [shN map zip3r gen_map_m Views.reverse_indexes fst snd]; try reflexivity.
  inversion Hpos as [|? ? Hl Hrest]; subst. cbn [snd] in Hl.
  fold (shN sh). unfold rev_elem_m at 1. cbn [snd].
  pose proof (gen_reverse_views md b i (N.of_nat nm) len Hl) as Hv.
  destruct b.
  - rewrite <- (proj1 (gen_reverse_indexes_elem_eq md i (N.of_nat nm) len)), Hv. cbn [obind].
    rewrite IH by exact Hrest. reflexivity.
  - cbn [obind]. rewrite IH by exact Hrest. reflexivity.
Qed.

(* clip_range_shape / clip_masked_shape, one iteration, against C02's model (Views.r_clip, the
   shapes of range_clip_from / mask_clip_from): the clipped range, the new length, and the
   subtraction `*length -= mask.length` can never underflow in either build profile *)
Lemma gen_clip_range_shape_body_views : forall md nm len r,
  gen_clip_range_shape_body md (nm, len) r =
  Ok ((nm, Views.r_len (Views.r_clip (to_v r) len)), mkRange (r_start r) (Views.r_len (Views.r_clip (to_v r) len))).
Proof. intros. rewrite gen_clip_range_shape_body_eq. reflexivity. Qed.

Lemma gen_clip_masked_shape_body_views : forall md nm len r,
  gen_clip_masked_shape_body md (nm, len) r =
  Ok ((nm, len - Views.r_len (Views.r_clip (to_v r) len)), mkRange (r_start r) (Views.r_len (Views.r_clip (to_v r) len))).
Proof.
  intros. rewrite gen_clip_masked_shape_body_eq. unfold ir_clip. cbn [obind r_length r_start].
  unfold Views.r_clip, to_v. cbn [Views.r_start Views.r_len].
  unfold u_sub, sat_sub.
  replace (N.min (sat_add (r_start r) (r_length r)) len - r_start r <=? len) with true
    by (symmetry; apply N.leb_le; lia).
  reflexivity.
Qed.

(* ShapeIterator's size_hint (C09: the exact remaining length of every tensor iterator) against
   Model/ShapeIter.v iter_len, for an iterator over a valid shape whose indexes are in range
   while it is not finished (the iterator's invariant) *)
Lemma gidu_m_ok : forall md idx (sh : shape) acc,
  in_range idx (lens_of sh) -> Forall (fun l => 0 < l) (lens_of sh) ->
  acc + prod (lens_of sh) <= usize_max + 1 ->
  gidu_m md idx (compute_strides sh) acc = Ok (ShapeIter.gidu idx (compute_strides sh) acc) /\
  ShapeIter.gidu idx (compute_strides sh) acc < acc + prod (lens_of sh).
Proof.
  intros md. induction idx as [|i idx IH]; intros [|[n l] sh] acc Hin Hpos Hb; cbn [in_range lens_of map snd] in Hin; try contradiction.
  - cbn. split; [reflexivity|lia].
  - rewrite strides_cons. cbn [gidu_m ShapeIter.gidu lens_of map snd] in *.
    change (map snd sh) with (lens_of sh) in *.
    destruct Hin as [Hil Hin]. inversion Hpos as [|? ? Hl Hrest]; subst. rewrite prod_cons in *.
    pose proof (prod_pos _ Hrest) as Hp.
    set (s := prod (lens_of sh)) in *.
    assert (i * s + s <= l * s) by nia.
    rewrite u_mul_ok by lia. cbn [obind]. rewrite u_add_ok by lia. cbn [obind].
    destruct (IH sh (acc + i * s) Hin Hrest) as [E1 E2]; [fold s; lia|].
    split; [exact E1|]. fold s in E2. lia.
Qed.

Lemma gen_size_hint_iter_len : forall md (it : ShapeIter.shape_iter),
  let sh := ShapeIter.si_shape it in
  valid_shape sh -> elements sh <= usize_max -> N.of_nat (length sh) <= usize_max ->
  length (ShapeIter.si_indexes it) = length sh ->
  (ShapeIter.si_finished it = false -> in_range (ShapeIter.si_indexes it) (lens_of sh)) ->
  gen_size_hint md (ShapeIter.si_finished it) (ShapeIter.si_indexes it) (shN sh) =
  Ok (ShapeIter.iter_len it, Some (ShapeIter.iter_len it)).
Proof.
  intros md [sh idx fin] sh0 Hv He HD Hlen Hin. subst sh0. cbn [ShapeIter.si_shape ShapeIter.si_indexes ShapeIter.si_finished] in *.
  rewrite gen_size_hint_eq. unfold ShapeIter.iter_len. cbn [ShapeIter.si_shape ShapeIter.si_indexes ShapeIter.si_finished].
  destruct fin; [reflexivity|]. specialize (Hin eq_refl).
  rewrite Hlen.
  assert (Hcase : length sh = O \/ exists k, length sh = S k) by (destruct (length sh); [left; reflexivity|right; eexists; reflexivity]).
  destruct Hcase as [H0|[k Hk]].
  - rewrite H0. reflexivity.
  - replace (0 <? N.of_nat (length sh)) with true by (symmetry; apply N.ltb_lt; lia).
    replace (match length sh with O => 1 | S _ => elements sh - ShapeIter.gidu idx (compute_strides sh) 0 end)
      with (elements sh - ShapeIter.gidu idx (compute_strides sh) 0) by (rewrite Hk; reflexivity).
    destruct Hv as [Hnd Hpos].
    rewrite lens_shN. rewrite prod_legacy_ok by (try exact Hpos; unfold elements in He; lia). cbn [obind].
    replace (length (shN sh)) with (length sh) by (unfold shN; rewrite map_length; reflexivity).
    pose proof (gen_compute_strides_shape md sh (conj Hnd Hpos) He HD) as Hs.
    rewrite gen_compute_strides_eq, lens_shN in Hs.
    replace (length (shN sh)) with (length sh) in Hs by (unfold shN; rewrite map_length; reflexivity).
    rewrite Hs. cbn [obind].
    destruct (gidu_m_ok md idx sh 0 Hin Hpos) as [E1 E2]; [unfold elements in He; lia|].
    rewrite E1. cbn [obind]. rewrite N.mul_1_l.
    rewrite u_sub_ok by (unfold elements; lia). reflexivity.
Qed.
