(* C07, list-level half (stdlib style).
   1. Heap's algorithm as transcribed (Model/Perms.v): a boolean check `heap_check n` whose truth
      (a finite kernel computation, n <= 6 here, n = 7 in C07Heap7.v) implies: duplicate-free,
      exactly the permutations of 0..n-1, toggled flag = parity of the inversion count.
   2. Leibniz: the signed sum over ANY duplicate-free complete enumeration equals the Laplace
      expansion `detc` along the first remaining row over the list of remaining columns
      (any commutative ring: the dictionary `ops` with ring laws).
   3. The model's fold `sum = sum + signature * product` over Heap's order is that sum, hence
      det_tensor / det_matrix = Some (detc ...) for square inputs; absence <-> not square. *)
From Coq Require Import List Arith Lia Ring Bool Sorted Permutation ZArith QArith.
From EasyML Require Import Base.Sx Model.Num Model.Perms Model.LinAlg.
Import ListNotations.
Close Scope Q_scope.
Close Scope Z_scope.
Open Scope nat_scope.

(* ------------------------------------------------------------------ list facts *)
Lemma length_del {A} j (l : list A) : j < length l -> length (del j l) = length l - 1.
Proof. intros. unfold del. rewrite app_length, firstn_length, skipn_length. lia. Qed.

Lemma del_cons_S {A} (a : A) l j : del (S j) (a :: l) = a :: del j l.
Proof. reflexivity. Qed.

Lemma del_nil {A} j : del j (@nil A) = [].
Proof. unfold del. destruct j; reflexivity. Qed.

(* position k of the list without position i is position (bump i k) of the list *)
Definition bump (i k : nat) : nat := if Nat.leb i k then S k else k.

Lemma nth_del {A} (d : A) i (s : list A) k : nth k (del i s) d = nth (bump i k) s d.
Proof.
  revert i k. induction s as [|a s IH]; intros i k.
  - rewrite del_nil. unfold bump. destruct (Nat.leb i k), k; reflexivity.
  - destruct i.
    + unfold del, bump. cbn [firstn skipn app Nat.leb nth]. reflexivity.
    + rewrite del_cons_S. destruct k.
      * unfold bump. cbn [Nat.leb nth]. reflexivity.
      * cbn [nth]. rewrite IH. unfold bump. cbn [Nat.leb].
        destruct (Nat.leb i k); reflexivity.
Qed.

Lemma incl_firstn {A} n (l : list A) : incl (firstn n l) l.
Proof.
  revert n; induction l as [|a l IH]; intros [|n] x H; simpl in H; try tauto.
  destruct H as [<-|H]; [left; reflexivity|right; eapply IH; eauto].
Qed.
Lemma incl_skipn {A} n (l : list A) : incl (skipn n l) l.
Proof.
  revert n; induction l as [|a l IH]; intros n x H.
  - destruct n; simpl in H; tauto.
  - destruct n; [exact H|]. simpl in H. right. eapply IH; eauto.
Qed.
Lemma incl_del {A} j (l : list A) : incl (del j l) l.
Proof.
  intros x H. unfold del in H. apply in_app_or in H as [H|H];
    [eapply incl_firstn|eapply incl_skipn]; eauto.
Qed.

Lemma skipn_nth_cons {A} (d : A) j (l : list A) : j < length l ->
  skipn j l = nth j l d :: skipn (S j) l.
Proof.
  revert j. induction l as [|a l IHl]; intros j Hj; [simpl in Hj; lia|].
  destruct j; [reflexivity|]. simpl. apply IHl. simpl in Hj. lia.
Qed.

Lemma split_at {A} (d : A) j (l : list A) : j < length l ->
  l = firstn j l ++ nth j l d :: skipn (S j) l.
Proof. intros Hj. rewrite <- skipn_nth_cons by exact Hj. symmetry. apply firstn_skipn. Qed.

Lemma nth_tabulate {A} (f : nat -> A) n i d : i < n -> nth i (map f (seq 0 n)) d = f i.
Proof.
  intros Hi. rewrite (nth_indep _ d (f 0)) by (rewrite map_length, seq_length; exact Hi).
  rewrite (map_nth f (seq 0 n) 0 i), seq_nth by exact Hi. reflexivity.
Qed.

Lemma NoDup_app_intro {A} (l1 l2 : list A) :
  NoDup l1 -> NoDup l2 -> (forall x, In x l1 -> ~ In x l2) -> NoDup (l1 ++ l2).
Proof.
  induction l1 as [|a l1 IH]; intros H1 H2 Hd; [exact H2|].
  inversion H1 as [|? ? Ha H1']; subst. simpl. constructor.
  - intros Hin. apply in_app_or in Hin as [Hin|Hin]; [contradiction|].
    exact (Hd a (or_introl eq_refl) Hin).
  - apply IH; auto. intros x Hx. apply Hd. right. exact Hx.
Qed.

Lemma sorted_seq s n : StronglySorted lt (seq s n).
Proof.
  revert s. induction n as [|n IH]; intros s; simpl; constructor; [apply IH|].
  rewrite Forall_forall. intros x Hx. apply in_seq in Hx. lia.
Qed.

(* ------------------------------------------------------------------ enumerations *)
Fixpoint inversions (l : list nat) : nat :=
  match l with [] => 0 | x :: r => length (filter (fun y => Nat.ltb y x) r) + inversions r end.

(* first-image enumeration of the permutations of cols (fuel = length cols) *)
Fixpoint perms (fuel : nat) (cols : list nat) : list (list nat) :=
  match fuel with
  | O => [[]]
  | S f => flat_map (fun j => map (cons (nth j cols 0)) (perms f (del j cols))) (seq 0 (length cols))
  end.

Lemma perms_perm f : forall cols p, length cols = f -> In p (perms f cols) -> Permutation p cols.
Proof.
  induction f as [|f IH]; intros cols p Hlen Hp; cbn [perms] in Hp.
  - destruct Hp as [<-|[]]. destruct cols; [constructor|discriminate].
  - apply in_flat_map in Hp as [j [Hj Hp]]. apply in_seq in Hj.
    apply in_map_iff in Hp as [q [<- Hq]].
    assert (Hdl : length (del j cols) = f) by (rewrite length_del; lia).
    specialize (IH _ _ Hdl Hq).
    rewrite (split_at 0 j cols) at 2 by lia.
    apply Permutation_cons_app. exact IH.
Qed.

Lemma perms_complete f : forall cols p, length cols = f -> Permutation p cols -> In p (perms f cols).
Proof.
  induction f as [|f IH]; intros cols p Hlen Hp; cbn [perms].
  - destruct cols; [|discriminate]. apply Permutation_sym, Permutation_nil in Hp. subst. left; reflexivity.
  - destruct p as [|c p'].
    { apply Permutation_length in Hp. simpl in Hp. lia. }
    assert (Hc : In c cols) by (eapply Permutation_in; [exact Hp|left; reflexivity]).
    destruct (In_nth cols c 0 Hc) as [j [Hj Hnth]].
    apply in_flat_map. exists j. split; [apply in_seq; lia|].
    rewrite Hnth. apply in_map. apply IH; [rewrite length_del; lia|].
    rewrite (split_at 0 j cols Hj), Hnth in Hp.
    apply Permutation_cons_app_inv in Hp. exact Hp.
Qed.

Lemma NoDup_del (cols : list nat) j : NoDup cols -> NoDup (del j cols).
Proof.
  intros H. revert j. induction H as [|a l Ha H IH]; intros j.
  - rewrite del_nil. constructor.
  - destruct j; [exact H|]. rewrite del_cons_S. constructor; [|apply IH].
    intros Hin. apply Ha. eapply incl_del; eauto.
Qed.

Lemma NoDup_perms f : forall cols, length cols = f -> NoDup cols -> NoDup (perms f cols).
Proof.
  induction f as [|f IH]; intros cols Hlen Hnd; cbn [perms].
  - constructor; [intros []|constructor].
  - assert (Hgen : forall js, NoDup js -> (forall j, In j js -> j < length cols) ->
      NoDup (flat_map (fun j => map (cons (nth j cols 0)) (perms f (del j cols))) js)).
    { induction js as [|j js IHjs]; intros Hjs Hb; [constructor|].
      inversion Hjs as [|? ? Hj Hjs']; subst. cbn [flat_map]. apply NoDup_app_intro.
      - apply FinFun.Injective_map_NoDup; [intros x y Hxy; congruence|].
        apply IH; [rewrite length_del; [lia|apply Hb; left; reflexivity]|apply NoDup_del; exact Hnd].
      - apply IHjs; auto. intros; apply Hb; right; auto.
      - intros x Hx Hx'. apply in_map_iff in Hx as [q [<- Hq]].
        apply in_flat_map in Hx' as [j' [Hj' Hx']]. apply in_map_iff in Hx' as [q' [Heq Hq']].
        injection Heq as Hn _.
        assert (j' = j).
        { apply (proj1 (NoDup_nth cols 0) Hnd); [apply Hb; right; auto|apply Hb; left; auto|exact Hn]. }
        subst. contradiction. }
    apply Hgen; [apply seq_NoDup|]. intros j Hj. apply in_seq in Hj. lia.
Qed.

(* ------------------------------------------------------------------ the boolean check *)
Fixpoint list_eqb (a b : list nat) : bool :=
  match a, b with
  | [], [] => true
  | x :: a', y :: b' => Nat.eqb x y && list_eqb a' b'
  | _, _ => false
  end.
Lemma list_eqb_eq a b : list_eqb a b = true <-> a = b.
Proof.
  revert b; induction a as [|x a IH]; intros [|y b]; simpl; split; intros H;
    try reflexivity; try discriminate.
  - apply andb_true_iff in H as [H1 H2]. apply Nat.eqb_eq in H1. apply IH in H2. congruence.
  - injection H as -> ->. rewrite Nat.eqb_refl. apply IH. reflexivity.
Qed.

Definition mem (l : list nat) (ls : list (list nat)) : bool := existsb (list_eqb l) ls.
Lemma mem_In l ls : mem l ls = true <-> In l ls.
Proof.
  unfold mem. rewrite existsb_exists. split.
  - intros [x [Hx He]]. apply list_eqb_eq in He. subst. exact Hx.
  - intros H. exists l. split; [exact H|apply list_eqb_eq; reflexivity].
Qed.

Fixpoint nodupb (ls : list (list nat)) : bool :=
  match ls with [] => true | l :: r => negb (mem l r) && nodupb r end.
Lemma nodupb_NoDup ls : nodupb ls = true -> NoDup ls.
Proof.
  induction ls as [|l r IH]; simpl; intros H; constructor.
  - apply andb_true_iff in H as [H _]. intros Hin. apply mem_In in Hin. rewrite Hin in H. discriminate.
  - apply IH. apply andb_true_iff in H as [_ H]. exact H.
Qed.

Definition is_perm_b (n : nat) (p : list nat) : bool :=
  Nat.eqb (length p) n && forallb (fun k => existsb (Nat.eqb k) p) (seq 0 n).
Lemma is_perm_b_sound n p : is_perm_b n p = true -> Permutation p (seq 0 n).
Proof.
  unfold is_perm_b. intros H. apply andb_true_iff in H as [Hl Hall]. apply Nat.eqb_eq in Hl.
  apply Permutation_sym. apply NoDup_Permutation_bis; [apply seq_NoDup|rewrite seq_length; lia|].
  intros k Hk. rewrite forallb_forall in Hall. specialize (Hall k Hk).
  apply existsb_exists in Hall as [x [Hx He]]. apply Nat.eqb_eq in He. subst. exact Hx.
Qed.

Definition sign_ok (p : list nat * bool) : bool := Bool.eqb (snd p) (Nat.even (inversions (fst p))).

Definition heap_check (n : nat) : bool :=
  let hp := heap_perms n in
  Nat.leb (length (perms n (seq 0 n))) (length hp) && nodupb (map fst hp)
  && forallb (is_perm_b n) (map fst hp) && forallb sign_ok hp.

(* what the check establishes, in specification terms *)
Definition heap_enumerates (n : nat) : Prop :=
  NoDup (map fst (heap_perms n)) /\
  (forall p, In p (map fst (heap_perms n)) <-> Permutation p (seq 0 n)) /\
  (forall p ev, In (p, ev) (heap_perms n) -> ev = Nat.even (inversions p)).

Lemma heap_check_perms n : heap_check n = true ->
  Permutation (map fst (heap_perms n)) (perms n (seq 0 n)).
Proof.
  unfold heap_check. intros H. repeat (apply andb_true_iff in H as [H ?]).
  apply NoDup_Permutation_bis.
  - apply nodupb_NoDup. assumption.
  - rewrite map_length. apply Nat.leb_le. exact H.
  - intros p Hp. apply perms_complete; [apply seq_length|].
    apply is_perm_b_sound. match goal with Hf : forallb (is_perm_b n) _ = true |- _ =>
      rewrite forallb_forall in Hf; apply Hf; exact Hp end.
Qed.

Lemma heap_check_sound n : heap_check n = true -> heap_enumerates n.
Proof.
  intros H. pose proof (heap_check_perms n H) as HP.
  unfold heap_check in H. repeat (apply andb_true_iff in H as [H ?]).
  split; [apply nodupb_NoDup; assumption|]. split.
  - intros p. split.
    + intros Hp. apply (perms_perm n); [apply seq_length|]. eapply Permutation_in; eauto.
    + intros Hp. eapply Permutation_in; [apply Permutation_sym; exact HP|].
      apply perms_complete; [apply seq_length|exact Hp].
  - intros p ev Hin. match goal with Hf : forallb sign_ok _ = true |- _ =>
      rewrite forallb_forall in Hf; specialize (Hf _ Hin) end.
    unfold sign_ok in *. simpl in *. apply eqb_prop. assumption.
Qed.

Lemma heap_check_upto_6 : forallb heap_check [1; 2; 3; 4; 5; 6] = true.
Proof. vm_compute. reflexivity. Qed.

Lemma heap_check_le_6 n : 1 <= n <= 6 -> heap_check n = true.
Proof.
  intros Hn. pose proof heap_check_upto_6 as H. rewrite forallb_forall in H. apply H.
  destruct n as [|[|[|[|[|[|[|n]]]]]]]; simpl; try lia; tauto.
Qed.

(* ------------------------------------------------------------------ Leibniz = Laplace *)
Section Leibniz.
Context {R : Type} (ops : numops R).
Hypothesis Rth : ring_theory (nzero ops) (none_ ops) (nadd ops) (nmul ops) (nsub ops) (nneg ops) (@eq R).
Add Ring Rring7 : Rth.
Notation rO := (nzero ops).
Notation rI := (none_ ops).
Notation "x [+] y" := (nadd ops x y) (at level 50, left associativity).
Notation "x [*] y" := (nmul ops x y) (at level 40, left associativity).

Variable M : nat -> nat -> R.

Definition sgn (k : nat) : R := if Nat.even k then rI else nneg ops rI.
Definition sum (l : list R) : R := fold_right (nadd ops) rO l.

(* Laplace expansion along row r over the remaining columns (fuel = number of columns) *)
Fixpoint detc (fuel r : nat) (cols : list nat) : R :=
  match fuel with
  | O => rI
  | S f => sum (map (fun j => sgn j [*] M r (nth j cols 0) [*] detc f (S r) (del j cols))
                    (seq 0 (length cols)))
  end.

(* product of M (r+i) p[i] *)
Fixpoint term (r : nat) (p : list nat) : R :=
  match p with [] => rI | c :: p' => M r c [*] term (S r) p' end.

Definition leibniz (r : nat) (ps : list (list nat)) : R :=
  sum (map (fun p => sgn (inversions p) [*] term r p) ps).

Lemma sum_app l1 l2 : sum (l1 ++ l2) = sum l1 [+] sum l2.
Proof. induction l1; simpl; [ring|rewrite IHl1; ring]. Qed.

Lemma sum_flat_map {A} (f : A -> list R) l : sum (flat_map f l) = sum (map (fun a => sum (f a)) l).
Proof. induction l; simpl; auto. rewrite sum_app, IHl. reflexivity. Qed.

Lemma map_flat_map_comm {A B C} (g : B -> C) (f : A -> list B) l :
  map g (flat_map f l) = flat_map (fun a => map g (f a)) l.
Proof. induction l; simpl; auto. rewrite map_app, IHl. reflexivity. Qed.

Lemma sum_scale c l : sum (map (fun x => c [*] x) l) = c [*] sum l.
Proof. induction l; simpl; [ring|rewrite IHl; ring]. Qed.

Lemma sum_ext {A} (f g : A -> R) l : (forall a, In a l -> f a = g a) -> sum (map f l) = sum (map g l).
Proof.
  induction l; simpl; intros H; auto. rewrite H by auto. rewrite IHl by (intros; apply H; auto).
  reflexivity.
Qed.

Lemma sgn_add a b : sgn (a + b) = sgn a [*] sgn b.
Proof.
  unfold sgn. rewrite Nat.even_add. destruct (Nat.even a), (Nat.even b); simpl; ring.
Qed.

Lemma filter_none (g : nat -> bool) l : (forall x, In x l -> g x = false) -> filter g l = [].
Proof.
  induction l as [|b l IH]; intros H; [reflexivity|]. simpl. rewrite H by (left; auto).
  apply IH. intros; apply H; right; auto.
Qed.

Lemma smaller_filter cols : StronglySorted lt cols -> forall j, j < length cols ->
  filter (fun y => Nat.ltb y (nth j cols 0)) (del j cols) = firstn j cols.
Proof.
  induction 1 as [|a l Hs IH Hall]; intros j Hj; [simpl in Hj; lia|].
  rewrite Forall_forall in Hall. destruct j.
  - unfold del. cbn [firstn skipn app nth]. apply filter_none.
    intros x Hx. apply Nat.ltb_ge. specialize (Hall x Hx). lia.
  - rewrite del_cons_S. cbn [nth filter firstn]. simpl in Hj.
    assert (Ha : a < nth j l 0) by (apply Hall, nth_In; lia).
    destruct (Nat.ltb_spec a (nth j l 0)); [|lia]. f_equal. apply IH. lia.
Qed.

Lemma filter_length_perm (g : nat -> bool) l l' :
  Permutation l l' -> length (filter g l) = length (filter g l').
Proof.
  induction 1; simpl; auto.
  - destruct (g x); simpl; auto.
  - destruct (g x), (g y); simpl; auto.
  - congruence.
Qed.

Lemma smaller_count cols j q : StronglySorted lt cols -> j < length cols ->
  Permutation q (del j cols) ->
  length (filter (fun y => Nat.ltb y (nth j cols 0)) q) = j.
Proof.
  intros Hs Hj Hq. rewrite (filter_length_perm _ _ _ Hq), smaller_filter by auto.
  rewrite firstn_length. lia.
Qed.

Lemma sorted_del cols j : StronglySorted lt cols -> StronglySorted lt (del j cols).
Proof.
  intros Hs. revert j. induction Hs as [|a l Hs IH Hall]; intros j.
  - rewrite del_nil. constructor.
  - destruct j.
    + unfold del. cbn [firstn skipn app]. exact Hs.
    + rewrite del_cons_S. constructor; [apply IH|].
      rewrite Forall_forall in *. intros x Hx. apply Hall. eapply incl_del; eauto.
Qed.

(* Laplace expansion over the column list = Leibniz sum over its first-image enumeration *)
Theorem detc_leibniz f : forall r cols, length cols = f -> StronglySorted lt cols ->
  detc f r cols = leibniz r (perms f cols).
Proof.
  induction f as [|f IH]; intros r cols Hlen Hs.
  - cbn [detc perms leibniz map inversions term sum fold_right]. unfold sgn. simpl. ring.
  - cbn [detc perms]. unfold leibniz. rewrite map_flat_map_comm.
    rewrite sum_flat_map. apply sum_ext. intros j Hj. apply in_seq in Hj.
    assert (Hdl : length (del j cols) = f) by (rewrite length_del; lia).
    rewrite (IH (S r) (del j cols) Hdl (sorted_del cols j Hs)). unfold leibniz.
    rewrite <- sum_scale. rewrite !map_map. apply sum_ext. intros q Hq.
    cbn [inversions term].
    rewrite (smaller_count cols j q Hs ltac:(lia) (perms_perm f _ _ Hdl Hq)).
    rewrite sgn_add. ring.
Qed.

Lemma sum_perm l l' : Permutation l l' -> sum l = sum l'.
Proof. induction 1; simpl; try ring; [rewrite IHPermutation; ring|congruence]. Qed.

Lemma leibniz_perm r ps ps' : Permutation ps ps' -> leibniz r ps = leibniz r ps'.
Proof. intros H. unfold leibniz. apply sum_perm. apply Permutation_map. exact H. Qed.

(* the signed sum over ANY duplicate-free complete enumeration of the permutations of 0..n-1 *)
Theorem leibniz_is_detc n (ps : list (list nat)) :
  NoDup ps -> (forall p, In p ps <-> Permutation p (seq 0 n)) ->
  leibniz 0 ps = detc n 0 (seq 0 n).
Proof.
  intros Hnd Hall.
  rewrite (detc_leibniz n 0 (seq 0 n) (seq_length _ _) (sorted_seq 0 n)).
  apply leibniz_perm. apply NoDup_Permutation; [exact Hnd| |].
  - apply NoDup_perms; [apply seq_length|apply seq_NoDup].
  - intros p. rewrite Hall. split.
    + apply perms_complete. apply seq_length.
    + apply perms_perm. apply seq_length.
Qed.
End Leibniz.

(* ------------------------------------------------------------------ the model's fold *)
Section Model.
Context {R : Type} (ops : numops R).
Hypothesis Rth : ring_theory (nzero ops) (none_ ops) (nadd ops) (nmul ops) (nsub ops) (nneg ops) (@eq R).
Add Ring Rring7b : Rth.
Notation rO := (nzero ops).
Notation rI := (none_ ops).
Notation "x [+] y" := (nadd ops x y) (at level 50, left associativity).
Notation "x [*] y" := (nmul ops x y) (at level 40, left associativity).

Lemma product_fold (m : mat) : forall p r acc,
  fold_left (fun prod ni => prod [*] mget ops m (fst ni) (snd ni)) (combine (seq r (length p)) p) acc
  = acc [*] term ops (mget ops m) r p.
Proof.
  induction p as [|c p IH]; intros r acc; cbn [length seq combine fold_left term]; [ring|].
  rewrite IH. cbn [fst snd]. ring.
Qed.

Lemma product_term (m : mat) p : product ops m p = term ops (mget ops m) 0 p.
Proof. unfold product. rewrite product_fold. ring. Qed.

Lemma fold_left_sum {A} (g : A -> R) l acc :
  fold_left (fun s x => s [+] g x) l acc = acc [+] sum ops (map g l).
Proof. revert acc. induction l as [|a l IH]; intros acc; simpl; [ring|rewrite IH; ring]. Qed.

Lemma signature_sgn k : signature ops (Nat.even k) = sgn ops k.
Proof. unfold signature, sgn. destruct (Nat.even k); ring. Qed.

(* the fold of determinant_less_generic is the Leibniz sum over Heap's enumeration *)
Lemma leibniz_fold_leibniz (m : mat) n : heap_enumerates n ->
  leibniz_fold ops m n = leibniz ops (mget ops m) 0 (map fst (heap_perms n)).
Proof.
  intros [_ [_ Hsign]]. unfold leibniz_fold, leibniz.
  rewrite fold_left_sum. rewrite map_map.
  replace (sum ops (map (fun pe => signature ops (snd pe) [*] product ops m (fst pe)) (heap_perms n)))
    with (sum ops (map (fun x => sgn ops (inversions (fst x)) [*] term ops (mget ops m) 0 (fst x)) (heap_perms n))).
  - ring.
  - apply sum_ext. intros [p ev] Hin. cbn [fst snd].
    rewrite (Hsign p ev Hin), signature_sgn, product_term. reflexivity.
Qed.

Theorem leibniz_fold_detc (m : mat) n : heap_enumerates n ->
  leibniz_fold ops m n = detc ops (mget ops m) n 0 (seq 0 n).
Proof.
  intros H. rewrite (leibniz_fold_leibniz m n H). destruct H as [Hnd [Hall _]].
  apply (leibniz_is_detc ops Rth); assumption.
Qed.

Lemma detc_1 (M : nat -> nat -> R) : detc ops M 1 0 [0] = M 0 0.
Proof. cbn. unfold sgn. simpl. ring. Qed.

(* square input of size n >= 1 whose Heap enumeration is correct: present, = Laplace expansion *)
Theorem det_tensor_detc (m : mat) n : mrows m = n -> mcols m = n -> 1 <= n -> heap_enumerates n ->
  det_tensor ops m = Some (detc ops (mget ops m) n 0 (seq 0 n)).
Proof.
  intros Hr Hc Hn Hh. unfold det_tensor, is_square. rewrite Hr, Hc, Nat.eqb_refl. cbn [negb].
  destruct (Nat.eqb_spec n 0); [lia|]. destruct (Nat.eqb_spec n 1) as [->|Hn1].
  - rewrite detc_1. reflexivity.
  - rewrite leibniz_fold_detc by exact Hh. reflexivity.
Qed.
End Model.

(* ------------------------------------------------------------------ absence, routes (any ops) *)
Section Routes.
Context {R : Type} (ops : numops R).

Theorem det_tensor_absent_iff (m : mat) : 1 <= mrows m ->
  (det_tensor ops m = None <-> mrows m <> mcols m).
Proof.
  intros Hr. unfold det_tensor, is_square.
  destruct (Nat.eqb_spec (mrows m) (mcols m)) as [He|Hne]; cbn [negb].
  - destruct (Nat.eqb_spec (mrows m) 0); [lia|].
    destruct (Nat.eqb (mrows m) 1); split; intros; try discriminate; contradiction.
  - split; auto.
Qed.

Lemma traverse_ext {A B} (f g : A -> option B) l : (forall a, f a = g a) -> traverse f l = traverse g l.
Proof. intros H. induction l as [|a l IH]; [reflexivity|]. cbn [traverse]. rewrite H, IH. reflexivity. Qed.

(* Matrix route = tensor route, on every input *)
Theorem det_matrix_tensor (m : mat) : det_matrix ops m = det_tensor ops m.
Proof.
  unfold det_matrix, det_tensor, is_square.
  destruct (Nat.eqb (mrows m) (mcols m)); cbn [negb]; [|reflexivity].
  destruct (mrows m) as [|[|k]]; reflexivity.
Qed.

Theorem minor_matrix_tensor (m : mat) i j : minor_matrix ops m i j = minor_tensor ops m i j.
Proof.
  unfold minor_matrix, minor_tensor, is_square, remove_column, remove_row, mask.
  rewrite det_matrix_tensor. reflexivity.
Qed.

Theorem inverse_matrix_tensor (m : mat) : inverse_matrix ops m = inverse_tensor ops m.
Proof.
  unfold inverse_matrix, inverse_tensor, is_square, inverse_general, cofactors.
  destruct (Nat.eqb (mrows m) (mcols m)); cbn [negb]; [|reflexivity].
  destruct (Nat.eqb (mrows m) 1); [reflexivity|].
  rewrite det_matrix_tensor. destruct (det_tensor ops m); [|reflexivity].
  destruct (neqb ops r (nzero ops)); [reflexivity|].
  rewrite (traverse_ext _ (fun i => traverse (fun j =>
       match minor_tensor ops m i j with None => None
       | Some ij_minor => Some (nmul ops (cofactor_sign ops i j) ij_minor) end) (seq 0 (mcols m))));
    [reflexivity|].
  intros i. apply traverse_ext. intros j. rewrite minor_matrix_tensor. reflexivity.
Qed.

(* the tensor result carries the names of the input, in the same order *)
Theorem inverse_tensor2_names (t x : tensor2 (R := R)) :
  inverse_tensor2 ops t = Some x -> t2_names x = t2_names t.
Proof.
  unfold inverse_tensor2. destruct (inverse_tensor ops (t2_mat t)); [|discriminate].
  intros H. injection H as <-. reflexivity.
Qed.
End Routes.

(* ------------------------------------------------------------------ structure of the inverse *)
Definition tab {A} (n : nat) (f : nat -> nat -> A) : list (list A) :=
  map (fun i => map (fun j => f i j) (seq 0 n)) (seq 0 n).

(* well-formed n x n content: n rows of n entries *)
Definition wf {A} (n : nat) (m : list (list A)) : Prop :=
  length m = n /\ Forall (fun r => length r = n) m.

Lemma wf_tab {A} n (f : nat -> nat -> A) : wf n (tab n f).
Proof.
  split; [unfold tab; rewrite map_length, seq_length; reflexivity|].
  apply Forall_forall. intros r Hr. unfold tab in Hr. apply in_map_iff in Hr as [i [<- _]].
  rewrite map_length, seq_length. reflexivity.
Qed.

Lemma traverse_map {A B} (f : A -> option B) (g : A -> B) l :
  (forall a, In a l -> f a = Some (g a)) -> traverse f l = Some (map g l).
Proof.
  induction l as [|a l IH]; intros H; [reflexivity|]. cbn [traverse map].
  rewrite H by (left; reflexivity). rewrite IH by (intros; apply H; right; assumption). reflexivity.
Qed.

Section Structure.
Context {R : Type} (ops : numops R).

Lemma mget_tab n (f : nat -> nat -> R) i j : i < n -> j < n -> mget ops (tab n f) i j = f i j.
Proof.
  intros Hi Hj. unfold mget, tab. rewrite (nth_tabulate (fun i => map (fun j => f i j) (seq 0 n))) by exact Hi.
  apply nth_tabulate. exact Hj.
Qed.

Lemma tab_ext {A} n (f g : nat -> nat -> A) :
  (forall i j, i < n -> j < n -> f i j = g i j) -> tab n f = tab n g.
Proof.
  intros H. unfold tab. apply map_ext_in. intros i Hi. apply map_ext_in. intros j Hj.
  apply in_seq in Hi. apply in_seq in Hj. apply H; lia.
Qed.

Lemma mget_mask (m : mat) i j a b : mget ops (mask i j m) a b = mget ops m (bump i a) (bump j b).
Proof.
  unfold mget, mask. rewrite <- (del_nil j) at 1.
  rewrite (map_nth (del j) (del i m) [] a). rewrite !nth_del. reflexivity.
Qed.

Lemma wf_mask n (m : @mat R) i j : wf (S n) m -> i < S n -> j < S n ->
  mrows (mask i j m) = n /\ mcols (mask i j m) = n.
Proof.
  intros [Hl Hall] Hi Hj. unfold mrows, mcols, mask. split.
  - rewrite map_length, length_del by lia. lia.
  - assert (Hd : length (del i m) = n) by (rewrite length_del by lia; lia).
    destruct (del i m) as [|r rs] eqn:E; [simpl in *; lia|]. cbn [map hd].
    assert (Hr : In r m) by (apply (incl_del i m); rewrite E; left; reflexivity).
    rewrite Forall_forall in Hall. rewrite length_del by (rewrite (Hall r Hr); exact Hj).
    rewrite (Hall r Hr). lia.
Qed.

Lemma even_mod2_add i j : Nat.even (i mod 2 + j mod 2) = Nat.even (i + j).
Proof.
  rewrite (Nat.div_mod i 2) at 2 by lia. rewrite (Nat.div_mod j 2) at 2 by lia.
  rewrite !Nat.even_add, !Nat.even_mul. change (Nat.even 2) with true. cbn [orb].
  destruct (Nat.even (i mod 2)), (Nat.even (j mod 2)); reflexivity.
Qed.

(* with every determinant / minor present, the routine returns sign * minor, transposed, scaled *)
Lemma inverse_general_tab (det : mat -> option R) (minor : mat -> nat -> nat -> option R)
      (m : mat) n d (mn : nat -> nat -> R) :
  mrows m = n -> mcols m = n -> det m = Some d -> neqb ops d (nzero ops) = false ->
  (forall i j, i < n -> j < n -> minor m i j = Some (mn i j)) ->
  inverse_general ops det minor m =
  Some (tab n (fun i j => nmul ops (nmul ops (cofactor_sign ops j i) (mn j i))
                               (ndiv ops (none_ ops) d))).
Proof.
  intros Hr Hc Hd Hnz Hmn. unfold inverse_general. rewrite Hd, Hnz.
  assert (Hcof : cofactors ops minor m = Some (tab n (fun i j => nmul ops (cofactor_sign ops i j) (mn i j)))).
  { unfold cofactors, tab. rewrite Hr, Hc. apply traverse_map. intros i Hi. apply in_seq in Hi.
    apply traverse_map. intros j Hj. apply in_seq in Hj. rewrite Hmn by lia. reflexivity. }
  rewrite Hcof, Hr. f_equal. unfold transpose.
  change (map (fun i => map (fun j => mget ops (tab n (fun i0 j0 => nmul ops (cofactor_sign ops i0 j0) (mn i0 j0))) j i)
                            (seq 0 n)) (seq 0 n))
    with (tab n (fun i j => mget ops (tab n (fun i0 j0 => nmul ops (cofactor_sign ops i0 j0) (mn i0 j0))) j i)).
  unfold tab at 1. rewrite map_map. unfold tab at 2. apply map_ext_in. intros i Hi.
  rewrite map_map. apply map_ext_in. intros j Hj. apply in_seq in Hi. apply in_seq in Hj.
  rewrite mget_tab by lia. reflexivity.
Qed.

Lemma inverse_tensor_nonsquare (m : mat) : mrows m <> mcols m -> inverse_tensor ops m = None.
Proof.
  intros H. unfold inverse_tensor, is_square. destruct (Nat.eqb_spec (mrows m) (mcols m)); [contradiction|].
  reflexivity.
Qed.
End Structure.

(* the executable model on concrete 3 x 3 inputs over the exact rationals / the prime field of
   the harness *)
Example model_runs :
  det_tensor Qops [[2; 0; 1]; [1; 3; 2]; [1; 1; 1]]%Q = Some 0%Q /\
  det_matrix Qops [[2; 0; 1]; [1; 3; 2]; [1; 1; 2]]%Q = Some 6%Q /\
  inverse_tensor Fpops [[2; 1]; [1; 1]]%Z = Some [[1; 2147483646]; [2147483646; 2]]%Z /\
  length (heap_perms 4) = 24.
Proof. vm_compute. repeat split. Qed.
