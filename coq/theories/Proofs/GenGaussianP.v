(* Gaussian::draw and Gaussian::generate_pair as tools/gen_arith.py (element backend) regenerates
   them from src/distributions.rs on every run (Gen/ArithReal.v), proved equal to the hand-written
   Model/Gaussian.v over EVERY dictionary `ops : numops R`:
     gen_Gaussian_generate_pair   two `source.next()?` in order: the first number is u, the second v;
                                  None (with whatever was left consumed) when fewer than two remain
     gen_Gaussian_draw            the constants two / minus_two / two_pi / standard_deviation, the
                                  `while samples.len() < max_samples` loop (gen_while under an
                                  iteration budget), per pair: z1 with cos pushed first, z2 with sin
                                  pushed second, each scaled by the standard deviation and shifted by
                                  the mean; the early None of `?`; the final pop of the surplus sample
   The loop is tied to Model.Gaussian.draw_loop by the invariant lemma gen_while_spec (measure:
   max_samples - samples.len(); each iteration pushes two samples). *)
From Coq Require Import List ZArith NArith Bool Arith Lia.
From EasyML Require Import Base.Sx Model.Num Model.Gaussian Gen.ArithReal.
Import ListNotations.
From EasyML Require Import Proofs.GenTac.

(* gen_equiv: Proofs/GenTac.v (the specific script, then the shape-independent finisher) *)

(* a while loop under a budget computes `spec` when: spec is the identity state where the
   condition fails, one iteration preserves spec, and a measure that bounds the budget decreases *)
Lemma gen_while_spec {S A} (cond : S -> bool) (body : S -> flow A S) (spec : S -> flow A S) (measure : S -> nat) :
  (forall s, cond s = false -> spec s = Next s) ->
  (forall s, cond s = true ->
     (0 < measure s)%nat /\
     match body s with
     | Return r => spec s = Return r
     | Next s' => spec s = spec s' /\ (measure s' < measure s)%nat
     end) ->
  forall fuel s, (measure s <= fuel)%nat -> gen_while fuel cond body s = Some (spec s).
Proof.
  intros Hstop Hstep. induction fuel as [|f IH]; intros s Hm.
  - simpl. destruct (cond s) eqn:C.
    + destruct (Hstep s C) as [Hp _]. lia.
    + rewrite (Hstop s C). reflexivity.
  - simpl. destruct (cond s) eqn:C.
    + destruct (Hstep s C) as [Hp Hb]. destruct (body s) as [r|s'].
      * rewrite Hb. reflexivity.
      * destruct Hb as [E L]. rewrite E. apply IH. lia.
    + rewrite (Hstop s C). reflexivity.
Qed.

Section Gauss.
Context {R : Type} (ops : numops R).

Definition pair_spec (source : list R) : option (R * R) * list R :=
  match source with
  | u :: v :: rest => (Some (u, v), rest)
  | _ => (None, [])
  end.

Lemma gen_Gaussian_generate_pair_eq (self : R * R) source :
  gen_Gaussian_generate_pair ops self source = pair_spec source.
Proof.
  gen_equiv gen_Gaussian_generate_pair_eq by (destruct source as [|u [|v rest]]; reflexivity).
Qed.

(* the model's loop, one step at a time *)
Lemma draw_loop_stop g k samples source :
  (N.of_nat (length samples) <? k)%N = false -> draw_loop ops g k samples source = (Some samples, source).
Proof. intros H. destruct source; simpl; rewrite H; reflexivity. Qed.
Lemma draw_loop_dry g k samples source :
  (N.of_nat (length samples) <? k)%N = true -> (length source < 2)%nat -> draw_loop ops g k samples source = (None, []).
Proof. intros H L. destruct source as [|u [|v r]]; simpl in *; try lia; rewrite H; reflexivity. Qed.
Lemma draw_loop_step g k samples u v rest :
  (N.of_nat (length samples) <? k)%N = true ->
  draw_loop ops g k samples (u :: v :: rest) =
  draw_loop ops g k (samples ++ [fst (box_muller ops g u v); snd (box_muller ops g u v)]) rest.
Proof. intros H. simpl. rewrite H. reflexivity. Qed.

Definition loop_spec g k (st : list R * list R) : flow (option (list R) * list R) (list R * list R) :=
  match draw_loop ops g k (fst st) (snd st) with
  | (Some samples, rest) => Next (samples, rest)
  | (None, rest) => Return (None, rest)
  end.
Definition loop_measure (k : N) (st : list R * list R) : nat := N.to_nat k - length (fst st).

Lemma gen_Gaussian_draw_eq (mean variance : R) (source : list R) (k : N) (fuel : nat) :
  (N.to_nat k <= fuel)%nat ->
  gen_Gaussian_draw ops fuel (mean, variance) source k = Some (draw ops (mkGaussian mean variance) source k).
Proof.
  intros Hfuel.
  gen_equiv gen_Gaussian_draw_eq by (
    unfold gen_Gaussian_draw, draw;
    erewrite (gen_while_spec _ _ (loop_spec (mkGaussian mean variance) k) (loop_measure k));
    [ unfold loop_spec; simpl fst; simpl snd;
      destruct (draw_loop ops (mkGaussian mean variance) k [] source) as [[samples|] rest];
      [ destruct (k <? N.of_nat (length samples))%N; reflexivity | reflexivity ]
    | intros [samples src] C; unfold loop_spec; simpl fst; simpl snd; rewrite (draw_loop_stop _ _ _ _ C); reflexivity
    | intros [samples src] C; split;
      [ unfold loop_measure; simpl fst; apply N.ltb_lt in C; lia
      | rewrite gen_Gaussian_generate_pair_eq; unfold loop_spec, loop_measure; simpl fst; simpl snd;
        destruct src as [|u [|v rest]]; simpl pair_spec; cbv beta iota zeta;
        [ rewrite (draw_loop_dry _ _ _ _ C) by (simpl; lia); reflexivity
        | rewrite (draw_loop_dry _ _ _ _ C) by (simpl; lia); reflexivity
        | rewrite (draw_loop_step _ _ _ _ _ _ C); split;
          [ unfold box_muller, two; simpl; rewrite <- app_assoc; reflexivity
          | simpl fst; rewrite !app_length; simpl; apply N.ltb_lt in C; lia ] ] ]
    | unfold loop_measure; simpl; lia ]).
Qed.

End Gauss.

(* kernel evaluations on the executable prime-field dictionary: 3 samples take 4 of 5 numbers
   (two iterations), an exhausted budget is reported as None (the hypothesis on fuel is needed),
   a source that runs dry yields (None, []) *)
Definition gaussian_example : Prop :=
  (exists l, gen_Gaussian_draw Fpops 3%nat (1%Z, 4%Z) [2; 3; 5; 7; 11]%Z 3%N = Some (Some l, [11%Z]) /\ length l = 3%nat) /\
  gen_Gaussian_draw Fpops 1%nat (1%Z, 4%Z) [2; 3; 5; 7; 11]%Z 3%N = None /\
  gen_Gaussian_draw Fpops 3%nat (1%Z, 4%Z) [2; 3; 5]%Z 3%N = Some (None, []) /\
  gen_Gaussian_generate_pair Fpops (1%Z, 4%Z) [2; 3; 5]%Z = (Some (2%Z, 3%Z), [5%Z]) /\
  gen_Gaussian_generate_pair Fpops (1%Z, 4%Z) [2]%Z = (None, []).
Lemma gaussian_example_holds : gaussian_example.
Proof.
  unfold gaussian_example. split; [|vm_compute; repeat split; reflexivity].
  eexists. vm_compute. split; reflexivity.
Qed.
