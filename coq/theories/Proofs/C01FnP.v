(* C01, further constructors: Tensor::from_fn equals Tensor::from on the row-major enumeration
   and stores `producer idx` at every index; the source-order / memory-order accesses are the
   identity ordering; the position arithmetic of a named access cannot overflow in either
   build profile (machine arithmetic, Model/U64.v). *)
From Coq Require Import List ZArith NArith Bool Arith Lia Permutation.
From EasyML Require Import Base.Sx Model.Shape Model.Tensor Model.TSource Model.ShapeIter
     Model.Transform Model.TensorFn Model.U64 Model.Fallible
     Proofs.ShapeP Proofs.C01P Proofs.OdometerP Proofs.C09P Proofs.C13P Proofs.SwapLoopP
     Proofs.C16P.
Import ListNotations.
Open Scope N_scope.

(* ---------- from_fn ---------- *)

Lemma from_fn_as_from {A} sh (f : list N -> A) :
  tensor_from_fn sh f = tensor_from sh (map f (all_indexes (lens_of sh))).
Proof. unfold tensor_from_fn. rewrite shape_iter_all_spec. reflexivity. Qed.

Lemma from_fn_data_len {A} sh (f : list N -> A) :
  N.of_nat (length (map f (all_indexes (lens_of sh)))) = elements sh.
Proof. rewrite map_length, all_indexes_length. unfold elements. lia. Qed.

Theorem from_fn_ok_iff {A} sh (f : list N -> A) :
  (exists t, tensor_from_fn sh f = Ok t) <-> valid_shape sh /\ elements sh <= usize_max.
Proof.
  rewrite from_fn_as_from. unfold tensor_from. rewrite from_fn_data_len.
  pose proof (validate_dimensions_spec sh (elements sh)) as V.
  destruct (validate_dimensions sh (elements sh)).
  - split; [intros _|eauto]. destruct V as [V _]. destruct (V eq_refl) as [Hv [_ Hb]]. auto.
  - split; [intros [t H]; discriminate|]. intros [Hv Hb]. destruct V as [_ V].
    discriminate V. auto.
Qed.

Theorem from_fn_rejects {A} sh (f : list N -> A) :
  ~ (valid_shape sh /\ elements sh <= usize_max) -> tensor_from_fn sh f = Panic.
Proof.
  intros H. destruct (tensor_from_fn sh f) as [t| |] eqn:E; [| |reflexivity].
  - exfalso. apply H. apply (from_fn_ok_iff sh f). eauto.
  - rewrite from_fn_as_from in E. unfold tensor_from in E.
    destruct (validate_dimensions _ _); discriminate.
Qed.

(* the tensor from_fn builds: the requested shape, the representation invariant, and at every
   index tuple exactly the producer's value for that tuple (absent outside the shape) *)
Theorem from_fn_get {A} sh (f : list N -> A) t :
  tensor_from_fn sh f = Ok t ->
  t_shape t = sh /\ tensor_inv t /\ t_data t = map f (all_indexes (lens_of sh)) /\
  forall idx, t_get t idx = if in_range_b idx (lens_of sh) then Some (f idx) else None.
Proof.
  rewrite from_fn_as_from. intros H. apply from_agrees in H.
  destruct (try_from_inv _ _ _ H) as [Hinv [Hsh Hd]].
  repeat split; try assumption; try apply Hinv.
  intros idx. unfold t_get. destruct Hinv as [_ [Hst _]]. rewrite Hst, Hsh, Hd.
  destruct (Nat.eq_dec (length idx) (length sh)) as [Hl|Hl].
  - rewrite get_index_direct_spec by exact Hl.
    destruct (in_range_b idx (lens_of sh)) eqn:R; [|reflexivity].
    apply in_range_b_spec in R. rewrite nth_error_map, (all_indexes_at _ _ R). reflexivity.
  - unfold get_index_direct. rewrite gid_bad_length
      by (unfold lens_of; rewrite map_length; exact Hl).
    destruct (in_range_b idx (lens_of sh)) eqn:R; [|reflexivity].
    apply in_range_b_spec, in_range_length in R. unfold lens_of in R. rewrite map_length in R.
    contradiction.
Qed.

(* through any accepted ordering of the names: the element read at idx is the producer's value
   at the by-name coordinates *)
Theorem from_fn_get_by_name {A} sh (f : list N -> A) t req a idx :
  tensor_from_fn sh f = Ok t -> length req = length sh -> length idx = length sh ->
  access_try_from t req = Ok a ->
  access_get a idx =
    if in_range_b idx (lens_of (access_shape a)) then Some (f (coords_by_name sh req idx)) else None.
Proof.
  intros Hf Hreq Hidx Ha.
  destruct (from_fn_get _ _ _ Hf) as [Hsh [Hinv [_ Hget]]]. subst sh.
  rewrite <- (in_range_by_name_iff t req a idx Hinv Hreq Hidx Ha).
  pose proof Hinv as [[Hnd _] _].
  unfold access_try_from in Ha. destruct (dm_new _ _) as [tbl|] eqn:E; [|discriminate].
  injection Ha as <-. unfold access_get. cbn [a_src a_tbl].
  rewrite (map_to_source_by_name (t_shape t) req tbl idx Hnd Hreq E). apply Hget.
Qed.

(* ---------- source order / memory order ---------- *)

Lemma dm_step_same src d : dm_step src src d = Some (d, d).
Proof. unfold dm_step. rewrite Nat.eqb_refl. reflexivity. Qed.

Lemma sequence_map_Some {X} (l : list X) : sequence (map Some l) = Some l.
Proof. apply sequence_Some. reflexivity. Qed.

Theorem dm_new_same src : dm_new src src = Some (dm_no_op (length src)).
Proof.
  unfold dm_new, dm_no_op.
  rewrite (map_ext (dm_step src src) (fun d => Some (d, d))) by (apply dm_step_same).
  rewrite <- (map_map (fun d => (d, d)) Some). apply sequence_map_Some.
Qed.

(* indexing by the tensor's own name order, from_source_order and from_memory_order are one and
   the same access — for every tensor, even one whose names repeat *)
Theorem source_order_is_own_names {A} (t : tensor A) :
  access_try_from t (names_of (t_shape t)) = Ok (access_from_source_order t) /\
  access_from_memory_order t = Ok (Some (access_from_source_order t)).
Proof.
  unfold access_from_memory_order, access_try_from, access_from_source_order.
  rewrite dm_new_same. unfold names_of. rewrite map_length. split; reflexivity.
Qed.

Lemma map_no_op_shape (sh : shape) : map_shape_to_requested (dm_no_op (length sh)) sh = sh.
Proof.
  unfold map_shape_to_requested, dm_r2s, dm_no_op. rewrite !map_map. cbn [snd].
  apply nth_ext with (d := (0%nat, 0)) (d' := (0%nat, 0)).
  - rewrite map_length, seq_length. reflexivity.
  - intros k Hk. rewrite map_length, seq_length in Hk.
    rewrite (nth_indep _ _ (nth 0 sh (0%nat, 0))) by (rewrite map_length, seq_length; exact Hk).
    rewrite (map_nth (fun p => nth p sh (0%nat, 0)) (seq 0 (length sh)) 0%nat k).
    rewrite seq_nth by exact Hk. reflexivity.
Qed.

Lemma map_no_op_idx (idx : list N) D : length idx = D ->
  map_dimensions_to_source (dm_no_op D) idx 0 = idx.
Proof.
  intros <-. unfold map_dimensions_to_source, dm_s2r, dm_no_op. rewrite !map_map. cbn [fst].
  apply nth_ext with (d := 0) (d' := 0).
  - rewrite map_length, seq_length. reflexivity.
  - intros k Hk. rewrite map_length, seq_length in Hk.
    rewrite (nth_indep _ _ (nth 0 idx 0)) by (rewrite map_length, seq_length; exact Hk).
    rewrite (map_nth (fun p => nth p idx 0) (seq 0 (length idx)) 0%nat k).
    rewrite seq_nth by exact Hk. reflexivity.
Qed.

Theorem source_order_access {A} (t : tensor A) :
  access_shape (access_from_source_order t) = t_shape t /\
  forall idx, length idx = length (t_shape t) ->
    access_get (access_from_source_order t) idx = t_get t idx /\
    forall v, access_set (access_from_source_order t) idx v =
              option_map (fun t' => mkAccess t' (dm_no_op (length (t_shape t)))) (t_set t idx v).
Proof.
  unfold access_shape, access_get, access_set, access_from_source_order. cbn [a_src a_tbl].
  split; [apply map_no_op_shape|]. intros idx Hl. rewrite (map_no_op_idx idx _ Hl).
  split; [reflexivity|]. intros v. reflexivity.
Qed.

(* ---------- panicking accessors ---------- *)

Theorem get_or_panic_spec {A} (a : access A) idx :
  (access_get_or_panic a idx = Panic <-> access_get a idx = None) /\
  (forall x, access_get_or_panic a idx = Ok x <-> access_get a idx = Some x).
Proof.
  unfold access_get_or_panic. destruct (access_get a idx); cbn [of_option]; split;
    try (split; congruence); intros x; split; congruence.
Qed.

(* ---------- machine arithmetic ---------- *)

(* the flattening a named access performs, with the build profile's usize arithmetic *)
Definition access_index_m {A} (m : mode) (a : access A) (idx : list N) : outcome (option N) :=
  gid_m m (map_dimensions_to_source (a_tbl a) idx 0) (t_strides (a_src a))
        (lens_of (t_shape (a_src a))) 0.

(* for every tensor a validating constructor accepts, every accepted ordering and EVERY index
   tuple (coordinates up to usize::MAX and beyond): no overflow panic in a dev build, no
   wrap-around in a release build — the position is the ideal one or absent *)
Theorem access_index_machine {A} (m : mode) sh (data : list A) t req a idx :
  tensor_try_from sh data = Ok t -> access_try_from t req = Ok a ->
  access_index_m m a idx =
  Ok (get_index_direct (map_dimensions_to_source (a_tbl a) idx 0) (t_strides t) (t_shape t)).
Proof.
  intros Ht Ha. unfold tensor_try_from in Ht.
  destruct (validate_dimensions _ _) eqn:V; [|discriminate]. injection Ht as <-.
  apply validate_dimensions_spec in V. destruct V as [Hv [_ Hb]].
  unfold access_try_from in Ha. destruct (dm_new _ _) as [tbl|]; [|discriminate].
  injection Ha as <-. unfold access_index_m. cbn [a_src a_tbl t_strides t_shape].
  apply get_index_direct_total; assumption.
Qed.
