(* C03, second extension wave.
   (1) The named methods `elementwise` / `elementwise_with_index` (receiver Tensor or TensorView,
       argument Into<TensorView>): all four container / view combinations compute one result on
       operands whose container holds the view's elements in view order (the remaining owned /
       borrowed spellings of the 12 / 24 Rust forms are `.into()` / `.source_ref()` conversions to
       these four, cross-checked in the harness).
   (2) Matrix view adaptors: every view TERM built from a Matrix by MatrixRange, MatrixReverse and
       transposition (the operand language of the correspondence, `apply_mstep` in Run/RunC03.v)
       answers every position inside its size (`mtotal`), and — when its size is at least 1x1 and
       fits a usize — has a container (`mmaterialized`): the hypotheses of the matrix forms /
       equality theorems hold for every constructed operand, by a theorem instead of per case. *)
From Coq Require Import List ZArith NArith Bool Arith Lia.
From EasyML Require Import Base.Sx Model.Shape Model.Tensor Model.Num Model.Views Model.Arith Model.ArithForms
     Proofs.ShapeP Proofs.C01P Proofs.C03P Proofs.C03F.
From EasyML Require Run.RunC03.
Import ListNotations.
Open Scope N_scope.

(* ================================================================ elementwise Into-forms *)
Section Elementwise.
Context {R : Type}.

(* Tensor::from on the view's shape with other data of the same length builds the container's
   shape and strides around that data *)
Lemma tensor_from_same_length (sh : shape) (l l' : list R) m :
  tensor_from sh l = Ok m -> length l' = length l ->
  tensor_from sh l' = Ok (mkTensor l' (t_shape m) (t_strides m)).
Proof.
  unfold tensor_from. intros H E. rewrite E.
  destruct (validate_dimensions sh (N.of_nat (length l))); [|discriminate].
  injection H as <-. reflexivity.
Qed.

Lemma materialized_parts (x : tpair R) : tmaterialized x ->
  exists l, view_elems (snd x) = Some l /\ tensor_from (v_shape (snd x)) l = Ok (fst x) /\
    op_shape (OT (fst x)) = v_shape (snd x) /\ t_data (fst x) = l /\ tensor_inv (fst x) /\
    length l = N.to_nat (elements (v_shape (snd x))).
Proof.
  destruct x as [m v]. intros [W [l [E M]]]. cbn [fst snd] in *.
  destruct (container_is_view v l m W E M) as [S [I [Inv _]]].
  exists l. cbn [op_shape op_iter] in *. rewrite E in I. injection I as I.
  split; [exact E|]. split; [exact M|]. split; [exact S|]. split; [exact I|]. split; [exact Inv|].
  apply view_elems_length, E.
Qed.

Theorem elementwise_forms_agree (f : R -> R -> R) (x y : tpair R) :
  tmaterialized x -> tmaterialized y ->
  t_elementwise f (OT (fst x)) (OT (fst y)) = t_elementwise f (OV (snd x)) (OV (snd y)) /\
  t_elementwise f (OT (fst x)) (OV (snd y)) = t_elementwise f (OV (snd x)) (OV (snd y)) /\
  t_elementwise f (OV (snd x)) (OT (fst y)) = t_elementwise f (OV (snd x)) (OV (snd y)).
Proof.
  intros Hx Hy.
  destruct (materialized_parts x Hx) as [lx [Ex [Mx [Sx [Dx [_ Lx]]]]]].
  destruct (materialized_parts y Hy) as [ly [Ey [My [Sy [Dy [Invy Ly]]]]]].
  destruct x as [mx vx], y as [my vy]. cbn [fst snd] in *.
  assert (Vy : view_elems (op_view (OT my)) = Some ly).
  { cbn [op_view]. rewrite (direct_iter_is_view_order my Invy), Dy. reflexivity. }
  unfold t_elementwise. cbn [op_shape] in Sx, Sy. cbn [op_shape op_iter]. rewrite Sx, Sy, Vy, Dx.
  cbn [op_view]. rewrite Ex, Ey.
  destruct (shape_eqb (v_shape vx) (v_shape vy)) eqn:SE; [|repeat split; reflexivity].
  apply shape_eqb_spec in SE.
  assert (Len : length (map2 f lx ly) = length lx).
  { rewrite map2_length, Lx, Ly, SE. lia. }
  rewrite (tensor_from_same_length _ lx _ mx Mx Len), ?Sx. repeat split; reflexivity.
Qed.

Theorem elementwise_with_index_forms_agree (f : list N -> R -> R -> R) (x y : tpair R) :
  tmaterialized x -> tmaterialized y ->
  t_elementwise_with_index f (OT (fst x)) (OT (fst y)) =
    t_elementwise_with_index f (OV (snd x)) (OV (snd y)) /\
  t_elementwise_with_index f (OT (fst x)) (OV (snd y)) =
    t_elementwise_with_index f (OV (snd x)) (OV (snd y)) /\
  t_elementwise_with_index f (OV (snd x)) (OT (fst y)) =
    t_elementwise_with_index f (OV (snd x)) (OV (snd y)).
Proof.
  intros Hx Hy.
  destruct (materialized_parts x Hx) as [lx [Ex [Mx [Sx [Dx [_ Lx]]]]]].
  destruct (materialized_parts y Hy) as [ly [Ey [My [Sy [Dy [Invy Ly]]]]]].
  destruct x as [mx vx], y as [my vy]. cbn [fst snd] in *.
  assert (Vy : view_elems (op_view (OT my)) = Some ly).
  { cbn [op_view]. rewrite (direct_iter_is_view_order my Invy), Dy. reflexivity. }
  unfold t_elementwise_with_index. cbn [op_shape] in Sx, Sy. cbn [op_shape op_iter].
  rewrite Sx, Sy, Vy, Dx. cbn [op_view]. rewrite Ex, Ey.
  destruct (shape_eqb (v_shape vx) (v_shape vy)) eqn:SE; [|repeat split; reflexivity].
  apply shape_eqb_spec in SE.
  set (mapped := map2 _ _ _).
  assert (Len : length mapped = length lx).
  { unfold mapped. rewrite map2_length, combine_length, all_indexes_length, Lx, Ly, SE.
    unfold elements. lia. }
  rewrite (tensor_from_same_length _ lx _ mx Mx Len), ?Sx. repeat split; reflexivity.
Qed.
End Elementwise.

(* ================================================================ matrix view terms *)
Section MatrixViews.
Context {A : Type}.

(* the operand language: a Matrix wrapped by any chain of the three adaptors *)
Inductive mvterm : Type :=
| MBase (m : matrix A)
| MRange (t : mvterm) (r0 rl c0 cl : N)
| MReverse (t : mvterm) (rr rc : bool)
| MTranspose (t : mvterm).

Fixpoint mv_denote (t : mvterm) : mview A :=
  match t with
  | MBase m => mview_of_matrix m
  | MRange t r0 rl c0 cl => mv_range (mv_denote t) r0 rl c0 cl
  | MReverse t rr rc => mv_reverse (mv_denote t) rr rc
  | MTranspose t => mv_transpose (mv_denote t)
  end.

Fixpoint mv_base (t : mvterm) : matrix A :=
  match t with
  | MBase m => m
  | MRange t _ _ _ _ | MReverse t _ _ | MTranspose t => mv_base t
  end.

(* the invariant of Matrix: data.len() == rows * columns *)
Definition matrix_inv (m : matrix A) : Prop := m_rows m * m_cols m = N.of_nat (length (m_data m)).

Lemma from_flat_row_major_inv rows cols (d : list A) m :
  from_flat_row_major rows cols d = Ok m -> matrix_inv m.
Proof.
  unfold from_flat_row_major, matrix_inv.
  destruct (N.leb_spec (rows * cols) usize_max); cbn [andb]; [|discriminate].
  destruct (N.eqb_spec (rows * cols) (N.of_nat (length d))); cbn [andb]; [|discriminate].
  destruct (negb _); [|discriminate]. intros [= <-]. cbn. assumption.
Qed.

Lemma matrix_total (m : matrix A) : matrix_inv m -> mtotal (mview_of_matrix m).
Proof.
  intros Inv i j Hi Hj. cbn [mview_of_matrix mv_rows mv_cols mv_get] in *. unfold m_get.
  destruct (N.ltb_spec i (m_rows m)); [|lia]. destruct (N.ltb_spec j (m_cols m)); [|lia]. cbn [andb].
  destruct (nth_error (m_data m) (N.to_nat (i * m_cols m + j))) as [a|] eqn:E; [eauto|exfalso].
  apply nth_error_None in E. unfold matrix_inv in Inv. nia.
Qed.

Lemma reverse_index_lt rev len i : i < len -> reverse_index rev len i < len.
Proof.
  intros H. unfold reverse_index. destruct rev; [|exact H].
  destruct (N.ltb_spec (len - 1) i); lia.
Qed.

Lemma range_total (v : mview A) r0 rl c0 cl : mtotal v -> mtotal (mv_range v r0 rl c0 cl).
Proof.
  intros T i j Hi Hj. cbn [mv_range mv_rows mv_cols mv_get] in *.
  destruct (N.ltb_spec i (clip r0 rl (mv_rows v))); [|lia].
  destruct (N.ltb_spec j (clip c0 cl (mv_cols v))); [|lia]. cbn [andb].
  unfold clip in *. apply T; lia.
Qed.

Lemma reverse_total (v : mview A) rr rc : mtotal v -> mtotal (mv_reverse v rr rc).
Proof.
  intros T i j Hi Hj. cbn [mv_reverse mv_rows mv_cols mv_get] in *.
  destruct (N.eqb_spec (mv_rows v) 0); [lia|]. destruct (N.eqb_spec (mv_cols v) 0); [lia|]. cbn [orb].
  cbn [reverse_indexes snd]. apply T; apply reverse_index_lt; assumption.
Qed.

Lemma transpose_total (v : mview A) : mtotal v -> mtotal (mv_transpose v).
Proof. intros T i j Hi Hj. cbn [mv_transpose mv_rows mv_cols mv_get] in *. apply T; assumption. Qed.

(* every constructed matrix view answers every position inside its size *)
Theorem every_matrix_view_total (t : mvterm) : matrix_inv (mv_base t) -> mtotal (mv_denote t).
Proof.
  induction t as [m|t IH r0 rl c0 cl|t IH rr rc|t IH]; cbn [mv_base mv_denote]; intros Inv.
  - apply matrix_total, Inv.
  - apply range_total, IH, Inv.
  - apply reverse_total, IH, Inv.
  - apply transpose_total, IH, Inv.
Qed.

(* a total view can be collected in row-major order, rows * columns elements *)
Lemma total_row_major (v : mview A) : mtotal v ->
  exists l, mv_row_major v = Some l /\ length l = N.to_nat (mv_rows v * mv_cols v).
Proof.
  intros T. unfold mv_row_major.
  destruct (sequence _) as [l|] eqn:E.
  - exists l. split; [reflexivity|]. apply sequence_Some in E.
    apply (f_equal (@length _)) in E. rewrite map_length in E. rewrite <- E.
    rewrite (flat_map_length_uniform _ (N.to_nat (mv_cols v))).
    + rewrite nrange_length. lia.
    + intros i _. rewrite map_length, nrange_length. reflexivity.
  - exfalso. apply sequence_None_iff in E. apply in_flat_map in E. destruct E as [i [Hi E]].
    apply in_map_iff in E. destruct E as [j [E Hj]]. apply in_nrange in Hi. apply in_nrange in Hj.
    destruct (T i j Hi Hj) as [a Ha]. congruence.
Qed.

(* ... and, when its size is at least 1x1 and fits a usize, has a container *)
Theorem total_view_has_a_container (v : mview A) : mtotal v ->
  0 < mv_rows v * mv_cols v <= usize_max -> exists m, mmaterialized (m, v).
Proof.
  intros T [Hpos Hb]. destruct (total_row_major v T) as [l [El Ll]].
  exists (mkMatrix l (mv_rows v) (mv_cols v)). exists l. cbn [fst snd]. split; [exact El|].
  unfold from_flat_row_major.
  destruct (N.leb_spec (mv_rows v * mv_cols v) usize_max); [|lia].
  destruct (N.eqb_spec (mv_rows v * mv_cols v) (N.of_nat (length l))); [|lia].
  destruct (N.eqb_spec (N.of_nat (length l)) 0); [lia|]. reflexivity.
Qed.

Theorem every_matrix_view_has_a_container (t : mvterm) : matrix_inv (mv_base t) ->
  0 < mv_rows (mv_denote t) * mv_cols (mv_denote t) <= usize_max ->
  exists m, mmaterialized (m, mv_denote t).
Proof. intros Inv H. apply total_view_has_a_container; [apply every_matrix_view_total, Inv|exact H]. Qed.

(* the size of a constructed view never exceeds what fits: ranges clip, the others permute *)
Lemma mv_size_bound (t : mvterm) :
  mv_rows (mv_denote t) * mv_cols (mv_denote t) <= m_rows (mv_base t) * m_cols (mv_base t).
Proof.
  induction t as [m|t IH r0 rl c0 cl|t IH rr rc|t IH]; cbn [mv_base mv_denote].
  - cbn. lia.
  - cbn [mv_range mv_rows mv_cols]. unfold clip.
    assert (N.min (N.min usize_max (r0 + rl)) (mv_rows (mv_denote t)) - r0 <= mv_rows (mv_denote t)) by lia.
    assert (N.min (N.min usize_max (c0 + cl)) (mv_cols (mv_denote t)) - c0 <= mv_cols (mv_denote t)) by lia.
    nia.
  - cbn [mv_reverse mv_rows mv_cols]. exact IH.
  - cbn [mv_transpose mv_rows mv_cols]. lia.
Qed.
End MatrixViews.
Arguments mvterm A : clear implicits.

(* ================================================================ the decoder's operands *)
(* Run/RunC03.v builds a matrix operand by folding `apply_mstep` over the case's adaptor steps,
   starting from a Matrix made by from_flat_row_major: every view it can build is the denotation
   of a term over that Matrix, and it rejects (bad_case) such an operand only for an empty or
   oversized view — never because an element is missing. *)
Section Decoder.
Context {R : Type} (ops : numops R).

Lemma mstep_is_a_term (t : mvterm R) s v' : RunC03.apply_mstep (mv_denote t) s = Some v' ->
  exists t', v' = mv_denote t' /\ mv_base t' = mv_base t.
Proof.
  unfold RunC03.apply_mstep. intros H.
  repeat match type of H with
         | match ?x with _ => _ end = Some _ => destruct x eqn:?; try discriminate
         end; injection H as <-;
  first [ exists (MTranspose t); split; reflexivity
        | eexists (MReverse t _ _); split; reflexivity
        | eexists (MRange t _ _ _ _); split; reflexivity ].
Qed.

Lemma msteps_are_a_term steps : forall (t : mvterm R) v',
  fold_left (fun ov st => match ov with Some v => RunC03.apply_mstep v st | None => None end)
            steps (Some (mv_denote t)) = Some v' ->
  exists t', v' = mv_denote t' /\ mv_base t' = mv_base t.
Proof.
  induction steps as [|s steps IH]; intros t v' H; cbn [fold_left] in H.
  - injection H as <-. exists t. split; reflexivity.
  - destruct (RunC03.apply_mstep (mv_denote t) s) as [v1|] eqn:E1.
    + destruct (mstep_is_a_term t s v1 E1) as [t1 [-> B1]].
      destruct (IH t1 v' H) as [t' [Ht' B']]. exists t'. split; [exact Ht'|congruence].
    + exfalso. clear -H. induction steps as [|s' steps IH']; cbn [fold_left] in H; [discriminate|auto].
Qed.

Theorem decoder_operand_is_materialized rows cols (data : list R) m steps v :
  from_flat_row_major rows cols data = Ok m ->
  fold_left (fun ov st => match ov with Some v => RunC03.apply_mstep v st | None => None end)
            steps (Some (mview_of_matrix m)) = Some v ->
  mtotal v /\
  (0 < mv_rows v * mv_cols v ->
   exists mm, RunC03.mmaterialize v = Some mm /\ mmaterialized (mm, v)).
Proof.
  intros Hm Hs. pose proof (from_flat_row_major_inv _ _ _ _ Hm) as Inv.
  destruct (msteps_are_a_term steps (MBase m) v Hs) as [t [-> Bt]].
  assert (Inv' : matrix_inv (mv_base t)) by (rewrite Bt; exact Inv).
  split; [apply every_matrix_view_total, Inv'|]. intros Hpos.
  assert (Hb : mv_rows (mv_denote t) * mv_cols (mv_denote t) <= usize_max).
  { pose proof (mv_size_bound t) as B. rewrite Bt in B. cbn [mv_base] in B.
    unfold from_flat_row_major in Hm.
    destruct (N.leb_spec (rows * cols) usize_max); cbn [andb] in Hm; [|discriminate].
    destruct (_ && _) in Hm; [|discriminate]. injection Hm as <-. cbn [m_rows m_cols] in B. lia. }
  destruct (every_matrix_view_has_a_container t Inv' (conj Hpos Hb)) as [mm Hmm].
  exists mm. split; [|exact Hmm]. destruct Hmm as [l [El Em]]. cbn [fst snd] in *.
  unfold RunC03.mmaterialize. rewrite El, Em. reflexivity.
Qed.
End Decoder.
