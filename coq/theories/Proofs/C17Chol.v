(* C17 x C08: the Cholesky routine transcribed inside Model/Gaussian.v (explicit column index,
   finished rows kept padded with zeros, fold over 0..j) computes the SAME function as the one of
   Model/Decomp.v (column index = length of the partial row, rows unpadded, padded at the end), on
   every input.  Hence C08's soundness theorem applies to the factor the multivariate draws use:
   whenever a draw is present, its rows are mean + L z with L a genuine Cholesky factor of the
   covariance (lower triangular, positive diagonal, L L^T = covariance for symmetric covariance). *)
From Coq Require Import List Arith Lia Bool NArith.
From EasyML Require Import Base.Sx Model.Num Model.LinAlg.
From EasyML Require Model.Decomp Model.Gaussian.
From EasyML Require Import Proofs.C17P.
From EasyML Require Proofs.C14P.
From EasyML Require Proofs.C08P5.
Import ListNotations.

Section Same.
Context {R : Type} (ops : numops R).
Notation zero := (nzero ops).
Implicit Types u v cur row : list R.
Implicit Types L rows a : list (list R).

Definition pad (n : nat) row : list R := row ++ repeat zero (n - length row).

Lemma pad_is_pad_row n row : pad n row = Decomp.pad_row ops n row.
Proof. reflexivity. Qed.

(* reading a padded row with default zero is reading the row *)
Lemma nth_pad n row k : nth k (pad n row) zero = nth k row zero.
Proof.
  unfold pad. destruct (Nat.lt_ge_cases k (length row)) as [H|H].
  - now rewrite app_nth1.
  - rewrite app_nth2 by assumption. rewrite (nth_overflow row) by assumption.
    generalize (k - length row) as m. generalize (n - length row) as p.
    induction p as [|p IH]; intros [|m]; simpl; auto.
Qed.

Lemma nth_row_pad n L j k :
  nth k (nth j (map (pad n) L) []) zero = nth k (nth j L []) zero.
Proof.
  destruct (Nat.lt_ge_cases j (length L)) as [H|H].
  - rewrite (nth_indep _ [] (pad n [])) by now rewrite map_length.
    rewrite map_nth. apply nth_pad.
  - rewrite (nth_overflow (map (pad n) L)) by now rewrite map_length.
    rewrite (nth_overflow L) by assumption. reflexivity.
Qed.

(* the fold over 0..j is the recursive dot *)
Lemma chol_sum_dot u v j : Gaussian.chol_sum ops u v j = Decomp.dot ops u v j.
Proof.
  unfold Gaussian.chol_sum. induction j as [|j IH]; [reflexivity|].
  rewrite seq_S, fold_left_app. cbn [fold_left Nat.add Decomp.dot]. now rewrite IH.
Qed.

Lemma dot_ext_r u v v' j : (forall k, nth k v zero = nth k v' zero) ->
  Decomp.dot ops u v j = Decomp.dot ops u v' j.
Proof. intros H. induction j as [|j IH]; cbn [Decomp.dot]; [reflexivity|]. now rewrite IH, H. Qed.

Lemma mentry_mget a i j : Gaussian.mentry ops a i j = mget ops a i j.
Proof. reflexivity. Qed.

(* one row: the explicit indices length cur, length cur + 1, ... against the fuel *)
Lemma chol_row_same a n L i : forall fuel cur,
  Gaussian.chol_row ops a (map (pad n) L) i (seq (length cur) fuel) cur =
  Decomp.chol_row ops a L i cur fuel.
Proof.
  induction fuel as [|fuel IH]; intros cur; [reflexivity|].
  cbn [seq Gaussian.chol_row Decomp.chol_row]. rewrite (Nat.eqb_sym i (length cur)).
  destruct (Nat.eqb (length cur) i) eqn:E.
  - rewrite chol_sum_dot, mentry_mget. apply Nat.eqb_eq in E. subst i.
    destruct (nleb ops _ zero); [reflexivity|].
    match goal with |- Gaussian.chol_row _ _ _ _ _ (cur ++ [?x]) = _ =>
      replace (S (length cur)) with (length (cur ++ [x])) by (rewrite app_length; simpl; lia) end.
    apply IH.
  - rewrite chol_sum_dot, mentry_mget.
    rewrite (dot_ext_r cur _ (nth (length cur) L []) (length cur)) by (intros k; apply nth_row_pad).
    rewrite nth_row_pad.
    match goal with |- Gaussian.chol_row _ _ _ _ _ (cur ++ [?x]) = _ =>
      replace (S (length cur)) with (length (cur ++ [x])) by (rewrite app_length; simpl; lia) end.
    apply IH.
Qed.

Lemma chol_rows_same a n : forall fuel L,
  Gaussian.chol_rows ops a n (seq (length L) fuel) (map (pad n) L) =
  option_map (map (pad n)) (Decomp.chol_rows ops a L fuel).
Proof.
  induction fuel as [|fuel IH]; intros L; [reflexivity|].
  change (seq (length L) (S fuel)) with (length L :: seq (S (length L)) fuel).
  cbn [Gaussian.chol_rows Decomp.chol_rows].
  change (seq 0 (S (length L))) with (seq (length (@nil R)) (S (length L))).
  rewrite chol_row_same.
  destruct (Decomp.chol_row ops a L (length L) [] (S (length L))) as [row|]; [|reflexivity].
  fold (pad n row).
  replace (map (pad n) L ++ [pad n row]) with (map (pad n) (L ++ [row])) by now rewrite map_app.
  replace (S (length L)) with (length (L ++ [row])) by (rewrite app_length; simpl; lia).
  apply IH.
Qed.

(* the two transcriptions agree on EVERY input *)
Theorem cholesky_same a : Gaussian.cholesky ops a = Decomp.cholesky ops a.
Proof.
  unfold Gaussian.cholesky, Decomp.cholesky, is_square, mrows, mcols.
  destruct (Nat.eqb (length a) (length (hd [] a))); cbn [negb]; [|reflexivity].
  change (seq 0 (length a)) with (seq (length (@nil (list R))) (length a)).
  change (@nil (list R)) with (map (pad (length a)) []) at 2.
  rewrite chol_rows_same. destruct (Decomp.chol_rows ops a [] (length a)); reflexivity.
Qed.

(* ---- corollary: the factor used by the multivariate draws is a genuine Cholesky factor ---- *)
(* ---- corollary: the factor used by the multivariate draws is a genuine Cholesky factor ----
   A present draw determines L with: both transcriptions return L for the covariance; L satisfies
   C08's cholesky_factor (n x n, zero above the diagonal, positive diagonal, (L L^T)[i][j] =
   cov[i][j] for j <= i and, for symmetric cov, for all i, j); every row is mean + L z_r. *)
Theorem mv_draw_genuine_factor (lt : R -> R -> Prop) (mean : list R) cov (src : list R)
    (k ns nf : nat) d0 d1 rows rest :
  C08P5.ordered_sqrt_field ops lt ->
  Gaussian.draw_tensor_samples ops mean cov src (N.of_nat k) ns nf = (Some (d0, d1, rows), rest) ->
  exists L,
    Gaussian.cholesky ops cov = Some L /\ Decomp.cholesky ops cov = Some L /\
    C08P5.cholesky_factor ops lt cov L /\
    0 < k /\ ns <> nf /\
    d0 = (ns, N.of_nat k) /\ d1 = (nf, N.of_nat (length mean)) /\
    rest = skipn (k * width (length mean)) src /\ length rows = k /\
    forall r, r < k -> nth r rows [] = affine ops mean L (std_row ops (length mean) src r).
Proof.
  intros Hof H. rewrite draw_tensor_samples_spec in H.
  destruct (Nat.eqb ns nf) eqn:En; [discriminate|].
  destruct (Gaussian.cholesky ops cov) as [L|] eqn:HL; [|discriminate].
  destruct (Nat.eqb k 0) eqn:Ek; [discriminate|].
  destruct (k * width (length mean) <=? length src); [|discriminate].
  inversion H; subst; clear H. exists L.
  assert (HD : Decomp.cholesky ops cov = Some L) by now rewrite <- cholesky_same.
  apply Nat.eqb_neq in En. apply Nat.eqb_neq in Ek.
  split; [reflexivity|]. split; [exact HD|].
  split; [exact (C08P5.cholesky_sound_b ops lt cov L Hof HD)|].
  split; [lia|]. split; [exact En|]. split; [reflexivity|]. split; [reflexivity|].
  split; [reflexivity|]. split; [now rewrite map_length, seq_length|].
  intros r Hr. now rewrite (C14P.nth_map_seq _ k r []).
Qed.

(* a covariance without a Cholesky factor in C08's sense (in particular every covariance that is
   not positive definite: L L^T with positive diagonal is), or a non-square one: the draw is
   absent and has consumed nothing, for every number of samples and every pair of names *)
Theorem mv_draw_absent_no_factor (lt : R -> R -> Prop) (mean : list R) cov (src : list R)
    (k : N) (ns nf : nat) :
  C08P5.ordered_sqrt_field ops lt ->
  (~ exists L, C08P5.cholesky_factor ops lt cov L) \/ mrows cov <> mcols cov ->
  Gaussian.draw_tensor_samples ops mean cov src k ns nf = (None, src).
Proof.
  intros Hof Hno. unfold Gaussian.draw_tensor_samples.
  destruct (Nat.eqb ns nf); [reflexivity|].
  now rewrite cholesky_same, (C08P5.cholesky_rejects_b ops lt cov Hof Hno).
Qed.

End Same.
