(* C09 over the view algebras of C02 and C12: every constructed view meets the hypotheses of the
   any-source iterator theorems of Proofs/C09GenP.v.
   A. tensor iterators over every constructed C02 view term (`cview_source`, leaf storage):
      every index of the view shape has an element (C02's present-iff + in-bounds resolution), two
      different indexes never resolve to the same stored element (C02's injectivity), a write
      through the view behaves like a lens.
   B. matrix iterators over every C12 matrix view (`mview_source`: reached through ITS unchecked
      getters): every place the iterators hand over is inside the view, where the unchecked
      getters resolve to the cell the checked getter designates (Proofs/C12Access.v); over every
      stack the API can build on a matrix or a partition part two different indexes never resolve
      to the same cell (`stack_injective`), so writes behave like a lens. *)
From Coq Require Import List ZArith NArith Bool Arith Lia.
From EasyML Require Import Base.Sx Model.Shape Model.Tensor Model.TSource Model.ShapeIter
  Model.MatrixIter Model.Transform Model.MatrixViews Model.MatrixAccess Model.IterG
  Proofs.ShapeP Proofs.OdometerP Proofs.C09P Proofs.C09GenP Proofs.C12P Proofs.C12Partition Proofs.C12Access.
From EasyML Require Model.Views Proofs.C02P Proofs.C02Q Proofs.C02W Proofs.C02Inj.
Import ListNotations.
Open Scope N_scope.

(* ====================== A. C02 views ====================== *)
Section CView.
Context {A : Type}.
Variables (v : Views.view) (c : Views.cview).
Hypothesis Hc : Views.v_ctor v = Ok c.
Hypothesis Hu : C02P.usize_view c.

Notation src := (cview_source (A := A) c).
Notation sh := (Views.c_shape c).

(* the store has an element for every in-bounds offset of every leaf of the view *)
Definition covers (st : N * N -> option A) : Prop :=
  forall l n off, In (l, n) (Views.c_leaves c) -> off < n -> exists x, st (l, off) = Some x.

Lemma cview_resolves idx : in_range idx (lens_of sh) ->
  exists l off n, Views.c_get c idx = Some (l, off) /\ In (l, n) (Views.c_leaves c) /\ off < n.
Proof.
  intros Hr.
  assert (Hlen : length idx = length sh).
  { pose proof (in_range_length _ _ Hr) as L. unfold lens_of in L. rewrite map_length in L. exact L. }
  pose proof (proj2 (C02Q.view_present_iff v c idx Hc Hu Hlen) Hr) as Hp.
  destruct (Views.c_get c idx) as [[l off]|] eqn:Eg; [|congruence].
  destruct (C02W.resolves_in_bounds v c idx l off Hc Eg) as [n [Hin Hlt]].
  exists l, off, n. auto.
Qed.

(* the TensorRef contract: every index of the view shape has an element *)
Theorem cview_present st idx : covers st -> in_range idx (lens_of sh) ->
  exists e x, Views.c_get c idx = Some e /\ st e = Some x /\ ts_get src st idx = Some x.
Proof.
  intros Hst Hr. destruct (cview_resolves idx Hr) as [l [off [n [Eg [Hin Hlt]]]]].
  destruct (Hst l n off Hin Hlt) as [x Hx]. exists (l, off), x.
  cbn [cview_source ts_get]. rewrite Eg. auto.
Qed.

(* enumerates each element of the view once, in row-major order of the VIEW shape, then None;
   every element is present *)
Theorem cview_iter_enumerates st m : covers st ->
  let all := all_indexes (lens_of sh) in
  map fst (fst (drive (gti_next src) gti_len (length all + m) (gti_from src st))) =
  map (fun idx => Some (idx, ts_get src st idx)) all ++ repeat None m /\
  Forall (fun idx => exists e x, Views.c_get c idx = Some e /\ st e = Some x /\ ts_get src st idx = Some x) all.
Proof.
  intros Hst. cbv zeta. split; [exact (gen_tensor_iter_enumerates src st m)|].
  apply Forall_forall. intros idx Hin. apply cview_present; [exact Hst|].
  pose proof (all_indexes_in_range (lens_of sh)) as F. rewrite Forall_forall in F. apply F. exact Hin.
Qed.

(* the exact remaining length at every prefix: elements of the VIEW shape minus the calls made *)
Theorem cview_iter_len_after st k :
  gti_len (gti_from src st) = elements sh /\
  map snd (fst (drive (gti_next src) gti_len k (gti_from src st))) =
  map (fun j => elements sh - N.of_nat (S j)) (seq 0 k).
Proof. exact (gen_tensor_iter_len_after src st k). Qed.

Hypothesis Hnd : NoDup (C02Inj.leaf_ids c).

Lemma cview_inj i1 i2 : in_range i1 (lens_of sh) -> in_range i2 (lens_of sh) ->
  Views.c_get c i1 = Views.c_get c i2 -> i1 = i2.
Proof. exact (C02Inj.view_injective c (C02P.ctor_wf v c Hc) Hu Hnd i1 i2). Qed.

(* mutable iterators: the references handed out by any number of calls point at pairwise
   distinct STORED elements (not merely distinct indexes) *)
Theorem cview_mut_distinct_elements st k :
  let places := map fst (somes (map fst (fst (drive (gti_next src) gti_len k (gti_from src st))))) in
  NoDup (map (Views.c_get c) places) /\
  Forall (fun idx => exists e, Views.c_get c idx = Some e) places.
Proof.
  cbv zeta. pose proof (gen_tensor_iter_places_in_shape src st k) as Hin.
  pose proof (gen_tensor_iter_distinct src st k) as Hd.
  cbn [cview_source ts_shape] in Hin.
  set (places := map fst (somes (map fst (fst (drive (gti_next src) gti_len k (gti_from src st)))))) in *.
  rewrite Forall_forall in Hin. split.
  - apply NoDup_map_inj_in; [|exact Hd]. intros a b Ha Hb. apply cview_inj; auto.
  - apply Forall_forall. intros idx Hi. destruct (cview_resolves idx (Hin idx Hi)) as [l [off [n [E _]]]].
    eauto.
Qed.

(* writes through the view behave like a lens on the indexes of the view shape *)
Lemma cview_lens st idx x : covers st -> in_range idx (lens_of sh) ->
  exists st', ts_set src st idx x = Some st' /\ covers st' /\ ts_get src st' idx = Some x /\
              forall idx', in_range idx' (lens_of sh) -> idx' <> idx -> ts_get src st' idx' = ts_get src st idx'.
Proof.
  intros Hst Hr. destruct (cview_resolves idx Hr) as [l [off [n [Eg _]]]].
  cbn [cview_source ts_set ts_get]. rewrite Eg. eexists. split; [reflexivity|]. split; [|split].
  - intros l' n' off' Hin Hlt. unfold store_set. cbn [fst snd].
    destruct ((l' =? l) && (off' =? off)); [eauto|apply (Hst l' n' off' Hin Hlt)].
  - unfold store_set. cbn [fst snd]. rewrite !N.eqb_refl. reflexivity.
  - intros idx' Hr' Hne. destruct (cview_resolves idx' Hr') as [l' [off' [n' [Eg' _]]]]. rewrite Eg'.
    unfold store_set. cbn [fst snd].
    destruct (N.eqb_spec l' l) as [->|]; [|reflexivity]. destruct (N.eqb_spec off' off) as [->|]; [|reflexivity].
    exfalso. apply Hne. apply cview_inj; auto. congruence.
Qed.

(* owning iterators: call number q moves out the ORIGINAL element at the q-th index of the view
   shape (the items are those of the shared iterator over the untouched store); after k calls
   exactly the first k indexes read the placeholder, all others are unchanged *)
Theorem cview_owned_moves_once (dflt : A) st k : covers st ->
  let r := drive (gti_next_owned src dflt) gti_len k (gti_from src st) in
  fst r = fst (drive (gti_next src) gti_len k (gti_from src st)) /\
  covers (gi_source (snd r)) /\
  forall x, in_range x (lens_of sh) ->
    ts_get src (gi_source (snd r)) x = if flat x (lens_of sh) <? N.of_nat k then Some dflt else ts_get src st x.
Proof.
  intros Hst. apply (gen_owned_moves_once src dflt covers sh); [|exact Hst|reflexivity].
  intros s idx x Ps Hr. exact (cview_lens s idx x Ps Hr).
Qed.

End CView.

(* ====================== B. C12 matrix views ====================== *)
Section MView.
Context {T : Type}.
Variable v : mview.

Notation msrc := (mview_source (T := T) v).

Lemma mview_get data (p : N * N) cell :
  try_get v (fst p) (snd p) = Cell cell ->
  get_unchecked v (fst p) (snd p) = UCell cell /\
  mo_get msrc data p = nth_error data (N.to_nat cell).
Proof.
  intros E. pose proof (get_unchecked_present v _ _ _ E) as U. split; [exact U|].
  cbn [mview_source mo_get]. rewrite U. unfold read_unchecked.
  destruct (nth_error data (N.to_nat cell)); reflexivity.
Qed.

Section Wf.
Variable len : N.
Hypothesis Hw : wf len v.

(* inside the view's size the iterator's unchecked read IS the checked read *)
Theorem mview_present data (p : N * N) : N.of_nat (length data) = len ->
  fst p < view_rows v -> snd p < view_cols v ->
  exists cell x, cell < len /\ try_get v (fst p) (snd p) = Cell cell /\
                 get_unchecked v (fst p) (snd p) = UCell cell /\
                 read data (try_get v (fst p) (snd p)) = Ok (Some x) /\ mo_get msrc data p = Some x.
Proof.
  intros Hl Hr Hcl. pose proof (view_contract len v Hw (fst p) (snd p)) as C. unfold inside in C.
  replace (fst p <? view_rows v) with true in C by (symmetry; apply N.ltb_lt; exact Hr).
  replace (snd p <? view_cols v) with true in C by (symmetry; apply N.ltb_lt; exact Hcl).
  cbn [andb] in C. destruct C as [cell [E Hlt]].
  destruct (mview_get data p cell E) as [U G].
  destruct (nth_error data (N.to_nat cell)) as [x|] eqn:En.
  - exists cell, x. rewrite E. unfold read. rewrite En. auto.
  - apply nth_error_None in En. lia.
Qed.

(* row-major / column-major iterators over the view: every call, every length, every element
   present — empty views (0xN, Nx0, 0x0 parts) included *)
Theorem mview_major_iter rm data k : N.of_nat (length data) = len ->
  let rows := view_rows v in let cols := view_cols v in
  fst (drive (gmi_next msrc) gmi_len k (gmi_from msrc rm data)) =
  map (fun j => cexpected (rows * cols)
                 (fun q => let p := mi_place rm rows cols q in (p, mo_get msrc data p)) (N.of_nat j)) (seq 0 k)
  /\ gmi_len (gmi_from msrc rm data) = rows * cols
  /\ forall q, q < rows * cols ->
       exists x, mo_get msrc data (mi_place rm rows cols q) = Some x /\
                 read data (try_get v (fst (mi_place rm rows cols q)) (snd (mi_place rm rows cols q))) = Ok (Some x).
Proof.
  intros Hl. cbv zeta. destruct (gen_major_iter_spec msrc rm data k) as [H1 H2].
  split; [exact H1|]. split; [exact H2|]. intros q Hq.
  destruct (mi_place_in_size rm _ _ q Hq) as [Hr Hcl].
  destruct (mview_present data _ Hl Hr Hcl) as [cell [x [_ [_ [_ [R G]]]]]]. eauto.
Qed.

(* C12 / C10 link: the ONLY safe callers of a matrix view's unchecked getters are the matrix
   iterators; every (row, column) they pass is inside the view, where both unchecked getters
   resolve to the cell the checked getter designates, inside the root's storage *)
Definition reaches_present (p : N * N) : Prop :=
  exists cell, cell < len /\ try_get v (fst p) (snd p) = Cell cell /\
               get_unchecked v (fst p) (snd p) = UCell cell /\
               (has_mut v = true -> get_unchecked_mut v (fst p) (snd p) = UCell cell).

Lemma in_size_reaches (data : list T) p : in_msize msrc data p -> reaches_present p.
Proof.
  intros [Hr Hcl]. cbn [mview_source mo_rows mo_cols] in Hr, Hcl.
  pose proof (view_contract len v Hw (fst p) (snd p)) as C. unfold inside in C.
  replace (fst p <? view_rows v) with true in C by (symmetry; apply N.ltb_lt; exact Hr).
  replace (snd p <? view_cols v) with true in C by (symmetry; apply N.ltb_lt; exact Hcl).
  cbn [andb] in C. destruct C as [cell [E Hlt]]. exists cell. split; [exact Hlt|]. split; [exact E|].
  split; [now apply get_unchecked_present|]. intros Hm. now apply get_unchecked_mut_present.
Qed.

Theorem mview_major_iter_reaches_present rm data k :
  Forall reaches_present
         (map fst (somes (map fst (fst (drive (gmi_next msrc) gmi_len k (gmi_from msrc rm data)))))).
Proof.
  eapply Forall_impl; [|apply (gen_major_iter_places_in_size msrc rm data k)].
  intros p. apply in_size_reaches.
Qed.

Theorem mview_line_iter_reaches_present kind fixed data k c :
  (kind = LColumn /\ lc_column (view_rows v) (view_cols v) fixed = Ok c) \/
  (kind = LRow /\ lc_row (view_rows v) (view_cols v) fixed = Ok c) \/
  (kind = LDiagonal /\ c = lc_diagonal (view_rows v) (view_cols v)) ->
  Forall reaches_present
         (map fst (somes (map fst (fst (drive (gli_next msrc) gli_len k (mkGI c data)))))).
Proof.
  intros Hc. eapply Forall_impl; [|apply (gen_line_iter_places_in_size msrc kind fixed data k c Hc)].
  intros p. apply in_size_reaches.
Qed.

End Wf.
End MView.

(* ---------- injectivity of every stack over a matrix or a partition part ---------- *)
Lemma reverse_index_lt rr R x : reverse_index rr R x < R -> x < R.
Proof. unfold reverse_index. destruct rr; [|auto]. destruct (N.ltb_spec (R - 1) x); lia. Qed.

Lemma reverse_index_inj rr R x y : x < R -> y < R -> reverse_index rr R x = reverse_index rr R y -> x = y.
Proof.
  unfold reverse_index. destruct rr; [|auto]. intros Hx Hy.
  destruct (N.ltb_spec (R - 1) x); destruct (N.ltb_spec (R - 1) y); lia.
Qed.

Theorem stack_injective rows cols v : 1 <= rows -> stack rows cols v ->
  forall r c r' c' cell, try_get v r c = Cell cell -> try_get v r' c' = Cell cell -> r = r' /\ c = c'.
Proof.
  intros Hrows. induction 1 as [|rp cp parts p Hok Hin|src rr cr Hs IH|src rr rc Hs IH|src Hs IH|src n0 n1 v Hs IH Hv];
    intros r c r' c' cell E E'.
  - cbn [try_get] in E, E'.
    destruct (N.ltb_spec r rows); destruct (N.ltb_spec c cols); cbn [andb] in E; try discriminate.
    destruct (N.ltb_spec r' rows); destruct (N.ltb_spec c' cols); cbn [andb] in E'; try discriminate.
    injection E as <-. injection E' as E'.
    assert (r = r').
    { destruct (N.lt_trichotomy r r') as [L|[L|L]]; [exfalso|exact L|exfalso].
      - assert ((r + 1) * cols <= r' * cols) by (apply N.mul_le_mono_r; lia). lia.
      - assert ((r' + 1) * cols <= r * cols) by (apply N.mul_le_mono_r; lia). lia. }
    subst r'. split; [reflexivity|lia].
  - apply In_nth_error in Hin as [k Hk].
    destruct (partition_disjoint rows cols rp cp parts Hrows Hok k k p p r c r' c' cell Hk Hk E E') as [_ [-> ->]].
    split; reflexivity.
  - unfold range_from in E, E'. cbn [try_get] in E, E'. unfold ir_map in E, E'.
    destruct (r <? _); [|discriminate]. destruct (c <? _); [|discriminate].
    destruct (r' <? _); [|discriminate]. destruct (c' <? _); [|discriminate].
    destruct (IH _ _ _ _ _ E E'). split; lia.
  - cbn [try_get] in E, E'.
    destruct ((view_rows src =? 0) || (view_cols src =? 0)); [discriminate|].
    pose proof (stack_wf rows cols src Hrows Hs) as Hw.
    destruct (proj1 (view_present_iff _ src Hw _ _) (ex_intro _ cell E)) as [A1 A2].
    destruct (proj1 (view_present_iff _ src Hw _ _) (ex_intro _ cell E')) as [B1 B2].
    apply reverse_index_lt in A1, A2, B1, B2.
    destruct (IH _ _ _ _ _ E E') as [F1 F2].
    split; eapply reverse_index_inj; eauto.
  - cbn [try_get] in E, E'. eauto.
  - unfold via_tensor in Hv. destruct (valid_shape_b _); [|discriminate]. injection Hv as <-.
    cbn [try_get] in E, E'. eauto.
Qed.

(* ---------- mutable and owning iterators over stacks ---------- *)
Section MStack.
Context {T : Type}.
Variables (rows cols : N) (v : mview).
Hypothesis Hrows : 1 <= rows.
Hypothesis Hs : stack rows cols v.
Hypothesis Hm : has_mut v = true.

Notation msrc := (mview_source (T := T) v).
Let len := rows * cols.

Lemma mstack_lens data (p : N * N) x : N.of_nat (length data) = len ->
  fst p < view_rows v /\ snd p < view_cols v ->
  exists data', mo_set msrc data p x = Some data' /\ N.of_nat (length data') = len /\
                mo_get msrc data' p = Some x /\
                forall p', fst p' < view_rows v /\ snd p' < view_cols v -> p' <> p ->
                           mo_get msrc data' p' = mo_get msrc data p'.
Proof.
  intros Hl [Hr Hcl]. pose proof (stack_wf rows cols v Hrows Hs) as Hw. fold len in Hw.
  destruct (mview_present v len Hw data p Hl Hr Hcl) as [cell [x0 [Hlt [E [U _]]]]].
  pose proof (get_unchecked_mut_present v Hm _ _ _ E) as UM.
  cbn [mview_source mo_set]. unfold write_unchecked. rewrite UM.
  replace (cell <? N.of_nat (length data)) with true by (symmetry; apply N.ltb_lt; lia).
  eexists. split; [reflexivity|]. split; [rewrite length_replace_nth; exact Hl|]. split.
  - rewrite (proj2 (mview_get v _ p cell E)), nth_error_replace_nth, Nat.eqb_refl.
    replace (Nat.ltb (N.to_nat cell) (length data)) with true by (symmetry; apply Nat.ltb_lt; lia).
    reflexivity.
  - intros p' [Hr' Hc'] Hne.
    destruct (mview_present v len Hw data p' Hl Hr' Hc') as [cell' [x' [_ [E' _]]]].
    rewrite (proj2 (mview_get v _ p' cell' E')), (proj2 (mview_get v data p' cell' E')).
    rewrite nth_error_replace_nth.
    destruct (Nat.eqb_spec (N.to_nat cell') (N.to_nat cell)) as [Heq|]; [|reflexivity].
    exfalso. apply Hne. assert (cell' = cell) by lia. subst cell'.
    destruct (stack_injective rows cols v Hrows Hs _ _ _ _ _ E' E) as [A B].
    destruct p, p'. cbn [fst snd] in *. congruence.
Qed.

(* mutable iterators: the references of any prefix point at pairwise distinct cells of the root *)
Theorem mstack_mut_distinct_cells rm data k :
  let places := map fst (somes (map fst (fst (drive (gmi_next msrc) gmi_len k (gmi_from msrc rm data))))) in
  NoDup (map (fun p => try_get v (fst p) (snd p)) places) /\
  Forall (fun p => exists cell, try_get v (fst p) (snd p) = Cell cell /\ cell < len) places.
Proof.
  cbv zeta. pose proof (stack_wf rows cols v Hrows Hs) as Hw. fold len in Hw.
  pose proof (mview_major_iter_reaches_present (T := T) v len Hw rm data k) as Hp.
  set (places := map fst (somes (map fst (fst (drive (gmi_next msrc) gmi_len k (gmi_from msrc rm data)))))) in *.
  assert (Hd : NoDup places).
  { unfold places, gmi_next, gmi_len, gmi_from.
    rewrite (proj1 (gi_drive mc_step mc_len (mo_get msrc) k _ data)).
    assert (E : forall l, map fst (somes (map fst (with_elements (mo_get msrc) data l))) = places_of l).
    { unfold with_elements, places_of. induction l as [|[[x|] n] l IH]; cbn [map somes option_map fst];
        [reflexivity| |exact IH]. f_equal. exact IH. }
    rewrite E. exact (proj2 (mc_places_ok rm _ _ k)). }
  rewrite Forall_forall in Hp. split.
  - apply NoDup_map_inj_in; [|exact Hd]. intros a b Ha Hb Hab.
    destruct (Hp a Ha) as [cell [_ [Ea _]]]. rewrite Ea in Hab. symmetry in Hab.
    destruct (stack_injective rows cols v Hrows Hs _ _ _ _ _ Ea Hab) as [A B].
    destruct a, b. cbn [fst snd] in *. congruence.
  - apply Forall_forall. intros p Hi. destruct (Hp p Hi) as [cell [Hlt [E _]]]. eauto.
Qed.

(* owning iterators over a non-empty or empty stack: the items are the ORIGINAL elements (those
   the shared iterator yields over the untouched root), after k calls exactly the first k places
   read the placeholder, all other cells of the view are unchanged *)
Theorem mstack_owned_moves_once (dflt : T) rm data k : N.of_nat (length data) = len ->
  let r := drive (gmi_next_owned msrc dflt) gmi_len k (gmi_from msrc rm data) in
  fst r = fst (drive (gmi_next msrc) gmi_len k (gmi_from msrc rm data)) /\
  N.of_nat (length (gi_source (snd r))) = len /\
  forall q, q < view_rows v * view_cols v ->
    mo_get msrc (gi_source (snd r)) (mi_place rm (view_rows v) (view_cols v) q) =
    if q <? N.of_nat k then Some dflt else mo_get msrc data (mi_place rm (view_rows v) (view_cols v) q).
Proof.
  intros Hl.
  apply (gen_matrix_owned_moves_once msrc dflt (fun d => N.of_nat (length d) = len) (view_rows v) (view_cols v));
    [|exact Hl|reflexivity|reflexivity].
  intros s p x Ps Hp. exact (mstack_lens s p x Ps Hp).
Qed.

End MStack.
