(* The index arithmetic of the Matrix mutators as tools/gen_arith.py regenerates it from
   src/matrices/mod.rs on every run (Gen/Arith.v: the closure handed to Vec::retain by remove_row /
   remove_column / retain_mut as a state-passing function of the captured counters (r, c); the
   positions handed to Vec::insert by insert_row(_with) / insert_column(_with); and, where the
   surrounding statements are in the translator's subset, the whole method as "which stored values
   are kept / at which positions values are inserted, and the new (rows, columns)") against the
   hand-written model Model/Matrix.v that the C11 theorems are about.
   The generated definitions use explicit machine arithmetic (Model/U64.v); the model is written
   in ideal arithmetic, so the statements carry the model invariant (Inv: rows, columns >= 1 and
   rows * columns = len(data)) and "the element count (after an insertion) fits a usize". *)
From Coq Require Import List ZArith NArith Bool Arith Lia.
From EasyML Require Import Base.Sx Model.U64 Model.Fallible Model.Matrix Gen.Arith Proofs.C11Spec.
Import ListNotations.
From EasyML Require Import Proofs.GenTac.
Open Scope N_scope.

(* (independent of Proofs/GenArithP.v on purpose: a change to a function C16 is about must not
   make C11's equivalence proofs fail, and vice versa) *)
(* gen_equiv: Proofs/GenTac.v (the specific script, then the shape-independent finisher) *)

Lemma gen_Matrix_get_index_eq : forall md rows cols row col,
  gen_Matrix_get_index md (mkGenMatrix rows cols) row col =
  obind (u_mul md row cols) (fun p => u_add md p col).
Proof.
  gen_equiv gen_Matrix_get_index_eq by
    (intros; unfold gen_Matrix_get_index, gen_Matrix_columns; cbn [obind gm_columns gm_rows];
     destruct (u_mul md row cols); cbn [obind]; try (unfold u_add; rewrite (N.add_comm col)); reflexivity).
Qed.

Lemma gen_map_m_ok {X Y} (f : X -> outcome Y) (g : X -> Y) : forall l,
  (forall x, In x l -> f x = Ok (g x)) -> gen_map_m f l = Ok (map g l).
Proof.
  induction l as [|x l IH]; intros H; cbn [gen_map_m map]; [reflexivity|].
  rewrite (H x (or_introl eq_refl)). cbn [obind]. rewrite IH; [reflexivity|].
  intros y Hy. apply H. right. exact Hy.
Qed.

(* the counter update shared by the three closures, as Model/Matrix.v retain_rc writes it *)
Definition rc_next (columns r c : N) : N * N := if c <? columns - 1 then (r, c + 1) else (r + 1, 0).

Ltac ok_sub := match goal with |- context [u_sub ?m ?a ?b] =>
  unfold u_sub; replace (b <=? a) with true by (symmetry; apply N.leb_le; lia) end.
Ltac ok_add := match goal with |- context [u_add ?m ?a ?b] =>
  unfold u_add at 1; replace (a + b <=? usize_max) with true by (symmetry; apply N.leb_le; first [lia | nia]) end.

(* ---- src/matrices/slices.rs: Slice::accepts (a Fixpoint generated from the enum's `match self`)
        and Slice2D::accepts ---- *)
Lemma gen_Slice_accepts_eq : forall s i, gen_Slice_accepts s i = slice_accepts s i.
Proof.
  gen_equiv gen_Slice_accepts_eq by
    (induction s; intros; cbn [gen_Slice_accepts slice_accepts fst snd];
     repeat match goal with H : forall i, gen_Slice_accepts _ i = _ |- _ => rewrite H; clear H end; reflexivity).
Qed.

Lemma gen_Slice2D_accepts_eq : forall md s row column,
  gen_Slice2D_accepts md s row column = Ok (slice2d_accepts s row column).
Proof.
  gen_equiv gen_Slice2D_accepts_eq by
    (intros; unfold gen_Slice2D_accepts, slice2d_accepts; rewrite !gen_Slice_accepts_eq; reflexivity).
Qed.

Ltac retain_step :=
  intros; unfold rc_next; cbv beta delta [gen_Matrix_remove_row_retain gen_Matrix_remove_column_retain gen_Matrix_retain_mut_retain];
  rewrite ?gen_Slice2D_accepts_eq; cbn [obind];
  ok_sub; cbn [obind];
  let E := fresh "E" in
  match goal with |- context [?c <? ?x] => destruct (c <? x) eqn:E end;
  [ apply N.ltb_lt in E; ok_add; reflexivity | ok_add; reflexivity ].

(* ---- the closures: (keep, (r', c')) ---- *)
Lemma gen_Matrix_remove_row_retain_eq : forall md row columns r c,
  0 < columns -> columns <= usize_max -> r < usize_max ->
  gen_Matrix_remove_row_retain md row columns r c = Ok (negb (r =? row), rc_next columns r c).
Proof. gen_equiv gen_Matrix_remove_row_retain_eq by retain_step. Qed.

Lemma gen_Matrix_remove_column_retain_eq : forall md column columns r c,
  0 < columns -> columns <= usize_max -> r < usize_max ->
  gen_Matrix_remove_column_retain md column columns r c = Ok (negb (c =? column), rc_next columns r c).
Proof. gen_equiv gen_Matrix_remove_column_retain_eq by retain_step. Qed.

Lemma gen_Matrix_retain_mut_retain_eq : forall md (s : slice2d) columns r c,
  0 < columns -> columns <= usize_max -> r < usize_max ->
  gen_Matrix_retain_mut_retain md s columns r c = Ok (slice2d_accepts s r c, rc_next columns r c).
Proof. gen_equiv gen_Matrix_retain_mut_retain_eq by retain_step. Qed.

(* ---- Vec::retain driven by such a closure = Model/Matrix.v retain_rc ---- *)
Fixpoint select {T} (flags : list bool) (data : list T) : list T :=
  match flags, data with
  | b :: flags', x :: data' => if b then x :: select flags' data' else select flags' data'
  | _, _ => []
  end.

Fixpoint keep_flags (keep : N -> N -> bool) (columns : N) (n : nat) (r c : N) : list bool :=
  match n with
  | O => []
  | S n' => keep r c :: keep_flags keep columns n' (fst (rc_next columns r c)) (snd (rc_next columns r c))
  end.

Lemma retain_rc_select {T} (keep : N -> N -> bool) columns : forall (data : list T) r c,
  retain_rc keep columns data r c = select (keep_flags keep columns (length data) r c) data.
Proof.
  induction data as [|x data IH]; intros r c; cbn [retain_rc length keep_flags select]; [reflexivity|].
  fold (rc_next columns r c). destruct (keep r c); rewrite IH; reflexivity.
Qed.

Lemma gen_retain_flags (step : N * N -> outcome (bool * (N * N))) (keep : N -> N -> bool) columns :
  (forall r c, r < usize_max -> step (r, c) = Ok (keep r c, rc_next columns r c)) ->
  forall n r c, r + N.of_nat n <= usize_max ->
  gen_retain step (r, c) n = Ok (keep_flags keep columns n r c).
Proof.
  intros Hstep. induction n as [|n IH]; intros r c Hb; cbn [gen_retain keep_flags]; [reflexivity|].
  rewrite Hstep by lia. cbn [obind fst snd].
  assert (Hr : fst (rc_next columns r c) <= r + 1) by (unfold rc_next; destruct (c <? columns - 1); cbn [fst]; lia).
  destruct (rc_next columns r c) as [r' c'] eqn:E. cbn [fst snd] in *.
  rewrite IH by lia. reflexivity.
Qed.

Definition gm_of {T} (m : matrix T) : gen_matrix := mkGenMatrix (m_rows m) (m_cols m).

(* ---- remove_row / remove_column as a whole ---- *)
Lemma gen_Matrix_remove_row_model : forall {T} md (m : matrix T) row,
  Inv m -> nlen (m_data m) <= usize_max ->
  match gen_Matrix_remove_row md (gm_of m) row (length (m_data m)) with
  | Ok (kept, g) => remove_row m row = (mkM (select kept (m_data m)) (gm_rows g) (gm_columns g), true)
  | Panic => remove_row m row = (m, false)
  | Err _ => False
  end.
Proof.
  gen_equiv gen_Matrix_remove_row_model by
    (intros T md m row [Hr [Hc Hlen]] Hfit; unfold gen_Matrix_remove_row, remove_row, gm_of, gen_Matrix_rows, gen_Matrix_columns;
     cbn [obind gm_rows gm_columns];
     destruct (1 <? m_rows m) eqn:E1; [|reflexivity];
     destruct (row <? m_rows m) eqn:E2; [|reflexivity];
     apply N.ltb_lt in E1;
     assert (Hcm : m_cols m <= usize_max) by (unfold nlen in *; nia);
     rewrite (gen_retain_flags _ (fun r _ => negb (r =? row)) (m_cols m))
       by (try (intros r c Hrr; apply gen_Matrix_remove_row_retain_eq; lia); unfold nlen in Hfit; lia);
     cbn [obind]; ok_sub; cbn [obind gm_rows gm_columns];
     rewrite retain_rc_select; reflexivity).
Qed.

Lemma gen_Matrix_remove_column_model : forall {T} md (m : matrix T) column,
  Inv m -> nlen (m_data m) <= usize_max ->
  match gen_Matrix_remove_column md (gm_of m) column (length (m_data m)) with
  | Ok (kept, g) => remove_column m column = (mkM (select kept (m_data m)) (gm_rows g) (gm_columns g), true)
  | Panic => remove_column m column = (m, false)
  | Err _ => False
  end.
Proof.
  gen_equiv gen_Matrix_remove_column_model by
    (intros T md m column [Hr [Hc Hlen]] Hfit; unfold gen_Matrix_remove_column, remove_column, gm_of, gen_Matrix_rows, gen_Matrix_columns;
     cbn [obind gm_rows gm_columns];
     destruct (1 <? m_cols m) eqn:E1; [|reflexivity];
     destruct (column <? m_cols m) eqn:E2; [|reflexivity];
     apply N.ltb_lt in E1;
     assert (Hcm : m_cols m <= usize_max) by (unfold nlen in *; nia);
     rewrite (gen_retain_flags _ (fun _ c => negb (c =? column)) (m_cols m))
       by (try (intros r c Hrr; apply gen_Matrix_remove_column_retain_eq; lia); unfold nlen in Hfit; lia);
     cbn [obind]; ok_sub; cbn [obind gm_rows gm_columns];
     rewrite retain_rc_select; reflexivity).
Qed.

(* retain_mut: the Vec::retain pass driven by the generated closure keeps exactly what the
   model's retain_rc keeps (the counting loops and asserts around it are not in the subset) *)
Lemma gen_Matrix_retain_mut_retain_model : forall {T} md (m : matrix T) (s : slice2d),
  Inv m -> nlen (m_data m) <= usize_max ->
  exists kept,
    gen_retain (fun st => let '(r, c) := st in gen_Matrix_retain_mut_retain md s (m_cols m) r c)
               (0, 0) (length (m_data m)) = Ok kept /\
    retain_rc (slice2d_accepts s) (m_cols m) (m_data m) 0 0 = select kept (m_data m).
Proof.
  intros T md m s [Hr [Hc Hlen]] Hfit.
  assert (Hcm : m_cols m <= usize_max) by (unfold nlen in *; nia).
  eexists. split.
  - apply (gen_retain_flags _ (slice2d_accepts s) (m_cols m)).
    + intros r c Hrr. apply gen_Matrix_retain_mut_retain_eq; lia.
    + unfold nlen in Hfit. lia.
  - apply retain_rc_select.
Qed.

(* ---- the insertion positions ---- *)
Lemma gen_get_index_ok : forall md rows cols row col, row * cols + col <= usize_max ->
  gen_Matrix_get_index md (mkGenMatrix rows cols) row col = Ok (col + row * cols).
Proof.
  intros. rewrite gen_Matrix_get_index_eq. unfold u_mul.
  replace (row * cols <=? usize_max) with true by (symmetry; apply N.leb_le; lia). cbn [obind].
  unfold u_add. replace (row * cols + col <=? usize_max) with true by (symmetry; apply N.leb_le; lia).
  f_equal. lia.
Qed.

Lemma gen_Matrix_insert_positions_eq : forall {T} md (m : matrix T) row column,
  row * m_cols m + column <= usize_max ->
  gen_Matrix_insert_row_position md (gm_of m) row column = Ok (get_index m row column) /\
  gen_Matrix_insert_row_with_position md (gm_of m) row column = Ok (get_index m row column) /\
  gen_Matrix_insert_column_position md (gm_of m) column row = Ok (get_index m row column) /\
  gen_Matrix_insert_column_with_position md (gm_of m) column row = Ok (get_index m row column).
Proof.
  gen_equiv gen_Matrix_insert_positions_eq by
    (intros; unfold gen_Matrix_insert_row_position, gen_Matrix_insert_row_with_position,
       gen_Matrix_insert_column_position, gen_Matrix_insert_column_with_position, gm_of, get_index;
     rewrite gen_get_index_ok by assumption; auto).
Qed.

Lemma gen_range_nrange : forall n, gen_range 0 n = nrange n.
Proof. intros. unfold gen_range, nrange. rewrite N.sub_0_r. apply map_ext. intros. apply N.add_0_l. Qed.

Lemma in_nrange : forall n x, In x (nrange n) -> x < n.
Proof. intros n x H. unfold nrange in H. apply in_map_iff in H. destruct H as [d [<- Hd]]. apply in_seq in Hd. lia. Qed.

(* insert_row as a whole: the assert, the positions in loop order, rows += 1 *)
Lemma gen_Matrix_insert_row_model : forall {T} md (m : matrix T) row (value : T),
  Inv m -> (m_rows m + 1) * m_cols m <= usize_max ->
  match gen_Matrix_insert_row md (gm_of m) row with
  | Ok (ps, g) =>
      insert_row m row value =
      (let '(d, fine) := insert_each (map (fun k => (k, value)) ps) (m_data m) in
       if fine then (mkM d (gm_rows g) (gm_columns g), true) else (mkM d (m_rows m) (m_cols m), false))
  | Panic => insert_row m row value = (m, false)
  | Err _ => False
  end.
Proof.
  gen_equiv gen_Matrix_insert_row_model by
    (intros T md m row value [Hr [Hc Hlen]] Hfit;
     unfold gen_Matrix_insert_row, insert_row, gen_Matrix_rows, gen_Matrix_columns; unfold gm_of at 1 2 3;
     cbn [obind gm_rows gm_columns];
     destruct (row <=? m_rows m) eqn:E1; [|reflexivity]; apply N.leb_le in E1;
     rewrite gen_range_nrange;
     rewrite (gen_map_m_ok _ (fun column => get_index m row column))
       by (intros x Hx; apply in_nrange in Hx; apply (gen_Matrix_insert_positions_eq md m row x); nia);
     cbn [obind]; unfold gm_of; cbn [gm_rows gm_columns]; ok_add; cbn [obind gm_rows gm_columns];
     rewrite map_map; reflexivity).
Qed.

(* insert_column as a whole: the assert, the positions for row = rows-1 .. 0, columns += 1 *)
Lemma gen_Matrix_insert_column_model : forall {T} md (m : matrix T) column (value : T),
  Inv m -> m_rows m * (m_cols m + 1) <= usize_max ->
  match gen_Matrix_insert_column md (gm_of m) column with
  | Ok (ps, g) =>
      insert_column m column value =
      (let '(d, fine) := insert_each (map (fun k => (k, value)) ps) (m_data m) in
       if fine then (mkM d (gm_rows g) (gm_columns g), true) else (mkM d (m_rows m) (m_cols m), false))
  | Panic => insert_column m column value = (m, false)
  | Err _ => False
  end.
Proof.
  gen_equiv gen_Matrix_insert_column_model by
    (intros T md m column value [Hr [Hc Hlen]] Hfit;
     unfold gen_Matrix_insert_column, insert_column, gen_Matrix_rows, gen_Matrix_columns; unfold gm_of at 1 2 3;
     cbn [obind gm_rows gm_columns];
     destruct (column <=? m_cols m) eqn:E1; [|reflexivity]; apply N.leb_le in E1;
     rewrite gen_range_nrange;
     rewrite (gen_map_m_ok _ (fun row => get_index m row column))
       by (intros x Hx; apply in_rev in Hx; apply in_nrange in Hx; apply (gen_Matrix_insert_positions_eq md m x column); nia);
     cbn [obind]; unfold gm_of; cbn [gm_rows gm_columns]; ok_add; cbn [obind gm_rows gm_columns];
     rewrite map_map; reflexivity).
Qed.

(* ---- everything together, as stated in Properties/C11.v ---- *)
Lemma generated_matrix_arith_matches_model : forall (T : Type) md (m : matrix T),
  Inv m ->
  (* the three retain closures: keep flag and counter update of Model/Matrix.v retain_rc *)
  (forall x r c, r < usize_max -> m_cols m <= usize_max ->
     gen_Matrix_remove_row_retain md x (m_cols m) r c = Ok (negb (r =? x), rc_next (m_cols m) r c) /\
     gen_Matrix_remove_column_retain md x (m_cols m) r c = Ok (negb (c =? x), rc_next (m_cols m) r c)) /\
  (forall s r c, r < usize_max -> m_cols m <= usize_max ->
     gen_Matrix_retain_mut_retain md s (m_cols m) r c = Ok (slice2d_accepts s r c, rc_next (m_cols m) r c)) /\
  (* Slice::accepts (generated as a Fixpoint from the enum's `match self`) and Slice2D::accepts *)
  (forall s i, gen_Slice_accepts s i = slice_accepts s i) /\
  (forall s row column, gen_Slice2D_accepts md s row column = Ok (slice2d_accepts s row column)) /\
  (* Vec::retain driven by them = retain_rc; remove_row / remove_column as whole methods *)
  (nlen (m_data m) <= usize_max ->
   (forall row,
      match gen_Matrix_remove_row md (gm_of m) row (length (m_data m)) with
      | Ok (kept, g) => remove_row m row = (mkM (select kept (m_data m)) (gm_rows g) (gm_columns g), true)
      | Panic => remove_row m row = (m, false)
      | Err _ => False
      end) /\
   (forall column,
      match gen_Matrix_remove_column md (gm_of m) column (length (m_data m)) with
      | Ok (kept, g) => remove_column m column = (mkM (select kept (m_data m)) (gm_rows g) (gm_columns g), true)
      | Panic => remove_column m column = (m, false)
      | Err _ => False
      end) /\
   (forall s, exists kept,
      gen_retain (fun st => let '(r, c) := st in gen_Matrix_retain_mut_retain md s (m_cols m) r c)
                 (0, 0) (length (m_data m)) = Ok kept /\
      retain_rc (slice2d_accepts s) (m_cols m) (m_data m) 0 0 = select kept (m_data m))) /\
  (* the insertion positions of all four insert methods are get_index(row, column) *)
  (forall row column, row * m_cols m + column <= usize_max ->
     gen_Matrix_insert_row_position md (gm_of m) row column = Ok (get_index m row column) /\
     gen_Matrix_insert_row_with_position md (gm_of m) row column = Ok (get_index m row column) /\
     gen_Matrix_insert_column_position md (gm_of m) column row = Ok (get_index m row column) /\
     gen_Matrix_insert_column_with_position md (gm_of m) column row = Ok (get_index m row column)) /\
  (* insert_row / insert_column as whole methods *)
  (forall row (value : T), (m_rows m + 1) * m_cols m <= usize_max ->
     match gen_Matrix_insert_row md (gm_of m) row with
     | Ok (ps, g) =>
         insert_row m row value =
         (let '(d, fine) := insert_each (map (fun k => (k, value)) ps) (m_data m) in
          if fine then (mkM d (gm_rows g) (gm_columns g), true) else (mkM d (m_rows m) (m_cols m), false))
     | Panic => insert_row m row value = (m, false)
     | Err _ => False
     end) /\
  (forall column (value : T), m_rows m * (m_cols m + 1) <= usize_max ->
     match gen_Matrix_insert_column md (gm_of m) column with
     | Ok (ps, g) =>
         insert_column m column value =
         (let '(d, fine) := insert_each (map (fun k => (k, value)) ps) (m_data m) in
          if fine then (mkM d (gm_rows g) (gm_columns g), true) else (mkM d (m_rows m) (m_cols m), false))
     | Panic => insert_column m column value = (m, false)
     | Err _ => False
     end).
Proof.
  intros T md m HI. pose proof HI as [Hr [Hc Hlen]].
  split; [intros x r c Hrr Hcm; split;
          [apply gen_Matrix_remove_row_retain_eq|apply gen_Matrix_remove_column_retain_eq]; lia|].
  split; [intros a r c Hrr Hcm; apply gen_Matrix_retain_mut_retain_eq; lia|].
  split; [exact gen_Slice_accepts_eq|]. split; [intros; apply gen_Slice2D_accepts_eq|].
  split; [intros Hfit; split; [intros; apply gen_Matrix_remove_row_model; assumption|];
          split; [intros; apply gen_Matrix_remove_column_model; assumption|];
          intros; apply gen_Matrix_retain_mut_retain_model; assumption|].
  split; [intros; apply gen_Matrix_insert_positions_eq; assumption|].
  split; [intros; apply gen_Matrix_insert_row_model; assumption|].
  intros; apply gen_Matrix_insert_column_model; assumption.
Qed.

(* ======================================================================================
   Wave 3: `for` loops inside bodies are folds (retain_mut's counting loops and asserts are part
   of its generated frame now), from_flat_row_major's checked_mul test, and the frames of
   insert_row_with / insert_column_with, whose result type separates what happens BEFORE and
   WHILE the values are inserted (outer outcome) from what happens AFTER the loop (inner
   outcome): a validation moved behind the loop is a different term.
   ====================================================================================== *)

(* `for i in l { if f(i) { accepted += 1 } }` *)
Lemma gen_count_fold md (f g : N -> bool) : (forall i, f i = g i) ->
  forall l acc, acc + nlen l <= usize_max ->
  gen_fold (fun (a : N) (i : N) => if f i then obind (u_add md a 1) (fun t => let a' := t in Ok a') else Ok a) acc l
  = Ok (acc + nlen (filter g l)).
Proof.
  intros Hfg. induction l as [|x l IH]; intros acc Hb; cbn [gen_fold filter].
  - unfold nlen. cbn [length]. f_equal. lia.
  - rewrite <- Hfg. unfold nlen in *. cbn [length] in Hb.
    destruct (f x); cbn [obind].
    + unfold u_add. replace (acc + 1 <=? usize_max) with true by (symmetry; apply N.leb_le; lia).
      cbn [obind]. rewrite IH by lia. cbn [length]. f_equal. lia.
    + rewrite IH by lia. reflexivity.
Qed.

Lemma length_nrange n : length (nrange n) = N.to_nat n.
Proof. unfold nrange. rewrite map_length, seq_length. reflexivity. Qed.

Lemma length_keep_flags keep columns : forall n r c, length (keep_flags keep columns n r c) = n.
Proof. induction n as [|n IH]; intros; cbn [keep_flags length]; [reflexivity|]. rewrite IH. reflexivity. Qed.

Lemma select_nil_iff {T} : forall (flags : list bool) (data : list T), length flags = length data ->
  existsb (fun b => b) flags = false <-> select flags data = [].
Proof.
  induction flags as [|b flags IH]; intros [|x data] Hl; cbn [select existsb]; try discriminate; try tauto.
  cbn [length] in Hl. destruct b; cbn [orb].
  - split; discriminate.
  - apply IH. lia.
Qed.

(* retain_mut as a whole: the counting loops, the two asserts BEFORE anything is dropped, the
   Vec::retain pass, the assert on the emptied storage, the new size *)
Lemma gen_Matrix_retain_mut_model : forall {T} md (m : matrix T) (s : slice2d),
  Inv m -> nlen (m_data m) <= usize_max ->
  match gen_Matrix_retain_mut md (gm_of m) s (length (m_data m)) with
  | Ok (kept, g) => retain_mut m s = (mkM (select kept (m_data m)) (gm_rows g) (gm_columns g), true)
  | Panic => snd (retain_mut m s) = false /\
             (* the two counting asserts fire before anything is dropped *)
             (count_accepted (s_rows s) (m_rows m) = 0 \/ count_accepted (s_columns s) (m_cols m) = 0 ->
              retain_mut m s = (m, false))
  | Err _ => False
  end.
Proof.
  gen_equiv gen_Matrix_retain_mut_model by
    (intros T md m s [Hr [Hc Hlen]] Hfit;
     assert (Hcm : m_cols m <= usize_max) by (unfold nlen in *; nia);
     assert (Hrm : m_rows m <= usize_max) by (unfold nlen in *; nia);
     unfold gen_Matrix_retain_mut, retain_mut, gm_of, gen_Matrix_rows, gen_Matrix_columns;
     cbn [obind gm_rows gm_columns]; rewrite !gen_range_nrange;
     rewrite (gen_count_fold md _ (slice_accepts (s_rows s)))
       by (try (intros; apply gen_Slice_accepts_eq); unfold nlen; rewrite length_nrange; lia);
     cbn [obind];
     rewrite (gen_count_fold md _ (slice_accepts (s_columns s)))
       by (try (intros; apply gen_Slice_accepts_eq); unfold nlen; rewrite length_nrange; lia);
     cbn [obind]; rewrite !N.add_0_l; fold (count_accepted (s_rows s) (m_rows m)); fold (count_accepted (s_columns s) (m_cols m));
     destruct (0 <? count_accepted (s_rows s) (m_rows m)) eqn:E1;
       [|split; [reflexivity|intros _; reflexivity]];
     destruct (0 <? count_accepted (s_columns s) (m_cols m)) eqn:E2;
       [|split; [reflexivity|intros _; reflexivity]];
     rewrite (gen_retain_flags _ (slice2d_accepts s) (m_cols m))
       by (try (intros r c Hrr; apply gen_Matrix_retain_mut_retain_eq; lia); unfold nlen in Hfit; lia);
     cbn [obind]; rewrite retain_rc_select, Bool.negb_involutive;
     pose proof (select_nil_iff (keep_flags (slice2d_accepts s) (m_cols m) (length (m_data m)) 0 0) (m_data m)
                                (length_keep_flags _ _ _ _ _)) as Hsel;
     destruct (existsb (fun b => b) _) eqn:E3;
       [ cbn [gm_rows gm_columns];
         destruct (select _ (m_data m)) eqn:E4; [exfalso; destruct Hsel as [_ Hs]; specialize (Hs eq_refl); discriminate|reflexivity]
       | destruct Hsel as [Hs _]; rewrite (Hs eq_refl); split;
         [reflexivity|intros [H0|H0]; rewrite H0 in *; discriminate] ]).
Qed.

(* Matrix::from_flat_row_major: checked_mul(size) == Some(len), then "not empty" *)
Lemma gen_Matrix_from_flat_row_major_eq : forall {T} md (size : N * N) (values : list T),
  gen_Matrix_from_flat_row_major md size (nlen values) =
  match from_flat_row_major size values with Ok m => Ok (gm_of m) | Panic => Panic | Err e => Err e end.
Proof.
  gen_equiv gen_Matrix_from_flat_row_major_eq by
    (intros; unfold gen_Matrix_from_flat_row_major, from_flat_row_major, checked_mul, gen_opt_eqb, gm_of;
     destruct (fst size * snd size <=? usize_max); cbn [andb]; [|reflexivity];
     destruct (fst size * snd size =? nlen values); [|reflexivity];
     destruct values; reflexivity).
Qed.

Lemma length_gen_range a b : length (gen_range a b) = N.to_nat (b - a).
Proof. unfold gen_range. rewrite map_length, seq_length. reflexivity. Qed.

Lemma map_fst_combine {A B} : forall (l : list A) (l' : list B), length l = length l' -> map fst (combine l l') = l.
Proof. induction l as [|a l IH]; intros [|b l'] H; cbn in *; try discriminate; [reflexivity|]. f_equal. apply IH. lia. Qed.

Lemma map_fst_gen_enumerate_range n : map fst (gen_enumerate (gen_range 0 n)) = nrange n.
Proof.
  unfold gen_enumerate. rewrite map_fst_combine.
  - rewrite length_gen_range, N.sub_0_r, N2Nat.id. apply gen_range_nrange.
  - rewrite !length_gen_range. rewrite N.sub_0_r, Nat2N.id. reflexivity.
Qed.

Lemma combine_map_seq {T} (g : N -> N) : forall (l : list T) k,
  combine (map g (map N.of_nat (seq k (length l)))) l =
  map (fun cv => (g (N.of_nat (fst cv)), snd cv)) (combine (seq k (length l)) l).
Proof. induction l as [|x l IH]; intros k; cbn [length seq map combine fst snd]; [reflexivity|]. rewrite IH. reflexivity. Qed.

(* insert_row_with: the row assert, `take(columns).collect()`, the length assert - all BEFORE the
   first insertion - then the insertions in column order, then rows += 1 *)
Lemma gen_Matrix_insert_row_with_model : forall {T} md (m : matrix T) row (values : list T),
  Inv m -> (m_rows m + 1) * m_cols m <= usize_max ->
  match gen_Matrix_insert_row_with md (gm_of m) row (nlen values) with
  | Ok (ps, after) =>
      exists g, after = Ok g /\
      insert_row_with m row values =
      (let '(d, fine) := insert_each (combine ps (firstn (N.to_nat (m_cols m)) values)) (m_data m) in
       if fine then (mkM d (gm_rows g) (gm_columns g), true) else (mkM d (m_rows m) (m_cols m), false))
  | Panic => insert_row_with m row values = (m, false)
  | Err _ => False
  end.
Proof.
  gen_equiv gen_Matrix_insert_row_with_model by
    (intros T md m row values [Hr [Hc Hlen]] Hfit;
     unfold gen_Matrix_insert_row_with, insert_row_with, gen_Matrix_rows, gen_Matrix_columns; unfold gm_of at 1 2 3 4;
     cbn [obind gm_rows gm_columns];
     destruct (row <=? m_rows m) eqn:E1; [|reflexivity]; apply N.leb_le in E1;
     assert (Hn : nlen (firstn (N.to_nat (m_cols m)) values) = N.min (m_cols m) (nlen values))
       by (unfold nlen; rewrite firstn_length; lia);
     rewrite Hn;
     destruct (N.min (m_cols m) (nlen values) =? m_cols m) eqn:E2; [|reflexivity]; apply N.eqb_eq in E2;
     rewrite map_fst_gen_enumerate_range;
     rewrite (gen_map_m_ok _ (fun column => get_index m row column))
       by (intros x Hx; apply in_nrange in Hx; rewrite E2 in Hx; apply (gen_Matrix_insert_positions_eq md m row x); nia);
     cbn [obind]; unfold gm_of; cbn [gm_rows gm_columns]; ok_add; cbn [obind];
     eexists; split; [reflexivity|]; cbn [gm_rows gm_columns];
     assert (Hl : length (firstn (N.to_nat (m_cols m)) values) = N.to_nat (m_cols m))
       by (unfold nlen in *; lia);
     replace (nrange (N.min (m_cols m) (nlen values))) with (map N.of_nat (seq 0 (length (firstn (N.to_nat (m_cols m)) values))))
       by (unfold nrange; rewrite E2, Hl; reflexivity);
     rewrite (combine_map_seq (fun column => get_index m row column)); reflexivity).
Qed.

(* insert_column_with: the column assert, collect(), the length assert, truncate - all BEFORE
   the first insertion - then the insertions for row = rows-1 .. 0 popping the values from the
   end, then columns += 1 *)
Lemma gen_Matrix_insert_column_with_model : forall {T} md (m : matrix T) column (values : list T),
  Inv m -> m_rows m * (m_cols m + 1) <= usize_max ->
  match gen_Matrix_insert_column_with md (gm_of m) column (nlen values) with
  | Ok (ps, after) =>
      exists g, after = Ok g /\
      insert_column_with m column values =
      (let '(d, fine) := insert_popping ps (rev (firstn (N.to_nat (m_rows m)) values)) (m_data m) in
       if fine then (mkM d (gm_rows g) (gm_columns g), true) else (mkM d (m_rows m) (m_cols m), false))
  | Panic => insert_column_with m column values = (m, false)
  | Err _ => False
  end.
Proof.
  gen_equiv gen_Matrix_insert_column_with_model by
    (intros T md m column values [Hr [Hc Hlen]] Hfit;
     unfold gen_Matrix_insert_column_with, insert_column_with, gen_Matrix_rows, gen_Matrix_columns; unfold gm_of at 1 2 3 4 5;
     cbn [obind gm_rows gm_columns];
     destruct (column <=? m_cols m) eqn:E1; [|reflexivity]; apply N.leb_le in E1;
     destruct (m_rows m <=? nlen values) eqn:E2; [|reflexivity];
     rewrite gen_range_nrange;
     rewrite (gen_map_m_ok _ (fun row => get_index m row column))
       by (intros x Hx; apply in_rev in Hx; apply in_nrange in Hx; apply (gen_Matrix_insert_positions_eq md m x column); nia);
     cbn [obind]; unfold gm_of; cbn [gm_rows gm_columns]; ok_add; cbn [obind];
     eexists; split; [reflexivity|]; cbn [gm_rows gm_columns]; reflexivity).
Qed.

(* ---- wave 3, as stated in Properties/C11.v ---- *)
Lemma generated_matrix_frames_match_model : forall (T : Type) md (m : matrix T),
  Inv m ->
  (nlen (m_data m) <= usize_max -> forall s,
     match gen_Matrix_retain_mut md (gm_of m) s (length (m_data m)) with
     | Ok (kept, g) => retain_mut m s = (mkM (select kept (m_data m)) (gm_rows g) (gm_columns g), true)
     | Panic => snd (retain_mut m s) = false /\
                (count_accepted (s_rows s) (m_rows m) = 0 \/ count_accepted (s_columns s) (m_cols m) = 0 ->
                 retain_mut m s = (m, false))
     | Err _ => False
     end) /\
  (forall (size : N * N) (values : list T),
     gen_Matrix_from_flat_row_major md size (nlen values) =
     match from_flat_row_major size values with Ok m => Ok (gm_of m) | Panic => Panic | Err e => Err e end) /\
  (forall row (values : list T), (m_rows m + 1) * m_cols m <= usize_max ->
     match gen_Matrix_insert_row_with md (gm_of m) row (nlen values) with
     | Ok (ps, after) =>
         exists g, after = Ok g /\
         insert_row_with m row values =
         (let '(d, fine) := insert_each (combine ps (firstn (N.to_nat (m_cols m)) values)) (m_data m) in
          if fine then (mkM d (gm_rows g) (gm_columns g), true) else (mkM d (m_rows m) (m_cols m), false))
     | Panic => insert_row_with m row values = (m, false)
     | Err _ => False
     end) /\
  (forall column (values : list T), m_rows m * (m_cols m + 1) <= usize_max ->
     match gen_Matrix_insert_column_with md (gm_of m) column (nlen values) with
     | Ok (ps, after) =>
         exists g, after = Ok g /\
         insert_column_with m column values =
         (let '(d, fine) := insert_popping ps (rev (firstn (N.to_nat (m_rows m)) values)) (m_data m) in
          if fine then (mkM d (gm_rows g) (gm_columns g), true) else (mkM d (m_rows m) (m_cols m), false))
     | Panic => insert_column_with m column values = (m, false)
     | Err _ => False
     end).
Proof.
  intros T md m HI.
  split; [intros; apply gen_Matrix_retain_mut_model; assumption|].
  split; [intros; apply gen_Matrix_from_flat_row_major_eq|].
  split; [intros; apply gen_Matrix_insert_row_with_model; assumption|].
  intros; apply gen_Matrix_insert_column_with_model; assumption.
Qed.
