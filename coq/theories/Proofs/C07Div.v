(* C07 division safety: `inverse` (Matrix route and tensor route) divides only `one` by the
   determinant (the element itself for 1 x 1), only once, and only after having tested it
   `== zero`.  Stated through the instrumented transcription Model/LinAlgDiv.v, whose division is
   a parameter `pd : R -> R -> option R` (None = the element type's `/` panics):
     erase      whenever the instrumented run returns a value, it is the value of the existing
                model (for every pd that agrees with the dictionary's division where defined);
                with the total division the instrumented run IS the existing model
     only-by-det  for EVERY pd that is defined on the single pair (one, d), d the determinant,
                tested non-zero, the instrumented run is Ok (existing model): no other division
                is evaluated;  and the division is really evaluated: if pd is undefined on that
                pair the run panics
     never      with strict_div (None exactly on a divisor `== zero`) no input panics.
   No hypothesis on the dictionary is needed (the test and strict_div use the same `==`). *)
From Coq Require Import List Arith Bool Lia ZArith QArith.
From EasyML Require Import Base.Sx Model.Num Model.Perms Model.LinAlg Model.DivOutcome Model.LinAlgDiv.
Import ListNotations.

Section C07Div.
Context {R : Type} (ops : numops R).
Notation zero := (nzero ops).
Notation one := (none_ ops).
Notation mat := (@mat R).

(* pd agrees with the dictionary's division wherever it is defined *)
Definition sound_div (pd : R -> R -> option R) : Prop :=
  forall x y q, pd x y = Some q -> q = ndiv ops x y.

Lemma sound_total : sound_div (total_div ops).
Proof. intros x y q H. unfold total_div in H. congruence. Qed.

Lemma sound_strict : sound_div (strict_div ops).
Proof. intros x y q H. unfold strict_div in H. destruct (neqb ops y zero); congruence. Qed.

Lemma strict_defined y x : neqb ops y zero = false -> strict_div ops x y = Some (ndiv ops x y).
Proof. intros H. unfold strict_div. rewrite H. reflexivity. Qed.

(* ---------------------------------------------------------------- erase *)
Lemma inverse_general_i_erase pd det minor (m : mat) r : sound_div pd ->
  inverse_general_i ops pd det minor m = Ok r -> inverse_general ops det minor m = r.
Proof.
  intros Hs. unfold inverse_general_i, inverse_general.
  destruct (det m) as [d|]; [|(now intros [= <-])].
  destruct (neqb ops d zero); [(now intros [= <-])|].
  destruct (pd one d) as [q|] eqn:E; cbn [of_option obind]; [|discriminate].
  rewrite (Hs _ _ _ E). (now intros [= <-]).
Qed.

Lemma inverse_matrix_i_erase pd (m : mat) r : sound_div pd ->
  inverse_matrix_i ops pd m = Ok r -> inverse_matrix ops m = r.
Proof.
  intros Hs. unfold inverse_matrix_i, inverse_matrix.
  destruct (negb (Nat.eqb (mrows m) (mcols m))); [(now intros [= <-])|].
  destruct (Nat.eqb (mrows m) 1); [|apply inverse_general_i_erase; exact Hs].
  destruct (neqb ops (mget ops m 0 0) zero); [(now intros [= <-])|].
  destruct (pd one (mget ops m 0 0)) as [q|] eqn:E; cbn [of_option obind]; [|discriminate].
  rewrite (Hs _ _ _ E). (now intros [= <-]).
Qed.

Lemma inverse_tensor_i_erase pd (m : mat) r : sound_div pd ->
  inverse_tensor_i ops pd m = Ok r -> inverse_tensor ops m = r.
Proof.
  intros Hs. unfold inverse_tensor_i, inverse_tensor.
  destruct (negb (is_square m)); [(now intros [= <-])|].
  destruct (Nat.eqb (mrows m) 1); [|apply inverse_general_i_erase; exact Hs].
  destruct (neqb ops (mget ops m 0 0) zero); [(now intros [= <-])|].
  destruct (pd one (mget ops m 0 0)) as [q|] eqn:E; cbn [of_option obind]; [|discriminate].
  rewrite (Hs _ _ _ E). (now intros [= <-]).
Qed.

(* ---------------------------------------------------------------- divides only by det *)
Lemma inverse_general_i_only pd det minor (m : mat) :
  (forall d, det m = Some d -> neqb ops d zero = false -> pd one d = Some (ndiv ops one d)) ->
  inverse_general_i ops pd det minor m = Ok (inverse_general ops det minor m).
Proof.
  intros H. unfold inverse_general_i, inverse_general.
  destruct (det m) as [d|]; [|reflexivity].
  destruct (neqb ops d zero) eqn:E; [reflexivity|].
  rewrite (H d eq_refl E). reflexivity.
Qed.

Lemma det_matrix_1x1 (m : mat) : Nat.eqb (mrows m) (mcols m) = true -> Nat.eqb (mrows m) 1 = true ->
  det_matrix ops m = Some (mget ops m 0 0).
Proof.
  intros Hsq H1. unfold det_matrix. rewrite Hsq. cbn [negb].
  apply Nat.eqb_eq in H1. rewrite H1. reflexivity.
Qed.

Lemma det_tensor_1x1 (m : mat) : is_square m = true -> Nat.eqb (mrows m) 1 = true ->
  det_tensor ops m = Some (mget ops m 0 0).
Proof.
  intros Hsq H1. unfold det_tensor. rewrite Hsq. cbn [negb].
  apply Nat.eqb_eq in H1. rewrite H1. reflexivity.
Qed.

Theorem inverse_matrix_i_only pd (m : mat) :
  (forall d, det_matrix ops m = Some d -> neqb ops d zero = false ->
             pd one d = Some (ndiv ops one d)) ->
  inverse_matrix_i ops pd m = Ok (inverse_matrix ops m).
Proof.
  intros H. unfold inverse_matrix_i, inverse_matrix.
  destruct (Nat.eqb (mrows m) (mcols m)) eqn:Hsq; cbn [negb]; [|reflexivity].
  destruct (Nat.eqb (mrows m) 1) eqn:H1; [|apply inverse_general_i_only; exact H].
  destruct (neqb ops (mget ops m 0 0) zero) eqn:E; [reflexivity|].
  rewrite (H _ (det_matrix_1x1 m Hsq H1) E). reflexivity.
Qed.

Theorem inverse_tensor_i_only pd (m : mat) :
  (forall d, det_tensor ops m = Some d -> neqb ops d zero = false ->
             pd one d = Some (ndiv ops one d)) ->
  inverse_tensor_i ops pd m = Ok (inverse_tensor ops m).
Proof.
  intros H. unfold inverse_tensor_i, inverse_tensor.
  destruct (is_square m) eqn:Hsq; cbn [negb]; [|reflexivity].
  destruct (Nat.eqb (mrows m) 1) eqn:H1; [|apply inverse_general_i_only; exact H].
  destruct (neqb ops (mget ops m 0 0) zero) eqn:E; [reflexivity|].
  rewrite (H _ (det_tensor_1x1 m Hsq H1) E). reflexivity.
Qed.

(* the division IS evaluated: a square input with a determinant tested non-zero on which the
   element type cannot compute one / det panics (both routes) *)
Theorem inverse_matrix_i_divides pd (m : mat) d :
  Nat.eqb (mrows m) (mcols m) = true ->
  det_matrix ops m = Some d -> neqb ops d zero = false -> pd one d = None ->
  inverse_matrix_i ops pd m = Panic.
Proof.
  intros Hsq Hd Hz Hp. unfold inverse_matrix_i. rewrite Hsq. cbn [negb].
  destruct (Nat.eqb (mrows m) 1) eqn:H1.
  - rewrite (det_matrix_1x1 m Hsq H1) in Hd. injection Hd as ->. rewrite Hz, Hp. reflexivity.
  - unfold inverse_general_i. rewrite Hd, Hz, Hp. reflexivity.
Qed.

Theorem inverse_tensor_i_divides pd (m : mat) d :
  is_square m = true ->
  det_tensor ops m = Some d -> neqb ops d zero = false -> pd one d = None ->
  inverse_tensor_i ops pd m = Panic.
Proof.
  intros Hsq Hd Hz Hp. unfold inverse_tensor_i. rewrite Hsq. cbn [negb].
  destruct (Nat.eqb (mrows m) 1) eqn:H1.
  - rewrite (det_tensor_1x1 m Hsq H1) in Hd. injection Hd as ->. rewrite Hz, Hp. reflexivity.
  - unfold inverse_general_i. rewrite Hd, Hz, Hp. reflexivity.
Qed.

(* ---------------------------------------------------------------- never a division by zero *)
Theorem inverse_matrix_i_strict (m : mat) :
  inverse_matrix_i ops (strict_div ops) m = Ok (inverse_matrix ops m).
Proof. apply inverse_matrix_i_only. intros d _ Hz. apply strict_defined. exact Hz. Qed.

Theorem inverse_tensor_i_strict (m : mat) :
  inverse_tensor_i ops (strict_div ops) m = Ok (inverse_tensor ops m).
Proof. apply inverse_tensor_i_only. intros d _ Hz. apply strict_defined. exact Hz. Qed.

Theorem inverse_tensor2_i_strict (t : tensor2) :
  inverse_tensor2_i ops (strict_div ops) t = Ok (inverse_tensor2 ops t).
Proof.
  unfold inverse_tensor2_i, inverse_tensor2. rewrite inverse_tensor_i_strict. reflexivity.
Qed.

Theorem inverse_matrix_i_total (m : mat) :
  inverse_matrix_i ops (total_div ops) m = Ok (inverse_matrix ops m).
Proof. apply inverse_matrix_i_only. reflexivity. Qed.

Theorem inverse_tensor_i_total (m : mat) :
  inverse_tensor_i ops (total_div ops) m = Ok (inverse_tensor ops m).
Proof. apply inverse_tensor_i_only. reflexivity. Qed.
End C07Div.

(* concrete runs (kernel evaluation) over the harness' rationals: a dictionary that cannot divide
   panics on invertible inputs (1 x 1 and 2 x 2) and answers absence on singular ones; the
   strict division gives an inverse of [[2,0],[0,2]] *)
Definition qi7 (z : Z) : Q := Qmake z 1.
Definition none_div : Q -> Q -> option Q := fun _ _ => None.
Definition ex_2 : list (list Q) := [[qi7 2]].
Definition ex_0 : list (list Q) := [[qi7 0]].
Definition ex_2I : list (list Q) := [[qi7 2; qi7 0]; [qi7 0; qi7 2]].
Definition ex_sing : list (list Q) := [[qi7 1; qi7 2]; [qi7 2; qi7 4]].
Lemma inverse_division_examples :
  inverse_matrix_i Qops none_div ex_2 = Panic /\
  inverse_tensor_i Qops none_div ex_2I = Panic /\
  inverse_matrix_i Qops none_div ex_0 = Ok None /\
  inverse_tensor_i Qops none_div ex_sing = Ok None /\
  (exists X, inverse_matrix_i Qops (strict_div Qops) ex_2I = Ok (Some X)).
Proof. vm_compute. repeat split. eexists. reflexivity. Qed.
