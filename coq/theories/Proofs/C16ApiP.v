(* C16, API level: the D-dimensional checked getter of a TensorRange over a validated tensor is
   total and independent of the arithmetic mode, for EVERY index tuple over the whole usize
   domain, and the lenient / strict constructors establish the invariant it needs. *)
From Coq Require Import List ZArith NArith Bool Arith Lia.
From EasyML Require Import Base.Sx Model.Shape Model.U64 Model.Fallible Model.FallibleApi
     Proofs.ShapeP Proofs.C16P.
Import ListNotations.
Open Scope N_scope.

(* every clipped range lies inside its dimension *)
Definition ranges_ok (sh : shape) (cl : list index_range) : Prop :=
  Forall2 (fun d r => r_start r + r_length r <= snd d) sh cl.

(* the ideal mapping of an index tuple through the ranges *)
Fixpoint map_by_range_spec (cl : list index_range) (idx : list N) : option (list N) :=
  match cl, idx with
  | r :: cl', i :: idx' =>
      if i <? r_length r
      then option_map (cons (r_start r + i)) (map_by_range_spec cl' idx')
      else None
  | _, _ => Some []
  end.

Definition tensor_range_get_spec (sh : shape) (cl : list index_range) (idx : list N) : option N :=
  match map_by_range_spec cl idx with
  | Some j => get_index_direct j (compute_strides sh) sh
  | None => None
  end.

Lemma len_le_prod lens l : Forall (fun x => 0 < x) lens -> In l lens -> l <= prod lens.
Proof.
  induction lens as [|x lens IH]; intros Hpos Hin; [destruct Hin|].
  inversion Hpos as [|? ? Hx Hrest]; subst. rewrite prod_cons.
  pose proof (prod_pos _ Hrest) as Hp.
  destruct Hin as [->|Hin]; [nia|]. specialize (IH Hrest Hin). nia.
Qed.

Lemma map_by_range_total m cl : forall (sh : shape) idx,
  Forall2 (fun d r => r_start r + r_length r <= snd d) sh cl ->
  Forall (fun d => snd d <= usize_max) sh ->
  map_by_range m cl idx = Ok (map_by_range_spec cl idx).
Proof.
  induction cl as [|r cl IH]; intros sh idx Hok Hb.
  - destruct idx; reflexivity.
  - destruct idx as [|i idx]; [reflexivity|].
    inversion Hok as [|d ? sh' ? Hr Hrest]; subst.
    inversion Hb as [|? ? Hd Hb']; subst.
    cbn [map_by_range map_by_range_spec]. unfold ir_map.
    destruct (N.ltb_spec i (r_length r)) as [Hlt|Hge]; [|reflexivity].
    rewrite u_add_ok by lia. cbn [omap obind].
    rewrite (IH sh' idx Hrest Hb'). cbn [omap].
    replace (i + r_start r) with (r_start r + i) by lia. reflexivity.
Qed.

Lemma lens_bounded sh : valid_shape sh -> elements sh <= usize_max ->
  Forall (fun d => snd d <= usize_max) sh.
Proof.
  intros [_ Hpos] He. apply Forall_forall. intros d Hd.
  assert (In (snd d) (lens_of sh)) by (unfold lens_of; apply in_map; exact Hd).
  pose proof (len_le_prod _ _ Hpos H). unfold elements in He. lia.
Qed.

(* the checked getter of a range view: never a panic, the same in both build profiles, and equal
   to "map every coordinate through its range, then address the source" *)
Theorem tensor_range_get_total m sh cl idx :
  valid_shape sh -> elements sh <= usize_max -> ranges_ok sh cl ->
  tensor_range_get m sh cl idx = Ok (tensor_range_get_spec sh cl idx).
Proof.
  intros Hv He Hok. unfold tensor_range_get, tensor_range_get_spec.
  rewrite (map_by_range_total m cl sh idx Hok (lens_bounded sh Hv He)). cbn [obind].
  destruct (map_by_range_spec cl idx) as [j|]; [|reflexivity].
  unfold leaf_get. apply get_index_direct_total; assumption.
Qed.

Corollary tensor_range_get_mode_independent sh cl idx :
  valid_shape sh -> elements sh <= usize_max -> ranges_ok sh cl ->
  tensor_range_get Debug sh cl idx = tensor_range_get Release sh cl idx.
Proof. intros. rewrite !tensor_range_get_total by assumption. reflexivity. Qed.

(* what the getter reports present lies inside the source: the mapped tuple is in range *)
Lemma map_by_range_spec_in_range cl : forall (sh : shape) idx j,
  Forall2 (fun d r => r_start r + r_length r <= snd d) sh cl -> length idx = length cl ->
  map_by_range_spec cl idx = Some j -> in_range j (lens_of sh).
Proof.
  induction cl as [|r cl IH]; intros sh idx j Hok Hlen Hm.
  - inversion Hok; subst. destruct idx; [|discriminate]. injection Hm as <-. exact I.
  - destruct idx as [|i idx]; [discriminate|]. inversion Hok as [|d ? sh' ? Hr Hrest]; subst.
    cbn [map_by_range_spec] in Hm. destruct (N.ltb_spec i (r_length r)); [|discriminate].
    destruct (map_by_range_spec cl idx) as [j'|] eqn:E; [|discriminate].
    injection Hm as <-. cbn [lens_of map in_range]. split; [lia|].
    apply (IH sh' idx j' Hrest); [cbn in Hlen; lia|exact E].
Qed.
