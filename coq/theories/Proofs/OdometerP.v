(* The ShapeIterator odometer (Model/ShapeIter.v: upd / carry_step / carry_loop / iter_next /
   iter_len, transcribed from src/tensors/indexing.rs) is mixed-radix increment:
     - one call of next() on an in-range unfinished state yields the current index and either
       moves to the in-range index whose row-major position is one larger, or finishes exactly
       at the last position;
     - the reported length is elements - position;
     - the indexes yielded are exactly `all_indexes` (row-major enumeration), then None forever.
   For every dimensionality and every shape (zero lengths included). *)
From Coq Require Import List ZArith NArith Bool Arith Lia.
From EasyML Require Import Base.Sx Model.Shape Model.Tensor Model.TSource Model.ShapeIter
  Model.Transform Proofs.ShapeP.
Import ListNotations.
Open Scope N_scope.

(* ---------- upd ---------- *)

Lemma upd_length l d v : length (upd l d v) = length l.
Proof. revert d; induction l as [|x l IH]; intros [|d]; cbn [upd length]; auto. Qed.

Lemma upd_cons_S x l d v : upd (x :: l) (S d) v = x :: upd l d v.
Proof. reflexivity. Qed.

(* ---------- the carry loop, structurally ---------- *)

Lemma carry_step_cons l lens i idx d :
  carry_step (l :: lens) (i :: idx) (S (S d)) = i :: carry_step lens idx (S d).
Proof.
  unfold carry_step. cbn [nth].
  destruct (nth (S d) idx 0 =? nth (S d) lens 0); [|reflexivity].
  cbn [upd Nat.sub]. rewrite Nat.sub_0_r. cbn [nth]. reflexivity.
Qed.

Lemma carry_loop_cons l lens i : forall d idx,
  carry_loop (l :: lens) (i :: idx) (S d) = carry_step (l :: lens) (i :: carry_loop lens idx d) 1.
Proof.
  induction d as [|d IH]; intros idx.
  - reflexivity.
  - change (carry_loop (l :: lens) (i :: idx) (S (S d)))
      with (carry_loop (l :: lens) (carry_step (l :: lens) (i :: idx) (S (S d))) (S d)).
    rewrite carry_step_cons, IH. reflexivity.
Qed.

Lemma carry_step_1 l lens i j rest :
  carry_step (l :: lens) (i :: j :: rest) 1 =
  if j =? nth 0 lens 0 then (i + 1) :: 0 :: rest else i :: j :: rest.
Proof. unfold carry_step. cbn [nth upd Nat.sub]. destruct (j =? nth 0 lens 0); reflexivity. Qed.

(* "increment the last index, then run the carries down to position 1" *)
Definition bump (lens idx : list N) : list N :=
  let last := pred (length idx) in
  carry_loop lens (upd idx last (nth last idx 0 + 1)) last.

Lemma bump_single lens i : bump lens [i] = [i + 1].
Proof. reflexivity. Qed.

Lemma bump_cons l lens i j idx :
  bump (l :: lens) (i :: j :: idx) = carry_step (l :: lens) (i :: bump lens (j :: idx)) 1.
Proof.
  unfold bump. cbn [length pred]. rewrite upd_cons_S. cbn [nth].
  rewrite carry_loop_cons. reflexivity.
Qed.

(* the invariant established by bump: the value (row-major position, computed by the same
   formula even when the leading index equals its length) grows by one; everything but the
   leading index is in range and the leading index is at most its length *)
Lemma bump_spec : forall idx lens, idx <> [] -> in_range idx lens ->
  exists h t, bump lens idx = h :: t /\ h <= nth 0 lens 0 /\ in_range t (tl lens) /\
              flat (h :: t) lens = flat idx lens + 1.
Proof.
  induction idx as [|i idx IH]; intros lens Hne Hr; [congruence|].
  destruct lens as [|l lens]; [destruct Hr|]. destruct Hr as [Hi Hr].
  destruct idx as [|j idx].
  - destruct lens; [|destruct Hr]. rewrite bump_single.
    exists (i + 1), []. cbn [nth tl in_range flat]. repeat split; try lia. rewrite prod_nil. lia.
  - destruct (IH lens ltac:(discriminate) Hr) as [h [t [Hb [Hh [Ht Hf]]]]].
    rewrite bump_cons, Hb, carry_step_1.
    destruct lens as [|lj lens]; [destruct Hr|]. cbn [nth tl] in *.
    destruct Hr as [Hj Hr].
    destruct (N.eqb_spec h lj) as [->|Hneq].
    + exists (i + 1), (0 :: t). repeat split; try lia; try assumption.
      cbn [flat] in *. rewrite !prod_cons in *. nia.
    + exists i, (h :: t). repeat split; try lia; try assumption.
      cbn [flat] in *. rewrite !prod_cons in *. nia.
Qed.

Lemma bump_length lens idx : length (bump lens idx) = length idx.
Proof.
  unfold bump. set (last := pred (length idx)).
  assert (H : forall d x, length (carry_loop lens x d) = length x).
  { induction d as [|d IH]; intros x; cbn [carry_loop]; [reflexivity|].
    rewrite IH. unfold carry_step. destruct (_ =? _); [|reflexivity]. rewrite !upd_length. reflexivity. }
  rewrite H, upd_length. reflexivity.
Qed.

(* ---------- one call of next() ---------- *)

Definition lens_pos (lens : list N) : Prop := Forall (fun l => 0 < l) lens.

Lemma in_range_pos idx lens : in_range idx lens -> lens_pos lens.
Proof.
  revert lens; induction idx as [|i idx IH]; intros [|l lens]; cbn [in_range]; try tauto.
  - constructor.
  - intros [H1 H2]. constructor; [lia|apply IH; assumption].
Qed.

(* D = 0 *)
Lemma iter_next_nil : iter_next (mkSI [] [] false) = (Some [], mkSI [] [] true).
Proof. reflexivity. Qed.

Lemma iter_next_finished sh idx : iter_next (mkSI sh idx true) = (None, mkSI sh idx true).
Proof. reflexivity. Qed.

Lemma iter_next_unfold sh idx : sh <> [] -> length idx = length sh ->
  iter_next (mkSI sh idx false) =
  (Some idx, mkSI sh (bump (lens_of sh) idx) (nth 0 (bump (lens_of sh) idx) 0 =? nth 0 (lens_of sh) 0)).
Proof.
  intros Hne Hlen. unfold iter_next. cbn [si_finished si_shape si_indexes].
  destruct sh as [|d sh]; [congruence|]. cbn [length].
  unfold bump. rewrite Hlen. cbn [length pred]. reflexivity.
Qed.

(* the step theorem *)
Theorem iter_next_spec sh idx : in_range idx (lens_of sh) ->
  exists idx' fin, iter_next (mkSI sh idx false) = (Some idx, mkSI sh idx' fin) /\
    if fin then flat idx (lens_of sh) + 1 = elements sh
    else in_range idx' (lens_of sh) /\ flat idx' (lens_of sh) = flat idx (lens_of sh) + 1.
Proof.
  intros Hr. pose proof (in_range_length _ _ Hr) as Hlen. unfold lens_of in Hlen.
  rewrite map_length in Hlen.
  destruct sh as [|d sh].
  - destruct idx; [|discriminate]. exists [], true. split; [reflexivity|]. reflexivity.
  - rewrite iter_next_unfold by (auto; discriminate).
    destruct (bump_spec idx (lens_of (d :: sh))) as [h [t [Hb [Hh [Ht Hf]]]]]; auto.
    { destruct idx; [discriminate|discriminate]. }
    rewrite Hb. cbn [nth]. exists (h :: t), (h =? nth 0 (lens_of (d :: sh)) 0). split; [reflexivity|].
    pose proof (flat_lt _ _ Hr) as Hlt.
    destruct d as [n l]. cbn [lens_of map snd nth tl] in *. change (map snd sh) with (lens_of sh) in *.
    unfold elements. cbn [lens_of map snd]. change (map snd sh) with (lens_of sh).
    destruct (N.eqb_spec h l) as [->|Hneq].
    + cbn [flat] in Hf. rewrite prod_cons in *.
      pose proof (flat_lt _ _ Ht). nia.
    + split; [|exact Hf]. cbn [in_range]. split; [lia|exact Ht].
Qed.

(* ---------- size_hint ---------- *)

Lemma gidu_flat : forall idx sh acc, length idx = length sh ->
  gidu idx (compute_strides sh) acc = acc + flat idx (lens_of sh).
Proof.
  induction idx as [|i idx IH]; intros [|[n l] sh] acc Hlen; cbn [length] in Hlen; try lia.
  - cbn. lia.
  - rewrite strides_cons. cbn [gidu lens_of map snd flat]. change (map snd sh) with (lens_of sh).
    rewrite IH by lia. lia.
Qed.

Lemma iter_len_unfinished sh idx : length idx = length sh ->
  iter_len (mkSI sh idx false) = elements sh - flat idx (lens_of sh).
Proof.
  intros Hlen. unfold iter_len. cbn [si_finished si_shape si_indexes].
  destruct sh as [|d sh].
  - destruct idx; [reflexivity|discriminate].
  - cbn [length]. rewrite gidu_flat by exact Hlen. reflexivity.
Qed.

Lemma iter_len_finished sh idx : iter_len (mkSI sh idx true) = 0.
Proof. reflexivity. Qed.

(* ---------- the specification enumeration ---------- *)

Lemma nseq_length s n : length (nseq s n) = n.
Proof. revert s; induction n as [|n IH]; intros s; cbn [nseq length]; auto. Qed.

Lemma nseq_app s n m : nseq s (n + m) = nseq s n ++ nseq (s + N.of_nat n) m.
Proof.
  revert s; induction n as [|n IH]; intros s.
  - cbn [nseq app plus]. f_equal. lia.
  - cbn [nseq plus app]. f_equal. rewrite IH. f_equal. f_equal. lia.
Qed.

Lemma nseq_nth_error s n k : (k < n)%nat -> nth_error (nseq s n) k = Some (s + N.of_nat k).
Proof.
  revert s k; induction n as [|n IH]; intros s [|k] H; try lia; cbn [nseq nth_error].
  - f_equal. lia.
  - rewrite IH by lia. f_equal. lia.
Qed.

Lemma map_nseq_add a s n : map (fun v => a + v) (nseq s n) = nseq (a + s) n.
Proof.
  revert s; induction n as [|n IH]; intros s; cbn [nseq map]; [reflexivity|].
  f_equal. rewrite IH. f_equal. lia.
Qed.

(* the positions of all_indexes are 0, 1, 2, ... *)
Lemma all_indexes_flat lens :
  map (fun x => flat x lens) (all_indexes lens) = nseq 0 (N.to_nat (prod lens)).
Proof.
  induction lens as [|l lens IH].
  - reflexivity.
  - cbn [all_indexes]. rewrite prod_cons.
    set (P := prod lens) in *.
    assert (H : forall c s, map (fun x => flat x (l :: lens))
                  (flat_map (fun i => map (cons i) (all_indexes lens)) (nseq s c))
                = nseq (s * P) (c * N.to_nat P)).
    { induction c as [|c IHc]; intros s; [reflexivity|].
      cbn [nseq flat_map]. rewrite map_app, IHc, map_map.
      cbn [flat]. fold P.
      rewrite <- (map_map (fun x => flat x lens) (fun v => s * P + v)), IH, map_nseq_add.
      replace (S c * N.to_nat P)%nat with (N.to_nat P + c * N.to_nat P)%nat by lia.
      rewrite nseq_app. f_equal; [f_equal; lia|]. f_equal. lia. }
    rewrite H. f_equal. lia.
Qed.

Lemma all_indexes_in_range lens : Forall (fun x => in_range x lens) (all_indexes lens).
Proof.
  induction lens as [|l lens IH].
  - repeat constructor.
  - cbn [all_indexes]. apply Forall_forall. intros x Hx.
    apply in_flat_map in Hx. destruct Hx as [i [Hi Hx]]. apply in_map_iff in Hx.
    destruct Hx as [y [<- Hy]]. cbn [in_range]. split.
    + assert (G : forall n s v, In v (nseq s n) -> v < s + N.of_nat n).
      { induction n as [|n IHn]; intros s v; cbn [nseq In]; [tauto|].
        intros [<-|H]; [lia|]. apply IHn in H. lia. }
      apply G in Hi. lia.
    + rewrite Forall_forall in IH. apply IH. exact Hy.
Qed.

Lemma all_indexes_length lens : length (all_indexes lens) = N.to_nat (prod lens).
Proof.
  rewrite <- (map_length (fun x => flat x lens)), all_indexes_flat, nseq_length. reflexivity.
Qed.

(* the k-th index of the enumeration is the unique in-range index at position k *)
Lemma all_indexes_nth lens k x : nth_error (all_indexes lens) k = Some x ->
  in_range x lens /\ flat x lens = N.of_nat k.
Proof.
  intros H. split.
  - pose proof (all_indexes_in_range lens) as F. rewrite Forall_forall in F.
    apply F. eapply nth_error_In; eauto.
  - pose proof (map_nth_error (fun x => flat x lens) _ _ H) as M.
    rewrite all_indexes_flat in M.
    assert (k < N.to_nat (prod lens))%nat
      by (rewrite <- all_indexes_length; apply nth_error_Some; congruence).
    rewrite nseq_nth_error in M by assumption. injection M as M. lia.
Qed.

Lemma all_indexes_at lens idx : in_range idx lens ->
  nth_error (all_indexes lens) (N.to_nat (flat idx lens)) = Some idx.
Proof.
  intros Hr. pose proof (flat_lt _ _ Hr) as Hlt.
  destruct (nth_error (all_indexes lens) (N.to_nat (flat idx lens))) as [x|] eqn:E.
  - destruct (all_indexes_nth _ _ _ E) as [Hx Hf]. f_equal.
    eapply flat_inj; eauto. lia.
  - apply nth_error_None in E. rewrite all_indexes_length in E. lia.
Qed.

(* ---------- unfolding next() k times ---------- *)

Definition outs (k : nat) (it : shape_iter) : list (option (list N) * N) :=
  fst (drive iter_next iter_len k it).

Lemma outs_S k it : outs (S k) it =
  (fst (iter_next it), iter_len (snd (iter_next it))) :: outs k (snd (iter_next it)).
Proof.
  unfold outs. cbn [drive]. destruct (iter_next it) as [x s']. cbn [fst snd].
  destruct (drive iter_next iter_len k s') as [rest s'']. reflexivity.
Qed.

Lemma outs_finished k sh idx : outs k (mkSI sh idx true) = repeat (None, 0) k.
Proof.
  induction k as [|k IH]; [reflexivity|].
  rewrite outs_S, iter_next_finished. cbn [fst snd repeat]. rewrite IH, iter_len_finished. reflexivity.
Qed.

(* what the j-th call returns when the iteration is at row-major position p *)
Definition expected (lens : list N) (q : N) : option (list N) * N :=
  if q <? prod lens then (nth_error (all_indexes lens) (N.to_nat q), prod lens - q - 1) else (None, 0).

Lemma outs_spec sh : forall k idx, in_range idx (lens_of sh) ->
  outs k (mkSI sh idx false) =
  map (fun j => expected (lens_of sh) (flat idx (lens_of sh) + N.of_nat j)) (seq 0 k).
Proof.
  induction k as [|k IH]; intros idx Hr; [reflexivity|].
  rewrite outs_S.
  destruct (iter_next_spec sh idx Hr) as [idx' [fin [Hn Hs]]]. rewrite Hn. cbn [fst snd].
  pose proof (flat_lt _ _ Hr) as Hlt. fold (elements sh) in Hlt.
  cbn [seq map]. f_equal.
  - unfold expected. fold (elements sh). rewrite N.add_0_r.
    destruct (N.ltb_spec (flat idx (lens_of sh)) (elements sh)); [|lia].
    rewrite all_indexes_at by exact Hr. f_equal.
    destruct fin.
    + rewrite iter_len_finished. lia.
    + destruct Hs as [Hr' Hf]. rewrite iter_len_unfinished.
      * rewrite Hf. lia.
      * pose proof (in_range_length _ _ Hr') as L. unfold lens_of in L. rewrite map_length in L. exact L.
  - rewrite <- seq_shift, map_map. destruct fin.
    + rewrite outs_finished.
      assert (E : forall n, repeat (@None (list N), 0) n =
                map (fun x => expected (lens_of sh) (flat idx (lens_of sh) + N.of_nat (S x))) (seq 0 n)).
      { intros n. generalize 0%nat. induction n as [|n IHn]; intros s; [reflexivity|].
        cbn [repeat seq map]. f_equal; [|apply IHn].
        unfold expected. fold (elements sh).
        destruct (N.ltb_spec (flat idx (lens_of sh) + N.of_nat (S s)) (elements sh)); [lia|reflexivity]. }
      apply E.
    + destruct Hs as [Hr' Hf]. rewrite IH by exact Hr'. apply map_ext. intros j. f_equal. lia.
Qed.

(* ---------- the initial state ---------- *)

Lemma in_range_zeros lens : lens_pos lens -> in_range (repeat 0 (length lens)) lens.
Proof.
  induction 1 as [|l lens Hl _ IH]; cbn [length repeat in_range]; auto.
Qed.

Lemma flat_zeros lens : flat (repeat 0 (length lens)) lens = 0.
Proof. induction lens as [|l lens IH]; cbn [length repeat flat]; [reflexivity|]. rewrite IH. lia. Qed.

Lemma all_pos_b sh : forallb (fun d : name * N => 0 <? snd d) sh = true <-> lens_pos (lens_of sh).
Proof.
  induction sh as [|[n l] sh IH]; cbn [forallb lens_of map snd].
  - split; [constructor|reflexivity].
  - rewrite andb_true_iff, N.ltb_lt, IH. unfold lens_pos. split.
    + intros [H1 H2]. constructor; assumption.
    + intros H. inversion H; subst. split; assumption.
Qed.

Lemma prod_zero lens : ~ lens_pos lens -> prod lens = 0.
Proof.
  induction lens as [|l lens IH]; intros H.
  - exfalso. apply H. constructor.
  - rewrite prod_cons. destruct (N.eq_dec l 0) as [->|Hl]; [lia|].
    rewrite IH; [lia|]. intros Hp. apply H. constructor; [lia|exact Hp].
Qed.

(* every call, from the initial state, for every shape *)
Theorem shape_iter_outs sh k :
  outs k (shape_iter_from sh) = map (fun j => expected (lens_of sh) (N.of_nat j)) (seq 0 k).
Proof.
  unfold shape_iter_from.
  destruct (forallb (fun d : name * N => 0 <? snd d) sh) eqn:E; cbn [negb].
  - apply all_pos_b in E.
    replace (length sh) with (length (lens_of sh)) by (unfold lens_of; apply map_length).
    rewrite outs_spec by (apply in_range_zeros; exact E).
    apply map_ext. intros j. rewrite flat_zeros. reflexivity.
  - assert (Hz : prod (lens_of sh) = 0).
    { apply prod_zero. intros H. apply all_pos_b in H. congruence. }
    rewrite outs_finished.
    generalize 0%nat. induction k as [|k IH]; intros s; [reflexivity|].
    cbn [repeat seq map]. f_equal; [|apply IH].
    unfold expected. rewrite Hz. destruct (N.ltb_spec (N.of_nat s) 0); [lia|reflexivity].
Qed.

Lemma shape_iter_len0 sh : iter_len (shape_iter_from sh) = elements sh.
Proof.
  unfold shape_iter_from.
  destruct (forallb (fun d : name * N => 0 <? snd d) sh) eqn:E; cbn [negb].
  - rewrite iter_len_unfinished by (rewrite repeat_length; reflexivity).
    replace (length sh) with (length (lens_of sh)) by (unfold lens_of; apply map_length).
    rewrite flat_zeros. lia.
  - rewrite iter_len_finished. symmetry. apply prod_zero. intros H. apply all_pos_b in H. congruence.
Qed.

Lemma map_nth_error_seq {X} (l : list X) :
  map (nth_error l) (seq 0 (length l)) = map Some l.
Proof.
  induction l as [|x l IH]; [reflexivity|].
  cbn [length seq map nth_error]. f_equal. rewrite <- seq_shift, map_map. exact IH.
Qed.

(* exactly the row-major enumeration, then None forever *)
Theorem shape_iter_enumerates sh m :
  map fst (outs (length (all_indexes (lens_of sh)) + m) (shape_iter_from sh)) =
  map Some (all_indexes (lens_of sh)) ++ repeat None m.
Proof.
  rewrite shape_iter_outs, map_map, seq_app, map_app. cbn [plus]. f_equal.
  - rewrite <- map_nth_error_seq. apply map_ext_in. intros j Hj. apply in_seq in Hj.
    unfold expected. rewrite all_indexes_length in Hj.
    destruct (N.ltb_spec (N.of_nat j) (prod (lens_of sh))); [|lia].
    cbn [fst]. rewrite Nat2N.id. reflexivity.
  - assert (G : forall n s, (length (all_indexes (lens_of sh)) <= s)%nat ->
              map (fun x => fst (expected (lens_of sh) (N.of_nat x))) (seq s n) = repeat None n).
    { induction n as [|n IHn]; intros s' Hs; [reflexivity|].
      cbn [seq map repeat]. f_equal; [|apply IHn; lia].
      unfold expected. rewrite all_indexes_length in Hs.
      destruct (N.ltb_spec (N.of_nat s') (prod (lens_of sh))); [lia|reflexivity]. }
    apply G. lia.
Qed.
