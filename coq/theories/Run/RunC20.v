(* Model-side runner for C20: PREDICTS what rustc does with a probe program, from the regenerated
   declarations (Gen/Types.v) and the rules of Model/AutoTraits.v.  The implementation side of
   this differential is rustc itself (tools/props/c20.py compiles probes/*.rs against the freshly
   built crate); there is no harness module.

   Strings travel as lists of character codes.  Queries (the `// query:` header of a probe):
     (20 1 tr type)        auto trait: tr = 0 Send | 1 Sync, of a CONCRETE type
                             type ::= (0 name (type ...))   declared struct/enum applied to arguments
                                    | (6 name (type ...))   type alias applied to arguments
                                    | (1) f64 | (2) Cell<f64> | (3) Rc<f64>
                                    | (4 type) &type | (5 type) &mut type | (7 type) Vec<type>
                                    | (8 type ...) tuple | (9 type) RefCell<type>
     (20 2 name)           a value of type `name` is used after its source is gone
     (20 3 name)           the source of a value of type `name` is mutated / moved while it is alive
     (20 4 parent trait module supertrait)   a client implements the sealed trait
     (20 5 trait)          `impl Trait for X` without `unsafe`
     (20 6 trait)          `unsafe impl Trait for X`
     (20 7)                documented valid usage, no rule applies
     (20 9 parent trait module supertrait)   a client implements the sealed trait for a type OF THE
                           CRATE with a foreign type as the trait's parameter
     (20 10 parent trait module supertrait)  as (20 9 ..) after the client has implemented a PUBLIC trait
                           (e.g. PartialEq<Local>) for the crate type: rejected only if, in addition,
                           the sealing trait's impls are for a closed set of crate types
     (20 8 trait super)    a client implements `trait` for a type that does not implement `super`
                           (super as written in the trait header)
     (20 11 type)          a value of the CONCRETE type (e.g. TensorRange<f64, &Tensor<f64>>) is used after
                           the referent of a reference it stores is gone: rejected iff `stores_ref`
     (20 12 type)          the referent is mutated / moved / reassigned / borrowed again while the value is alive
   Result: (0 (codes...)) = the set of rustc error codes the model allows; () = must compile.
           (1 ()) = the query names something that is not declared in the crate. *)
From Coq Require Import List ZArith NArith Bool Strings.Byte Ascii.
From EasyML Require Import Base.Sx Model.AutoTraits Gen.Types.
Import ListNotations.
Open Scope str_scope.

Definition str_of (l : list Z) : str :=
  Str (map (fun z => byte_of_ascii (ascii_of_nat (Z.to_nat z))) l).

Definition dstr (s : sx) : option str := option_map str_of (dlist dZ s).

Definition f64 : ty := TPrim "f64".

Definition alias_app (n : str) (args : list ty) : option ty :=
  match find (fun a => str_eqb (aname a) n) aliases with
  | Some a => if Nat.eqb (List.length args) (atys a) then Some (subst [] args (abody a)) else None
  | None => None
  end.

Fixpoint dty (fuel : nat) (s : sx) : option ty :=
  match fuel with
  | O => None
  | S f =>
    match s with
    | SL [SZ 0%Z; n; SL args] =>
        match dstr n, sequence (map (dty f) args) with
        | Some n, Some args => Some (TApp n [] args)
        | _, _ => None
        end
    | SL [SZ 6%Z; n; SL args] =>
        match dstr n, sequence (map (dty f) args) with
        | Some n, Some args => alias_app n args
        | _, _ => None
        end
    | SL [SZ 1%Z] => Some f64
    | SL [SZ 2%Z] => Some (TCell f64)
    | SL [SZ 3%Z] => Some (TRc f64)
    | SL [SZ 4%Z; t] => option_map (TRef LAnon false) (dty f t)
    | SL [SZ 5%Z; t] => option_map (TRef LAnon true) (dty f t)
    | SL [SZ 7%Z; t] => option_map TVec (dty f t)
    | SL (SZ 8%Z :: ts) => option_map TTuple (sequence (map (dty f) ts))
    | SL [SZ 9%Z; t] => option_map TRefCell (dty f t)
    | _ => None
    end
  end.

Definition no_params : trait -> nat -> bool := fun _ _ => false.

Definition codes (l : list Z) : sx := SL [SZ 0%Z; SL (map SZ l)].
Definition unknown : sx := SL [SZ 1%Z; SL []].

Definition declared (n : str) : bool :=
  match lookup decls n with Some _ => true | None => false end.

Definition run_c20 (args : list sx) : sx :=
  match args with
  | [SZ 1%Z; SZ tr; t] =>
      match dty 12 t with
      | Some t =>
          if resolved decls t
          then if holds decls no_params (if (tr =? 0)%Z then Send else Sync) t
               then codes [] else codes [277%Z]
          else unknown
      | None => bad_case
      end
  | [SZ 2%Z; n] =>
      match dstr n with
      | Some n => if declared n then (if pins decls n then codes [597; 505; 716; 515]%Z else codes [])
                  else unknown
      | None => bad_case
      end
  | [SZ 3%Z; n] =>
      match dstr n with
      | Some n => if declared n then (if pins decls n then codes [499; 502; 505; 506; 596]%Z else codes [])
                  else unknown
      | None => bad_case
      end
  | [SZ 4%Z; p; t; m; s] =>
      match dstr p, dstr t, dstr m, dstr s with
      | Some p, Some t, Some m, Some s =>
          if sealed traits modules reexports p t m s then codes [277; 603]%Z else codes []
      | _, _, _, _ => bad_case
      end
  | [SZ 5%Z; t] =>
      match dstr t with
      | Some t => match lookup_trait traits t with
                  | Some d => if tunsafe d then codes [200%Z] else codes []
                  | None => unknown
                  end
      | None => bad_case
      end
  | [SZ 6%Z; t] =>
      match dstr t with
      | Some t => match lookup_trait traits t with
                  | Some d => if tunsafe d then codes [] else codes [199%Z]
                  | None => unknown
                  end
      | None => bad_case
      end
  | [SZ 7%Z] => codes []
  | [SZ 11%Z; t] =>
      match dty 12 t with
      | Some t => if resolved decls t
                  then (if stores_ref decls t then codes [597; 505; 716; 515]%Z else codes [])
                  else unknown
      | None => bad_case
      end
  | [SZ 12%Z; t] =>
      match dty 12 t with
      | Some t => if resolved decls t
                  then (if stores_ref decls t then codes [499; 502; 505; 506; 596]%Z else codes [])
                  else unknown
      | None => bad_case
      end
  | [SZ 10%Z; p; t; m; s] =>
      match dstr p, dstr t, dstr m, dstr s with
      | Some p, Some t, Some m, Some s =>
          if sealed traits modules reexports p t m s && seal_covers_params traits p t m s
             && seal_impls_closed sealed_impls p m s
          then codes [277; 603]%Z else codes []
      | _, _, _, _ => bad_case
      end
  | [SZ 9%Z; p; t; m; s] =>
      match dstr p, dstr t, dstr m, dstr s with
      | Some p, Some t, Some m, Some s =>
          if sealed traits modules reexports p t m s && seal_covers_params traits p t m s
          then codes [277; 603]%Z else codes []
      | _, _, _, _ => bad_case
      end
  | [SZ 8%Z; t; s] =>
      match dstr t, dstr s with
      | Some t, Some s => match lookup_trait traits t with
                          | Some _ => if has_super traits t s then codes [277%Z] else codes []
                          | None => unknown
                          end
      | _, _ => bad_case
      end
  | _ => bad_case
  end.
