(* Case decoder / result encoder for property C07 (same language: harness/src/c07.rs,
   tools/props/c07.py).
     (7 op ty (n0 n1) rows cols (x ...) (pr pc))
        op 1 = determinant, 2 = inverse ; ty 0 = Rat, 1 = Fp ; n0 n1 = dimension names of the
        tensor forms ; rows, cols >= 1 ; x ... = rows*cols entries, row-major ; (pr pc) = where the
        harness inserts the hidden row / column of its masked view (ignored by the model).
   Result:  (matrix-route tensor-route)
        determinant:  (opt value) (opt value)
        inverse:      (opt (rows cols (x ...)))  (opt (((n0 rows) (n1 cols)) (x ...))) *)
From Coq Require Import List ZArith NArith Bool.
From EasyML Require Import Base.Sx Model.Num Model.Perms Model.LinAlg.
Import ListNotations.

Fixpoint chunk {A} (rows cols : nat) (l : list A) : list (list A) :=
  match rows with
  | O => []
  | S r => firstn cols l :: chunk r cols (skipn cols l)
  end.

Definition c07_run {R} (ops : numops R) (op : Z) (names : nat * nat) (m : mat (R := R)) : sx :=
  let enc_m := fun x : mat => SL [snat (mrows x); snat (mcols x); slist (nenc ops) (concat x)] in
  let enc_t := fun t : tensor2 =>
    SL [slist (fun p => SL [snat (fst p); snat (snd p)]) (t2_shape t);
        slist (nenc ops) (concat (t2_mat t))] in
  match op with
  | 1%Z => SL [sopt (nenc ops) (det_matrix ops m);
               sopt (nenc ops) (determinant_tensor2 ops (mkT2 names m))]
  | 2%Z => SL [sopt enc_m (inverse_matrix ops m);
               sopt enc_t (inverse_tensor2 ops (mkT2 names m))]
  | _ => bad_case
  end.

Definition run_c07 (args : list sx) : sx :=
  match args with
  | [SZ op; SZ ty; names; rows; cols; data; pad] =>
      match dpair dnat dnat names, dnat rows, dnat cols, dpair dnat dnat pad with
      | Some names, Some rows, Some cols, Some _ =>
          if Nat.eqb rows 0 || Nat.eqb cols 0 || Nat.eqb (fst names) (snd names) then bad_case else
          with_ty ty (fun R ops =>
            match dlist (ndec ops) data with
            | Some d => if Nat.eqb (length d) (rows * cols)
                        then c07_run ops op names (chunk rows cols d) else bad_case
            | None => bad_case
            end)
      | _, _, _, _ => bad_case
      end
  | _ => bad_case
  end.
