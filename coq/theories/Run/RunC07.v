(* Case decoder / result encoder for property C07 (same language: harness/src/c07.rs,
   tools/props/c07.py).
     (7 op ty (n0 n1) rows cols (x ...) (pr pc))
        op 1 = determinant, 2 = inverse, 3 = determinant + inverse presence at element type f64 ;
        ty 0 = Rat, 1 = Fp, 2 = Wrapping<i64> (a ring that is not a field: entries are integers),
        3 = Trace<Rat> (dual numbers: entries are (number derivative), == compares numbers only),
        4 = StrictRat (harness/src/c08/strict.rs: the values and encodings of Rat, but `/` PANICS
        on a zero divisor): for tag 4 the model runs the DIVISION-INSTRUMENTED inverse
        (Model/LinAlgDiv.v, strict_div) and predicts value / absence / panic; a panic of either
        route is the whole result `(2)` (what the harness answers when an entry point panics);
        by C07_inverse_never_divides_by_zero the model never predicts one ;
        op 4 = op 3 on the entries scaled by 2^-k, k = the ty field, 0 <= k <= 60 (powers of two
        scale exactly: the f64 determinant must be det(ints) * 2^(-k n), which the harness
        reports as det(ints); the inverse must be present exactly when det(ints) <> 0, however
        tiny the scaled determinant is) ;
        op 5 = FLOAT tier: ty 0 = f64, 1 = f32, +2 = marked well-conditioned by the generator;
        entries (m k) = m / 10^k evaluated in the float type, |m| <= 10^6, 0 <= k <= 200 (f64) /
        30 (f32), sizes <= 6.  Result: (determinant-present) = (rows = cols).  Everything else is
        checked inside the harness on rounding-independent observables: all entry points of a
        route bit for bit; inverse of each route present exactly when the crate's own determinant
        of the same input is `!= 0`; routes agree on presence; A X = I = X A within a tolerance
        for the inputs marked well-conditioned ;
        op 3: ty = 0, entries are plain integers in -3..3, sizes <= 6 (every product and partial
        sum of the Leibniz formula is then an exactly representable integer, so the f64 result
        must be the exact integer determinant, in particular exactly 0.0 for a singular input) ;
        n0 n1 = dimension names of the
        tensor forms ; rows, cols >= 1 ; x ... = rows*cols entries, row-major ; (pr pc) = where the
        harness inserts the hidden row / column of its masked view (ignored by the model).
   Result:  (matrix-route tensor-route)
        determinant:  (opt value) (opt value)
        inverse:      (opt (rows cols (x ...)))  (opt (((n0 rows) (n1 cols)) (x ...)))
        op 3:         ((opt integer-determinant) inverse-present) *)
From Coq Require Import List ZArith NArith QArith Bool.
From EasyML Require Import Base.Sx Model.Num Model.Numeric Model.TraceNum Model.Perms Model.LinAlg
  Model.DivOutcome Model.LinAlgDiv.
Import ListNotations.

Fixpoint chunk {A} (rows cols : nat) (l : list A) : list (list A) :=
  match rows with
  | O => []
  | S r => firstn cols l :: chunk r cols (skipn cols l)
  end.

Definition c07_run {R} (ops : numops R) (op : Z) (names : nat * nat) (m : mat (R := R)) : sx :=
  let enc_m := fun x : mat => SL [snat (mrows x); snat (mcols x); slist (nenc ops) (concat x)] in
  let enc_t := fun t : tensor2 =>
    SL [slist (fun p => SL [snat (fst p); snat (snd p)]) (t2_shape t);
        slist (nenc ops) (concat (t2_mat t))] in
  match op with
  | 1%Z => SL [sopt (nenc ops) (det_matrix ops m);
               sopt (nenc ops) (determinant_tensor2 ops (mkT2 names m))]
  | 2%Z => SL [sopt enc_m (inverse_matrix ops m);
               sopt enc_t (inverse_tensor2 ops (mkT2 names m))]
  | _ => bad_case
  end.

(* tag 4: the instrumented inverse with the strict division; the determinant has no division *)
Definition c07_run_strict {R} (ops : numops R) (op : Z) (names : nat * nat) (m : mat (R := R)) : sx :=
  let enc_m := fun x : mat => SL [snat (mrows x); snat (mcols x); slist (nenc ops) (concat x)] in
  let enc_t := fun t : tensor2 =>
    SL [slist (fun p => SL [snat (fst p); snat (snd p)]) (t2_shape t);
        slist (nenc ops) (concat (t2_mat t))] in
  match op with
  | 2%Z => match inverse_matrix_i ops (strict_div ops) m,
                 inverse_tensor2_i ops (strict_div ops) (mkT2 names m) with
           | Ok im, Ok it => SL [sopt enc_m im; sopt enc_t it]
           | _, _ => SL [SZ 2%Z]
           end
  | _ => c07_run ops op names m
  end.

(* element-type tags of C07 *)
Definition with_ty_c07 (ty : Z) (f : forall R, numops R -> sx) : sx :=
  match ty with
  | 0%Z => f Q Qops
  | 1%Z => f Z Fpops
  | 2%Z => f Z W64ops
  | 3%Z => f (trace Q) (trace_numops Qops)
  | _ => bad_case
  end.

(* op 3: the determinant over the integers (exact: small entries) and whether the inverse exists *)
Definition c07_float (rows cols : nat) (d : list Z) : sx :=
  if Nat.ltb 6 rows || Nat.ltb 6 cols || negb (forallb (fun z => (Z.abs z <=? 3)%Z) d) then bad_case
  else
    let det := det_tensor W64ops (chunk rows cols d) in
    SL [sopt SZ det; sbool (match det with Some x => negb (x =? 0)%Z | None => false end)].

Definition run_c07 (args : list sx) : sx :=
  match args with
  | [SZ op; SZ ty; names; rows; cols; data; pad] =>
      match dpair dnat dnat names, dnat rows, dnat cols, dpair dnat dnat pad with
      | Some names, Some rows, Some cols, Some _ =>
          if Nat.eqb rows 0 || Nat.eqb cols 0 || Nat.eqb (fst names) (snd names) then bad_case else
          if Z.eqb op 3 then
            match ty, dlist dZ data with
            | 0%Z, Some d => if Nat.eqb (length d) (rows * cols) then c07_float rows cols d else bad_case
            | _, _ => bad_case
            end
          else if Z.eqb op 5 then
            (* float tier: only the presence of the determinant is predicted *)
            let kmax := if Z.odd ty then 30%Z else 200%Z in
            match data with
            | SL l =>
                if (0 <=? ty)%Z && (ty <=? 3)%Z && Nat.leb rows 6 && Nat.leb cols 6
                   && Nat.eqb (length l) (rows * cols)
                   && forallb (fun e => match e with
                                        | SL [SZ m; SZ k] =>
                                            (Z.abs m <=? 1000000)%Z && (0 <=? k)%Z && (k <=? kmax)%Z
                                        | _ => false
                                        end) l
                then SL [sbool (Nat.eqb rows cols)] else bad_case
            | _ => bad_case
            end
          else if Z.eqb op 4 then
            (* entries m * 2^-k, k = ty in 0..60: the answer does not depend on k *)
            match dlist dZ data with
            | Some d => if (0 <=? ty)%Z && (ty <=? 60)%Z && Nat.eqb (length d) (rows * cols)
                        then c07_float rows cols d else bad_case
            | None => bad_case
            end
          else if Z.eqb ty 4 then
            match dlist (ndec Qops) data with
            | Some d => if Nat.eqb (length d) (rows * cols)
                        then c07_run_strict Qops op names (chunk rows cols d) else bad_case
            | None => bad_case
            end
          else
          with_ty_c07 ty (fun R ops =>
            match dlist (ndec ops) data with
            | Some d => if Nat.eqb (length d) (rows * cols)
                        then c07_run ops op names (chunk rows cols d) else bad_case
            | None => bad_case
            end)
      | _, _, _, _ => bad_case
      end
  | _ => bad_case
  end.
