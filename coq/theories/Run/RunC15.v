(* Case decoder / result encoder for property C15 (tools/props/c15.py, harness/src/c15.rs).
     (15 ty ntapes (op ...))       ty: 0 Rat, 1 Fp ; ntapes WengertLists exist from the start
   op (registers r / dst, lists t are small naturals):
     (0)                               a further WengertList::new()
     (1 dst t x)                       Record::variable(x, list t)
     (2 dst x)                         Record::constant(x)
     (3 dst t tensor shape data)       RecordTensor / RecordMatrix ::variables
     (4 dst tensor shape data)         ... ::constants      shape = ((name len) ...), a matrix
                                       is ((0 rows) (1 columns))
     (5 dst assign code c a form)      unary operator kind `code` (Container.unfn_of) with the
                                       number c, on the record or container in register a
     (6 dst mode code a b form)        binary operator kind (Container.binfn_of); containers:
                                       mode 0 operator, 1 binary, 2 left assign, 3 right assign
     (7 dst a b form)                  matrix multiplication
     (8 a elem)                        try_derivatives (record) / derivatives_for(elem)
     (9 t)                             clear
     (10 a)                            reset of one record / container
     (11 t)                            reset of every live object of list t, in register order
     (12 dst (r ...) shape)            registers r ... (records; 0 or more, repetitions allowed)
                                       handed to `impl Sum for Record`: iter.sum::<Record<T>>();
                                       `shape` = the iterator shape on the Rust side
                                       (harness/src/shapes.rs; the model ignores it).  A sum over
                                       records of two lists panics AFTER it has appended the
                                       partial sums of the records before the foreign one: those
                                       entries stay (visible in every later index / derivative
                                       vector), the destination register is not written
   `form` only selects the ownership form on the Rust side (the model ignores it).
   Result: one outcome per step:  () unit | (0 num hist idx) record | (1 shape hist ((v i) ...))
   container | (2 ()) / (2 ((d ...))) derivatives | (3 (i ...)) the new indexes. *)
From Coq Require Import List ZArith NArith Bool.
From EasyML Require Import Base.Sx Model.Num Model.Tape Model.Container Model.TapeMachine.
Import ListNotations.

Section Run.
Context {R : Type} (ops : numops R).

Definition dshape15 (s : sx) : option shape := dlist (dpair dnat dnat) s.
Definition ddata (s : sx) : option (list R) := dlist (ndec ops) s.

Definition dop15 (s : sx) : option (tm_op (R:=R)) :=
  match s with
  | SL [SZ 0%Z] => Some TNewTape
  | SL [SZ 1%Z; dst; t; x] =>
      match dnat dst, dnat t, ndec ops x with
      | Some dst, Some t, Some x => Some (TVar dst t x) | _, _, _ => None end
  | SL [SZ 2%Z; dst; x] =>
      match dnat dst, ndec ops x with Some dst, Some x => Some (TConst dst x) | _, _ => None end
  | SL [SZ 3%Z; dst; t; tensor; sh; data] =>
      match dnat dst, dnat t, dbool tensor, dshape15 sh, ddata data with
      | Some dst, Some t, Some tensor, Some sh, Some data => Some (TCVar dst t tensor sh data)
      | _, _, _, _, _ => None
      end
  | SL [SZ 4%Z; dst; tensor; sh; data] =>
      match dnat dst, dbool tensor, dshape15 sh, ddata data with
      | Some dst, Some tensor, Some sh, Some data => Some (TCConst dst tensor sh data)
      | _, _, _, _ => None
      end
  | SL [SZ 5%Z; dst; assign; code; c; a; _] =>
      match dnat dst, dbool assign, dnat code, ndec ops c, dnat a with
      | Some dst, Some assign, Some code, Some c, Some a => Some (TUn dst assign code c a)
      | _, _, _, _, _ => None
      end
  | SL [SZ 6%Z; dst; mode; code; a; b; _] =>
      match dnat dst, dnat mode, dnat code, dnat a, dnat b with
      | Some dst, Some mode, Some code, Some a, Some b => Some (TBin dst mode code a b)
      | _, _, _, _, _ => None
      end
  | SL [SZ 7%Z; dst; a; b; _] =>
      match dnat dst, dnat a, dnat b with
      | Some dst, Some a, Some b => Some (TMatmul dst a b) | _, _, _ => None end
  | SL [SZ 8%Z; a; e] =>
      match dnat a, dnat e with Some a, Some e => Some (TDerivs a e) | _, _ => None end
  | SL [SZ 9%Z; t] => match dnat t with Some t => Some (TClear t) | None => None end
  | SL [SZ 10%Z; a] => match dnat a with Some a => Some (TReset a) | None => None end
  | SL [SZ 11%Z; t] => match dnat t with Some t => Some (TResetAll t) | None => None end
  | SL [SZ 12%Z; dst; rs; _] =>
      match dnat dst, dlist dnat rs with Some dst, Some rs => Some (TSum dst rs) | _, _ => None end
  | _ => None
  end.

Definition shist (h : hist) : sx := sopt snat h.
Definition sshape15 (sh : shape) : sx := slist (spair snat snat) sh.
Definition srec (r : rec R) : sx := SL [SZ 0%Z; nenc ops (r_num r); shist (r_hist r); snat (r_idx r)].
Definition scont (c : cont R) : sx :=
  SL [SZ 1%Z; sshape15 (c_shape c); shist (c_hist c); slist (spair (nenc ops) snat) (c_data c)].
Definition sval (v : tm_val (R:=R)) : sx :=
  match v with
  | VUnit => SL []
  | VRec r => srec r
  | VCont c => scont c
  | VDerivs d => SL [SZ 2%Z; sopt (slist (nenc ops)) d]
  | VIdx l => SL [SZ 3%Z; slist snat l]
  end.

Definition c15 (ntapes : nat) (script : list sx) : sx :=
  match sequence (map dop15 script) with
  | None => bad_case
  | Some script =>
      match tm_run ops (init ntapes) script with
      | None => bad_case
      | Some (_, vs) => slist (soutcome sval) vs
      end
  end.
End Run.

Definition run_c15 (args : list sx) : sx :=
  match args with
  | [SZ ty; n; SL script] =>
      match dnat n with
      | Some n => with_ty ty (fun R ops => c15 ops n script)
      | None => bad_case
      end
  | _ => bad_case
  end.
