(* Case decoder / result encoder for property C03 (same language in harness/src/c03.rs and
   tools/props/c03.py).

     (3 op ty X Y)        op = 1 tadd  2 tsub  4 tdot  5 tmatmul  7 telementwise (f = times)
                               8 telementwise_with_index (f i a b = a * b + code i)
     (3 3 ty X k s)       tscalar: k = 0 add | 1 sub | 2 mul | 3 div ; s the scalar
     (3 6 ty X)           tneg  (map(|x| -x); Tensor has no Neg impl)
     (3 op ty MX MY)      op = 11 madd  12 msub  15 mmatmul
     (3 13 ty MX k s)     mscalar
     (3 16 ty MX)         mneg

     (3 17 ty MX MY)      PartialEq on matrices: Matrix == Matrix, Matrix == MatrixView,
                          MatrixView == Matrix, MatrixView == MatrixView (matrix_equality with its
                          column-major fast path; the views' data_layout() is part of the model) and
                          tensor_equality on the same data: their common answer (0 b)
     (3 40 ty op form args..)  ONE operand form of the operator `op` (args as for `(3 op ty args..)`):
                          op = 1 2 5 11 12 15: form = 8 * lk + 4 * rk + 2 * lb + rb  (lk rk: 0 container,
                          1 view; lb rb: 0 by value, 1 by reference) evaluated by the transcription of
                          exactly that impl (Model/ArithForms.v); op = 3 13: form = 4 * k + 2 * lb + sb
                          (sb: scalar by value / by reference); op = 16: form = 2 * k + lb; op = 17:
                          form = 0 M == M, 1 M == MV, 2 MV == M, 3 MV == MV

     (3 30 fop args..)    IEEE-754 oracle for the case (3 fop _ args..) at f64 (elements are bit
                          patterns).  Floats never reach the model: the line is the constant (1);
                          the harness checks forms, tensor/matrix agreement and the directly
                          evaluated IEEE result.

   ty: 0 Rat, 1 Fp, 2 Wrapping<i64>.
   Tensor operand  X  = (shape data steps), shape = ((name len) ..), data row-major,
     steps applied left to right:  (1 names) TensorAccess   (2 names) TensorTranspose
       (3 names) TensorReverse   (4 ((start len) ..)) TensorRange (strict)
       (5 ((start len) ..)) TensorMask (strict)   (6 names) TensorRename
   Matrix operand MX = (rows cols data steps):
       (1 r0 rl c0 cl) MatrixRange   (2 rr rc) MatrixReverse   (3) transposition through
       MatrixRefTensor(TensorAccess(TensorRefMatrix))
   An operand whose construction is rejected makes the case malformed (bad_case).

   Every operand is used both as a view and as the container holding the same elements
   (materialised in view order); the model evaluates the four container/view combinations
   (the only distinction the 16 operator impls make) and prints their common result
   (0 (shape data)) / (0 (rows cols data)) / (0 scalar) / (2) panic.  Should the four ever differ
   (Proofs/C03P.v shows they cannot) the line is (99 r_tt r_tv r_vt r_vv), which no harness
   output equals. *)
From Coq Require Import List ZArith NArith Bool.
From EasyML Require Import Base.Sx Model.Shape Model.Tensor Model.Num Model.Numeric Model.Arith
     Model.ArithForms.
Import ListNotations.

Fixpoint sx_eqb (a b : sx) : bool :=
  match a, b with
  | SZ x, SZ y => Z.eqb x y
  | SL l1, SL l2 =>
      (fix go (l1 l2 : list sx) : bool :=
         match l1, l2 with
         | [], [] => true
         | x :: r, y :: s => sx_eqb x y && go r s
         | _, _ => false
         end) l1 l2
  | _, _ => false
  end.

Definition agree (rs : list sx) : sx :=
  match rs with
  | r :: rest => if forallb (sx_eqb r) rest then r else SL (SZ 99%Z :: rs)
  | [] => bad_case
  end.

Definition dranges (s : sx) : option (list (N * N)) := dlist (dpair dN dN) s.

Section Run.
Context {R : Type} (ops : numops R).

(* ---- tensor operands ---- *)
Definition apply_step (v : tview R) (s : sx) : option (tview R) :=
  match s with
  | SL [SZ 1%Z; a] => match dnames a with
                      | Some n => if Nat.eqb (length n) (length (v_shape v)) then v_access v n else None
                      | None => None end
  | SL [SZ 2%Z; a] => match dnames a with
                      | Some n => if Nat.eqb (length n) (length (v_shape v)) then v_transpose v n else None
                      | None => None end
  | SL [SZ 3%Z; a] => match dnames a with Some n => v_reverse v n | None => None end
  | SL [SZ 4%Z; a] => match dranges a with Some r => v_range v r | None => None end
  | SL [SZ 5%Z; a] => match dranges a with Some r => v_mask v r | None => None end
  | SL [SZ 6%Z; a] => match dnames a with Some n => v_rename v n | None => None end
  | _ => None
  end.

Definition materialize (v : tview R) : option (tensor R) :=
  match view_elems v with
  | Some l => match tensor_from (v_shape v) l with Ok t => Some t | _ => None end
  | None => None
  end.

(* (container, view) *)
Definition dtensor (s : sx) : option (tensor R * tview R) :=
  match s with
  | SL [sh; data; SL steps] =>
      match dshape sh, dlist (ndec ops) data with
      | Some sh, Some data =>
          match tensor_from sh data with
          | Ok t =>
              match fold_left (fun ov st => match ov with Some v => apply_step v st | None => None end)
                              steps (Some (view_of_tensor t)) with
              | Some v => match materialize v with Some m => Some (m, v) | None => None end
              | None => None
              end
          | _ => None
          end
      | _, _ => None
      end
  | _ => None
  end.

Definition stensor (t : tensor R) : sx := SL [sshape (t_shape t); slist (nenc ops) (t_data t)].

Definition t_binary {X} (enc : X -> sx) (f : operand R -> operand R -> outcome X)
           (x y : tensor R * tview R) : sx :=
  agree [ soutcome enc (f (OT (fst x)) (OT (fst y))); soutcome enc (f (OT (fst x)) (OV (snd y)));
          soutcome enc (f (OV (snd x)) (OT (fst y))); soutcome enc (f (OV (snd x)) (OV (snd y))) ].
Definition t_unary (f : operand R -> outcome (tensor R)) (x : tensor R * tview R) : sx :=
  agree [ soutcome stensor (f (OT (fst x))); soutcome stensor (f (OV (snd x))) ].

(* the index code handed to the elementwise_with_index mapping function *)
Definition idx_code (i : list N) : N := fold_left (fun acc x => acc * 7 + x)%N i 0%N.
Definition with_index_fn (i : list N) (a b : R) : R :=
  nadd ops (nmul ops a b) (match nof_N ops (idx_code i) with Some c => c | None => nzero ops end).

(* ---- matrix operands ---- *)
Definition apply_mstep (v : mview R) (s : sx) : option (mview R) :=
  match s with
  | SL [SZ 1%Z; r0; rl; c0; cl] =>
      match dN r0, dN rl, dN c0, dN cl with
      | Some r0, Some rl, Some c0, Some cl => Some (mv_range v r0 rl c0 cl)
      | _, _, _, _ => None
      end
  | SL [SZ 2%Z; rr; rc] =>
      match dbool rr, dbool rc with Some rr, Some rc => Some (mv_reverse v rr rc) | _, _ => None end
  | SL [SZ 3%Z] => Some (mv_transpose v)
  | _ => None
  end.

Definition mmaterialize (v : mview R) : option (matrix R) :=
  match mv_row_major v with
  | Some l => match from_flat_row_major (mv_rows v) (mv_cols v) l with Ok m => Some m | _ => None end
  | None => None
  end.

Definition dmatrix (s : sx) : option (matrix R * mview R) :=
  match s with
  | SL [rows; cols; data; SL steps] =>
      match dN rows, dN cols, dlist (ndec ops) data with
      | Some rows, Some cols, Some data =>
          match from_flat_row_major rows cols data with
          | Ok m =>
              match fold_left (fun ov st => match ov with Some v => apply_mstep v st | None => None end)
                              steps (Some (mview_of_matrix m)) with
              | Some v => match mmaterialize v with Some mm => Some (mm, v) | None => None end
              | None => None
              end
          | _ => None
          end
      | _, _, _ => None
      end
  | _ => None
  end.

Definition smatrix (m : matrix R) : sx := SL [sN (m_rows m); sN (m_cols m); slist (nenc ops) (m_data m)].

Definition m_binary (f : moperand R -> moperand R -> outcome (matrix R))
           (x y : matrix R * mview R) : sx :=
  agree [ soutcome smatrix (f (OM (fst x)) (OM (fst y))); soutcome smatrix (f (OM (fst x)) (OMV (snd y)));
          soutcome smatrix (f (OMV (snd x)) (OM (fst y))); soutcome smatrix (f (OMV (snd x)) (OMV (snd y))) ].
Definition m_unary (f : moperand R -> outcome (matrix R)) (x : matrix R * mview R) : sx :=
  agree [ soutcome smatrix (f (OM (fst x))); soutcome smatrix (f (OMV (snd x))) ].

(* ---- equality: the layout answered by data_layout() of the operand's view ---- *)
Definition step_layout (l : mlayout) (s : sx) : mlayout :=
  match s with
  | SL (SZ 1%Z :: _) => layout_range l
  | SL (SZ 2%Z :: _) => layout_reverse l
  | SL (SZ 3%Z :: _) => layout_transpose l
  | _ => l
  end.
Definition dlayout (s : sx) : mlayout :=
  match s with
  | SL [_; _; _; SL steps] => fold_left step_layout steps layout_of_matrix
  | _ => layout_of_matrix
  end.
Definition dematrix (s : sx) : option (@epair R) :=
  match dmatrix s with Some mv => Some (mv, dlayout s) | None => None end.
Definition sobool (o : outcome bool) : sx := soutcome sbool o.
(* the tensor API on the same data: both operands under the names (0, 1) *)
Definition eq_via_tensor (x y : @epair R) : outcome bool :=
  tensor_equality2 (neqb ops) (tensor_ref_matrix (snd (fst x)) 0%nat 1%nat)
                   (tensor_ref_matrix (snd (fst y)) 0%nat 1%nat).
Definition m_eq_all (x y : @epair R) : sx :=
  agree [ sobool (m_eq4 (neqb ops) 0 x y); sobool (m_eq4 (neqb ops) 1 x y);
          sobool (m_eq4 (neqb ops) 2 x y); sobool (m_eq4 (neqb ops) 3 x y);
          sobool (eq_via_tensor x y) ].

(* ---- (3 40 ty op form ..): one impl ---- *)
Definition c03_one_form (op : Z) (form : N) (args : list sx) : sx :=
  match op, args with
  | 1%Z, [x; y] => match dtensor x, dtensor y with
                   | Some x, Some y => if (form <? 16)%N then soutcome stensor (t_add16 ops form x y)
                                       else bad_case
                   | _, _ => bad_case end
  | 2%Z, [x; y] => match dtensor x, dtensor y with
                   | Some x, Some y => if (form <? 16)%N then soutcome stensor (t_sub16 ops form x y)
                                       else bad_case
                   | _, _ => bad_case end
  | 5%Z, [x; y] => match dtensor x, dtensor y with
                   | Some x, Some y => if (form <? 16)%N then soutcome stensor (t_mul16 ops form x y)
                                       else bad_case
                   | _, _ => bad_case end
  | 3%Z, [x; SZ k; s] =>
      match dtensor x, ndec ops s with
      | Some x, Some s => if ((0 <=? k) && (k <=? 3))%Z && (form <? 8)%N
                          then soutcome stensor (t_scalar8 ops k form x s) else bad_case
      | _, _ => bad_case
      end
  | 11%Z, [x; y] => match dmatrix x, dmatrix y with
                    | Some x, Some y => if (form <? 16)%N then soutcome smatrix (m_add16 ops form x y)
                                        else bad_case
                    | _, _ => bad_case end
  | 12%Z, [x; y] => match dmatrix x, dmatrix y with
                    | Some x, Some y => if (form <? 16)%N then soutcome smatrix (m_sub16 ops form x y)
                                        else bad_case
                    | _, _ => bad_case end
  | 15%Z, [x; y] => match dmatrix x, dmatrix y with
                    | Some x, Some y => if (form <? 16)%N then soutcome smatrix (m_mul16 ops form x y)
                                        else bad_case
                    | _, _ => bad_case end
  | 13%Z, [x; SZ k; s] =>
      match dmatrix x, ndec ops s with
      | Some x, Some s => if ((0 <=? k) && (k <=? 3))%Z && (form <? 8)%N
                          then soutcome smatrix (m_scalar8 ops k form x s) else bad_case
      | _, _ => bad_case
      end
  | 16%Z, [x] => match dmatrix x with
                 | Some x => if (form <? 4)%N then soutcome smatrix (m_neg4 ops form x) else bad_case
                 | None => bad_case end
  | 17%Z, [x; y] => match dematrix x, dematrix y with
                    | Some x, Some y => if (form <? 4)%N then sobool (m_eq4 (neqb ops) form x y)
                                        else bad_case
                    | _, _ => bad_case end
  | _, _ => bad_case
  end.

Definition c03_run (op : Z) (args : list sx) : sx :=
  match op, args with
  | 17%Z, [x; y] => match dematrix x, dematrix y with
                    | Some x, Some y => m_eq_all x y | _, _ => bad_case end
  | 40%Z, SZ op' :: form :: rest =>
      match dN form with Some form => c03_one_form op' form rest | None => bad_case end
  | 1%Z, [x; y] => match dtensor x, dtensor y with
                   | Some x, Some y => t_binary stensor (t_add ops) x y | _, _ => bad_case end
  | 2%Z, [x; y] => match dtensor x, dtensor y with
                   | Some x, Some y => t_binary stensor (t_sub ops) x y | _, _ => bad_case end
  | 3%Z, [x; SZ k; s] =>
      match dtensor x, ndec ops s with
      | Some x, Some s => if ((0 <=? k) && (k <=? 3))%Z then t_unary (fun o => t_scalar ops k o s) x
                          else bad_case
      | _, _ => bad_case
      end
  | 4%Z, [x; y] => match dtensor x, dtensor y with
                   | Some x, Some y => t_binary (nenc ops) (t_dot ops) x y | _, _ => bad_case end
  | 5%Z, [x; y] => match dtensor x, dtensor y with
                   | Some x, Some y => t_binary stensor (t_matmul ops) x y | _, _ => bad_case end
  | 6%Z, [x] => match dtensor x with Some x => t_unary (t_neg ops) x | None => bad_case end
  | 7%Z, [x; y] => match dtensor x, dtensor y with
                   | Some x, Some y => t_binary stensor (t_elementwise (nmul ops)) x y
                   | _, _ => bad_case end
  | 8%Z, [x; y] => match dtensor x, dtensor y with
                   | Some x, Some y => t_binary stensor (t_elementwise_with_index with_index_fn) x y
                   | _, _ => bad_case end
  | 11%Z, [x; y] => match dmatrix x, dmatrix y with
                    | Some x, Some y => m_binary (m_add ops) x y | _, _ => bad_case end
  | 12%Z, [x; y] => match dmatrix x, dmatrix y with
                    | Some x, Some y => m_binary (m_sub ops) x y | _, _ => bad_case end
  | 13%Z, [x; SZ k; s] =>
      match dmatrix x, ndec ops s with
      | Some x, Some s => if ((0 <=? k) && (k <=? 3))%Z then m_unary (fun o => m_scalar ops k o s) x
                          else bad_case
      | _, _ => bad_case
      end
  | 15%Z, [x; y] => match dmatrix x, dmatrix y with
                    | Some x, Some y => m_binary (m_matmul ops) x y | _, _ => bad_case end
  | 16%Z, [x] => match dmatrix x with Some x => m_unary (m_neg ops) x | None => bad_case end
  | _, _ => bad_case
  end.
End Run.

Definition run_c03 (args : list sx) : sx :=
  match args with
  | SZ 30%Z :: _ => SL [SZ 1%Z]
  | SZ op :: SZ ty :: rest => with_ty3 ty (fun R ops => c03_run ops op rest)
  | _ => bad_case
  end.
