(* Case decoder / result encoder for property C12 (same language in harness/src/c12.rs and
   tools/props/c12.py).  Element type: integers (i64 on the Rust side).  The root is always
   Matrix::from_flat_row_major((rows, cols), data) with rows, cols >= 1.

     (12 1 rows cols (data) leaf (wrapper ...) (probe ...) (write ...))      a stack of views
        leaf:    (0)                 the matrix itself
                 (1 (rp) (cp) k)     part k of matrix.partition(&rp, &cp)
                 (2 r c k)           quadrant k (0 top_left 1 top_right 2 bottom_left
                                     3 bottom_right) of matrix.partition_quadrants(r, c)
        wrapper (applied in order, the last one is outermost):
                 (0 r0 rl c0 cl)     MatrixRange::from(v, (r0, rl), (c0, cl))   start, length
                 (1 a b c d)         MatrixRange::from(v, a..b, c..d)
                 (2 rr cc)           MatrixReverse::from(v, Reverse { rows: rr, columns: cc })
                 (3 n0 n1)           MatrixRefTensor::from(TensorRefMatrix::with_names(v, [n0, n1])?)
                 (4)                 MatrixRefTensor::from(TensorRefMatrix::from(v)?)
        probe:   (r c)          write: (r c x)
        result:  (2)                             partition panicked
                 (1 ((n0 rows) (n1 cols)))       a tensor wrapper was refused (InvalidShapeError)
                 (0 ((rows cols) (p ...) (p ...) (o ...) (x ...) (L Lref) ((p ...) (p ...))))
                    size; per probe p = () absent | (x) present | (0 0) panic through the SHARED
                    checked getter (try_get_reference); the view's row_major_iter as p's — the
                    iterator reads through get_reference_unchecked, so the model computes it with
                    Model/MatrixAccess.v `get_unchecked`; per write o = 0 written / 2 panicked
                    (MatrixView::set = try_get_reference_mut: `write_mut`); the root's data
                    afterwards; data_layout() of the view itself and as answered through `&S` /
                    `&mut S`: 0 RowMajor 1 ColumnMajor 2 Other 3 the call panicked; last: every
                    probe through the MUTABLE checked getter (try_get_reference_mut, `try_get_mut`)
                    and every cell of the view in row-major order through
                    get_reference_unchecked_mut (`get_unchecked_mut`)
     (12 2 rows cols (data) (rp) (cp))                   matrix.partition(&rp, &cp)
     (12 3 rows cols (data) r c)                         matrix.partition_quadrants(r, c)
        result:  (2)  or  (0 ((part ...) (x ...)))   part = ((rows cols) (p ...)) listing all its
                 cells in row-major order; then every cell of part k is overwritten with 1000 + k
                 through the part and the root's data is dumped
     (12 5 start (op ...) (rp) (cp))      the matrix a C11 history ends with (start and op as in
                 Run/RunC11.v, the object being reused after caught panics) is partitioned
        result:  (3) the constructor panicked, or (0 ((rows cols) R)) with R as for (12 2 ...)
     (12 6 term (wrapper ...) (probe ...) (write ...))    a stack over MatrixRefTensor::from(t) where
                 t is the 2-dimensional tensor view described by `term` in the language of
                 Run/RunC02.v (Tensor / TensorRefMatrix leaves; TensorRange, TensorMask, TensorIndex,
                 TensorExpansion, TensorRename, TensorReverse, TensorAccess, TensorTranspose,
                 TensorStack, TensorChain, Box / &mut); the root is the tensor view's leaf store
                 (the element of leaf id at offset k is id * 1000 + k, leaves in term order)
        result:  (1 error) | (2) first failing tensor constructor (payloads of Model/Views.v), then
                 as for (12 1 ...)
     (12 7 rows cols (data) ((rr cc) ...) (mop ...) (probe ...))   SOURCE-MUTATION HISTORY: one to three
                 nested MatrixReverse views (innermost first) over the matrix (borrowed `&mut` and
                 owned), wrapped in a MatrixView; the matrix is then changed THROUGH the view —
                 `view.source_ref_mut().source_ref_mut()...`, or taking the view apart with
                 `source()` and re-wrapping the same MatrixReverse object — by the C11 operations
                 mop = (0 r v) insert_row | (2 c v) insert_column | (4 r) remove_row | (5 c) remove_column
                 | (9) transpose_mut | (10 r c v) set, and the SAME view object is observed before and
                 after every operation.  The model re-evaluates the view term over the matrix as it
                 is NOW (adaptors keep their flags, nothing else).
        result:  (obs (flag obs) ...)   flag 0 done / 2 panicked (matrix unchanged);
                 obs = ((rows cols) (p ...) (p ...) ((p ...) (p ...))): size, probes through
                 try_get_reference, row_major_iter (get_reference_unchecked), probes through
                 try_get_reference_mut, every cell through get_reference_unchecked_mut *)
From Coq Require Import List ZArith NArith Bool.
From EasyML Require Import Base.Sx Model.Shape Model.Matrix Model.MatrixViews Model.MatrixAccess Model.MatrixHistory Run.RunC11.
From EasyML Require Model.Views Run.RunC02.
Import ListNotations.
Open Scope N_scope.

Inductive wrapper : Type :=
| WRange (r0 rl c0 cl : N)
| WStdRange (a b c d : N)
| WReverse (rr cc : bool)
| WTensorNames (n0 n1 : nat)
| WTensor.

Definition dwrapper (s : sx) : option wrapper :=
  match s with
  | SL [SZ 0%Z; a; b; c; d] => match dN a, dN b, dN c, dN d with
                               | Some a, Some b, Some c, Some d => Some (WRange a b c d)
                               | _, _, _, _ => None
                               end
  | SL [SZ 1%Z; a; b; c; d] => match dN a, dN b, dN c, dN d with
                               | Some a, Some b, Some c, Some d => Some (WStdRange a b c d)
                               | _, _, _, _ => None
                               end
  | SL [SZ 2%Z; a; b] => match dbool a, dbool b with
                         | Some a, Some b => Some (WReverse a b)
                         | _, _ => None
                         end
  | SL [SZ 3%Z; a; b] => match dnat a, dnat b with
                         | Some a, Some b => Some (WTensorNames a b)
                         | _, _ => None
                         end
  | SL [SZ 4%Z] => Some WTensor
  | _ => None
  end.

Definition apply_wrapper (v : mview) (w : wrapper) : outcome mview :=
  match w with
  | WRange r0 rl c0 cl => Ok (range_from v (mkIR r0 rl) (mkIR c0 cl))
  | WStdRange a b c d => Ok (range_from v (ir_of_range a b) (ir_of_range c d))
  | WReverse rr cc => Ok (VReverse rr cc v)
  | WTensorNames n0 n1 => via_tensor v n0 n1
  | WTensor => via_tensor v name_row name_column
  end.

Fixpoint apply_wrappers (v : mview) (ws : list wrapper) : outcome mview :=
  match ws with
  | [] => Ok v
  | w :: rest => obind (apply_wrapper v w) (fun v' => apply_wrappers v' rest)
  end.

(* None = not in the case language (k out of range) *)
Definition dleaf (rows cols : N) (s : sx) : option (outcome mview) :=
  match s with
  | SL [SZ 0%Z] => Some (Ok (VMatrix rows cols))
  | SL [SZ 1%Z; rp; cp; k] =>
      match dlist dN rp, dlist dN cp, dnat k with
      | Some rp, Some cp, Some k =>
          if Nat.ltb k ((length rp + 1) * (length cp + 1)) then
            Some (obind (partition rows cols rp cp)
                        (fun parts => match nth_error parts k with
                                      | Some p => Ok (VPart p)
                                      | None => Panic
                                      end))
          else None
      | _, _, _ => None
      end
  | SL [SZ 2%Z; r; c; k] =>
      match dN r, dN c, dnat k with
      | Some r, Some c, Some k =>
          if Nat.ltb k 4 then
            Some (obind (partition_quadrants rows cols r c)
                        (fun parts => match nth_error parts k with
                                      | Some p => Ok (VPart p)
                                      | None => Panic
                                      end))
          else None
      | _, _, _ => None
      end
  | _ => None
  end.

Definition sprobe (o : outcome (option Z)) : sx :=
  match o with
  | Ok None => SL []
  | Ok (Some x) => SL [SZ x]
  | _ => SL [SZ 0; SZ 0]
  end.

Definition probe_all (data : list Z) (v : mview) (ps : list (N * N)) : sx :=
  slist (fun p => sprobe (read data (try_get v (fst p) (snd p)))) ps.

(* the three other access forms, each through its own transcription (Model/MatrixAccess.v) *)
Definition probe_all_mut (data : list Z) (v : mview) (ps : list (N * N)) : sx :=
  slist (fun p => sprobe (read data (try_get_mut v (fst p) (snd p)))) ps.
Definition probe_all_unchecked (data : list Z) (v : mview) (ps : list (N * N)) : sx :=
  slist (fun p => sprobe (read_unchecked data (get_unchecked v (fst p) (snd p)))) ps.
Definition probe_all_unchecked_mut (data : list Z) (v : mview) (ps : list (N * N)) : sx :=
  slist (fun p => sprobe (read_unchecked data (get_unchecked_mut v (fst p) (snd p)))) ps.

Fixpoint do_writes (data : list Z) (v : mview) (ws : list (N * N * Z)) : list bool * list Z :=
  match ws with
  | [] => ([], data)
  | (r, c, x) :: rest =>
      let '(data', fine) := write_mut data v r c x in
      let '(os, final) := do_writes data' v rest in (fine :: os, final)
  end.

Definition sflag (b : bool) : sx := SZ (if b then 0 else 2)%Z.

Definition slayout (l : mlayout) : sx :=
  SZ (match l with LRowMajor => 0 | LColumnMajor => 1 | LOther => 2 | LPanics => 3 end)%Z.

Definition c12_view (data : list Z) (leaf : outcome mview) (ws : list wrapper)
           (probes : list (N * N)) (writes : list (N * N * Z)) : sx :=
  soutcome (fun v =>
    let '(os, final) := do_writes data v writes in
    SL [ SL [sN (view_rows v); sN (view_cols v)];
         probe_all data v probes;
         probe_all_unchecked data v (grid (view_rows v) (view_cols v));
         slist sflag os;
         slist SZ final;
         SL [slayout (data_layout v); slayout (data_layout_through_reference v)];
         SL [probe_all_mut data v probes;
             probe_all_unchecked_mut data v (grid (view_rows v) (view_cols v))] ])
    (obind leaf (fun v => apply_wrappers v ws)).

(* overwrite every cell of part k with 1000 + k *)
Fixpoint fill_parts (data : list Z) (parts : list part) (k : Z) : list Z :=
  match parts with
  | [] => data
  | p :: rest =>
      let cells := map (fun rc => (fst rc, snd rc, (1000 + k)%Z)) (grid (p_rows p) (p_cols p)) in
      fill_parts (snd (do_writes data (VPart p) cells)) rest (k + 1)%Z
  end.

Definition c12_parts (data : list Z) (parts : outcome (list part)) : sx :=
  soutcome (fun ps =>
    SL [ slist (fun p => SL [ SL [sN (p_rows p); sN (p_cols p)];
                              probe_all data (VPart p) (grid (p_rows p) (p_cols p)) ]) ps;
         slist SZ (fill_parts data ps 0) ])
    parts.

(* ---- op 7: the same view object over a source that is mutated through source_ref_mut ---- *)
Definition c12_obs (data : list Z) (v : mview) (probes : list (N * N)) : sx :=
  SL [ SL [sN (view_rows v); sN (view_cols v)];
       probe_all data v probes;
       probe_all_unchecked data v (grid (view_rows v) (view_cols v));
       SL [probe_all_mut data v probes;
           probe_all_unchecked_mut data v (grid (view_rows v) (view_cols v))] ].

Definition dmop (s : sx) : option (op Z) :=
  match s with
  | SL (SZ t :: _) =>
      if (t =? 0)%Z || (t =? 2)%Z || (t =? 4)%Z || (t =? 5)%Z || (t =? 9)%Z || (t =? 10)%Z
      then dop s else None
  | _ => None
  end.

Definition c12_source_history (m0 : matrix Z) (revs : list (bool * bool)) (ops : list (op Z))
           (probes : list (N * N)) : sx :=
  SL (c12_obs (m_data m0) (rev_stack m0 revs) probes ::
      map (fun r : matrix Z * bool =>
             SL [sflag (snd r); c12_obs (m_data (fst r)) (rev_stack (fst r) revs) probes])
          (impl_trace m0 ops)).

Definition dprobe (s : sx) : option (N * N) := dpair dN dN s.
Definition dwrite (s : sx) : option (N * N * Z) :=
  match s with
  | SL [r; c; x] => match dN r, dN c, dZ x with
                    | Some r, Some c, Some x => Some (r, c, x)
                    | _, _, _ => None
                    end
  | _ => None
  end.

Definition root_ok (rows cols : N) (data : list Z) : bool :=
  (1 <=? rows) && (1 <=? cols) && (rows <=? 64) && (cols <=? 64)
  && (rows * cols =? N.of_nat (length data)).

Definition run_c12 (args : list sx) : sx :=
  match args with
  | [SZ 1%Z; rows; cols; data; leaf; ws; probes; writes] =>
      match dN rows, dN cols, dlist dZ data, dlist dwrapper ws, dlist dprobe probes,
            dlist dwrite writes with
      | Some rows, Some cols, Some data, Some ws, Some probes, Some writes =>
          if root_ok rows cols data then
            match dleaf rows cols leaf with
            | Some leaf => c12_view data leaf ws probes writes
            | None => bad_case
            end
          else bad_case
      | _, _, _, _, _, _ => bad_case
      end
  | [SZ 2%Z; rows; cols; data; rp; cp] =>
      match dN rows, dN cols, dlist dZ data, dlist dN rp, dlist dN cp with
      | Some rows, Some cols, Some data, Some rp, Some cp =>
          if root_ok rows cols data then c12_parts data (partition rows cols rp cp) else bad_case
      | _, _, _, _, _ => bad_case
      end
  | [SZ 3%Z; rows; cols; data; r; c] =>
      match dN rows, dN cols, dlist dZ data, dN r, dN c with
      | Some rows, Some cols, Some data, Some r, Some c =>
          if root_ok rows cols data then c12_parts data (partition_quadrants rows cols r c)
          else bad_case
      | _, _, _, _, _ => bad_case
      end
  | [SZ 5%Z; start; ops; rp; cp] =>
      match dstart start, dlist dxop ops, dlist dN rp, dlist dN cp with
      | Some first, Some ops, Some rp, Some cp =>
          match first with
          | Ok m0 =>
              let m := fold_left (fun s o => fst (xstep s o)) ops m0 in
              SL [SZ 0; SL [SL [sN (m_rows m); sN (m_cols m)];
                            c12_parts (m_data m) (partition (m_rows m) (m_cols m) rp cp)]]
          | _ => SL [SZ 3]
          end
      | _, _, _, _ => bad_case
      end
  | [SZ 7%Z; rows; cols; data; revs; ops; probes] =>
      match dN rows, dN cols, dlist dZ data, dlist (dpair dbool dbool) revs, dlist dmop ops,
            dlist dprobe probes with
      | Some rows, Some cols, Some data, Some revs, Some ops, Some probes =>
          if root_ok rows cols data && (1 <=? length revs)%nat && (length revs <=? 3)%nat then
            match from_flat_row_major (rows, cols) data with
            | Ok m0 => c12_source_history m0 revs ops probes
            | _ => bad_case
            end
          else bad_case
      | _, _, _, _, _, _ => bad_case
      end
  | [SZ 6%Z; term; ws; probes; writes] =>
      match RunC02.dview 40 term, dlist dwrapper ws, dlist dprobe probes, dlist dwrite writes with
      | Some tv, Some ws, Some probes, Some writes =>
          if RunC02.nodup_b (RunC02.v_leaf_ids tv) then
            match Views.v_ctor tv with
            | Ok c => match over_tensor c with
                      | Some leaf => c12_view (tensor_root c) (Ok leaf) ws probes writes
                      | None => bad_case
                      end
            | Err e => SL [SZ 1; e]
            | Panic => SL [SZ 2]
            end
          else bad_case
      | _, _, _, _ => bad_case
      end
  | _ => bad_case
  end.
