(* Model-side runner for C18.
     (18 1 ty layout prog)   the multi-tape machine of Model/Determinism.v over element type ty
                             (0 = Rat, 1 = Fp), run with the REFERENCE same-list test (tape
                             identity); `layout` selects how the harness places the tapes in memory
                             (which addresses they get) and is ignored here -- that it may be
                             ignored is theorem C18_address_parametric.
        instr ::= (0) new tape | (1 t v) variable on tape t | (2 v) constant | (3 a b) reg a + reg b
                | (4 a b) reg a * reg b | (5 (regs...)) RecordTensor::from_iter | (6 t) clear tape t
                | (7 a) reg a .derivatives()
        result: (0 (event...)) with
        event ::= (0 hist idx val) record produced, hist = () | (t)   | (2) panic | (0) unit
                | (3 hist ((val idx)...)) collected | (4 first later) inconsistent history
                | (5) empty | (6 (val...)) derivatives
   The cross-configuration digests ((18 2 ..) lines) never reach the model:
   tools/props/c18.py compares them between executions of the harness.

     (18 3 kind ...)         FORMATTED OUTPUT against Model/Format.v; every result is (0 text) with
                             text = the list of character codes (bytes; everything is ASCII) of
                             format!("{}", x) when prec = () and of format!("{:.k}", x) when prec = (k).
                             el: 0 = i64 elements, 1 = the harness-local Tok(i64) (prints "<v>p<k>"
                             under a precision k).  Data are row-major.
        (18 3 0 el prec rows cols (v...))          Matrix / MatrixView Display
        (18 3 1 el prec ((name len)...) (v...))    Tensor / TensorView Display, D <= 3
        (18 3 2 el prec ((name len)...) (v...) swap)   TensorAccess Display (index_by; D <= 2; swap /= 0
                                                   and D = 2: the two dimensions exchanged), incl. the
                                                   "Data Layout = Linear([..])" line
        (18 3 3 el prec v)                         Record / Trace Display (number only, precision not forwarded)
        (18 3 4 prec n (l...) (d...))              LDLTDecomposition<i64> Display (from_unchecked)
        (18 3 5 prec rows cols (v...))             RecordMatrix<i64> and RecordTensor<i64, 2> (names d0 d1)
                                                   Display: result (0 (text_matrix text_tensor)) *)
From Coq Require Import List ZArith NArith Bool Arith.
From EasyML Require Import Base.Sx Model.Num Model.Tape Model.Determinism Model.Format.
Import ListNotations.

Section Run.
Context {R : Type} (ops : numops R).

Definition dinstr (s : sx) : option (instr R) :=
  match s with
  | SL [SZ 0%Z] => Some INewTape
  | SL [SZ 1%Z; t; v] =>
      match dnat t, ndec ops v with Some t, Some v => Some (IVar t v) | _, _ => None end
  | SL [SZ 2%Z; v] => option_map (@IConst R) (ndec ops v)
  | SL [SZ 3%Z; a; b] =>
      match dnat a, dnat b with Some a, Some b => Some (IAdd a b) | _, _ => None end
  | SL [SZ 4%Z; a; b] =>
      match dnat a, dnat b with Some a, Some b => Some (IMul a b) | _, _ => None end
  | SL [SZ 5%Z; rs] => option_map (@ICollect R) (dlist dnat rs)
  | SL [SZ 6%Z; t] => option_map (@IClear R) (dnat t)
  | SL [SZ 7%Z; a] => option_map (@IDeriv R) (dnat a)
  | _ => None
  end.

Definition shist (h : option tid) : sx := sopt snat h.

Definition sevent (e : event R) : sx :=
  match e with
  | ERec r => SL [SZ 0%Z; shist (r_hist r); snat (r_idx r); nenc ops (r_val r)]
  | EPanic => SL [SZ 2%Z]
  | EUnit => SL [SZ 0%Z]
  | ECollected h ns => SL [SZ 3%Z; shist h; slist (fun p => SL [nenc ops (fst p); snat (snd p)]) ns]
  | EInconsistent f l => SL [SZ 4%Z; shist f; shist l]
  | EEmpty => SL [SZ 5%Z]
  | EDerivs d => SL [SZ 6%Z; slist (nenc ops) d]
  | EBad => bad_case
  end.

Definition is_bad (e : event R) : bool := match e with EBad => true | _ => false end.

Definition c18_machine (prog : sx) : sx :=
  match dlist dinstr prog with
  | None => bad_case
  | Some p =>
      let es := snd (machine_run ops sl_id (machine_init (R:=R)) p) in
      if existsb is_bad es then bad_case else SL [SZ 0%Z; slist sevent es]
  end.
End Run.

(* ---------------------------------------------------------------- (18 3 ..) formatted output *)
Definition delty (s : sx) : option elty :=
  match s with SZ 0%Z => Some ElInt | SZ 1%Z => Some ElTok | _ => None end.
Definition dprec : sx -> option (option N) := dopt dN.
Definition stext (t : text) : sx := SL [SZ 0%Z; slist sN t].
Definition dshape : sx -> option (list (nat * nat)) := dlist (dpair dnat dnat).

Fixpoint distinct (l : list nat) : bool :=
  match l with [] => true | x :: r => negb (existsb (Nat.eqb x) r) && distinct r end.
Definition valid_shape (sh : list (nat * nat)) : bool :=
  forallb (fun p => Nat.ltb 0 (snd p)) sh && distinct (map fst sh).
Definition volume (sh : list (nat * nat)) : nat := fold_left Nat.mul (map snd sh) 1.

Definition c18_format (args : list sx) : sx :=
  match args with
  | [SZ 0%Z; el; prec; rows; cols; data] =>
      match delty el, dprec prec, dnat rows, dnat cols, dlist dZ data with
      | Some el, Some prec, Some rows, Some cols, Some data =>
          if Nat.ltb 0 rows && Nat.ltb 0 cols && Nat.eqb (length data) (rows * cols)
          then stext (fmt_matrix (render el) prec rows cols (flat2 0%Z cols data))
          else bad_case
      | _, _, _, _, _ => bad_case
      end
  | [SZ 1%Z; el; prec; shape; data] =>
      match delty el, dprec prec, dshape shape, dlist dZ data with
      | Some el, Some prec, Some sh, Some data =>
          if valid_shape sh && Nat.eqb (length data) (volume sh)
          then match fmt_tensor (render el) prec sh (flatn 0%Z (map snd sh) data) with
               | Some t => stext t | None => bad_case end
          else bad_case
      | _, _, _, _ => bad_case
      end
  | [SZ 2%Z; el; prec; shape; data; swap] =>
      match delty el, dprec prec, dshape shape, dlist dZ data, dbool swap with
      | Some el, Some prec, Some sh, Some data, Some swap =>
          if valid_shape sh && Nat.eqb (length data) (volume sh) && Nat.leb (length sh) 2
          then let src := flatn 0%Z (map snd sh) data in
               let '(vsh, get) :=
                 match sh, swap with
                 | [a; b], true => ([b; a], fun idx => match idx with [i; j] => src [j; i] | _ => src idx end)
                 | _, _ => (sh, src)
                 end in
               match fmt_access (render el) prec vsh get (map fst sh) with
               | Some t => stext t | None => bad_case end
          else bad_case
      | _, _, _, _, _ => bad_case
      end
  | [SZ 3%Z; el; prec; v] =>
      match delty el, dprec prec, dZ v with
      | Some el, Some prec, Some v => stext (fmt_number (render el) prec v)
      | _, _, _ => bad_case
      end
  | [SZ 4%Z; prec; n; lm; dm] =>
      match dprec prec, dnat n, dlist dZ lm, dlist dZ dm with
      | Some prec, Some n, Some lm, Some dm =>
          if Nat.ltb 0 n && Nat.eqb (length lm) (n * n) && Nat.eqb (length dm) (n * n)
          then stext (fmt_ldlt (render ElInt) prec n (flat2 0%Z n lm) (flat2 0%Z n dm))
          else bad_case
      | _, _, _, _ => bad_case
      end
  | [SZ 5%Z; prec; rows; cols; data] =>
      match dprec prec, dnat rows, dnat cols, dlist dZ data with
      | Some prec, Some rows, Some cols, Some data =>
          if Nat.ltb 0 rows && Nat.ltb 0 cols && Nat.eqb (length data) (rows * cols)
          then match fmt_record_tensor (render ElInt) prec [(0, rows); (1, cols)] (flatn 0%Z [rows; cols] data) with
               | Some tx => SL [SZ 0%Z; SL [slist sN (fmt_record_matrix (render ElInt) prec rows cols (flat2 0%Z cols data));
                                            slist sN tx]]
               | None => bad_case
               end
          else bad_case
      | _, _, _, _ => bad_case
      end
  | _ => bad_case
  end.

Definition run_c18 (args : list sx) : sx :=
  match args with
  | [SZ 1%Z; SZ ty; SZ _layout; prog] => with_ty ty (fun R ops => c18_machine ops prog)
  | SZ 3%Z :: rest => c18_format rest
  | _ => bad_case
  end.
