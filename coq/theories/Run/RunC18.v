(* Model-side runner for C18.
     (18 1 ty layout prog)   the multi-tape machine of Model/Determinism.v over element type ty
                             (0 = Rat, 1 = Fp), run with the REFERENCE same-list test (tape
                             identity); `layout` selects how the harness places the tapes in memory
                             (which addresses they get) and is ignored here -- that it may be
                             ignored is theorem C18_address_parametric.
        instr ::= (0) new tape | (1 t v) variable on tape t | (2 v) constant | (3 a b) reg a + reg b
                | (4 a b) reg a * reg b | (5 (regs...)) RecordTensor::from_iter | (6 t) clear tape t
                | (7 a) reg a .derivatives()
        result: (0 (event...)) with
        event ::= (0 hist idx val) record produced, hist = () | (t)   | (2) panic | (0) unit
                | (3 hist ((val idx)...)) collected | (4 first later) inconsistent history
                | (5) empty | (6 (val...)) derivatives
   The cross-configuration digests ((18 2 ..) lines) never reach the model:
   tools/props/c18.py compares them between executions of the harness.

     (18 3 kind ...)         FORMATTED OUTPUT against Model/Format.v; every result is (0 text) with
                             text = the list of character codes (bytes; everything is ASCII) of
                             format!("{}", x) when prec = () and of format!("{:.k}", x) when prec = (k).
                             el: 0 = i64 elements, 1 = the harness-local Tok(i64) (prints "<v>p<k>"
                             under a precision k).  Data are row-major.
        (18 3 0 el prec rows cols (v...))          Matrix / MatrixView Display
        (18 3 1 el prec ((name len)...) (v...))    Tensor / TensorView Display, D <= 3
        (18 3 2 el prec ((name len)...) (v...) swap)   TensorAccess Display (index_by; D <= 2; swap /= 0
                                                   and D = 2: the two dimensions exchanged), incl. the
                                                   "Data Layout = Linear([..])" line
        (18 3 3 el prec v)                         Record / Trace Display (number only, precision not forwarded)
        (18 3 4 prec n (l...) (d...))              LDLTDecomposition<i64> Display (from_unchecked)
        (18 3 5 prec rows cols (v...))             RecordMatrix<i64> and RecordTensor<i64, 2> (names d0 d1)
                                                   Display: result (0 (text_matrix text_tensor))
      Wave 2: kinds 1 and 2 accept every D <= 6 (the general arm of tensors/display.rs; an access with
      D > 2 keeps the tensor's order), and
        (18 3 6 form err)      an ERROR value rendered as form 0 = Display "{}", 1 = "{:?}", 2 = "{:#?}"
            shape ::= ((name len)...)  (ANY names / lengths, 0 and 2^64-1 included)   hist ::= () | (k): a tape with k variables
            err ::= (0 shape)                             tensors::InvalidShapeError
                  | (1 (provided...) (valid...))          tensors::InvalidDimensionsError
                  | (2 shape (requested...))              tensors::indexing::InvalidDimensionsError
                  | (3 irv)    irv ::= (0 shape) | (1 (provided...) (valid...))    IndexRangeValidationError
                  | (4 0 shape (r...)) | (4 1 irv)   r ::= () | ((start length))  StrictIndexRangeValidationError
                  | (5)                                   ScalarConversionError
                  | (6 0 shape len) | (6 1) | (6 2 hist hist)   InvalidRecordIteratorError<i64, D>
                  | (7 hist hist)                         InconsistentHistory<i64>
                  | (8 wrong ((name len)) (mean...) ((name len) (name len)) (cov...))   MultivariateGaussianError<i64>
        (18 3 7 form val)      derived Debug of plain data, form 1 = "{:?}", 2 = "{:#?}"
            val ::= (0 shape (v...)) Tensor<i64, D> | (1 rows cols (v...)) Matrix<i64> | (2 start length) tensors IndexRange
                  | (3 start length) matrices IndexRange | (4 (0 (names...))) | (4 (1)) | (4 (2)) DataLayout<D>
                  | (5 shape) [(Dimension, usize); D] | (6 (names...)) [Dimension; D]
        (18 3 8 prec 0 qrows qcols (q...) rrows rcols (r...))   QRDecomposition<i64> Display
        (18 3 8 prec 1 n (l...) (d...))            LDLTDecompositionTensor<i64> Display (names d0 d1)
        (18 3 8 prec 2 qrows qcols (q...) rrows rcols (r...))   QRDecompositionTensor<i64> Display (names d0 d1)
        (18 3 8 prec 3 el rows cols (v...) r c)    MatrixQuadrants Display of partition_quadrants(r, c), 0 < r < rows, 0 < c < cols
                                                   (four non-empty parts) *)
From Coq Require Import List ZArith NArith Bool Arith.
From EasyML Require Import Base.Sx Model.Num Model.Tape Model.Determinism Model.Format Model.FormatDebug.
Import ListNotations.

Section Run.
Context {R : Type} (ops : numops R).

Definition dinstr (s : sx) : option (instr R) :=
  match s with
  | SL [SZ 0%Z] => Some INewTape
  | SL [SZ 1%Z; t; v] =>
      match dnat t, ndec ops v with Some t, Some v => Some (IVar t v) | _, _ => None end
  | SL [SZ 2%Z; v] => option_map (@IConst R) (ndec ops v)
  | SL [SZ 3%Z; a; b] =>
      match dnat a, dnat b with Some a, Some b => Some (IAdd a b) | _, _ => None end
  | SL [SZ 4%Z; a; b] =>
      match dnat a, dnat b with Some a, Some b => Some (IMul a b) | _, _ => None end
  | SL [SZ 5%Z; rs] => option_map (@ICollect R) (dlist dnat rs)
  | SL [SZ 6%Z; t] => option_map (@IClear R) (dnat t)
  | SL [SZ 7%Z; a] => option_map (@IDeriv R) (dnat a)
  | _ => None
  end.

Definition shist (h : option tid) : sx := sopt snat h.

Definition sevent (e : event R) : sx :=
  match e with
  | ERec r => SL [SZ 0%Z; shist (r_hist r); snat (r_idx r); nenc ops (r_val r)]
  | EPanic => SL [SZ 2%Z]
  | EUnit => SL [SZ 0%Z]
  | ECollected h ns => SL [SZ 3%Z; shist h; slist (fun p => SL [nenc ops (fst p); snat (snd p)]) ns]
  | EInconsistent f l => SL [SZ 4%Z; shist f; shist l]
  | EEmpty => SL [SZ 5%Z]
  | EDerivs d => SL [SZ 6%Z; slist (nenc ops) d]
  | EBad => bad_case
  end.

Definition is_bad (e : event R) : bool := match e with EBad => true | _ => false end.

Definition c18_machine (prog : sx) : sx :=
  match dlist dinstr prog with
  | None => bad_case
  | Some p =>
      let es := snd (machine_run ops sl_id (machine_init (R:=R)) p) in
      if existsb is_bad es then bad_case else SL [SZ 0%Z; slist sevent es]
  end.
End Run.

(* ---------------------------------------------------------------- (18 3 ..) formatted output *)
Definition delty (s : sx) : option elty :=
  match s with SZ 0%Z => Some ElInt | SZ 1%Z => Some ElTok | _ => None end.
Definition dprec : sx -> option (option N) := dopt dN.
Definition stext (t : text) : sx := SL [SZ 0%Z; slist sN t].
Definition dshape : sx -> option (list (nat * nat)) := dlist (dpair dnat dnat).

Fixpoint distinct (l : list nat) : bool :=
  match l with [] => true | x :: r => negb (existsb (Nat.eqb x) r) && distinct r end.
Definition valid_shape (sh : list (nat * nat)) : bool :=
  forallb (fun p => Nat.ltb 0 (snd p)) sh && distinct (map fst sh).
Definition volume (sh : list (nat * nat)) : nat := fold_left Nat.mul (map snd sh) 1.

(* ---- wave 2: error values, Debug of plain data, decompositions *)
Definition dnshape : sx -> option (list (nat * N)) := dlist (dpair dnat dN).
Definition dhist : sx -> option (option nat) := dopt dnat.

Inductive err_v :=
| EShape (sh : list (nat * N))
| EDims (provided valid : list nat)
| EAccess (actual : list (nat * N)) (requested : list nat)
| EIrv (e : irv_error)
| EStrict (e : strict_error)
| EScalar
| ERie (e : rec_iter_error)
| EIncons (f l : option nat)
| EMvg (e : mvg_payload).

Definition dirv (s : sx) : option irv_error :=
  match s with
  | SL [SZ 0%Z; sh] => option_map IrvShape (dnshape sh)
  | SL [SZ 1%Z; p; v] =>
      match dlist dnat p, dlist dnat v with Some p, Some v => Some (IrvDims p v) | _, _ => None end
  | _ => None
  end.

Definition derr (s : sx) : option err_v :=
  match s with
  | SL [SZ 0%Z; sh] => option_map EShape (dnshape sh)
  | SL [SZ 1%Z; p; v] =>
      match dlist dnat p, dlist dnat v with Some p, Some v => Some (EDims p v) | _, _ => None end
  | SL [SZ 2%Z; sh; r] =>
      match dnshape sh, dlist dnat r with
      | Some sh, Some r => if Nat.eqb (length sh) (length r) then Some (EAccess sh r) else None
      | _, _ => None
      end
  | SL [SZ 3%Z; e] => option_map EIrv (dirv e)
  | SL [SZ 4%Z; SZ 0%Z; sh; rs] =>
      match dnshape sh, dlist (dopt (dpair dN dN)) rs with
      | Some sh, Some rs => if Nat.eqb (length sh) (length rs) then Some (EStrict (StrictOutside sh rs)) else None
      | _, _ => None
      end
  | SL [SZ 4%Z; SZ 1%Z; e] => option_map (fun e => EStrict (StrictError e)) (dirv e)
  | SL [SZ 5%Z] => Some EScalar
  | SL [SZ 6%Z; SZ 0%Z; sh; len] =>
      match dnshape sh, dN len with Some sh, Some len => Some (ERie (RieShape sh len)) | _, _ => None end
  | SL [SZ 6%Z; SZ 1%Z] => Some (ERie RieEmpty)
  | SL [SZ 6%Z; SZ 2%Z; f; l] =>
      match dhist f, dhist l with Some f, Some l => Some (ERie (RieHistory f l)) | _, _ => None end
  | SL [SZ 7%Z; f; l] =>
      match dhist f, dhist l with Some f, Some l => Some (EIncons f l) | _, _ => None end
  | SL [SZ 8%Z; w; msh; m; csh; c] =>
      match dbool w, dshape msh, dlist dZ m, dshape csh, dlist dZ c with
      | Some w, Some msh, Some m, Some csh, Some c =>
          if valid_shape msh && valid_shape csh && Nat.eqb (length msh) 1 && Nat.eqb (length csh) 2
             && Nat.eqb (length m) (volume msh) && Nat.eqb (length c) (volume csh)
          then Some (EMvg {| mg_wrong_length := w;
                             mg_mean_shape := map (fun p => (fst p, N.of_nat (snd p))) msh; mg_mean := m;
                             mg_cov_shape := map (fun p => (fst p, N.of_nat (snd p))) csh; mg_cov := c |})
          else None
      | _, _, _, _, _ => None
      end
  | _ => None
  end.

Definition err_display (e : err_v) : text :=
  match e with
  | EShape sh => fmt_err_shape sh
  | EDims p v => fmt_err_dims p v
  | EAccess a r => fmt_err_access a r
  | EIrv e => fmt_err_irv e
  | EStrict e => fmt_err_strict e
  | EScalar => fmt_err_scalar
  | ERie e => fmt_err_rie e
  | EIncons f l => fmt_err_inconsistent f l
  | EMvg e => fmt_err_mvg e
  end.

Definition err_debug (e : err_v) : dbg :=
  match e with
  | EShape sh => d_invalid_shape sh
  | EDims p v => d_invalid_dims p v
  | EAccess a r => d_invalid_access a r
  | EIrv e => d_irv e
  | EStrict e => d_strict e
  | EScalar => DAtom n_ScalarConversionError
  | ERie e => d_rie e
  | EIncons f l => d_inconsistent f l
  | EMvg e => d_mvg e
  end.

Definition dval (s : sx) : option dbg :=
  match s with
  | SL [SZ 0%Z; sh; data] =>
      match dshape sh, dlist dZ data with
      | Some sh, Some data =>
          if valid_shape sh && Nat.eqb (length data) (volume sh)
          then Some (d_tensor (map (fun p => (fst p, N.of_nat (snd p))) sh) data) else None
      | _, _ => None
      end
  | SL [SZ 1%Z; rows; cols; data] =>
      match dnat rows, dnat cols, dlist dZ data with
      | Some rows, Some cols, Some data =>
          if Nat.ltb 0 rows && Nat.ltb 0 cols && Nat.eqb (length data) (rows * cols)
          then Some (d_matrix (N.of_nat rows) (N.of_nat cols) data) else None
      | _, _, _ => None
      end
  | SL [SZ 2%Z; a; b] | SL [SZ 3%Z; a; b] =>
      match dN a, dN b with Some a, Some b => Some (d_index_range (a, b)) | _, _ => None end
  | SL [SZ 4%Z; SL [SZ 0%Z; ns]] => option_map (fun ns => d_layout (LayLinear ns)) (dlist dnat ns)
  | SL [SZ 4%Z; SL [SZ 1%Z]] => Some (d_layout LayNonLinear)
  | SL [SZ 4%Z; SL [SZ 2%Z]] => Some (d_layout LayOther)
  | SL [SZ 5%Z; sh] => option_map d_shape (dnshape sh)
  | SL [SZ 6%Z; ns] => option_map d_names (dlist dnat ns)
  | _ => None
  end.

Definition sub2 (dflt : Z) (cols : nat) (data : list Z) (r0 c0 : nat) (r c : nat) : Z :=
  flat2 dflt cols data (r0 + r) (c0 + c).

Definition c18_decomp (prec : option N) (rest : list sx) : sx :=
  match rest with
  | [SZ 0%Z; qr; qc; q; rr; rc; r] =>
      match dnat qr, dnat qc, dlist dZ q, dnat rr, dnat rc, dlist dZ r with
      | Some qr, Some qc, Some q, Some rr, Some rc, Some r =>
          if Nat.ltb 0 qr && Nat.ltb 0 qc && Nat.ltb 0 rr && Nat.ltb 0 rc
             && Nat.eqb (length q) (qr * qc) && Nat.eqb (length r) (rr * rc)
          then stext (fmt_qr (render ElInt) prec qr qc (flat2 0%Z qc q) rr rc (flat2 0%Z rc r))
          else bad_case
      | _, _, _, _, _, _ => bad_case
      end
  | [SZ 1%Z; n; lm; dm] =>
      match dnat n, dlist dZ lm, dlist dZ dm with
      | Some n, Some lm, Some dm =>
          if Nat.ltb 0 n && Nat.eqb (length lm) (n * n) && Nat.eqb (length dm) (n * n)
          then match fmt_two_tensors (render ElInt) prec t_l t_d [(0, n); (1, n)] (flatn 0%Z [n; n] lm)
                                     [(0, n); (1, n)] (flatn 0%Z [n; n] dm) with
               | Some t => stext t | None => bad_case end
          else bad_case
      | _, _, _ => bad_case
      end
  | [SZ 2%Z; qr; qc; q; rr; rc; r] =>
      match dnat qr, dnat qc, dlist dZ q, dnat rr, dnat rc, dlist dZ r with
      | Some qr, Some qc, Some q, Some rr, Some rc, Some r =>
          if Nat.ltb 0 qr && Nat.ltb 0 qc && Nat.ltb 0 rr && Nat.ltb 0 rc
             && Nat.eqb (length q) (qr * qc) && Nat.eqb (length r) (rr * rc)
          then match fmt_two_tensors (render ElInt) prec t_q t_r [(0, qr); (1, qc)] (flatn 0%Z [qr; qc] q)
                                     [(0, rr); (1, rc)] (flatn 0%Z [rr; rc] r) with
               | Some t => stext t | None => bad_case end
          else bad_case
      | _, _, _, _, _, _ => bad_case
      end
  | [SZ 3%Z; el; rows; cols; data; r; c] =>
      match delty el, dnat rows, dnat cols, dlist dZ data, dnat r, dnat c with
      | Some el, Some rows, Some cols, Some data, Some r, Some c =>
          if Nat.ltb 0 rows && Nat.ltb 0 cols && Nat.eqb (length data) (rows * cols)
             && Nat.ltb 0 r && Nat.ltb r rows && Nat.ltb 0 c && Nat.ltb c cols
          then let part r0 c0 nr nc := fmt_matrix (render el) None nr nc (sub2 0%Z cols data r0 c0) in
               stext (fmt_quadrants (render el) prec (part 0 0 r c) (part 0 c r (cols - c))
                                    (part r 0 (rows - r) c) (part r c (rows - r) (cols - c)))
          else bad_case
      | _, _, _, _, _, _ => bad_case
      end
  | _ => bad_case
  end.

Definition c18_format (args : list sx) : sx :=
  match args with
  | [SZ 0%Z; el; prec; rows; cols; data] =>
      match delty el, dprec prec, dnat rows, dnat cols, dlist dZ data with
      | Some el, Some prec, Some rows, Some cols, Some data =>
          if Nat.ltb 0 rows && Nat.ltb 0 cols && Nat.eqb (length data) (rows * cols)
          then stext (fmt_matrix (render el) prec rows cols (flat2 0%Z cols data))
          else bad_case
      | _, _, _, _, _ => bad_case
      end
  | [SZ 1%Z; el; prec; shape; data] =>
      match delty el, dprec prec, dshape shape, dlist dZ data with
      | Some el, Some prec, Some sh, Some data =>
          if valid_shape sh && Nat.eqb (length data) (volume sh) && Nat.leb (length sh) 6
          then match fmt_tensor (render el) prec sh (flatn 0%Z (map snd sh) data) with
               | Some t => stext t | None => bad_case end
          else bad_case
      | _, _, _, _ => bad_case
      end
  | [SZ 2%Z; el; prec; shape; data; swap] =>
      match delty el, dprec prec, dshape shape, dlist dZ data, dbool swap with
      | Some el, Some prec, Some sh, Some data, Some swap =>
          if valid_shape sh && Nat.eqb (length data) (volume sh) && Nat.leb (length sh) 6
          then let src := flatn 0%Z (map snd sh) data in
               let '(vsh, get) :=
                 match sh, swap with
                 | [a; b], true => ([b; a], fun idx => match idx with [i; j] => src [j; i] | _ => src idx end)
                 | _, _ => (sh, src)
                 end in
               match fmt_access (render el) prec vsh get (map fst sh) with
               | Some t => stext t | None => bad_case end
          else bad_case
      | _, _, _, _, _ => bad_case
      end
  | [SZ 3%Z; el; prec; v] =>
      match delty el, dprec prec, dZ v with
      | Some el, Some prec, Some v => stext (fmt_number (render el) prec v)
      | _, _, _ => bad_case
      end
  | [SZ 4%Z; prec; n; lm; dm] =>
      match dprec prec, dnat n, dlist dZ lm, dlist dZ dm with
      | Some prec, Some n, Some lm, Some dm =>
          if Nat.ltb 0 n && Nat.eqb (length lm) (n * n) && Nat.eqb (length dm) (n * n)
          then stext (fmt_ldlt (render ElInt) prec n (flat2 0%Z n lm) (flat2 0%Z n dm))
          else bad_case
      | _, _, _, _ => bad_case
      end
  | [SZ 5%Z; prec; rows; cols; data] =>
      match dprec prec, dnat rows, dnat cols, dlist dZ data with
      | Some prec, Some rows, Some cols, Some data =>
          if Nat.ltb 0 rows && Nat.ltb 0 cols && Nat.eqb (length data) (rows * cols)
          then match fmt_record_tensor (render ElInt) prec [(0, rows); (1, cols)] (flatn 0%Z [rows; cols] data) with
               | Some tx => SL [SZ 0%Z; SL [slist sN (fmt_record_matrix (render ElInt) prec rows cols (flat2 0%Z cols data));
                                            slist sN tx]]
               | None => bad_case
               end
          else bad_case
      | _, _, _, _ => bad_case
      end
  | [SZ 6%Z; form; e] =>
      match dnat form, derr e with
      | Some form, Some e =>
          match form with
          | 0 => stext (err_display e)
          | 1 => stext (dbg_c (err_debug e))
          | 2 => stext (dbg_p (err_debug e))
          | _ => bad_case
          end
      | _, _ => bad_case
      end
  | [SZ 7%Z; form; v] =>
      match dnat form, dval v with
      | Some 1, Some d => stext (dbg_c d)
      | Some 2, Some d => stext (dbg_p d)
      | _, _ => bad_case
      end
  | SZ 8%Z :: prec :: rest =>
      match dprec prec with
      | Some prec => c18_decomp prec rest
      | None => bad_case
      end
  | _ => bad_case
  end.

Definition run_c18 (args : list sx) : sx :=
  match args with
  | [SZ 1%Z; SZ ty; SZ _layout; prog] => with_ty ty (fun R ops => c18_machine ops prog)
  | SZ 3%Z :: rest => c18_format rest
  | _ => bad_case
  end.
