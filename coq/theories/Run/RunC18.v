(* Model-side runner for C18.
     (18 1 ty layout prog)   the multi-tape machine of Model/Determinism.v over element type ty
                             (0 = Rat, 1 = Fp), run with the REFERENCE same-list test (tape
                             identity); `layout` selects how the harness places the tapes in memory
                             (which addresses they get) and is ignored here -- that it may be
                             ignored is theorem C18_address_parametric.
        instr ::= (0) new tape | (1 t v) variable on tape t | (2 v) constant | (3 a b) reg a + reg b
                | (4 a b) reg a * reg b | (5 (regs...)) RecordTensor::from_iter | (6 t) clear tape t
                | (7 a) reg a .derivatives()
        result: (0 (event...)) with
        event ::= (0 hist idx val) record produced, hist = () | (t)   | (2) panic | (0) unit
                | (3 hist ((val idx)...)) collected | (4 first later) inconsistent history
                | (5) empty | (6 (val...)) derivatives
   The cross-configuration digests ((18 2 ..) (18 3 ..) (18 4 ..) lines) never reach the model:
   tools/props/c18.py compares them between executions of the harness. *)
From Coq Require Import List ZArith NArith Bool.
From EasyML Require Import Base.Sx Model.Num Model.Tape Model.Determinism.
Import ListNotations.

Section Run.
Context {R : Type} (ops : numops R).

Definition dinstr (s : sx) : option (instr R) :=
  match s with
  | SL [SZ 0%Z] => Some INewTape
  | SL [SZ 1%Z; t; v] =>
      match dnat t, ndec ops v with Some t, Some v => Some (IVar t v) | _, _ => None end
  | SL [SZ 2%Z; v] => option_map (@IConst R) (ndec ops v)
  | SL [SZ 3%Z; a; b] =>
      match dnat a, dnat b with Some a, Some b => Some (IAdd a b) | _, _ => None end
  | SL [SZ 4%Z; a; b] =>
      match dnat a, dnat b with Some a, Some b => Some (IMul a b) | _, _ => None end
  | SL [SZ 5%Z; rs] => option_map (@ICollect R) (dlist dnat rs)
  | SL [SZ 6%Z; t] => option_map (@IClear R) (dnat t)
  | SL [SZ 7%Z; a] => option_map (@IDeriv R) (dnat a)
  | _ => None
  end.

Definition shist (h : option tid) : sx := sopt snat h.

Definition sevent (e : event R) : sx :=
  match e with
  | ERec r => SL [SZ 0%Z; shist (r_hist r); snat (r_idx r); nenc ops (r_val r)]
  | EPanic => SL [SZ 2%Z]
  | EUnit => SL [SZ 0%Z]
  | ECollected h ns => SL [SZ 3%Z; shist h; slist (fun p => SL [nenc ops (fst p); snat (snd p)]) ns]
  | EInconsistent f l => SL [SZ 4%Z; shist f; shist l]
  | EEmpty => SL [SZ 5%Z]
  | EDerivs d => SL [SZ 6%Z; slist (nenc ops) d]
  | EBad => bad_case
  end.

Definition is_bad (e : event R) : bool := match e with EBad => true | _ => false end.

Definition c18_machine (prog : sx) : sx :=
  match dlist dinstr prog with
  | None => bad_case
  | Some p =>
      let es := snd (machine_run ops sl_id (machine_init (R:=R)) p) in
      if existsb is_bad es then bad_case else SL [SZ 0%Z; slist sevent es]
  end.
End Run.

Definition run_c18 (args : list sx) : sx :=
  match args with
  | [SZ 1%Z; SZ ty; SZ _layout; prog] => with_ty ty (fun R ops => c18_machine ops prog)
  | _ => bad_case
  end.
