(* Case decoder / result encoder for property C19 (same language in harness/src/c19.rs and
   tools/props/c19.py).

   Type tags: 0 u8, 1 i8, 2 u16, 3 i16, 4 u32, 5 i32, 6 u64, 7 i64, 8 u128, 9 i128, 10 usize,
   11 isize, 12 f32, 13 f64.  Wrapper w: 0 plain, 1 Wrapping<_>, 2 Saturating<_>.

     (19 1 w tag n)          FromUsize::from_usize(n): () | (v) ; floats: (bits) = the IEEE-754 bit
                             pattern of Some(n as f), computed by Model/FloatConv.v (round to
                             nearest even in integer arithmetic; Proofs/C19F.v: it IS the nearest)
     (19 2 w tag)            ZeroOne: (zero one)
     (19 3 w tag op a b)     op 0 add, 1 sub, 2 mul, 3 div, 4 neg (b ignored) on integers a b of the type,
                             all owned/borrowed forms: (0 v) | (2) panic.
                             Plain operations that overflow are outside the language (their
                             result depends on the build profile): bad_case.
     (19 4 tag op abits bbits)  floats: the four forms agree bit for bit: always (1)
                             (floats are never compared with the model)
     (19 5 ty A B C s)       user types in generic routines, matrices:
                             (A * B + C) * s  then negated;   A B C = (rows cols data)
     (19 6 ty X Y s)         user types, tensors (1 dimension): ((x + y) * s) . y ;
                             X Y = (len data)
     (19 7 ty n)             Trace / Record constants: zero, one, from_usize(n):
                             ((num der) (num der) ()|((num der)) (num hist idx) (num hist idx)
                              ()|((num hist idx)))   hist = () for "no tape"
     (19 8 ty op (an ad) (bn bd))  Trace operators through all four owned/borrowed forms
                             (op 0 add 1 sub 2 mul 3 div) and both negation impls (op 4, b ignored):
                             (num der)
     (19 9 ty op ka a kb b)  Record operators, all forms; ka kb = 0 constant, 1 variable on tape
                             A, 2 variable on tape B (a is created first); op as above:
                             (0 (num hist idx da db)) | (2)   hist = () | (1) ; da db = () or
                             (the derivative of the result with respect to that variable)
     (19 10 ty p r (x ..) (a b c d))  the generic routines of linear_algebra at the user type
                             (Rat is Clone but not Copy): (f1_score(p, r)  mean(xs)  variance(xs)
                             determinant([[a b] [c d]])); for ty 0 the harness also instantiates
                             every other routine of linear_algebra at Rat (a build-time check)
     (19 11 tag fn abits bbits)  floats, the extra traits of numeric::extra: fn 0 sqrt 1 exp 2 ln 3 sin
                             4 cos (by value and by reference), 5 pow (all four forms), 6 pi; the
                             harness compares the forms bit for bit and with the std method: (1),
                             and for pi the model names the bit pattern: (1 bits)
     (19 12 ty (x ..) (rows cols data) p r)  the division-bearing generic routines at element types
                             that are NOT fields (ty 2 Wrapping<i64>, 3 the user-defined whole-number
                             type, 4 plain i64 on small inputs; 0 1 allowed as well):
                             (mean variance covariance_column_features covariance_row_features
                              covariance(tensor, first dimension) covariance(tensor, second) f1_score),
                             each an outcome except f1_score; a / n is T's own (truncating) division
     (19 13 ty (d ..) (v ..) (rows cols data))  ty 0 1: Matrix::from_diagonal(d), Tensor::euclidean_length(v),
                             Matrix::euclidean_length of v as a column and as a row,
                             Row/ColumnMajorOwnedIterator::from_numeric and
                             TensorOwnedIterator::from_numeric over the matrix, Trace::pi(), Record::pi()
     (19 14 ty n (data) (ddata) (xs) (dxs))  ty 0 1: Trace<T> / Record<T> as ELEMENT TYPES: the n x n
                             matrix of Trace { data[i], ddata[i] } (n <= 3) and the vector of
                             Trace { xs[i], dxs[i] } through determinant (matrix and tensor route),
                             inverse (both routes), mean, variance, A * A, softmax (Real-bounded),
                             Tensor::euclidean_length (Real-bounded), f1_score(first, last): every
                             scalar as (number derivative).  The harness runs the same at Record<T>
                             with every input a variable on ONE tape and answers
                             (number, sum_i d result / d input_i * seed_i), which must be the same.
                             The model runs the routines' models at Model/WrapperNum.v's dictionary.
     (19 15 ty n (data))     determinant / inverse of an n x n matrix (n <= 3) at element types whose
                             division by zero PANICS (ty 2 Wrapping<i64>, 4 i64 on small entries; 3 Whole
                             and 0 1 allowed): (outcome-of-option determinant, inverse by the Matrix
                             route, inverse by the Tensor route) — a singular input must answer
                             (0 ()) = Ok(None), never a panic: the routine may not divide before it
                             has compared the determinant with zero (seed C19-v2)
   The model evaluates every form function of Model/Numeric.v and prints their common result
   ((99 ..) should they differ, which Proofs/C19P.v excludes).
   ty: 0 Rat, 1 Fp, 2 Wrapping<i64>, 3 Whole (unbounded integers, truncating division), 4 i64. *)
From Coq Require Import List ZArith NArith Bool.
From EasyML Require Import Base.Sx Model.Shape Model.Tensor Model.Num Model.Tape Model.Numeric Model.Arith
     Model.Whole Model.FloatConv.
From EasyML Require Model.Stats Model.LinAlg Model.WrapperNum.
Import ListNotations.
Open Scope Z_scope.

Definition is_float (tag : Z) : bool := (tag =? 12) || (tag =? 13).
Definition wrapper_ok (w : Z) : bool := (0 <=? w) && (w <=? 2).

Definition c19_from_usize (w tag : Z) (n : N) : sx :=
  if is_float tag then
    match from_usize_float n with
    | Some c => SL [SZ (if tag =? 12 then f32_bits_of_usize c else f64_bits_of_usize c)]
    | None => SL []
    end
  else match ity_of_tag tag with
       | Some t => sopt SZ (if w =? 0 then from_usize t n else from_usize_wrapper t n)
       | None => bad_case
       end.

Definition c19_zero_one (w tag : Z) : sx :=
  if is_float tag then SL [SZ 0; SZ 1]
  else match ity_of_tag tag with
       | Some t => if w =? 0 then SL [SZ (int_zero t); SZ (int_one t)]
                   else SL [SZ (wrapper_zero t); SZ (wrapper_one t)]
       | None => bad_case
       end.

(* which operations exist: unary minus is implemented for signed integers, for every Wrapping
   and for Saturating of signed integers *)
Definition has_neg (w : Z) (t : ity) : bool := isigned t || (w =? 1).

Definition c19_arith (w tag op a b : Z) : sx :=
  match ity_of_tag tag with
  | Some t =>
      if negb (in_range t a && in_range t b && (0 <=? op) && (op <=? 4)) then bad_case
      else if (op =? 4) && negb (has_neg w t) then bad_case
      else if (w =? 0) && negb ((op =? 3) || in_range t (exact_op op a b)) then bad_case
      else soutcome SZ (arith w t op a b)
  | None => bad_case
  end.

Fixpoint sx_eqb19 (a b : sx) : bool :=
  match a, b with
  | SZ x, SZ y => Z.eqb x y
  | SL l1, SL l2 =>
      (fix go (l1 l2 : list sx) : bool :=
         match l1, l2 with
         | [], [] => true
         | x :: r, y :: s => sx_eqb19 x y && go r s
         | _, _ => false
         end) l1 l2
  | _, _ => false
  end.
Definition agree19 (rs : list sx) : sx :=
  match rs with
  | r :: rest => if forallb (sx_eqb19 r) rest then r else SL (SZ 99 :: rs)
  | [] => bad_case
  end.

Section User.
Context {R : Type} (ops : numops R).

Definition dmat (s : sx) : option (matrix R) :=
  match s with
  | SL [r; c; d] =>
      match dN r, dN c, dlist (ndec ops) d with
      | Some r, Some c, Some d =>
          match from_flat_row_major r c d with Ok m => Some m | _ => None end
      | _, _, _ => None
      end
  | _ => None
  end.
Definition smat (m : matrix R) : sx := SL [sN (m_rows m); sN (m_cols m); slist (nenc ops) (m_data m)].

(* -((A * B + C) * s) *)
Definition user_matrix (a b c : matrix R) (s : R) : outcome (matrix R) :=
  obind (m_matmul ops (OM a) (OM b)) (fun ab =>
  obind (m_add ops (OM ab) (OM c)) (fun abc =>
  obind (m_scalar ops 2 (OM abc) s) (fun r => m_neg ops (OM r)))).

Definition dvec (s : sx) : option (tensor R) :=
  match s with
  | SL [len; d] =>
      match dN len, dlist (ndec ops) d with
      | Some len, Some d => match tensor_from [(0%nat, len)] d with Ok t => Some t | _ => None end
      | _, _ => None
      end
  | _ => None
  end.
(* ((x + y) * s) . y *)
Definition user_tensor (x y : tensor R) (s : R) : outcome R :=
  obind (t_add ops (OT x) (OT y)) (fun xy =>
  obind (t_scalar ops 2 (OT xy) s) (fun r => t_dot ops (OT r) (OT y))).

Definition strace (t : trace R) : sx := SL [nenc ops (tr_number t); nenc ops (tr_derivative t)].
Definition srecord (r : record R) : sx :=
  SL [nenc ops (rc_number r); sopt snat (rc_history r); snat (rc_index r)].
Definition c19_constants (n : N) : sx :=
  SL [ strace (trace_zero ops); strace (trace_one ops); sopt strace (trace_from_usize ops n);
       srecord (record_zero ops); srecord (record_one ops); sopt srecord (record_from_usize ops n) ].

(* ---- Trace / Record operator forms ---- *)
Definition dtrace (s : sx) : option (trace R) :=
  match s with
  | SL [n; d] => match ndec ops n, ndec ops d with
                 | Some n, Some d => Some (mkTrace n d) | _, _ => None end
  | _ => None
  end.
Definition c19_trace_op (op : Z) (a b : trace R) : sx :=
  if op =? 4 then agree19 [strace (trace_neg_r ops a); strace (trace_neg_v ops a)]
  else agree19 [strace (trace_rr ops op a b); strace (trace_vv ops op a b);
                strace (trace_vr ops op a b); strace (trace_rv ops op a b)].

Definition mkrec (k : Z) (t : tape R) (x : R) : record R * tape R :=
  if k =? 0 then (record_constant x, t) else record_variable ops (Z.to_nat (k - 1)) t x.
Definition srecord_result (ka kb : Z) (ra rb : record R) (res : outcome (record R * tape R)) : sx :=
  soutcome (fun rt : record R * tape R =>
    let '(r, t') := rt in
    let d := fun (k : Z) (x : record R) =>
      match rc_history r with
      | Some _ => if k =? 0 then SL []
                  else match derivatives ops t' (rc_index r) with
                       | Ok l => sopt (nenc ops) (nth_error l (rc_index x))
                       | _ => SL [SZ (-1)]
                       end
      | None => SL []
      end in
    SL [nenc ops (rc_number r); match rc_history r with Some _ => SL [SZ 1] | None => SL [] end;
        snat (rc_index r); d ka ra; d kb rb]) res.
Definition c19_record_op (op ka kb : Z) (a b : R) : sx :=
  let '(ra, t1) := mkrec ka [] a in
  let '(rb, t2) := if negb (ka =? 0) && negb (kb =? 0) && negb (ka =? kb)
                   then (fst (mkrec kb [] b), t1) else mkrec kb t1 b in
  if op =? 4 then
    agree19 [srecord_result ka 0 ra rb (record_neg_r ops t1 ra);
             srecord_result ka 0 ra rb (record_neg_v ops t1 ra)]
  else
    agree19 [srecord_result ka kb ra rb (record_rr ops op t2 ra rb);
             srecord_result ka kb ra rb (record_vv ops op t2 ra rb);
             srecord_result ka kb ra rb (record_vr ops op t2 ra rb);
             srecord_result ka kb ra rb (record_rv ops op t2 ra rb)].

(* ---- the generic routines of src/linear_algebra.rs used directly at the user type ---- *)
(* mean: count = count + one; sum = sum + next; sum / count *)
Definition u_mean (l : list R) : R :=
  let cs := fold_left (fun cs x => (nadd ops (fst cs) (none_ ops), nadd ops (snd cs) x)) l
                      (nzero ops, nzero ops) in
  ndiv ops (snd cs) (fst cs).
(* variance: m = mean(list); mean(list.map(|x| (x - m) * (x - m))) *)
Definition u_variance (l : list R) : R :=
  let m := u_mean l in u_mean (map (fun x => nmul ops (nsub ops x m) (nsub ops x m)) l).
(* f1_score: (one + one) * ((precision * recall) / (precision + recall)) *)
Definition u_f1 (p r : R) : R :=
  nmul ops (nadd ops (none_ ops) (none_ ops)) (ndiv ops (nmul ops p r) (nadd ops p r)).
(* determinant of a 2x2 matrix (any evaluation order agrees in a commutative ring) *)
Definition u_det2 (a b c d : R) : R := nsub ops (nmul ops a d) (nmul ops b c).

(* ---- (19 12): the division-bearing routines of linear_algebra, any element type ---- *)
Fixpoint chunks (rows cols : nat) (l : list R) : list (list R) :=
  match rows with
  | O => []
  | S r => firstn cols l :: chunks r cols (skipn cols l)
  end.
Definition smat2 (m : list (list R)) : sx := slist (slist (nenc ops)) m.
Definition c19_whole (xs : list R) (rows cols : N) (data : list R) (p r : R) : sx :=
  let m := chunks (N.to_nat rows) (N.to_nat cols) data in
  SL [ soutcome (nenc ops) (Stats.mean ops xs);
       soutcome (nenc ops) (Stats.variance ops xs);
       soutcome smat2 (Stats.covariance_column_features ops m);
       soutcome smat2 (Stats.covariance_row_features ops m);
       soutcome (fun c => smat2 (snd c)) (Stats.covariance ops (0%nat, 1%nat) m 0%nat);
       soutcome (fun c => smat2 (snd c)) (Stats.covariance ops (0%nat, 1%nat) m 1%nat);
       nenc ops (Stats.f1_score ops p r) ].

(* ---- (19 13): constructors, lengths, owned iterators, Pi of the wrappers ---- *)
Definition c19_ctor (d v : list R) (rows cols : N) (data : list R) : sx :=
  let n := length d in
  (* Matrix::from_diagonal: Matrix::empty(zero, (n, n)) then set(i, i, element) *)
  let diag := flat_map (fun i => map (fun j => if Nat.eqb i j then nth i d (nzero ops) else nzero ops)
                                     (seq 0 n)) (seq 0 n) in
  let m := chunks (N.to_nat rows) (N.to_nat cols) data in
  let column_major := flat_map (fun j => map (fun row => nth j row (nzero ops)) m)
                               (seq 0 (N.to_nat cols)) in
  SL [ SL [snat n; snat n; slist (nenc ops) diag];
       (* Tensor::euclidean_length: iter.map(|x| x * x).sum::<T>().sqrt() *)
       nenc ops (nsqrt ops (fold_left (nadd ops) (map (fun x => nmul ops x x) v) (nzero ops)));
       (* Matrix::euclidean_length: (x^T * x).scalar().sqrt() resp. (x * x^T).scalar().sqrt() *)
       soutcome (nenc ops) (omap (nsqrt ops) (scalar_product ops v v));
       soutcome (nenc ops) (omap (nsqrt ops) (scalar_product ops v v));
       slist (nenc ops) data; slist (nenc ops) column_major; slist (nenc ops) data;
       strace (trace_constant ops (npi ops)); srecord (record_constant (npi ops)) ].

Definition c19_user (op : Z) (args : list sx) : sx :=
  match op, args with
  | 12, [xs; SL [rows; cols; data]; p; r] =>
      match dlist (ndec ops) xs, dN rows, dN cols, dlist (ndec ops) data, ndec ops p, ndec ops r with
      | Some (x :: xs), Some rows, Some cols, Some data, Some p, Some r =>
          if (0 <? rows)%N && (0 <? cols)%N && (rows * cols =? N.of_nat (length data))%N
          then c19_whole (x :: xs) rows cols data p r else bad_case
      | _, _, _, _, _, _ => bad_case
      end
  | 13, [d; v; SL [rows; cols; data]] =>
      match dlist (ndec ops) d, dlist (ndec ops) v, dN rows, dN cols, dlist (ndec ops) data with
      | Some (d0 :: d), Some (v0 :: v), Some rows, Some cols, Some data =>
          if (0 <? rows)%N && (0 <? cols)%N && (rows * cols =? N.of_nat (length data))%N
          then c19_ctor (d0 :: d) (v0 :: v) rows cols data else bad_case
      | _, _, _, _, _ => bad_case
      end
  | 10, [p; r; xs; SL [a; b; c; d]] =>
      match ndec ops p, ndec ops r, dlist (ndec ops) xs, ndec ops a, ndec ops b, ndec ops c, ndec ops d with
      | Some p, Some r, Some (x :: xs), Some a, Some b, Some c, Some d =>
          SL [nenc ops (u_f1 p r); nenc ops (u_mean (x :: xs)); nenc ops (u_variance (x :: xs));
              nenc ops (u_det2 a b c d)]
      | _, _, _, _, _, _, _ => bad_case
      end
  | 8, [SZ o; a; b] =>
      match dtrace a, dtrace b with
      | Some a, Some b => if (0 <=? o) && (o <=? 4) then c19_trace_op o a b else bad_case
      | _, _ => bad_case
      end
  | 9, [SZ o; SZ ka; a; SZ kb; b] =>
      match ndec ops a, ndec ops b with
      | Some a, Some b =>
          if (0 <=? o) && (o <=? 4) && (0 <=? ka) && (ka <=? 2) && (0 <=? kb) && (kb <=? 2)
          then c19_record_op o ka kb a b else bad_case
      | _, _ => bad_case
      end
  | 5, [a; b; c; s] =>
      match dmat a, dmat b, dmat c, ndec ops s with
      | Some a, Some b, Some c, Some s => soutcome smat (user_matrix a b c s)
      | _, _, _, _ => bad_case
      end
  | 6, [x; y; s] =>
      match dvec x, dvec y, ndec ops s with
      | Some x, Some y, Some s => soutcome (nenc ops) (user_tensor x y s)
      | _, _, _ => bad_case
      end
  | 7, [n] => match dN n with Some n => c19_constants n | None => bad_case end
  | _, _ => bad_case
  end.
End User.

(* ---- (19 14): Trace<T> as the element type of the generic routines ---- *)
Definition c19_wrapper_elems {R} (ops : numops R) (n : N) (data ddata xs dxs : list R) : sx :=
  let W := WrapperNum.wrapper_numops ops in
  let lift := fun l dl => map (fun p => mkTrace (fst p) (snd p)) (combine l dl) in
  let el := lift data ddata in
  let v := lift xs dxs in
  let rows := chunks (N.to_nat n) (N.to_nat n) el in
  let st := nenc W in
  let smat := fun m : list (list (trace R)) => slist (slist st) m in
  SL [ sopt st (LinAlg.det_matrix W rows); sopt st (LinAlg.det_tensor W rows);
       sopt smat (LinAlg.inverse_matrix W rows); sopt smat (LinAlg.inverse_tensor W rows);
       soutcome st (Stats.mean W v); soutcome st (Stats.variance W v);
       soutcome (fun m => slist st (m_data m))
                (obind (from_flat_row_major n n el) (fun a => m_matmul W (OM a) (OM a)));
       slist st (Stats.softmax W v);
       st (nsqrt W (fold_left (nadd W) (map (fun x => nmul W x x) v) (nzero W)));
       st (Stats.f1_score W (hd (nzero W) v) (last v (nzero W))) ].

Definition c19_wrapper_case {R} (ops : numops R) (args : list sx) : sx :=
  match args with
  | [n; data; ddata; xs; dxs] =>
      match dN n, dlist (ndec ops) data, dlist (ndec ops) ddata, dlist (ndec ops) xs, dlist (ndec ops) dxs with
      | Some n, Some data, Some ddata, Some (x :: xs), Some dxs =>
          if (1 <=? n)%N && (n <=? 3)%N && (n * n =? N.of_nat (length data))%N
             && Nat.eqb (length data) (length ddata) && Nat.eqb (S (length xs)) (length dxs)
          then c19_wrapper_elems ops n data ddata (x :: xs) dxs else bad_case
      | _, _, _, _, _ => bad_case
      end
  | _ => bad_case
  end.

(* ---- (19 15): determinant / inverse at any element type, singular inputs included ---- *)
Definition c19_inverse_any {R} (ops : numops R) (args : list sx) : sx :=
  match args with
  | [n; data] =>
      match dN n, dlist (ndec ops) data with
      | Some n, Some data =>
          if (1 <=? n)%N && (n <=? 3)%N && (n * n =? N.of_nat (length data))%N then
            let rows := chunks (N.to_nat n) (N.to_nat n) data in
            let smat := fun m : list (list R) => slist (slist (nenc ops)) m in
            SL [ soutcome (sopt (nenc ops)) (Ok (LinAlg.det_matrix ops rows));
                 soutcome (sopt smat) (Ok (LinAlg.inverse_matrix ops rows));
                 soutcome (sopt smat) (Ok (LinAlg.inverse_tensor ops rows)) ]
          else bad_case
      | _, _ => bad_case
      end
  | _ => bad_case
  end.

Definition run_c19 (args : list sx) : sx :=
  match args with
  | [SZ 1; SZ w; SZ tag; n] =>
      match dN n with
      | Some n => if wrapper_ok w && (Z.of_N n <=? Z.of_N usize_max) then c19_from_usize w tag n
                  else bad_case
      | None => bad_case
      end
  | [SZ 2; SZ w; SZ tag] => if wrapper_ok w then c19_zero_one w tag else bad_case
  | [SZ 3; SZ w; SZ tag; SZ op; SZ a; SZ b] =>
      if wrapper_ok w then c19_arith w tag op a b else bad_case
  | [SZ 4; SZ tag; SZ op; SZ a; SZ b] => if is_float tag then SL [SZ 1] else bad_case
  | [SZ 11; SZ tag; SZ fn; SZ a; SZ b] =>
      if is_float tag && (0 <=? fn) && (fn <=? 6) then
        if fn =? 6 then SL [SZ 1; SZ (if tag =? 12 then pi_bits_f32 else pi_bits_f64)] else SL [SZ 1]
      else bad_case
  | SZ 12 :: SZ ty :: rest =>
      if (ty =? 3) || (ty =? 4) then c19_user Wholeops 12 rest
      else with_ty3 ty (fun R ops => c19_user ops 12 rest)
  | SZ 15 :: SZ ty :: rest =>
      if (ty =? 3) || (ty =? 4) then c19_inverse_any Wholeops rest
      else with_ty3 ty (fun R ops => c19_inverse_any ops rest)
  | SZ 14 :: SZ ty :: rest =>
      if (ty =? 0) || (ty =? 1) then with_ty3 ty (fun R ops => c19_wrapper_case ops rest) else bad_case
  | SZ 13 :: SZ ty :: rest =>
      if (ty =? 0) || (ty =? 1) then with_ty3 ty (fun R ops => c19_user ops 13 rest) else bad_case
  | SZ op :: SZ ty :: rest =>
      if (5 <=? op) && (op <=? 10) then with_ty3 ty (fun R ops => c19_user ops op rest) else bad_case
  | _ => bad_case
  end.
