(* Case decoder / result encoder for property C19 (same language in harness/src/c19.rs and
   tools/props/c19.py).

   Type tags: 0 u8, 1 i8, 2 u16, 3 i16, 4 u32, 5 i32, 6 u64, 7 i64, 8 u128, 9 i128, 10 usize,
   11 isize, 12 f32, 13 f64.  Wrapper w: 0 plain, 1 Wrapping<_>, 2 Saturating<_>.

     (19 1 w tag n)          FromUsize::from_usize(n): () | (v) ; floats: (1) = Some(n as f)
     (19 2 w tag)            ZeroOne: (zero one)
     (19 3 w tag op a b)     op 0 add, 1 sub, 2 mul, 3 div, 4 neg (b ignored) on integers a b of the type,
                             all owned/borrowed forms: (0 v) | (2) panic.
                             Plain operations that overflow are outside the language (their
                             result depends on the build profile): bad_case.
     (19 4 tag op abits bbits)  floats: the four forms agree bit for bit: always (1)
                             (floats are never compared with the model)
     (19 5 ty A B C s)       user types in generic routines, matrices:
                             (A * B + C) * s  then negated;   A B C = (rows cols data)
     (19 6 ty X Y s)         user types, tensors (1 dimension): ((x + y) * s) . y ;
                             X Y = (len data)
     (19 7 ty n)             Trace / Record constants: zero, one, from_usize(n):
                             ((num der) (num der) ()|((num der)) (num hist idx) (num hist idx)
                              ()|((num hist idx)))   hist = () for "no tape"
   ty: 0 Rat, 1 Fp, 2 Wrapping<i64>. *)
From Coq Require Import List ZArith NArith Bool.
From EasyML Require Import Base.Sx Model.Shape Model.Tensor Model.Num Model.Numeric Model.Arith.
Import ListNotations.
Open Scope Z_scope.

Definition is_float (tag : Z) : bool := (tag =? 12) || (tag =? 13).
Definition wrapper_ok (w : Z) : bool := (0 <=? w) && (w <=? 2).

Definition c19_from_usize (w tag : Z) (n : N) : sx :=
  if is_float tag then
    match from_usize_float n with Some _ => SL [SZ 1] | None => SL [] end
  else match ity_of_tag tag with
       | Some t => sopt SZ (if w =? 0 then from_usize t n else from_usize_wrapper t n)
       | None => bad_case
       end.

Definition c19_zero_one (w tag : Z) : sx :=
  if is_float tag then SL [SZ 0; SZ 1]
  else match ity_of_tag tag with
       | Some t => if w =? 0 then SL [SZ (int_zero t); SZ (int_one t)]
                   else SL [SZ (wrapper_zero t); SZ (wrapper_one t)]
       | None => bad_case
       end.

(* which operations exist: unary minus is implemented for signed integers, for every Wrapping
   and for Saturating of signed integers *)
Definition has_neg (w : Z) (t : ity) : bool := isigned t || (w =? 1).

Definition c19_arith (w tag op a b : Z) : sx :=
  match ity_of_tag tag with
  | Some t =>
      if negb (in_range t a && in_range t b && (0 <=? op) && (op <=? 4)) then bad_case
      else if (op =? 4) && negb (has_neg w t) then bad_case
      else if (w =? 0) && negb ((op =? 3) || in_range t (exact_op op a b)) then bad_case
      else soutcome SZ (arith w t op a b)
  | None => bad_case
  end.

Section User.
Context {R : Type} (ops : numops R).

Definition dmat (s : sx) : option (matrix R) :=
  match s with
  | SL [r; c; d] =>
      match dN r, dN c, dlist (ndec ops) d with
      | Some r, Some c, Some d =>
          match from_flat_row_major r c d with Ok m => Some m | _ => None end
      | _, _, _ => None
      end
  | _ => None
  end.
Definition smat (m : matrix R) : sx := SL [sN (m_rows m); sN (m_cols m); slist (nenc ops) (m_data m)].

(* -((A * B + C) * s) *)
Definition user_matrix (a b c : matrix R) (s : R) : outcome (matrix R) :=
  obind (m_matmul ops (OM a) (OM b)) (fun ab =>
  obind (m_add ops (OM ab) (OM c)) (fun abc =>
  obind (m_scalar ops 2 (OM abc) s) (fun r => m_neg ops (OM r)))).

Definition dvec (s : sx) : option (tensor R) :=
  match s with
  | SL [len; d] =>
      match dN len, dlist (ndec ops) d with
      | Some len, Some d => match tensor_from [(0%nat, len)] d with Ok t => Some t | _ => None end
      | _, _ => None
      end
  | _ => None
  end.
(* ((x + y) * s) . y *)
Definition user_tensor (x y : tensor R) (s : R) : outcome R :=
  obind (t_add ops (OT x) (OT y)) (fun xy =>
  obind (t_scalar ops 2 (OT xy) s) (fun r => t_dot ops (OT r) (OT y))).

Definition strace (t : trace R) : sx := SL [nenc ops (tr_number t); nenc ops (tr_derivative t)].
Definition srecord (r : record R) : sx :=
  SL [nenc ops (rc_number r); sopt snat (rc_history r); snat (rc_index r)].
Definition c19_constants (n : N) : sx :=
  SL [ strace (trace_zero ops); strace (trace_one ops); sopt strace (trace_from_usize ops n);
       srecord (record_zero ops); srecord (record_one ops); sopt srecord (record_from_usize ops n) ].

Definition c19_user (op : Z) (args : list sx) : sx :=
  match op, args with
  | 5, [a; b; c; s] =>
      match dmat a, dmat b, dmat c, ndec ops s with
      | Some a, Some b, Some c, Some s => soutcome smat (user_matrix a b c s)
      | _, _, _, _ => bad_case
      end
  | 6, [x; y; s] =>
      match dvec x, dvec y, ndec ops s with
      | Some x, Some y, Some s => soutcome (nenc ops) (user_tensor x y s)
      | _, _, _ => bad_case
      end
  | 7, [n] => match dN n with Some n => c19_constants n | None => bad_case end
  | _, _ => bad_case
  end.
End User.

Definition run_c19 (args : list sx) : sx :=
  match args with
  | [SZ 1; SZ w; SZ tag; n] =>
      match dN n with
      | Some n => if wrapper_ok w && (Z.of_N n <=? Z.of_N usize_max) then c19_from_usize w tag n
                  else bad_case
      | None => bad_case
      end
  | [SZ 2; SZ w; SZ tag] => if wrapper_ok w then c19_zero_one w tag else bad_case
  | [SZ 3; SZ w; SZ tag; SZ op; SZ a; SZ b] =>
      if wrapper_ok w then c19_arith w tag op a b else bad_case
  | [SZ 4; SZ tag; SZ op; SZ a; SZ b] => if is_float tag then SL [SZ 1] else bad_case
  | SZ op :: SZ ty :: rest =>
      if (5 <=? op) && (op <=? 7) then with_ty3 ty (fun R ops => c19_user ops op rest) else bad_case
  | _ => bad_case
  end.
