(* Case decoder / result encoder for property C09 (iterators).  Same language in
   harness/src/c09.rs and tools/props/c09.py.

     (9 1 shape k)                      ShapeIterator::from(shape), k calls of next()
         result: (len0 (step…))         step = (item len_after) ; item = () | ((i…))
     (9 4 shape k)                      ShapeIterator::from(shape), k calls of next(), items only
         result: (item…)                 (for index spaces larger than usize::MAX, where the
                                         element count — and hence size_hint — is not representable:
                                         the clean code's size_hint overflows there, differently per
                                         build profile, so len() is not observed for these shapes)
     (9 2 kind wi src k)                tensor iterators over a source term (Model/TSource.v)
         kind 0 TensorIterator 1 TensorReferenceIterator 2 TensorReferenceMutIterator
              3 TensorOwnedIterator ; wi = 1: the WithIndex variant
         result: outcome of building the source, then (len0 (step…) data)
              item = () | ((v)) | ((i…) (v)) ; data = the base tensor's data afterwards
              (kind 2: the j-th call's reference is written with old + 1000*j after all k calls;
               kind 3: the placeholder is 0)
     (9 3 order mode wi src arg k)      matrix iterators over a matrix source term
         order 0 column(arg) 1 row(arg) 2 column-major 3 row-major 4 diagonal
         mode 0 copy 1 reference 2 mutable reference 3 owned (orders 2,3 only)
         wi = 1: WithIndex (orders 2,3 only)
         result: outcome of (source, iterator constructor), then (len0 (step…) data)
              item = () | ((v)) | ((r c) (v))
     (9 5 kind wi term k)               the tensor iterators over ANY view of the C02 algebra as the
         source (Model/IterG.v `cview_source`; `term` in the language of Run/RunC02.v: TensorIndex,
         TensorExpansion, TensorStack, TensorChain, wrappers, matrix-backed leaves, convenience
         constructors; the element of leaf id at offset j is id*1000 + j).  kinds 2, 3 need a
         view with a mutable face (no `&S` wrapper / `&self` convenience constructor below it).
         result: (1 e) | (2) first failing constructor of the term, else
              (0 (len0 (step…) ((leaf data…)…)))  every leaf's data afterwards, in term order
     (9 6 order mode wi rows cols data leaf (wrapper…) arg k)   the matrix iterators over a stack
         of C12 matrix views (Model/IterG.v `mview_source`: the views' UNCHECKED getters of
         Model/MatrixAccess.v) over Matrix::from_flat_row_major((rows, cols), data); leaf and
         wrappers as in Run/RunC12.v: (0) the matrix | (1 (rp) (cp) j) part j of partition |
         (2 r c j) quadrant j ; wrappers (0 r0 rl c0 cl) (1 a b c d) range | (2 rr cc) reverse |
         (3 n0 n1) (4) tensor round trip
         result: (2) partition panicked | (1 shape) a tensor wrapper refused, else as (9 3 …) with
              the ROOT matrix' data
     (9 7 (pstep…) op args…)            any of the ops 1, 2, 3, 5, 6 above, the iterator driven by a
         SCRIPT over the provided Iterator methods a type may override instead of k calls of
         next() (Model/IterProg.v; the `k` of the inner op is ignored):
              pstep = (0 n) nth(n) | (1 n) by_ref().skip(n).next() | (2 k j) by_ref().step_by(k).take(j).collect()
                    | (3 j) by_ref().take(j).collect() | (4) count() | (5) last() | (6) fold (terminal)
         the (step…) component then lists per pstep: (item len) | (7 (item…) len) | (8 (item…) len)
              | (4 count) | (5 item) | (6 (item…)); len() / size_hint() are taken after every
         non-terminal step; a mutable iterator's references are written (old + 1000*j, j-th
         reference handed out) after the script *)
From Coq Require Import List ZArith NArith Bool Arith.
From EasyML Require Import Base.Sx Model.Shape Model.Tensor Model.TSource Model.ShapeIter
  Model.MatrixIter Model.MatrixViews Model.MatrixAccess Model.IterG Model.IterProg.
From EasyML Require Model.Views Run.RunC02 Run.RunC12.
Import ListNotations.
Open Scope N_scope.

Definition sstep {I} (f : I -> sx) (st : option I * N) : sx := SL [sopt f (fst st); sN (snd st)].

(* ---- scripts (op 7) ---- *)
Definition dpstep (s : sx) : option pstep :=
  match s with
  | SL [SZ 0%Z; n] => option_map PNth (dnat n)
  | SL [SZ 1%Z; n] => option_map PSkip (dnat n)
  | SL [SZ 2%Z; k; j] => match dnat k, dnat j with
                         | Some (S k), Some j => Some (PStepBy (S k) j)
                         | _, _ => None
                         end
  | SL [SZ 3%Z; j] => option_map PTake (dnat j)
  | SL [SZ 4%Z] => Some PCount
  | SL [SZ 5%Z] => Some PLast
  | SL [SZ 6%Z] => Some PFold
  | _ => None
  end.

Definition sitem_opt {I} (enc : I -> sx) (x : option I) : sx :=
  match x with None => SL [] | Some i => enc i end.
Definition spout {I} (enc : I -> sx) (o : pout I) : sx :=
  match o with
  | OItem x l => SL [sitem_opt enc x; sN l]
  | OItems tag xs l => SL [snat tag; slist enc xs; sN l]
  | OCount c => SL [SZ 4%Z; snat c]
  | OLast x => SL [SZ 5%Z; sitem_opt enc x]
  | OFold xs => SL [SZ 6%Z; slist enc xs]
  end.

(* the encoded outputs, the (place, value) of every item handed out, the final iterator *)
Definition script_run {St I P} (next : St -> option I * St) (len : St -> N) (enc : I -> sx)
           (pv : I -> P * option Z) (script : list pstep) (it : St) : sx * list (P * option Z) * St :=
  let '(outs, it') := run_script next len script it in
  (slist (spout enc) outs, map pv (flat_map pout_items outs), it').

(* the j-th reference handed out (1-based) receives old + 1000*j *)
Fixpoint apply_item_writes {P St} (write : St -> P -> Z -> St) (items : list (P * option Z)) (j : Z)
         (s : St) : St :=
  match items with
  | [] => s
  | (p, Some v) :: r => apply_item_writes write r (j + 1)%Z (write s p (v + 1000 * j)%Z)
  | (_, None) :: r => apply_item_writes write r (j + 1)%Z s
  end.

Definition enc_plain {P} (i : P * option Z) : sx := SL [sopt SZ (snd i)].
Definition enc_wi {P} (sp : P -> sx) (i : P * (P * option Z)) : sx := SL [sp (fst i); sopt SZ (snd (snd i))].

(* a whole iterator run under a script: `wi` chooses the WithIndex wrapper; `mutable`: write back *)
Definition script_iter {St P} (next : St -> option (P * option Z) * St)
           (next_wi : St -> option (P * (P * option Z)) * St) (len : St -> N) (sp : P -> sx)
           (write : St -> P -> Z -> St) (wi mutable : bool) (script : list pstep) (it : St) : sx * St :=
  let '(steps, items, it') :=
    if wi then script_run next_wi len (enc_wi sp) (fun i => snd i) script it
    else script_run next len enc_plain (fun i => i) script it in
  (steps, if mutable then apply_item_writes write items 1%Z it' else it').

Definition c09_shapeiter (script : option (list pstep)) (sh : shape) (k : nat) : sx :=
  let it := shape_iter_from sh in
  match script with
  | None => SL [sN (iter_len it); slist (sstep (slist sN)) (fst (drive iter_next iter_len k it))]
  | Some sc => SL [sN (iter_len it);
                   slist (spout (fun idx => SL [slist sN idx])) (fst (run_script iter_next iter_len sc it))]
  end.

(* items normalised to (index reported by WithIndex if any, (place, value)) *)
Definition norm_plain {P} (x : option (P * option Z) * N) : option (option P * (P * option Z)) * N :=
  (option_map (fun i => (None, i)) (fst x), snd x).
Definition norm_wi {P} (x : option (P * (P * option Z)) * N) : option (option P * (P * option Z)) * N :=
  (option_map (fun i => (Some (fst i), snd i)) (fst x), snd x).

Definition sitem {P} (sp : P -> sx) (i : option P * (P * option Z)) : sx :=
  match fst i with
  | None => sopt SZ (snd (snd i))
  | Some p => SL [sp p; sopt SZ (snd (snd i))]
  end.
(* item encoding: () | ((v)) | (index (v)) *)
Definition sstep' {P} (sp : P -> sx) (st : option (option P * (P * option Z)) * N) : sx :=
  match fst st with
  | None => SL [SL []; sN (snd st)]
  | Some i => match fst i with
              | None => SL [SL [sopt SZ (snd (snd i))]; sN (snd st)]
              | Some p => SL [SL [sp p; sopt SZ (snd (snd i))]; sN (snd st)]
              end
  end.

(* the writes through the references handed out by a mutable iterator: the j-th call (1-based)
   receives old + 1000*j *)
Fixpoint apply_writes {P St} (write : St -> P -> Z -> St)
         (steps : list (option (option P * (P * option Z)) * N)) (j : Z) (s : St) : St :=
  match steps with
  | [] => s
  | (Some (_, (p, Some v)), _) :: r => apply_writes write r (j + 1)%Z (write s p (v + 1000 * j)%Z)
  | _ :: r => apply_writes write r (j + 1)%Z s
  end.

Definition c09_titer (script : option (list pstep)) (kind : nat) (wi : bool) (src : tsrc Z) (k : nat) : sx :=
  let it := tensor_iter_from src in
  let next := match kind with 3%nat => ti_next_owned 0%Z | _ => ti_next end in
  match script with
  | Some sc =>
      let '(steps, it'') := script_iter next (ti_with_index next) ti_len (slist sN) ti_write wi
                                        (Nat.eqb kind 2) sc it in
      SL [sN (ti_len it); steps; slist SZ (t_data (src_base (ti_source it'')))]
  | None =>
  let '(steps, it') :=
    if wi then let '(s, i) := drive (ti_with_index next) ti_len k it in (map norm_wi s, i)
    else let '(s, i) := drive next ti_len k it in (map norm_plain s, i) in
  let it'' := match kind with 2%nat => apply_writes ti_write steps 1%Z it' | _ => it' end in
  SL [sN (ti_len it); slist (sstep' (slist sN)) steps;
      slist SZ (t_data (src_base (ti_source it'')))]
  end.

Definition spair_rc (p : N * N) : sx := SL [sN (fst p); sN (snd p)].

(* the line iterators have no WithIndex form: the wi slot of script_iter is never taken *)
Definition no_wi {St P} (it : St) : option (P * (P * option Z)) * St := (None, it).

Definition c09_line (script : option (list pstep)) (mode : nat) (it : line_iter Z) (k : nat) : sx :=
  match script with
  | Some sc =>
      let '(steps, it'') := script_iter li_next no_wi li_len spair_rc li_write false (Nat.eqb mode 2) sc it in
      SL [sN (li_len it); steps; slist SZ (m_data (ms_base (li_source it'')))]
  | None =>
  let '(s, it') := drive li_next li_len k it in
  let steps := map norm_plain s in
  let it'' := match mode with 2%nat => apply_writes li_write steps 1%Z it' | _ => it' end in
  SL [sN (li_len it); slist (sstep' spair_rc) steps; slist SZ (m_data (ms_base (li_source it'')))]
  end.

Definition c09_major (script : option (list pstep)) (mode : nat) (wi : bool) (it : major_iter Z) (k : nat) : sx :=
  let next := match mode with 3%nat => mi_next_owned 0%Z | _ => mi_next end in
  match script with
  | Some sc =>
      let '(steps, it'') := script_iter next (mi_with_index next) mi_len spair_rc mi_write wi
                                        (Nat.eqb mode 2) sc it in
      SL [sN (mi_len it); steps; slist SZ (m_data (ms_base (mi_source it'')))]
  | None =>
  let '(steps, it') :=
    if wi then let '(s, i) := drive (mi_with_index next) mi_len k it in (map norm_wi s, i)
    else let '(s, i) := drive next mi_len k it in (map norm_plain s, i) in
  let it'' := match mode with 2%nat => apply_writes mi_write steps 1%Z it' | _ => it' end in
  SL [sN (mi_len it); slist (sstep' spair_rc) steps; slist SZ (m_data (ms_base (mi_source it'')))]
  end.

Definition c09_miter (script : option (list pstep)) (order mode : nat) (wi : bool) (src : msrc Z) (arg : N) (k : nat) : sx :=
  match order with
  | 0%nat => soutcome (fun it => c09_line script mode it k) (column_iter_from src arg)
  | 1%nat => soutcome (fun it => c09_line script mode it k) (row_iter_from src arg)
  | 2%nat => soutcome (fun it => c09_major script mode wi it k) (Ok (major_iter_from false src))
  | 3%nat => soutcome (fun it => c09_major script mode wi it k) (Ok (major_iter_from true src))
  | _ => soutcome (fun it => c09_line script mode it k) (Ok (diagonal_iter_from src))
  end.

Definition c09_shapeiter_items (sh : shape) (k : nat) : sx :=
  slist (fun st => sopt (slist sN) (fst st)) (fst (drive iter_next (fun _ => 0) k (shape_iter_from sh))).

(* ---- op 5: tensor iterators over C02 view terms ---- *)
Definition c09_gtiter {St} (script : option (list pstep)) (o : tsource St Z) (dump : St -> sx)
           (kind : nat) (wi : bool) (s : St) (k : nat) : sx :=
  let it := gti_from o s in
  let next := match kind with 3%nat => gti_next_owned o 0%Z | _ => gti_next o end in
  match script with
  | Some sc =>
      let '(steps, it'') := script_iter next (gti_with_index next) gti_len (slist sN) (gti_write o) wi
                                        (Nat.eqb kind 2) sc it in
      SL [sN (gti_len it); steps; dump (gi_source it'')]
  | None =>
  let '(steps, it') :=
    if wi then let '(s, i) := drive (gti_with_index next) gti_len k it in (map norm_wi s, i)
    else let '(s, i) := drive next gti_len k it in (map norm_plain s, i) in
  let it'' := match kind with 2%nat => apply_writes (gti_write o) steps 1%Z it' | _ => it' end in
  SL [sN (gti_len it); slist (sstep' (slist sN)) steps; dump (gi_source it'')]
  end.

Definition initial_store : N * N -> option Z := fun e => Some (Views.leaf_value e).
Definition dump_store (c : Views.cview) (st : N * N -> option Z) : sx :=
  slist (fun e => slist (fun j => match st (fst e, N.of_nat j) with Some x => SZ x | None => SL [] end)
                        (seq 0 (N.to_nat (snd e))))
        (Views.c_leaves c).

(* a term whose view is entered through a shared reference somewhere: (11 t 4), or a convenience
   constructor taking `&self` (via 3 / 4) *)
Fixpoint term_read_only (fuel : nat) (t : sx) : bool :=
  match fuel with
  | O => false
  | S f =>
    match t with
    | SL [SZ 11%Z; t'; SZ kind] => (kind =? 4)%Z || term_read_only f t'
    | SL [SZ 9%Z; SL ts; _; _; _] => existsb (term_read_only f) ts
    | SL [SZ 10%Z; SL ts; _; _] => existsb (term_read_only f) ts
    | SL [SZ _; t'; _; SZ via] => (via =? 3)%Z || (via =? 4)%Z || term_read_only f t'
    | SL (SZ _ :: t' :: _) => term_read_only f t'
    | _ => false
    end
  end.

(* ---- op 6: matrix iterators over C12 view stacks ---- *)
Definition c09_gline (script : option (list pstep)) (o : msource (list Z) Z) (mode : nat)
           (it : giter lcounters (list Z)) (k : nat) : sx :=
  match script with
  | Some sc =>
      let '(steps, it'') := script_iter (gli_next o) no_wi gli_len spair_rc (gli_write o) false
                                        (Nat.eqb mode 2) sc it in
      SL [sN (gli_len it); steps; slist SZ (gi_source it'')]
  | None =>
  let '(s, it') := drive (gli_next o) gli_len k it in
  let steps := map norm_plain s in
  let it'' := match mode with 2%nat => apply_writes (gli_write o) steps 1%Z it' | _ => it' end in
  SL [sN (gli_len it); slist (sstep' spair_rc) steps; slist SZ (gi_source it'')]
  end.

Definition c09_gmajor (script : option (list pstep)) (o : msource (list Z) Z) (mode : nat) (wi : bool)
           (it : giter mcounters (list Z)) (k : nat) : sx :=
  let next := match mode with 3%nat => gmi_next_owned o 0%Z | _ => gmi_next o end in
  match script with
  | Some sc =>
      let '(steps, it'') := script_iter next (gmi_with_index next) gmi_len spair_rc (gmi_write o) wi
                                        (Nat.eqb mode 2) sc it in
      SL [sN (gmi_len it); steps; slist SZ (gi_source it'')]
  | None =>
  let '(steps, it') :=
    if wi then let '(s, i) := drive (gmi_with_index next) gmi_len k it in (map norm_wi s, i)
    else let '(s, i) := drive next gmi_len k it in (map norm_plain s, i) in
  let it'' := match mode with 2%nat => apply_writes (gmi_write o) steps 1%Z it' | _ => it' end in
  SL [sN (gmi_len it); slist (sstep' spair_rc) steps; slist SZ (gi_source it'')]
  end.

Definition c09_gmiter (script : option (list pstep)) (o : msource (list Z) Z) (order mode : nat) (wi : bool)
           (data : list Z) (arg : N) (k : nat) : sx :=
  match order with
  | 0%nat => soutcome (fun it => c09_gline script o mode it k) (gli_column o data arg)
  | 1%nat => soutcome (fun it => c09_gline script o mode it k) (gli_row o data arg)
  | 2%nat => soutcome (fun it => c09_gmajor script o mode wi it k) (Ok (gmi_from o false data))
  | 3%nat => soutcome (fun it => c09_gmajor script o mode wi it k) (Ok (gmi_from o true data))
  | _ => soutcome (fun it => c09_gline script o mode it k) (Ok (gli_diagonal o data))
  end.

Definition run_c09_with (script : option (list pstep)) (args : list sx) : sx :=
  match args with
  | [SZ 5%Z; kind; wi; term; k] =>
      match dnat kind, dbool wi, RunC02.dview 40 term, dnat k with
      | Some kind, Some wi, Some tv, Some k =>
          if (kind <=? 3)%nat && RunC02.nodup_b (RunC02.v_leaf_ids tv)
             && negb ((2 <=? kind)%nat && term_read_only 40 term)
          then match Views.v_ctor tv with
               | Ok c => SL [SZ 0%Z; c09_gtiter script (cview_source c) (dump_store c) kind wi initial_store k]
               | Err e => SL [SZ 1%Z; e]
               | Panic => SL [SZ 2%Z]
               end
          else bad_case
      | _, _, _, _ => bad_case
      end
  | [SZ 6%Z; order; mode; wi; rows; cols; data; leaf; ws; arg; k] =>
      match dnat order, dnat mode, dbool wi, dN rows, dN cols, dlist dZ data with
      | Some order, Some mode, Some wi, Some rows, Some cols, Some data =>
          match dlist RunC12.dwrapper ws, dN arg, dnat k with
          | Some ws, Some arg, Some k =>
              if (order <=? 4)%nat && (mode <=? 3)%nat
                 && (negb (Nat.eqb mode 3) || Nat.eqb order 2 || Nat.eqb order 3)
                 && (negb wi || Nat.eqb order 2 || Nat.eqb order 3)
                 && RunC12.root_ok rows cols data
              then match RunC12.dleaf rows cols leaf with
                   | Some lf =>
                       match obind lf (fun v => RunC12.apply_wrappers v ws) with
                       | Ok v => c09_gmiter script (mview_source v) order mode wi data arg k
                       | Err e => SL [SZ 1%Z; e]
                       | Panic => SL [SZ 2%Z]
                       end
                   | None => bad_case
                   end
              else bad_case
          | _, _, _ => bad_case
          end
      | _, _, _, _, _, _ => bad_case
      end
  | [SZ 4%Z; sh; k] =>
      match dshape sh, dnat k with
      | Some sh, Some k => match script with None => c09_shapeiter_items sh k | Some _ => bad_case end
      | _, _ => bad_case
      end
  | [SZ 1%Z; sh; k] =>
      match dshape sh, dnat k with
      | Some sh, Some k => c09_shapeiter script sh k
      | _, _ => bad_case
      end
  | [SZ 2%Z; kind; wi; src; k] =>
      match dnat kind, dbool wi, dsrc 8 src, dnat k with
      | Some kind, Some wi, Some src, Some k =>
          if (kind <=? 3)%nat then soutcome (fun s => c09_titer script kind wi s k) src else bad_case
      | _, _, _, _ => bad_case
      end
  | [SZ 3%Z; order; mode; wi; src; arg; k] =>
      match dnat order, dnat mode, dbool wi, dmsrc 8 src, dN arg, dnat k with
      | Some order, Some mode, Some wi, Some src, Some arg, Some k =>
          if (order <=? 4)%nat && (mode <=? 3)%nat
             && (negb (Nat.eqb mode 3) || Nat.eqb order 2 || Nat.eqb order 3)
             && (negb wi || Nat.eqb order 2 || Nat.eqb order 3)
          then match src with
               | Ok s => c09_miter script order mode wi s arg k
               | Err e => SL [SZ 1%Z; e]
               | Panic => SL [SZ 2%Z]
               end
          else bad_case
      | _, _, _, _, _, _ => bad_case
      end
  | _ => bad_case
  end.

Definition run_c09 (args : list sx) : sx :=
  match args with
  | SZ 7%Z :: script :: inner =>
      match dlist dpstep script with
      | Some sc => run_c09_with (Some sc) inner
      | None => bad_case
      end
  | _ => run_c09_with None args
  end.
