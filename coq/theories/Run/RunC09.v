(* Case decoder / result encoder for property C09 (iterators).  Same language in
   harness/src/c09.rs and tools/props/c09.py.

     (9 1 shape k)                      ShapeIterator::from(shape), k calls of next()
         result: (len0 (step…))         step = (item len_after) ; item = () | ((i…))
     (9 4 shape k)                      ShapeIterator::from(shape), k calls of next(), items only
         result: (item…)                 (for index spaces larger than usize::MAX, where the
                                         element count — and hence size_hint — is not representable:
                                         the clean code's size_hint overflows there, differently per
                                         build profile, so len() is not observed for these shapes)
     (9 2 kind wi src k)                tensor iterators over a source term (Model/TSource.v)
         kind 0 TensorIterator 1 TensorReferenceIterator 2 TensorReferenceMutIterator
              3 TensorOwnedIterator ; wi = 1: the WithIndex variant
         result: outcome of building the source, then (len0 (step…) data)
              item = () | ((v)) | ((i…) (v)) ; data = the base tensor's data afterwards
              (kind 2: the j-th call's reference is written with old + 1000*j after all k calls;
               kind 3: the placeholder is 0)
     (9 3 order mode wi src arg k)      matrix iterators over a matrix source term
         order 0 column(arg) 1 row(arg) 2 column-major 3 row-major 4 diagonal
         mode 0 copy 1 reference 2 mutable reference 3 owned (orders 2,3 only)
         wi = 1: WithIndex (orders 2,3 only)
         result: outcome of (source, iterator constructor), then (len0 (step…) data)
              item = () | ((v)) | ((r c) (v)) *)
From Coq Require Import List ZArith NArith Bool Arith.
From EasyML Require Import Base.Sx Model.Shape Model.Tensor Model.TSource Model.ShapeIter
  Model.MatrixIter.
Import ListNotations.
Open Scope N_scope.

Definition sstep {I} (f : I -> sx) (st : option I * N) : sx := SL [sopt f (fst st); sN (snd st)].

Definition c09_shapeiter (sh : shape) (k : nat) : sx :=
  let it := shape_iter_from sh in
  SL [sN (iter_len it); slist (sstep (slist sN)) (fst (drive iter_next iter_len k it))].

(* items normalised to (index reported by WithIndex if any, (place, value)) *)
Definition norm_plain {P} (x : option (P * option Z) * N) : option (option P * (P * option Z)) * N :=
  (option_map (fun i => (None, i)) (fst x), snd x).
Definition norm_wi {P} (x : option (P * (P * option Z)) * N) : option (option P * (P * option Z)) * N :=
  (option_map (fun i => (Some (fst i), snd i)) (fst x), snd x).

Definition sitem {P} (sp : P -> sx) (i : option P * (P * option Z)) : sx :=
  match fst i with
  | None => sopt SZ (snd (snd i))
  | Some p => SL [sp p; sopt SZ (snd (snd i))]
  end.
(* item encoding: () | ((v)) | (index (v)) *)
Definition sstep' {P} (sp : P -> sx) (st : option (option P * (P * option Z)) * N) : sx :=
  match fst st with
  | None => SL [SL []; sN (snd st)]
  | Some i => match fst i with
              | None => SL [SL [sopt SZ (snd (snd i))]; sN (snd st)]
              | Some p => SL [SL [sp p; sopt SZ (snd (snd i))]; sN (snd st)]
              end
  end.

(* the writes through the references handed out by a mutable iterator: the j-th call (1-based)
   receives old + 1000*j *)
Fixpoint apply_writes {P St} (write : St -> P -> Z -> St)
         (steps : list (option (option P * (P * option Z)) * N)) (j : Z) (s : St) : St :=
  match steps with
  | [] => s
  | (Some (_, (p, Some v)), _) :: r => apply_writes write r (j + 1)%Z (write s p (v + 1000 * j)%Z)
  | _ :: r => apply_writes write r (j + 1)%Z s
  end.

Definition c09_titer (kind : nat) (wi : bool) (src : tsrc Z) (k : nat) : sx :=
  let it := tensor_iter_from src in
  let next := match kind with 3%nat => ti_next_owned 0%Z | _ => ti_next end in
  let '(steps, it') :=
    if wi then let '(s, i) := drive (ti_with_index next) ti_len k it in (map norm_wi s, i)
    else let '(s, i) := drive next ti_len k it in (map norm_plain s, i) in
  let it'' := match kind with 2%nat => apply_writes ti_write steps 1%Z it' | _ => it' end in
  SL [sN (ti_len it); slist (sstep' (slist sN)) steps;
      slist SZ (t_data (src_base (ti_source it'')))].

Definition spair_rc (p : N * N) : sx := SL [sN (fst p); sN (snd p)].

Definition c09_line (mode : nat) (it : line_iter Z) (k : nat) : sx :=
  let '(s, it') := drive li_next li_len k it in
  let steps := map norm_plain s in
  let it'' := match mode with 2%nat => apply_writes li_write steps 1%Z it' | _ => it' end in
  SL [sN (li_len it); slist (sstep' spair_rc) steps; slist SZ (m_data (ms_base (li_source it'')))].

Definition c09_major (mode : nat) (wi : bool) (it : major_iter Z) (k : nat) : sx :=
  let next := match mode with 3%nat => mi_next_owned 0%Z | _ => mi_next end in
  let '(steps, it') :=
    if wi then let '(s, i) := drive (mi_with_index next) mi_len k it in (map norm_wi s, i)
    else let '(s, i) := drive next mi_len k it in (map norm_plain s, i) in
  let it'' := match mode with 2%nat => apply_writes mi_write steps 1%Z it' | _ => it' end in
  SL [sN (mi_len it); slist (sstep' spair_rc) steps; slist SZ (m_data (ms_base (mi_source it'')))].

Definition c09_miter (order mode : nat) (wi : bool) (src : msrc Z) (arg : N) (k : nat) : sx :=
  match order with
  | 0%nat => soutcome (fun it => c09_line mode it k) (column_iter_from src arg)
  | 1%nat => soutcome (fun it => c09_line mode it k) (row_iter_from src arg)
  | 2%nat => soutcome (fun it => c09_major mode wi it k) (Ok (major_iter_from false src))
  | 3%nat => soutcome (fun it => c09_major mode wi it k) (Ok (major_iter_from true src))
  | _ => soutcome (fun it => c09_line mode it k) (Ok (diagonal_iter_from src))
  end.

Definition c09_shapeiter_items (sh : shape) (k : nat) : sx :=
  slist (fun st => sopt (slist sN) (fst st)) (fst (drive iter_next (fun _ => 0) k (shape_iter_from sh))).

Definition run_c09 (args : list sx) : sx :=
  match args with
  | [SZ 4%Z; sh; k] =>
      match dshape sh, dnat k with
      | Some sh, Some k => c09_shapeiter_items sh k
      | _, _ => bad_case
      end
  | [SZ 1%Z; sh; k] =>
      match dshape sh, dnat k with
      | Some sh, Some k => c09_shapeiter sh k
      | _, _ => bad_case
      end
  | [SZ 2%Z; kind; wi; src; k] =>
      match dnat kind, dbool wi, dsrc 8 src, dnat k with
      | Some kind, Some wi, Some src, Some k =>
          if (kind <=? 3)%nat then soutcome (fun s => c09_titer kind wi s k) src else bad_case
      | _, _, _, _ => bad_case
      end
  | [SZ 3%Z; order; mode; wi; src; arg; k] =>
      match dnat order, dnat mode, dbool wi, dmsrc 8 src, dN arg, dnat k with
      | Some order, Some mode, Some wi, Some src, Some arg, Some k =>
          if (order <=? 4)%nat && (mode <=? 3)%nat
             && (negb (Nat.eqb mode 3) || Nat.eqb order 2 || Nat.eqb order 3)
             && (negb wi || Nat.eqb order 2 || Nat.eqb order 3)
          then match src with
               | Ok s => c09_miter order mode wi s arg k
               | Err e => SL [SZ 1%Z; e]
               | Panic => SL [SZ 2%Z]
               end
          else bad_case
      | _, _, _, _, _, _ => bad_case
      end
  | _ => bad_case
  end.
