(* C00 is not a property: it is the self-test of the shared numeric dictionaries (Model/Num.v
   against harness/src/num.rs).   (0 ty op a b) *)
From Coq Require Import List ZArith NArith Bool.
From EasyML Require Import Base.Sx Model.Num.
Import ListNotations.

Definition c00_op {R} (ops : numops R) (op : Z) (a b : R) (raw : sx) : sx :=
  match op with
  | 0 => nenc ops (nadd ops a b) | 1 => nenc ops (nsub ops a b) | 2 => nenc ops (nmul ops a b)
  | 3 => nenc ops (ndiv ops a b) | 4 => nenc ops (nneg ops a)
  | 5 => sbool (neqb ops a b) | 6 => sbool (nltb ops a b) | 7 => sbool (nleb ops a b)
  | 8 => nenc ops (nsqrt ops a) | 9 => nenc ops (nexp ops a) | 10 => nenc ops (nln ops a)
  | 11 => nenc ops (nsin ops a) | 12 => nenc ops (ncos ops a) | 13 => nenc ops (npow ops a b)
  | 14 => nenc ops (npi ops)
  | 15 => match dN raw with Some n => sopt (nenc ops) (nof_N ops n) | None => bad_case end
  | 16 => SL [nenc ops (nzero ops); nenc ops (none_ ops)]
  | _ => bad_case
  end%Z.

Definition run_c00 (args : list sx) : sx :=
  match args with
  | [SZ ty; SZ op; a; b; raw] =>
      with_ty ty (fun R ops =>
        match ndec ops a, ndec ops b with
        | Some x, Some y => c00_op ops op x y raw
        | _, _ => bad_case
        end)
  | _ => bad_case
  end.
