(* Case decoder / result encoder for property C01 (see tools/gen_c01.py and harness/src/c01.rs
   for the same language on the other two sides).
     (1 1 shape data req probes write)   access: write = () | ((idx) v)
     (1 2 shape datalen)                 constructors over data = [0 .. datalen)
     (1 3 shape req probes)              Tensor::from_fn(shape, producer) with
                                         producer [i0; i1; ..] = fold (acc * 7 + i + 1) from 1000,
                                         then access by req: (shape-of-tensor data
                                         (access-shape probe-results)); every length and the
                                         element count must be <= 65536 (else bad case)
     (1 4 0 v)                           0-D: From<T> for Tensor<T, 0> / from_scalar, then first /
                                         scalar / into_scalar: (0 (shape data (0 v) (0 v) (0 v)))
     (1 4 1 rows cols data rn cn wr wc v)  conversions of the rows x cols matrix over `data`
                                         (rows, cols <= 64, rows * cols = length data > 0) with the
                                         names rn, cn and a write of v at (wr, wc); the result is
                                         the list A..G (grid = every (r, c), r in 0..=rows,
                                         c in 0..=cols, as options):
        A  Matrix::into_tensor / TryFrom        (0 (shape grid)) | (1 shape)
        B  TensorRefMatrix::with_names          (0 (view_shape grid)) | (1 shape)
        C  Tensor::from(..).into_matrix / Into  (0 (rows cols grid)) | (2)
        D  MatrixRefTensor::from                (0 (view_rows view_columns grid)) | (2)
        E  Matrix::try_into_scalar              (0 x) | (1 ())
        F  write through TensorRefMatrix        (0 (data-after)) | (0 ()) | (1 shape)
        G  write through MatrixRefTensor        (0 (data-after)) | (0 ()) | (2)
     (1 4 2 shape data)                  Tensor::try_from, then the From impls of TensorView
                                         (harness side): (0 (shape data)) | (1 shape) *)
From Coq Require Import List ZArith NArith Bool.
From EasyML Require Import Base.Sx Model.Shape Model.Tensor Model.TensorFn Model.Transform
     Model.C01Conv.
Import ListNotations.

Definition c01_access (sh : shape) (data : list Z) (req : list name) (probes : list (list N))
           (write : option (list N * Z)) : sx :=
  soutcome (fun t =>
    soutcome (fun a =>
      SL [ sshape (access_shape a);
           slist (fun p => sopt SZ (access_get a p)) probes;
           match write with
           | None => soutcome (slist SZ) (Ok (t_data (a_src a)))
           | Some (idx, v) =>
               soutcome (fun a' => slist SZ (t_data (a_src a'))) (of_option (access_set a idx v))
           end ])
      (access_try_from t req))
    (tensor_try_from sh data).

Definition iota (n : N) : list Z := map Z.of_nat (seq 0 (N.to_nat n)).

Definition c01_ctor (sh : shape) (len : N) : sx :=
  let payload := fun t : tensor Z => SL [sshape (t_shape t); snat (length (t_data t))] in
  SL [ soutcome payload (tensor_from sh (iota len));
       soutcome payload (tensor_try_from sh (iota len)) ].

Definition c01_producer (idx : list N) : Z :=
  fold_left (fun acc i => acc * 7 + Z.of_N i + 1)%Z idx 1000%Z.

Definition c01_from_fn (sh : shape) (req : list name) (probes : list (list N)) : sx :=
  soutcome (fun t =>
    SL [ sshape (t_shape t); slist SZ (t_data t);
         soutcome (fun a => SL [ sshape (access_shape a);
                                 slist (fun p => sopt SZ (access_get a p)) probes ])
                  (access_try_from t req) ])
    (tensor_from_fn sh c01_producer).

Definition sgrid (g : list (list (option Z))) : sx := slist (slist (sopt SZ)) g.

Definition c01_conv_scalar (v : Z) : sx :=
  let t := tensor_from_scalar v in
  soutcome (fun t : tensor Z =>
              SL [ sshape (t_shape t); slist SZ (t_data t);
                   soutcome SZ (tensor_first t); soutcome SZ (tensor_first t);
                   soutcome SZ (tensor_first t) ])
           (Ok t).

Definition c01_conv_matrix (rows cols : N) (data : list Z) (rn cn : name) (wr wc : N) (v : Z) : sx :=
  let m : mat Z := (rows, cols, data) in
  let sh := [(rn, rows); (cn, cols)] in
  let t := tensor_from sh data in
  SL [ (* A *)
       soutcome (fun t => SL [ sshape (t_shape t); sgrid (probe_grid rows cols (mrt_get t)) ])
                (matrix_into_tensor rows cols data rn cn);
       (* B *)
       soutcome (fun w => SL [ sshape (trm_shape w);
                               sgrid (probe_grid rows cols (fun r c => trm_get w [r; c])) ])
                (trm_with_names m rn cn);
       (* C *)
       soutcome (fun m' : mat Z => SL [ sN (mat_rows m'); sN (mat_cols m');
                                        sgrid (probe_grid rows cols (mat_get m')) ])
                (obind t tensor_into_matrix);
       (* D *)
       soutcome (fun t => SL [ sN (mrt_rows t); sN (mrt_cols t);
                               sgrid (probe_grid rows cols (mrt_get t)) ]) t;
       (* E *)
       soutcome SZ (mat_try_into_scalar m);
       (* F *)
       soutcome (fun w => sopt (fun w' => slist SZ (mat_data (trm_src w'))) (trm_set w [wr; wc] v))
                (trm_with_names m rn cn);
       (* G *)
       soutcome (fun t => sopt (fun t' => slist SZ (t_data t')) (mrt_set t wr wc v)) t ].

Definition c01_conv_views (sh : shape) (data : list Z) : sx :=
  soutcome (fun t : tensor Z => SL [ sshape (t_shape t); slist SZ (t_data t) ])
           (tensor_try_from sh data).

Definition run_c01 (args : list sx) : sx :=
  match args with
  | [SZ 4%Z; SZ 0%Z; v] =>
      match dZ v with Some v => c01_conv_scalar v | None => bad_case end
  | [SZ 4%Z; SZ 1%Z; rows; cols; data; rn; cn; wr; wc; v] =>
      match dN rows, dN cols, dlist dZ data, dnat rn, dnat cn, dN wr, dN wc, dZ v with
      | Some rows, Some cols, Some data, Some rn, Some cn, Some wr, Some wc, Some v =>
          if (rows <=? 64)%N && (cols <=? 64)%N && (rows * cols =? N.of_nat (length data))%N
             && negb (Nat.eqb (length data) 0)
          then c01_conv_matrix rows cols data rn cn wr wc v else bad_case
      | _, _, _, _, _, _, _, _ => bad_case
      end
  | [SZ 4%Z; SZ 2%Z; sh; data] =>
      match dshape sh, dlist dZ data with
      | Some sh, Some data => c01_conv_views sh data
      | _, _ => bad_case
      end
  | [SZ 1%Z; sh; data; req; probes; write] =>
      match dshape sh, dlist dZ data, dnames req, dlist didx probes,
            dopt (dpair didx dZ) write with
      | Some sh, Some data, Some req, Some probes, Some write =>
          if forallb (fun p => Nat.eqb (length p) (length sh)) probes
             && Nat.eqb (length req) (length sh)
             && match write with Some (i, _) => Nat.eqb (length i) (length sh) | None => true end
          then c01_access sh data req probes write else bad_case
      | _, _, _, _, _ => bad_case
      end
  | [SZ 3%Z; sh; req; probes] =>
      match dshape sh, dnames req, dlist didx probes with
      | Some sh, Some req, Some probes =>
          if forallb (fun p => Nat.eqb (length p) (length sh)) probes
             && Nat.eqb (length req) (length sh)
             && forallb (fun d => (snd d <=? 65536)%N) sh && (elements sh <=? 65536)%N
          then c01_from_fn sh req probes else bad_case
      | _, _, _ => bad_case
      end
  | [SZ 2%Z; sh; len] =>
      match dshape sh, dN len with
      | Some sh, Some len => c01_ctor sh len
      | _, _ => bad_case
      end
  | _ => bad_case
  end.
