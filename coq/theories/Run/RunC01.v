(* Case decoder / result encoder for property C01 (see tools/gen_c01.py and harness/src/c01.rs
   for the same language on the other two sides).
     (1 1 shape data req probes write)   access: write = () | ((idx) v)
     (1 2 shape datalen)                 constructors over data = [0 .. datalen)
     (1 3 shape req probes)              Tensor::from_fn(shape, producer) with
                                         producer [i0; i1; ..] = fold (acc * 7 + i + 1) from 1000,
                                         then access by req: (shape-of-tensor data
                                         (access-shape probe-results)); every length and the
                                         element count must be <= 65536 (else bad case) *)
From Coq Require Import List ZArith NArith Bool.
From EasyML Require Import Base.Sx Model.Shape Model.Tensor Model.TensorFn.
Import ListNotations.

Definition c01_access (sh : shape) (data : list Z) (req : list name) (probes : list (list N))
           (write : option (list N * Z)) : sx :=
  soutcome (fun t =>
    soutcome (fun a =>
      SL [ sshape (access_shape a);
           slist (fun p => sopt SZ (access_get a p)) probes;
           match write with
           | None => soutcome (slist SZ) (Ok (t_data (a_src a)))
           | Some (idx, v) =>
               soutcome (fun a' => slist SZ (t_data (a_src a'))) (of_option (access_set a idx v))
           end ])
      (access_try_from t req))
    (tensor_try_from sh data).

Definition iota (n : N) : list Z := map Z.of_nat (seq 0 (N.to_nat n)).

Definition c01_ctor (sh : shape) (len : N) : sx :=
  let payload := fun t : tensor Z => SL [sshape (t_shape t); snat (length (t_data t))] in
  SL [ soutcome payload (tensor_from sh (iota len));
       soutcome payload (tensor_try_from sh (iota len)) ].

Definition c01_producer (idx : list N) : Z :=
  fold_left (fun acc i => acc * 7 + Z.of_N i + 1)%Z idx 1000%Z.

Definition c01_from_fn (sh : shape) (req : list name) (probes : list (list N)) : sx :=
  soutcome (fun t =>
    SL [ sshape (t_shape t); slist SZ (t_data t);
         soutcome (fun a => SL [ sshape (access_shape a);
                                 slist (fun p => sopt SZ (access_get a p)) probes ])
                  (access_try_from t req) ])
    (tensor_from_fn sh c01_producer).

Definition run_c01 (args : list sx) : sx :=
  match args with
  | [SZ 1%Z; sh; data; req; probes; write] =>
      match dshape sh, dlist dZ data, dnames req, dlist didx probes,
            dopt (dpair didx dZ) write with
      | Some sh, Some data, Some req, Some probes, Some write =>
          if forallb (fun p => Nat.eqb (length p) (length sh)) probes
             && Nat.eqb (length req) (length sh)
             && match write with Some (i, _) => Nat.eqb (length i) (length sh) | None => true end
          then c01_access sh data req probes write else bad_case
      | _, _, _, _, _ => bad_case
      end
  | [SZ 3%Z; sh; req; probes] =>
      match dshape sh, dnames req, dlist didx probes with
      | Some sh, Some req, Some probes =>
          if forallb (fun p => Nat.eqb (length p) (length sh)) probes
             && Nat.eqb (length req) (length sh)
             && forallb (fun d => (snd d <=? 65536)%N) sh && (elements sh <=? 65536)%N
          then c01_from_fn sh req probes else bad_case
      | _, _, _ => bad_case
      end
  | [SZ 2%Z; sh; len] =>
      match dshape sh, dN len with
      | Some sh, Some len => c01_ctor sh len
      | _, _ => bad_case
      end
  | _ => bad_case
  end.
