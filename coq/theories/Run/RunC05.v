(* Case decoder / result encoder for property C05 (same language: harness/src/c05.rs,
   generator tools/props/c05.py).

     (5 1 ty seed body outputs)
   ty, body, outputs: exactly the program language of C04 (Run/RunC04.v), run through Trace:
   the variable instruction at position `seed` is Trace::variable, every other variable and
   every constant instruction is Trace::constant; record (op) number becomes trace (op) number;
   number - trace and number / trace (which Trace does not offer) are written
   Trace::constant(c) - x and Trace::constant(c) / x; c.pow(trace) exists.
   result  ( (number derivative) per output )                                              *)
From Coq Require Import List ZArith NArith Bool Arith.
From EasyML Require Import Base.Sx Model.Num Model.AD Model.Forward Run.RunC04.
Import ListNotations.

Definition c05_case {R} (ops : numops R) (seed body outs : sx) : sx :=
  match dnat seed, dprog ops body, dlist dnat outs with
  | Some seed, Some prog, Some outs =>
      if forallb (fun o => Nat.ltb o (length prog)) outs
         && existsb (Nat.eqb seed) (var_nodes prog)
      then
        let nodes := trun ops seed prog in
        slist (fun o => let t := gett ops nodes o in
                        SL [nenc ops (tnumber t); nenc ops (tderivative t)]) outs
      else bad_case
  | _, _, _ => bad_case
  end.

(* (5 2 seed body outputs): FLOAT ORACLE, see Run/RunC04.v: flags computed and checked on the Rust
   side only (forms agree; forward = reverse derivative for the seeded variable; numbers = plain
   f64); the model validates the case and answers the expected flags. *)
Definition c05_float_case (seed body outs : sx) : sx :=
  match dnat seed, dprog Qops body, dlist dnat outs with
  | Some seed, Some prog, Some outs =>
      if forallb (fun o => Nat.ltb o (length prog)) outs
         && existsb (Nat.eqb seed) (var_nodes prog)
      then float_flags else bad_case
  | _, _, _ => bad_case
  end.

Definition run_c05 (args : list sx) : sx :=
  match args with
  | [SZ 1%Z; SZ ty; seed; body; outs] => with_ty ty (fun R ops => c05_case ops seed body outs)
  | [SZ 2%Z; seed; body; outs] => c05_float_case seed body outs
  | _ => bad_case
  end.
