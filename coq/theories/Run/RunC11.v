(* Case decoder / result encoder for property C11 (same language in harness/src/c11.rs and
   tools/props/c11.py).  Element type: integers (i64 on the Rust side).

     (11 2 S S (i ...))    ->  ((b ...) (b ...) (b ...))   Slice::accepts(i) of the two slices and
                                  Slice2D{rows: S, columns: S}.accepts(i, i'), i' the next probe (cyclic)
     (11 3 r c S S (i ...)) -> (A A' B B' G G' R1 R2 R3 R4)    the slice-algebra tier (wave 2), r, c in 1..8:
          A / A'   Slice::accepts of the row slice at 0, 1, ..., r+1 and then at the extra probes i ...:
                   A the expression built from the enum variants, A' built with the methods
                   .not() / .and() / .or() (Model/Slices.v by_methods)
          B / B'   the same for the column slice at 0 ... c+1 and the extra probes
          G / G'   Slice2D::accepts(i, j) for i in 0..=r+1, j in 0..=c+1 (row-major): G for
                   Slice2D::new().rows(enum).columns(enum), G' for slices::new().columns(methods).rows(methods)
          R1 .. R4 (o obs) of one retention applied to Matrix::from_fn((r, c), |(i, j)| 100 + 10 i + j):
                   R1 retain_mut(rows-first, enum)      R2 retain_mut(columns-first, methods)
                   R3 retain(rows-first, methods)       R4 retain(columns-first, enum)
     (11 1 start (op ...))
       start:  (0 (row ...))      Matrix::from(vec of vecs)      row = (v ...)
               (1 r c (v ...))    Matrix::from_flat_row_major((r, c), values)
               (2 v)              Matrix::from_scalar
               (3 (v ...))        Matrix::row
               (4 (v ...))        Matrix::column
               (5 r c)            Matrix::from_fn((r, c), |(i, j)| 100 + 10 * i + j)
               (6 r c v)          Matrix::empty(v, (r, c))
       op:     (0 row v)          insert_row
               (1 row (v ...))    insert_row_with(row, values.into_iter())
               (2 col v)          insert_column
               (3 col (v ...))    insert_column_with
               (4 row)            remove_row
               (5 col)            remove_column
               (6 S S)            retain_mut(rows = S, columns = S)
               (7 S S)            m = m.retain(..)
               (8)                m = m.transpose()
               (9)                transpose_mut
               (10 r c v)         set
               (11 k)             map_mut(|x| x + k)
               (12 k)             map_mut_with_index(|x, i, j| x + k * (10 * i + j + 1))
               (13 (rp) (cp) k v) { let mut parts = m.partition(&rp, &cp); cell (i, j) — the PART's
                                  own index — of part k (if there is one) is overwritten with
                                  v + 10 i + j } — the borrow ends, the same matrix is used on;
                                  2 = partition panicked.  (Wave 2: distinguishable values per
                                  cell, written through the part's set / get_reference_mut /
                                  map_mut_with_index / row_major_reference_mut_iter, so that the
                                  cell mapping of the part matters.)
       S:      (0) All  (1) None  (2 i) Single  (3 a b) Range(a..b)  (4 S) Not  (5 S S) And
               (6 S S) Or

   result:  (2)                       the constructor panicked
            (0 (obs (o obs) ...))     the observation of the start matrix, then per operation
                                      o = 0 returned / 2 panicked and the observation after it
                                      (the same object keeps being used after a caught panic)
       obs = ((rows cols) (e ...) (e ...) (e ...) (v ...))
             size(); get(r, c) for all r, c in row-major order; row_major_iter();
             column_major_iter(); the stored data (parsed from the Debug output);
             e = (v) or () where the read panicked *)
From Coq Require Import List ZArith NArith Bool.
From EasyML Require Import Base.Sx Model.Matrix Model.MatrixHistory Model.Slices.
Import ListNotations.
Local Open Scope N_scope.

Fixpoint dslice_fuel (fuel : nat) (s : sx) : option slice :=
  match fuel with
  | O => None
  | S fuel' =>
      match s with
      | SL [SZ 0%Z] => Some SAll
      | SL [SZ 1%Z] => Some SNone
      | SL [SZ 2%Z; i] => option_map SSingle (dN i)
      | SL [SZ 3%Z; a; b] => match dN a, dN b with
                             | Some a, Some b => Some (SRange a b)
                             | _, _ => None
                             end
      | SL [SZ 4%Z; t] => option_map SNot (dslice_fuel fuel' t)
      | SL [SZ 5%Z; t; u] => match dslice_fuel fuel' t, dslice_fuel fuel' u with
                             | Some t, Some u => Some (SAnd t u)
                             | _, _ => None
                             end
      | SL [SZ 6%Z; t; u] => match dslice_fuel fuel' t, dslice_fuel fuel' u with
                             | Some t, Some u => Some (SOr t u)
                             | _, _ => None
                             end
      | _ => None
      end
  end.
Definition dslice : sx -> option slice := dslice_fuel 12%nat.

Definition index_term (k : Z) (x : Z) (i j : N) : Z :=
  (x + k * (10 * Z.of_N i + Z.of_N j + 1))%Z.

Definition dop (s : sx) : option (op Z) :=
  match s with
  | SL [SZ 0%Z; r; v] => match dN r, dZ v with Some r, Some v => Some (OInsertRow r v) | _, _ => None end
  | SL [SZ 1%Z; r; vs] => match dN r, dlist dZ vs with Some r, Some vs => Some (OInsertRowWith r vs) | _, _ => None end
  | SL [SZ 2%Z; c; v] => match dN c, dZ v with Some c, Some v => Some (OInsertColumn c v) | _, _ => None end
  | SL [SZ 3%Z; c; vs] => match dN c, dlist dZ vs with Some c, Some vs => Some (OInsertColumnWith c vs) | _, _ => None end
  | SL [SZ 4%Z; r] => option_map ORemoveRow (dN r)
  | SL [SZ 5%Z; c] => option_map ORemoveColumn (dN c)
  | SL [SZ 6%Z; a; b] => match dslice a, dslice b with Some a, Some b => Some (ORetainMut (mkSlice2D a b)) | _, _ => None end
  | SL [SZ 7%Z; a; b] => match dslice a, dslice b with Some a, Some b => Some (ORetain (mkSlice2D a b)) | _, _ => None end
  | SL [SZ 8%Z] => Some OTranspose
  | SL [SZ 9%Z] => Some OTransposeMut
  | SL [SZ 10%Z; r; c; v] => match dN r, dN c, dZ v with Some r, Some c, Some v => Some (OSet r c v) | _, _, _ => None end
  | SL [SZ 11%Z; k] => option_map (fun k => OMapMut (fun x => (x + k)%Z)) (dZ k)
  | SL [SZ 12%Z; k] => option_map (fun k => OMapMutWithIndex (index_term k)) (dZ k)
  | _ => None
  end.

Definition dxop (s : sx) : option (xop Z) :=
  match s with
  | SL [SZ 13%Z; rp; cp; k; v] =>
      match dlist dN rp, dlist dN cp, dnat k, dZ v with
      | Some rp, Some cp, Some k, Some v =>
          Some (XPartitionWrite rp cp k (fun i j => (v + 10 * Z.of_N i + Z.of_N j)%Z))
      | _, _, _, _ => None
      end
  | _ => option_map XOp (dop s)
  end.

Definition dstart (s : sx) : option (outcome (matrix Z)) :=
  match s with
  | SL [SZ 0%Z; rows] => option_map from_rows (dlist (dlist dZ) rows)
  | SL [SZ 1%Z; r; c; vs] => match dN r, dN c, dlist dZ vs with
                             | Some r, Some c, Some vs => Some (from_flat_row_major (r, c) vs)
                             | _, _, _ => None
                             end
  | SL [SZ 2%Z; v] => option_map (fun v => Ok (from_scalar v)) (dZ v)
  | SL [SZ 3%Z; vs] => option_map row_ctor (dlist dZ vs)
  | SL [SZ 4%Z; vs] => option_map column_ctor (dlist dZ vs)
  | SL [SZ 5%Z; r; c] => match dN r, dN c with
                         | Some r, Some c =>
                             if (r <=? 64) && (c <=? 64)
                             then Some (from_fn (r, c) (fun i j => (100 + 10 * Z.of_N i + Z.of_N j)%Z))
                             else None
                         | _, _ => None
                         end
  | SL [SZ 6%Z; r; c; v] => match dN r, dN c, dZ v with
                            | Some r, Some c, Some v =>
                                if (r <=? 64) && (c <=? 64) then Some (empty_ctor v (r, c)) else None
                            | _, _, _ => None
                            end
  | _ => None
  end.

Definition sobs (m : matrix Z) : sx :=
  SL [ SL [sN (m_rows m); sN (m_cols m)];
       slist (sopt SZ) (obs_elements m);
       slist (sopt SZ) (obs_elements m);
       slist (sopt SZ) (obs_column_major m);
       slist SZ (m_data m) ].

Definition c11_history (start : outcome (matrix Z)) (ops : list (xop Z)) : sx :=
  soutcome (fun m =>
    SL (sobs m :: map (fun r : matrix Z * bool => SL [SZ (if snd r then 0 else 2)%Z; sobs (fst r)]) (xtrace m ops)))
    start.

Fixpoint rotate_pairs (first : N) (l : list N) : list (N * N) :=
  match l with
  | [] => []
  | [x] => [(x, first)]
  | x :: ((y :: _) as rest) => (x, y) :: rotate_pairs first rest
  end.

Definition c11_accepts (a b : slice) (probes : list N) : sx :=
  SL [ slist sbool (map (slice_accepts a) probes);
       slist sbool (map (slice_accepts b) probes);
       slist sbool (map (fun p => slice2d_accepts (mkSlice2D a b) (fst p) (snd p))
                        (rotate_pairs (hd 0 probes) probes)) ].

(* (11 3 ...): the slice-algebra tier *)
Definition c11_algebra (r c : N) (a b : slice) (extra : list N) : sx :=
  let am := by_methods a in
  let bm := by_methods b in
  let rprobes := nrange (r + 2) ++ extra in
  let cprobes := nrange (c + 2) ++ extra in
  let cells := pairs (r + 2) (c + 2) in
  let grid_of (s : slice2d) := slist sbool (map (fun p => slice2d_accepts s (fst p) (snd p)) cells) in
  match from_fn (r, c) (fun i j => (100 + 10 * Z.of_N i + Z.of_N j)%Z) with
  | Ok m =>
      let step (o : op Z) :=
        let res := impl_step m o in SL [SZ (if snd res then 0 else 2)%Z; sobs (fst res)] in
      SL [ slist sbool (map (slice_accepts a) rprobes); slist sbool (map (slice_accepts am) rprobes);
           slist sbool (map (slice_accepts b) cprobes); slist sbool (map (slice_accepts bm) cprobes);
           grid_of (slice2d_rows_then_columns a b); grid_of (slice2d_columns_then_rows bm am);
           step (ORetainMut (slice2d_rows_then_columns a b));
           step (ORetainMut (slice2d_columns_then_rows bm am));
           step (ORetain (slice2d_rows_then_columns am bm));
           step (ORetain (slice2d_columns_then_rows b a)) ]
  | _ => bad_case
  end.

Definition run_c11 (args : list sx) : sx :=
  match args with
  | [SZ 1%Z; start; ops] =>
      match dstart start, dlist dxop ops with
      | Some start, Some ops => c11_history start ops
      | _, _ => bad_case
      end
  | [SZ 3%Z; r; c; a; b; extra] =>
      match dN r, dN c, dslice a, dslice b, dlist dN extra with
      | Some r, Some c, Some a, Some b, Some extra =>
          if (1 <=? r) && (r <=? 8) && (1 <=? c) && (c <=? 8) then c11_algebra r c a b extra else bad_case
      | _, _, _, _, _ => bad_case
      end
  | [SZ 2%Z; a; b; probes] =>
      match dslice a, dslice b, dlist dN probes with
      | Some a, Some b, Some probes => c11_accepts a b probes
      | _, _, _ => bad_case
      end
  | _ => bad_case
  end.
